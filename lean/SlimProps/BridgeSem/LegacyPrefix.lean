import Generated.Funcs
import SlimProps.BridgeSem.PrintAxioms
import SlimProps.BridgeSem.Common
import SlimProps.BridgeSem.Extern
import SlimProps.BridgeSem.LegacyLeaf
import SlimModel.Legacy
import SlimProofs.LegacyPrefix

/-
  SlimProps.BridgeSem.LegacyPrefix — tie 1, semantic part, the LEGACY LOADER (trie/slimtrie_marshal.go):
  `before000512InnerPrefixTobitstr` translated WHOLE (`Generated.W.before000512InnerPrefixTobitstr` and its
  loop `…_loop1`: the three-part guard `ips != nil && ips.PositionBM != nil && len(ips.Bytes) > 0`, the
  loop `for i := int32(0); ; i++` with `bitmap.Select32R64`, the slice `old := ips.Bytes[from:to]` — a VIEW
  of the stored bytes —, the per-prefix arithmetic (`pl`, the control bit `old[0]&1`, the bit length `pl<<3`
  resp. `pl<<3 - TrailingZeros8(old[pl]) - 1` in `int32`), `bitstr.New(string(old[1:]), 0, bitLen)`,
  `copy(old, newPref)` as an update IN PLACE of `st.inner.InnerPrefixes.Bytes`, the end test and `break`)
  = the model's `Legacy.innerPrefixTobitstr` (SlimModel/Legacy.lean), INCLUDING when it panics:

    `convertOne_go`   the PER-PREFIX step: the eight facts that tie the loop body's computation on
                      `old = c0 :: rest` to `Legacy.convertOne old` (SlimProofs/LegacyPrefix.lean: bit length
                      from the control byte and the trailing zeros, then `bitstrNew0`): `pl`, `old[0]`, the
                      control bit, `pl<<3`, `old[pl]`, `old[1:]`, and for either parity
                      `bitstr.New(old[1:], 0, bitLen) = (okOpt (convertOne old)).map natBytes` — a negative bit
                      length (`int32` pattern ≥ 2^31) panics in `bitstr.New` as the model says
    `go_step`         the model's loop body in terms of `select32R64`, `sliceBytes`, `convertOne`, `copyInto`
    `loop_sem`        the translated loop = the model's `go`, for every fuel, position and byte string
    `before000512InnerPrefixTobitstr_sem`
                      Generated.W.before000512InnerPrefixTobitstr (prefixFuel s) (absInst s v)
                        = (okOpt (Legacy.innerPrefixTobitstr s)).map (absInst · v)
  under `PrefixFits s`: `8 * len(InnerPrefixes.Bytes) + 8 < 2^31`, position bitmap of fewer than 2^32 bits.
  Fuel: the model's own (`len + 1`); running out of it is `none` on both sides.

  External semantics ASSUMED (Generated/GoSem.lean), related to the model here:
    `bitstrNew_sem`, `bitstrNew_neg`   bitstr.New (transcribed from openacid/low bitstr/bitstr.go) = `Legacy.bitstrNew0`
    `trailingZeros8_sem`               bits.TrailingZeros8 = `Legacy.trailingZeros8`
    `copyInto_sem`                     copy(view, src) = `Legacy.copyInto`
  and `bitmap.Select32R64` (agT1: `Extern.select32R64_sem`).  See SlimProps/BridgeSem.lean for the overview.
-/

set_option linter.unusedSimpArgs false
set_option linter.unusedVariables false

open Generated Bits

namespace BridgeSem

/-! ### external semantics ↔ model: `bits.TrailingZeros8`, `bitstr.New(s, 0, n)` -/

theorem trailingZeros8_sem (b : UInt8) : Go.trailingZeros8 b.toNat = Legacy.trailingZeros8 b := by
  unfold Go.trailingZeros8 Legacy.trailingZeros8
  cases (List.range 8).find? (fun k => b.toNat.testBit k) <;> rfl

theorem trailingZeros8_le (b : UInt8) : Legacy.trailingZeros8 b ≤ 8 := by
  unfold Legacy.trailingZeros8
  cases h : (List.range 8).find? (fun k => b.toNat.testBit k) with
  | none => simp
  | some k =>
    have := List.mem_of_find?_eq_some h
    simp at this ⊢; omega

/-- the mask byte: `byte(bitmap.RMask[(8-toBit)&7])` = the model's mask -/
theorem rmask_byte (n : Nat) (hn : n < 2 ^ 31) :
    Go.conv 64 false 8 (2 ^ 64 - 2 ^ (Go.and (Go.sub 32 8 n) 7))
      = (if n % 8 = 0 then 0xff else (0xff <<< (8 - n % 8)) % 256) := by
  have hk : Go.and (Go.sub 32 8 n) 7 = (8 - n % 8) % 8 := by
    rw [and_eq, and_7]; unfold Go.sub Go.wrap; omega
  rw [hk, conv_narrow _ _ _ _ (by omega)]
  have : n % 8 < 8 := Nat.mod_lt _ (by omega)
  generalize n % 8 = r at *
  have hr : r = 0 ∨ r = 1 ∨ r = 2 ∨ r = 3 ∨ r = 4 ∨ r = 5 ∨ r = 6 ∨ r = 7 := by omega
  rcases hr with rfl | rfl | rfl | rfl | rfl | rfl | rfl | rfl <;> decide

theorem set2 (B : List Nat) (x y m : Nat) :
    ((B ++ [x] ++ [0]).set B.length y).set (B.length + 1) m = B ++ [y, m] := by
  simp [List.set_append]

/-- `bitstr.New(s, 0, n)` (GoSem transcription) = the model's `Legacy.bitstrNew0 s n`, panics included -/
theorem bitstrNew_sem (bs : Bytes) (n : Nat) (hn : n + 7 < 2 ^ 31) :
    Go.bitstrNew (natBytes bs) 0 n = (okOpt (Legacy.bitstrNew0 bs n)).map natBytes := by
  unfold Go.bitstrNew Legacy.bitstrNew0
  by_cases h0 : n = 0
  · subst h0; simp [okOpt, natBytes, Go.and, Except.toOption]
  · have hc : ¬ (0 = n ∧ Go.and 0 7 = 0) := fun h => h0 h.1.symm
    rw [if_neg hc, if_neg h0]
    have htb : Go.sar 32 (Go.add 32 n 7) 3 = (n + 7) / 8 := by
      rw [add_small (by omega), sar_small 3 (by omega)]
    have hfb : Go.sar 32 0 3 = 0 := by decide
    have hmask := rmask_byte n (by omega)
    simp only [htb, hfb, hmask]
    generalize hmk : (if n % 8 = 0 then 0xff else (0xff <<< (8 - n % 8)) % 256) = mask
    have htb1 : 1 ≤ (n + 7) / 8 := by omega
    have htb2 : (n + 7) / 8 < 2 ^ 28 := by omega
    generalize (n + 7) / 8 = tb at *
    have hl : Go.sub 32 tb 0 = tb := by rw [sub_small (by omega) (by omega)]; rfl
    have hl1 : Go.add 32 tb 1 = tb + 1 := by rw [add_small (by omega)]
    have hl2 : Go.sub 32 tb 1 = tb - 1 := by rw [sub_small (by omega) (by omega)]
    have hmake : Go.makeS 32 (tb + 1) = some (List.replicate (tb + 1) 0) := by
      unfold Go.makeS; rw [if_pos (by omega)]
    simp only [hl, hl1, hl2, hmake, Option.bind_eq_bind, Option.bind_some]
    unfold Go.sliceS
    rw [natBytes_length]
    by_cases hle : tb ≤ bs.length
    · rw [if_pos ⟨by omega, by omega, by omega, hle⟩, if_neg (by omega)]
      simp only [Option.bind_some, List.drop_zero, Nat.sub_zero]
      -- the payload `B ++ [x]`
      have hBl : ((natBytes bs).take tb).length = tb := by rw [List.length_take, natBytes_length]; omega
      have hne : (natBytes bs).take tb ≠ [] := by
        intro h; rw [h] at hBl; simp at hBl; omega
      obtain ⟨B, x, hBx⟩ : ∃ B x, (natBytes bs).take tb = B ++ [x] :=
        ⟨_, _, (List.dropLast_concat_getLast hne).symm⟩
      have hBlen : B.length = tb - 1 := by
        have : tb = B.length + 1 := by rw [← hBl, hBx]; simp
        omega
      have hcp : Go.copyPrefix (List.replicate (tb + 1) 0) ((natBytes bs).take tb) = B ++ [x] ++ [0] := by
        unfold Go.copyPrefix
        rw [hBl, List.length_replicate, Nat.min_eq_right (by omega)]
        show List.take tb (List.take tb (natBytes bs)) ++ List.drop tb (List.replicate (tb + 1) 0) = _
        rw [List.take_of_length_le (Nat.le_of_eq hBl), List.drop_replicate, hBx, show tb + 1 - tb = 1 by omega]
        rfl
      rw [hcp]
      have hidx : Go.idxS 32 (B ++ [x] ++ [0]) (tb - 1) = some x := by
        rw [idxS_eq _ _ _ (by omega), ← hBlen]; simp
      rw [hidx]
      simp only [Option.bind_some]
      have hs1 : Go.setS 32 (B ++ [x] ++ [0]) (tb - 1) (Go.and x mask)
          = some ((B ++ [x] ++ [0]).set B.length (Go.and x mask)) := by
        unfold Go.setS; rw [if_pos ⟨by omega, by simp; omega⟩, hBlen]
      rw [hs1]
      simp only [Option.bind_some]
      have htb' : tb = B.length + 1 := by omega
      have hs2 : Go.setS 32 ((B ++ [x] ++ [0]).set B.length (Go.and x mask)) tb mask
          = some (((B ++ [x] ++ [0]).set B.length (Go.and x mask)).set (B.length + 1) mask) := by
        unfold Go.setS; rw [if_pos ⟨by omega, by simp; omega⟩, htb']
      rw [hs2, set2]
      -- the model side
      have hbody : natBytes (bs.take tb) = B ++ [x] := by
        rw [← hBx]; simp [natBytes, List.map_take]
      have hbne : bs.take tb ≠ [] := by
        intro h; rw [h] at hbody; simp [natBytes] at hbody
      have hsplit := (List.dropLast_concat_getLast hbne).symm
      have hB' : natBytes (bs.take tb).dropLast = B ∧ ((bs.take tb).getLast hbne).toNat = x := by
        have h2 : natBytes (bs.take tb) = natBytes (bs.take tb).dropLast ++ [((bs.take tb).getLast hbne).toNat] := by
          conv => lhs; rw [hsplit]
          simp [natBytes]
        rw [hbody] at h2
        have := List.append_inj' h2 (by simp)
        exact ⟨this.1.symm, by simpa using this.2.symm⟩
      have hgl : ((bs.take tb).getLast?.getD 0).toNat = x := by
        rw [List.getLast?_eq_some_getLast hbne]; simpa using hB'.2
      have hx : x < 256 := by rw [← hB'.2]; exact byte_lt _
      have hmlt : mask < 256 := by
        rw [← hmk]; split
        · omega
        · exact Nat.mod_lt _ (by omega)
      have hand : x &&& mask < 256 := Nat.lt_of_le_of_lt Nat.and_le_left hx
      simp only [okOpt, Except.toOption, Option.map_some, natBytes, List.map_append, List.map_cons, List.map_nil,
        hgl, and_eq]
      have e1 : (UInt8.ofNat (x &&& mask)).toNat = x &&& mask := by
        rw [UInt8.toNat_ofNat']; exact Nat.mod_eq_of_lt hand
      have e2 : (UInt8.ofNat mask).toNat = mask := by
        rw [UInt8.toNat_ofNat']; exact Nat.mod_eq_of_lt hmlt
      rw [e1, e2]
      have := hB'.1
      unfold natBytes at this
      rw [this]
    · rw [if_neg (by omega), if_pos (by omega)]
      simp [okOpt, Except.toOption]

/-- a negative bit length (`pl<<3 - nZero - 1` with `pl = 0`, or beyond): `bitstr.New` panics -/
theorem bitstrNew_neg (s : List Nat) (m : Nat) (h1 : 1 ≤ m) (h9 : m ≤ 9) :
    Go.bitstrNew s 0 (2 ^ 32 - m) = none := by
  have hm : m = 1 ∨ m = 2 ∨ m = 3 ∨ m = 4 ∨ m = 5 ∨ m = 6 ∨ m = 7 ∨ m = 8 ∨ m = 9 := by omega
  unfold Go.bitstrNew
  rcases hm with rfl | rfl | rfl | rfl | rfl | rfl | rfl | rfl | rfl
  all_goals
    rw [if_neg (by decide)]
    first
      | (have e1 : Go.sar 32 (Go.add 32 (2 ^ 32 - 8) 7) 3 = 2 ^ 32 - 1 := by decide
         have e2 : Go.sar 32 0 3 = 0 := by decide
         have e3 : Go.sub 32 (2 ^ 32 - 1) 0 = 2 ^ 32 - 1 := by decide
         have e4 : Go.add 32 (2 ^ 32 - 1) 1 = 0 := by decide
         simp only [e1, e2, e3, e4, Option.bind_eq_bind]
         have e5 : Go.sliceS 32 s 0 (2 ^ 32 - 1) = none := by unfold Go.sliceS; rw [if_neg (by omega)]
         rw [e5]; cases Go.makeS 32 0 <;> rfl)
      | (have e1 : Go.sar 32 (Go.add 32 (2 ^ 32 - 9) 7) 3 = 2 ^ 32 - 1 := by decide
         have e2 : Go.sar 32 0 3 = 0 := by decide
         have e3 : Go.sub 32 (2 ^ 32 - 1) 0 = 2 ^ 32 - 1 := by decide
         have e4 : Go.add 32 (2 ^ 32 - 1) 1 = 0 := by decide
         simp only [e1, e2, e3, e4, Option.bind_eq_bind]
         have e5 : Go.sliceS 32 s 0 (2 ^ 32 - 1) = none := by unfold Go.sliceS; rw [if_neg (by omega)]
         rw [e5]; cases Go.makeS 32 0 <;> rfl)
      | (have e2 : Go.sar 32 0 3 = 0 := by decide
         have e3 : Go.sub 32 0 0 = 0 := by decide
         have e4 : Go.add 32 0 1 = 1 := by decide
         have e6 : Go.sub 32 0 1 = 2 ^ 32 - 1 := by decide
         have e7 : Go.makeS 32 1 = some [0] := by decide
         have e8 : Go.sliceS 32 s 0 0 = some [] := by unfold Go.sliceS; simp
         simp only [show Go.sar 32 (Go.add 32 (2 ^ 32 - 1) 7) 3 = 0 by decide,
           show Go.sar 32 (Go.add 32 (2 ^ 32 - 2) 7) 3 = 0 by decide,
           show Go.sar 32 (Go.add 32 (2 ^ 32 - 3) 7) 3 = 0 by decide,
           show Go.sar 32 (Go.add 32 (2 ^ 32 - 4) 7) 3 = 0 by decide,
           show Go.sar 32 (Go.add 32 (2 ^ 32 - 5) 7) 3 = 0 by decide,
           show Go.sar 32 (Go.add 32 (2 ^ 32 - 6) 7) 3 = 0 by decide,
           show Go.sar 32 (Go.add 32 (2 ^ 32 - 7) 7) 3 = 0 by decide,
           e2, e3, e4, e6, e7, e8, Option.bind_eq_bind, Option.bind_some]
         have e9 : ∀ l : List Nat, Go.idxS 32 l (2 ^ 32 - 1) = none := by
           intro l; unfold Go.idxS; rw [if_neg (by omega)]
         rw [e9]; rfl)

/-- the model's loop body, all outcomes: `select`, the slice, the per-prefix step `Legacy.convertOne`
    (SlimProofs/LegacyPrefix.lean), the copy in place, the end test -/
theorem go_step (pbm : BitmapMsg) (fuel i : Nat) (bytes : Bytes) :
    Legacy.innerPrefixTobitstr.go pbm (fuel + 1) i bytes =
      (select32R64 pbm i >>= fun p =>
        Slim.sliceBytes bytes p.1 p.2 >>= fun old =>
          Legacy.convertOne old >>= fun new =>
            if p.2 = (Legacy.copyInto bytes p.1 old.length new).length
            then .ok (Legacy.copyInto bytes p.1 old.length new)
            else Legacy.innerPrefixTobitstr.go pbm fuel (i + 1) (Legacy.copyInto bytes p.1 old.length new)) := by
  rw [Legacy.innerPrefixTobitstr.go.eq_2]
  cases hsel : select32R64 pbm i with
  | error e => rfl
  | ok p =>
    obtain ⟨frm, to⟩ := p
    simp only [bind, Except.bind]
    cases hsl : Slim.sliceBytes bytes frm to with
    | error e => rfl
    | ok old =>
      simp only []
      unfold Legacy.convertOne
      cases hh : old.head? with
      | none => rfl
      | some c0 =>
        simp only []
        change (if Legacy.bitLenOf old c0 < 0 then _ else _) = _
        by_cases hneg : Legacy.bitLenOf old c0 < 0
        · rw [if_pos hneg]; simp only [if_pos hneg]
        · rw [if_neg hneg]; simp only [if_neg hneg]
          rfl

/-- the per-prefix step: from the bytes `old = c0 :: rest` of one stored prefix the loop body computes
    `pl = len(old) - 1`, the control bit `old[0] & 1`, the bit length `pl<<3` resp.
    `pl<<3 - TrailingZeros8(old[pl]) - 1` in `int32`, and `bitstr.New(old[1:], 0, bitLen)`: that is the
    model's `Legacy.convertOne old` (bit length in `Int`, negative = panic) -/
theorem convertOne_go (c0 : UInt8) (rest : Bytes) (hlen : (rest.length + 1) * 8 < 2 ^ 31) :
    Go.sub 32 (Go.conv 64 true 32 (natBytes (c0 :: rest)).length) 1 = rest.length
    ∧ Go.idxS 64 (natBytes (c0 :: rest)) 0 = some c0.toNat
    ∧ Go.and c0.toNat 1 = c0.toNat % 2
    ∧ Go.shl 32 rest.length 3 = rest.length * 8
    ∧ Go.idxS 32 (natBytes (c0 :: rest)) rest.length = some ((c0 :: rest).getLast?.getD 0).toNat
    ∧ Go.sliceFromS 64 (natBytes (c0 :: rest)) 1 = some (natBytes rest)
    ∧ (c0.toNat % 2 = 0 →
        Go.bitstrNew (natBytes rest) 0 (rest.length * 8) = (okOpt (Legacy.convertOne (c0 :: rest))).map natBytes)
    ∧ (c0.toNat % 2 ≠ 0 →
        Go.bitstrNew (natBytes rest) 0
            (Go.sub 32 (Go.sub 32 (rest.length * 8)
              (Go.conv 64 true 32 (Go.trailingZeros8 ((c0 :: rest).getLast?.getD 0).toNat))) 1)
          = (okOpt (Legacy.convertOne (c0 :: rest))).map natBytes) := by
  have hl : (natBytes (c0 :: rest)).length = rest.length + 1 := by simp [natBytes]
  refine ⟨?_, ?_, ?_, ?_, ?_, ?_, ?_, ?_⟩
  · rw [hl, conv_narrow _ _ _ _ (by omega), Nat.mod_eq_of_lt (by omega), sub_small (by omega) (by omega)]
    omega
  · unfold Go.idxS; rw [if_pos (by omega)]; simp [natBytes]
  · rw [and_eq, Nat.and_one_is_mod]
  · rw [shl_small (by omega)]
  · rw [idxS_eq _ _ _ (by omega)]
    have hne : (c0 :: rest) ≠ [] := by simp
    rw [List.getLast?_eq_some_getLast hne, Option.getD_some, List.getLast_eq_getElem]
    unfold natBytes
    rw [List.getElem?_map, List.getElem?_eq_getElem (by simp)]
    simp
  · unfold Go.sliceFromS; rw [if_pos ⟨by omega, by omega⟩]; simp [natBytes]
  · intro hev
    have hc : Legacy.convertOne (c0 :: rest) = Legacy.bitstrNew0 rest (rest.length * 8) := by
      unfold Legacy.convertOne Legacy.bitLenOf
      simp only [List.head?_cons, hev, if_true, List.length_cons, Nat.add_sub_cancel, List.drop_one, List.tail_cons]
      have hnn : ¬ ((↑(rest.length * 8) : Int) < 0) := by omega
      rw [if_neg hnn, Int.toNat_natCast]
    rw [hc]
    exact bitstrNew_sem rest (rest.length * 8) (by omega)
  · intro hodd
    have htz := trailingZeros8_sem ((c0 :: rest).getLast?.getD 0)
    have htl := trailingZeros8_le ((c0 :: rest).getLast?.getD 0)
    have hc : Legacy.convertOne (c0 :: rest)
        = if ((rest.length * 8 : Nat) : Int) - Legacy.trailingZeros8 ((c0 :: rest).getLast?.getD 0) - 1 < 0
          then .error (.panic "negative bit length")
          else Legacy.bitstrNew0 rest
            (((rest.length * 8 : Nat) : Int) - Legacy.trailingZeros8 ((c0 :: rest).getLast?.getD 0) - 1).toNat := by
      unfold Legacy.convertOne Legacy.bitLenOf
      simp only [List.head?_cons, hodd, if_false, List.length_cons, Nat.add_sub_cancel, List.drop_one,
        List.tail_cons]
    rw [htz, hc]
    generalize Legacy.trailingZeros8 ((c0 :: rest).getLast?.getD 0) = tz at *
    have hcv : Go.conv 64 true 32 tz = tz := by
      rw [conv_narrow _ _ _ _ (by omega)]; exact Nat.mod_eq_of_lt (by omega)
    rw [hcv]
    by_cases hneg : rest.length * 8 < tz + 1
    · have hz : ((rest.length * 8 : Nat) : Int) - tz - 1 < 0 := by omega
      rw [if_pos hz]
      have hv : Go.sub 32 (Go.sub 32 (rest.length * 8) tz) 1 = 2 ^ 32 - (tz + 1 - rest.length * 8) := by
        unfold Go.sub Go.wrap; omega
      rw [hv, bitstrNew_neg _ _ (by omega) (by omega)]; rfl
    · have hz : ¬ (((rest.length * 8 : Nat) : Int) - tz - 1 < 0) := by omega
      rw [if_neg hz]
      have e1 : Go.sub 32 (rest.length * 8) tz = rest.length * 8 - tz := sub_small (by omega) (by omega)
      have e2 : Go.sub 32 (rest.length * 8 - tz) 1 = rest.length * 8 - tz - 1 := sub_small (by omega) (by omega)
      have ht : (((rest.length * 8 : Nat) : Int) - tz - 1).toNat = rest.length * 8 - tz - 1 := by omega
      rw [e1, e2, ht]
      exact bitstrNew_sem rest _ (by omega)

/-! ### `before000512InnerPrefixTobitstr` -/

/-- the message with the bytes of its inner prefixes replaced -/
def withBytes (s : SlimMsg) (ips : VLenArrayMsg) (bytes : Bytes) : SlimMsg :=
  { s with innerPrefixes := some { ips with bytes := bytes } }

theorem sliceS_len (bs : Bytes) (a b : Nat) (hl : bs.length < 2 ^ 31) :
    Go.sliceS 32 (natBytes bs) a b = (okOpt (Slim.sliceBytes bs a b)).map natBytes := by
  by_cases hab : a < 2 ^ 31 ∧ b < 2 ^ 31
  · exact sliceS_sem bs a b hab.1 hab.2
  · unfold Go.sliceS Slim.sliceBytes
    rw [natBytes_length, if_neg (by omega), if_neg (by omega)]; rfl

theorem copyInto_sem (bs : Bytes) (frm to : Nat) (new : Bytes) :
    Go.copyInto (natBytes bs) frm to (natBytes new) = natBytes (Legacy.copyInto bs frm (to - frm) new) := by
  unfold Go.copyInto Legacy.copyInto
  simp [natBytes, List.map_take, List.map_drop]

theorem copyInto_length (bs : Bytes) (frm n : Nat) (new : Bytes) (h : frm + n ≤ bs.length) :
    (Legacy.copyInto bs frm n new).length = bs.length := by
  unfold Legacy.copyInto
  simp only [List.length_append, List.length_take, List.length_drop]
  omega

theorem loop_sem (s : SlimMsg) (ips : VLenArrayMsg) (pbm : BitmapMsg) (v : Option W.slimVars)
    (hpb : pbm.words.length * 64 < 2 ^ 32) :
    ∀ (fuel i : Nat) (bytes : Bytes), i + fuel < 2 ^ 31 → bytes.length * 8 < 2 ^ 31 →
      (Generated.W.before000512InnerPrefixTobitstr_loop1 (some (absBitmap pbm)) fuel
          (i, absInst (withBytes s ips bytes) v)).map (Sum.elim id Prod.snd)
        = (okOpt (Legacy.innerPrefixTobitstr.go pbm fuel i bytes)).map
            (fun b => absInst (withBytes s ips b) v) := by
  intro fuel
  induction fuel with
  | zero => intro i bytes _ _; rfl
  | succ fuel ih =>
    intro i bytes hi hlen
    unfold Generated.W.before000512InnerPrefixTobitstr_loop1
    rw [go_step]
    have hsel := select32R64_sem pbm i (by omega) hpb
    simp only [Go.deref, absBitmap, Option.bind_eq_bind, Option.bind_some, hsel]
    cases hs : select32R64 pbm i with
    | error e => simp [okOpt, Except.toOption, bind, Except.bind]
    | ok p =>
      obtain ⟨frm, to⟩ := p
      simp only [okOpt_ok, Option.bind_some, absInst, withBytes, absSlim, absVLen, Option.map_some]
      rw [sliceS_len bytes frm to (by omega)]
      cases hsl : Slim.sliceBytes bytes frm to with
      | error e => simp [hsl, okOpt, Except.toOption, bind, Except.bind]
      | ok old =>
        have hb : frm ≤ to ∧ to ≤ bytes.length ∧ old.length = to - frm := by
          unfold Slim.sliceBytes at hsl
          by_cases h : frm ≤ to ∧ to ≤ bytes.length
          · rw [if_pos h] at hsl; cases hsl
            refine ⟨h.1, h.2, ?_⟩
            simp only [List.length_take, List.length_drop]; omega
          · rw [if_neg h] at hsl; cases hsl
        simp only [okOpt_ok, Option.map_some, Option.bind_some, bind, Except.bind, hsl]
        cases old with
        | nil => simp [Go.idxS, natBytes, Legacy.convertOne, okOpt, Except.toOption]
        | cons c0 rest =>
          have hol : (rest.length + 1) * 8 < 2 ^ 31 := by
            have := hb.2.2; simp only [List.length_cons] at this; omega
          obtain ⟨h1, h2, h3, h4, h5, h6, h7, h8⟩ := convertOne_go c0 rest hol
          simp only [h1, h2, h3, h4, h5, h6, Option.bind_some]
          have hbs : ∃ X, Go.bitstrNew (natBytes rest) 0 X = (okOpt (Legacy.convertOne (c0 :: rest))).map natBytes ∧
              (if (c0.toNat % 2 == 0) = true then some (rest.length * 8)
               else some (Go.sub 32 (Go.sub 32 (rest.length * 8)
                (Go.conv 64 true 32 (Go.trailingZeros8 ((c0 :: rest).getLast?.getD 0).toNat))) 1)) = some X := by
            by_cases hev : c0.toNat % 2 = 0
            · exact ⟨_, h7 hev, by simp [hev]⟩
            · exact ⟨_, h8 hev, by simp [hev]⟩
          obtain ⟨X, hX1, hX2⟩ := hbs
          simp only [Option.pure_def]
          -- (a test written with the other polarity: the same value)
          have hX2' : (if (c0.toNat % 2 != 0) = true then some (Go.sub 32 (Go.sub 32 (rest.length * 8)
                (Go.conv 64 true 32 (Go.trailingZeros8 ((c0 :: rest).getLast?.getD 0).toNat))) 1)
               else some (rest.length * 8)) = some X := by
            rw [← hX2]; by_cases hev : c0.toNat % 2 = 0 <;> simp [hev]
          first | rw [hX2] | rw [hX2']
          simp only [Option.bind_some, hX1]
          have hlr : rest.length + 1 = to - frm := by have := hb.2.2; simpa using this
          cases hco : Legacy.convertOne (c0 :: rest) with
          | error e => simp [okOpt, Except.toOption]
          | ok new =>
            have hcl := copyInto_sem bytes frm to new
            have hlen' := copyInto_length bytes frm (to - frm) new (by omega)
            simp only [okOpt_ok, Option.map_some, Option.bind_some, hcl, List.length_cons, hlr]
            generalize hby : Legacy.copyInto bytes frm (to - frm) new = bytes' at *
            have hcv : Go.conv 64 true 32 (natBytes bytes').length = bytes'.length := by
              rw [natBytes_length, conv_narrow _ _ _ _ (by omega)]; exact Nat.mod_eq_of_lt (by omega)
            rw [hcv]
            by_cases heq : to = bytes'.length
            · simp [heq, okOpt, Except.toOption]
            · have hne : (to == bytes'.length) = false := by simpa using heq
              have hne' : (bytes'.length == to) = false := by simpa using (fun h => heq (Eq.symm h))
              have hadd : Go.add 32 i 1 = i + 1 := add_small (by omega)
              simp only [hne, hne', Bool.false_eq_true, if_false, ↓reduceIte, hadd, heq]
              have ih' := ih (i + 1) bytes' (by omega) (by omega)
              simp only [absInst, withBytes, absSlim, absVLen, absBitmap] at ih'
              exact ih'

theorem bind_sum {A : Type} (x : Option (Sum A (Nat × A))) :
    (x.bind fun t => match t with
      | Sum.inl r_ => some r_
      | Sum.inr (i, st_) => some st_) = x.map (Sum.elim id Prod.snd) := by
  cases x with
  | none => rfl
  | some t =>
    cases t with
    | inl r => rfl
    | inr p => cases p; rfl

/-- the fuel the model's loop takes: one iteration per byte at most, plus one -/
def prefixFuel (s : SlimMsg) : Nat :=
  match s.innerPrefixes with
  | some ips => ips.bytes.length + 1
  | none => 0

/-- `before000512InnerPrefixTobitstr` stays inside `int32`: eight times the length of
    `InnerPrefixes.Bytes` (a bit length) is an `int32`, the position bitmap has fewer than 2^32 bits -/
def PrefixFits (s : SlimMsg) : Prop :=
  ∀ ips pbm, s.innerPrefixes = some ips → ips.positionBM = some pbm →
    ips.bytes.length * 8 + 8 < 2 ^ 31 ∧ pbm.words.length * 64 < 2 ^ 32

theorem withBytes_self (s : SlimMsg) (ips : VLenArrayMsg) (h : s.innerPrefixes = some ips) :
    withBytes s ips ips.bytes = s := by
  cases s; cases ips; simp_all [withBytes]

theorem before000512InnerPrefixTobitstr_sem (s : SlimMsg) (v : Option W.slimVars) (hfit : PrefixFits s) :
    Generated.W.before000512InnerPrefixTobitstr (prefixFuel s) (absInst s v)
      = (okOpt (Legacy.innerPrefixTobitstr s)).map (fun s' => absInst s' v) := by
  unfold Generated.W.before000512InnerPrefixTobitstr Legacy.innerPrefixTobitstr prefixFuel
  cases hl : s.innerPrefixes with
  | none => simp [absInst, absSlim, hl, Go.deref, okOpt, Except.toOption, pure, Except.pure]
  | some ips =>
    cases hp : ips.positionBM with
    | none => simp [absInst, absSlim, absVLen, hl, hp, Go.deref, okOpt, Except.toOption, pure, Except.pure]
    | some pbm =>
      obtain ⟨hlen, hpb⟩ := hfit ips pbm hl hp
      have hlt : Go.ltS 64 0 (natBytes ips.bytes).length = decide (0 < ips.bytes.length) := by
        rw [ltS_small (by omega) (by rw [natBytes_length]; omega), natBytes_length]
      by_cases hemp : ips.bytes = []
      · simp [absInst, absSlim, absVLen, hl, hp, hemp, Go.deref, okOpt, Except.toOption, pure, Except.pure,
          natBytes, Go.ltS, Go.toS]
      · have hpos : 0 < ips.bytes.length := List.length_pos_iff.mpr hemp
        have hL := loop_sem s ips pbm v hpb (ips.bytes.length + 1) 0 ips.bytes (by omega) (by omega)
        rw [withBytes_self s ips hl] at hL
        have hise : ips.bytes.isEmpty = false := by simpa using hemp
        have hz : ((natBytes ips.bytes).length == 0) = false := by
          rw [natBytes_length]; simp; omega
        have hz' : ((natBytes ips.bytes).length != 0) = true := by
          rw [natBytes_length]; simp; omega
        have hz2 : Go.leS 64 (natBytes ips.bytes).length 0 = false := by
          rw [leS_small (by rw [natBytes_length]; omega) (by omega), natBytes_length]; simp; omega
        simp only [absInst, absSlim, absVLen, hl, hp, Go.deref, Option.bind_eq_bind, Option.bind_some,
          Option.map_some, Option.isSome_some, Option.isNone_some, if_true, ↓reduceIte, Option.pure_def, hlt, hpos,
          decide_true, hise, hz, hz', hz2, Bool.false_eq_true, if_false]
        simp only [absInst, absSlim, absVLen, hl, hp, Option.map_some] at hL
        generalize Generated.W.before000512InnerPrefixTobitstr_loop1 _ _ _ = L at hL ⊢
        cases hgo : Legacy.innerPrefixTobitstr.go pbm (ips.bytes.length + 1) 0 ips.bytes with
        | error e =>
          rw [hgo] at hL
          cases L with
          | none => simp [okOpt, Except.toOption, bind, Except.bind]
          | some t => simp [okOpt, Except.toOption] at hL
        | ok b =>
          rw [hgo] at hL
          cases L with
          | none => simp [okOpt, Except.toOption] at hL
          | some t =>
            cases t with
            | inl r =>
              simp [okOpt, Except.toOption] at hL
              simp [okOpt, Except.toOption, bind, Except.bind, pure, Except.pure, hL, withBytes, absVLen, hp]
            | inr p =>
              obtain ⟨i, st⟩ := p
              simp [okOpt, Except.toOption] at hL
              simp [okOpt, Except.toOption, bind, Except.bind, pure, Except.pure, hL, withBytes, absVLen, hp]

/-! ### non-vacuity: two stored prefixes in the control-byte form of 0.5.10 (`00 61` = the 8 bits of "a",
    `01 68` = 4 bits `0110` followed by the marker bit) -/

def exCtrlPrefixes : SlimMsg :=
  { innerPrefixes := some { n := 2, eltCnt := 2, bytes := [0x00, 0x61, 0x01, 0x68], positionBM := some (newBM [0, 2, 4] 5 "s32") } }

def exBitstrPrefixes : SlimMsg :=
  { innerPrefixes := some { n := 2, eltCnt := 2, bytes := [0x61, 0xff, 0x60, 0xf0], positionBM := some (newBM [0, 2, 4] 5 "s32") } }

example : PrefixFits exCtrlPrefixes := by
  intro ips pbm h1 h2
  cases h1; cases h2; decide

example : prefixFuel exCtrlPrefixes = 5 := by decide
example : Generated.W.before000512InnerPrefixTobitstr 5 (absInst exCtrlPrefixes none) = some (absInst exBitstrPrefixes none) := by
  decide
example : okOpt (Legacy.innerPrefixTobitstr exCtrlPrefixes) = some exBitstrPrefixes := by decide
/-- a panic: control byte odd and nothing after it (`bitLen = -1`) -/
example : Generated.W.before000512InnerPrefixTobitstr 5
    (absInst { innerPrefixes := some { bytes := [0x01], positionBM := some (newBM [0, 1] 2 "s32") } } none) = none := by
  decide

end BridgeSem

#print_axioms? BridgeSem.bitstrNew_sem
#print_axioms? BridgeSem.bitstrNew_neg
#print_axioms? BridgeSem.convertOne_go
#print_axioms? BridgeSem.go_step
#print_axioms? BridgeSem.loop_sem
#print_axioms? BridgeSem.before000512InnerPrefixTobitstr_sem
