#!/bin/bash
# try_patch_all.sh <patch.diff> : apply a patch to /repo, run EVERY check (quick), undo it.  For harmless-change experiments.
P=$(readlink -f "$1")
cd /repo || exit 2
[ -n "$(git status --porcelain)" ] && { echo "/repo is dirty"; exit 2; }
git apply "$P" || { echo "patch does not apply"; exit 2; }
trap 'git -C /repo checkout -- . ; git -C /repo clean -fdq' EXIT
cd /verif
for p in $(python3 -c "import json; print(' '.join(c['property_id'] for c in json.load(open('MANIFEST.json'))['checks']))"); do
  out=$(./check $p --tier quick 2>&1); rc=$?
  [ $rc -ne 0 ] && { echo "ALARM $p: $(echo "$out" | grep -m1 VIOLATION | cut -c1-160)"; r=$(echo "$out" | grep -m1 -o 'replay=[^ ]*' | cut -d= -f2); [ -f "$r" ] && python3 -c "
import json; o=json.load(open('$r')); print('    ', (o.get('what') or (o.get('no_longer_checks') or [{}])[0].get('detail',''))[:400])"; }
done
echo "done $(basename $(dirname $P))"
