import SlimProofs.UpgradeMsg
import SlimProofs.UpgradeConvert
import SlimProofs.UpgradeSize
import SlimProofs.UpgradeEmpty
import SlimProps.C06Legacy3Wire
import SlimProps.C05
/-
  C06 ∘ C05 — THE UPGRADE PATH: an index loaded from a legacy stream and then written with the
  CURRENT writer (`Marshal`) loads again and is the same index.

  Objects: `Legacy.Instance.unmarshal` (the complete `Unmarshal`), `marshalSlim` (`Marshal` =
  `pbcmpl.Marshal(w, st.inner)` with the current version string; a total function of `st.inner`, so
  "Marshal succeeds" needs no statement), `unmarshalDispatch` (the byte-level half of `Unmarshal`),
  `Slim.view` / `Slim.stat` / `Slim.toStringSlim` (everything a query reads).

  What the two headline theorems `C06_upgrade_0510`, `C06_upgrade_3section` conclude, for
  `r := Instance.unmarshal σ (some w) stream` (the legacy load) and `bytes := marshalSlim r.1.inner`
  (what `Marshal` of the loaded instance writes):

    (a) `r.2 = none`, `r.1.varsNil = false`  the legacy load succeeds (restated from C06);
    (b) what `r.1.inner` is                  see below, per family;
    (c) `unmarshalDispatch bytes = .ok (.current r.1.inner)`
                                             `bytes` is a current-layout (0.5.12) stream that
                                             carries the loaded message ITSELF: no conversion runs
                                             on the second load;
    (d) `∀ σ' e', Instance.unmarshal σ' e' bytes = (⟨r.1.inner, r.1.levels, false⟩, none)`
                                             loading `bytes` into ANY instance with ANY encoder
                                             gives exactly the state the legacy load produced —
                                             the same message field for field, the same level table.

  The message is reproduced EXACTLY, not up to anything:
   * 0.5.10 / 0.5.11: `r.1.inner = wordSelectMsg (Slim.encode t) (retired (Slim.encodeCreator t))`:
     today's message of the trie, except that the `SelectIndex` of the prefix position bitmaps
     holds the WORD indexes the old stream carried (`pos >> 6`, DESIGN §2.2) and the three retired
     scalar fields 12 / 13 / 15 sit in `XXX_unrecognized`.  The loader never recomputes a select
     index and `Marshal` writes `st.inner` as it is, so the upgraded stream STILL carries word-index
     select tables and the retired fields; the second load yields the identical message, which
     answers identically (`select32R64` only uses the table as a lower bound — C06View).
     An upgraded stream is therefore NOT the stream a fresh 0.5.12 build of the same keys writes
     (`C06_upgrade_0510_not_fresh`: the bytes differ), but it is stable from then on
     (`C06_upgrade_0510_answers`, last conjunct).
   * three-section layouts: `r.1.inner = Slim.encodeCreator t'`, the creator's message of the
     converted records `t'` — a genuine current-format message (bit-position select tables, no
     unknown bytes), of at most `2n − 1` nodes.

  Corollaries, stated explicitly per family:
   * `…_answers`   the state `r'` of any instance after loading `bytes` with any encoder:
                   `r'.2 = none`, `r'.1 = r.1` (message, levels, vars flag), hence `SameAnswers r'.1 r.1`
                   — `Slim.view`, `getID`, `get`, `rangeGet`, `search`, `scanFrom`, `scanFromTo`,
                   `getInt`, `Stat`, `String()` answer identically before and after the upgrade —
                   and `marshalSlim r'.1.inner = bytes` (byte stability after the upgrade);
   * `…_lookups`   the reloaded instance satisfies the whole conclusion of the C06 headline theorem
                   of its family (keys found with their values, exact neighbours, totality, `Stat`);
   * `C06_upgrade_empty`  the same for the empty key set, every legacy layout.

  Hypotheses: exactly those of `C06_load_legacy_0510` / `C06_load_legacy_3section`, plus
   * 0.5.10 / 0.5.11 only: `hre`, `BodyOK` of the re-marshalled body (`make([]byte, n)` of the frame
     reader can allocate it), stated on the theorem's own object
     `(Instance.unmarshal σ (some w) stream).1.inner`; by `C06_upgrade_0510_hre` that object is the
     instance-independent message `wordSelectMsg (Slim.encode t) (retired …)`.  (`Small t` bounds
     the body of the FRESH message by the same `2^48`; the re-marshalled body has the same fields with
     smaller select entries plus at most 21 bytes of retired fields — so `hre` can only fail within
     21 bytes of the allocation limit; this remark is not proved here, `hre` is a hypothesis.)
   * three-section only: NO extra hypothesis and NO `BodyOK` hypothesis.  When this file was written the headline
     `C06_load_legacy_3section` bounded the leaves section by the allocation limit only (`w·(2n+1) < 2^47`) and
     the upgrade theorem needed `w < 2^31` in addition: the current layout stores the value width in
     `VLenArray.FixedSize`, an int32, which the three-section layouts did not store at all, and for `w ≥ 2^31`
     the decoder refuses the re-marshalled message.  That was a finding about the HEADLINE (it spoke about a
     regime where Go wraps `int32(w)` and the model, which keeps `fixedSize` in `Nat`, does not): its
     hypothesis `hwn` is now `w·(2n+1) < 2^31`, which implies `w < 2^31`, and the upgrade theorems have
     exactly the headline's hypotheses.  The body bound is proved from `hcount`, `hwn`
     (`convert_msg_bodyOK`: at most `8n + w·n + 15⌈n/64⌉ + 300` bytes).
-/
open Wire Frame Version Legacy LegacyWrite LegacyConvert Refine

/-! ### what "answers identically" means -/

/-- Everything a query of any kind reads from an instance: the view of the message (lookups, scans,
    `String()`), and message + level table (`Stat`).  Two instance states agree on all of it. -/
structure SameAnswers (a b : Instance) : Prop where
  view : Slim.view a.inner = Slim.view b.inner
  getID : ∀ q, getID (Slim.view a.inner) q = getID (Slim.view b.inner) q
  get : ∀ q, get (Slim.view a.inner) q = get (Slim.view b.inner) q
  rangeGet : ∀ q, rangeGet (Slim.view a.inner) q = rangeGet (Slim.view b.inner) q
  search : ∀ q, search (Slim.view a.inner) q = search (Slim.view b.inner) q
  scanFrom : ∀ start incl withValue keep stopAfter,
    Scan.scanFrom (Slim.view a.inner) start incl withValue keep stopAfter
      = Scan.scanFrom (Slim.view b.inner) start incl withValue keep stopAfter
  scanFromTo : ∀ start incl stop inclEnd withValue stopAfter,
    Scan.scanFromTo (Slim.view a.inner) start incl stop inclEnd withValue stopAfter
      = Scan.scanFromTo (Slim.view b.inner) start incl stop inclEnd withValue stopAfter
  getInt : ∀ wd q, Slim.getInt a.inner wd q = Slim.getInt b.inner wd q
  stat : Slim.stat a.inner a.levels = Slim.stat b.inner b.levels
  string : ∀ fmt, Slim.toStringSlim (Slim.view a.inner) fmt = Slim.toStringSlim (Slim.view b.inner) fmt
  marshal : marshalSlim a.inner = marshalSlim b.inner

theorem SameAnswers.of_eq {a b : Instance} (h : a = b) : SameAnswers a b := by
  subst h
  exact ⟨rfl, fun _ => rfl, fun _ => rfl, fun _ => rfl, fun _ => rfl, fun _ _ _ _ _ => rfl,
    fun _ _ _ _ _ _ => rfl, fun _ _ => rfl, rfl, fun _ => rfl, rfl⟩

/-- the generic step: a loaded instance whose message is well formed, in normal form and fits a
    frame survives `Marshal` → `Unmarshal` unchanged, into any instance -/
theorem upgrade_reload (m : SlimMsg) (lv : List Slim.Level) (hwf : m.WF) (hnf : m.NF)
    (hb : BodyOK (encodeSlim m)) (hlv : Slim.initLevels m = .ok lv) :
    unmarshalDispatch (marshalSlim m) = .ok (.current m) ∧
    ∀ (σ' : Instance) (e' : Option Nat),
      Instance.unmarshal σ' e' (marshalSlim m) = (⟨m, lv, false⟩, none) :=
  ⟨C05_unmarshal_marshal m hwf hnf hb,
   fun σ' e' => Instance.unmarshal_marshal σ' e' m hwf hnf hb lv hlv⟩

/-! ### 0.5.10 / 0.5.11 -/

/-- **C06 upgrade, 0.5.10 / 0.5.11 (nopref / innpref / allpref).**  Under the hypotheses of
    `C06_load_legacy_0510` (plus the allocation bound `hre` on the re-marshalled body): the legacy
    stream loads; the loaded message is today's message of the trie with the stream's word-index
    select tables and the retired fields as unknown bytes; what `Marshal` writes for it is a
    current-layout stream carrying that very message; and loading those bytes into any instance,
    with any encoder, gives exactly the loaded state (same message, same levels). -/
theorem C06_upgrade_0510 (mode ver : String) (keys vals : List Bytes) (opt : Opt) (t : Trie1)
    (w : Nat) (stream : Bytes)
    (hmode : optOfMode mode = some opt) (hver : ver = "0.5.10" ∨ ver = "0.5.11")
    (hwr : write0510 mode ver keys vals = .ok stream)
    (hb : build keys (some vals) opt = .ok t) (hk : keys ≠ []) (hsm : Small t)
    (hbody : BodyOK (to0510 (Slim.encodeCreator t)))
    (hw : 0 < w) (hvw : ∀ v ∈ vals, v.length = w) (σ : Instance)
    (hre : BodyOK (encodeSlim (Instance.unmarshal σ (some w) stream).1.inner)) :
    let r := Instance.unmarshal σ (some w) stream
    let bytes := marshalSlim r.1.inner
    r.2 = none ∧ r.1.varsNil = false ∧
    r.1.inner = wordSelectMsg (Slim.encode t) (retired (Slim.encodeCreator t)) ∧
    unmarshalDispatch bytes = .ok (.current r.1.inner) ∧
    ∀ (σ' : Instance) (e' : Option Nat),
      Instance.unmarshal σ' e' bytes = (⟨r.1.inner, r.1.levels, false⟩, none) := by
  intro r bytes
  obtain ⟨es, helts, hne, hes⟩ := build_elts_fixed keys vals opt t w hb hk hvw
  have hstream := C06_write0510_stream mode ver keys vals opt t hmode hver hk hb
  rw [hwr] at hstream
  simp only [Except.ok.injEq] at hstream
  obtain ⟨lv, hlv, hinst⟩ := C06_load_0510_instance keys vals opt t ver hver hb hk hsm hbody es w helts hw hne hes σ
  have hs : ShapeOK t := build_shape keys (some vals) opt t hb hk
  have henc : Slim.encode t = Slim.encodeCreator t := encode_eq t (by have := hs.nonempty; omega)
  have hr : r = (⟨wordSelectMsg (Slim.encode t) (retired (Slim.encodeCreator t)), lv, false⟩, none) := by
    show Instance.unmarshal σ (some w) stream = _
    rw [hstream, hinst, henc]
  have hre' : BodyOK (encodeSlim r.1.inner) := hre
  obtain ⟨hwf, hnf⟩ := loaded0510_WF_NF hs hsm
  have hl' : Slim.initLevels (wordSelectMsg (Slim.encode t) (retired (Slim.encodeCreator t))) = .ok lv := by
    rw [initLevels_wordSelectMsg]; exact hlv
  show r.2 = none ∧ r.1.varsNil = false ∧ r.1.inner = _ ∧
    unmarshalDispatch (marshalSlim r.1.inner) = .ok (.current r.1.inner) ∧
    ∀ (σ' : Instance) (e' : Option Nat),
      Instance.unmarshal σ' e' (marshalSlim r.1.inner) = (⟨r.1.inner, r.1.levels, false⟩, none)
  rw [hr] at hre' ⊢
  rw [henc] at hre' hl' ⊢
  obtain ⟨h1, h2⟩ := upgrade_reload _ lv hwf hnf hre' hl'
  exact ⟨rfl, rfl, rfl, h1, h2⟩

/-- **… hence every answer is preserved, and the upgraded stream is stable.**  For the state `r'`
    of any instance after loading the upgraded bytes: the load succeeds, `r'.1 = r.1` (message,
    level table, `vars` flag), so `Slim.view`, every lookup, every scan, `getInt`, `Stat` and
    `String()` answer exactly as the legacy-loaded instance did (`SameAnswers`), and marshalling
    again reproduces the upgraded bytes. -/
theorem C06_upgrade_0510_answers (mode ver : String) (keys vals : List Bytes) (opt : Opt) (t : Trie1)
    (w : Nat) (stream : Bytes)
    (hmode : optOfMode mode = some opt) (hver : ver = "0.5.10" ∨ ver = "0.5.11")
    (hwr : write0510 mode ver keys vals = .ok stream)
    (hb : build keys (some vals) opt = .ok t) (hk : keys ≠ []) (hsm : Small t)
    (hbody : BodyOK (to0510 (Slim.encodeCreator t)))
    (hw : 0 < w) (hvw : ∀ v ∈ vals, v.length = w) (σ : Instance)
    (hre : BodyOK (encodeSlim (Instance.unmarshal σ (some w) stream).1.inner))
    (σ' : Instance) (e' : Option Nat) :
    let r := Instance.unmarshal σ (some w) stream
    let bytes := marshalSlim r.1.inner
    let r' := Instance.unmarshal σ' e' bytes
    r'.2 = none ∧ r'.1 = r.1 ∧ SameAnswers r'.1 r.1 ∧ marshalSlim r'.1.inner = bytes := by
  intro r bytes r'
  obtain ⟨_, h2, _, _, h5⟩ := C06_upgrade_0510 mode ver keys vals opt t w stream hmode hver hwr hb hk hsm
    hbody hw hvw σ hre
  have hr' : r' = (⟨r.1.inner, r.1.levels, false⟩, none) := h5 σ' e'
  have heq : r'.1 = r.1 := by
    rw [hr']
    have h2' : r.1.varsNil = false := h2
    cases hh : r.1 with
    | mk i l v => rw [hh] at h2'; simp only at h2' ⊢; rw [h2']
  exact ⟨by rw [hr'], heq, SameAnswers.of_eq heq, by rw [heq]⟩

/-- … in particular the reloaded instance satisfies the whole conclusion of `C06_load_legacy_0510`
    (retained keys found with their values, exact retained neighbours, `RangeGet` of every indexed
    key, totality of every lookup, `Stat` = retained key count), for every instance and encoder the
    upgraded bytes are loaded into. -/
theorem C06_upgrade_0510_lookups (mode ver : String) (keys vals : List Bytes) (opt : Opt) (t : Trie1)
    (w : Nat) (stream : Bytes)
    (hmode : optOfMode mode = some opt) (hver : ver = "0.5.10" ∨ ver = "0.5.11")
    (hwr : write0510 mode ver keys vals = .ok stream)
    (hb : build keys (some vals) opt = .ok t) (hk : keys ≠ []) (hsm : Small t)
    (hbody : BodyOK (to0510 (Slim.encodeCreator t)))
    (hw : 0 < w) (hvw : ∀ v ∈ vals, v.length = w) (σ : Instance)
    (hre : BodyOK (encodeSlim (Instance.unmarshal σ (some w) stream).1.inner))
    (σ' : Instance) (e' : Option Nat) :
    let r' := Instance.unmarshal σ' e' (marshalSlim (Instance.unmarshal σ (some w) stream).1.inner)
    let v := Slim.view r'.1.inner
    let mask := keepMask keys.length (some vals) opt.dedup
    r'.2 = none ∧ r'.1.varsNil = false ∧
    (∀ i, i < keys.length → keptAt mask i = true →
      get v (keys.getD i []) = .ok (some (expectedValue (some vals) t i)) ∧
      search v (keys.getD i []) =
        .ok (valOf mask (some vals) (prevKept mask i), valOf mask (some vals) (some i),
             valOf mask (some vals) (nextKept mask i))) ∧
    (∀ i, i < keys.length → rangeGet v (keys.getD i []) = .ok (some (recVal mask (some vals) i))) ∧
    (∀ q, (∃ a, getID v q = .ok a) ∧ (∃ a, get v q = .ok a) ∧ (∃ a, rangeGet v q = .ok a) ∧
      (∃ a, search v q = .ok a)) ∧
    (∃ nodeCnt, Slim.stat r'.1.inner r'.1.levels
      = .ok { levels := r'.1.levels, keyCnt := (retained keys (some vals) opt.dedup).length,
              nodeCnt := nodeCnt }) := by
  intro r' v mask
  obtain ⟨h1, h2, _, _⟩ := C06_upgrade_0510_answers mode ver keys vals opt t w stream hmode hver hwr hb hk
    hsm hbody hw hvw σ hre σ' e'
  have h2' : r'.1 = (Instance.unmarshal σ (some w) stream).1 := h2
  have hv : v = Slim.view (Instance.unmarshal σ (some w) stream).1.inner := by
    show Slim.view r'.1.inner = _; rw [h2']
  obtain ⟨_, g2, g3, g4, g5, g6⟩ := C06_load_legacy_0510 mode ver keys vals opt t w stream hmode hver hwr hb hk
    hsm hbody hw hvw σ
  rw [hv, h2']
  exact ⟨h1, g2, g3, g4, g5, g6⟩

/-- The allocation hypothesis `hre` does not depend on the instance: it is a statement about the
    builder's message of the trie (word-index select tables, retired fields kept). -/
theorem C06_upgrade_0510_hre (mode ver : String) (keys vals : List Bytes) (opt : Opt) (t : Trie1)
    (w : Nat) (stream : Bytes)
    (hmode : optOfMode mode = some opt) (hver : ver = "0.5.10" ∨ ver = "0.5.11")
    (hwr : write0510 mode ver keys vals = .ok stream)
    (hb : build keys (some vals) opt = .ok t) (hk : keys ≠ []) (hsm : Small t)
    (hbody : BodyOK (to0510 (Slim.encodeCreator t)))
    (hw : 0 < w) (hvw : ∀ v ∈ vals, v.length = w) (σ : Instance) :
    (Instance.unmarshal σ (some w) stream).1.inner
      = wordSelectMsg (Slim.encode t) (retired (Slim.encodeCreator t)) := by
  obtain ⟨es, helts, hne, hes⟩ := build_elts_fixed keys vals opt t w hb hk hvw
  have hstream := C06_write0510_stream mode ver keys vals opt t hmode hver hk hb
  rw [hwr] at hstream
  simp only [Except.ok.injEq] at hstream
  obtain ⟨lv, _, hinst⟩ := C06_load_0510_instance keys vals opt t ver hver hb hk hsm hbody es w helts hw hne hes σ
  have hs : ShapeOK t := build_shape keys (some vals) opt t hb hk
  have henc : Slim.encode t = Slim.encodeCreator t := encode_eq t (by have := hs.nonempty; omega)
  rw [hstream, hinst, henc]

/-- The retired fields are never empty: field 13 (`ShortMinusInner = ShortSize − 17`, negative for
    every builder output) is always written. -/
theorem retired_ne_nil (cur : SlimMsg) (hss : cur.shortSize ≤ 16) : retired cur ≠ [] := by
  intro h
  unfold retired at h
  have h13 : encVarintF 13 (int32Varint ((cur.shortSize : Int) - Slim.innerSize)) = [] := by
    have := congrArg List.length h
    simp only [List.length_append, List.length_nil] at this
    exact List.eq_nil_of_length_eq_zero (by omega)
  unfold encVarintF at h13
  have hv : int32Varint ((cur.shortSize : Int) - Slim.innerSize) ≠ 0 := by
    have hneg : ((cur.shortSize : Int) - Slim.innerSize) < 0 := by
      simp only [Slim.innerSize]; omega
    have hge : -(2 ^ 63 : Int) ≤ (cur.shortSize : Int) - Slim.innerSize := by
      simp only [Slim.innerSize]; omega
    generalize ((cur.shortSize : Int) - Slim.innerSize) = x at hneg hge
    unfold int32Varint
    rw [if_pos hneg]
    omega
  rw [if_neg hv] at h13
  have := tag_ne_nil 13 0
  have := congrArg List.length h13
  simp only [List.length_append, List.length_nil] at this
  exact tag_ne_nil 13 0 (List.eq_nil_of_length_eq_zero (by omega))

/-- **An upgraded 0.5.10 / 0.5.11 stream is not the stream a fresh 0.5.12 build of the same keys
    writes**: it still carries the retired fields (and the word-index select tables), so the bytes
    differ — while every answer is the same (`C06_upgrade_0510_lookups`) and the bytes are stable from
    then on (`C06_upgrade_0510_answers`). -/
theorem C06_upgrade_0510_not_fresh (mode ver : String) (keys vals : List Bytes) (opt : Opt) (t : Trie1)
    (w : Nat) (stream : Bytes)
    (hmode : optOfMode mode = some opt) (hver : ver = "0.5.10" ∨ ver = "0.5.11")
    (hwr : write0510 mode ver keys vals = .ok stream)
    (hb : build keys (some vals) opt = .ok t) (hk : keys ≠ []) (hsm : Small t)
    (hbody : BodyOK (to0510 (Slim.encodeCreator t)))
    (hw : 0 < w) (hvw : ∀ v ∈ vals, v.length = w) (σ : Instance)
    (hre : BodyOK (encodeSlim (Instance.unmarshal σ (some w) stream).1.inner)) :
    marshalSlim (Instance.unmarshal σ (some w) stream).1.inner ≠ marshalSlim (Slim.encode t) := by
  intro heq
  obtain ⟨_, _, h3, h4, _⟩ := C06_upgrade_0510 mode ver keys vals opt t w stream hmode hver hwr hb hk hsm
    hbody hw hvw σ hre
  obtain ⟨f1, f2, f3⟩ := C05_encode_wf keys (some vals) opt t hb hsm
  have h4' : unmarshalDispatch (marshalSlim (Instance.unmarshal σ (some w) stream).1.inner)
      = .ok (.current (Instance.unmarshal σ (some w) stream).1.inner) := h4
  rw [heq, C05_unmarshal_marshal _ f1 f2 f3] at h4'
  simp only [Except.ok.injEq, Loaded.current.injEq] at h4'
  have h3' : (Instance.unmarshal σ (some w) stream).1.inner
      = wordSelectMsg (Slim.encode t) (retired (Slim.encodeCreator t)) := h3
  have hu := congrArg SlimMsg.unrecognized h4'
  rw [h3'] at hu
  have hs : ShapeOK t := build_shape keys (some vals) opt t hb hk
  have henc : Slim.encode t = Slim.encodeCreator t := encode_eq t (by have := hs.nonempty; omega)
  have hl : (Slim.encode t).unrecognized = [] := by rw [henc]; rfl
  have hr : (wordSelectMsg (Slim.encode t) (retired (Slim.encodeCreator t))).unrecognized
      = retired (Slim.encodeCreator t) := rfl
  rw [hl, hr] at hu
  refine retired_ne_nil _ ?_ hu.symm
  rw [enc_shortSize]
  have := eShortSize_le t
  omega

/-! ### three-section layouts (0.5.0 … 0.5.9) -/

/-- **C06 upgrade, three-section layouts.**  Under the hypotheses of `C06_load_legacy_3section`
    and nothing else (no allocation hypothesis: the body bound is proved): the legacy stream loads; the loaded message
    is the creator's message of the converted records (a current-format message without unknown
    bytes); what `Marshal` writes for it is a current-layout stream carrying that very message; and
    loading those bytes into any instance, with any encoder, gives exactly the loaded state. -/
theorem C06_upgrade_3section (variant : String) (keys vals : List Bytes) (w : Nat) (stream : Bytes)
    (hwr : writeLegacy3 variant keys vals = .ok stream)
    (hne : keys ≠ []) (hasc : strictAsc keys = true) (hlen : vals.length = keys.length)
    (hw : ∀ v ∈ vals, v.length = w) (hkl : ∀ k ∈ keys, 2 * k.length < 65535)
    (hcount : 32 * keys.length + 143 < 2 ^ 31) (hwn : w * (2 * keys.length + 1) < 2 ^ 31)
    (σ : Instance) :
    let r := Instance.unmarshal σ (some w) stream
    let bytes := marshalSlim r.1.inner
    r.2 = none ∧ r.1.varsNil = false ∧
    (∃ vr ch st lv t', parseVariant variant = some vr ∧ sections3 vr keys vals = .ok (ch, st, lv) ∧
      convert ch st lv (some w) = .ok t' ∧ r.1.inner = Slim.encodeCreator t' ∧
      t'.nodes.size + 1 ≤ 2 * keys.length) ∧
    r.1.inner.unrecognized = [] ∧
    unmarshalDispatch bytes = .ok (.current r.1.inner) ∧
    ∀ (σ' : Instance) (e' : Option Nat),
      Instance.unmarshal σ' e' bytes = (⟨r.1.inner, r.1.levels, false⟩, none) := by
  intro r bytes
  -- `w · (2n+1) < 2^31` gives both the value width below 2^31 (int32 `FixedSize`) and the allocation bound
  have hw31 : w < 2 ^ 31 :=
    Nat.lt_of_le_of_lt (Nat.le_mul_of_pos_right w (by omega)) hwn
  have hwn : w * (2 * keys.length + 1) < 2 ^ 47 := Nat.lt_trans hwn (by decide)
  obtain ⟨vr, ch, st, lv, hp, hsec, _⟩ := writeLegacy3_inv variant keys vals stream hwr
  obtain ⟨hbc, hbs, hbl⟩ := sections3_bodyOK vr keys vals w ch st lv hsec hcount hw hwn
  obtain ⟨t', hconv⟩ := C06_convert_ok_legacy3 vr keys vals w ch st lv hne hasc hlen hw hkl hsec
  obtain ⟨_, lvl, hl, hinst, _⟩ := C06_load_legacy3 variant vr keys vals w ch st lv stream hp hsec hwr
    hne hasc hlen hw hkl hcount hbc hbs hbl t' hconv σ
  have hr : r = ({ inner := Slim.encodeCreator t', levels := lvl, varsNil := false }, none) := hinst
  obtain ⟨hwf, hnf, hsz⟩ := convert_msg_WF vr keys vals w ch st lv hne hasc hlen hw hkl hcount hw31 hsec t' hconv
  have hre' : BodyOK (encodeSlim (Slim.encodeCreator t')) :=
    convert_msg_bodyOK vr keys vals w ch st lv hne hasc hlen hw hkl hcount hwn hw31 hsec t' hconv
  show r.2 = none ∧ r.1.varsNil = false ∧ _ ∧ r.1.inner.unrecognized = [] ∧
    unmarshalDispatch (marshalSlim r.1.inner) = .ok (.current r.1.inner) ∧
    ∀ (σ' : Instance) (e' : Option Nat),
      Instance.unmarshal σ' e' (marshalSlim r.1.inner) = (⟨r.1.inner, r.1.levels, false⟩, none)
  rw [hr]
  obtain ⟨h1, h2⟩ := upgrade_reload _ lvl hwf hnf hre' hl
  exact ⟨rfl, rfl, ⟨vr, ch, st, lv, t', hp, hsec, hconv, rfl, hsz⟩, rfl, h1, h2⟩

/-- **… hence every answer is preserved, and the upgraded stream is stable** (three-section
    layouts): `r'.1 = r.1` for the state `r'` of any instance after loading the upgraded bytes, so
    every lookup, scan, `getInt`, `Stat`, `String()` answers as the legacy-loaded instance did, and
    marshalling again reproduces the upgraded bytes. -/
theorem C06_upgrade_3section_answers (variant : String) (keys vals : List Bytes) (w : Nat)
    (stream : Bytes)
    (hwr : writeLegacy3 variant keys vals = .ok stream)
    (hne : keys ≠ []) (hasc : strictAsc keys = true) (hlen : vals.length = keys.length)
    (hw : ∀ v ∈ vals, v.length = w) (hkl : ∀ k ∈ keys, 2 * k.length < 65535)
    (hcount : 32 * keys.length + 143 < 2 ^ 31) (hwn : w * (2 * keys.length + 1) < 2 ^ 31)
    (σ σ' : Instance) (e' : Option Nat) :
    let r := Instance.unmarshal σ (some w) stream
    let bytes := marshalSlim r.1.inner
    let r' := Instance.unmarshal σ' e' bytes
    r'.2 = none ∧ r'.1 = r.1 ∧ SameAnswers r'.1 r.1 ∧ marshalSlim r'.1.inner = bytes := by
  intro r bytes r'
  obtain ⟨_, h2, _, _, _, h5⟩ := C06_upgrade_3section variant keys vals w stream hwr hne hasc hlen hw hkl
    hcount hwn σ
  have hr' : r' = (⟨r.1.inner, r.1.levels, false⟩, none) := h5 σ' e'
  have heq : r'.1 = r.1 := by
    rw [hr']
    have h2' : r.1.varsNil = false := h2
    cases hh : r.1 with
    | mk i l v => rw [hh] at h2'; simp only at h2' ⊢; rw [h2']
  exact ⟨by rw [hr'], heq, SameAnswers.of_eq heq, by rw [heq]⟩

/-- … in particular the reloaded instance satisfies the whole conclusion of
    `C06_load_legacy_3section` (every key found with its value by `Get` and `RangeGet`, exact
    neighbours, totality of every lookup, `Stat` = all `n` keys), for every instance and encoder the
    upgraded bytes are loaded into. -/
theorem C06_upgrade_3section_lookups (variant : String) (keys vals : List Bytes) (w : Nat)
    (stream : Bytes)
    (hwr : writeLegacy3 variant keys vals = .ok stream)
    (hne : keys ≠ []) (hasc : strictAsc keys = true) (hlen : vals.length = keys.length)
    (hw : ∀ v ∈ vals, v.length = w) (hkl : ∀ k ∈ keys, 2 * k.length < 65535)
    (hcount : 32 * keys.length + 143 < 2 ^ 31) (hwn : w * (2 * keys.length + 1) < 2 ^ 31)
    (σ σ' : Instance) (e' : Option Nat) :
    let r' := Instance.unmarshal σ' e' (marshalSlim (Instance.unmarshal σ (some w) stream).1.inner)
    let v := Slim.view r'.1.inner
    r'.2 = none ∧ r'.1.varsNil = false ∧
    (∀ i, i < keys.length →
      get v (keys.getD i []) = .ok (some (C06L3.val w vals i)) ∧
      rangeGet v (keys.getD i []) = .ok (some (C06L3.val w vals i)) ∧
      search v (keys.getD i []) =
        .ok (if i = 0 then none else some (C06L3.val w vals (i - 1)),
             some (C06L3.val w vals i),
             if i + 1 < keys.length then some (C06L3.val w vals (i + 1)) else none)) ∧
    (∀ q, (∃ a, getID v q = .ok a) ∧ (∃ a, get v q = .ok a) ∧ (∃ a, rangeGet v q = .ok a) ∧
      (∃ a, search v q = .ok a)) ∧
    (∃ nodeCnt, Slim.stat r'.1.inner r'.1.levels
      = .ok { levels := r'.1.levels, keyCnt := keys.length, nodeCnt := nodeCnt }) := by
  intro r' v
  obtain ⟨h1, h2, _, _⟩ := C06_upgrade_3section_answers variant keys vals w stream hwr hne hasc hlen hw hkl
    hcount hwn σ σ' e'
  have h2' : r'.1 = (Instance.unmarshal σ (some w) stream).1 := h2
  have hv : v = Slim.view (Instance.unmarshal σ (some w) stream).1.inner := by
    show Slim.view r'.1.inner = _; rw [h2']
  obtain ⟨_, g2, g3, g4, g5⟩ := C06_load_legacy_3section variant keys vals w stream hwr hne hasc hlen hw hkl
    hcount hwn σ
  rw [hv, h2']
  exact ⟨h1, g2, g3, g4, g5⟩

/-! ### the empty key set -/

/-- **C06 upgrade, the empty key set, every legacy layout.**  The stream an old writer produced for
    no keys loads (as the empty trie: `C06_load_legacy_3section_empty`, `C06_load_legacy_0510_empty`);
    what `Marshal` writes for the loaded instance loads again into any instance, with any encoder, as
    exactly the same state; it is again the empty trie. -/
theorem C06_upgrade_empty (stream : Bytes) (e : Option Nat) (σ : Instance)
    (hwr : (∃ variant vals, writeLegacy3 variant [] vals = .ok stream) ∨
      (∃ mode ver opt vals, optOfMode mode = some opt ∧ (ver = "0.5.10" ∨ ver = "0.5.11") ∧
        write0510 mode ver [] vals = .ok stream)) :
    let r := Instance.unmarshal σ e stream
    let bytes := marshalSlim r.1.inner
    r.2 = none ∧
    unmarshalDispatch bytes = .ok (.current r.1.inner) ∧
    ∀ (σ' : Instance) (e' : Option Nat),
      Instance.unmarshal σ' e' bytes = (r.1, none) ∧
      EmptyLoaded (Instance.unmarshal σ' e' bytes) := by
  intro r bytes
  -- in both families the loaded message `m` has no `NodeTypeBM`, is well formed and small
  have key : ∃ m, unmarshalMsg e stream = .ok m ∧ m.nodeTypeBM = none ∧ m.WF ∧ m.NF ∧
      BodyOK (encodeSlim m) := by
    rcases hwr with ⟨variant, vals, hwr⟩ | ⟨mode, ver, opt, vals, hmode, hver, hwr⟩
    · obtain ⟨vr, ch, st, lv, hp, hsec, hs⟩ := writeLegacy3_inv variant [] vals stream hwr
      rw [sections3_nil] at hsec
      simp only [Except.ok.injEq, Prod.mk.injEq] at hsec
      obtain ⟨rfl, rfl, rfl⟩ := hsec
      have hsec' : sections3 vr [] [] = .ok (childrenMsg vr [] 0, stepsMsg [] 0, leavesMsg [] #[]) :=
        sections3_nil vr []
      obtain ⟨hbc, hbs, hbl⟩ := sections3_bodyOK vr [] [] 0 _ _ _ hsec' (by decide) (by simp) (by decide)
      obtain ⟨b1, b2, b3⟩ := sections3_nil_bitmaps vr
      have hd := dispatch_legacy3 vr [] [] _ _ _ (parseVariant_header variant vr hp) hsec'
        (by intro nodes hb; rw [buildOld_nil] at hb; cases hb; decide) hbc hbs hbl
      have hm : unmarshalMsg e stream = .ok (Slim.encodeCreator emptyConverted) := by
        unfold unmarshalMsg
        rw [hs, hd]
        show (convert _ _ _ e >>= fun t => pure (Slim.encodeCreator t)) = _
        rw [convert_empty _ _ _ e b1 b2 b3]
        rfl
      obtain ⟨w1, w2, w3⟩ := emptyConverted_msg_ok
      exact ⟨_, hm, encodeCreator_emptyConverted_nodeTypeBM, w1, w2, w3⟩
    · have hstream : stream = frame ver [] := by
        unfold write0510 at hwr
        have hv : (ver != "0.5.10" && ver != "0.5.11") = false := by
          rcases hver with rfl | rfl <;> decide
        simp only [hmode, hv] at hwr
        have : (pure (frame ver []) : Except Err Bytes) = .ok stream := hwr
        cases this
        rfl
      refine ⟨{}, by rw [hstream]; exact (C06_load_0510_empty ver hver e σ).1, rfl, ?_, ?_, ?_⟩
      · refine ⟨by simp, by simp, by simp, ?_, ?_, ?_, ?_, ?_, ?_⟩ <;> intro b hb <;> simp at hb
      · unfold SlimMsg.NF; simp [unknownOnly]
      · unfold BodyOK maxAlloc
        rw [← C05_size]
        simp [protoSizeSlim, sizeVarintF, sizeMsgF, sizePackedF]
  obtain ⟨m, hm, hn, hwf, hnf, hbody⟩ := key
  have hlv : Slim.initLevels m = .ok [(0, 0, 0)] := initLevels_of_none m hn
  have hi : Instance.init m = .ok { inner := m, levels := [(0, 0, 0)] } := by
    unfold Instance.init; rw [hlv]; rfl
  have hr : r = (⟨m, [(0, 0, 0)], false⟩, none) := by
    show Instance.unmarshal σ e stream = _
    unfold Instance.unmarshal
    rw [hm]
    simp only [hi]
  show r.2 = none ∧ unmarshalDispatch (marshalSlim r.1.inner) = .ok (.current r.1.inner) ∧
    ∀ (σ' : Instance) (e' : Option Nat),
      Instance.unmarshal σ' e' (marshalSlim r.1.inner) = (r.1, none) ∧
      EmptyLoaded (Instance.unmarshal σ' e' (marshalSlim r.1.inner))
  rw [hr]
  obtain ⟨h1, h2⟩ := upgrade_reload m _ hwf hnf hbody hlv
  refine ⟨rfl, h1, fun σ' e' => ⟨h2 σ' e', ?_⟩⟩
  exact emptyLoaded_of σ' e' _ m (unmarshalMsg_marshal e' m hwf hnf hbody) hn

/-! ### non-vacuity: the five keys of `C06L3.Ex` in one variant of each family; one key; no key -/

namespace C06Up

open C06L3.Ex in
/-- the 0.5.9 stream (bitmap children, extended index bitmaps) of five keys — "a" is a prefix of
    "ab" — satisfies every hypothesis of `C06_upgrade_3section`: loaded into any instance, marshalled
    with the current writer and loaded into any other instance with any encoder, the state is the
    same, "ab" is found with `[2]`, 5 keys are reported, and the bytes are stable -/
example (σ σ' : Instance) (e' : Option Nat) : ∃ stream, writeLegacy3 "0.5.9" keys vals = .ok stream ∧
    let r := Instance.unmarshal σ (some 1) stream
    let r' := Instance.unmarshal σ' e' (marshalSlim r.1.inner)
    r'.2 = none ∧ r'.1 = r.1 ∧ marshalSlim r'.1.inner = marshalSlim r.1.inner ∧
    get (Slim.view r'.1.inner) [0x61, 0x62] = .ok (some (some [2])) ∧
    (∃ n, Slim.stat r'.1.inner r'.1.levels = .ok { levels := r'.1.levels, keyCnt := 5, nodeCnt := n }) := by
  have hok : (writeLegacy3 "0.5.9" keys vals).toBool = true := by decide +kernel
  match hs : writeLegacy3 "0.5.9" keys vals with
  | .error e => rw [hs] at hok; cases hok
  | .ok stream =>
    have h := C06_upgrade_3section_answers "0.5.9" keys vals 1 stream hs (by decide) (by decide) rfl
      (by decide) (by decide) (by decide) (by decide) σ σ' e'
    have g := C06_upgrade_3section_lookups "0.5.9" keys vals 1 stream hs (by decide) (by decide) rfl
      (by decide) (by decide) (by decide) (by decide) σ σ' e'
    exact ⟨stream, rfl, h.1, h.2.1, h.2.2.2, (g.2.2.1 1 (by decide)).1, g.2.2.2.2⟩

/-- a single key "k" ↦ [7] in the oldest variant (0.5.0: uint32 children, steps on leaves) -/
example (σ σ' : Instance) (e' : Option Nat) : ∃ stream, writeLegacy3 "0.5.0" [[0x6b]] [[7]] = .ok stream ∧
    get (Slim.view (Instance.unmarshal σ' e'
      (marshalSlim (Instance.unmarshal σ (some 1) stream).1.inner)).1.inner) [0x6b] = .ok (some (some [7])) := by
  have hok : (writeLegacy3 "0.5.0" [[0x6b]] [[7]]).toBool = true := by decide +kernel
  match hs : writeLegacy3 "0.5.0" [[0x6b]] [[7]] with
  | .error e => rw [hs] at hok; cases hok
  | .ok stream =>
    have g := C06_upgrade_3section_lookups "0.5.0" [[0x6b]] [[7]] 1 stream hs (by decide) (by decide) rfl
      (by decide) (by decide) (by decide) (by decide) σ σ' e'
    exact ⟨stream, rfl, (g.2.2.1 0 (by decide)).1⟩

/-- no key, a three-section variant and a 0.5.10 mode: the hypotheses of `C06_upgrade_empty` hold -/
example (σ σ' : Instance) (e e' : Option Nat) : ∃ stream, writeLegacy3 "0.5.4" [] [] = .ok stream ∧
    EmptyLoaded (Instance.unmarshal σ' e' (marshalSlim (Instance.unmarshal σ e stream).1.inner)) := by
  have hok : (writeLegacy3 "0.5.4" [] []).toBool = true := by decide +kernel
  match hs : writeLegacy3 "0.5.4" [] [] with
  | .error e => rw [hs] at hok; cases hok
  | .ok stream =>
    exact ⟨stream, rfl, ((C06_upgrade_empty stream e σ (Or.inl ⟨_, _, hs⟩)).2.2 σ' e').2⟩

example (σ σ' : Instance) (e e' : Option Nat) : ∃ stream, write0510 "innpref" "0.5.11" [] [] = .ok stream ∧
    EmptyLoaded (Instance.unmarshal σ' e' (marshalSlim (Instance.unmarshal σ e stream).1.inner)) := by
  have hok : (write0510 "innpref" "0.5.11" [] []).toBool = true := by decide +kernel
  match hs : write0510 "innpref" "0.5.11" [] [] with
  | .error e => rw [hs] at hok; cases hok
  | .ok stream =>
    exact ⟨stream, rfl, ((C06_upgrade_empty stream e σ
      (Or.inr ⟨"innpref", "0.5.11", { inner := true }, [], by decide, Or.inr rfl, hs⟩)).2.2 σ' e').2⟩

open C06L3.Ex in
/-- the allpref-0.5.10 stream of the same five keys (stored inner prefixes with a position bitmap,
    leaf prefixes, the three retired fields) satisfies every hypothesis of `C06_upgrade_0510`,
    `hre` included: the reloaded state is the loaded state, 5 retained keys are reported, every
    search is total, the bytes are stable, and they are NOT the bytes of a fresh 0.5.12 build -/
example (σ σ' : Instance) (e' : Option Nat) : ∃ stream t, write0510 "allpref" "0.5.10" keys vals = .ok stream ∧
    build keys (some vals) { inner := true, leaf := true } = .ok t ∧
    let r := Instance.unmarshal σ (some 1) stream
    let r' := Instance.unmarshal σ' e' (marshalSlim r.1.inner)
    r'.2 = none ∧ r'.1 = r.1 ∧ marshalSlim r'.1.inner = marshalSlim r.1.inner ∧
    marshalSlim r.1.inner ≠ marshalSlim (Slim.encode t) ∧
    (∃ n, Slim.stat r'.1.inner r'.1.levels = .ok { levels := r'.1.levels, keyCnt := 5, nodeCnt := n }) ∧
    ∀ q, ∃ a, search (Slim.view r'.1.inner) q = .ok a := by
  have hopt : optOfMode "allpref" = some { inner := true, leaf := true } := by decide
  have h : ((build keys (some vals) { inner := true, leaf := true }).toOption.map (fun t =>
      smallB t && decide ((to0510 (Slim.encodeCreator t)).length ≤ maxAlloc) &&
        decide ((encodeSlim (wordSelectMsg (Slim.encode t) (retired (Slim.encodeCreator t)))).length
          ≤ maxAlloc))) = some true := by
    decide +kernel
  have hret : (retained keys (some vals) true).length = 5 := by decide
  match hb : build keys (some vals) { inner := true, leaf := true } with
  | .error e => rw [hb] at h; cases h
  | .ok t =>
    rw [hb] at h
    simp only [Except.toOption, Option.map_some, Option.some.injEq, Bool.and_eq_true,
      decide_eq_true_eq] at h
    obtain ⟨⟨h1, h2⟩, h3⟩ := h
    have hk : keys ≠ [] := by decide
    have hstream := C06_write0510_stream "allpref" "0.5.10" keys vals _ t hopt (Or.inl rfl) hk hb
    have hre : BodyOK (encodeSlim (Instance.unmarshal σ (some 1)
        (frame "0.5.10" (to0510 (Slim.encode t)))).1.inner) := by
      rw [C06_upgrade_0510_hre "allpref" "0.5.10" keys vals _ t 1 _ hopt (Or.inl rfl) hstream hb hk
        (small_of_smallB h1) h2 (by omega) (by decide) σ]
      exact h3
    have ha := C06_upgrade_0510_answers "allpref" "0.5.10" keys vals _ t 1 _ hopt (Or.inl rfl) hstream hb hk
      (small_of_smallB h1) h2 (by omega) (by decide) σ hre σ' e'
    have hl := C06_upgrade_0510_lookups "allpref" "0.5.10" keys vals _ t 1 _ hopt (Or.inl rfl) hstream hb hk
      (small_of_smallB h1) h2 (by omega) (by decide) σ hre σ' e'
    have hn := C06_upgrade_0510_not_fresh "allpref" "0.5.10" keys vals _ t 1 _ hopt (Or.inl rfl) hstream hb hk
      (small_of_smallB h1) h2 (by omega) (by decide) σ hre
    obtain ⟨_, _, _, _, l5, l6⟩ := hl
    refine ⟨_, t, hstream, rfl, ha.1, ha.2.1, ha.2.2.2, hn, ?_, fun q => (l5 q).2.2.2⟩
    obtain ⟨n, hn'⟩ := l6
    exact ⟨n, by rw [hn']; simp only [hret]⟩

end C06Up

#print axioms C06_upgrade_0510
#print axioms C06_upgrade_0510_answers
#print axioms C06_upgrade_0510_lookups
#print axioms C06_upgrade_0510_hre
#print axioms C06_upgrade_0510_not_fresh
#print axioms C06_upgrade_3section
#print axioms C06_upgrade_3section_answers
#print axioms C06_upgrade_3section_lookups
#print axioms C06_upgrade_empty
