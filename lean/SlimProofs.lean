import SlimProofs.WF
