import SlimModel.Readers
import SlimProofs.ReadersLemmas
import SlimProps.Bridge.C11
/-
  Property C11 — a SlimTrie is safely shareable between concurrent readers.

  WHAT IS PROVED HERE (the logic).  `Readers.step` (SlimModel/Readers.lean) is one read call —
  Get, GetID, RangeGet, Search, GetI8/16/32/64, Stat, String, Marshal, NewIter, next(), ScanFrom,
  ScanFromTo — defined as the sequential model function on `Slim.view shared.inner`, i.e. the very
  functions the other property theorems are about.  Then:

  * `C11_frame`        no read call changes the shared instance;
  * `C11_interleave`   for EVERY schedule of ANY number of threads, the answers a thread receives
                       (and the iterators it ends up with) are exactly those it gets when its own
                       calls run alone on the same instance; hence (`C11_schedule_irrelevant`) two
                       schedules of the same per-thread programs are indistinguishable to every thread;
  * `C11_iterators_independent(_created)`  the yields of an iterator are those of the same number
                       of `next()` calls on that iterator alone, whatever else — `next()` on other
                       iterators of the same thread included — is interleaved; for iterators of other
                       threads this is `C11_interleave`.

  These are trivial GIVEN the frame property; the content of C11 is that the GO CODE has the frame
  property.  That is not a theorem about the model; it is tied to the code in two ways:

  (a) tie 1, `C11_no_shared_writes` = `Bridge.readPathWrites : Generated.readPathWrites = []`.
      `harness/cmd/extract` (go/ast + go/types) lists every assignment, inc/dec, append-to and
      copy-into target in every function reachable from the read APIs whose root object is
      reachable from the shared `*SlimTrie` (`*SlimTrie`, `*Slim`, `*Bitmap`, `*VLenArray`,
      `*slimVars`, `[]levelInfo`, their slices).  The list is regenerated from the source by the
      check; it is empty.  That is the frame property at the level of memory writes: a cached
      query session, scan buffer or lazily converted prefix inside the shared structure would
      appear in it.
  (b) tie 2, `harness/cmd/race`: 2..32 goroutines mixing every read API on one shared instance
      (fresh, loaded from current bytes, loaded from legacy bytes) in a `-race` build with
      randomized yielding; every answer is compared with the sequential one.

  WHAT NO THEOREM HERE EXHIBITS.  The Go memory model (a step is a whole call; finer interleavings
  are indistinguishable only for code without shared writes — the premise (a) checks, not a
  consequence), torn or stale reads of words written before the instance was published (the
  instance must be handed to the readers with a happens-before edge: goroutine start, channel,
  mutex), compiler or CPU reordering, the completeness of the static write extraction (reflection,
  `unsafe`, assembly and writes inside dependencies' code are outside its view) and of the race
  detector (it only sees the executions it is shown).  `Reset`/`Unmarshal` are writers and are not
  read operations.
-/
namespace C11
open Readers

/-- tie 1: the extractor finds no write to shared memory on any read path. -/
theorem C11_no_shared_writes : Generated.readPathWrites = [] := Bridge.readPathWrites

/-- **Frame**: a read call returns the shared instance it was given. -/
theorem C11_frame (sh : Shared) (loc : Local) (op : ReadOp) : (step sh loc op).1 = sh :=
  step_shared sh loc op

theorem C11_frame_run (sh : Shared) (locs : Locals) (sched : Schedule) :
    (run sh locs sched).1 = sh := run_shared sh locs sched

/-- **Interleaving**: in every schedule, thread `t` receives exactly the answers, and ends with
    exactly the iterators, that its own calls produce when run alone from the same shared state. -/
theorem C11_interleave (sh : Shared) (locs : Locals) (sched : Schedule) (t : ThreadId) :
    answersOf t (run sh locs sched).2.2 = (runAlone sh (locs t) (opsOf t sched)).2.2 ∧
    (run sh locs sched).2.1 t = (runAlone sh (locs t) (opsOf t sched)).2.1 :=
  run_thread sh t sched locs

/-- Two schedules that give every thread the same program are indistinguishable to every thread. -/
theorem C11_schedule_irrelevant (sh : Shared) (locs : Locals) (s₁ s₂ : Schedule)
    (h : ∀ t, opsOf t s₁ = opsOf t s₂) (t : ThreadId) :
    answersOf t (run sh locs s₁).2.2 = answersOf t (run sh locs s₂).2.2 := by
  rw [(C11_interleave sh locs s₁ t).1, (C11_interleave sh locs s₂ t).1, h t]

/-- **Iterators are independent**: what iterator `a` of thread `t` yields during any schedule is
    what the same number of `next()` calls yield on that iterator alone — whatever `next()` calls on
    other iterators (of this thread or of others) and whatever other read calls are interleaved. -/
theorem C11_iterators_independent (sh : Shared) (locs : Locals) (sched : Schedule) (t : ThreadId)
    (a : Nat) (it : Iter) (h : (locs t)[a]? = some it) :
    yields a (opsOf t sched) (answersOf t (run sh locs sched).2.2)
      = (runAlone sh [it] (List.replicate (nextCalls a (opsOf t sched)) (.next 0))).2.2 := by
  rw [(C11_interleave sh locs sched t).1]
  exact yields_alone sh a (opsOf t sched) (locs t) it h

/-- The same for an iterator created during the schedule: if thread `t`'s program is
    `pre ++ NewIter(start, incl, wv) :: post` and `NewIter` succeeds with state `s`, the iterator gets
    the next free index and its yields during `post` are those of the fresh iterator alone. -/
theorem C11_iterators_independent_created (sh : Shared) (locs : Locals) (sched : Schedule)
    (t : ThreadId) (pre post : List ReadOp) (start : Bytes) (incl wv : Bool) (s : Scan.IterState)
    (hprog : opsOf t sched = pre ++ .newIter start incl wv :: post)
    (hnew : Scan.newIterFrom (Slim.view sh.inner) start incl = .ok s) :
    let loc₁ := (runAlone sh (locs t) pre).2.1
    let postAnswers := (runAlone sh (loc₁ ++ [{ st := s, withValue := wv }]) post).2.2
    answersOf t (run sh locs sched).2.2
      = (runAlone sh (locs t) pre).2.2 ++ Answer.iter (.ok loc₁.length) :: postAnswers ∧
    yields loc₁.length post postAnswers
      = (runAlone sh [{ st := s, withValue := wv }]
          (List.replicate (nextCalls loc₁.length post) (.next 0))).2.2 := by
  intro loc₁ postAnswers
  constructor
  · rw [(C11_interleave sh locs sched t).1, hprog, (runAlone_append sh (locs t) pre _).1]
    congr 1
    simp only [runAlone, step, hnew]
    rfl
  · exact yields_alone sh loc₁.length post _ _ (by simp)

/-! ## non-vacuity: a concrete Complete trie, two threads, one interleaving -/

namespace Ex

def keys : List Bytes := [[0x61], [0x61, 0x62], [0x62, 0xe3]]
def vals : List Bytes := [[1], [2], [3]]

/-- `NewSlimTrie(enc, keys, vals, Opt{Complete})` as a shared instance (`{}` if anything failed;
    `built` below shows it did not) -/
def shared : Shared :=
  match build keys (some vals) { dedup := true, inner := true, leaf := true } with
  | .ok t =>
    match Legacy.Instance.init (Slim.encode t) with
    | .ok i => i
    | .error _ => {}
  | .error _ => {}

/-- thread 0: a lookup, then an iterator from the start with values -/
def prog0 : List ReadOp := [.get [0x61, 0x62], .newIter [] true true, .next 0, .next 0, .next 0]
/-- thread 1: an iterator from "ab" (excluded) without values, a lookup in between -/
def prog1 : List ReadOp := [.newIter [0x61, 0x62] false false, .next 0, .getID [0x62, 0xe3], .next 0]

/-- one interleaving of the two programs -/
def sched : Schedule :=
  [(1, .newIter [0x61, 0x62] false false), (0, .get [0x61, 0x62]), (0, .newIter [] true true),
   (1, .next 0), (0, .next 0), (1, .getID [0x62, 0xe3]), (0, .next 0), (1, .next 0), (0, .next 0)]

/-- a decidable rendering of the answers of interest -/
def show1 : Answer → Option (Option Bytes × Option Bytes)
  | .item (.ok p) => some p
  | .value (.ok (some v)) => some (none, v)
  | .id (.ok (some n)) => some (some [UInt8.ofNat n], none)
  | _ => none

def check (sh : Shared) : Bool :=
  sh.levels.length == 4 &&
  (runAlone sh [] prog0).2.2.map show1 ==
    [some (none, some [2]), none, some (some [0x61], some [1]), some (some [0x61, 0x62], some [2]),
     some (some [0x62, 0xe3], some [3])] &&
  (runAlone sh [] prog1).2.2.map show1 ==
    [none, some (some [0x62, 0xe3], none), some (some [2], none), some (none, none)] &&
  (answersOf 0 (run sh (fun _ => []) sched).2.2).map show1 == (runAlone sh [] prog0).2.2.map show1 &&
  (answersOf 1 (run sh (fun _ => []) sched).2.2).map show1 == (runAlone sh [] prog1).2.2.map show1 &&
  -- thread 0's iterator (created by its second call) yields the three keys with their values
  (yields 0 prog0 (answersOf 0 (run sh (fun _ => []) sched).2.2)).map show1 ==
    [some (some [0x61], some [1]), some (some [0x61, 0x62], some [2]), some (some [0x62, 0xe3], some [3])]

/-- the trie is built (3 levels below the root entry) and the model computes, on the interleaved
    schedule, exactly the sequential answers of each program (kernel evaluation of the executable
    model: bit-level `Slim.view` of the encoded message) -/
theorem built : check shared = true := by decide +kernel

theorem progs : opsOf 0 sched = prog0 ∧ opsOf 1 sched = prog1 := by decide +kernel

/-- … and that is what the theorem says for this schedule, for both threads (for any shared
    instance; `built` evaluates both sides on the concrete one) -/
example (sh : Shared) :
    answersOf 0 (run sh (fun _ => []) sched).2.2 = (runAlone sh [] prog0).2.2 ∧
    answersOf 1 (run sh (fun _ => []) sched).2.2 = (runAlone sh [] prog1).2.2 := by
  have h0 := (C11_interleave sh (fun _ => []) sched 0).1
  have h1 := (C11_interleave sh (fun _ => []) sched 1).1
  rw [progs.1] at h0
  rw [progs.2] at h1
  exact ⟨h0, h1⟩

end Ex

end C11

#print axioms C11.C11_no_shared_writes
#print axioms C11.C11_frame
#print axioms C11.C11_frame_run
#print axioms C11.C11_interleave
#print axioms C11.C11_schedule_irrelevant
#print axioms C11.C11_iterators_independent
#print axioms C11.C11_iterators_independent_created
#print axioms C11.Ex.built
