import SlimModel.Query
/-
  SlimModel.Scan — `getGEPath`, `newIter`/`next`, `NewIter`, `ScanFrom`, `ScanFromTo`
  (trie/slimtrie_scan.go) over a `View`.

  The iterator is an explicit state machine: `IterState` is what the Go closure captures
  (`stack`, `stackIdx`, `buf`, the single-node special case), `iterNext` is one call of `next()`.
  Positions (`prefixStart`, `prefixEnd`, `labelEnd`) are in half-bytes (Go bits / 4).
  A yielded value is `Option Bytes`: `none` is Go's nil slice (values not requested, or no values
  stored), `some []` an empty non-nil slice.
-/

namespace Scan

/-- `scanStackElt` at record level: the label cursor is an index into the label list. -/
structure Elt where
  firstChild : Nat
  ithLabel : Nat
  labels : List Nat
  big : Bool
  prefixStart : Nat
  prefixEnd : Nat
  labelEnd : Nat := 0
  width : Nat := 0           -- label width in half-bytes (0,1,2)
  label : Nat := 0           -- label word
  deriving Repr, DecidableEq

/-- `updateLabel` for the label at the cursor; `none` if the cursor ran past the last label
    (`nextLabelBit` returned -1) -/
def Elt.update (e : Elt) : Option Elt :=
  match e.labels[e.ithLabel]? with
  | none => none
  | some 0 => some { e with width := 0, label := 0, labelEnd := e.prefixEnd }
  | some (b + 1) =>
    let w := if e.big then 2 else 1
    some { e with width := w, label := b, labelEnd := e.prefixEnd + w }

def prefLen : Pref → Option Nat
  | .stored p => some p.length
  | _ => none

/-- `scanStackElt.init`; `child = none` is childId == -1 -/
def Elt.init (r : InnerRec) (child : Option Nat) (bufIdx : Nat) : Except Err Elt :=
  let prefEnd := match prefLen r.pref with
    | some n => bufIdx - bufIdx % 2 + n
    | none => bufIdx
  let labelIdx : Int := match child with
    | some c => (c : Int) - r.firstChild
    | none => 0
  if labelIdx < 0 then .error (.panic "negative label index") else
  let e : Elt := { firstChild := r.firstChild, ithLabel := labelIdx.toNat, labels := r.labels, big := r.big,
                   prefixStart := bufIdx, prefixEnd := prefEnd }
  -- when the cursor is past the last label the Go code leaves labelWidth = -1; never on a valid path
  match e.update with
  | some e' => .ok e'
  | none => .error (.panic "init: no such label")

/-- `buf[:l]`; re-slicing beyond the current length would expose stale bytes in Go -/
def reslice (buf : Bytes) (l : Nat) : Except Err Bytes :=
  if l ≤ buf.length then .ok (buf.take l) else .error (.panic "MODEL: reslice beyond len")

/-- `appendLabel` -/
def appendLabel (e : Elt) (buf : Bytes) : Except Err Bytes := do
  let l := (e.prefixEnd + 1) / 2
  let buf ← reslice buf l
  if e.width = 0 then return buf
  if e.prefixEnd % 2 ≠ 0 then
    match buf.getLast? with
    | none => .error (.panic "index out of range (appendLabel)")
    | some c =>
      let m : Nat := if e.width = 1 then 0x0f else 0xff
      return buf.dropLast ++ [UInt8.ofNat ((c.toNat - c.toNat % (m + 1)) + e.label % (m + 1))]
  else
    return buf ++ [UInt8.ofNat (if e.width = 1 then (e.label % 16) * 16 else e.label % 256)]

/-- `appendInnerPrefix` -/
def appendInnerPrefix (e : Elt) (buf : Bytes) (p : Pref) : Except Err Bytes := do
  match p with
  | .stored ns =>
    let b ← reslice buf (e.prefixStart / 2)
    return b ++ unnibs ns
  | _ => return buf

/-- `appendLeafPrefix` -/
def appendLeafPrefix (e : Elt) (buf : Bytes) (lp : Option Bytes) : Except Err Bytes := do
  let b ← reslice buf (e.labelEnd / 2)
  return b ++ lp.getD []

/-- `next(stack, stackIdx)`: advance the top cursor, popping exhausted elements (head = top) -/
def advance : List Elt → List Elt
  | [] => []
  | e :: rest =>
    match ({ e with ithLabel := e.ithLabel + 1 } : Elt).update with
    | some e' => e' :: rest
    | none => advance rest

inductive IterState where
  | single (nodeId : Nat) (buf : Bytes) (consumed : Bool)      -- the one-node special case
  | walk (stack : List Elt) (buf : Bytes)                       -- stackIdx = stack.length - 1
  deriving Repr

/-- `getIthLeafBytes` of a leaf node id -/
def leafValue (v : View) (withValue : Bool) (ith : Nat) : Except Err (Option Bytes) :=
  if withValue then v.leafBytes ith else .ok none

/-- result of `getGEPath` -/
structure GEPath where
  path : List Nat
  eq : Bool
  deriving Repr, DecidableEq

structure GESt where
  path : List Nat := []         -- reversed
  rID : Option Nat := none
  rightPathLen : Nat := 0
  i : Nat := 0
  lp : Option Bytes := none
  deriving Repr

/-- the loop of `getGEPath`; result: state and final eqID (`none` = -1) -/
def geLoop (v : View) (kn : List Nat) : Nat → GESt → Nat → Except Err (GESt × Option Nat)
  | 0, _, _ => .error .fuel
  | fuel + 1, st, eqID => do
    match ← v.node eqID with
    | .leaf _ lp => return ({ st with lp := lp }, some eqID)
    | .inner r =>
      let l := kn.length
      let i := st.i
      let step : Except Err (Sum (GESt × Option Nat) Nat) :=
        match r.pref with
        | .stored p =>
          if i / 2 > l / 2 then .error (.panic "slice bounds out of range: key[i>>3:]") else
          match cmpUpto (kn.drop (i - i % 2)) p with
          | .eq => .ok (.inr (i - i % 2 + p.length))
          | .lt => .ok (.inl ({ st with rID := some eqID, rightPathLen := st.path.length }, none))
          | .gt => .ok (.inl (st, none))
        | _ => .ok (.inr i)      -- hasInnerPrefix is false: i is not advanced (scan needs stored prefixes)
      match ← step with
      | .inl fin => return fin
      | .inr i =>
        let st := { st with i := i, path := eqID :: st.path }
        let (leftChild, has) := leftChildID r (labelIdxOfKey kn i r.big)
        let chID : Int := leftChild + (if has then 1 else 0)
        let rightChild : Int := chID + 1
        let rightMostChild : Int := (r.firstChild : Int) + r.labels.length - 1
        let st := if rightChild ≤ rightMostChild
                  then { st with rID := some rightChild.toNat, rightPathLen := st.path.length } else st
        if !has then return (st, none)
        if i = l then return (st, some chID.toNat)
        geLoop v kn fuel { st with i := i + wordSize r.big } chID.toNat

/-- `leftMost(idx, &path)` -/
def leftMostPath (v : View) : Nat → Nat → List Nat → Except Err (List Nat)
  | 0, _, _ => .error .fuel
  | fuel + 1, id, acc => do
    match ← v.node id with
    | .leaf _ _ => return id :: acc
    | .inner r => leftMostPath v fuel r.firstChild (id :: acc)

/-- `getGEPath` -/
def getGEPath (v : View) (key : Bytes) : Except Err GEPath := do
  if v.isEmpty then return { path := [], eq := false }
  if !v.scanOK then
    .error (.panic "incomplete slim does not support scanning. requires InnerPrefixes and LeafPrefixes")
  let kn := nibs key
  let (st, eqID) ← geLoop v kn (v.nodeCnt + 1) {} 0
  match eqID with
  | some eq =>
    if st.i / 2 > kn.length / 2 then .error (.panic "slice bounds out of range: key[i>>3:]") else
    let r := cmpLeafPrefix v (key.drop (st.i / 2)) st.lp
    if r != .gt then return { path := (eq :: st.path).reverse, eq := r == .eq }
    else fallback st
  | none => fallback st
where
  fallback (st : GESt) : Except Err GEPath := do
    match st.rID with
    | none => return { path := [], eq := false }
    | some rid =>
      -- path = path[:rightPathLen]; leftMost(rID, &path)
      let kept := (st.path.reverse.take st.rightPathLen).reverse
      let p ← leftMostPath v (v.nodeCnt + 1) rid kept
      return { path := p.reverse, eq := false }

/-- the prologue of `newIter`: rebuild the stack along the path -/
def buildStack (v : View) : List Nat → List Elt → Bytes → Nat → Except Err (List Elt × Bytes)
  | a :: b :: rest, stack, buf, bufIdx => do
    match ← v.node a with
    | .leaf _ _ => .error (.panic "path through a leaf")
    | .inner r =>
      let e ← Elt.init r (some b) bufIdx
      let buf ← appendInnerPrefix e buf r.pref
      let buf ← appendLabel e buf
      buildStack v (b :: rest) (e :: stack) buf e.labelEnd
  | _, stack, buf, _ => .ok (stack, buf)

/-- `newIter(path, skipFirst, withValue)` -/
def newIter (v : View) (p : GEPath) (skipFirst : Bool) : Except Err IterState := do
  let (stack, buf) ← buildStack v p.path [] [] 0
  if skipFirst then return .walk (advance stack) buf
  else if p.path.length = 1 then return .single (p.path.headD 0) buf false
  else return .walk stack buf

/-- the walk of one `next()` call down to a leaf -/
def descend (v : View) (withValue : Bool) : Nat → List Elt → Bytes →
    Except Err (List Elt × Bytes × Option Bytes)
  | 0, _, _ => .error .fuel
  | _, [], _ => .error (.panic "empty stack")
  | fuel + 1, last :: rest, buf => do
    let buf ← appendLabel last buf
    let childId := last.firstChild + last.ithLabel
    match ← v.node childId with
    | .leaf ith lp =>
      let buf ← appendLeafPrefix last buf lp
      let val ← leafValue v withValue ith
      return (last :: rest, buf, val)
    | .inner r =>
      let e ← Elt.init r none last.labelEnd
      let buf ← appendInnerPrefix e buf r.pref
      descend v withValue fuel (e :: last :: rest) buf

/-- one call of the closure returned by `newIter`: (new state, key, value); key `none` = nil -/
def iterNext (v : View) (withValue : Bool) (s : IterState) :
    Except Err (IterState × Option Bytes × Option Bytes) := do
  match s with
  | .single id buf consumed =>
    if consumed then return (s, none, none)
    match ← v.node id with
    | .inner _ => .error (.panic "single node is inner")   -- qr.hasLeafPrefix stays false in Go; unreachable
    | .leaf ith lp =>
      let buf := buf ++ lp.getD []
      let val ← leafValue v withValue ith
      return (.single id buf true, some buf, val)
  | .walk [] buf => return (.walk [] buf, none, none)
  | .walk stack buf =>
    let (stack, buf, val) ← descend v withValue (v.nodeCnt + 1) stack buf
    return (.walk (advance stack) buf, some buf, val)

/-- `NewIter(start, includeStart, withValue)` -/
def newIterFrom (v : View) (start : Bytes) (includeStart : Bool) : Except Err IterState := do
  let p ← getGEPath v start
  newIter v p (p.eq && !includeStart)

/-- call `next()` `n` times -/
def iterTake (v : View) (withValue : Bool) : Nat → IterState → Except Err (List (Option Bytes × Option Bytes))
  | 0, _ => .ok []
  | n + 1, s => do
    let (s', k, val) ← iterNext v withValue s
    let rest ← iterTake v withValue n s'
    return (k, val) :: rest

/-- `ScanFrom` with a callback that returns false at the `stopAfter`-th item (`none`: never):
    the list of items passed to the callback.  Fuel: a valid trie yields at most nodeCnt items. -/
def scanFrom (v : View) (start : Bytes) (includeStart withValue : Bool)
    (keep : Bytes → Bool) (stopAfter : Option Nat) : Except Err (List (Bytes × Option Bytes)) := do
  let s ← newIterFrom v start includeStart
  go (v.nodeCnt + 2) s 0
where
  go : Nat → IterState → Nat → Except Err (List (Bytes × Option Bytes))
    | 0, _, _ => .error .fuel
    | fuel + 1, s, cnt => do
      let (s', k, val) ← iterNext v withValue s
      match k with
      | none => return []
      | some k =>
        -- ScanFromTo's wrapper: stop before calling fn when past the end bound
        if !keep k then return []
        if stopAfter == some (cnt + 1) then return [(k, val)]
        let rest ← go fuel s' (cnt + 1)
        return (k, val) :: rest

/-- `ScanFromTo` -/
def scanFromTo (v : View) (start : Bytes) (includeStart : Bool) (stop : Bytes) (includeEnd : Bool)
    (withValue : Bool) (stopAfter : Option Nat) : Except Err (List (Bytes × Option Bytes)) :=
  scanFrom v start includeStart withValue
    (fun k => match cmpBytes k stop with
      | .lt => true
      | .eq => includeEnd
      | .gt => false) stopAfter

end Scan
