// Package trie is the harness family "trie": interpreter of trie.* script lines
// against the real github.com/openacid/slim/trie, and the generators of the
// trie properties.
package trie

import (
	"bytes"
	"encoding/binary"
	"encoding/hex"
	"fmt"
	"io"
	"reflect"
	"strconv"
	"strings"

	"github.com/openacid/errors"
	"github.com/openacid/slim/encode"
	slim "github.com/openacid/slim/trie"

	"slimverif/harness/lp"
)

// rawEnc is a caller-supplied variable-width encoder: values are byte strings
// stored as they are (possibly empty).  The trie hands Decode exactly the bytes
// of one element, so Decode consumes all of them.
type rawEnc struct{}

func (rawEnc) Encode(d interface{}) []byte { return d.([]byte) }
func (rawEnc) Decode(b []byte) (int, interface{}) {
	return len(b), append([]byte{}, b...)
}
func (rawEnc) GetSize(d interface{}) int   { return len(d.([]byte)) }
func (rawEnc) GetEncodedSize(b []byte) int { return len(b) }

type te7 struct {
	A int32
	B uint16
	C uint8
}

// State of the interpreter: one current instance.
// namedU32 is a DEFINED type over uint32: a decoder that switches on Kind() instead of the type hands back a
// plain uint32, which is not the value the caller supplied (its v.(namedU32) would panic).
type namedU32 uint32

// wantType: the dynamic type of the values a trie with this encoder was built from, hence of every value a
// lookup may return.  nil = not checked.
func wantType(encName string) reflect.Type {
	switch encName {
	case "i8":
		return reflect.TypeOf(int8(0))
	case "i16":
		return reflect.TypeOf(int16(0))
	case "i32":
		return reflect.TypeOf(int32(0))
	case "i64":
		return reflect.TypeOf(int64(0))
	case "u16":
		return reflect.TypeOf(uint16(0))
	case "u32":
		return reflect.TypeOf(uint32(0))
	case "u64":
		return reflect.TypeOf(uint64(0))
	case "int":
		return reflect.TypeOf(int(0))
	case "s16":
		return reflect.TypeOf("")
	case "f64":
		return reflect.TypeOf(float64(0))
	case "te7":
		return reflect.TypeOf(te7{})
	case "nu32":
		return reflect.TypeOf(namedU32(0))
	}
	return nil
}

type State struct {
	St      *slim.SlimTrie
	Enc     encode.Encoder
	EncName string
	LastBuf []byte
}

var S = &State{}

// slots keep further instances alive beside the current one (several tries in
// one process: a builder that recycles buffers across builds shows only then)
var slots = map[string]State{}

func EncoderOf(name string) encode.Encoder {
	switch name {
	case "none":
		return nil
	case "raw":
		return rawEnc{}
	case "i8":
		return encode.I8{}
	case "i16":
		return encode.I16{}
	case "i32":
		return encode.I32{}
	case "i64":
		return encode.I64{}
	case "u16":
		return encode.U16{}
	case "u32":
		return encode.U32{}
	case "u64":
		return encode.U64{}
	case "int":
		return encode.Int{}
	case "s16":
		return encode.String16{}
	case "f64":
		// a *encode.TypeEncoder over float64: values whose == is coarser (+0 = -0) or finer (NaN != NaN)
		// than equality of their encoded bytes
		e, err := encode.NewTypeEncoderEndian(float64(0), binary.LittleEndian)
		if err != nil {
			panic(err)
		}
		return e
	case "nu32":
		// a *encode.TypeEncoder over a defined integer type
		e, err := encode.NewTypeEncoderEndian(namedU32(0), binary.LittleEndian)
		if err != nil {
			panic(err)
		}
		return e
	case "te7":
		// a *encode.TypeEncoder over a fixed-size struct (7 bytes, little endian)
		e, err := encode.NewTypeEncoderEndian(te7{}, binary.LittleEndian)
		if err != nil {
			panic(err)
		}
		return e
	}
	if strings.HasPrefix(name, "bytes") {
		n, err := strconv.Atoi(name[5:])
		if err == nil {
			return encode.Bytes{Size: n}
		}
	}
	panic("unknown encoder " + name)
}

// typedValues decodes the encoded bytes with the encoder and builds the typed
// slice NewSlimTrie expects.
// the key slice handed to the last NewSlimTrie (trie.renew builds again from the same backing array)
var (
	lastKeySlice []string
	renewKeys    bool
)

// the buffer the current [][]byte values are sliced from, and its contents before the build
var sharedValBuf, sharedValCopy []byte

func typedValues(enc encode.Encoder, vals [][]byte) interface{} {
	sharedValBuf, sharedValCopy = nil, nil
	if enc == nil {
		return nil
	}
	if te, ok := enc.(*encode.TypeEncoder); ok && te.Type == reflect.TypeOf(namedU32(0)) {
		// built by hand, NOT through Decode: the caller's own type
		out := make([]namedU32, 0, len(vals))
		for _, b := range vals {
			out = append(out, namedU32(binary.LittleEndian.Uint32(b)))
		}
		return out
	}
	switch enc.(type) {
	case rawEnc, encode.Bytes:
		// [][]byte values the way a caller has them: slices of ONE read buffer, each with spare capacity that
		// runs over the values after it (and 16 spare bytes at the end).  An encoder or builder that appends to a
		// value it was handed writes into its neighbours; sharedValBuf is compared after the build.
		total := 16
		for _, b := range vals {
			total += len(b)
		}
		buf := make([]byte, 0, total)
		out := make([][]byte, 0, len(vals))
		for _, b := range vals {
			st := len(buf)
			buf = append(buf, b...)
			out = append(out, buf[st:len(buf)]) // cap runs to the end of the shared buffer
		}
		sharedValBuf = buf[:cap(buf)]
		for i := len(buf); i < cap(buf); i++ {
			sharedValBuf[i] = 0xa5
		}
		sharedValCopy = append([]byte{}, sharedValBuf...)
		return out
	}
	if len(vals) == 0 {
		// a typed empty slice
		switch enc.(type) {
		case rawEnc, encode.Bytes:
			return [][]byte{}
		}
		_, v := decodeOne(enc, make([]byte, 16))
		return reflect.MakeSlice(reflect.SliceOf(reflect.TypeOf(v)), 0, 0).Interface()
	}
	_, v0 := decodeOne(enc, vals[0])
	sl := reflect.MakeSlice(reflect.SliceOf(reflect.TypeOf(v0)), 0, len(vals))
	for _, b := range vals {
		_, v := decodeOne(enc, b)
		sl = reflect.Append(sl, reflect.ValueOf(v))
	}
	return sl.Interface()
}

func decodeOne(enc encode.Encoder, b []byte) (int, interface{}) {
	n, v := enc.Decode(b)
	if bs, ok := v.([]byte); ok {
		v = append([]byte{}, bs...)
	}
	return n, v
}

func unhex(tok string) []byte {
	if len(tok) == 0 || tok[0] != 'x' {
		panic("bad hex token " + tok)
	}
	b, err := hex.DecodeString(tok[1:])
	if err != nil {
		panic(err)
	}
	return b
}

func ParseOpt(flags string) []slim.Opt {
	if flags == "-" {
		return nil // no Opt argument at all
	}
	p := func(c byte) *bool {
		switch c {
		case 't':
			return slim.Bool(true)
		case 'f':
			return slim.Bool(false)
		}
		return nil
	}
	return []slim.Opt{{DedupValue: p(flags[0]), InnerPrefix: p(flags[1]), LeafPrefix: p(flags[2]), Complete: p(flags[3])}}
}

func ErrKind(err error) string {
	if err == nil {
		return "ok"
	}
	switch errors.Cause(err) {
	case slim.ErrKeyOutOfOrder:
		return "err:out-of-order"
	case slim.ErrIncompatible:
		return "err:incompatible"
	case slim.ErrStepTooLong:
		return "err:step-too-long"
	case io.EOF, io.ErrUnexpectedEOF:
		return "err:truncated"
	}
	return "err:other"
}

// Fnv64 of a byte string, for long outputs.
func Fnv64(b []byte) string {
	h := uint64(14695981039346656037)
	for _, c := range b {
		h ^= uint64(c)
		h *= 1099511628211
	}
	return fmt.Sprintf("%016x", h)
}

func (s *State) valStr(v interface{}) string {
	if v == nil {
		return "nil"
	}
	out := lp.X(s.Enc.Encode(v))
	if t := wantType(s.EncName); t != nil && reflect.TypeOf(v) != t {
		// "exactly the value supplied": same dynamic type, not only the same bytes
		out += "!type=" + reflect.TypeOf(v).String()
	}
	return out
}

func b01(t string) bool { return t == "1" }

func interp(toks []string) string {
	s := S
	switch toks[0] {
	case "trie.renew":
		// the caller edits the key slice of the PREVIOUS build in place and builds again from the same slice
		// (same backing array, same length): whatever the builder remembered about that slice is stale
		renewKeys = true
		defer func() { renewKeys = false }()
		return interp(append([]string{"trie.new"}, toks[1:]...))
	case "trie.new":
		flags, encName := toks[1], toks[2]
		enc := EncoderOf(encName)
		var keys []string
		var vals [][]byte
		rest := toks[3:]
		if enc == nil {
			for _, t := range rest {
				keys = append(keys, string(unhex(t)))
			}
		} else {
			for i := 0; i+1 < len(rest); i += 2 {
				keys = append(keys, string(unhex(rest[i])))
				vals = append(vals, unhex(rest[i+1]))
			}
		}
		if renewKeys && len(lastKeySlice) == len(keys) && len(keys) > 0 {
			copy(lastKeySlice, keys)
			keys = lastKeySlice
		} else {
			lastKeySlice = keys
		}
		tv := typedValues(enc, vals)
		opts := ParseOpt(flags)
		keysCopy := append([]string{}, keys...)
		valsCopy := fmt.Sprintf("%#v", tv)
		optCopy := optString(opts)
		st, err := slim.NewSlimTrie(enc, keys, tv, opts...)
		lastInputsCheck = "inputs-unchanged"
		if !reflect.DeepEqual(keysCopy, keys) && len(keys) > 0 {
			lastInputsCheck = "KEYS-MODIFIED"
		} else if valsCopy != fmt.Sprintf("%#v", tv) || !bytes.Equal(sharedValBuf, sharedValCopy) {
			lastInputsCheck = "VALUES-MODIFIED"
		} else if optCopy != optString(opts) {
			lastInputsCheck = "OPT-MODIFIED"
		}
		// The caller owns its inputs again: overwrite every byte-slice value and flip the option
		// bools.  A trie that kept a reference instead of a copy answers differently from now on — in
		// every property's script, not only C20's (the oracle works from the script's own bytes).
		if bs, ok := tv.([][]byte); ok {
			for i, b := range bs {
				scribble(b, fmt.Sprint(i%3))
			}
		}
		for i := range opts {
			for _, p := range []*bool{opts[i].DedupValue, opts[i].InnerPrefix, opts[i].LeafPrefix, opts[i].Complete} {
				if p != nil {
					*p = !*p
				}
			}
		}
		if err != nil {
			if st != nil {
				return "err-with-trie"
			}
			s.St = nil
			return ErrKind(err)
		}
		s.St, s.Enc, s.EncName = st, enc, encName
		return "ok"
	case "trie.get":
		v, found := s.St.Get(string(unhex(toks[1])))
		if !found {
			if v != nil {
				return "nf-with-value"
			}
			return "nf"
		}
		return "f " + s.valStr(v)
	case "trie.id":
		return strconv.Itoa(int(s.St.GetID(string(unhex(toks[1])))))
	case "trie.rget":
		v, found := s.St.RangeGet(string(unhex(toks[1])))
		if !found {
			if v != nil {
				return "nf-with-value"
			}
			return "nf"
		}
		return "f " + s.valStr(v)
	case "trie.search":
		l, e, r := s.St.Search(string(unhex(toks[1])))
		return s.valStr(l) + " " + s.valStr(e) + " " + s.valStr(r)
	case "trie.geti8":
		v, f := s.St.GetI8(string(unhex(toks[1])))
		return fmtInt(int64(v), f)
	case "trie.geti16":
		v, f := s.St.GetI16(string(unhex(toks[1])))
		return fmtInt(int64(v), f)
	case "trie.geti32":
		v, f := s.St.GetI32(string(unhex(toks[1])))
		return fmtInt(int64(v), f)
	case "trie.geti64":
		v, f := s.St.GetI64(string(unhex(toks[1])))
		return fmtInt(v, f)
	case "trie.marshal":
		b, err := s.St.Marshal()
		if err != nil {
			return ErrKind(err)
		}
		s.LastBuf = b
		return fmt.Sprintf("ok %d %s", len(b), Fnv64(b))
	case "trie.reload":
		// Marshal, then Unmarshal into a fresh instance that only knows the encoder.
		b, err := s.St.Marshal()
		if err != nil {
			return ErrKind(err)
		}
		st2, _ := slim.NewSlimTrie(s.Enc, nil, nil)
		if err := st2.Unmarshal(b); err != nil {
			return ErrKind(err)
		}
		s.St = st2
		return "ok"
	case "trie.fresh":
		// a fresh empty instance with the given encoder
		enc := EncoderOf(toks[1])
		st, _ := slim.NewSlimTrie(enc, nil, nil)
		s.St, s.Enc, s.EncName = st, enc, toks[1]
		return "ok"
	case "trie.unmarshal":
		return ErrKind(s.St.Unmarshal(unhex(toks[1])))
	case "trie.unmarshal-scribble":
		// Unmarshal from a caller-owned buffer, then overwrite the buffer (C20):
		// pattern 0 = all 0x00, 1 = all 0xff, 2 = pseudo-random
		buf := unhex(toks[1])
		orig := append([]byte{}, buf...)
		err := s.St.Unmarshal(buf)
		if !bytes.Equal(orig, buf) {
			return "INPUT-BUFFER-MODIFIED" // Unmarshal must not write to the caller's buffer
		}
		scribble(buf, toks[2])
		return ErrKind(err)
	case "trie.marshal-scribble":
		// Marshal, remember the answer, overwrite the returned bytes (C20)
		b, err := s.St.Marshal()
		if err != nil {
			return ErrKind(err)
		}
		ans := fmt.Sprintf("ok %d %s", len(b), Fnv64(b))
		scribble(b, toks[1])
		return ans
	case "trie.marshal-twice":
		// two results of Marshal are alive at once: neither call may change the other's bytes (C20)
		b1, err := s.St.Marshal()
		if err != nil {
			return ErrKind(err)
		}
		c1 := append([]byte{}, b1...)
		b2, err := s.St.Marshal()
		if err != nil {
			return ErrKind(err)
		}
		if !bytes.Equal(b1, c1) {
			return "FIRST-OUTPUT-CHANGED-BY-SECOND-MARSHAL"
		}
		scribble(b1, "2")
		if !bytes.Equal(b2, c1) {
			return "OUTPUTS-SHARE-MEMORY"
		}
		if b3, err := s.St.Marshal(); err != nil || !bytes.Equal(b3, c1) {
			return "MARSHAL-CHANGED-AFTER-SCRIBBLE"
		}
		return fmt.Sprintf("ok %d %s", len(c1), Fnv64(c1))
	case "trie.marshal-hold":
		// keep a result of Marshal (and a private copy) across later operations
		b, err := s.St.Marshal()
		if err != nil {
			return ErrKind(err)
		}
		heldOut, heldCopy = b, append([]byte{}, b...)
		return fmt.Sprintf("ok %d %s", len(b), Fnv64(b))
	case "trie.marshal-held-check":
		if heldOut == nil {
			return "nothing-held"
		}
		if !bytes.Equal(heldOut, heldCopy) {
			return "HELD-OUTPUT-CHANGED"
		}
		return "held-unchanged"
	case "trie.new-checked":
		// like trie.new, but keeps deep copies of the caller's keys, values and
		// option struct (pointer targets included) and compares them afterwards (C20)
		r := interp(append([]string{"trie.new"}, toks[1:]...))
		return r + " " + lastInputsCheck
	case "trie.stat-scribble":
		// the caller owns the report Stat returns: overwrite every row and count of it
		if s.St == nil {
			return "ok"
		}
		r := s.St.Stat()
		for i := range r.Levels {
			r.Levels[i].Total, r.Levels[i].Inner, r.Levels[i].Leaf = 7, 3, 4
		}
		r.KeyCnt, r.NodeCnt, r.LevelCnt = -1, -1, -1
		return "ok"
	case "trie.stash":
		// keep the current instance alive in a slot
		slots[toks[1]] = *s
		return "ok"
	case "trie.unstash":
		// make the instance of a slot current again
		st, ok := slots[toks[1]]
		if !ok {
			return "no-slot"
		}
		*s = st
		return "ok"
	case "trie.reset":
		s.St.Reset()
		return "ok"
	case "trie.stat":
		st := s.St.Stat()
		var sb strings.Builder
		fmt.Fprintf(&sb, "levelcnt=%d levels=", st.LevelCnt)
		for i, l := range st.Levels {
			if i > 0 {
				sb.WriteByte(',')
			}
			fmt.Fprintf(&sb, "%d/%d/%d", l.Total, l.Inner, l.Leaf)
		}
		fmt.Fprintf(&sb, " keys=%d nodes=%d", st.KeyCnt, st.NodeCnt)
		return sb.String()
	case "trie.string":
		if s.EncName == "f64" && s.St != nil {
			// the rendering of a float ("%v") is not modelled: the call must return, its text is not compared
			lp.Catch(func() string { return s.St.String() })
			return "float-values-not-rendered"
		}
		str := s.St.String()
		return fmt.Sprintf("%d %s", len(str), Fnv64([]byte(str)))
	case "trie.iter":
		// trie.iter <start> <incl> <withval> <n>: call next() n times
		n, _ := strconv.Atoi(toks[4])
		nxt := s.St.NewIter(string(unhex(toks[1])), b01(toks[2]), b01(toks[3]))
		var sb strings.Builder
		for i := 0; i < n; i++ {
			k, v := nxt()
			sb.WriteString(kvStr(k, v))
			sb.WriteByte(';')
		}
		return compact(sb.String())
	case "trie.scan":
		// trie.scan <start> <incl> <withval> <stopAfter>: callback returns false at the stopAfter-th item (-1: never)
		stop, _ := strconv.Atoi(toks[4])
		var sb strings.Builder
		cnt := 0
		s.St.ScanFrom(string(unhex(toks[1])), b01(toks[2]), b01(toks[3]), func(k, v []byte) bool {
			sb.WriteString(kvStr(k, v))
			sb.WriteByte(';')
			cnt++
			return cnt != stop
		})
		return compact(sb.String())
	case "trie.scanft":
		// trie.scanft <start> <incl> <end> <inclEnd> <withval> <stopAfter>
		stop, _ := strconv.Atoi(toks[6])
		var sb strings.Builder
		cnt := 0
		s.St.ScanFromTo(string(unhex(toks[1])), b01(toks[2]), string(unhex(toks[3])), b01(toks[4]), b01(toks[5]), func(k, v []byte) bool {
			sb.WriteString(kvStr(k, v))
			sb.WriteByte(';')
			cnt++
			return cnt != stop
		})
		return compact(sb.String())
	}
	return "bad-op"
}

var lastInputsCheck = "inputs-unchanged"

var heldOut, heldCopy []byte

func optString(opts []slim.Opt) string {
	if len(opts) == 0 {
		return "-"
	}
	p := func(b *bool) string {
		if b == nil {
			return "n"
		}
		if *b {
			return "t"
		}
		return "f"
	}
	o := opts[0]
	return p(o.DedupValue) + p(o.InnerPrefix) + p(o.LeafPrefix) + p(o.Complete)
}

func scribble(b []byte, pattern string) {
	for i := range b {
		switch pattern {
		case "0":
			b[i] = 0
		case "1":
			b[i] = 0xff
		default:
			b[i] = byte(i*131 + 7)
		}
	}
}

func kvStr(k, v []byte) string {
	ks, vs := "nil", "nil"
	if k != nil {
		ks = lp.X(k)
	}
	if v != nil {
		vs = lp.X(v)
	}
	return ks + "=" + vs
}

// compact keeps short listings verbatim and hashes long ones.
func compact(s string) string {
	if len(s) <= 2000 {
		return "l:" + s
	}
	return fmt.Sprintf("h:%d:%s", len(s), Fnv64([]byte(s)))
}

func fmtInt(v int64, found bool) string {
	if !found {
		return fmt.Sprintf("nf %d", v)
	}
	return fmt.Sprintf("f %d", v)
}

func init() {
	lp.Register("trie", interp)
}
