#!/usr/bin/env python3
"""Prints the markdown table of DESIGN.md §10 from seeded/*/meta.json."""
import json, glob, os
rows = []
for d in sorted(glob.glob("/verif/seeded/*/")):
    m = json.load(open(os.path.join(d, "meta.json")))
    name = os.path.basename(d.rstrip("/"))
    missed = "missed at first" in (m.get("note") or "") or "first caught only" in (m.get("note") or "") or "hung" in (m.get("note") or "")
    rows.append((name, m.get("property"), ", ".join(m.get("caught_by") or []), "no" if missed else "yes", (m.get("note") or "").replace("|", "/")))
print("| seeded change | property | caught by | caught before strengthening | what it took |")
print("|---|---|---|---|---|")
for r in rows:
    print("| %s | %s | %s | %s | %s |" % r)
print()
print("%d changes; %d caught by the checks as they were when the change arrived, %d only after strengthening (generators / watchdog)." % (
    len(rows), sum(1 for r in rows if r[3] == "yes"), sum(1 for r in rows if r[3] == "no")))
