import SlimProofs.IterStack
/-
  SlimProofs.IterMain — `NewIter(start, includeStart)` followed by any number of `next()` calls on
  a well-formed Complete trie: the yielded items are exactly the kept keys `≥ start` (`> start`
  for an exclusive start) in ascending index order, each once, then `(nil, nil)` forever.

  * `IterMain.scanIdx`      the kept indexes a scan from `start` selects
  * `IterMain.filter_kfrom` a predicate that is false on the kept keys below `a` and true on
                            those from `a` on selects `kfrom … a`
  * `iter_exact`            the theorem (assembles `getGEPath_exact`, `buildStack_spec`,
                            `ready_of_advance`, `iterTake_ready` and the single-node case)
-/

namespace IterMain
open Subtree SearchDescent RangeDropped Exact Scan IterLemmas IterStack

/-- the kept indexes whose key is `≥ start` (`> start` if `incl = false`), ascending -/
def scanIdx (keys : List Bytes) (keep : List Bool) (start : Bytes) (incl : Bool) : List Nat :=
  (kfrom keep keys.length 0).filter
    (fun i => if incl then bytesLe start (keys.getD i []) else bytesLt start (keys.getD i []))

theorem kfrom_split (keep : List Bool) (n a : Nat) (h : a ≤ n) :
    kfrom keep n 0 = (List.range' 0 a).filter (keptAt keep) ++ kfrom keep n a := by
  unfold kfrom
  have : List.range' 0 (n - 0) = List.range' 0 a ++ List.range' a (n - a) := by
    have h1 : List.range' a (n - a) = List.range' (0 + a) (n - a) := by rw [Nat.zero_add]
    rw [h1, List.range'_append_1]; congr 1; omega
  rw [this, List.filter_append]

theorem filter_kfrom (keep : List Bool) (n a : Nat) (P : Nat → Bool) (h : a ≤ n)
    (hlow : ∀ i, i < a → keptAt keep i = true → P i = false)
    (hhigh : ∀ i, a ≤ i → i < n → keptAt keep i = true → P i = true) :
    (kfrom keep n 0).filter P = kfrom keep n a := by
  rw [kfrom_split keep n a h, List.filter_append]
  have h1 : ((List.range' 0 a).filter (keptAt keep)).filter P = [] := by
    rw [List.filter_eq_nil_iff]
    intro i hi
    rw [List.mem_filter, List.mem_range'_1] at hi
    rw [hlow i (by omega) hi.2]; simp
  have h2 : (kfrom keep n a).filter P = kfrom keep n a := by
    rw [List.filter_eq_self]
    intro i hi
    unfold kfrom at hi
    rw [List.mem_filter, List.mem_range'_1] at hi
    exact hhigh i hi.1.1 (by omega) hi.2
  rw [h1, h2, List.nil_append]

theorem newIter_eq (v : View) (p : GEPath) (skip : Bool) (stack : List Elt) (buf : Bytes)
    (h : buildStack v p.path [] [] 0 = .ok (stack, buf)) :
    newIter v p skip = .ok (if skip then .walk (advance stack) buf
      else if p.path.length = 1 then .single (p.path.headD 0) buf false else .walk stack buf) := by
  unfold newIter
  rw [h]
  simp only [bind, Except.bind, pure, Except.pure]
  cases skip with
  | true => rfl
  | false =>
    simp only [Bool.false_eq_true, if_false]
    split <;> rfl

theorem chain_inv {keys : List Bytes} {keep : List Bool} {t : Trie1} {queue : Array Subset}
    {stack : List Elt} {nxt : Nat} (h : Chain keys keep t queue stack nxt) (hne : stack ≠ []) :
    ∃ rest j o r ws c, stack = mkElt r o.fb ws c :: rest ∧ nxt = r.firstChild + c ∧
      Chain keys keep t queue rest j ∧ queue[j]? = some o ∧ t.nodes[j]? = some (.inner r) ∧
      InnerFacts keys keep t queue j o r ws ∧ c < r.labels.length := by
  cases h with
  | nil => exact absurd rfl hne
  | cons h1 h2 h3 h4 h5 => exact ⟨_, _, _, _, _, _, rfl, rfl, h1, h2, h3, h4, h5⟩

theorem ready_lt {keys : List Bytes} {keep : List Bool} {t : Trie1} {queue : Array Subset}
    (h : QOK keys keep t queue) {stack : List Elt} {buf : Bytes} {m : Nat}
    (hr : Ready keys keep t queue stack buf m) : m < keys.length ∧ keptAt keep m = true := by
  obtain ⟨rest, j, o, r, ws, c, oc, _, _, _, _, _, _, hqc, _, hmin⟩ := hr
  have := (h.at hqc).1.le
  exact ⟨by have := hmin.2.1; omega, hmin.2.2.1⟩

/-- the selection predicate of a scan, on the kept keys around the first key `≥ start` -/
theorem scanIdx_first (keys : List Bytes) (keep : List Bool) (hasc : strictAsc keys = true)
    (start : Bytes) (incl : Bool) (m : Nat) (hf : FirstGE keys keep start m) :
    scanIdx keys keep start incl =
      if (keys.getD m [] == start && !incl) then kfrom keep keys.length (m + 1)
      else kfrom keep keys.length m := by
  obtain ⟨hmn, hkm, hge, hlow⟩ := hf
  -- below `m`: not selected; above `m`: selected
  have hbelow : ∀ i, i < m → keptAt keep i = true →
      (if incl then bytesLe start (keys.getD i []) else bytesLt start (keys.getD i [])) = false := by
    intro i h1 h2
    have hlt := hlow i h1 h2
    have h3 : bytesLt start (keys.getD i []) = false :=
      bytesLt_false_of_gt (bytesLt_iff_nibs.mp hlt)
    cases incl with
    | true =>
      simp only [if_true]
      unfold bytesLe bytesLt cmpBytes at *
      rw [lexCmp_swap ((keys.getD i []).map UInt8.toNat) (start.map UInt8.toNat)]
      cases hc : lexCmp ((keys.getD i []).map UInt8.toNat) (start.map UInt8.toNat) <;>
        simp_all [Ordering.swap]
    | false => simpa using h3
  have habove : ∀ i, m < i → i < keys.length → keptAt keep i = true →
      (if incl then bytesLe start (keys.getD i []) else bytesLt start (keys.getD i [])) = true := by
    intro i h1 h2 _
    have hmi := strictAsc_lt hasc h1 h2
    -- start ≤ key m < key i
    have hsi : bytesLt start (keys.getD i []) = true := by
      rw [bytesLt_iff_nibs] at hmi ⊢
      cases hc : lexCmp (nibs start) (nibs (keys.getD m [])) with
      | lt => exact lexCmp_lt_trans hc hmi
      | eq => rw [lexCmp_eq_iff.mp hc]; exact hmi
      | gt =>
        have := bytesLt_iff_nibs.mpr ((lexCmp_gt_iff _ _).mp hc)
        rw [this] at hge; cases hge
    cases incl with
    | true =>
      simp only [if_true]
      unfold bytesLe bytesLt at *
      cases hc : cmpBytes start (keys.getD i []) <;> simp_all
    | false => simpa using hsi
  unfold scanIdx
  by_cases hskip : (keys.getD m [] == start && !incl) = true
  · rw [if_pos hskip]
    rw [Bool.and_eq_true] at hskip
    obtain ⟨h1, h2⟩ := hskip
    have heq : keys.getD m [] = start := by simpa using h1
    have hincl : incl = false := by simpa using h2
    apply filter_kfrom keep keys.length (m + 1) _ (by omega)
    · intro i h3 h4
      by_cases h5 : i = m
      · rw [h5, hincl, heq]
        simp only [Bool.false_eq_true, if_false]
        exact bytesLt_irrefl start
      · exact hbelow i (by omega) h4
    · intro i h3 h4 h5
      exact habove i (by omega) h4 h5
  · rw [if_neg hskip]
    apply filter_kfrom keep keys.length m _ (by omega) hbelow
    intro i h3 h4 h5
    by_cases h6 : i = m
    · rw [h6]
      cases hincl : incl with
      | true =>
        simp only [if_true]
        unfold bytesLe
        unfold bytesLt at hge
        rw [show cmpBytes start (keys.getD m []) =
          (cmpBytes (keys.getD m []) start).swap from lexCmp_swap _ _]
        cases hc : cmpBytes (keys.getD m []) start <;> simp_all [Ordering.swap]
      | false =>
        simp only [Bool.false_eq_true, if_false]
        rw [hincl] at hskip
        have hne : keys.getD m [] ≠ start := by simpa using hskip
        cases hb : bytesLt start (keys.getD m []) with
        | true => rfl
        | false =>
          exfalso
          apply hne
          apply nibs_injective
          cases hc : lexCmp (nibs (keys.getD m [])) (nibs start) with
          | eq => exact lexCmp_eq_iff.mp hc
          | lt => rw [bytesLt_iff_nibs.mpr hc] at hge; cases hge
          | gt => rw [bytesLt_iff_nibs.mpr ((lexCmp_gt_iff _ _).mp hc)] at hb; cases hb
    · exact habove i (by omega) h4 h5

theorem scanIdx_none (keys : List Bytes) (keep : List Bool) (start : Bytes) (incl : Bool)
    (hno : NoGE keys keep start) : scanIdx keys keep start incl = [] := by
  unfold scanIdx
  rw [List.filter_eq_nil_iff]
  intro i hi
  unfold kfrom at hi
  rw [List.mem_filter, List.mem_range'_1] at hi
  have hlt := hno i (by omega) hi.2
  have h3 : bytesLt start (keys.getD i []) = false :=
    bytesLt_false_of_gt (bytesLt_iff_nibs.mp hlt)
  cases incl with
  | true =>
    simp only [if_true]
    unfold bytesLe bytesLt cmpBytes at *
    rw [lexCmp_swap ((keys.getD i []).map UInt8.toNat) (start.map UInt8.toNat)]
    cases hc : lexCmp ((keys.getD i []).map UInt8.toNat) (start.map UInt8.toNat) <;>
      simp_all [Ordering.swap]
  | false =>
    simp only [Bool.false_eq_true, if_false, h3]
    decide

end IterMain

open IterMain Subtree SearchDescent Exact Scan IterLemmas IterStack in
/-- **The iterator, Complete mode.**  `NewIter(start, incl)` returns normally, and any number `k`
    of `next()` calls on the returned state yield the kept keys selected by `scanIdx` (those
    `≥ start`, or `> start` for an exclusive start), ascending, each once, with `valOf` of the key's
    leaf as value when values are requested, followed by `(nil, nil)`. -/
theorem iter_exact (keys : List Bytes) (keep : List Bool) (t : Trie1)
    (hasc : strictAsc keys = true) (hwf : WF keys keep t)
    (hinner : t.opt.inner = true) (hleaf : t.opt.leaf = true)
    (valOf : Nat → Option Bytes)
    (hval : ∀ (id ith : Nat) (lp : Option Bytes) (m : Nat),
      t.nodes[id]? = some (Node.leaf ith lp) → t.leafKeyIdx[ith]? = some m →
      t.view.leafBytes ith = .ok (valOf m))
    (start : Bytes) (incl wv : Bool) :
    ∃ s, newIterFrom t.view start incl = .ok s ∧
      ∀ k, iterTake t.view wv k s
        = .ok (expect k ((scanIdx keys keep start incl).map (yieldOf keys valOf wv))) := by
  obtain ⟨queue, hq, hroot⟩ := (wf_iff keys keep t).mp hwf
  obtain ⟨p, hp, hres⟩ := getGEPath_exact keys keep t hasc hwf hinner hleaf start
  have hnif : ∀ s, newIter t.view p (p.eq && !incl) = .ok s →
      newIterFrom t.view start incl = .ok s := by
    intro s hs
    unfold newIterFrom
    rw [hp]
    exact hs
  rcases hres with ⟨m, id, hfirst, hleafm, ⟨pa, hpath, hanc⟩, heq⟩ | ⟨hno, hpath, heq⟩
  · -- there is a first kept key `≥ start`
    rw [scanIdx_first keys keep hasc start incl m hfirst, ← heq]
    obtain ⟨hmn, hkm, _, _⟩ := hfirst
    obtain ⟨ith, lp, hnd, hidx⟩ := hleafm
    have hrootbuf : BufAgree ([] : Bytes) (knOf keys (0 : Nat)) 0 := ⟨Nat.le_refl _, rfl⟩
    obtain ⟨stack', buf', oid, hbs, hch', hqid, hbuf', hlen⟩ :=
      buildStack_spec hq hinner hanc [] [] _ Chain.nil hroot hrootbuf
    rw [← hpath] at hbs
    -- the subset of the leaf is `{m}`
    obtain ⟨hsubid, hidlt, hnodeid⟩ := hq.at hqid
    have hnd' : t.nodes[id] = .leaf ith lp := (Array.getElem?_eq_some_iff.mp hnd).2
    rw [hnd'] at hnodeid
    obtain ⟨hoe, hidx', hlp⟩ := hnodeid
    have hos : oid.s = m := by rw [hidx] at hidx'; cases hidx'; rfl
    have hoe' : oid.e = m + 1 := by omega
    rw [hos] at hbuf'
    have hnew := newIter_eq t.view p (p.eq && !incl) stack' buf' hbs
    cases hskip : (p.eq && !incl) with
    | true =>
      -- exclusive start on an exact hit: skip the first key
      rw [hskip] at hnew hnif
      simp only [if_true] at hnew ⊢
      refine ⟨_, hnif _ hnew, ?_⟩
      intro k
      rcases ready_of_advance hq hroot stack' id m oid buf' hch' hqid hos hoe' hkm hbuf' with
        ⟨hadv, hnone⟩ | ⟨m', hr', hlt, hnone⟩
      · rw [hadv, kfrom_nil keep keys.length (m + 1) (fun t' h1 h2 => hnone t' (by omega) h2)]
        simp only [List.map_nil, expect_nil]
        exact iterTake_exhausted _ _ k _
      · rw [kfrom_skip keep keys.length (m + 1) m' (by omega) (by have := (ready_lt hq hr').1; omega)
          (fun t' h1 h2 => hnone t' (by omega) h2)]
        exact iterTake_ready hq hroot hinner hleaf valOf hval wv k _ _ m' hr'
    | false =>
      rw [hskip] at hnew hnif
      simp only [Bool.false_eq_true, if_false] at hnew ⊢
      by_cases hpa : pa = []
      · -- the root is a leaf: the single-node special case
        subst hpa
        cases hanc
        have hpl : p.path.length = 1 := by rw [hpath]; rfl
        have hhd : p.path.headD 0 = 0 := by rw [hpath]; rfl
        rw [if_pos hpl, hhd] at hnew
        have hbs0 : buildStack t.view p.path [] [] 0 = .ok ([], []) := by
          rw [hpath]; exact buildStack_one _ _ _ _ _
        rw [hbs0] at hbs
        cases hbs
        refine ⟨_, hnif _ hnew, ?_⟩
        intro k
        rw [hroot] at hqid; cases hqid
        have hm0 : m = 0 := hos.symm
        subst hm0
        have hn1 : keys.length = 1 := hoe
        have hk1 : kfrom keep keys.length 0 = [0] := by
          rw [kfrom_cons keep keys.length 0 (by omega) hkm,
            kfrom_nil keep keys.length 1 (fun t' h1 h2 => by omega)]
        rw [hk1]
        cases k with
        | zero => rfl
        | succ k =>
          simp only [List.map_cons, List.map_nil, expect_cons, expect_nil]
          have hlv : leafValue t.view wv ith = .ok (if wv then valOf 0 else none) := by
            unfold leafValue
            cases wv with
            | true => simp only [if_true]; exact hval _ ith lp 0 hnd hidx
            | false => rfl
          have hnext := iterNext_single t.view wv 0 ith lp _ [] (view_node_of t 0 _ hnd) hlv
          have hkey : ([] : Bytes) ++ lp.getD [] = keys.getD 0 [] := by
            rw [hlp, leafPrefOf_getD t.opt hleaf]
            show [] ++ List.drop (0 / 2) (keys.getD 0 []) = _
            simp
          rw [hkey] at hnext
          exact iterTake_succ _ _ k _ _ _ _ _ hnext (iterTake_consumed _ _ k _ _)
      · have hpl : ¬ p.path.length = 1 := by
          rw [hpath, List.length_append, List.length_singleton]
          have : pa.length ≠ 0 := fun h => hpa (List.length_eq_zero_iff.mp h)
          omega
        rw [if_neg hpl] at hnew
        refine ⟨_, hnif _ hnew, ?_⟩
        intro k
        have hne : stack' ≠ [] := by
          intro h
          rw [h] at hlen
          have : pa.length ≠ 0 := fun h => hpa (List.length_eq_zero_iff.mp h)
          simp at hlen; omega
        obtain ⟨rest, j, o, r, ws, c, rfl, rfl, hch, hqj, hnj, F, hc⟩ := chain_inv hch' hne
        have hsubj := (hq.at hqj).1
        obtain ⟨hcfb, hrun, _, hagc⟩ := kid_facts hsubj F c hc oid hqid
        rw [hos] at hagc
        apply iterTake_ready hq hroot hinner hleaf valOf hval wv k _ _ m
        refine ⟨rest, j, o, r, ws, c, oid, rfl, hch, hqj, hnj, F, hc, hqid,
          (hbuf'.mono (by omega)).congr hagc, ?_⟩
        exact ⟨by omega, by omega, hkm, fun t' h1 h2 => by omega⟩
  · -- every kept key is below `start`
    rw [scanIdx_none keys keep start incl hno]
    have hbs : buildStack t.view p.path [] [] 0 = .ok ([], []) := by
      rw [hpath]; rfl
    have hnew := newIter_eq t.view p (p.eq && !incl) [] [] hbs
    rw [heq, hpath] at hnew
    simp only [Bool.false_and, Bool.false_eq_true, if_false, List.length_nil] at hnew
    rw [heq] at hnif
    refine ⟨_, hnif _ hnew, ?_⟩
    intro k
    simp only [List.map_nil, expect_nil]
    split
    · rename_i h; cases h
    · exact iterTake_exhausted _ _ k _

#print axioms iter_exact
