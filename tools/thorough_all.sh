#!/bin/bash
# thorough_all.sh : setup + every check in the thorough tier, with timing (for `vp run`).
cd "$(dirname "$0")/.." || exit 2
./check setup > thorough_setup.log 2>&1 || { echo "SETUP FAILED"; tail -20 thorough_setup.log; exit 1; }
for p in $(python3 -c "import json; print(' '.join(c['property_id'] for c in json.load(open('MANIFEST.json'))['checks']))"); do
  s=$(date +%s); out=$(./check $p --tier thorough 2>&1); rc=$?; e=$(date +%s)
  echo "$p rc=$rc $((e-s))s $(echo "$out" | grep -E '^OK|VIOLATION|KNOWN' | tr '\n' ' ' | cut -c1-200)"
  [ $rc -ne 0 ] && echo "$out" | head -20
done
echo THOROUGH DONE
