import SlimProofs.InputWire
import SlimProofs.InstanceLemmas
import SlimProofs.SizeFields
/-
  SlimProofs.InputCore — `Refine.Small t` follows from its six counter fields alone
  (`SmallCore t`): for a well-shaped trie whose counters fit an int32 the protobuf body is far
  below the allocator limit `maxAlloc = 2^48`, so the field `body` of `Small` is redundant.

    small_of_core : (t.nodes.size ≠ 0 → ShapeOK t) → SmallCore t → Small t

  Also the pieces needed for the 0.5.10 body (`InputLegacy`): `BMBits`, the size of every
  component of `encodeCreator t`.
-/

namespace InputCore

open Bits Slim Refine Wire InputWire

/-- `Refine.Small` without its field `body` -/
structure SmallCore (t : Trie1) : Prop where
  bigCnt : t.bigCnt < 2 ^ 31
  nodes : t.nodes.size + 63 < 2 ^ 31
  labelBits : labelBits t + 63 < 2 ^ 31
  innerPrefixBytes : (eStoredPs t).flatten.length + 64 < 2 ^ 31
  leafPrefixBytes : (eLeafPs t).flatten.length + 64 < 2 ^ 31
  leafBytes : ∀ es, t.elts = some es → es.length + 63 < 2 ^ 31 ∧ es.flatten.length + 64 < 2 ^ 31

/-! ### bitmaps: `M` bits, hence at most `(M + 63) / 64` words -/

theorem indexSelect32_length (ws : List Nat) :
    (indexSelect32 ws).length = ((toArray ws).length + 31) / 32 := by
  unfold indexSelect32; simp

theorem mk_BMLen (ws : List Nat) (opt : String) (hopt : opt = "r64" ∨ opt = "r128" ∨ opt = "s32")
    (hw : ∀ w ∈ ws, w < 2 ^ 64) (hl : 64 * ws.length < 2 ^ 31) : BMLen (mk ws opt) ws.length := by
  refine ⟨mk_WF ws opt hopt hw hl, ?_, ?_, ?_⟩
  · rcases hopt with rfl | rfl | rfl <;> exact Nat.le_refl _
  · rcases hopt with rfl | rfl | rfl
    · rw [mk_r64]; simp only; rw [indexRank64_length]; simp
    · rw [mk_r128]; simp only; rw [indexRank128_length]; omega
    · rw [mk_s32]; simp only; rw [indexRank64_length]; simp
  · rcases hopt with rfl | rfl | rfl
    · rw [mk_r64]; simp
    · rw [mk_r128]; simp
    · rw [mk_s32]; simp only
      rw [indexSelect32_length, toArray_length]
      have := cnt_le (getBit ws) (64 * ws.length)
      omega

/-- a well-formed bitmap of at most `M + 63` bits -/
def BMBits (b : BitmapMsg) (M : Nat) : Prop := ∃ W, BMLen b W ∧ 64 * W ≤ M + 63

theorem BMBits.size {b : BitmapMsg} {M : Nat} (h : BMBits b M) : protoSizeBitmap b ≤ 92 + M := by
  obtain ⟨W, hW, h64⟩ := h
  have := protoSizeBitmap_le b W hW
  omega

theorem BMBits.mono {b : BitmapMsg} {M M' : Nat} (h : BMBits b M) (hm : M ≤ M') : BMBits b M' := by
  obtain ⟨W, hW, h64⟩ := h
  exact ⟨W, hW, by omega⟩

theorem newBM_BMBits (idxs : List Nat) (capa n : Nat) (opt : String)
    (hopt : opt = "r64" ∨ opt = "r128" ∨ opt = "s32")
    (h : ∀ i ∈ idxs, i < n) (hn : max capa n + 63 < 2 ^ 31) :
    BMBits (newBM idxs capa opt) (max capa n) := by
  have hb := ofIdx_bits_le idxs capa n h
  exact ⟨_, mk_BMLen _ opt hopt (ofIdx_lt idxs capa) (by omega), hb⟩

theorem positionBM_BMBits (ps : List Bytes) (h : ps.flatten.length + 64 < 2 ^ 31) :
    BMBits (newBM (stepToPos (ps.map List.length)) 0 "s32") (ps.flatten.length + 1) := by
  have := newBM_BMBits (stepToPos (ps.map List.length)) 0 ((ps.map List.length).sum + 1) "s32"
    (by simp) (stepToPos_le _) (by rw [sum_map_length]; omega)
  rw [sum_map_length] at this
  exact this.mono (by omega)

theorem eInnersBM_BMBits {t : Trie1} (hs : ShapeOK t) (hl : labelBits t + 63 < 2 ^ 31) :
    BMBits (eInnersBM t) (labelBits t) := by
  have hlen := ofMany_length (eSub_ok hs)
  have hlb : labelBits t = (eSizes t).sum := rfl
  refine ⟨_, mk_BMLen _ "r128" (by simp) (ofMany_lt _ _) ?_, ?_⟩
  · show 64 * (ofMany (eSubs t) (eSizes t)).length < 2 ^ 31
    rw [hlen]; omega
  · show 64 * (ofMany (eSubs t) (eSizes t)).length ≤ labelBits t + 63
    rw [hlen]; omega

/-! ### well-formedness from `SmallCore` (as `Refine.encodeCreator_WF`, which never reads `body`) -/

theorem eIps_WF {t : Trie1} (hsm : SmallCore t) : (eIps t).WF := by
  have hi := eInners_length_le t
  have hn := hsm.nodes
  have hp : (ePrefIdx t).length ≤ (eInners t).length := by
    unfold ePrefIdx
    refine Nat.le_trans (List.length_filter_le _ _) ?_
    simp
  have hpres : (newBM (ePrefIdx t) (eInners t).length "r128").WF :=
    newBM_WF _ _ (eInners t).length "r128" (by simp) (filter_range_lt _ _) (by omega)
  unfold eIps
  split
  · refine ⟨by simp, by simp; omega, by simp, ?_, ?_⟩
    · intro b hb
      simp only [Option.some.injEq] at hb; subst hb
      exact positionBM_WF _ hsm.innerPrefixBytes
    · intro b hb
      simp only [Option.some.injEq] at hb; subst hb
      exact hpres
  · refine ⟨by simp, by simp; omega, by simp, ?_, ?_⟩
    · intro b hb; simp at hb
    · intro b hb
      simp only [Option.some.injEq] at hb; subst hb
      exact hpres

theorem eLps_WF {t : Trie1} (hsm : SmallCore t) : ∀ v, eLps t = some v → v.WF := by
  intro v hv
  have hl := eLeafLps_length_le t
  have hn := hsm.nodes
  unfold eLps at hv
  split at hv
  · simp only [Option.some.injEq] at hv
    subst hv
    refine ⟨by simp, by simp, by simp, ?_, ?_⟩
    · intro b hb
      simp only [Option.some.injEq] at hb; subst hb
      exact positionBM_WF _ hsm.leafPrefixBytes
    · intro b hb
      simp only [Option.some.injEq] at hb; subst hb
      exact newBM_WF _ _ (eLeafLps t).length "r64" (by simp) (filter_range_lt _ _) (by omega)
  · cases hv

theorem eInnersBM_WF {t : Trie1} (hs : ShapeOK t) (hsm : SmallCore t) : (eInnersBM t).WF := by
  obtain ⟨W, hW, _⟩ := eInnersBM_BMBits hs hsm.labelBits
  exact hW.wf

theorem enc_leaves (t : Trie1) :
    (encodeCreator t).leaves = match t.elts with
      | some es => newVLenArray es
      | none => none := rfl

theorem encodeCreator_WF {t : Trie1} (hs : ShapeOK t) (hsm : SmallCore t) : (encodeCreator t).WF := by
  have hi := eInners_length_le t
  have hn := hsm.nodes
  refine ⟨?_, ?_, ?_, ?_, ?_, ?_, ?_, ?_, ?_⟩
  · rw [enc_bigInnerCnt]; exact hsm.bigCnt
  · rw [enc_shortSize]; have := eShortSize_le t; omega
  · rw [enc_shortTable]; intro x hx; have := eTbl_lt hs x hx; omega
  · intro b hb
    rw [enc_nodeTypeBM] at hb
    split at hb
    · cases hb
    · simp only [Option.some.injEq] at hb; subst hb
      exact newBM_WF _ _ t.nodes.size "r64" (by simp) (filter_range_lt _ _) (by omega)
  · intro b hb
    rw [enc_inners] at hb
    simp only [Option.some.injEq] at hb; subst hb
    exact eInnersBM_WF hs hsm
  · intro b hb
    rw [enc_shortBM] at hb
    simp only [Option.some.injEq] at hb; subst hb
    exact newBM_WF _ _ (eInners t).length "r64" (by simp) (filter_range_lt _ _) (by omega)
  · intro v hv
    rw [enc_innerPrefixes] at hv
    simp only [Option.some.injEq] at hv; subst hv
    exact eIps_WF hsm
  · intro v hv
    rw [enc_leafPrefixes] at hv
    exact eLps_WF hsm v hv
  · intro v hv
    rw [enc_leaves] at hv
    cases he : t.elts with
    | none => rw [he] at hv; cases hv
    | some es =>
      rw [he] at hv
      obtain ⟨h1, h2⟩ := hsm.leafBytes es he
      exact newVLenArray_WF es h1 h2 v hv

/-! ### sizes of the components -/

theorem nodeTypeBM_size {t : Trie1} (hsm : SmallCore t) :
    ∀ b, (encodeCreator t).nodeTypeBM = some b → protoSizeBitmap b ≤ 92 + t.nodes.size := by
  intro b hb
  rw [enc_nodeTypeBM] at hb
  split at hb
  · cases hb
  · simp only [Option.some.injEq] at hb; subst hb
    have := (newBM_BMBits (eInnerIdx t) t.nodes.size t.nodes.size "r64" (by simp)
      (filter_range_lt _ _) (by have := hsm.nodes; omega)).size
    simpa using this

theorem inners_size {t : Trie1} (hs : ShapeOK t) (hsm : SmallCore t) :
    ∀ b, (encodeCreator t).inners = some b → protoSizeBitmap b ≤ 92 + labelBits t := by
  intro b hb
  rw [enc_inners] at hb
  simp only [Option.some.injEq] at hb; subst hb
  exact (eInnersBM_BMBits hs hsm.labelBits).size

theorem shortBM_size {t : Trie1} (hsm : SmallCore t) :
    ∀ b, (encodeCreator t).shortBM = some b → protoSizeBitmap b ≤ 92 + t.nodes.size := by
  intro b hb
  rw [enc_shortBM] at hb
  simp only [Option.some.injEq] at hb; subst hb
  have hi := eInners_length_le t
  have := (newBM_BMBits (eShortIndex t) (eInners t).length (eInners t).length "r64" (by simp)
    (filter_range_lt _ _) (by have := hsm.nodes; omega)).size
  simp only [Nat.max_self] at this
  omega

theorem shortTable_length (t : Trie1) : (encodeCreator t).shortTable.length ≤ 1024 := by
  rw [enc_shortTable, SizeShort.eTbl_length]
  have := eShortSize_le t
  calc 2 ^ eShortSize t ≤ 2 ^ 10 := Nat.pow_le_pow_right (by omega) this
    _ = 1024 := by decide

theorem presence_ips_BMBits {t : Trie1} (hsm : SmallCore t) :
    BMBits (newBM (ePrefIdx t) (eInners t).length "r128") t.nodes.size := by
  have hi := eInners_length_le t
  have := newBM_BMBits (ePrefIdx t) (eInners t).length (eInners t).length "r128" (by simp)
    (filter_range_lt _ _) (by have := hsm.nodes; omega)
  simp only [Nat.max_self] at this
  exact this.mono hi

theorem steps_bytes_le (t : Trie1) :
    ((eInners t).filterMap stepOf).flatten.length ≤ 2 * t.nodes.size := by
  rw [SizeFields.steps_bytes_length]
  have := SizeFields.steps_le t
  have := eInners_length_le t
  omega

theorem eIps_bytes_le (t : Trie1) :
    (eIps t).bytes.length ≤ (eStoredPs t).flatten.length + 2 * t.nodes.size := by
  unfold eIps
  split
  · simp
  · have := steps_bytes_le t
    simp only
    omega

theorem eIps_size {t : Trie1} (hsm : SmallCore t) :
    protoSizeVLenArray (eIps t)
      ≤ 415 + 6 * t.nodes.size + 4 * (eStoredPs t).flatten.length := by
  have hb := eIps_bytes_le t
  have hq := (presence_ips_BMBits hsm).size
  have hp := (positionBM_BMBits (eStoredPs t) hsm.innerPrefixBytes).size
  have := protoSizeVLenArray_le (eIps t) (92 + ((eStoredPs t).flatten.length + 1)) (92 + t.nodes.size)
    ((eStoredPs t).flatten.length + 2 * t.nodes.size) (eIps_WF hsm)
    (by
      intro b hb'
      unfold eIps at hb'
      split at hb'
      · simp only [Option.some.injEq] at hb'; subst hb'; exact hp
      · simp at hb')
    (by
      intro b hb'
      have : (eIps t).presenceBM = some (newBM (ePrefIdx t) (eInners t).length "r128") := by
        unfold eIps; split <;> rfl
      rw [this] at hb'
      simp only [Option.some.injEq] at hb'; subst hb'; exact hq)
    hb
  omega

theorem eLps_size {t : Trie1} (hsm : SmallCore t) :
    ∀ v, eLps t = some v →
      protoSizeVLenArray v ≤ 415 + 2 * t.nodes.size + 4 * (eLeafPs t).flatten.length := by
  intro v hv
  have hwf := eLps_WF hsm v hv
  have hl := eLeafLps_length_le t
  have hn := hsm.nodes
  have hq := (newBM_BMBits (eLeafIdx t) (eLeafLps t).length (eLeafLps t).length "r64" (by simp)
    (filter_range_lt _ _) (by omega)).size
  simp only [Nat.max_self] at hq
  have hp := (positionBM_BMBits (eLeafPs t) hsm.leafPrefixBytes).size
  unfold eLps at hv
  split at hv
  · simp only [Option.some.injEq] at hv
    subst hv
    have := protoSizeVLenArray_le _ (92 + ((eLeafPs t).flatten.length + 1)) (92 + t.nodes.size)
      (eLeafPs t).flatten.length hwf
      (by intro b hb; simp only [Option.some.injEq] at hb; subst hb; exact hp)
      (by intro b hb; simp only [Option.some.injEq] at hb; subst hb; omega)
      (Nat.le_refl _)
    omega
  · cases hv

theorem newVLenArray_fields (es : List Bytes) (v : VLenArrayMsg) (hv : newVLenArray es = some v) :
    v.bytes = es.flatten ∧
    (∀ b, v.presenceBM = some b → b = newBM ((List.range es.length).filter
        (fun i => ((es.map List.length).getD i 0) > 0)) es.length "r64") ∧
    (∀ b, v.positionBM = some b → b = newBM (stepToPos (es.map List.length)) 0 "s32") := by
  unfold newVLenArray at hv
  simp only at hv
  have key : ∀ (allEqual : Bool),
      (if (es.map List.length).sum = 0 then none else
        if allEqual = true then
          some ({ n := es.length,
                  eltCnt := ((List.range es.length).filter (fun i => ((es.map List.length).getD i 0) > 0)).length,
                  bytes := es.flatten,
                  presenceBM := some (newBM ((List.range es.length).filter
                    (fun i => ((es.map List.length).getD i 0) > 0)) es.length "r64"),
                  fixedSize := ((es.map List.length).filter (· > 0)).getLast?.getD 0 } : VLenArrayMsg)
        else
          some { n := es.length,
                 eltCnt := ((List.range es.length).filter (fun i => ((es.map List.length).getD i 0) > 0)).length,
                 bytes := es.flatten,
                 presenceBM := some (newBM ((List.range es.length).filter
                   (fun i => ((es.map List.length).getD i 0) > 0)) es.length "r64"),
                 positionBM := some (newBM (stepToPos (es.map List.length)) 0 "s32") }) = some v →
      v.bytes = es.flatten ∧
      (∀ b, v.presenceBM = some b → b = newBM ((List.range es.length).filter
          (fun i => ((es.map List.length).getD i 0) > 0)) es.length "r64") ∧
      (∀ b, v.positionBM = some b → b = newBM (stepToPos (es.map List.length)) 0 "s32") := by
    intro allEqual hv
    split at hv
    · cases hv
    · split at hv
      · simp only [Option.some.injEq] at hv
        subst hv
        refine ⟨rfl, ?_, ?_⟩
        · intro b hb; simp only [Option.some.injEq] at hb; exact hb.symm
        · intro b hb; simp at hb
      · simp only [Option.some.injEq] at hv
        subst hv
        refine ⟨rfl, ?_, ?_⟩
        · intro b hb; simp only [Option.some.injEq] at hb; exact hb.symm
        · intro b hb; simp only [Option.some.injEq] at hb; exact hb.symm
  exact key _ hv

theorem leaves_size (es : List Bytes) (h1 : es.length + 63 < 2 ^ 31)
    (h2 : es.flatten.length + 64 < 2 ^ 31) :
    ∀ v, newVLenArray es = some v →
      protoSizeVLenArray v ≤ 415 + 2 * es.length + 4 * es.flatten.length := by
  intro v hv
  have hwf := newVLenArray_WF es h1 h2 v hv
  obtain ⟨hb, hpres, hpos⟩ := newVLenArray_fields es v hv
  have hq := (newBM_BMBits ((List.range es.length).filter
      (fun i => ((es.map List.length).getD i 0) > 0)) es.length es.length "r64" (by simp)
    (filter_range_lt _ _) (by omega)).size
  simp only [Nat.max_self] at hq
  have hp := (positionBM_BMBits es h2).size
  have := protoSizeVLenArray_le v (92 + (es.flatten.length + 1)) (92 + es.length)
    es.flatten.length hwf
    (by intro b hb'; rw [hpos b hb']; exact hp)
    (by intro b hb'; rw [hpres b hb']; exact hq)
    (by rw [hb]; exact Nat.le_refl _)
  omega

/-! ### the body -/

/-- the size of the message of a well-shaped trie, linear in its counters -/
theorem protoSizeSlim_encodeCreator_le {t : Trie1} (hs : ShapeOK t) (hsm : SmallCore t) :
    protoSizeSlim (encodeCreator t) ≤ 2 ^ 40 := by
  have hwf := encodeCreator_WF hs hsm
  have hn := hsm.nodes
  have hl := hsm.labelBits
  have hip := hsm.innerPrefixBytes
  have hlp := hsm.leafPrefixBytes
  cases he : t.elts with
  | none =>
    have := protoSizeSlim_le (encodeCreator t) (92 + t.nodes.size) (92 + labelBits t)
      (92 + t.nodes.size) 1024
      (415 + 6 * t.nodes.size + 4 * (eStoredPs t).flatten.length)
      (415 + 2 * t.nodes.size + 4 * (eLeafPs t).flatten.length) 0 hwf
      (nodeTypeBM_size hsm) (inners_size hs hsm) (shortBM_size hsm) (shortTable_length t)
      (by
        intro v hv
        rw [enc_innerPrefixes] at hv
        simp only [Option.some.injEq] at hv; subst hv
        exact eIps_size hsm)
      (by intro v hv; rw [enc_leafPrefixes] at hv; exact eLps_size hsm v hv)
      (by intro v hv; rw [enc_leaves, he] at hv; cases hv)
    have hu : (encodeCreator t).unrecognized.length = 0 := rfl
    omega
  | some es =>
    obtain ⟨h1, h2⟩ := hsm.leafBytes es he
    have := protoSizeSlim_le (encodeCreator t) (92 + t.nodes.size) (92 + labelBits t)
      (92 + t.nodes.size) 1024
      (415 + 6 * t.nodes.size + 4 * (eStoredPs t).flatten.length)
      (415 + 2 * t.nodes.size + 4 * (eLeafPs t).flatten.length)
      (415 + 2 * es.length + 4 * es.flatten.length) hwf
      (nodeTypeBM_size hsm) (inners_size hs hsm) (shortBM_size hsm) (shortTable_length t)
      (by
        intro v hv
        rw [enc_innerPrefixes] at hv
        simp only [Option.some.injEq] at hv; subst hv
        exact eIps_size hsm)
      (by intro v hv; rw [enc_leafPrefixes] at hv; exact eLps_size hsm v hv)
      (by intro v hv; rw [enc_leaves, he] at hv; exact leaves_size es h1 h2 v hv)
    have hu : (encodeCreator t).unrecognized.length = 0 := rfl
    omega

theorem bodyOK_encode {t : Trie1} (hs : t.nodes.size ≠ 0 → ShapeOK t) (hsm : SmallCore t) :
    Frame.BodyOK (encodeSlim (Slim.encode t)) := by
  unfold Frame.BodyOK Frame.maxAlloc
  rw [← protoSizeSlim_eq]
  unfold Slim.encode
  split
  · have : protoSizeSlim ({} : SlimMsg) = 0 := by decide
    rw [this]; omega
  · next h =>
    have := protoSizeSlim_encodeCreator_le (hs h) hsm
    omega

/-- **`Small` from its counters**: the field `body` is implied by the other six. -/
theorem small_of_core {t : Trie1} (hs : t.nodes.size ≠ 0 → ShapeOK t) (hsm : SmallCore t) :
    Small t :=
  ⟨hsm.bigCnt, hsm.nodes, hsm.labelBits, hsm.innerPrefixBytes, hsm.leafPrefixBytes, hsm.leafBytes,
    bodyOK_encode hs hsm⟩

theorem core_of_small {t : Trie1} (h : Small t) : SmallCore t :=
  ⟨h.bigCnt, h.nodes, h.labelBits, h.innerPrefixBytes, h.leafPrefixBytes, h.leafBytes⟩

end InputCore
