import SlimModel.Bits
/-
  SlimProofs.BitsLemmas.Count — generic counting over `List.range`:
  `cnt p n` = number of `j < n` with `p j`, the `k`-th element of `(range n).filter p`,
  counting the members of a duplicate-free list, strictly ascending lists.
  Nothing here mentions bitmaps.
-/

namespace Bits

/-- strictly ascending -/
abbrev Asc (l : List Nat) : Prop := l.Pairwise (· < ·)
/-- ascending, duplicates allowed -/
abbrev AscLe (l : List Nat) : Prop := l.Pairwise (· ≤ ·)

/-- number of `j < n` with `p j` -/
def cnt (p : Nat → Bool) (n : Nat) : Nat := (List.range n).countP p

theorem cnt_eq_length_filter (p : Nat → Bool) (n : Nat) :
    cnt p n = ((List.range n).filter p).length := List.countP_eq_length_filter

@[simp] theorem cnt_zero (p : Nat → Bool) : cnt p 0 = 0 := by simp [cnt]

theorem cnt_succ (p : Nat → Bool) (n : Nat) :
    cnt p (n + 1) = cnt p n + (if p n then 1 else 0) := by
  simp [cnt, List.range_succ, List.countP_cons]

theorem cnt_add (p : Nat → Bool) (a b : Nat) :
    cnt p (a + b) = cnt p a + cnt (fun j => p (a + j)) b := by
  simp [cnt, List.range_add, List.countP_map, Function.comp_def]

theorem cnt_le (p : Nat → Bool) (n : Nat) : cnt p n ≤ n := by
  induction n with
  | zero => simp
  | succ n ih => rw [cnt_succ]; split <;> omega

theorem cnt_mono (p : Nat → Bool) {m n : Nat} (h : m ≤ n) : cnt p m ≤ cnt p n := by
  obtain ⟨d, rfl⟩ := Nat.exists_eq_add_of_le h
  rw [cnt_add]; omega

theorem cnt_congr {p q : Nat → Bool} {n : Nat} (h : ∀ j, j < n → p j = q j) :
    cnt p n = cnt q n := by
  apply List.countP_congr
  intro x hx
  rw [h x (List.mem_range.mp hx)]

theorem cnt_succ_le_of_true {p : Nat → Bool} {m n : Nat} (hp : p m = true) (hmn : m < n) :
    cnt p m + 1 ≤ cnt p n := by
  have h1 : cnt p (m + 1) ≤ cnt p n := cnt_mono p hmn
  rw [cnt_succ, hp] at h1
  simpa using h1

theorem cnt_eq_of_none {p : Nat → Bool} {m n : Nat} (hmn : m ≤ n)
    (h : ∀ j, m ≤ j → j < n → p j = false) : cnt p n = cnt p m := by
  obtain ⟨d, rfl⟩ := Nat.exists_eq_add_of_le hmn
  rw [cnt_add]
  have : cnt (fun j => p (m + j)) d = 0 := by
    simp only [cnt, List.countP_eq_zero, List.mem_range]
    intro a ha
    simp [h (m + a) (by omega) (by omega)]
  omega

theorem cnt_false (n : Nat) : cnt (fun _ => false) n = 0 := by
  simp [cnt]

/-- restricting the predicate to `i < j` is counting up to `min j n` -/
theorem cnt_and_lt (p : Nat → Bool) (j n : Nat) :
    cnt (fun i => decide (i < j) && p i) n = cnt p (min j n) := by
  induction n with
  | zero => simp
  | succ n ih =>
    rw [cnt_succ, ih]
    by_cases h : n < j
    · have e1 : min j (n + 1) = n + 1 := by omega
      have e2 : min j n = n := by omega
      rw [e1, e2, cnt_succ]; simp [h]
    · have e1 : min j (n + 1) = j := by omega
      have e2 : min j n = j := by omega
      rw [e1, e2]; simp [h]

/-- the `k`-th (0-based) `j < n` with `p j` is the one with exactly `k` such numbers below it -/
theorem filter_range_getElem?_eq_some (p : Nat → Bool) (n k a : Nat) :
    ((List.range n).filter p)[k]? = some a ↔ a < n ∧ p a = true ∧ cnt p a = k := by
  induction n with
  | zero => simp
  | succ n ih =>
    rw [List.range_succ, List.filter_append]
    by_cases hk : k < ((List.range n).filter p).length
    · rw [List.getElem?_append_left hk, ih]
      constructor
      · rintro ⟨h1, h2, h3⟩; exact ⟨by omega, h2, h3⟩
      · rintro ⟨h1, h2, h3⟩
        refine ⟨?_, h2, h3⟩
        rcases Nat.lt_or_ge a n with h | h
        · exact h
        · have : a = n := by omega
          subst this
          rw [← cnt_eq_length_filter] at hk; omega
    · have hk' : ((List.range n).filter p).length ≤ k := by omega
      rw [List.getElem?_append_right hk']
      rw [← cnt_eq_length_filter] at hk' ⊢
      constructor
      · intro h
        by_cases hp : p n = true
        · simp only [List.filter_cons, hp, if_true, List.filter_nil] at h
          have hk0 : k - cnt p n = 0 := by
            rcases Nat.eq_zero_or_pos (k - cnt p n) with h0 | h0
            · exact h0
            · rw [List.getElem?_eq_none (by simp; omega)] at h; cases h
          rw [hk0] at h
          simp at h
          subst h
          exact ⟨by omega, hp, by omega⟩
        · simp [hp] at h
      · rintro ⟨h1, h2, h3⟩
        have : a = n := by
          rcases Nat.lt_or_ge a n with h | h
          · have := cnt_succ_le_of_true h2 h; omega
          · omega
        subst this
        simp [h2, h3]

theorem filter_range_length (p : Nat → Bool) (n : Nat) :
    ((List.range n).filter p).length = cnt p n := (cnt_eq_length_filter p n).symm

theorem cnt_mem_cons {x : Nat} {d : List Nat} (hx : x ∉ d) (n : Nat) :
    cnt (fun j => decide (j ∈ x :: d)) n
      = (if x < n then 1 else 0) + cnt (fun j => decide (j ∈ d)) n := by
  induction n with
  | zero => simp
  | succ n ihn =>
    rw [cnt_succ, cnt_succ, ihn]
    by_cases h1 : x < n
    · have : x < n + 1 := by omega
      have hne : n ≠ x := by omega
      simp [h1, this, hne]; omega
    · by_cases h2 : x = n
      · subst h2; simp [hx]; omega
      · have : ¬ x < n + 1 := by omega
        have hne : n ≠ x := by omega
        simp [h1, this, hne]

/-- counting the members of a duplicate-free list below `n` -/
theorem cnt_mem_nodup {d : List Nat} (hd : d.Nodup) (n : Nat) :
    cnt (fun j => decide (j ∈ d)) n = (d.filter (· < n)).length := by
  induction d with
  | nil => simp [cnt_false]
  | cons x d ih =>
    have hx : x ∉ d := (List.nodup_cons.mp hd).1
    have hd' : d.Nodup := (List.nodup_cons.mp hd).2
    rw [cnt_mem_cons hx, ih hd', List.filter_cons]
    by_cases h : x < n <;> simp [h]; omega

theorem Asc.nodup {l : List Nat} (h : Asc l) : l.Nodup := by
  apply List.Pairwise.imp _ h
  intro a b hab; omega

theorem Asc.ascLe {l : List Nat} (h : Asc l) : AscLe l := by
  apply List.Pairwise.imp _ h
  intro a b hab; omega

/-- two strictly ascending lists with the same members are equal -/
theorem Asc.ext {l₁ l₂ : List Nat} (h₁ : Asc l₁) (h₂ : Asc l₂) (h : ∀ x, x ∈ l₁ ↔ x ∈ l₂) :
    l₁ = l₂ := by
  induction l₁ generalizing l₂ with
  | nil =>
    cases l₂ with
    | nil => rfl
    | cons b l₂ => have := (h b).mpr (by simp); simp at this
  | cons a l₁ ih =>
    cases l₂ with
    | nil => have := (h a).mp (by simp); simp at this
    | cons b l₂ =>
      have ha := List.pairwise_cons.mp h₁
      have hb := List.pairwise_cons.mp h₂
      have hab : a = b := by
        have h1 := (h a).mp (by simp)
        have h2 := (h b).mpr (by simp)
        simp only [List.mem_cons] at h1 h2
        rcases h1 with h1 | h1
        · exact h1
        · rcases h2 with h2 | h2
          · exact h2.symm
          · have := ha.1 b h2; have := hb.1 a h1; omega
      subst hab
      congr 1
      apply ih ha.2 hb.2
      intro x
      have hx := h x
      simp only [List.mem_cons] at hx
      constructor
      · intro hm
        rcases hx.mp (Or.inr hm) with e | e
        · have := ha.1 x hm; omega
        · exact e
      · intro hm
        rcases hx.mpr (Or.inr hm) with e | e
        · have := hb.1 x hm; omega
        · exact e

theorem asc_filter_range (p : Nat → Bool) (n : Nat) : Asc ((List.range n).filter p) := by
  apply List.Pairwise.filter
  exact List.pairwise_lt_range

/-- the set positions below `n`, when they are the members of a strictly ascending list -/
theorem filter_range_eq_of_asc {d : List Nat} (hd : Asc d) (n : Nat) (p : Nat → Bool)
    (hp : ∀ x, x < n → (p x = true ↔ x ∈ d)) (hlt : ∀ x ∈ d, x < n) :
    (List.range n).filter p = d := by
  apply Asc.ext (asc_filter_range p n) hd
  intro x
  simp only [List.mem_filter, List.mem_range]
  constructor
  · rintro ⟨h1, h2⟩; exact (hp x h1).mp h2
  · intro h; exact ⟨hlt x h, (hp x (hlt x h)).mpr h⟩

end Bits
