import SlimModel.Basic
/-
  SlimModel.Version — semantic versions as `github.com/blang/semver` v3.5.1 parses and compares them
  (`Parse`, `Version.Compare`, `ParseRange`) and the compatibility predicates of
  `github.com/openacid/low/vers` (`IsCompatible`, `Check`) as `trie.(*SlimTrie).Unmarshal` uses them.

  Strings: a Go string is a byte string, a Lean `String` is a list of code points.  The parser works
  on `List Char`; header bytes are turned into characters one byte = one code point (`verStr` in
  `Frame`).  That is exact for ASCII, and for anything else both sides reject alike: Go decodes
  runes ≥ 0x80 (or U+FFFD for invalid UTF-8), none of which is in `numbers`/`alphanum`, and the
  split characters `.`, `+`, `-` are ASCII and never part of a multi-byte sequence.

  Range specs: exactly the subset the Go code passes — each spec is one comparator (`==`, `=`, none,
  `<`, `<=`, `>`, `>=`, `!=`, `!`) directly followed by `x.y.z`, without spaces and without `x`
  wildcards; `strings.Join(spec, " || ")` and `ParseRange`'s splitting then give back exactly one
  comparator per spec, all OR-ed (`simpleSpec` is the side condition, checked for the constants).
-/

namespace Version

/-- `semver.PRVersion`: numeric or alphanumeric pre-release identifier. -/
inductive PRVer where
  | num (n : Nat)
  | str (s : List Char)
  deriving Repr, DecidableEq, Inhabited

/-- `semver.Version` -/
structure SemVer where
  major : Nat
  minor : Nat
  patch : Nat
  pre : List PRVer
  build : List (List Char)
  deriving Repr, DecidableEq, Inhabited

def isDigit (c : Char) : Bool := '0' ≤ c && c ≤ '9'

/-- `alphanum` of semver.go: letters, digits and `-`. -/
def isAlnum (c : Char) : Bool :=
  ('a' ≤ c && c ≤ 'z') || ('A' ≤ c && c ≤ 'Z') || c = '-' || isDigit c

def digitsVal (cs : List Char) : Nat := cs.foldl (fun acc c => acc * 10 + (c.toNat - 48)) 0

/-- `containsOnly(s, numbers)`, `!hasLeadingZeroes(s)`, `strconv.ParseUint(s, 10, 64)`:
    a non-empty digit string without leading zero whose value fits 64 bits. -/
def parseNum (cs : List Char) : Option Nat :=
  if cs.all isDigit = false then none
  else match cs with
    | [] => none                                   -- ParseUint("") fails
    | c :: rest =>
      if c = '0' ∧ rest ≠ [] then none             -- leading zero
      else if digitsVal cs < 2 ^ 64 then some (digitsVal cs) else none   -- ErrRange

/-- Split at the first occurrence of `sep`: `none` when absent. -/
def splitFirst (sep : Char) : List Char → Option (List Char × List Char)
  | [] => none
  | c :: cs =>
    if c = sep then some ([], cs)
    else match splitFirst sep cs with
      | none => none
      | some (a, b) => some (c :: a, b)

/-- `strings.Split(s, ".")` (always at least one element). -/
def splitDots (cs : List Char) : List (List Char) :=
  match cs with
  | [] => [[]]
  | c :: rest =>
    if c = '.' then [] :: splitDots rest
    else match splitDots rest with
      | [] => [[c]]           -- unreachable: splitDots never returns []
      | p :: ps => (c :: p) :: ps

/-- `NewPRVersion` -/
def parsePR (cs : List Char) : Option PRVer :=
  if cs = [] then none
  else if cs.all isDigit then
    (match parseNum cs with
     | none => none
     | some n => some (.num n))
  else if cs.all isAlnum then some (.str cs)
  else none

def parsePRs : List (List Char) → Option (List PRVer)
  | [] => some []
  | p :: ps => match parsePR p, parsePRs ps with
    | some v, some vs => some (v :: vs)
    | _, _ => none

def buildOK (cs : List Char) : Bool := cs ≠ [] && cs.all isAlnum

/-- `semver.Parse` on the characters of the string. -/
def parseChars (s : List Char) : Option SemVer :=
  if s = [] then none else
  -- strings.SplitN(s, ".", 3)
  match splitFirst '.' s with
  | none => none
  | some (majS, r1) =>
    match splitFirst '.' r1 with
    | none => none
    | some (minS, patchAll) =>
      match parseNum majS with
      | none => none
      | some major =>
        match parseNum minS with
        | none => none
        | some minor =>
          -- build meta data: everything after the first '+'
          let (patchPre, build) : List Char × List (List Char) :=
            match splitFirst '+' patchAll with
            | none => (patchAll, [])
            | some (a, b) => (a, splitDots b)
          -- pre-release: everything after the first '-' of what is left
          let (patchS, preS) : List Char × List (List Char) :=
            match splitFirst '-' patchPre with
            | none => (patchPre, [])
            | some (a, b) => (a, splitDots b)
          match parseNum patchS with
          | none => none
          | some patch =>
            match parsePRs preS with
            | none => none
            | some pre =>
              if build.all buildOK then some ⟨major, minor, patch, pre, build⟩ else none

def parseSemver (s : String) : Option SemVer := parseChars s.toList

/-! ### comparison -/

/-- Go string comparison on the code points (equal to bytewise order on UTF-8). -/
def cmpChars : List Char → List Char → Ordering
  | [], [] => .eq
  | [], _ :: _ => .lt
  | _ :: _, [] => .gt
  | a :: as, b :: bs => if a < b then .lt else if b < a then .gt else cmpChars as bs

def cmpNat (a b : Nat) : Ordering := if a < b then .lt else if b < a then .gt else .eq

/-- `PRVersion.Compare`: numeric < alphanumeric. -/
def cmpPR : PRVer → PRVer → Ordering
  | .num _, .str _ => .lt
  | .str _, .num _ => .gt
  | .num a, .num b => cmpNat a b
  | .str a, .str b => cmpChars a b

/-- The loop of `Version.Compare` over two non-empty pre-release lists (a longer list with an equal
    prefix is greater). -/
def cmpPRs : List PRVer → List PRVer → Ordering
  | [], [] => .eq
  | [], _ :: _ => .lt
  | _ :: _, [] => .gt
  | a :: as, b :: bs => match cmpPR a b with
    | .eq => cmpPRs as bs
    | o => o

/-- `Version.Compare`; build meta data is ignored; a version without pre-release is greater than
    the same version with one. -/
def compare (v o : SemVer) : Ordering :=
  if v.major ≠ o.major then cmpNat v.major o.major
  else if v.minor ≠ o.minor then cmpNat v.minor o.minor
  else if v.patch ≠ o.patch then cmpNat v.patch o.patch
  else match v.pre, o.pre with
    | [], [] => .eq
    | [], _ :: _ => .gt
    | _ :: _, [] => .lt
    | a, b => cmpPRs a b

/-! ### range specs -/

inductive Cmp where
  | eq | ne | gt | ge | lt | le
  deriving Repr, DecidableEq, Inhabited

def Cmp.eval : Cmp → Ordering → Bool
  | .eq, o => o == .eq
  | .ne, o => o != .eq
  | .gt, o => o == .gt
  | .ge, o => o != .lt
  | .lt, o => o == .lt
  | .le, o => o != .gt

/-- `parseComparator` -/
def parseCmp (op : List Char) : Option Cmp :=
  if op = "==".toList ∨ op = [] ∨ op = "=".toList then some .eq
  else if op = ">".toList then some .gt
  else if op = ">=".toList then some .ge
  else if op = "<".toList then some .lt
  else if op = "<=".toList then some .le
  else if op = "!".toList ∨ op = "!=".toList then some .ne
  else none

/-- Side condition under which one spec is one comparator of the joined range string: at least two
    characters (shorter parts are dropped by `splitAndTrim`), no space, no `x` wildcard, not `||`. -/
def simpleSpec (s : String) : Bool :=
  let cs := s.toList
  2 ≤ cs.length && !cs.contains ' ' && !cs.contains 'x' && !cs.contains '|' &&
  (match cs.getLast? with
   | some c => c != '>' && c != '<' && c != '='
   | none => false)

/-- `splitComparatorVersion` + `buildVersionRange` for one simple spec. -/
def parseSpec (s : String) : Option (Cmp × SemVer) :=
  let cs := s.toList
  let op := cs.takeWhile (fun c => !isDigit c)
  let vs := cs.dropWhile (fun c => !isDigit c)
  if vs = [] then none else
  match parseCmp op, parseChars vs with
  | some c, some v => some (c, v)
  | _, _ => none

def parseSpecs : List String → Option (List (Cmp × SemVer))
  | [] => some []
  | s :: ss => match parseSpec s, parseSpecs ss with
    | some r, some rs => some (r :: rs)
    | _, _ => none

/-- The `Range` function `ParseRange(strings.Join(specs, " || "))` returns. -/
def rangeHolds (r : List (Cmp × SemVer)) (v : SemVer) : Bool :=
  r.any fun (c, o) => c.eval (compare v o)

/-- `vers.IsCompatible(ver, specs)`: false when the version (or the range) does not parse. -/
def isCompatibleWith (specs : List String) (ver : String) : Bool :=
  match parseSemver ver, parseSpecs specs with
  | some v, some r => rangeHolds r v
  | _, _ => false

/-- `vers.Check(ver, specs…)` in a release build (`must.Be` is a no-op without the `debug` build
    tag): an unparsable version is compared as the zero `Version{}`.  `Unmarshal` only calls it
    after `IsCompatible` succeeded, i.e. with a parsable version (`check_of_compatible`). -/
def check (ver : String) (specs : List String) : Bool :=
  match parseSpecs specs with
  | none => false     -- Go: nil Range is called → panic; unreachable for the constant specs below
  | some r => rangeHolds r ((parseSemver ver).getD ⟨0, 0, 0, [], []⟩)

/-! ### the constants of trie/slimtrie.go, trie/slimtrie_ver.go, trie/slimtrie_marshal.go -/

/-- trie/slimtrie_ver.go -/
def slimtrieVersion : String := "0.5.12"

/-- `(*SlimTrie).compatibleVersions()` -/
def compatibleSpecs : List String :=
  ["==1.0.0", "==0.5.8", "==0.5.9", "==0.5.10", "==0.5.11", "==" ++ slimtrieVersion]

/-- `vers.Check(ver, slimtrieVersion, "==0.5.10", "==0.5.11")` -/
def currentLayoutSpecs : List String := [slimtrieVersion, "==0.5.10", "==0.5.11"]

/-- `vers.Check(ver, "<0.5.12")` -/
def before000512Specs : List String := ["<0.5.12"]

/-- `vers.Check(ver, "==1.0.0", "<0.5.10")` -/
def before000510Specs : List String := ["==1.0.0", "<0.5.10"]

/-- `vers.IsCompatible(ver, st.compatibleVersions())` -/
def isCompatible (ver : String) : Bool := isCompatibleWith compatibleSpecs ver

def isCurrentLayout (ver : String) : Bool := check ver currentLayoutSpecs
def before000512 (ver : String) : Bool := check ver before000512Specs
def before000510 (ver : String) : Bool := check ver before000510Specs

end Version
