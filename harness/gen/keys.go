// Package gen generates key sets, value lists and query families from the
// shape classes the property records name as untested by the unit tests.
package gen

import (
	"fmt"
	"math/rand"
	"sort"
	"strings"
)

// Alphabets mixing the bytes that stress half-byte and signedness handling.
var alphabets = [][]byte{
	{0x00, 0x01, 0x0f, 0x10, 0x7f, 0x80, 0xf0, 0xff},
	[]byte("abcd"),
	{0x00, 0xff},
	[]byte("ab"),
	{0x10, 0x11, 0x1f, 0x20, 0xa0, 0xaf},
	[]byte("abcdefghijklmnopqrstuvwxyz0123456789"),
	{0x00},
}

// KeySet is a strictly ascending list of distinct keys plus the name of its shape class.
type KeySet struct {
	Keys  []string
	Class string
}

func uniqSorted(m map[string]struct{}) []string {
	ks := make([]string, 0, len(m))
	for k := range m {
		ks = append(ks, k)
	}
	sort.Strings(ks)
	return ks
}

func randStr(r *rand.Rand, al []byte, minLen, maxLen int) string {
	n := minLen
	if maxLen > minLen {
		n += r.Intn(maxLen - minLen + 1)
	}
	b := make([]byte, n)
	for i := range b {
		b[i] = al[r.Intn(len(al))]
	}
	return string(b)
}

// Random: random strings over a mixed alphabet (G2).
func Random(r *rand.Rand, maxKeys, maxLen int) KeySet {
	al := alphabets[r.Intn(len(alphabets))]
	n := r.Intn(maxKeys + 1)
	m := map[string]struct{}{}
	for i := 0; i < n; i++ {
		m[randStr(r, al, 0, maxLen)] = struct{}{}
	}
	return KeySet{uniqSorted(m), "random"}
}

// AnyBytes: random strings over all 256 byte values.
func AnyBytes(r *rand.Rand, maxKeys, maxLen int) KeySet {
	n := r.Intn(maxKeys + 1)
	m := map[string]struct{}{}
	for i := 0; i < n; i++ {
		l := r.Intn(maxLen + 1)
		b := make([]byte, l)
		r.Read(b)
		m[string(b)] = struct{}{}
	}
	return KeySet{uniqSorted(m), "anybytes"}
}

// BigNodes: at least 11 distinct byte values at some byte position so that the
// builder creates 257-bit nodes; around the 10/11 threshold; nested (G3).
func BigNodes(r *rand.Rand, maxKeys int) KeySet {
	m := map[string]struct{}{}
	fan := 9 + r.Intn(5) // 9..13: around the threshold "prefCnt > 10"
	pre := randStr(r, alphabets[0], 0, 2)
	firsts := r.Perm(256)[:fan]
	for _, f := range firsts {
		k := pre + string([]byte{byte(f)})
		if r.Intn(3) == 0 {
			m[k] = struct{}{}
		}
		// nested level
		fan2 := 1 + r.Intn(14)
		for _, g := range r.Perm(256)[:fan2] {
			kk := k + string([]byte{byte(g)}) + randStr(r, alphabets[1], 0, 2)
			m[kk] = struct{}{}
			if len(m) >= maxKeys {
				break
			}
		}
	}
	return KeySet{uniqSorted(m), "bignodes"}
}

// Regular: all strings of a fixed length over a tiny alphabet (optionally
// thinned), which makes many inner nodes share the same label bitmap and forces
// table-compressed short nodes (G4).
func Regular(r *rand.Rand, maxKeys int) KeySet {
	al := [][]byte{[]byte("ab"), []byte("abc"), {0x00, 0xff}, []byte("abcd"), {0x10, 0x20, 0x30}}[r.Intn(5)]
	L := 2 + r.Intn(5)
	var out []string
	var rec func(p []byte)
	rec = func(p []byte) {
		if len(out) >= maxKeys {
			return
		}
		if len(p) == L {
			out = append(out, string(p))
			return
		}
		for _, c := range al {
			rec(append(append([]byte{}, p...), c))
		}
	}
	rec(nil)
	// thin randomly a little, and add a few irregular keys
	m := map[string]struct{}{}
	drop := r.Intn(4)
	for _, k := range out {
		if drop > 0 && r.Intn(10) < drop {
			continue
		}
		m[k] = struct{}{}
	}
	for i := r.Intn(4); i > 0; i-- {
		m[randStr(r, al, 0, L+2)] = struct{}{}
	}
	return KeySet{uniqSorted(m), "regular"}
}

// LongSteps: keys sharing long single-branch runs (G5).
func LongSteps(r *rand.Rand, maxKeys, maxRun int) KeySet {
	m := map[string]struct{}{}
	al := alphabets[r.Intn(2)]
	n := 1 + r.Intn(maxKeys)
	base := randStr(r, al, 0, maxRun)
	for i := 0; i < n; i++ {
		cut := 0
		if len(base) > 0 {
			cut = r.Intn(len(base) + 1)
		}
		k := base[:cut] + randStr(r, al, 0, 3)
		if r.Intn(2) == 0 {
			k += randStr(r, al, maxRun/2, maxRun)
		}
		m[k] = struct{}{}
	}
	return KeySet{uniqSorted(m), "longsteps"}
}

// PrefixChains: keys that are prefixes of other keys, the empty key, keys
// ending at inner nodes (G6).
func PrefixChains(r *rand.Rand, maxKeys int) KeySet {
	m := map[string]struct{}{}
	al := alphabets[r.Intn(len(alphabets))]
	for len(m) < maxKeys {
		k := randStr(r, al, 1, 8)
		for i := 0; i <= len(k); i++ {
			if r.Intn(3) != 0 {
				m[k[:i]] = struct{}{}
			}
		}
		if r.Intn(4) == 0 {
			break
		}
	}
	if r.Intn(2) == 0 {
		m[""] = struct{}{}
	}
	return KeySet{uniqSorted(m), "prefixchains"}
}

// Tiny: 0..3 keys, including the empty set and single-key sets.
func Tiny(r *rand.Rand) KeySet {
	m := map[string]struct{}{}
	n := r.Intn(4)
	al := alphabets[r.Intn(len(alphabets))]
	for i := 0; i < n; i++ {
		m[randStr(r, al, 0, 3)] = struct{}{}
	}
	return KeySet{uniqSorted(m), "tiny"}
}

// DeepChain: tries deeper than 64 levels (65..260): a chain of keys each extending the previous
// one, in two mirrored forms, so that the descent to the rightmost leaf of a left sibling and the
// descent to the leftmost leaf of a right sibling are both long; plus keys in front and behind.
func DeepChain(r *rand.Rand) KeySet {
	d := 65 + r.Intn(60)
	if r.Intn(4) == 0 {
		d = 130 + r.Intn(130)
	}
	m := map[string]struct{}{}
	a, b := "a", "b"
	if r.Intn(3) == 0 {
		a, b = "\x10", "\xf0"
	}
	switch r.Intn(3) {
	case 0: // "a", "aa", ..., a^d : the LAST key is the deepest (rightMost descends d levels)
		for i := 1; i <= d; i++ {
			m[strings.Repeat(a, i)] = struct{}{}
		}
		m[b] = struct{}{}
		m[b+a] = struct{}{}
	case 1: // b^i a : the FIRST key is the deepest (leftMost descends d levels)
		for i := 0; i <= d; i++ {
			m[strings.Repeat(b, i)+a] = struct{}{}
		}
		m[a[:0]+"\x01"] = struct{}{}
	default: // both, under a common root
		for i := 1; i <= d; i++ {
			m["m"+strings.Repeat(a, i)] = struct{}{}
			m["n"+strings.Repeat(b, i)+a] = struct{}{}
		}
		m["l"] = struct{}{}
		m["o"] = struct{}{}
	}
	return KeySet{uniqSorted(m), "deepchain"}
}

// HugeStep: 2..5 keys sharing a single-branch run of 16..32 KiB (a step of 0x8000..0xffff
// half-bytes: the upper half of the uint16 step range), optionally behind a short fork.
func HugeStep(r *rand.Rand) KeySet {
	m := map[string]struct{}{}
	run := 16384 + r.Intn(16300)
	switch r.Intn(4) {
	case 0:
		run = 16384 + r.Intn(3)
	case 1:
		run = 32700 + r.Intn(60)
	}
	base := strings.Repeat(string([]byte{byte(0x41 + r.Intn(50))}), run)
	head := ""
	if r.Intn(2) == 0 {
		head = "k"
		m["a"] = struct{}{}
		m["z"] = struct{}{}
	}
	n := 2 + r.Intn(4)
	for i := 0; i < n; i++ {
		m[head+base+string([]byte{byte(0x30 + 7*i)})+randStr(r, alphabets[0], 0, 2)] = struct{}{}
	}
	return KeySet{uniqSorted(m), "hugestep"}
}

// LongTails: 2..8 keys whose tails behind the last branch are long (255..70000 bytes: stored leaf
// prefixes at and beyond the 8-bit and 16-bit width boundaries), some keys being prefixes of others.
// hugeTails: tails of 32..70 KiB (the model's select over the position bitmap walks bit by bit).
var hugeTails = true

func LongTails(r *rand.Rand) KeySet {
	m := map[string]struct{}{}
	n := 2 + r.Intn(7)
	huge := hugeTails && r.Intn(4) == 0
	for i := 0; i < n; i++ {
		w := []int{254, 255, 256, 257, 1000}[r.Intn(5)]
		if huge && i < 2 {
			w = []int{32767, 32768, 65535, 65536, 70000}[r.Intn(5)]
		}
		head := randStr(r, alphabets[0], 0, 3)
		tail := strings.Repeat(string([]byte{byte(0x21 + r.Intn(90))}), w)
		m[head+tail] = struct{}{}
		if r.Intn(3) == 0 {
			m[head] = struct{}{}
		}
		if r.Intn(4) == 0 && w/2 < 32700 {
			// (a shared single-branch run must stay within the uint16 step: 65535 half-bytes)
			m[head+tail[:w/2]] = struct{}{}
		}
	}
	return KeySet{uniqSorted(m), "longtails"}
}

// ExactCount: exactly 2^k - 1, 2^k or 2^k + 1 random keys (k = 6..10, capped by size): leaf and node
// counts that sit on a word / block boundary of the leaf bitmaps and rank indexes.
func ExactCount(r *rand.Rand, size int) KeySet {
	var cands []int
	for k := uint(6); k <= 10; k++ {
		for d := -1; d <= 1; d++ {
			if n := (1 << k) + d; n <= size+1 {
				cands = append(cands, n)
			}
		}
	}
	if len(cands) == 0 {
		return Random(r, size, 8)
	}
	n := cands[r.Intn(len(cands))]
	m := map[string]struct{}{}
	al := alphabets[r.Intn(len(alphabets))]
	for tries := 0; len(m) < n; tries++ {
		if tries > 20*n {
			al = alphabets[0] // (a tiny alphabet has too few short strings)
		}
		m[randStr(r, al, 1, 12)] = struct{}{}
	}
	return KeySet{uniqSorted(m), "exactcount"}
}

// Any picks a shape class at random; sizes scale with `size` (max keys).  One set in twelve also
// gets the empty key "" as its first key (an indexed key that ends at the root).
func Any(r *rand.Rand, size int) KeySet {
	ks := anyClass(r, size)
	if r.Intn(12) == 0 && (len(ks.Keys) == 0 || ks.Keys[0] != "") {
		ks.Keys = append([]string{""}, ks.Keys...)
		ks.Class += "+emptykey"
	}
	return ks
}

// BinaryExact: a strictly binary, prefix-free trie with exactly 64k+1 leaves, hence exactly 64k inner
// nodes (k = 1..4): structures with one bit per inner node end exactly at a word boundary.
func BinaryExact(r *rand.Rand) KeySet {
	n := 64*(1+r.Intn(4)) + 1
	if r.Intn(4) == 0 {
		n += []int{-1, 1}[r.Intn(2)]
	}
	two := [][]byte{{0x10, 0x20}, {0x61, 0x62}, {0x0f, 0xf0}, {0x00, 0xff}}[r.Intn(4)]
	l := 10 + r.Intn(4)
	m := map[string]struct{}{}
	for len(m) < n {
		b := make([]byte, l)
		for i := range b {
			b[i] = two[r.Intn(2)]
		}
		m[string(b)] = struct{}{}
	}
	return KeySet{uniqSorted(m), "binaryexact"}
}

func anyClass(r *rand.Rand, size int) KeySet {
	if size >= 64 && r.Intn(20) == 0 {
		return ExactCount(r, size)
	}
	if size >= 64 && r.Intn(25) == 0 {
		return BinaryExact(r)
	}
	if size >= 20 {
		switch r.Intn(60) {
		case 0, 1:
			return DeepChain(r)
		case 2:
			return HugeStep(r)
		case 3:
			return LongTails(r)
		}
	}
	if size >= 200 && r.Intn(12) == 0 {
		// depth 3..: 64+ bottom nodes; larger sizes reach larger short tables
		d := 3
		for (1<<uint(2*(d+1)))*3 <= size {
			d++
		}
		return ShortTable(r, d, 2+r.Intn(40))
	}
	if size >= 200 && r.Intn(14) == 0 {
		return WideBig(r, size)
	}
	switch r.Intn(13) {
	case 12:
		return BigLowNibble(r, size)
	case 11:
		return PrefixKeyLongRun(r, size)
	case 9:
		return BigAscii(r, size)
	case 10:
		return LowHigh(r, size)
	case 0:
		return Tiny(r)
	case 1, 2:
		return Random(r, size, 8)
	case 3:
		return AnyBytes(r, size, 6)
	case 4:
		return BigNodes(r, size)
	case 5:
		return Regular(r, size)
	case 6:
		// single-branch runs up to 40 bytes, sometimes around 128 / 256 / 512 bytes
		return LongSteps(r, size/4+1, []int{40, 40, 40, 130, 260, 520}[r.Intn(6)])
	case 7:
		return PrefixChains(r, size)
	default:
		return Random(r, size/4+1, 4)
	}
}

// Queries builds the query family of property C03 for a key set: every key,
// every proper prefix, one-byte extensions 0x00/0xff, one-bit and one-byte
// mutations, strings below the first and above the last key, the empty string
// and random strings; capped at max (sampled) when the family is larger.
func Queries(r *rand.Rand, keys []string, max int) []string {
	m := map[string]struct{}{"": {}}
	add := func(s string) { m[s] = struct{}{} }
	for _, k := range keys {
		add(k)
		if len(k) <= 300 {
			for i := 0; i < len(k); i++ {
				add(k[:i])
			}
		} else {
			// a long key: prefixes at both ends, around powers of two, and at random cuts
			for i := 0; i < 32; i++ {
				add(k[:i])
				add(k[:len(k)-1-i])
				add(k[:r.Intn(len(k))])
			}
			for p := 64; p < len(k); p *= 2 {
				add(k[:p-1])
				add(k[:p])
				add(k[:p+1])
			}
		}
		add(k + "\x00")
		add(k + "\xff")
		if len(k) > 0 {
			b := []byte(k)
			i := r.Intn(len(b))
			b[i] ^= 1 << uint(r.Intn(8))
			add(string(b))
			b = []byte(k)
			i = r.Intn(len(b))
			b[i] = byte(r.Intn(256))
			add(string(b))
			// flip each half-byte boundary bit of the last byte
			b = []byte(k)
			b[len(b)-1] ^= 0x10
			add(string(b))
			b = []byte(k)
			b[len(b)-1] ^= 0x01
			add(string(b))
		}
	}
	if len(keys) > 0 {
		f := keys[0]
		if len(f) > 0 {
			b := []byte(f)
			if b[len(b)-1] > 0 {
				b[len(b)-1]--
				add(string(b))
			}
		}
		l := keys[len(keys)-1]
		add(l + "\xff\xff")
		add("\xff\xff\xff\xff\xff")
	}
	add("\x00")
	add("\x00\x00\x00\x00")
	add("\xff")
	for i := 0; i < 4; i++ {
		add(randStr(r, alphabets[0], 0, 6))
	}
	qs := uniqSorted(m)
	if len(qs) > max {
		r.Shuffle(len(qs), func(i, j int) { qs[i], qs[j] = qs[j], qs[i] })
		qs = qs[:max]
		// the indexed keys themselves are always asked (all of them when they are few, a sample otherwise): a
		// sample of the derived strings alone may miss the one key a defect loses
		keep := map[string]struct{}{}
		for _, q := range qs {
			keep[q] = struct{}{}
		}
		idx := r.Perm(len(keys))
		if len(idx) > max/2+1 {
			idx = idx[:max/2+1]
		}
		for _, i := range idx {
			keep[keys[i]] = struct{}{}
		}
		qs = uniqSorted(keep)
	}
	return qs
}

// HostileQueries adds the C10 extras: queries much longer than any key,
// all-0x00 and all-0xff strings, long extensions of keys.
func HostileQueries(r *rand.Rand, keys []string) []string {
	var qs []string
	long := make([]byte, 300)
	qs = append(qs, string(long))
	for i := range long {
		long[i] = 0xff
	}
	qs = append(qs, string(long))
	for i := 0; i < 3 && len(keys) > 0; i++ {
		k := keys[r.Intn(len(keys))]
		qs = append(qs, k+randStr(r, alphabets[0], 50, 200))
		if len(k) > 1 {
			qs = append(qs, k[:len(k)/2]+randStr(r, alphabets[0], 50, 100))
		}
	}
	return qs
}

// ValueRuns assigns run-length duplicated values: returns for each key the
// index of its run (0,0,0,1,1,2,...) with random run lengths (G7).
func ValueRuns(r *rand.Rand, n int) []int {
	out := make([]int, n)
	run := 0
	i := 0
	mode := r.Intn(4)
	if n >= 130 && r.Intn(5) == 0 {
		mode = 4 // runs of exactly 63..65 / 127..129 keys (a run as long as a bitmap word, or two)
	}
	for i < n {
		var l int
		switch mode {
		case 4:
			l = []int{63, 64, 65, 127, 128, 129, 1, 2}[r.Intn(8)]
		case 0:
			l = 1
		case 1:
			l = 1 + r.Intn(3)
		case 2:
			l = 1 + r.Intn(n+1)
		default:
			l = 1 + r.Intn(8)
		}
		for j := 0; j < l && i < n; j++ {
			out[i] = run
			i++
		}
		run++
	}
	return out
}

// ShortTable builds a regular trie whose lowest inner level consists of
// `4^depth` nodes, each with a label bitmap drawn from a pool of nDistinct
// random 2..4-label bitmaps, so that the builder's cost estimate selects a
// larger short-node table (ShortSize grows with the number of nodes and the
// number of distinct frequent bitmaps).
func ShortTable(r *rand.Rand, depth, nDistinct int) KeySet {
	pool := make([][]byte, nDistinct)
	for i := range pool {
		n := 2 + r.Intn(3)
		p := r.Perm(16)[:n]
		sort.Ints(p)
		for _, x := range p {
			pool[i] = append(pool[i], byte(x<<4))
		}
	}
	var keys []string
	var rec func(p []byte)
	rec = func(p []byte) {
		if len(p) == depth {
			for _, c := range pool[r.Intn(nDistinct)] {
				keys = append(keys, string(p)+string([]byte{c}))
			}
			return
		}
		for _, c := range []byte("abcd") {
			rec(append(append([]byte{}, p...), c))
		}
	}
	rec(nil)
	sort.Strings(keys)
	return KeySet{keys, "shorttable"}
}

// BigAscii: several 257-bit nodes (fan-out > 10 on the first two byte
// positions) whose labels are all letters/digits, i.e. whose bitmaps differ only
// in the higher 64-bit words.
func BigAscii(r *rand.Rand, maxKeys int) KeySet {
	letters := []byte("abcdefghijklmnopqrstuvwxyzABCDEFGHIJKLMNOPQRSTUVWXYZ")
	m := map[string]struct{}{}
	top := r.Perm(len(letters))[:11+r.Intn(6)]
	for _, t := range top {
		n2 := 11 + r.Intn(8)
		if r.Intn(5) == 0 {
			n2 = 2 + r.Intn(8)
		}
		for _, u := range r.Perm(len(letters))[:n2] {
			k := string([]byte{letters[t], letters[u]})
			if r.Intn(3) == 0 {
				k += randStr(r, []byte("xyz"), 0, 2)
			}
			m[k] = struct{}{}
			if len(m) >= maxKeys {
				return KeySet{uniqSorted(m), "bigascii"}
			}
		}
	}
	return KeySet{uniqSorted(m), "bigascii"}
}

// LowHigh: a 257-bit root whose labels mix a few very low bytes (< 0x10) with
// letters, above a regular structure over the same low bytes: the low part of
// the big node's bitmap coincides with the most frequent 17-bit bitmap.
func LowHigh(r *rand.Rand, maxKeys int) KeySet {
	low := [][]byte{{0x01, 0x02}, {0x00, 0x01}, {0x02, 0x03, 0x05}, {0x01, 0x0e}}[r.Intn(4)]
	letters := []byte("abcdefghijklmnopqrstuvwxyz")
	var tops []byte
	tops = append(tops, low...)
	for _, i := range r.Perm(len(letters))[:10+r.Intn(6)] {
		tops = append(tops, letters[i])
	}
	depth := 2 + r.Intn(3)
	m := map[string]struct{}{}
	var rec func(p []byte)
	rec = func(p []byte) {
		if len(m) >= maxKeys {
			return
		}
		if len(p) == depth+1 {
			m[string(p)] = struct{}{}
			return
		}
		for _, c := range low {
			rec(append(append([]byte{}, p...), c))
		}
	}
	for _, t := range tops {
		rec([]byte{t})
	}
	return KeySet{uniqSorted(m), "lowhigh"}
}

// WideBig: a 257-bit node with more than 128 labels (up to all 256 byte values
// plus the end-of-key label), at the root or below a short prefix.
func WideBig(r *rand.Rand, maxKeys int) KeySet {
	m := map[string]struct{}{}
	pre := ""
	if r.Intn(2) == 0 {
		pre = randStr(r, alphabets[0], 1, 2)
		m[pre] = struct{}{} // the key that ends at the wide node
	}
	fan := 129 + r.Intn(128)
	if r.Intn(3) == 0 {
		fan = 256 // every byte value: with the key that ends at the node, all 257 labels are present
		if pre == "" && r.Intn(2) == 0 {
			m[""] = struct{}{}
		}
	}
	if fan > maxKeys {
		fan = maxKeys
	}
	for _, b := range r.Perm(256)[:fan] {
		k := pre + string([]byte{byte(b)})
		switch r.Intn(4) {
		case 0:
			m[k] = struct{}{}
		case 1:
			m[k+"z"] = struct{}{}
		default:
			m[k] = struct{}{}
			m[k+randStr(r, alphabets[1], 1, 2)] = struct{}{}
		}
	}
	if pre != "" && r.Intn(2) == 0 {
		// siblings of the prefix so that the wide node is not the root
		for i := 0; i < 12; i++ {
			m[randStr(r, alphabets[5], 1, 2)] = struct{}{}
		}
	}
	return KeySet{uniqSorted(m), "widebig"}
}

// PrefixKeyLongRun: a key P with a long single-branch run (9..40 bytes) that is
// itself indexed and is a proper prefix of further keys {P, P+a, P+b...},
// optionally below siblings: queries that end inside the run exercise the
// comparison of a query shorter than a stored prefix.
func PrefixKeyLongRun(r *rand.Rand, maxKeys int) KeySet {
	m := map[string]struct{}{}
	groups := 1 + r.Intn(3)
	for g := 0; g < groups; g++ {
		al := alphabets[r.Intn(2)]
		p := randStr(r, al, 9, 40)
		if groups > 1 {
			p = string([]byte{byte(0x41 + g)}) + p
		}
		m[p] = struct{}{}
		for i := 0; i < 2+r.Intn(3); i++ {
			m[p+randStr(r, al, 1, 2)] = struct{}{}
		}
		if len(m) >= maxKeys {
			break
		}
	}
	return KeySet{uniqSorted(m), "prefixkey-longrun"}
}

// BigLowNibble: a 257-bit node whose more than 10 branch bytes all share one
// high half-byte, so that its keys first differ in the LOW half of a byte (the
// builder must align the branching position down to the byte).
func BigLowNibble(r *rand.Rand, maxKeys int) KeySet {
	m := map[string]struct{}{}
	pre := randStr(r, []byte("user-"), 0, 5)
	hi := byte(r.Intn(16)) << 4
	n := 11 + r.Intn(6)
	suffix := randStr(r, []byte("-profile"), 0, 8)
	for _, lo := range r.Perm(16)[:n] {
		k := pre + string([]byte{hi | byte(lo)}) + suffix
		m[k] = struct{}{}
		if r.Intn(3) == 0 {
			m[k+randStr(r, alphabets[1], 1, 2)] = struct{}{}
		}
		if len(m) >= maxKeys {
			break
		}
	}
	return KeySet{uniqSorted(m), "biglownibble"}
}

// DistinctBitmaps: a caterpillar over 4-bit labels in which the inner nodes use nDistinct DIFFERENT label sets of
// k labels each, every set `repeat` times: one label leads on along the spine, the others to leaves.  It is the
// worst case for the builder's short-bitmap table (many distinct 17-bit bitmaps, each too rare to pay for a table
// entry): whatever the cost model decides, the filter-mode size bound must hold.
func DistinctBitmaps(r *rand.Rand, k, nDistinct, repeat int) KeySet {
	if k < 2 {
		k = 2
	}
	if k > 4 {
		k = 4
	}
	// all k-subsets of the 16 nibble values, in a shuffled order
	var sets [][]byte
	var rec func(start int, cur []byte)
	rec = func(start int, cur []byte) {
		if len(cur) == k {
			sets = append(sets, append([]byte{}, cur...))
			return
		}
		for v := start; v < 16; v++ {
			rec(v+1, append(cur, byte(v)))
		}
	}
	rec(0, nil)
	r.Shuffle(len(sets), func(i, j int) { sets[i], sets[j] = sets[j], sets[i] })
	if nDistinct > len(sets) {
		nDistinct = len(sets)
	}
	sets = sets[:nDistinct]
	pack := func(ns []byte) string {
		b := make([]byte, (len(ns)+1)/2)
		for i, n := range ns {
			if i&1 == 0 {
				b[i>>1] |= n << 4
			} else {
				b[i>>1] |= n
			}
		}
		return string(b)
	}
	m := map[string]struct{}{}
	var path []byte
	for rep := 0; rep < repeat; rep++ {
		for _, s := range sets {
			spine := r.Intn(k)
			for i, l := range s {
				if i != spine {
					m[pack(append(append([]byte{}, path...), l))] = struct{}{}
				}
			}
			path = append(path, s[spine])
		}
	}
	m[pack(append(append([]byte{}, path...), 0xf, 0xf))] = struct{}{}
	return KeySet{Keys: uniqSorted(m), Class: fmt.Sprintf("distinct-bitmaps-k%d", k)}
}

// HugeTailSet: a few keys whose tails behind their last branching point are 64 KiB and longer (beyond every 16-bit
// length field), next to ordinary keys; also a key that is a prefix of a huge one.
func HugeTailSet(r *rand.Rand) KeySet {
	m := map[string]struct{}{}
	fill := func(n int) string { return strings.Repeat(string([]byte{byte(0x41 + r.Intn(50))}), n) }
	lens := []int{65535, 65536, 65537, 70000, 131072 + 3}
	heads := []string{"a", "bag/", "c", "fo"}
	for i, h := range heads {
		if i < 2+r.Intn(2) {
			m[h+fill(lens[r.Intn(len(lens))])] = struct{}{}
		}
	}
	for i := 0; i < 3+r.Intn(5); i++ {
		m[randStr(r, alphabets[0], 1, 4)] = struct{}{}
	}
	m["bag/"] = struct{}{}
	m["cat"] = struct{}{}
	m["fox/tail"] = struct{}{}
	return KeySet{uniqSorted(m), "hugetails"}
}

// DirectoryThenTail: a "directory" of more than 10 keys that share a prefix P and differ in the byte after it (a
// 257-bit node in the builder's big-node phase when it is the root or just below big nodes), followed by a few keys
// that branch off INSIDE P (they share only a shorter prefix with the directory).  With equal values on the last
// directory entry and on those followers (ValueAfterDir), de-duplication drops the followers: their range starts in
// the directory and leaves it.  below > 0 puts the whole thing under a big root of `below` other first bytes.
func DirectoryThenTail(r *rand.Rand, below int) (KeySet, int) {
	plen := 2 + r.Intn(6)
	P := randStr(r, []byte("abcdefgh/"), plen, plen)
	head := ""
	if below > 0 {
		head = "m"
	}
	var keys []string
	seen := map[string]struct{}{}
	add := func(k string) {
		if _, ok := seen[k]; !ok {
			seen[k] = struct{}{}
			keys = append(keys, k)
		}
	}
	for b := 0; b < below; b++ {
		add(string([]byte{byte(0x30 + b)}) + randStr(r, alphabets[0], 0, 3))
	}
	nd := 11 + r.Intn(10)
	for i := 0; i < nd; i++ {
		add(head + P + string([]byte{byte(0x41 + 2*i)}) + randStr(r, alphabets[0], 0, 2))
	}
	dirLast := head + P + string([]byte{byte(0x41 + 2*(nd-1))})
	_ = dirLast
	// followers: differ from P at position cut (a greater byte there), so they sort after the directory
	nf := 1 + r.Intn(4)
	for i := 0; i < nf; i++ {
		cut := 1 + r.Intn(plen-1)
		b := []byte(P)
		b[cut] = b[cut] + byte(1+i)
		add(head + string(b[:cut+1]) + randStr(r, alphabets[0], 0, 3))
	}
	for b := 0; b < below/2; b++ {
		add(string([]byte{byte(0x70 + b)}) + randStr(r, alphabets[0], 0, 3))
	}
	sort.Strings(keys)
	// index of the last directory key in the sorted list
	last := -1
	for i, k := range keys {
		if strings.HasPrefix(k, head+P) {
			last = i
		}
	}
	return KeySet{keys, "directory-then-tail"}, last
}

// GroupsOf64: groups of EXACTLY 64 (or 128) keys that share a long single-branch run below their group's first
// byte, so that a group's key range ends on a key index that is a multiple of 64 (where a per-block summary of the
// key list has its seams); the number of groups and the run length vary.
func GroupsOf64(r *rand.Rand, run int) KeySet {
	var keys []string
	groups := 2 + r.Intn(3)
	per := []int{64, 64, 128}[r.Intn(3)]
	for g := 0; g < groups; g++ {
		head := string([]byte{byte(0x41 + g)}) + strings.Repeat(string([]byte{byte(0x61 + g)}), run)
		for i := 0; i < per; i++ {
			keys = append(keys, head+fmt.Sprintf("%03d", i))
		}
	}
	sort.Strings(keys)
	return KeySet{keys, "groups-of-64"}
}

// WideThenThin: a root with many first bytes; the FIRST second-level node is wide too (11 or 12 next bytes), all the
// others are thin (two branches whose bytes lie 128 apart and move through the 64-bit words of a 257-bit bitmap).
func WideThenThin(r *rand.Rand, first int) KeySet {
	m := map[string]struct{}{}
	wide := 11 + r.Intn(2)
	for j := 0; j < wide; j++ {
		m[string([]byte{0x01, byte(3 + 7*j)})] = struct{}{}
	}
	// the label bitmaps are laid end to end (257 bits each): label byte b of the k-th inner node is bit 257k+1+b of
	// the stream; b = (62 - k) mod 64 puts it on bit 63 of a word (the longest varint).  The i-th thin node is inner
	// node k = i + 1 (root, wide node, then the thin ones); `slip` moves it off by a bit in some cases.
	slip := []int{0, 0, 0, 1, 63}[r.Intn(5)]
	for i := 1; i < first; i++ {
		v := byte((64*4 + 62 - (i + 1) + slip) & 63)
		m[string([]byte{byte(1 + i), v})] = struct{}{}
		m[string([]byte{byte(1 + i), v + 128})] = struct{}{}
	}
	return KeySet{uniqSorted(m), "wide-then-thin"}
}
