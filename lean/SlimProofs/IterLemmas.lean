import SlimModel.Scan
import SlimProofs.Exact
/-
  SlimProofs.IterLemmas — `getGEPath` (trie/slimtrie_scan.go) on a well-formed Complete record
  array, for an arbitrary start string.

  * `geStep`, `geBranch`, `geLoop_leaf`, `geLoop_inner`, `geStep_stored`, `geBranch_go`,
    `geBranch_absent`, `getGEPath_eq`, `geEpi`   equation lemmas (the model code is unfolded once)
  * `Anc t a p b`      `p` = the nodes from `a` down to the parent of `b`; `RootPath`
  * `leftMostPath_spec`   the path recorded by `leftMost(idx, &path)`
  * `RAnc`, `GECut`, `GEHit`, `geLoop_exact`   the loop invariant: the one of
    `Exact.searchLoop_exact` (three-way stored prefix, absent-label cut, descend, `i = l` shortcut)
    plus the recorded path and `path[:rightPathLen]` = the ancestors of the right sibling `rID`
  * `FirstGE`, `NoGE`, `GERes`, `fallback_spec`, `geEpi_spec`, `getGEPath_exact`
-/

namespace IterLemmas
open Subtree SearchDescent RangeDropped Exact Scan

/-! ### one iteration of the loop of `getGEPath` -/

/-- first half of an iteration on an inner node -/
def geStep (pref : Pref) (kn : List Nat) (st : GESt) (eqID : Nat) :
    Except Err (Sum (GESt × Option Nat) Nat) :=
  match pref with
  | .stored p =>
    if st.i / 2 > kn.length / 2 then .error (.panic "slice bounds out of range: key[i>>3:]") else
    match cmpUpto (kn.drop (st.i - st.i % 2)) p with
    | .eq => .ok (.inr (st.i - st.i % 2 + p.length))
    | .lt => .ok (.inl ({ st with rID := some eqID, rightPathLen := st.path.length }, none))
    | .gt => .ok (.inl (st, none))
  | _ => .ok (.inr st.i)

/-- second half of an iteration on an inner node -/
def geBranch (v : View) (kn : List Nat) (fuel : Nat) (r : InnerRec) (st : GESt) (eqID i : Nat) :
    Except Err (GESt × Option Nat) :=
  let st := { st with i := i, path := eqID :: st.path }
  let (leftChild, has) := leftChildID r (labelIdxOfKey kn i r.big)
  let chID : Int := leftChild + (if has then 1 else 0)
  let rightChild : Int := chID + 1
  let rightMostChild : Int := (r.firstChild : Int) + r.labels.length - 1
  let st := if rightChild ≤ rightMostChild
            then { st with rID := some rightChild.toNat, rightPathLen := st.path.length } else st
  if !has then .ok (st, none) else
  if i = kn.length then .ok (st, some chID.toNat) else
  geLoop v kn fuel { st with i := i + wordSize r.big } chID.toNat

theorem geLoop_leaf (v : View) (kn : List Nat) (fuel j ith : Nat) (lp : Option Bytes)
    (st : GESt) (h : v.node j = .ok (.leaf ith lp)) :
    geLoop v kn (fuel + 1) st j = .ok ({ st with lp := lp }, some j) := by
  simp only [geLoop, h, bind, Except.bind, pure, Except.pure]

theorem geLoop_inner (v : View) (kn : List Nat) (fuel j : Nat) (r : InnerRec)
    (st : GESt) (h : v.node j = .ok (.inner r)) :
    geLoop v kn (fuel + 1) st j =
      match geStep r.pref kn st j with
      | .error e => .error e
      | .ok (.inl fin) => .ok fin
      | .ok (.inr i) => geBranch v kn fuel r st j i := by
  unfold geLoop
  rw [h]
  show (geStep r.pref kn st j >>= fun x => match x with
    | .inl fin => pure fin
    | .inr i => geBranch v kn fuel r st j i) = _
  cases geStep r.pref kn st j with
  | error e => rfl
  | ok x => cases x <;> rfl

/-- in Complete mode the stored prefix is compared three-way with the query -/
theorem geStep_stored (opt : Opt) (hin : opt.inner = true) (ks kn : List Nat) (st : GESt)
    (j fb ws : Nat) (hi : st.i = fb) (hfb : fb ≤ ws) (hlen : fb ≤ kn.length)
    (hks : ws ≤ ks.length) (hag : kn.take fb = ks.take fb) :
    geStep (prefOf opt ks fb ws) kn st j =
      match lexCmp (kn.take ws) (ks.take ws) with
      | .eq => .ok (.inr ws)
      | .lt => .ok (.inl ({ st with rID := some j, rightPathLen := st.path.length }, none))
      | .gt => .ok (.inl (st, none)) := by
  subst hi
  unfold prefOf
  split
  · have hws : ws = st.i := by omega
    subst hws
    rw [hag, lexCmp_self]
    rfl
  · try rw [if_pos hin]
    have hfl : ¬ st.i / 2 > kn.length / 2 := by omega
    have hplen : (storedPrefix ks st.i ws).length = ws - (st.i - st.i % 2) := by
      simp only [storedPrefix, List.length_drop, List.length_take]; omega
    have hcmp : cmpUpto (kn.drop (st.i - st.i % 2)) (storedPrefix ks st.i ws)
        = lexCmp (kn.take ws) (ks.take ws) := by
      unfold cmpUpto
      rw [hplen, ← List.drop_take]
      unfold storedPrefix
      symm
      apply lexCmp_drop
      rw [List.take_take, List.take_take, Nat.min_eq_left (by omega)]
      have := congrArg (List.take (st.i - st.i % 2)) hag
      simpa [List.take_take, Nat.min_eq_left (by omega : st.i - st.i % 2 ≤ st.i)] using this
    simp only [geStep, hfl, if_false, hcmp]
    cases hc : lexCmp (kn.take ws) (ks.take ws) with
    | lt => rfl
    | gt => rfl
    | eq =>
      simp only []
      have h1 := lexCmp_eq_iff.mp hc
      have h2 := congrArg List.length h1
      simp only [List.length_take] at h2
      congr 2
      rw [hplen]; omega

set_option linter.unusedSimpArgs false in
/-- from the branching position, when the label of the query is the `k`-th label of the node -/
theorem geBranch_go (v : View) (kn : List Nat) (fuel : Nat) (r : InnerRec) (st : GESt)
    (j ws k : Nat) (hk : k < r.labels.length)
    (hch : leftChildID r (labelIdxOfKey kn ws r.big) = ((r.firstChild : Int) - 1 + k, true)) :
    geBranch v kn fuel r st j ws =
      if ws = kn.length then
        .ok ({ path := j :: st.path
               rID := if k + 1 < r.labels.length then some (r.firstChild + k + 1) else st.rID
               rightPathLen := if k + 1 < r.labels.length then st.path.length + 1
                               else st.rightPathLen
               i := ws, lp := st.lp }, some (r.firstChild + k))
      else
        geLoop v kn fuel
          { path := j :: st.path
            rID := if k + 1 < r.labels.length then some (r.firstChild + k + 1) else st.rID
            rightPathLen := if k + 1 < r.labels.length then st.path.length + 1
                            else st.rightPathLen
            i := ws + wordSize r.big, lp := st.lp } (r.firstChild + k) := by
  unfold geBranch
  rw [hch]
  have hD : ((r.firstChild : Int) - 1 + k + 1).toNat = r.firstChild + k := by omega
  have hE : ((r.firstChild : Int) - 1 + k + 1 + 1).toNat = r.firstChild + k + 1 := by omega
  by_cases h2 : k + 1 < r.labels.length
  · have hB : (r.firstChild : Int) - 1 + k + 1 + 1 ≤ (r.firstChild : Int) + r.labels.length - 1 := by
      omega
    simp only [if_true, hB, hD, hE, h2, Bool.not_true, Bool.false_eq_true, if_false,
      List.length_cons]
  · have hB : ¬ (r.firstChild : Int) - 1 + k + 1 + 1 ≤ (r.firstChild : Int) + r.labels.length - 1 := by
      omega
    simp only [if_true, hB, hD, hE, h2, Bool.not_true, Bool.false_eq_true, if_false,
      List.length_cons]

set_option linter.unusedSimpArgs false in
/-- from the branching position, when the label of the query is absent -/
theorem geBranch_absent (v : View) (kn : List Nat) (fuel : Nat) (r : InnerRec) (st : GESt)
    (j ws rk : Nat) (hrk : rk ≤ r.labels.length)
    (hch : leftChildID r (labelIdxOfKey kn ws r.big) = ((r.firstChild : Int) - 1 + rk, false)) :
    geBranch v kn fuel r st j ws =
      .ok ({ path := j :: st.path
             rID := if rk < r.labels.length then some (r.firstChild + rk) else st.rID
             rightPathLen := if rk < r.labels.length then st.path.length + 1
                             else st.rightPathLen
             i := ws, lp := st.lp }, none) := by
  unfold geBranch
  rw [hch]
  have hE : ((r.firstChild : Int) - 1 + rk + 0 + 1).toNat = r.firstChild + rk := by omega
  by_cases h2 : rk < r.labels.length
  · have hB : (r.firstChild : Int) - 1 + rk + 0 + 1 ≤ (r.firstChild : Int) + r.labels.length - 1 := by
      omega
    simp only [if_true, hB, hE, h2, Bool.not_false, Bool.false_eq_true, if_false,
      List.length_cons]
  · have hB : ¬ (r.firstChild : Int) - 1 + rk + 0 + 1 ≤ (r.firstChild : Int) + r.labels.length - 1 := by
      omega
    simp only [if_true, hB, hE, h2, Bool.not_false, Bool.false_eq_true, if_false,
      List.length_cons]

/-! ### id paths -/

/-- `p` lists the nodes from `a` down to the parent of `b` (`[]` iff `a = b`): the proper
    ancestors of `b` below (and including) `a` -/
inductive Anc (t : Trie1) : Nat → List Nat → Nat → Prop
  | here (a : Nat) : Anc t a [] a
  | step {a : Nat} {r : InnerRec} {k : Nat} {p : List Nat} {b : Nat} :
      t.nodes[a]? = some (.inner r) → k < r.labels.length → Anc t (r.firstChild + k) p b →
      Anc t a (a :: p) b

theorem Anc.snoc {t : Trie1} {a b : Nat} {p : List Nat} (h : Anc t a p b) {r : InnerRec} {k : Nat}
    (hb : t.nodes[b]? = some (.inner r)) (hk : k < r.labels.length) :
    Anc t a (p ++ [b]) (r.firstChild + k) := by
  induction h with
  | here a => exact Anc.step hb hk (Anc.here _)
  | step h1 h2 _ ih => exact Anc.step h1 h2 (ih hb)

theorem Anc.trans {t : Trie1} {a b c : Nat} {p q : List Nat} (h : Anc t a p b) (h' : Anc t b q c) :
    Anc t a (p ++ q) c := by
  induction h with
  | here a => exact h'
  | step h1 h2 _ ih => exact Anc.step h1 h2 (ih h')

/-- `path` is the id path from the root to the leaf `id` -/
def RootPath (t : Trie1) (path : List Nat) (id : Nat) : Prop :=
  ∃ p, path = p ++ [id] ∧ Anc t 0 p id

/-! ### `leftMostPath` -/

theorem leftMostPath_leaf (v : View) (fuel j ith : Nat) (lp : Option Bytes) (acc : List Nat)
    (h : v.node j = .ok (.leaf ith lp)) : leftMostPath v (fuel + 1) j acc = .ok (j :: acc) := by
  simp only [leftMostPath, h, bind, Except.bind, pure, Except.pure]

theorem leftMostPath_inner (v : View) (fuel j : Nat) (r : InnerRec) (acc : List Nat)
    (h : v.node j = .ok (.inner r)) :
    leftMostPath v (fuel + 1) j acc = leftMostPath v fuel r.firstChild (j :: acc) := by
  simp only [leftMostPath, h, bind, Except.bind]

/-- `leftMostPath` from node `j` records the path to the leaf of the smallest kept key of
    subset `j` -/
theorem leftMostPath_spec {keys : List Bytes} {keep : List Bool} {t : Trie1}
    {queue : Array Subset} (h : QOK keys keep t queue) :
    ∀ n j o fuel acc, t.nodes.size - j ≤ n → n < fuel → queue[j]? = some o →
      ∃ q id m, leftMostPath t.view fuel j acc = .ok (id :: (q.reverse ++ acc)) ∧
        Anc t j q id ∧ IsLeafOf t id m ∧ IsMinKept keep o.s o.e m := by
  intro n
  induction n with
  | zero =>
    intro j o fuel acc h1 _ hqj
    have := h.lt hqj
    omega
  | succ n ih =>
    intro j o fuel acc h1 h2 hqj
    obtain ⟨hsub, hj, hnode⟩ := h.at hqj
    obtain ⟨fuel, rfl⟩ : ∃ f, fuel = f + 1 := ⟨fuel - 1, by omega⟩
    have hview := view_node t j hj
    cases hn : t.nodes[j] with
    | leaf ith lp =>
      rw [hn] at hnode hview
      obtain ⟨h1e, hidx, _⟩ := hnode
      obtain ⟨x, hx1, hx2, hx3⟩ := hsub.kept
      have hxs : x = o.s := by omega
      subst hxs
      refine ⟨[], j, o.s, leftMostPath_leaf _ _ _ ith lp acc hview, Anc.here _,
        ⟨ith, lp, nodes_getElem? t j hj _ hn, hidx⟩, Nat.le_refl _, hx2, hx3, ?_⟩
      intro t' h3 h4; omega
    | inner r =>
      rw [hn] at hnode hview
      obtain ⟨_, hin⟩ := hnode
      obtain ⟨ws, F⟩ := inner_facts h hsub hin
      have hL := F.ne
      have hfc := F.fc
      obtain ⟨c, hc, _, hrun⟩ := F.kid 0 hL
      rw [leftMostPath_inner _ _ _ r acc hview]
      obtain ⟨q, id, m, hrm, hanc, hleaf, hmin⟩ :=
        ih (r.firstChild + 0) c fuel (j :: acc) (by omega) (by omega) hc
      refine ⟨j :: q, id, m, ?_, Anc.step (nodes_getElem? t j hj _ hn) hL hanc, hleaf, ?_⟩
      · rw [Nat.add_zero] at hrm
        rw [hrm]; simp
      · have hgap := gap_first (kept := keptAt keep) F.labels F.pw F.mono hrun
        obtain ⟨hr1, hr2, hr3, _⟩ := hrun
        obtain ⟨hm1, hm2, hm3, hm4⟩ := hmin
        refine ⟨by omega, by omega, hm3, ?_⟩
        intro t' h3 h4
        by_cases h5 : c.s ≤ t'
        · exact hm4 t' h5 h4
        · exact hgap t' h3 (by omega)

/-! ### the loop invariant of `getGEPath` -/

/-- the recorded right sibling comes with its ancestors: `path[:rightPathLen]` -/
def RAnc (t : Trie1) (st : GESt) : Prop :=
  st.rightPathLen ≤ st.path.length ∧
  ∀ rid, st.rID = some rid → Anc t 0 (st.path.reverse.take st.rightPathLen) rid

/-- the loop ended without candidate: the kept keys split at `a` -/
def GECut (keys : List Bytes) (keep : List Bool) (t : Trie1) (queue : Array Subset)
    (kn : List Nat) (st : GESt) : Prop :=
  ∃ a, a ≤ keys.length ∧
    (∀ t', t' < a → keptAt keep t' = true → KLt keys kn t') ∧
    (∀ t', a ≤ t' → t' < keys.length → keptAt keep t' = true → KGt keys kn t') ∧
    RightOK keep keys.length queue st.rID a ∧ RAnc t st

/-- the loop ended at (or by the `i = l` shortcut just above) the leaf `id` of kept key `m` -/
structure GEHit (keys : List Bytes) (keep : List Bool) (t : Trie1) (queue : Array Subset)
    (kn : List Nat) (st : GESt) (id m : Nat) : Prop where
  leaf : IsLeafOf t id m
  kept : keptAt keep m = true
  mlt : m < keys.length
  ile : st.i ≤ kn.length
  agree : (knOf keys m).take st.i = kn.take st.i
  lp : st.lp = leafPrefOf t.opt (keys.getD m []) st.i
  below : ∀ t', t' < m → keptAt keep t' = true → KLt keys kn t'
  above : ∀ t', m < t' → t' < keys.length → keptAt keep t' = true → KGt keys kn t'
  right : RightOK keep keys.length queue st.rID (m + 1)
  ranc : RAnc t st
  anc : Anc t 0 st.path.reverse id

theorem ranc_push {t : Trie1} {st : GESt} (j : Nat) (i : Nat) (h : RAnc t st) :
    RAnc t { path := j :: st.path, rID := st.rID, rightPathLen := st.rightPathLen, i := i,
             lp := st.lp } := by
  obtain ⟨h1, h2⟩ := h
  refine ⟨by simp only [List.length_cons]; omega, ?_⟩
  intro rid hr
  have := h2 rid hr
  simp only [List.reverse_cons]
  rw [List.take_append_of_le_length (by simp only [List.length_reverse]; exact h1)]
  exact this

theorem geLoop_exact {keys : List Bytes} {keep : List Bool} {t : Trie1}
    {queue : Array Subset} (h : QOK keys keep t queue) (hasc : strictAsc keys = true)
    (hinner : t.opt.inner = true) (kn : List Nat) (hkn16 : ∀ x ∈ kn, x < 16)
    (hkne : kn.length % 2 = 0) :
    ∀ n j o fuel st, t.nodes.size - j ≤ n → n < fuel → queue[j]? = some o →
      st.i = o.fb → st.lp = none → o.fb ≤ kn.length →
      (knOf keys o.s).take o.fb = kn.take o.fb →
      (∀ t', t' < o.s → keptAt keep t' = true → KLt keys kn t') →
      (∀ t', o.e ≤ t' → t' < keys.length → keptAt keep t' = true → KGt keys kn t') →
      RightOK keep keys.length queue st.rID o.e → RAnc t st → Anc t 0 st.path.reverse j →
      ∃ st' e, geLoop t.view kn fuel st j = .ok (st', e) ∧
        ((e = none ∧ GECut keys keep t queue kn st') ∨
          ∃ id m, e = some id ∧ GEHit keys keep t queue kn st' id m) := by
  intro n
  induction n with
  | zero =>
    intro j o fuel st h1 _ hqj
    have := h.lt hqj
    omega
  | succ n ih =>
    intro j o fuel st h1 h2 hqj hi hlp hfbl hagq hbelow habove hR hRA hanc
    obtain ⟨hsub, hj, hnode⟩ := h.at hqj
    obtain ⟨fuel, rfl⟩ : ∃ f, fuel = f + 1 := ⟨fuel - 1, by omega⟩
    have hview := view_node t j hj
    have hoe := hsub.le
    have hos := hsub.lt
    cases hn : t.nodes[j] with
    | leaf ith lp =>
      rw [hn] at hnode hview
      obtain ⟨h1e, hidx, hlp'⟩ := hnode
      obtain ⟨x, hx1, hx2, hx3⟩ := hsub.kept
      have hxs : x = o.s := by omega
      subst hxs
      refine ⟨_, _, geLoop_leaf _ _ _ _ ith lp st hview, Or.inr ⟨j, o.s, rfl, ?_⟩⟩
      exact {
        leaf := ⟨ith, lp, nodes_getElem? t j hj _ hn, hidx⟩
        kept := hx3
        mlt := by omega
        ile := by show st.i ≤ _; omega
        agree := by show _ = List.take st.i kn; rw [hi]; exact hagq
        lp := by show lp = leafPrefOf t.opt _ st.i; rw [hi]; exact hlp'
        below := hbelow
        above := fun t' h3 h4 h5 => habove t' (by omega) h4 h5
        right := by show RightOK keep keys.length queue st.rID (o.s + 1); rw [← h1e]; exact hR
        ranc := hRA
        anc := hanc }
    | inner r =>
      rw [hn] at hnode hview
      have hnj := nodes_getElem? t j hj _ hn
      obtain ⟨_, hin⟩ := hnode
      obtain ⟨ws, F⟩ := inner_facts h hsub hin
      have hks : ws ≤ (knOf keys o.s).length := (F.pre o.s (Nat.le_refl _) hos).1
      have hfc := F.fc
      rw [geLoop_inner _ _ _ _ r st hview, F.pref,
        geStep_stored t.opt hinner (knOf keys o.s) kn st j o.fb ws hi F.fb_le hfbl hks hagq.symm]
      cases hc : lexCmp (kn.take ws) ((knOf keys o.s).take ws) with
      | lt =>
        refine ⟨_, _, rfl, Or.inl ⟨rfl, o.s, by omega, hbelow, ?_,
          ⟨o, hqj, Nat.le_refl _, fun t' h3 h4 => by omega⟩, ?_⟩⟩
        · intro t' h3 h4 h5
          by_cases h6 : t' < o.e
          · apply lexCmp_take_lt ws
            rw [(F.pre t' h3 h6).2]; exact hc
          · exact habove t' (by omega) h4 h5
        · refine ⟨Nat.le_refl _, ?_⟩
          intro rid hr
          cases hr
          show Anc t 0 (st.path.reverse.take st.path.length) j
          rw [List.take_of_length_le (by simp)]
          exact hanc
      | gt =>
        refine ⟨_, _, rfl, Or.inl ⟨rfl, o.e, hoe, ?_, habove, hR, hRA⟩⟩
        intro t' h3 h5
        by_cases h6 : t' < o.s
        · exact hbelow t' h6 h5
        · apply lexCmp_take_gt ws kn
          rw [(F.pre t' (by omega) h3).2]; exact hc
      | eq =>
        simp only []
        have htk : kn.take ws = (knOf keys o.s).take ws := lexCmp_eq_iff.mp hc
        have hwsl : ws ≤ kn.length := by
          have := congrArg List.length htk
          simp only [List.length_take] at this
          omega
        have hagt : ∀ t', o.s ≤ t' → t' < o.e → (knOf keys t').take ws = kn.take ws :=
          fun t' h3 h4 => by rw [(F.pre t' h3 h4).2, htk]
        have hbw : r.big = true → ws % 2 = 0 := fun hb => (F.big hb).1
        have hlt_of : ∀ t', o.s ≤ t' → t' < o.e →
            labelOf keys ws r.big t' < labelAt kn ws r.big → KLt keys kn t' :=
          fun t' h3 h4 h5 => lt_of_label_lt hkn16 (hagt t' h3 h4) h5
        have hgt_of : ∀ t', o.s ≤ t' → t' < o.e →
            labelAt kn ws r.big < labelOf keys ws r.big t' → KGt keys kn t' :=
          fun t' h3 h4 h5 => lt_of_label_lt (Exact.knOf_lt16 keys t') (hagt t' h3 h4).symm h5
        -- the state with the current node pushed
        have hRApush := ranc_push j ws hRA
        have hancpush : ∀ k, k < r.labels.length →
            Anc t 0 (j :: st.path).reverse (r.firstChild + k) := by
          intro k hk
          rw [List.reverse_cons]
          exact hanc.snoc hnj hk
        by_cases hmem : labelAt kn ws r.big ∈ r.labels
        · obtain ⟨k, hk', hkl⟩ := List.mem_iff_getElem.mp hmem
          obtain ⟨c, hc', hcfb, hrun⟩ := F.kid k hk'
          have hcid := h.lt hc'
          obtain ⟨hsubc, _, hnodec⟩ := h.at hc'
          have hch : leftChildID r (labelIdxOfKey kn ws r.big)
              = ((r.firstChild : Int) - 1 + k, true) := by
            rw [labelIdxOfKey_eq_labelAt _ _ _ hbw, ← hkl, leftChildID_of_label r F.pw k hk']
          have hR' := right_step F st.rID k hk' c hrun hR
          have hlabs := hrun.lab_s
          have hlabe := hrun.lab_e
          obtain ⟨hcs, hce, hclt, hciff⟩ := hrun
          have hbelow' : ∀ t', t' < c.s → keptAt keep t' = true → KLt keys kn t' := by
            intro t' h3 h5
            by_cases h6 : t' < o.s
            · exact hbelow t' h6 h5
            · apply hlt_of t' (by omega) (by omega)
              have hm := F.mono t' c.s (by omega) (by omega) (by omega)
              have hne : labelOf keys ws r.big t' ≠ r.labels[k] := fun he => by
                have := (hciff t' (by omega) (by omega)).mpr he; omega
              omega
          have habove' : ∀ t', c.e ≤ t' → t' < keys.length → keptAt keep t' = true →
              KGt keys kn t' := by
            intro t' h3 h4 h5
            by_cases h6 : t' < o.e
            · apply hgt_of t' (by omega) h6
              have hm := F.mono (c.e - 1) t' (by omega) (by omega) h6
              have hne : labelOf keys ws r.big t' ≠ r.labels[k] := fun he => by
                have := (hciff t' (by omega) h6).mpr he; omega
              omega
            · exact habove t' (by omega) h4 h5
          -- the new right-sibling record
          have hRA' : ∀ i', RAnc t
              { path := j :: st.path
                rID := if k + 1 < r.labels.length then some (r.firstChild + k + 1) else st.rID
                rightPathLen := if k + 1 < r.labels.length then st.path.length + 1
                                else st.rightPathLen
                i := i', lp := st.lp } := by
            intro i'
            by_cases hk1 : k + 1 < r.labels.length
            · simp only [hk1, if_true]
              refine ⟨by simp, ?_⟩
              intro rid hr
              cases hr
              show Anc t 0 ((j :: st.path).reverse.take (st.path.length + 1)) (r.firstChild + k + 1)
              rw [List.take_of_length_le (by simp)]
              exact hancpush (k + 1) hk1
            · simp only [hk1, if_false]
              exact ranc_push j i' hRA
          rw [geBranch_go _ _ _ r st j ws k hk' hch]
          by_cases hwl : ws = kn.length
          · rw [if_pos hwl]
            have hl0 : r.labels[k] = 0 := by
              rw [hkl, labelAt_eq_zero_iff]; omega
            cases hnc : t.nodes[r.firstChild + k] with
            | leaf ith lp =>
              rw [hnc] at hnodec
              obtain ⟨h1e, hidx, _⟩ := hnodec
              obtain ⟨x, hx1, hx2, hx3⟩ := hsubc.kept
              have hxs : x = c.s := by omega
              subst hxs
              have hlen : (knOf keys c.s).length ≤ ws := by
                have : labelOf keys ws r.big c.s = 0 := by rw [hlabs, hl0]
                unfold labelOf at this
                exact labelAt_eq_zero_iff.mp this
              refine ⟨_, _, rfl, Or.inr ⟨r.firstChild + k, c.s, rfl, ?_⟩⟩
              exact {
                leaf := ⟨ith, lp, nodes_getElem? t _ hcid _ hnc, hidx⟩
                kept := hx3
                mlt := by omega
                ile := hwsl
                agree := hagt c.s hcs (by omega)
                lp := by
                  show st.lp = leafPrefOf t.opt _ ws
                  rw [hlp, leafPrefOf_end]
                  have := (F.pre c.s hcs (by omega)).1
                  show ws = (knOf keys c.s).length
                  omega
                below := hbelow'
                above := fun t' h3 h4 h5 => habove' t' (by omega) h4 h5
                right := by rw [← h1e]; exact hR'
                ranc := hRA' ws
                anc := hancpush k hk' }
            | inner rc =>
              rw [hnc] at hnodec
              exfalso
              have h2c : c.s + 2 ≤ c.e := hnodec.1
              have ha := (hciff c.s hcs (by omega)).mp ⟨Nat.le_refl _, by omega⟩
              have hb := (hciff (c.s + 1) (by omega) (by omega)).mp ⟨by omega, by omega⟩
              rw [hl0] at ha hb
              refine no_two_label0 keys hasc ws r.big c.s (by omega) ha hb ?_
              rw [(F.pre c.s hcs (by omega)).2, (F.pre (c.s + 1) (by omega) (by omega)).2]
          · rw [if_neg hwl]
            have hlne : r.labels[k] ≠ 0 := by
              rw [hkl, Ne, labelAt_eq_zero_iff]; omega
            have hfb : ws + wordSize r.big = c.fb := by
              rw [hcfb]; unfold labelLen wordSize; rw [if_neg hlne]
            have hcfb' : c.fb = ws + labelLen (labelAt kn ws r.big) r.big := by rw [hcfb, hkl]
            have hlabeq : labelAt kn ws r.big = labelAt (knOf keys c.s) ws r.big := by
              rw [← hkl]; exact hlabs.symm
            have hcl : c.fb ≤ kn.length := by
              rw [hcfb']
              exact label_long (fun _ => hkne) hbw hwsl
            have hcag : (knOf keys c.s).take c.fb = kn.take c.fb := by
              rw [hcfb']
              exact (take_label_eq hkn16 (Exact.knOf_lt16 keys c.s) (fun _ => hkne)
                (fun _ => Exact.knOf_even keys c.s) hbw (hagt c.s hcs (by omega)).symm hlabeq).symm
            exact ih (r.firstChild + k) c fuel _ (by omega) (by omega) hc' hfb hlp hcl hcag
              hbelow' habove' hR' (hRA' _) (hancpush k hk')
        · have hch : leftChildID r (labelIdxOfKey kn ws r.big)
              = ((r.firstChild : Int) - 1 + rankLabels r.labels (labelAt kn ws r.big), false) := by
            rw [labelIdxOfKey_eq_labelAt _ _ _ hbw]
            exact leftChildID_absent r _ hmem
          rw [geBranch_absent _ _ _ r st j ws _ (rank_le _ _) hch]
          obtain ⟨a, hcut⟩ := mono_cut (labelOf keys ws r.big) o.s (labelAt kn ws r.big) o.e
            (Nat.le_of_lt hos) F.mono
          have hcut' : IsCut (labelOf keys ws r.big) o.s o.e (labelAt kn ws r.big) a := hcut
          refine ⟨_, _, rfl, Or.inl ⟨rfl, a, by have := hcut.2.1; omega, ?_, ?_,
            right_cut F st.rID _ a hcut' hR, ?_⟩⟩
          · intro t' h3 h5
            by_cases h6 : t' < o.s
            · exact hbelow t' h6 h5
            · exact hlt_of t' (by omega) (by have := hcut.2.1; omega)
                (hcut.2.2.1 t' (by omega) h3)
          · intro t' h3 h4 h5
            by_cases h6 : t' < o.e
            · have h7 : o.s ≤ t' := by have := hcut.1; omega
              apply hgt_of t' h7 h6
              have hge := hcut.2.2.2 t' h3 h6
              have hne : labelOf keys ws r.big t' ≠ labelAt kn ws r.big := fun he =>
                hmem (he ▸ F.labels t' h7 h6 h5)
              omega
            · exact habove t' (by omega) h4 h5
          · by_cases hk1 : rankLabels r.labels (labelAt kn ws r.big) < r.labels.length
            · simp only [hk1, if_true]
              refine ⟨by simp, ?_⟩
              intro rid hr
              cases hr
              show Anc t 0 ((j :: st.path).reverse.take (st.path.length + 1)) _
              rw [List.take_of_length_le (by simp)]
              exact hancpush _ hk1
            · simp only [hk1, if_false]
              exact ranc_push j ws hRA

/-! ### the epilogue of `getGEPath` -/

/-- `getGEPath` behind its loop -/
def geEpi (v : View) (key : Bytes) (x : GESt × Option Nat) : Except Err GEPath :=
  match x.2 with
  | some eq =>
    if x.1.i / 2 > (nibs key).length / 2 then
      .error (.panic "slice bounds out of range: key[i>>3:]") else
    if cmpLeafPrefix v (key.drop (x.1.i / 2)) x.1.lp != .gt then
      .ok { path := (eq :: x.1.path).reverse
            eq := cmpLeafPrefix v (key.drop (x.1.i / 2)) x.1.lp == .eq }
    else getGEPath.fallback v x.1
  | none => getGEPath.fallback v x.1

theorem getGEPath_eq (v : View) (key : Bytes) (hne : v.isEmpty = false) (hs : v.scanOK = true) :
    getGEPath v key = geLoop v (nibs key) (v.nodeCnt + 1) {} 0 >>= geEpi v key := by
  unfold getGEPath
  simp only [hne, hs, Bool.false_eq_true, if_false, Bool.not_true]
  show (geLoop v (nibs key) (v.nodeCnt + 1) {} 0 >>= _) = _
  congr 1

/-- `m` is the smallest kept index whose key is `≥ start` -/
def FirstGE (keys : List Bytes) (keep : List Bool) (start : Bytes) (m : Nat) : Prop :=
  m < keys.length ∧ keptAt keep m = true ∧ bytesLt (keys.getD m []) start = false ∧
  ∀ t', t' < m → keptAt keep t' = true → bytesLt (keys.getD t' []) start = true

/-- every kept key is below `start` -/
def NoGE (keys : List Bytes) (keep : List Bool) (start : Bytes) : Prop :=
  ∀ t', t' < keys.length → keptAt keep t' = true → bytesLt (keys.getD t' []) start = true

/-- what `getGEPath` returns -/
def GERes (keys : List Bytes) (keep : List Bool) (t : Trie1) (start : Bytes) (p : GEPath) : Prop :=
  (∃ m id, FirstGE keys keep start m ∧ IsLeafOf t id m ∧ RootPath t p.path id ∧
      p.eq = (keys.getD m [] == start)) ∨
  (NoGE keys keep start ∧ p.path = [] ∧ p.eq = false)

theorem beq_false_of_gt {a b : Bytes} (h : lexCmp (nibs b) (nibs a) = .lt) : (a == b) = false := by
  have : a ≠ b := fun he => by rw [he, lexCmp_self] at h; cases h
  simpa using this

theorem fallback_spec {keys : List Bytes} {keep : List Bool} {t : Trie1} {queue : Array Subset}
    (h : QOK keys keep t queue) (start : Bytes) (st : GESt)
    (hcut : GECut keys keep t queue (nibs start) st) :
    ∃ p, getGEPath.fallback t.view st = .ok p ∧ GERes keys keep t start p := by
  obtain ⟨a, han, hbelow, habove, hR, hlen, hRA⟩ := hcut
  unfold getGEPath.fallback
  cases hr : st.rID with
  | none =>
    rw [hr] at hR
    refine ⟨_, rfl, Or.inr ⟨?_, rfl, rfl⟩⟩
    intro t' h1 h2
    by_cases h3 : t' < a
    · exact bytesLt_iff_nibs.mpr (hbelow t' h3 h2)
    · rw [hR t' (by omega) h1] at h2; cases h2
  | some rid =>
    rw [hr] at hR
    obtain ⟨o', h1, h2, h3⟩ := hR
    have hle := (h.at h1).1.le
    obtain ⟨q, id, m, hlm, hanc, hleaf, hm1, hm2, hm3, hm4⟩ :=
      leftMostPath_spec h t.nodes.size rid o' (t.view.nodeCnt + 1)
        (st.path.reverse.take st.rightPathLen).reverse (by omega)
        (by show t.nodes.size < t.nodes.size + 1; omega) h1
    simp only [bind, Except.bind, pure, Except.pure]
    rw [hlm]
    refine ⟨_, rfl, Or.inl ⟨m, id, ⟨by omega, hm3, ?_, ?_⟩, hleaf, ?_, ?_⟩⟩
    · exact bytesLt_false_of_gt (habove m (by omega) (by omega) hm3)
    · intro t' h4 h5
      by_cases h6 : t' < a
      · exact bytesLt_iff_nibs.mpr (hbelow t' h6 h5)
      · by_cases h7 : t' < o'.s
        · rw [h3 t' (by omega) h7] at h5; cases h5
        · rw [hm4 t' (by omega) h4] at h5; cases h5
    · refine ⟨st.path.reverse.take st.rightPathLen ++ q, ?_, (hRA rid hr).trans hanc⟩
      simp
    · exact (beq_false_of_gt (habove m (by omega) (by omega) hm3)).symm

theorem geEpi_spec {keys : List Bytes} {keep : List Bool} {t : Trie1} {queue : Array Subset}
    (h : QOK keys keep t queue) (hleaf : t.opt.leaf = true) (start : Bytes)
    (st : GESt) (e : Option Nat)
    (hfin : (e = none ∧ GECut keys keep t queue (nibs start) st) ∨
      ∃ id m, e = some id ∧ GEHit keys keep t queue (nibs start) st id m) :
    ∃ p, geEpi t.view start (st, e) = .ok p ∧ GERes keys keep t start p := by
  rcases hfin with ⟨rfl, hcut⟩ | ⟨id, m, rfl, H⟩
  · exact fallback_spec h start st hcut
  · have hcmp : cmpLeafPrefix t.view (start.drop (st.i / 2)) st.lp
        = lexCmp (nibs start) (knOf keys m) := by
      rw [H.lp]
      exact cmpLeafPrefix_exact t hleaf start _ st.i H.agree
    have hile := H.ile
    have hmlt := H.mlt
    unfold geEpi
    simp only [hcmp]
    rw [if_neg (by omega)]
    have hfirst : lexCmp (nibs start) (knOf keys m) ≠ .gt → FirstGE keys keep start m := by
      intro hne
      refine ⟨H.mlt, H.kept, ?_, fun t' h1 h2 => bytesLt_iff_nibs.mpr (H.below t' h1 h2)⟩
      cases hb : bytesLt (keys.getD m []) start with
      | false => rfl
      | true =>
        exact absurd ((lexCmp_gt_iff _ _).mpr (bytesLt_iff_nibs.mp hb)) hne
    have hpath : RootPath t (id :: st.path).reverse id :=
      ⟨st.path.reverse, by simp, H.anc⟩
    cases hc : lexCmp (nibs start) (knOf keys m) with
    | eq =>
      refine ⟨_, rfl, Or.inl ⟨m, id, hfirst (by rw [hc]; decide), H.leaf, hpath, ?_⟩⟩
      have : keys.getD m [] = start := (nibs_injective (lexCmp_eq_iff.mp hc)).symm
      show (Ordering.eq == Ordering.eq) = _
      rw [this]; simp
    | lt =>
      refine ⟨_, rfl, Or.inl ⟨m, id, hfirst (by rw [hc]; decide), H.leaf, hpath, ?_⟩⟩
      show (Ordering.lt == Ordering.eq) = _
      rw [beq_false_of_gt hc]; rfl
    | gt =>
      have hklt : KLt keys (nibs start) m := (lexCmp_gt_iff _ _).mp hc
      apply fallback_spec h start st
      refine ⟨m + 1, by omega, ?_, fun t' h1 h2 h3 => H.above t' (by omega) h2 h3, H.right, H.ranc⟩
      intro t' h1 h2
      by_cases h3 : t' = m
      · rw [h3]; exact hklt
      · exact H.below t' (by omega) h2

end IterLemmas

open IterLemmas Subtree SearchDescent Exact Scan in
/-- **`getGEPath`, Complete mode.**  For every start string, `getGEPath` returns the id path from
    the root to the leaf of the smallest kept key `≥ start` (the empty path if there is none),
    and `eq` says whether that key equals `start`. -/
theorem getGEPath_exact (keys : List Bytes) (keep : List Bool) (t : Trie1)
    (hasc : strictAsc keys = true) (hwf : WF keys keep t)
    (hinner : t.opt.inner = true) (hleaf : t.opt.leaf = true) (start : Bytes) :
    ∃ p, getGEPath t.view start = .ok p ∧ GERes keys keep t start p := by
  obtain ⟨queue, hq, hroot⟩ := (wf_iff keys keep t).mp hwf
  have h0 : 0 < t.nodes.size := hq.lt hroot
  obtain ⟨st', e, hloop, hfin⟩ :=
    geLoop_exact hq hasc hinner (nibs start) (nibs_lt16 start) (by rw [nibs_length]; omega)
      t.nodes.size 0 _ (t.nodes.size + 1) {}
      (by omega) (by omega) hroot rfl rfl (Nat.zero_le _) rfl
      (by intro t' h; exact absurd h (Nat.not_lt_zero _))
      (by intro t' h1 h2; exact absurd h2 (Nat.not_lt.mpr h1))
      (by intro t' h1 h2; exact absurd h2 (Nat.not_lt.mpr h1))
      ⟨Nat.le_refl _, by intro rid hr; cases hr⟩ (Anc.here 0)
  have hempty : t.view.isEmpty = false := by
    show (t.nodes.size == 0) = false
    exact beq_false_of_ne (by omega)
  have hscan : t.view.scanOK = true := by
    show (t.opt.inner && t.opt.leaf) = true
    rw [hinner, hleaf]; rfl
  have hcnt : t.view.nodeCnt = t.nodes.size := rfl
  rw [getGEPath_eq _ _ hempty hscan, hcnt, hloop]
  exact geEpi_spec hq hleaf start st' e hfin

#print axioms getGEPath_exact
