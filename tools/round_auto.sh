#!/bin/bash
# round_auto.sh <round> <prop>... : for each property: confirm /tmp/mut${R}/out<round>_<prop>/m* (in the background), run the
# property's check against each, and archive the ones that are confirmed AND caught at first run.  Prints one line each;
# missed or unconfirmed changes are left for manual treatment.
R=$1; shift
cd /verif
for p in "$@"; do for m in /tmp/mut${R}/out${R}_$p/m?; do [ -f $m/patch.diff ] && [ ! -f $m.verify ] && (tools/verify_mutation.sh $m > $m.verify 2>&1 &); done; done
for p in "$@"; do for m in /tmp/mut${R}/out${R}_$p/m?; do
  [ -f $m/patch.diff ] || continue
  tools/try_mutation.sh $m $p > $m.try 2>&1
  cat $m.try | tail -4
done; done
# wait for the confirmations
for p in "$@"; do for m in /tmp/mut${R}/out${R}_$p/m?; do
  [ -f $m/patch.diff ] || continue
  for i in $(seq 1 120); do grep -q 'confirmed=' $m.verify 2>/dev/null && break; sleep 10; done
  v=$(grep -o 'confirmed=[A-Z]*' $m.verify | head -1)
  if [ "$v" = "confirmed=YES" ] && grep -q 'rc=1 :: VIOLATION' $m.try && ! grep -q 'no-failing-input-found' $m.try; then
    what=$(grep -m1 'what:' $m.try | sed 's/^ *what: *//' | cut -c1-160)
    python3 tools/archive_mutation.py $m R${R}_${p}_$(basename $m) $p "round $R; caught at first run ($what)" | tail -1
  else
    echo "MANUAL $m $v $(grep -m1 -o 'rc=[0-9] :: [A-Z]*' $m.try)"
  fi
done; done
