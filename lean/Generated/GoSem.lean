/-
  Generated.GoSem — hand-written (NOT generated): the meaning of Go's fixed-width integer
  operations, used by the generated file `Generated/Funcs.lean` (harness/cmd/extract/translate.go).

  Representation.  A Go integer value of a type of width `w` (int8 … int64, uint8 … uint64;
  `int`/`uint` are 64 bits on the supported platforms) is represented by its BIT PATTERN, a `Nat`
  below `2 ^ w` — for an unsigned type that is the value, for a signed type the value modulo `2^w`
  (two's complement).  `toS w p` is the signed value of pattern `p`.  `+ - * << & | ^ &^` and
  narrowing conversions act on patterns and commute with truncation, so they are wrapped with
  `% 2^w`; `>>` on signed operands, comparisons of signed operands, widening conversions of signed
  operands and `/ %` depend on the sign and are defined through `toS` / sign extension.

  A `[]byte` / `string` is a `List Nat` of values below 256; indexing is `List.getD _ _ 0`
  (Go panics on an out-of-range or negative index; the default is never used when the caller's
  hypotheses put the index in range).  A negative or over-wide shift count panics / gives 0 (1s) in
  Go; here the count is used as a pattern (`a <<< k % 2^w` is 0 for `k ≥ w`, like Go).
-/

namespace Generated.Go

def wrap (w x : Nat) : Nat := x % 2 ^ w

/-- signed value of a bit pattern -/
def toS (w p : Nat) : Int := if p < 2 ^ (w - 1) then (p : Int) else (p : Int) - (2 : Int) ^ w

/-- bit pattern of a signed value -/
def ofS (w : Nat) (x : Int) : Nat := (x % (2 : Int) ^ w).toNat

def add (w a b : Nat) : Nat := wrap w (a + b)
def sub (w a b : Nat) : Nat := wrap w (a + (2 ^ w - wrap w b))
def mul (w a b : Nat) : Nat := wrap w (a * b)
def neg (w a : Nat) : Nat := wrap w (2 ^ w - wrap w a)
def not (w a : Nat) : Nat := 2 ^ w - 1 - wrap w a
def shl (w a k : Nat) : Nat := wrap w (a <<< k)
/-- `>>` on an unsigned operand -/
def shr (a k : Nat) : Nat := a >>> k
/-- `>>` on a signed operand (arithmetic shift) -/
def sar (w a k : Nat) : Nat :=
  if a < 2 ^ (w - 1) then a >>> k else wrap w ((a >>> k) + (2 ^ w - 2 ^ (w - min k w)))
def and (a b : Nat) : Nat := a &&& b
def or (a b : Nat) : Nat := a ||| b
def xor (a b : Nat) : Nat := a ^^^ b
def andNot (w a b : Nat) : Nat := a &&& (2 ^ w - 1 - wrap w b)

/-- conversion `T(x)` from a type of width `fw` (signed iff `fs`) to a type of width `tw` -/
def conv (fw : Nat) (fs : Bool) (tw : Nat) (x : Nat) : Nat :=
  if tw ≤ fw then wrap tw x
  else if fs && decide (2 ^ (fw - 1) ≤ x) then x + (2 ^ tw - 2 ^ fw) else x

def ltS (w a b : Nat) : Bool := decide (toS w a < toS w b)
def leS (w a b : Nat) : Bool := decide (toS w a ≤ toS w b)
def ltU (a b : Nat) : Bool := decide (a < b)
def leU (a b : Nat) : Bool := decide (a ≤ b)

/-- Go's truncated division / remainder on signed operands (division by zero panics in Go) -/
def divS (w a b : Nat) : Nat := ofS w (Int.tdiv (toS w a) (toS w b))
def modS (w a b : Nat) : Nat := ofS w (Int.tmod (toS w a) (toS w b))
def divU (a b : Nat) : Nat := a / b
def modU (a b : Nat) : Nat := a % b

/-- `bitmap.Mask[k]` (github.com/openacid/low/bitmap): the low `k` bits set, `k ≤ 64` -/
def mask64 (k : Nat) : Nat := 2 ^ k - 1

/-- `bitmap.Bit[k]`: bit `k` set, `k < 64` -/
def bit64 (k : Nat) : Nat := 2 ^ k

/-- `bits.OnesCount64` -/
def popcount64 (x : Nat) : Nat := ((List.range 64).filter (fun i => x.testBit i)).length

/-! ### encoding/binary: fixed-width little / big endian (`PutUintN` panics on a short buffer) -/

/-- `w` little-endian bytes of `n` (truncating) -/
def leBytesNat : Nat → Nat → List Nat
  | 0, _ => []
  | w + 1, n => n % 256 :: leBytesNat w (n / 256)

/-- little-endian value of a byte list -/
def leValNat : List Nat → Nat
  | [] => 0
  | b :: bs => b + 256 * leValNat bs

def putUintLittleEndian (w : Nat) (b : List Nat) (v : Nat) : List Nat := leBytesNat w v ++ b.drop w
def uintLittleEndian (w : Nat) (s : List Nat) : Nat := leValNat (s.take w)
def putUintBigEndian (w : Nat) (b : List Nat) (v : Nat) : List Nat := (leBytesNat w v).reverse ++ b.drop w
def uintBigEndian (w : Nat) (s : List Nat) : Nat := leValNat (s.take w).reverse

/-! ## Whole functions (`namespace Generated.W` of Funcs.lean): panics, pointers, external calls

  A whole Go function is translated with its control skeleton into the `Option` monad: `none` is a
  Go run-time panic (an explicit `panic(…)`, an index or slice bound out of range, a nil pointer
  dereference); which of them is not distinguished.  A `*T` that may be nil (a field or a local of
  pointer type) is an `Option T`; the RECEIVER and the pointer PARAMETERS of a translated function are
  values of type `T` (the caller dereferences, i.e. panics on nil, before the call); a function that
  assigns fields of a pointer parameter returns the updated value (state passing).
  Integers stay bit patterns (see above); a slice or string is the list of its elements and
  `a[lo:hi]` is checked against `len a` (the translation does not model capacities: it assumes
  `cap a = len a`, which holds for strings and is what the model `Slim.sliceBytes` assumes too). -/

/-- a Go run-time panic -/
def panic {α : Type} : Option α := none

/-- `*p`, `p.f`, `p.m(…)` through a pointer that may be nil -/
def deref {α : Type} (p : Option α) : Option α := p

/-- `a[i]`, the index of a signed type of width `w`: a negative index or one `≥ len a` panics -/
def idxS {α : Type} (w : Nat) (a : List α) (i : Nat) : Option α :=
  if i < 2 ^ (w - 1) then a[i]? else none

/-- `a[i]`, the index of an unsigned type -/
def idxU {α : Type} (a : List α) (i : Nat) : Option α := a[i]?

/-- `a[lo:hi]`, bounds of a signed type of width `w`: panics unless `0 ≤ lo ≤ hi ≤ len a` -/
def sliceS {α : Type} (w : Nat) (a : List α) (lo hi : Nat) : Option (List α) :=
  if lo < 2 ^ (w - 1) ∧ hi < 2 ^ (w - 1) ∧ lo ≤ hi ∧ hi ≤ a.length
  then some ((a.drop lo).take (hi - lo)) else none

/-- `a[lo:]` -/
def sliceFromS {α : Type} (w : Nat) (a : List α) (lo : Nat) : Option (List α) :=
  if lo < 2 ^ (w - 1) ∧ lo ≤ a.length then some (a.drop lo) else none

/-- `a[:hi]` -/
def sliceToS {α : Type} (w : Nat) (a : List α) (hi : Nat) : Option (List α) :=
  if hi < 2 ^ (w - 1) ∧ hi ≤ a.length then some (a.take hi) else none

/-! ### ASSUMED semantics of the external package github.com/openacid/low (v0.1.21), which is
  outside /repo and is not translated.  `Rank64`, `Rank128` are transcribed statement by statement from bitmap/rank.go with the
  operations above (int32 wrap-around, index panics); `bitstr.Len` is its one expression; `Select32R64` is specified by what it computes on a well-formed index (entries in
  `[0, 2^31)`): its word-level search (`select8Lookup`, the unbounded `for` over the rank index) is
  not transcribed.  The bridge lemmas `SlimProps/BridgeSem/Extern.lean` relate them to the model's
  `Bits.rank64`, `Bits.rank128`, `Bits.select32R64`, `Slim.bitstrLen`. -/

/-- `bitmap.Mask[k]` as an element of the array `[65]uint64` (an index above 64 panics) -/
def maskAt (k : Nat) : Option Nat := if k ≤ 64 then some (2 ^ k - 1) else none

/-- `bitmap.Bit[k]` as an element of the array `[64]uint64` -/
def bitAt (k : Nat) : Option Nat := if k < 64 then some (2 ^ k) else none

/-- `bitmap.Rank64(words, rindex, i) (int32, int32)` -/
def rank64 (words rindex : List Nat) (i : Nat) : Option (Nat × Nat) := do
  let wordI := sar 32 i 6
  let j := and i 63
  let n ← idxS 32 rindex wordI
  let w ← idxS 32 words wordI
  let m ← maskAt j
  pure (add 32 n (conv 64 true 32 (popcount64 (and w m))), and (conv 64 false 32 (shr w j)) 1)

/-- `bitmap.Rank128(words, rindex, i) (int32, int32)` -/
def rank128 (words rindex : List Nat) (i : Nat) : Option (Nat × Nat) := do
  let wordI := sar 32 i 6
  let j := and i 63
  let atRight := and wordI 1
  let n ← idxS 32 rindex (sar 32 (add 32 i 64) 7)
  let w ← idxS 32 words wordI
  let cnt1 := conv 64 true 32 (popcount64 w)
  let m ← maskAt j
  pure (add 32 (sub 32 n (mul 32 atRight cnt1)) (conv 64 true 32 (popcount64 (and w m))),
        and (conv 64 false 32 (shr w j)) 1)

/-- position of the `k`-th (0-based) set bit among the low 64 bits of `w` -/
def selectInWord (w k : Nat) : Option Nat := ((List.range 64).filter (fun i => w.testBit i))[k]?

/-- first set bit at a position `≥ pos`, else `64 * len words` -/
def nextOne (words : List Nat) (pos : Nat) : Nat :=
  let total := words.length * 64
  match (List.range' pos (total - pos)).find? (fun i => (words.getD (i / 64) 0).testBit (i % 64)) with
  | some i => i
  | none => total

/-- `for ; rankIndex[wordI+1] <= i; wordI++ {}` -/
def select32R64Walk (ridx : List Nat) (i : Nat) : Nat → Nat → Option Nat
  | 0, _ => none
  | fuel + 1, wordI =>
    match ridx[wordI + 1]? with
    | none => none
    | some r => if r ≤ i then select32R64Walk ridx i fuel (wordI + 1) else some wordI

/-- `bitmap.Select32R64(words, selectIndex, rankIndex, i) (int32, int32)`: the position of the `i`-th
    set bit and the position of the next one (or `64 * len words`). -/
def select32R64 (words sidx ridx : List Nat) (i : Nat) : Option (Nat × Nat) :=
  if 2 ^ 31 ≤ i then none else do
  let s0 ← sidx[i / 32]?
  let wordI ← select32R64Walk ridx i (ridx.length + 1) (s0 / 64)
  let w ← words[wordI]?
  let base ← ridx[wordI]?
  let off ← selectInWord w (i - base)
  let a := wordI * 64 + off
  pure (wrap 32 a, wrap 32 (nextOne words (a + 1)))

/-- `bitstr.Len(bs) int32`: `int32(l)<<3 - 16 + int32(bits.OnesCount8(bs[l-1]))` with `l = len(bs)`:
    panics on the empty slice (`bs[-1]`), else the `int32` pattern of `8*l - 16 + popcount(last byte)` -/
def bitstrLen (bs : List Nat) : Option Nat :=
  match bs.getLast? with
  | none => none
  | some last => some (wrap 32 (bs.length * 8 + (2 ^ 32 - 16) + popcount64 last))

/-- `bytes.Equal(a, b)` -/
def bytesEqual (a b : List Nat) : Bool := a == b

/-- `bytes.Compare(a, b)` as an `int` pattern: -1, 0, 1 -/
def bytesCompare : List Nat → List Nat → Nat
  | [], [] => 0
  | [], _ :: _ => 2 ^ 64 - 1
  | _ :: _, [] => 1
  | x :: xs, y :: ys => if x < y then 2 ^ 64 - 1 else if y < x then 1 else bytesCompare xs ys

/-! ### additions for the legacy loader (trie/slimtrie_marshal.go), agT4 -/

/-- `a / b`, `a % b` with a divisor that is not a constant: a zero divisor panics
    (`MinInt / -1` wraps, as in Go) -/
def divChkS (w a b : Nat) : Option Nat := if b = 0 then none else some (divS w a b)
def modChkS (w a b : Nat) : Option Nat := if b = 0 then none else some (modS w a b)
def divChkU (a b : Nat) : Option Nat := if b = 0 then none else some (divU a b)
def modChkU (a b : Nat) : Option Nat := if b = 0 then none else some (modU a b)

/-- `make([]T, n)`, `n` of a signed type of width `w`: a negative length panics; zero elements -/
def makeS (w n : Nat) : Option (List Nat) := if n < 2 ^ (w - 1) then some (List.replicate n 0) else none
/-- `make([]T, n)`, `n` of an unsigned type -/
def makeU (n : Nat) : Option (List Nat) := some (List.replicate n 0)

/-- `a[i] = v`, the index of a signed type of width `w` -/
def setS {α : Type} (w : Nat) (a : List α) (i : Nat) (v : α) : Option (List α) :=
  if i < 2 ^ (w - 1) ∧ i < a.length then some (a.set i v) else none
/-- `a[i] = v`, the index of an unsigned type -/
def setU {α : Type} (a : List α) (i : Nat) (v : α) : Option (List α) :=
  if i < a.length then some (a.set i v) else none

/-- `st.encoder.GetEncodedSize(nil)`: the field `encoder` (an interface value of package encode) is not
    represented; the translated function receives the outcome of this call as a parameter:
    `some p` = it returns the `int` with pattern `p`, `none` = it panics (nil encoder, or an encoder
    whose `GetEncodedSize` reads its argument). -/
def encodedSize (encSize : Option Nat) : Option Nat := encSize

/-- the number of bits of `bitmap.Of(bitPositions, capa)`: `n = capa; if len > 0 { max := last + 1; if n < max { n = max } }` -/
def bitmapOfBits (ps : List Nat) (capa : Nat) : Nat :=
  match ps.getLast? with
  | some l => if ltS 32 capa (add 32 l 1) then add 32 l 1 else capa
  | none => capa

/-- `bitmap.Of(bitPositions, capa) []uint64` (openacid/low bitmap/of.go), transcribed: the number of
    bits is `capa` or `last position + 1`, `make` panics on a negative word count, every position
    sets one bit (`words[i>>6] |= 1 << uint(i&63)`, an index out of range panics).  ASSUMED. -/
def bitmapOf (ps : List Nat) (capa : Nat) : Option (List Nat) := do
  let n := bitmapOfBits ps capa
  let nWords := sar 32 (add 32 n 63) 6
  let words ← makeS 32 nWords
  ps.foldlM (fun ws i => do
    let wordI := sar 32 i 6
    let j := and i 63
    let x ← idxS 32 ws wordI
    setS 32 ws wordI (or x (shl 64 1 j))) words

/-- `bitmap.IndexRank64(words) []int32` (bitmap/rank.go) without the trailing total: entry `i` is the
    `int32` count of ones before word `i`.  ASSUMED. -/
def indexRank64 (words : List Nat) : List Nat :=
  let rec go : List Nat → Nat → List Nat
    | [], _ => []
    | w :: ws, n => n :: go ws (add 32 n (conv 64 true 32 (popcount64 w)))
  go words 0

/-- `newBM(indexes, capa, "r64")` of trie/bitmap.go: `&Bitmap{Words: bitmap.Of(indexes, capa)}` followed
    by `indexit("r64")`, i.e. `RankIndex = bitmap.IndexRank64(Words)`; the result is (Words, RankIndex)
    (`SelectIndex` stays nil).  newBM itself (variadic options, `range`, `switch`) is NOT translated:
    the translator uses this specification only while the text of `newBM` / `indexit` in /repo is the
    one it was written for (translate.go `newBMText`, `indexitText`). -/
def newBMr64 (ps : List Nat) (capa : Nat) : Option (List Nat × List Nat) := do
  let ws ← bitmapOf ps capa
  pure (ws, indexRank64 ws)

/-- `bitmap.SafeGet1(bm, i) uint64` (openacid/low bitmap/get.go), transcribed: 0 outside the words.  ASSUMED. -/
def safeGet1 (bm : List Nat) (i : Nat) : Option Nat :=
  let wordI := sar 32 i 6
  let bitI := and i 63
  if ltS 32 wordI 0 || leS 32 (conv 64 true 32 bm.length) wordI then some 0
  else do
    let w ← idxS 32 bm wordI
    pure (and (shr w (conv 32 true 64 bitI)) 1)

/-- `bitmap.Getw(bm, i, w) uint64` (bitmap/get.go), transcribed: `i *= w; (bm[i>>6] >> uint(i&63)) & Mask[w]`.  ASSUMED. -/
def getw (bm : List Nat) (i w : Nat) : Option Nat := do
  let i := mul 32 i w
  let x ← idxS 32 bm (sar 32 i 6)
  let m ← maskAt w
  pure (and (shr x (conv 32 true 64 (and i 63))) m)

/-- `binary.LittleEndian.Uint16 / Uint32 / Uint64 (b)` with the bounds check of the library
    (`_ = b[n-1]`): panics when `b` is shorter than `n` bytes -/
def uintLEChk (n : Nat) (b : List Nat) : Option Nat :=
  if n ≤ b.length then some (uintLittleEndian n b) else none

/-- `copy(x, src)` where `x` is the view `base[lo:hi]` (`0 ≤ lo ≤ hi ≤ len base`, checked when the view was
    made): the first `min (hi-lo) (len src)` elements of `src` replace the elements of `base` from `lo` on -/
def copyInto {α : Type} (base : List α) (lo hi : Nat) (src : List α) : List α :=
  let n := min (hi - lo) src.length
  base.take lo ++ src.take n ++ base.drop (lo + n)

/-- `copy(dst, src)` into a fresh slice -/
def copyPrefix {α : Type} (dst src : List α) : List α :=
  let n := min dst.length src.length
  src.take n ++ dst.drop n

/-- `bits.TrailingZeros8(x)` as an `int`: 8 for 0 -/
def trailingZeros8 (x : Nat) : Nat :=
  match (List.range 8).find? (fun k => x.testBit k) with
  | some k => k
  | none => 8

/-- `bitstr.New(s, fromBit, toBit) []byte` (openacid/low bitstr/bitstr.go), transcribed: the payload bytes
    `s[fromBit>>3 : (toBit+7)>>3]` with the bits after `toBit` cleared, followed by the mask byte
    `byte(bitmap.RMask[(8-toBit)&7])` (`RMask[k] = ^(1<<k - 1)`); `make`, the slice expression and the two
    element assignments panic as in Go.  ASSUMED. -/
def bitstrNew (s : List Nat) (fromBit toBit : Nat) : Option (List Nat) :=
  if fromBit = toBit ∧ and fromBit 7 = 0 then some [255] else do
  let fromByte := sar 32 fromBit 3
  let toByte := sar 32 (add 32 toBit 7) 3
  let l := sub 32 toByte fromByte
  let bitStr ← makeS 32 (add 32 l 1)
  let src ← sliceS 32 s (sar 32 fromBit 3) toByte
  let bitStr := copyPrefix bitStr src
  let k := and (sub 32 8 toBit) 7
  let mask := conv 64 false 8 (2 ^ 64 - 2 ^ k)
  let x ← idxS 32 bitStr (sub 32 l 1)
  let bitStr ← setS 32 bitStr (sub 32 l 1) (and x mask)
  setS 32 bitStr l mask

end Generated.Go
