import SlimProofs.Legacy0510Wire
import SlimProps.C06
import SlimProps.C07Wire
import SlimProps.C18
/-
  C06 (wire half, 0.5.10 / 0.5.11) — "data written by every older compatible version loads …":
  the stream `LegacyWrite.write0510` produces (validated byte for byte against the 39 archived
  0.5.10 files by its Go twin) goes through the REAL loading path of the model — header, version
  dispatch, frame, protobuf decode with the retired fields 12/13/15 interleaved, the two in-memory
  conversions, `init` — and yields today's message of the same trie, up to the word-index select
  tables of the prefix position bitmaps (which `select32R64` tolerates: `C06_select_wordIndex`) and
  the retired fields kept as unknown bytes.

  Objects: `to0510` / `write0510` (the reconstructed writer), `decodeSlim`, `unmarshalDispatch`,
  `Legacy.unmarshalMsg` / `Legacy.Instance.unmarshal` (= the complete `Unmarshal`),
  `Legacy.oldMsg`, `Legacy.wordSelectMsg`, `LegacyWrite.retired` (bytes of fields 12, 13, 15 as written).

  Hypotheses of the trie-level statements: `build keys (some vals) opt = .ok t`, `keys ≠ []`,
  `Refine.Small t` (Go's own int32 limits, as in C05), the 0.5.10 body can be allocated (`BodyOK`),
  and what 0.5.10 supported for values: at least one leaf value, all of one width `w > 0`
  (`st.encoder.GetEncodedSize(nil) = w`).
-/
open Wire Frame Version Legacy LegacyWrite Refine

/-- (1) The wire round trip of a 0.5.10 / 0.5.11 body, for every well-formed message without
    unknown bytes whose `ShortSize` is a bit count: known fields as written, the retired fields
    12, 13 (a ten-byte negative varint), 15 in `XXX_unrecognized`, in order. -/
theorem C06_wire_body (cur : SlimMsg) (hwf : cur.WF) (hu : cur.unrecognized = [])
    (hss : cur.shortSize ≤ 64)
    (hne : (cur.nodeTypeBM.isNone && cur.inners.isNone && cur.leaves.isNone) = false)
    (hsz : (to0510 cur).length < 2 ^ 64) :
    decodeSlim (to0510 cur) = .ok (oldMsg cur (retired cur)) :=
  decodeSlim_to0510 cur hwf hu hss hne hsz

/-- (2) The framed stream takes the `v0510` branch of `Unmarshal` with exactly that message. -/
theorem C06_wire_dispatch (ver : String) (hver : ver = "0.5.10" ∨ ver = "0.5.11") (cur : SlimMsg)
    (hwf : cur.WF) (hu : cur.unrecognized = []) (hss : cur.shortSize ≤ 64)
    (hne : (cur.nodeTypeBM.isNone && cur.inners.isNone && cur.leaves.isNone) = false)
    (hb : BodyOK (to0510 cur)) :
    unmarshalDispatch (frame ver (to0510 cur)) = .ok (.v0510 ver (oldMsg cur (retired cur))) := by
  have hsz : (to0510 cur).length < 2 ^ 64 := by unfold BodyOK maxAlloc at hb; omega
  have hv : VersionOK ver ∧ isCompatible ver = true ∧ isCurrentLayout ver = true ∧ before000512 ver = true := by
    rcases hver with rfl | rfl
    · exact version_0510
    · exact version_0511
  have h := unmarshal_frame_slim ver hv.1 hv.2.1 hv.2.2.1 (to0510 cur) hb []
  rw [List.append_nil, C06_wire_body cur hwf hu hss hne hsz] at h
  rw [h]
  simp [hv.2.2.2]

/-- (3) `load ∘ write` through the whole loading path: the 0.5.10 / 0.5.11 stream of a built trie
    loads as today's message of that trie with word-index select tables. -/
theorem C06_load_0510 (keys vals : List Bytes) (opt : Opt) (t : Trie1) (ver : String)
    (hver : ver = "0.5.10" ∨ ver = "0.5.11")
    (hb : build keys (some vals) opt = .ok t) (hk : keys ≠ []) (hsm : Small t)
    (hbody : BodyOK (to0510 (Slim.encodeCreator t)))
    (es : List Bytes) (w : Nat) (helts : t.elts = some es) (hw : 0 < w) (hne : es ≠ [])
    (hes : ∀ v ∈ es, v.length = w) :
    Slim.encode t = Slim.encodeCreator t ∧
    unmarshalMsg (some w) (frame ver (to0510 (Slim.encode t)))
      = .ok (wordSelectMsg (Slim.encodeCreator t) (retired (Slim.encodeCreator t))) := by
  have hs : ShapeOK t := build_shape keys (some vals) opt t hb hk
  have henc : Slim.encode t = Slim.encodeCreator t := encode_eq t (by have := hs.nonempty; omega)
  refine ⟨henc, ?_⟩
  rw [henc]
  have hd := C06_wire_dispatch ver hver (Slim.encodeCreator t) (encodeCreator_WF hs hsm) rfl
    (by rw [enc_shortSize]; have := eShortSize_le t; omega) (encodeCreator_inners_isSome t) hbody
  have hl := C06_load_0510_msg_partial t es w (retired (Slim.encodeCreator t)) helts hw hne hes
    (storedOf_lt hs)
  unfold unmarshalMsg
  rw [hd]
  exact hl

/-- … and the instance: whatever it held, it is the freshly initialised instance of that message;
    `init` succeeds because `initLevels` does not read the select tables (nor any prefix or leaf
    field) and succeeds on today's message (C18). -/
theorem C06_load_0510_instance (keys vals : List Bytes) (opt : Opt) (t : Trie1) (ver : String)
    (hver : ver = "0.5.10" ∨ ver = "0.5.11")
    (hb : build keys (some vals) opt = .ok t) (hk : keys ≠ []) (hsm : Small t)
    (hbody : BodyOK (to0510 (Slim.encodeCreator t)))
    (es : List Bytes) (w : Nat) (helts : t.elts = some es) (hw : 0 < w) (hne : es ≠ [])
    (hes : ∀ v ∈ es, v.length = w) (σ : Instance) :
    ∃ lv, Slim.initLevels (Slim.encode t) = .ok lv ∧
      Instance.unmarshal σ (some w) (frame ver (to0510 (Slim.encode t)))
        = ({ inner := wordSelectMsg (Slim.encodeCreator t) (retired (Slim.encodeCreator t)),
             levels := lv, varsNil := false }, none) := by
  obtain ⟨lv, hlv⟩ := C18_initLevels_ok keys (some vals) opt t hb
  obtain ⟨henc, hm⟩ := C06_load_0510 keys vals opt t ver hver hb hk hsm hbody es w helts hw hne hes
  refine ⟨lv, hlv, ?_⟩
  have hi : Instance.init (wordSelectMsg (Slim.encodeCreator t) (retired (Slim.encodeCreator t)))
      = .ok { inner := wordSelectMsg (Slim.encodeCreator t) (retired (Slim.encodeCreator t)), levels := lv } := by
    unfold Instance.init
    rw [initLevels_wordSelectMsg, ← henc, hlv]
    rfl
  unfold Instance.unmarshal
  rw [hm]
  simp only [hi]

/-- the same, stated on the writer's own output -/
theorem C06_write0510_stream (mode ver : String) (keys vals : List Bytes) (opt : Opt) (t : Trie1)
    (hmode : optOfMode mode = some opt) (hver : ver = "0.5.10" ∨ ver = "0.5.11") (hk : keys ≠ [])
    (hb : build keys (some vals) opt = .ok t) :
    write0510 mode ver keys vals = .ok (frame ver (to0510 (Slim.encode t))) := by
  unfold write0510
  have hv : (ver != "0.5.10" && ver != "0.5.11") = false := by
    rcases hver with rfl | rfl <;> decide
  have hke : keys.isEmpty = false := by cases keys <;> simp_all
  simp only [hmode, hv, hke, hb]
  rfl

/-- the empty key set: an empty body; the loader's conversions return early on `Leaves == nil` and
    `InnerPrefixes == nil`, the instance is the empty trie. -/
theorem C06_load_0510_empty (ver : String) (hver : ver = "0.5.10" ∨ ver = "0.5.11") (e : Option Nat)
    (σ : Instance) :
    unmarshalMsg e (frame ver []) = .ok {} ∧
    Instance.unmarshal σ e (frame ver []) = ({ inner := {}, levels := [(0, 0, 0)], varsNil := false }, none) := by
  have hv : VersionOK ver ∧ isCompatible ver = true ∧ isCurrentLayout ver = true ∧ before000512 ver = true := by
    rcases hver with rfl | rfl
    · exact version_0510
    · exact version_0511
  have h := unmarshal_frame_slim ver hv.1 hv.2.1 hv.2.2.1 [] (by unfold BodyOK maxAlloc; simp) []
  rw [List.append_nil] at h
  have hd : decodeSlim [] = .ok {} := by
    unfold decodeSlim decodeSlimInto; rw [decodeMsg_nil]; rfl
  rw [hd] at h
  have hm : unmarshalMsg e (frame ver []) = .ok {} := by
    unfold unmarshalMsg
    rw [h]
    simp only [hv.2.2.2, if_true]
    rfl
  refine ⟨hm, ?_⟩
  unfold Instance.unmarshal
  rw [hm]
  rfl

/-- (4) A 0.5.10 / 0.5.11 stream cut anywhere before its end is rejected as truncated, and the
    instance is left empty. -/
theorem C06_truncated_0510 (ver : String) (hver : ver = "0.5.10" ∨ ver = "0.5.11") (cur : SlimMsg)
    (hb : BodyOK (to0510 cur)) (e : Option Nat) (cut : Nat) (hcut : cut < (frame ver (to0510 cur)).length)
    (σ : Instance) :
    unmarshalMsg e ((frame ver (to0510 cur)).take cut) = .error .truncated ∧
    (Instance.unmarshal σ e ((frame ver (to0510 cur)).take cut)).1.inner = {} := by
  have hv : VersionOK ver ∧ isCompatible ver = true := by
    rcases hver with rfl | rfl
    · exact ⟨version_0510.1, version_0510.2.1⟩
    · exact ⟨version_0511.1, version_0511.2.1⟩
  have h := C07_truncated_frame ver hv.1 hv.2 (to0510 cur) hb [] cut hcut
  rw [List.append_nil] at h
  have hm := unmarshalMsg_of_dispatch_error e _ _ h
  exact ⟨hm, by rw [Instance.unmarshal_error_inner σ e _ _ hm]⟩

/-! ### non-vacuity -/

namespace C06Wire

def exKeys : List Bytes := [[0x61, 0x62], [0x61, 0x63]]
def exVals : List Bytes := [[0, 0, 0, 0], [1, 0, 0, 0]]
def exOpt : Opt := { inner := true }

/-- "ab" ↦ 0, "ac" ↦ 1 with InnerPrefix (one stored prefix of three half-bytes, 4-byte values):
    every hypothesis of `C06_load_0510` holds. -/
theorem ex_hyps : ∃ t es, build exKeys (some exVals) exOpt = .ok t ∧ Small t ∧
    BodyOK (to0510 (Slim.encodeCreator t)) ∧ t.elts = some es ∧ es ≠ [] ∧ (∀ v ∈ es, v.length = 4) := by
  have h : ((build exKeys (some exVals) exOpt).toOption.map (fun t =>
      smallB t && (decide ((to0510 (Slim.encodeCreator t)).length ≤ maxAlloc) &&
        (match t.elts with
         | some es => !es.isEmpty && es.all (fun v => v.length == 4)
         | none => false)))) = some true := by decide +kernel
  match hb : build exKeys (some exVals) exOpt with
  | .ok t =>
    rw [hb] at h
    simp only [Except.toOption, Option.map_some, Option.some.injEq, Bool.and_eq_true,
      decide_eq_true_eq] at h
    obtain ⟨h1, h2, h3⟩ := h
    match he : t.elts with
    | some es =>
      rw [he] at h3
      simp only [Bool.and_eq_true, Bool.not_eq_true', List.all_eq_true, beq_iff_eq] at h3
      exact ⟨t, es, rfl, small_of_smallB h1, h2, he, by intro h0; rw [h0] at h3; simp at h3, h3.2⟩
    | none => rw [he] at h3; cases h3
  | .error e => rw [hb] at h; cases h

example : ∃ t, build exKeys (some exVals) exOpt = .ok t ∧
    unmarshalMsg (some 4) (frame "0.5.10" (to0510 (Slim.encode t)))
      = .ok (wordSelectMsg (Slim.encodeCreator t) (retired (Slim.encodeCreator t))) := by
  obtain ⟨t, es, hb, hsm, hbody, he, hne, hes⟩ := ex_hyps
  exact ⟨t, hb, (C06_load_0510 exKeys exVals exOpt t "0.5.10" (Or.inl rfl) hb (by decide) hsm hbody es 4 he
    (by omega) hne hes).2⟩

/-- the retired fields of a message with `BigInnerCnt = 2`, `ShortSize = 3`: field 12 = 480,
    field 13 = −14 (ten bytes), field 15 = 7 -/
example : retired { bigInnerCnt := 2, shortSize := 3 } =
    [0x60, 0xe0, 0x03, 0x68, 0xf2, 0xff, 0xff, 0xff, 0xff, 0xff, 0xff, 0xff, 0xff, 0x01, 0x78, 0x07] := by
  simp [retired, encVarintF, tag, varint, int32Varint, Slim.bigInnerSize, Slim.innerSize]

end C06Wire

#print axioms C06_wire_body
#print axioms C06_wire_dispatch
#print axioms C06_load_0510
#print axioms C06_load_0510_instance
#print axioms C06_write0510_stream
#print axioms C06_load_0510_empty
#print axioms C06_truncated_0510
#print axioms C06Wire.ex_hyps
