import SlimProofs.WireMarshal
/-
  C05 (wire half) — "Marshal … its length equals the advertised protobuf size, and re-marshalling a
  loaded trie reproduces the same bytes"; `Unmarshal(Marshal(t))` gives back the very message, so
  every answer computed from the message is preserved (the query half lives with the trie model).

  Objects: `Wire.encodeSlim / decodeSlim / protoSizeSlim` = `proto.Marshal / Unmarshal / Size` on
  `*trie.Slim` (golang/protobuf v1.3.1), `marshalSlim` = `(*SlimTrie).Marshal`, `unmarshalDispatch`
  = `(*SlimTrie).Unmarshal` up to the in-memory conversions.

  Hypotheses, all explicit:
    `m.WF`   the field values fit their Go types (int32 ≥ 0, uint32, uint64);
    `m.NF`   proto3 normal form: `XXX_unrecognized` holds only well-formed, canonically keyed fields
             the Slim unmarshaler does not consume itself (`SlimProofs/WireSlim.lean`);
    a length bound that every Go value satisfies: `< 2^64` for the message codec (lengths are
    uint64 varints), `BodyOK` (≤ 2^48 bytes, what `make([]byte, n)` can allocate on linux/amd64) for
    the framed stream.  No other size bound.
-/
open Wire Frame Version

/-- Varint codec round trip on the whole uint64 range, in front of any further bytes. -/
theorem C05_varint (n : Nat) (h : n < 2 ^ 64) (rest : Bytes) :
    unvarint (varint n ++ rest) = some (n, rest) := unvarint_varint h rest

theorem C05_roundtrip_bitmap (b : BitmapMsg) (hwf : b.WF) (hsz : (encodeBitmap b).length < 2 ^ 64) :
    decodeBitmap (encodeBitmap b) = .ok b := decodeBitmapTop_encode b hwf hsz

theorem C05_roundtrip_vlenarray (v : VLenArrayMsg) (hwf : v.WF) (hsz : (encodeVLenArray v).length < 2 ^ 64) :
    decodeVLenArray (encodeVLenArray v) = .ok v := decodeVLenArrayTop_encode v hwf hsz

theorem C05_roundtrip_bits (b : BitsMsg) (hwf : b.WF) (hsz : (encodeBits b).length < 2 ^ 64) :
    decodeBits (encodeBits b) = .ok b := decodeBitsTop_encode b hwf hsz

theorem C05_roundtrip_array32 (a : Array32Msg) (hwf : a.WF) (hnf : a.NF)
    (hsz : (encodeArray32 a).length < 2 ^ 64) :
    decodeArray32 (encodeArray32 a) = .ok a := decodeArray32_encode a hwf hnf hsz

/-- `proto.Unmarshal(proto.Marshal(m)) = m` for the Slim message. -/
theorem C05_wire_roundtrip (m : SlimMsg) (hwf : m.WF) (hnf : m.NF) (hsz : (encodeSlim m).length < 2 ^ 64) :
    decodeSlim (encodeSlim m) = .ok m := decodeSlim_encode m hwf hnf hsz

/-- `proto.Size(m) = len(proto.Marshal(m))`, for every message (no hypothesis). -/
theorem C05_size (m : SlimMsg) : protoSizeSlim m = (encodeSlim m).length := protoSizeSlim_eq m

theorem C05_size_array32 (a : Array32Msg) : protoSizeArray32 a = (encodeArray32 a).length :=
  protoSizeArray32_eq a

/-- The marshalled stream is the 32-byte header plus the advertised protobuf size. -/
theorem C05_marshal_size (m : SlimMsg) : (marshalSlim m).length = 32 + protoSizeSlim m := by
  rw [C05_size]; exact frame_length _ _

/-- Byte stability of the message codec: what a decode of `encode m` yields encodes to the same bytes. -/
theorem C05_stable (m m' : SlimMsg) (hwf : m.WF) (hnf : m.NF) (hsz : (encodeSlim m).length < 2 ^ 64)
    (h : decodeSlim (encodeSlim m) = .ok m') : encodeSlim m' = encodeSlim m := by
  rw [C05_wire_roundtrip m hwf hnf hsz] at h
  cases h; rfl

/-- `Unmarshal(Marshal(m))` is the current layout carrying `m` itself. -/
theorem C05_unmarshal_marshal (m : SlimMsg) (hwf : m.WF) (hnf : m.NF) (hb : BodyOK (encodeSlim m)) :
    unmarshalDispatch (marshalSlim m) = .ok (.current m) := unmarshal_marshal m hwf hnf hb

/-- Re-marshalling a loaded stream reproduces the bytes. -/
theorem C05_stable_stream (m m' : SlimMsg) (hwf : m.WF) (hnf : m.NF) (hb : BodyOK (encodeSlim m))
    (h : unmarshalDispatch (marshalSlim m) = .ok (.current m')) : marshalSlim m' = marshalSlim m := by
  rw [C05_unmarshal_marshal m hwf hnf hb] at h
  cases h; rfl

/-- Header round trip: version (≤ 16 ASCII bytes, no trailing NUL), header size, body size. -/
theorem C05_header_roundtrip (v : String) (hv : VersionOK v) (n : Nat) (hn : n < 2 ^ 64) (tail : Bytes) :
    readHeader (header v n ++ tail) = .ok (⟨v, 32, n⟩, tail) := readHeader_header v hv n hn tail

/-- Frame round trip, in front of any further bytes. -/
theorem C05_frame_roundtrip (v : String) (hv : VersionOK v) (body : Bytes) (hb : BodyOK body) (rest : Bytes) :
    readFrame (frame v body ++ rest) = .ok (v, body, rest) := readFrame_frame v hv body hb rest

/-! ### non-vacuity: a concrete non-trivial message satisfies every hypothesis -/

namespace C05Wire

/-- A message with scalars, a present-but-empty sub-message, nested bitmaps, bytes, and the retired
    fields 12 and 15 of a 0.5.10 stream in `XXX_unrecognized`. -/
def c05Example : SlimMsg :=
  { bigInnerCnt := 3, shortSize := 300,
    nodeTypeBM := some { words := [5, 2 ^ 64 - 1], rankIndex := [0, 2], selectIndex := [0] },
    inners := some {},
    shortTable := [7, 2 ^ 32 - 1],
    leaves := some { n := 2, eltCnt := 2, fixedSize := 4, bytes := [1, 0, 0, 0, 2, 0, 0, 0],
                     presenceBM := some { words := [3], rankIndex := [0] } },
    unrecognized := [0x60, 0x01, 0x78, 0xac, 0x02] }

theorem c05Example_WF : c05Example.WF := by
  unfold c05Example SlimMsg.WF
  simp [VLenArrayMsg.WF, BitmapMsg.WF]

theorem c05Example_NF : c05Example.NF := by
  unfold c05Example SlimMsg.NF
  simp [unknownOnly, readField, readValue, decodeVarint, decodeVarintAux, slimKnown, varint]

theorem c05Example_size : (encodeSlim c05Example).length = 80 := by
  rw [← C05_size]
  simp [c05Example, protoSizeSlim, protoSizeVLenArray, protoSizeBitmap, sizeVarintF, sizeMsgF, sizePackedF,
    sizeBytesF, packedSize, sizeVarint]

theorem c05Example_BodyOK : BodyOK (encodeSlim c05Example) := by
  unfold BodyOK maxAlloc; rw [c05Example_size]; omega

example : decodeSlim (encodeSlim c05Example) = .ok c05Example :=
  C05_wire_roundtrip _ c05Example_WF c05Example_NF (by rw [c05Example_size]; omega)

example : unmarshalDispatch (marshalSlim c05Example) = .ok (.current c05Example) :=
  C05_unmarshal_marshal _ c05Example_WF c05Example_NF c05Example_BodyOK

example : (marshalSlim c05Example).length = 112 := by
  rw [C05_marshal_size, C05_size, c05Example_size]

example : VersionOK "0.5.12" := by decide
example : VersionOK "1.0.0" := by decide
example : unvarint (varint 300 ++ [7]) = some (300, [7]) := C05_varint 300 (by omega) [7]

end C05Wire

#print axioms C05_varint
#print axioms C05_roundtrip_bitmap
#print axioms C05_roundtrip_vlenarray
#print axioms C05_roundtrip_bits
#print axioms C05_roundtrip_array32
#print axioms C05_wire_roundtrip
#print axioms C05_size
#print axioms C05_size_array32
#print axioms C05_marshal_size
#print axioms C05_stable
#print axioms C05_unmarshal_marshal
#print axioms C05_stable_stream
#print axioms C05_header_roundtrip
#print axioms C05_frame_roundtrip
