import SlimProps.C03
import SlimProofs.IterLemmas
/-
  SlimProps.C04Iter — scans on Complete tries (the positive half of C04; the refusal clause and
  `C04_exhausted_stable` are in SlimProps.C04).

  Stage (a): `C04_getGEPath` — for every successful `build` with `opt.complete = true` and every
  start string, `getGEPath` returns normally; its path is the root-to-leaf id path
  (`IterLemmas.RootPath`) of the smallest retained key `≥ start` (`IterLemmas.FirstGE`), the empty
  path if every retained key is below `start`, and `eq` says whether that key is `start` itself.
-/

open IterLemmas Subtree SearchDescent Exact Scan

/-- **C04 (a).**  `getGEPath` finds the path to the first retained key `≥ start`. -/
theorem C04_getGEPath (keys : List Bytes) (vals : Option (List Bytes)) (opt : Opt) (t : Trie1)
    (hb : build keys vals opt = .ok t) (hc : opt.complete = true) (start : Bytes) :
    ∃ p, getGEPath t.view start = .ok p ∧
      GERes keys (keepMask keys.length vals opt.dedup) t start p := by
  by_cases hne : keys = []
  · subst hne
    rw [C03.build_nil vals opt t hb]
    refine ⟨{ path := [], eq := false }, rfl, Or.inr ⟨?_, rfl, rfl⟩⟩
    intro t' h; exact absurd h (Nat.not_lt_zero _)
  · obtain ⟨hwf, hopt⟩ := build_wf keys vals opt t hb hne
    obtain ⟨hin, hlf⟩ := C03.complete_opt hc
    rw [← hopt] at hin hlf
    exact getGEPath_exact keys _ t (build_strictAsc keys vals opt t hb hne) hwf hin hlf start

/-! ### non-vacuity -/

/-- on the example trie of C03 (Complete, record 1 de-duplicated): from "ab" (a dropped key) the
    path leads to the leaf of "a\x80\x01" and `eq = false`; from "b\xff" it is an exact hit; above
    the last key the path is empty -/
example : ∃ t, build C03.exKeys (some C03.exVals) C03.exOpt = .ok t ∧ C03.exOpt.complete = true ∧
    (getGEPath t.view [0x61, 0x62]).toOption.map (·.eq) = some false ∧
    (getGEPath t.view [0x62, 0xff]).toOption.map (·.eq) = some true ∧
    (getGEPath t.view [0xff]).toOption.map (·.path) = some [] := by
  have h : (build C03.exKeys (some C03.exVals) C03.exOpt).toBool = true := by decide +kernel
  match hb : build C03.exKeys (some C03.exVals) C03.exOpt with
  | .ok t =>
    have hb' : build C03.exKeys (some C03.exVals) C03.exOpt = .ok t := hb
    refine ⟨t, rfl, by decide, ?_, ?_, ?_⟩
    all_goals (
      have ht : t = (match build C03.exKeys (some C03.exVals) C03.exOpt with
        | .ok t => t | .error _ => default) := by rw [hb']
      rw [ht]
      decide +kernel)
  | .error e => rw [hb] at h; cases h

#print axioms C04_getGEPath
