import SlimProofs.SizeFields
/-
  SlimProofs.SizeBound — C17: the serialized size of a filter-mode trie is at most
  `8·L + 256` bytes, `L` = number of leaves, given the shape invariant, "every inner node has at
  least 2 labels" and "every 257-bit node has at least 11 labels".
-/

namespace SizeBound

open Bits Slim Refine Wire SizeV SizeShort SizeFields SizePrefixEnc

theorem sizeVarintF_le (fno v : Nat) (hf : fno * 8 < 2 ^ 7) (hv : v < 2 ^ 35) :
    sizeVarintF fno v ≤ 6 := by
  unfold sizeVarintF
  split
  · omega
  · have : sizeVarint (fno * 8 + 0) = 1 := sizeVarint_lt (by omega)
    have := sizeVarint_le5 hv
    omega

theorem sizeVarintF_small (fno v : Nat) (hf : fno * 8 < 2 ^ 14) (hv : v < 2 ^ 7) :
    sizeVarintF fno v ≤ 3 := by
  unfold sizeVarintF
  split
  · omega
  · have := sizeVarint_le2 (show fno * 8 + 0 < 2 ^ 14 by omega)
    have : sizeVarint v = 1 := sizeVarint_lt (by omega)
    omega

theorem sizeBytesF_le (fno : Nat) (b : Bytes) (hf : fno * 8 + 2 < 2 ^ 14) (hb : b.length < 2 ^ 35) :
    sizeBytesF fno b ≤ 7 + b.length := by
  unfold sizeBytesF
  split
  · omega
  · have := sizeVarint_le2 hf
    have := sizeVarint_le5 hb
    omega

theorem mem_eInnerIdx_lt (t : Trie1) : ∀ i ∈ eInnerIdx t, i < t.nodes.size := by
  intro i hi
  unfold eInnerIdx at hi
  rw [List.mem_filter, List.mem_range] at hi
  exact hi.1

theorem mem_eShortIndex_lt (t : Trie1) : ∀ i ∈ eShortIndex t, i < (eInners t).length := by
  intro i hi
  unfold eShortIndex at hi
  rw [List.mem_filter, List.mem_range] at hi
  exact hi.1

theorem mem_ePrefIdx_lt (t : Trie1) : ∀ i ∈ ePrefIdx t, i < (eInners t).length := by
  intro i hi
  unfold ePrefIdx at hi
  rw [List.mem_filter, List.mem_range] at hi
  exact hi.1

theorem length_filter_range_le (n : Nat) (q : Nat → Bool) : ((List.range n).filter q).length ≤ n := by
  have := List.length_filter_le q (List.range n)
  simpa using this

/-- the size bound from the shape facts -/
theorem protoSize_filter_le {t : Trie1} (hs : ShapeOK t) (hinner : t.opt.inner = false)
    (hleaf : t.opt.leaf = false) (helts : t.elts = none)
    (hbc : t.bigCnt ≤ (eInners t).length)
    (hTwo : ∀ r ∈ eInners t, 2 ≤ r.labels.length)
    (hBig : ∀ r ∈ eInners t, r.big = true → 11 ≤ r.labels.length)
    (L : Nat) (hL : leavesBefore t.nodes t.nodes.size = L) (hLlt : L < 2 ^ 31) :
    32 + protoSizeSlim (encodeCreator t) ≤ 8 * L + 256 := by
  -- the counts
  have hN := nodes_eq_labels hs
  have hNL := nodes_eq_leaves_inners t
  rw [hL] at hNL
  have hΛ := labelSum_ge t hTwo hBig
  have hB := sizes_sum_le hs
  have hE := steps_le t
  have hEb := steps_bytes_length t
  have hT := eTbl_small t
  have hS := eShortSize_le t
  have hTe := eTbl_entry_lt hs
  generalize hNdef : t.nodes.size = N at *
  generalize hIdef : (eInners t).length = I at *
  generalize hΛdef : labelSum t = Λ at *
  generalize hbdef : bigCount t = b at *
  generalize hBdef : (eSizes t).sum = B at *
  generalize hEdef : ((eInners t).filterMap stepOf).length = E at *
  generalize hTdef : (eTbl t).length = T at *
  -- the fields
  have f1 : sizeVarintF 11 t.bigCnt ≤ 6 := sizeVarintF_le 11 _ (by omega) (by omega)
  have f2 : sizeVarintF 14 (eShortSize t) ≤ 3 := sizeVarintF_small 14 _ (by omega) (by omega)
  have s3 := newBM_r64_size (eInnerIdx t) N (by rw [← hNdef]; exact mem_eInnerIdx_lt t) (by omega)
    (by
      have : (eInnerIdx t).length ≤ t.nodes.size := length_filter_range_le _ _
      omega)
  have f3 := sizeMsgF_le 20 _ (by omega) (show protoSizeBitmap (newBM (eInnerIdx t) N "r64") < 2 ^ 35 by omega)
  have hsubsum : ((eSubs t).map List.length).sum = Λ := by
    have := sum_subs_length hs (eSubs t).length
    rw [List.take_length, List.take_of_length_le (by simp [eSub_length])] at this
    rw [this]; exact hΛdef
  have s4 := ofMany_r128_size (eSubs t) (eSizes t) (eSub_ok hs) (by rw [hBdef]; omega)
    (by rw [hsubsum]; omega)
  rw [hBdef] at s4
  have f4 := sizeMsgF_le 30 _ (by omega)
    (show protoSizeBitmap (mk (ofMany (eSubs t) (eSizes t)) "r128") < 2 ^ 35 by omega)
  have s5 := newBM_r64_size (eShortIndex t) I (by rw [← hIdef]; exact mem_eShortIndex_lt t) (by omega)
    (by
      have : (eShortIndex t).length ≤ (eInners t).length := length_filter_range_le _ _
      omega)
  have f5 := sizeMsgF_le 31 _ (by omega) (show protoSizeBitmap (newBM (eShortIndex t) I "r64") < 2 ^ 35 by omega)
  have f6 : sizePackedF 32 (eTbl t) ≤ 7 + 3 * T :=
    sizePackedF_le 32 (eTbl t) 3 T (by omega)
      (fun x hx => sizeVarint_le3 (Nat.lt_of_lt_of_le (hTe x hx) (by omega))) (by omega)
      (by rcases hT with ⟨_, h⟩ | h <;> omega)
  have hpl : (ePrefIdx t).length ≤ I := by
    have : (ePrefIdx t).length ≤ (eInners t).length := length_filter_range_le _ _
    omega
  have s8 := newBM_r128_size (ePrefIdx t) I (by rw [← hIdef]; exact mem_ePrefIdx_lt t) (by omega)
    (by omega)
  have f8 := sizeMsgF_le 61 _ (by omega) (show protoSizeBitmap (newBM (ePrefIdx t) I "r128") < 2 ^ 35 by omega)
  have g1 : sizeVarintF 11 (ePrefIdx t).length ≤ 6 := sizeVarintF_le 11 _ (by omega) (by omega)
  have g2 : sizeVarintF 23 2 ≤ 3 := sizeVarintF_small 23 2 (by omega) (by omega)
  have g3 := sizeBytesF_le 30 ((eInners t).filterMap stepOf).flatten (by omega) (by omega)
  have s7 := protoSizeVLenArray_filter t hinner
  rw [hIdef] at s7
  have f7 := sizeMsgF_le 38 (protoSizeVLenArray (eIps t)) (by omega) (by omega)
  -- the message
  unfold protoSizeSlim
  simp only [enc_bigInnerCnt, enc_shortSize, enc_nodeTypeBM, enc_inners, enc_shortBM, enc_shortTable,
    enc_innerPrefixes, enc_leafPrefixes, enc_leaves, enc_unrecognized, Option.map_some, helts,
    List.length_nil]
  have e1 : eLps t = none := by unfold eLps; simp [hleaf]
  have e2 : (if t.nodes.size = 0 then none else some (newBM (eInnerIdx t) t.nodes.size "r64"))
      = some (newBM (eInnerIdx t) N "r64") := by
    rw [hNdef, if_neg (by omega)]
  rw [e1, e2, hIdef]
  simp only [Option.map_none, Option.map_some, sizeMsgF]
  simp only [sizeMsgF] at f3 f4 f5 f7 f8 s7
  have e3 : eInnersBM t = mk (ofMany (eSubs t) (eSizes t)) "r128" := rfl
  rw [e3]
  rcases hT with ⟨_, hT1⟩ | hT1 <;> omega

end SizeBound
