import SlimProofs.SearchDescent
/-
  SlimProofs.RangeDropped — the descent of `searchID` on a key that was de-duplicated away
  (`keptAt keep d = false`), in every option combination.

  The subsets of the queue contain *all* keys that carry a child's label, kept or not, so a
  dropped key `d` stays inside the subsets along its path as long as its label is a kept label.
  It can never arrive at a leaf (a leaf subset is a singleton consisting of a kept key) and never
  takes the `i = l` shortcut (label 0 present would mean a kept key equal to `d`), so the loop
  ends at an inner node where the label of `d` is absent: `eqID = none`, and the candidates are
  set by the `leftChild`/`rightChild` rule from the rank of the absent label.

  * `RangeDropped.rank_spec`            `labels[k] < x ↔ k < rankLabels labels x`
  * `RangeDropped.gap_absent_*`         the kept keys around a key whose label is absent
  * `RangeDropped.srBranch_absent`      equation lemma for the `has = false` exit
  * `RangeDropped.searchLoop_dropped`   the loop invariant
  * `searchID_dropped`                  `searchID` on dropped key `d` = (leaf of the greatest kept
                                        key below `d` | none, none, leaf of the smallest kept key
                                        above `d` | none)
-/

namespace RangeDropped
open Subtree SearchDescent

/-! ### ranks in strictly ascending label lists -/

theorem rank_le (labels : List Nat) (x : Nat) : rankLabels labels x ≤ labels.length := by
  unfold rankLabels; exact List.length_filter_le _ _

theorem rank_zero_of_ge (labels : List Nat) (x : Nat) (h : ∀ b ∈ labels, x ≤ b) :
    rankLabels labels x = 0 := by
  unfold rankLabels
  rw [List.filter_eq_nil_iff.mpr]
  · rfl
  · intro b hb; have := h b hb; simp; omega

theorem rank_spec (labels : List Nat) (hp : labels.Pairwise (· < ·)) (x k : Nat)
    (hk : k < labels.length) : labels[k] < x ↔ k < rankLabels labels x := by
  induction labels generalizing k with
  | nil => simp at hk
  | cons a as ih =>
    rw [List.pairwise_cons] at hp
    by_cases hax : a < x
    · have hr : rankLabels (a :: as) x = rankLabels as x + 1 := by
        unfold rankLabels; rw [List.filter_cons_of_pos (by simpa using hax)]; rfl
      cases k with
      | zero => simp only [List.getElem_cons_zero, hr]; omega
      | succ k =>
        simp only [List.getElem_cons_succ, hr]
        rw [ih hp.2 k (by simpa using hk)]; omega
    · have hr : rankLabels (a :: as) x = 0 := by
        apply rank_zero_of_ge
        intro b hb
        rcases List.mem_cons.mp hb with rfl | hb
        · omega
        · have := hp.1 b hb; omega
      rw [hr]
      cases k with
      | zero => simp only [List.getElem_cons_zero]; omega
      | succ k =>
        simp only [List.getElem_cons_succ]
        have := hp.1 _ (List.getElem_mem (by simpa using hk : k < as.length))
        omega

/-! ### the kept keys around a key whose label is absent -/

section gaps
variable {kept : Nat → Bool} {lab : Nat → Nat} {labels : List Nat} {s e : Nat}

/-- the child of the greatest kept label below the label of `d` lies below `d`, and no kept key
    lies between them -/
theorem gap_absent_left_some
    (hlabels : ∀ t, s ≤ t → t < e → kept t = true → lab t ∈ labels)
    (hpw : labels.Pairwise (· < ·))
    (hmono : ∀ a b, s ≤ a → a ≤ b → b < e → lab a ≤ lab b)
    {d : Nat} (hds : s ≤ d) (hde : d < e) (hx : lab d ∉ labels)
    {k : Nat} {hk : k < labels.length} (hrank : rankLabels labels (lab d) = k + 1)
    {c : Subset} (hc : IsRun lab labels s e k hk c) :
    c.e ≤ d ∧ ∀ t, c.e ≤ t → t < d → kept t = false := by
  have hce := hc.lab_e
  obtain ⟨hc1, hc2, hc3, hc4⟩ := hc
  have hlt : labels[k] < lab d := (rank_spec labels hpw (lab d) k hk).mpr (by omega)
  have hord : c.e ≤ d := by
    by_cases h : c.e ≤ d
    · exact h
    · exfalso
      have := hmono d (c.e - 1) hds (by omega) (by omega)
      omega
  refine ⟨hord, ?_⟩
  intro t h1 h2
  cases hkt : kept t with
  | false => rfl
  | true =>
    exfalso
    obtain ⟨k', hk', hkl⟩ := List.mem_iff_getElem.mp (hlabels t (by omega) (by omega) hkt)
    have hm1 := hmono (c.e - 1) t (by omega) (by omega) (by omega)
    have hm2 := hmono t d (by omega) (by omega) hde
    have hne : labels[k'] ≠ lab d := fun h => hx (h ▸ List.getElem_mem hk')
    have hi1 : k ≤ k' := asc_idx_le hpw hk hk' (by omega)
    have hi2 : k' < rankLabels labels (lab d) :=
      (rank_spec labels hpw (lab d) k' hk').mp (by omega)
    have hkk : k' = k := by omega
    subst hkk
    have := (hc4 t (by omega) (by omega)).mpr hkl.symm
    omega

/-- if no kept label is below the label of `d`, no kept key of the subset is below `d` -/
theorem gap_absent_left_none
    (hlabels : ∀ t, s ≤ t → t < e → kept t = true → lab t ∈ labels)
    (hpw : labels.Pairwise (· < ·))
    (hmono : ∀ a b, s ≤ a → a ≤ b → b < e → lab a ≤ lab b)
    {d : Nat} (hde : d < e) (hx : lab d ∉ labels)
    (hrank : rankLabels labels (lab d) = 0) :
    ∀ t, s ≤ t → t < d → kept t = false := by
  intro t h1 h2
  cases hkt : kept t with
  | false => rfl
  | true =>
    exfalso
    obtain ⟨k', hk', hkl⟩ := List.mem_iff_getElem.mp (hlabels t h1 (by omega) hkt)
    have hm := hmono t d h1 (by omega) hde
    have hne : labels[k'] ≠ lab d := fun h => hx (h ▸ List.getElem_mem hk')
    have := (rank_spec labels hpw (lab d) k' hk').mp (by omega)
    omega

/-- the child of the smallest kept label above the label of `d` lies above `d`, and no kept key
    lies between them -/
theorem gap_absent_right_some
    (hlabels : ∀ t, s ≤ t → t < e → kept t = true → lab t ∈ labels)
    (hpw : labels.Pairwise (· < ·))
    (hmono : ∀ a b, s ≤ a → a ≤ b → b < e → lab a ≤ lab b)
    {d : Nat} (hds : s ≤ d) (hde : d < e) (hx : lab d ∉ labels)
    {k : Nat} {hk : k < labels.length} (hrank : rankLabels labels (lab d) = k)
    {c : Subset} (hc : IsRun lab labels s e k hk c) :
    d + 1 ≤ c.s ∧ ∀ t, d + 1 ≤ t → t < c.s → kept t = false := by
  have hcs := hc.lab_s
  obtain ⟨hc1, hc2, hc3, hc4⟩ := hc
  have hge : ¬ labels[k] < lab d := fun h => by
    have := (rank_spec labels hpw (lab d) k hk).mp h; omega
  have hne : labels[k] ≠ lab d := fun h => hx (h ▸ List.getElem_mem hk)
  have hord : d + 1 ≤ c.s := by
    by_cases h : d + 1 ≤ c.s
    · exact h
    · exfalso
      have := hmono c.s d hc1 (by omega) hde
      omega
  refine ⟨hord, ?_⟩
  intro t h1 h2
  cases hkt : kept t with
  | false => rfl
  | true =>
    exfalso
    obtain ⟨k', hk', hkl⟩ := List.mem_iff_getElem.mp (hlabels t (by omega) (by omega) hkt)
    have hm1 := hmono d t hds (by omega) (by omega)
    have hm2 := hmono t c.s (by omega) (by omega) (by omega)
    have hi1 : ¬ k' < rankLabels labels (lab d) := fun h => by
      have := (rank_spec labels hpw (lab d) k' hk').mpr h; omega
    have hi2 : k' ≤ k := asc_idx_le hpw hk' hk (by omega)
    have hkk : k' = k := by omega
    subst hkk
    have := (hc4 t (by omega) (by omega)).mpr hkl.symm
    omega

/-- if no kept label is above the label of `d`, no kept key of the subset is above `d` -/
theorem gap_absent_right_none
    (hlabels : ∀ t, s ≤ t → t < e → kept t = true → lab t ∈ labels)
    (hpw : labels.Pairwise (· < ·))
    (hmono : ∀ a b, s ≤ a → a ≤ b → b < e → lab a ≤ lab b)
    {d : Nat} (hds : s ≤ d) (hx : lab d ∉ labels)
    (hrank : rankLabels labels (lab d) = labels.length) :
    ∀ t, d + 1 ≤ t → t < e → kept t = false := by
  intro t h1 h2
  cases hkt : kept t with
  | false => rfl
  | true =>
    exfalso
    obtain ⟨k', hk', hkl⟩ := List.mem_iff_getElem.mp (hlabels t (by omega) h2 hkt)
    have hm := hmono d t hds (by omega) h2
    have hne : labels[k'] ≠ lab d := fun h => hx (h ▸ List.getElem_mem hk')
    have : ¬ labels[k'] < lab d := by omega
    exact this ((rank_spec labels hpw (lab d) k' hk').mpr (by omega))

end gaps

/-! ### the `has = false` exit of the loop -/

set_option linter.unusedSimpArgs false in
/-- one iteration on an inner node, from the branching position `ws`, when the label of the key
    is absent and `rk` labels of the node are below it -/
theorem srBranch_absent (v : View) (kn : List Nat) (fuel : Nat) (r : InnerRec) (st : SearchSt)
    (ws rk : Nat) (hrk : rk ≤ r.labels.length)
    (hch : leftChildID r (labelIdxOfKey kn ws r.big) = ((r.firstChild : Int) - 1 + rk, false)) :
    srBranch v kn fuel r st ws =
      .ok { lID := if 1 ≤ rk then some (r.firstChild + rk - 1) else st.lID
            eqID := none
            rID := if rk < r.labels.length then some (r.firstChild + rk) else st.rID
            i := ws, lp := st.lp } := by
  unfold srBranch
  rw [hch]
  have hC : ((r.firstChild : Int) - 1 + rk).toNat = r.firstChild + rk - 1 := by omega
  have hE : ((r.firstChild : Int) - 1 + rk + 0 + 1).toNat = r.firstChild + rk := by omega
  by_cases h1 : 1 ≤ rk
  · have hA : ((r.firstChild : Int) - 1 + rk ≥ r.firstChild ∧
        (r.firstChild : Int) - 1 + rk ≤ (r.firstChild : Int) + r.labels.length - 1) := by omega
    by_cases h2 : rk < r.labels.length
    · have hB : ((r.firstChild : Int) - 1 + rk + 0 + 1 ≥ r.firstChild ∧
        (r.firstChild : Int) - 1 + rk + 0 + 1 ≤ (r.firstChild : Int) + r.labels.length - 1) := by
        omega
      simp only [if_true, hA, hB, and_self, hC, hE, h1, h2, Bool.not_false, Bool.false_eq_true,
        if_false]
    · have hB : ¬ ((r.firstChild : Int) - 1 + rk + 0 + 1 ≥ r.firstChild ∧
        (r.firstChild : Int) - 1 + rk + 0 + 1 ≤ (r.firstChild : Int) + r.labels.length - 1) := by
        omega
      simp only [if_true, hA, hB, and_self, hC, hE, h1, h2, Bool.not_false, Bool.false_eq_true,
        if_false]
  · have hA : ¬ ((r.firstChild : Int) - 1 + rk ≥ r.firstChild ∧
        (r.firstChild : Int) - 1 + rk ≤ (r.firstChild : Int) + r.labels.length - 1) := by omega
    by_cases h2 : rk < r.labels.length
    · have hB : ((r.firstChild : Int) - 1 + rk + 0 + 1 ≥ r.firstChild ∧
        (r.firstChild : Int) - 1 + rk + 0 + 1 ≤ (r.firstChild : Int) + r.labels.length - 1) := by
        omega
      simp only [if_true, hA, hB, and_self, hC, hE, h1, h2, Bool.not_false, Bool.false_eq_true,
        if_false]
    · have hB : ¬ ((r.firstChild : Int) - 1 + rk + 0 + 1 ≥ r.firstChild ∧
        (r.firstChild : Int) - 1 + rk + 0 + 1 ≤ (r.firstChild : Int) + r.labels.length - 1) := by
        omega
      simp only [if_true, hA, hB, and_self, hC, hE, h1, h2, Bool.not_false, Bool.false_eq_true,
        if_false]

theorem leftChildID_absent (r : InnerRec) (x : Nat) (hx : x ∉ r.labels) :
    leftChildID r x = ((r.firstChild : Int) - 1 + rankLabels r.labels x, false) := by
  unfold leftChildID
  have : r.labels.contains x = false := by
    rw [Bool.eq_false_iff]; intro h; exact hx (List.contains_iff_mem.mp h)
  rw [this]

theorem left_absent {keys : List Bytes} {keep : List Bool} {t : Trie1} {queue : Array Subset}
    {j : Nat} {o : Subset} {r : InnerRec} {ws : Nat}
    (F : InnerFacts keys keep t queue j o r ws) (lID : Option Nat) (d : Nat)
    (hds : o.s ≤ d) (hde : d < o.e) (hx : labelOf keys ws r.big d ∉ r.labels)
    (hl : LeftOK keep queue lID o.s) :
    LeftOK keep queue
      (if 1 ≤ rankLabels r.labels (labelOf keys ws r.big d)
        then some (r.firstChild + rankLabels r.labels (labelOf keys ws r.big d) - 1) else lID)
      d := by
  have hle := rank_le r.labels (labelOf keys ws r.big d)
  cases hrk : rankLabels r.labels (labelOf keys ws r.big d) with
  | zero =>
    rw [if_neg (by omega)]
    have hgap := gap_absent_left_none (kept := keptAt keep) F.labels F.pw F.mono hde hx hrk
    cases lID with
    | none =>
      intro t' h1
      by_cases h2 : t' < o.s
      · exact hl t' h2
      · exact hgap t' (by omega) h1
    | some j' =>
      obtain ⟨o', h1, h2, h3⟩ := hl
      refine ⟨o', h1, by omega, ?_⟩
      intro t' h4 h5
      by_cases h6 : t' < o.s
      · exact h3 t' h4 h6
      · exact hgap t' (by omega) h5
  | succ k =>
    rw [if_pos (by omega)]
    obtain ⟨c, hc, _, hrun⟩ := F.kid k (by omega)
    have hgap := gap_absent_left_some (kept := keptAt keep) F.labels F.pw F.mono hds hde hx hrk hrun
    have hid : r.firstChild + (k + 1) - 1 = r.firstChild + k := by omega
    rw [hid]
    exact ⟨c, hc, hgap.1, hgap.2⟩

theorem right_absent {keys : List Bytes} {keep : List Bool} {t : Trie1} {queue : Array Subset}
    {j : Nat} {o : Subset} {r : InnerRec} {ws : Nat}
    (F : InnerFacts keys keep t queue j o r ws) (rID : Option Nat) (d : Nat)
    (hds : o.s ≤ d) (hde : d < o.e) (hx : labelOf keys ws r.big d ∉ r.labels)
    (hr : RightOK keep keys.length queue rID o.e) :
    RightOK keep keys.length queue
      (if rankLabels r.labels (labelOf keys ws r.big d) < r.labels.length
        then some (r.firstChild + rankLabels r.labels (labelOf keys ws r.big d)) else rID)
      (d + 1) := by
  have hle := rank_le r.labels (labelOf keys ws r.big d)
  by_cases h : rankLabels r.labels (labelOf keys ws r.big d) < r.labels.length
  · rw [if_pos h]
    obtain ⟨c, hc, _, hrun⟩ := F.kid _ h
    have hgap := gap_absent_right_some (kept := keptAt keep) F.labels F.pw F.mono hds hde hx rfl hrun
    exact ⟨c, hc, hgap.1, hgap.2⟩
  · rw [if_neg h]
    have hgap := gap_absent_right_none (kept := keptAt keep) F.labels F.pw F.mono hds hx
      (by omega)
    cases rID with
    | none =>
      intro t' h1 h2
      by_cases h3 : t' < o.e
      · exact hgap t' h1 h3
      · exact hr t' (by omega) h2
    | some j' =>
      obtain ⟨o', h1, h2, h3⟩ := hr
      refine ⟨o', h1, by omega, ?_⟩
      intro t' h4 h5
      by_cases h6 : t' < o.e
      · exact hgap t' h4 h6
      · exact h3 t' (by omega) h5

/-! ### the loop invariant -/

theorem searchLoop_dropped {keys : List Bytes} {keep : List Bool} {t : Trie1}
    {queue : Array Subset} (h : QOK keys keep t queue) (hasc : strictAsc keys = true)
    (d : Nat) (hk : keptAt keep d = false) :
    ∀ n j o fuel st, t.nodes.size - j ≤ n → n < fuel → queue[j]? = some o → o.s ≤ d → d < o.e →
      st.i = o.fb →
      LeftOK keep queue st.lID o.s → RightOK keep keys.length queue st.rID o.e →
      ∃ st',
        searchLoop t.view (knOf keys d) fuel st j = .ok st' ∧ st'.eqID = none ∧
        LeftOK keep queue st'.lID d ∧ RightOK keep keys.length queue st'.rID (d + 1) := by
  intro n
  induction n with
  | zero =>
    intro j o fuel st h1 _ hqj
    have := h.lt hqj
    omega
  | succ n ih =>
    intro j o fuel st h1 h2 hqj hs he hi hL hR
    obtain ⟨hsub, hj, hnode⟩ := h.at hqj
    obtain ⟨fuel, rfl⟩ : ∃ f, fuel = f + 1 := ⟨fuel - 1, by omega⟩
    have hview := view_node t j hj
    cases hn : t.nodes[j] with
    | leaf ith lp =>
      -- a leaf subset is a singleton consisting of a kept key
      rw [hn] at hnode
      obtain ⟨h1e, _, _⟩ := hnode
      obtain ⟨x, hx1, hx2, hx3⟩ := hsub.kept
      have : x = d := by omega
      rw [this, hk] at hx3
      cases hx3
    | inner r =>
      rw [hn] at hnode hview
      obtain ⟨_, hin⟩ := hnode
      obtain ⟨ws, F⟩ := inner_facts h hsub hin
      obtain ⟨hwsl, hag⟩ := F.pre d hs he
      have hstep : srStep r.pref (knOf keys d) st j = .ok (.inr ws) := by
        rw [F.pref]
        exact srStep_prefOf t.opt _ _ st j o.fb ws hi F.fb_le hwsl
          (F.pre o.s (Nat.le_refl _) hsub.lt).1 hag
      have hfc := F.fc
      rw [searchLoop_inner _ _ _ _ r st hview, hstep]
      simp only []
      by_cases hmem : labelOf keys ws r.big d ∈ r.labels
      · -- the label of `d` is a kept label: descend
        obtain ⟨k, hk', hkl⟩ := List.mem_iff_getElem.mp hmem
        obtain ⟨c, hc, hcfb, hrun⟩ := F.kid k hk'
        have hic : c.s ≤ d ∧ d < c.e := (hrun.2.2.2 d hs he).mpr hkl.symm
        have hcid := h.lt hc
        have hch : leftChildID r (labelIdxOfKey (knOf keys d) ws r.big)
            = ((r.firstChild : Int) - 1 + k, true) := by
          rw [labelIdxOfKey_eq_labelAt _ _ _ (fun hb => (F.big hb).1)]
          show leftChildID r (labelOf keys ws r.big d) = _
          rw [← hkl, leftChildID_of_label r F.pw k hk']
        have hL' := left_step F st.lID k hk' c hrun hL
        have hR' := right_step F st.rID k hk' c hrun hR
        rw [srBranch_go _ _ _ r st ws k hk' hch]
        by_cases hwl : ws = (knOf keys d).length
        · -- `d` ends at `ws`: then label 0 is kept, i.e. a kept key of the subset equals `d`
          exfalso
          have hl0 : labelOf keys ws r.big d = 0 := by
            unfold labelOf; rw [labelAt_eq_zero_iff]; omega
          obtain ⟨x, hx1, hx2, hx3⟩ := (h.at hc).1.kept
          have hxo : o.s ≤ x ∧ x < o.e := by
            have := hrun.1; have := hrun.2.1; omega
          have hlx : labelOf keys ws r.big x = 0 := by
            rw [← hl0, ← hkl]
            exact (hrun.2.2.2 x hxo.1 hxo.2).mp ⟨hx1, hx2⟩
          unfold labelOf at hlx
          rw [labelAt_eq_zero_iff] at hlx
          have hagx := (F.pre x hxo.1 hxo.2).2
          rw [← hag, List.take_of_length_le hlx, List.take_of_length_le (by omega)] at hagx
          have hle := hsub.le
          have := strictAsc_inj hasc (by omega) (by omega) (nibs_injective hagx)
          rw [this, hk] at hx3
          cases hx3
        · rw [if_neg hwl]
          have hlne : r.labels[k] ≠ 0 := by
            rw [hkl]; unfold labelOf; rw [Ne, labelAt_eq_zero_iff]; omega
          have hfb : ws + wordSize r.big = c.fb := by
            rw [hcfb]; unfold labelLen wordSize; rw [if_neg hlne]
          exact ih (r.firstChild + k) c fuel _ (by omega) (by omega) hc hic.1 hic.2 hfb hL' hR'
      · -- the label of `d` is absent: the loop ends here
        have hch : leftChildID r (labelIdxOfKey (knOf keys d) ws r.big)
            = ((r.firstChild : Int) - 1 + rankLabels r.labels (labelOf keys ws r.big d), false) := by
          rw [labelIdxOfKey_eq_labelAt _ _ _ (fun hb => (F.big hb).1)]
          exact leftChildID_absent r _ hmem
        rw [srBranch_absent _ _ _ r st ws _ (rank_le _ _) hch]
        exact ⟨_, rfl, rfl, left_absent F st.lID d hs he hmem hL,
          right_absent F st.rID d hs he hmem hR⟩

theorem srEpi_none (v : View) (key : Bytes) (st : SearchSt) (l r : Option Nat)
    (h1 : st.eqID = none) (hl : sideL v st.lID = .ok l) (hr : sideR v st.rID = .ok r) :
    srEpi v key st = .ok (l, none, r) := by
  unfold srEpi
  simp only [h1]
  unfold sideL at hl
  unfold sideR at hr
  cases hL : st.lID with
  | none =>
    rw [hL] at hl
    cases hl
    cases hR : st.rID with
    | none => rw [hR] at hr; cases hr; rfl
    | some b =>
      rw [hR] at hr
      dsimp only at hr ⊢
      cases hx : leftMost v (v.nodeCnt + 1) b with
      | error e => rw [hx] at hr; cases hr
      | ok x => rw [hx] at hr; cases hr; rfl
  | some a =>
    rw [hL] at hl
    dsimp only at hl ⊢
    cases hy : rightMost v (v.nodeCnt + 1) a with
    | error e => rw [hy] at hl; cases hl
    | ok y =>
      rw [hy] at hl; cases hl
      cases hR : st.rID with
      | none => rw [hR] at hr; cases hr; rfl
      | some b =>
        rw [hR] at hr
        dsimp only at hr ⊢
        cases hx : leftMost v (v.nodeCnt + 1) b with
        | error e => rw [hx] at hr; cases hr
        | ok x => rw [hx] at hr; cases hr; rfl

end RangeDropped

open RangeDropped SearchDescent Subtree in
/-- **Search descent on a dropped key.**  In a well-formed trie over strictly ascending keys,
    `searchID` on a key `d` that is not kept finds no exact match and returns on the left the leaf
    of the greatest kept key below `d`, on the right the leaf of the smallest kept key above `d`
    (`none` iff there is none) — in every mode. -/
theorem searchID_dropped (keys : List Bytes) (keep : List Bool) (t : Trie1)
    (hasc : strictAsc keys = true) (hwf : WF keys keep t)
    (d : Nat) (hd : d < keys.length) (hk : keptAt keep d = false) :
    ∃ l r, searchID t.view (keys.getD d []) = .ok (l, none, r) ∧
      LeftRes keep t d l ∧ RightRes keep keys.length t d r := by
  obtain ⟨queue, hq, hroot⟩ := (wf_iff keys keep t).mp hwf
  have h0 : 0 < t.nodes.size := hq.lt hroot
  obtain ⟨st', hloop, heq, hL, hR⟩ :=
    searchLoop_dropped hq hasc d hk t.nodes.size 0 _ (t.nodes.size + 1) {}
      (by omega) (by omega) hroot (Nat.zero_le _) hd rfl
      (by intro t' h; exact absurd h (Nat.not_lt_zero _))
      (by intro t' h1 h2; exact absurd h2 (Nat.not_lt.mpr h1))
  obtain ⟨l, hl, hlres⟩ := sideL_spec hq st'.lID d hL
  obtain ⟨r, hr, hrres⟩ := sideR_spec hq st'.rID d hR
  refine ⟨l, r, ?_, hlres, hrres⟩
  have hempty : t.view.isEmpty = false := by
    show (t.nodes.size == 0) = false
    exact beq_false_of_ne (by omega)
  have hcnt : t.view.nodeCnt = t.nodes.size := rfl
  rw [searchID_eq _ _ hempty, hcnt]
  unfold knOf at hloop
  rw [hloop]
  exact srEpi_none _ _ st' l r heq hl hr

#print axioms searchID_dropped
