import SlimProofs.BitsLemmas.Rank
/-
  SlimProofs.BitsLemmas.OfMany — `ofMany` (= Go `bitmap.OfMany`): the concatenation of
  sub-bitmaps `subs[k]` of widths `sizes[k]`; bit `base k + x` and the rank at `base k + x`.
-/

namespace Bits

/-- hypothesis of `ofMany`: same number of sub-bitmaps and sizes, every sub-bitmap strictly
    ascending with all elements below its size -/
def SubsOK : List (List Nat) → List Nat → Prop
  | [], [] => True
  | s :: ss, z :: zs => Asc s ∧ (∀ x ∈ s, x < z) ∧ SubsOK ss zs
  | _, _ => False

theorem SubsOK.length_eq {subs : List (List Nat)} {sizes : List Nat} (h : SubsOK subs sizes) :
    subs.length = sizes.length := by
  induction subs generalizing sizes with
  | nil => cases sizes <;> simp_all [SubsOK]
  | cons s ss ih =>
    cases sizes with
    | nil => simp [SubsOK] at h
    | cons z zs => simp [SubsOK] at h; simp [ih h.2.2]

/-- the index-wise formulation of the hypothesis -/
theorem subsOK_iff (subs : List (List Nat)) (sizes : List Nat) :
    SubsOK subs sizes ↔
      subs.length = sizes.length ∧
        ∀ k, k < subs.length → Asc (subs.getD k []) ∧ ∀ x ∈ subs.getD k [], x < sizes.getD k 0 := by
  induction subs generalizing sizes with
  | nil => cases sizes <;> simp [SubsOK]
  | cons s ss ih =>
    cases sizes with
    | nil => simp [SubsOK]
    | cons z zs =>
      simp only [SubsOK, ih, List.length_cons, Nat.add_right_cancel_iff]
      constructor
      · rintro ⟨h1, h2, h3, h4⟩
        refine ⟨h3, ?_⟩
        intro k hk
        cases k with
        | zero => exact ⟨h1, h2⟩
        | succ k => simpa using h4 k (by omega)
      · rintro ⟨h1, h2⟩
        refine ⟨(h2 0 (by omega)).1, (h2 0 (by omega)).2, h1, ?_⟩
        intro k hk
        simpa using h2 (k + 1) (by omega)

/-- the global indexes `bitmap.OfMany` hands to `bitmap.Of` -/
def concatIdx : List (List Nat) → List Nat → Nat → List Nat
  | s :: ss, z :: zs, base => s.map (base + ·) ++ concatIdx ss zs (base + z)
  | _, _, _ => []

theorem ofMany_go_eq (subs : List (List Nat)) (sizes : List Nat) (base : Nat) (acc : List Nat)
    (h : subs.length = sizes.length) :
    ofMany.go subs sizes base acc = (acc ++ concatIdx subs sizes base, base + sizes.sum) := by
  induction subs generalizing sizes base acc with
  | nil =>
    cases sizes with
    | nil => simp [ofMany.go, concatIdx]
    | cons z zs => simp at h
  | cons s ss ih =>
    cases sizes with
    | nil => simp at h
    | cons z zs =>
      simp only [List.length_cons, Nat.add_right_cancel_iff] at h
      simp only [ofMany.go, concatIdx, ih zs (base + z) _ h, List.append_assoc, List.sum_cons,
        Nat.add_assoc]

theorem ofMany_eq (subs : List (List Nat)) (sizes : List Nat) (h : subs.length = sizes.length) :
    ofMany subs sizes = ofIdx (concatIdx subs sizes 0) sizes.sum := by
  unfold ofMany
  simp only [ofMany_go_eq subs sizes 0 [] h, List.nil_append, Nat.zero_add]

theorem concatIdx_bounds {subs : List (List Nat)} {sizes : List Nat} (h : SubsOK subs sizes)
    (base : Nat) : ∀ y ∈ concatIdx subs sizes base, base ≤ y ∧ y < base + sizes.sum := by
  induction subs generalizing sizes base with
  | nil => cases sizes <;> simp [concatIdx]
  | cons s ss ih =>
    cases sizes with
    | nil => simp [concatIdx]
    | cons z zs =>
      obtain ⟨_, h2, h3⟩ := h
      intro y hy
      simp only [concatIdx, List.mem_append, List.mem_map] at hy
      simp only [List.sum_cons]
      rcases hy with ⟨x, hx, rfl⟩ | hy
      · have := h2 x hx; omega
      · have := ih h3 (base + z) y hy; omega

theorem concatIdx_asc {subs : List (List Nat)} {sizes : List Nat} (h : SubsOK subs sizes)
    (base : Nat) : Asc (concatIdx subs sizes base) := by
  induction subs generalizing sizes base with
  | nil => cases sizes <;> simp [concatIdx]
  | cons s ss ih =>
    cases sizes with
    | nil => simp [concatIdx]
    | cons z zs =>
      obtain ⟨h1, h2, h3⟩ := h
      simp only [concatIdx]
      rw [Asc, List.pairwise_append]
      refine ⟨?_, ih h3 _, ?_⟩
      · rw [List.pairwise_map]
        exact List.Pairwise.imp (fun hab => by omega) h1
      · intro a ha b hb
        simp only [List.mem_map] at ha
        obtain ⟨x, hx, rfl⟩ := ha
        have := h2 x hx
        have := concatIdx_bounds h3 (base + z) b hb
        omega

/-- membership: position `base k + x` (with `x` inside element `k`) is listed iff `x ∈ subs[k]` -/
theorem mem_concatIdx {subs : List (List Nat)} {sizes : List Nat} (h : SubsOK subs sizes)
    (base k x : Nat) (hk : k < sizes.length) (hx : x < sizes.getD k 0) :
    base + (sizes.take k).sum + x ∈ concatIdx subs sizes base ↔ x ∈ subs.getD k [] := by
  induction subs generalizing sizes base k with
  | nil => cases sizes <;> simp_all [SubsOK]
  | cons s ss ih =>
    cases sizes with
    | nil => simp at hk
    | cons z zs =>
      obtain ⟨_, h2, h3⟩ := h
      simp only [concatIdx, List.mem_append, List.mem_map]
      cases k with
      | zero =>
        simp only [List.getD_cons_zero] at hx
        simp only [List.take_zero, List.sum_nil, Nat.add_zero, List.getD_cons_zero]
        constructor
        · rintro (⟨x', hx', he⟩ | hm)
          · have : x' = x := by omega
            exact this ▸ hx'
          · have := concatIdx_bounds h3 (base + z) _ hm; omega
        · intro hm; exact Or.inl ⟨x, hm, rfl⟩
      | succ k =>
        simp only [List.getD_cons_succ] at hx
        simp only [List.length_cons, Nat.add_lt_add_iff_right] at hk
        simp only [List.take_succ_cons, List.sum_cons, List.getD_cons_succ]
        rw [← ih h3 (base + z) k hk hx]
        have e : base + (z + (zs.take k).sum) + x = base + z + (zs.take k).sum + x := by omega
        rw [e]
        constructor
        · rintro (⟨x', hx', he⟩ | hm)
          · have := h2 x' hx'; omega
          · exact hm
        · intro hm; exact Or.inr hm

theorem filter_concatIdx_length_aux {subs : List (List Nat)} {sizes : List Nat}
    (h : SubsOK subs sizes) (base k x t : Nat) (hk : k ≤ sizes.length) (hx : x ≤ sizes.getD k 0)
    (ht : t = base + (sizes.take k).sum + x) :
    ((concatIdx subs sizes base).filter (· < t)).length
      = ((subs.take k).map List.length).sum + ((subs.getD k []).filter (· < x)).length := by
  induction subs generalizing sizes base k with
  | nil =>
    cases sizes with
    | nil => simp [concatIdx]
    | cons z zs => simp [SubsOK] at h
  | cons s ss ih =>
    cases sizes with
    | nil => simp [SubsOK] at h
    | cons z zs =>
      obtain ⟨_, h2, h3⟩ := h
      simp only [concatIdx, List.filter_append, List.length_append]
      cases k with
      | zero =>
        simp only [List.getD_cons_zero] at hx
        simp only [List.take_zero, List.sum_nil, Nat.add_zero] at ht
        simp only [List.take_zero, List.getD_cons_zero, List.map_nil, List.sum_nil, Nat.zero_add]
        have e1 : (concatIdx ss zs (base + z)).filter (· < t) = [] := by
          rw [List.filter_eq_nil_iff]
          intro y hy
          have := concatIdx_bounds h3 (base + z) y hy
          simp only [decide_eq_true_eq]; omega
        rw [e1, List.filter_map, List.length_map]
        simp only [List.length_nil, Nat.add_zero]
        congr 2
        funext y
        simp only [Function.comp_apply]
        rw [Bool.eq_iff_iff]
        simp only [decide_eq_true_eq]; omega
      | succ k =>
        simp only [List.getD_cons_succ] at hx
        simp only [List.length_cons, Nat.add_le_add_iff_right] at hk
        simp only [List.take_succ_cons, List.sum_cons] at ht
        simp only [List.take_succ_cons, List.sum_cons, List.getD_cons_succ, List.map_cons]
        rw [ih h3 (base + z) k hk hx (by omega)]
        have e1 : (s.map (base + ·)).filter (· < t) = s.map (base + ·) := by
          rw [List.filter_eq_self]
          intro y hy
          simp only [List.mem_map] at hy
          obtain ⟨x', hx', rfl⟩ := hy
          have := h2 x' hx'
          simp only [decide_eq_true_eq]; omega
        rw [e1, List.length_map]; omega

/-- how many listed positions lie below `base k + x` -/
theorem filter_concatIdx_length {subs : List (List Nat)} {sizes : List Nat} (h : SubsOK subs sizes)
    (base k x : Nat) (hk : k ≤ sizes.length) (hx : x ≤ sizes.getD k 0) :
    ((concatIdx subs sizes base).filter (· < base + (sizes.take k).sum + x)).length
      = ((subs.take k).map List.length).sum + ((subs.getD k []).filter (· < x)).length :=
  filter_concatIdx_length_aux h base k x _ hk hx rfl

theorem lastSucc_le_of_lt {r : List Nat} {n : Nat} (h : ∀ y ∈ r, y < n) : lastSucc r ≤ n := by
  unfold lastSucc
  cases hl : r.getLast? with
  | none => simp
  | some l =>
    have := h l (List.mem_of_getLast? hl)
    simp only; omega

/-- item 5, number of words -/
theorem ofMany_length {subs : List (List Nat)} {sizes : List Nat} (h : SubsOK subs sizes) :
    (ofMany subs sizes).length = (sizes.sum + 63) / 64 := by
  rw [ofMany_eq _ _ h.length_eq, ofIdx_length']
  have := lastSucc_le_of_lt (r := concatIdx subs sizes 0) (n := sizes.sum)
    (fun y hy => by have := concatIdx_bounds h 0 y hy; omega)
  rw [Nat.max_eq_left this]

theorem ofMany_lt (subs : List (List Nat)) (sizes : List Nat) :
    ∀ w ∈ ofMany subs sizes, w < 2 ^ 64 := by
  unfold ofMany
  exact ofIdx_lt _ _

theorem take_sum_le (l : List Nat) (k : Nat) : (l.take k).sum ≤ l.sum := by
  conv => rhs; rw [← List.take_append_drop k l, List.sum_append]
  omega

theorem take_sum_add_getD_le (l : List Nat) (k : Nat) : (l.take k).sum + l.getD k 0 ≤ l.sum := by
  have := take_sum_le l (k + 1)
  rw [List.take_add_one, List.sum_append] at this
  rw [List.getD_eq_getElem?_getD]
  cases h : l[k]? with
  | none => simp [h] at this ⊢; exact take_sum_le l k
  | some v => simpa [h] using this

/-- item 5, the bits: bit `base k + x` is set iff `x ∈ subs[k]` -/
theorem getBit_ofMany {subs : List (List Nat)} {sizes : List Nat} (h : SubsOK subs sizes)
    (k x : Nat) (hk : k < sizes.length) (hx : x < sizes.getD k 0) :
    getBit (ofMany subs sizes) ((sizes.take k).sum + x) = decide (x ∈ subs.getD k []) := by
  have hlen := ofMany_length h
  have hle := take_sum_add_getD_le sizes k
  rw [ofMany_eq _ _ h.length_eq] at hlen ⊢
  rw [getBit_ofIdx _ _ _ (by omega)]
  have := mem_concatIdx h 0 k x hk hx
  rw [Nat.zero_add] at this
  simp only [this]

theorem testBit_ofMany {subs : List (List Nat)} {sizes : List Nat} (h : SubsOK subs sizes)
    (k x : Nat) (hk : k < sizes.length) (hx : x < sizes.getD k 0) :
    let i := (sizes.take k).sum + x
    ((ofMany subs sizes).getD (i / 64) 0).testBit (i % 64) = decide (x ∈ subs.getD k []) :=
  getBit_ofMany h k x hk hx

theorem specBit_ofMany {subs : List (List Nat)} {sizes : List Nat} (h : SubsOK subs sizes)
    (k x : Nat) (hk : k < sizes.length) (hx : x < sizes.getD k 0) :
    specBit (bitsOf (ofMany subs sizes)) ((sizes.take k).sum + x) = decide (x ∈ subs.getD k []) := by
  rw [specBit_bitsOf]; exact getBit_ofMany h k x hk hx

/-- item 5, the rank inside (or at the end of) element `k`; `k = sizes.length, x = 0` is the total -/
theorem specRank_ofMany_add {subs : List (List Nat)} {sizes : List Nat} (h : SubsOK subs sizes)
    (k x : Nat) (hk : k ≤ sizes.length) (hx : x ≤ sizes.getD k 0) :
    specRank (bitsOf (ofMany subs sizes)) ((sizes.take k).sum + x)
      = ((subs.take k).map List.length).sum + ((subs.getD k []).filter (· < x)).length := by
  have hlen := ofMany_length h
  have hle := take_sum_add_getD_le sizes k
  rw [specRank_bitsOf]
  rw [ofMany_eq _ _ h.length_eq] at hlen ⊢
  rw [cnt_getBit_ofIdx _ _ _ (by omega), eraseDups_of_asc (concatIdx_asc h 0)]
  have := filter_concatIdx_length h 0 k x hk hx
  rw [Nat.zero_add] at this
  exact this

/-- item 5, the rank at the start of element `k` (any `k`; beyond the end it is the total) -/
theorem specRank_ofMany {subs : List (List Nat)} {sizes : List Nat} (h : SubsOK subs sizes)
    (k : Nat) :
    specRank (bitsOf (ofMany subs sizes)) ((sizes.take k).sum)
      = ((subs.take k).map List.length).sum := by
  rcases Nat.le_total k sizes.length with hk | hk
  · have := specRank_ofMany_add h k 0 hk (Nat.zero_le _)
    rw [Nat.add_zero] at this
    rw [this]
    simp
  · have := specRank_ofMany_add h sizes.length 0 (Nat.le_refl _) (Nat.zero_le _)
    rw [Nat.add_zero] at this
    rw [List.take_of_length_le hk, List.take_of_length_le (by rw [h.length_eq]; exact hk)]
    rw [List.take_length] at this
    rw [this, ← h.length_eq, List.take_length]
    simp

/-- item 5 as one statement, with the index-wise hypotheses -/
theorem ofMany_spec (subs : List (List Nat)) (sizes : List Nat)
    (hlen : subs.length = sizes.length)
    (hok : ∀ k, k < subs.length →
      Asc (subs.getD k []) ∧ ∀ x ∈ subs.getD k [], x < sizes.getD k 0) :
    let ws := ofMany subs sizes
    let base := fun k => (sizes.take k).sum
    ws.length = (sizes.sum + 63) / 64
    ∧ (∀ w ∈ ws, w < 2 ^ 64)
    ∧ (∀ k x, k < sizes.length → x < sizes.getD k 0 →
        specBit (bitsOf ws) (base k + x) = decide (x ∈ subs.getD k []))
    ∧ (∀ k, specRank (bitsOf ws) (base k) = ((subs.take k).map List.length).sum)
    ∧ (∀ k x, k < sizes.length → x ≤ sizes.getD k 0 →
        specRank (bitsOf ws) (base k + x)
          = ((subs.take k).map List.length).sum + ((subs.getD k []).filter (· < x)).length) := by
  have h : SubsOK subs sizes := (subsOK_iff subs sizes).mpr ⟨hlen, hok⟩
  exact ⟨ofMany_length h, ofMany_lt subs sizes, fun k x hk hx => specBit_ofMany h k x hk hx,
    fun k => specRank_ofMany h k,
    fun k x hk hx => specRank_ofMany_add h k x (Nat.le_of_lt hk) hx⟩

end Bits
