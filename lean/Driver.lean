import Driver.Loop
