import SlimModel.Legacy
import SlimModel.LegacyWrite
import SlimProofs.BitsLemmas
/-
  SlimProofs.LegacyPrefix — `before000512InnerPrefixTobitstr` (model: `Legacy.innerPrefixTobitstr`)
  turns the control-byte form of every stored inner prefix into the bit-string form, in place.

  A prefix of arbitrary bit length is given at byte level (`BitPrefix`): its payload bytes, zero
  padded, and the number `r < 8` of valid bits in the last payload byte (`r = 0`: all eight; the
  empty payload with `r = 0` is the prefix of length 0).  Every bit string has exactly one such
  representation, its bit length is `bitLen`.

    bitstrEnc p = payload ‖ mask(r)                              (`bitstr.New`, 0.5.12)
    ctrlEnc p   = 0x00 ‖ payload                       if r = 0   (0.5.10 / 0.5.11)
                  0x01 ‖ payload with bit (7 - r) of the last byte set   otherwise

  Results:
    * `convert_one`        one loader step on `ctrlEnc p` produces `bitstrEnc p` (same length)
    * `go_spec`, `innerPrefixTobitstr_spec`   the whole loop over any list of prefixes, in place,
      given that `select32R64` on the position bitmap returns the element boundaries
    * `select_positions`   … which it does for the position bitmap the builder writes, also with
      the word-index select entries of the old writers (`LegacyWrite.wordIndexSelect`)
    * `bitstrOf_eq_bitstrEnc`, `ctrlOfBitstr_bitstrEnc`   the tie to `Slim.bitstrOf` (half-byte
      prefixes of today's builder) and to the model's writer `LegacyWrite.ctrlOfBitstr`
-/
open Bits

namespace Legacy

/-- the trailing byte of `bitstr.New` for `r` valid bits in the last payload byte (0: all) -/
def maskNat (r : Nat) : Nat := if r = 0 then 0xff else (0xff <<< (8 - r)) % 256

structure BitPrefix where
  payload : Bytes
  r : Nat
  deriving Repr, DecidableEq

namespace BitPrefix

/-- zero padded, `r < 8`, and a partial last byte exists when `r ≠ 0` -/
def Valid (p : BitPrefix) : Prop :=
  p.r < 8 ∧ (p.r ≠ 0 → ∃ init last, p.payload = init ++ [last] ∧ last.toNat % 2 ^ (8 - p.r) = 0)

def bitLen (p : BitPrefix) : Nat :=
  if p.r = 0 then 8 * p.payload.length else 8 * (p.payload.length - 1) + p.r

/-- 0.5.12: `bitstr.New(s, 0, bitLen)` -/
def bitstrEnc (p : BitPrefix) : Bytes := p.payload ++ [UInt8.ofNat (maskNat p.r)]

/-- 0.5.10 / 0.5.11: control byte, payload, a single 1 bit after the last payload bit -/
def ctrlEnc (p : BitPrefix) : Bytes :=
  if p.r = 0 then 0 :: p.payload
  else 1 :: (p.payload.dropLast ++ [UInt8.ofNat ((p.payload.getLast?.getD 0).toNat ||| 2 ^ (7 - p.r))])

theorem bitstrEnc_length (p : BitPrefix) : p.bitstrEnc.length = p.payload.length + 1 := by
  simp [bitstrEnc]

theorem ctrlEnc_length (p : BitPrefix) (hv : p.Valid) : p.ctrlEnc.length = p.payload.length + 1 := by
  unfold ctrlEnc
  split
  · simp
  · next h =>
    obtain ⟨init, last, hp, _⟩ := hv.2 h
    simp [hp]

end BitPrefix

/-! ### finite facts about one byte -/

set_option maxRecDepth 100000 in
theorem tz_marker : ∀ r : Fin 8, ∀ b : Fin 256, r.val ≠ 0 → b.val % 2 ^ (8 - r.val) = 0 →
    trailingZeros8 (UInt8.ofNat (b.val ||| 2 ^ (7 - r.val))) = 7 - r.val := by decide

set_option maxRecDepth 100000 in
theorem and_marker : ∀ r : Fin 8, ∀ b : Fin 256, r.val ≠ 0 → b.val % 2 ^ (8 - r.val) = 0 →
    (UInt8.ofNat (b.val ||| 2 ^ (7 - r.val))).toNat &&& ((0xff <<< (8 - r.val)) % 256) = b.val := by
  decide

set_option maxRecDepth 100000 in
theorem and_ff : ∀ b : Fin 256, b.val &&& 0xff = b.val := by decide

theorem ofNat_toNat (b : UInt8) : UInt8.ofNat b.toNat = b := by
  cases b; simp [UInt8.ofNat, UInt8.toNat]

/-! ### `bitstr.New(s, 0, bitLen)` on the payload -/

theorem dropLast_append_getLast (l : Bytes) (h : l ≠ []) :
    l.dropLast ++ [UInt8.ofNat (l.getLast?.getD 0).toNat] = l := by
  obtain ⟨init, last, rfl⟩ : ∃ init last, l = init ++ [last] := by
    induction l with
    | nil => exact absurd rfl h
    | cons a t ih =>
      cases t with
      | nil => exact ⟨[], a, rfl⟩
      | cons b t' =>
        obtain ⟨i, l, hl⟩ := ih (by simp)
        exact ⟨a :: i, l, by rw [hl]; rfl⟩
  simp

/-- whole bytes -/
theorem bitstrNew0_whole (s : Bytes) :
    bitstrNew0 s (s.length * 8) = .ok (s ++ [0xff]) := by
  unfold bitstrNew0
  by_cases h0 : s.length * 8 = 0
  · have : s = [] := List.length_eq_zero_iff.mp (by omega)
    subst this; rfl
  · rw [if_neg h0]
    have hs : s ≠ [] := fun h => by subst h; simp at h0
    have htb : (s.length * 8 + 7) / 8 = s.length := by omega
    have hr : s.length * 8 % 8 = 0 := by omega
    simp only [htb, hr, Nat.lt_irrefl, if_false, if_true, List.take_length]
    have hand : (s.getLast?.getD 0).toNat &&& 255 = (s.getLast?.getD 0).toNat :=
      and_ff ⟨_, (s.getLast?.getD 0).toNat_lt⟩
    rw [hand]
    have := dropLast_append_getLast s hs
    calc Except.ok (s.dropLast ++ [UInt8.ofNat (s.getLast?.getD 0).toNat, UInt8.ofNat 255])
        = Except.ok ((s.dropLast ++ [UInt8.ofNat (s.getLast?.getD 0).toNat]) ++ [UInt8.ofNat 255]) := by
          simp
      _ = Except.ok (s ++ [0xff]) := by rw [this]; rfl

/-- a partial last byte carrying the marker bit -/
theorem bitstrNew0_partial (init : Bytes) (last : UInt8) (r : Nat) (hr : r < 8) (hr0 : r ≠ 0)
    (hz : last.toNat % 2 ^ (8 - r) = 0) :
    bitstrNew0 (init ++ [UInt8.ofNat (last.toNat ||| 2 ^ (7 - r))]) (init.length * 8 + r)
      = .ok (init ++ [last] ++ [UInt8.ofNat ((0xff <<< (8 - r)) % 256)]) := by
  unfold bitstrNew0
  rw [if_neg (by omega)]
  have htb : (init.length * 8 + r + 7) / 8 = init.length + 1 := by omega
  have hrr : (init.length * 8 + r) % 8 = r := by omega
  have htake : (init ++ [UInt8.ofNat (last.toNat ||| 2 ^ (7 - r))]).take (init.length + 1)
      = init ++ [UInt8.ofNat (last.toNat ||| 2 ^ (7 - r))] := List.take_of_length_le (by simp)
  simp only [htb, hrr, List.length_append, List.length_singleton, Nat.lt_irrefl, if_false, hr0,
    htake, List.getLast?_append, List.getLast?_singleton, Option.some_or,
    Option.getD_some, List.dropLast_concat]
  have h := and_marker ⟨r, hr⟩ ⟨last.toNat, last.toNat_lt⟩ hr0 hz
  simp only at h
  rw [h, ofNat_toNat]
  simp

/-! ### one loader step -/

/-- the bit length the loader derives from the control byte and the last byte -/
def bitLenOf (old : Bytes) (c0 : UInt8) : Int :=
  if c0.toNat % 2 = 0 then ((old.length - 1) * 8 : Nat)
  else (((old.length - 1) * 8 : Nat) : Int) - trailingZeros8 (old.getLast?.getD 0) - 1

/-- the per-element body of `before000512InnerPrefixTobitstr`: bit length from the control byte
    and the trailing zeros of the last byte, then `bitstr.New(old[1:], 0, bitLen)` -/
def convertOne (old : Bytes) : Except Err Bytes :=
  match old.head? with
  | some c0 =>
    if bitLenOf old c0 < 0 then .error (.panic "negative bit length") else
    bitstrNew0 (old.drop 1) (bitLenOf old c0).toNat
  | none => .error (.panic "index out of range (old[0])")

/-- `C06_prefix_reencode`, element level: the loader's conversion of the control-byte form of any
    prefix is its bit-string form. -/
theorem convert_one (p : BitPrefix) (hv : p.Valid) : convertOne p.ctrlEnc = .ok p.bitstrEnc := by
  unfold convertOne bitLenOf BitPrefix.ctrlEnc BitPrefix.bitstrEnc
  by_cases h0 : p.r = 0
  · simp only [h0, if_true, List.head?_cons, List.length_cons, Nat.add_sub_cancel, List.drop_one,
      List.tail_cons]
    have : (0 : UInt8).toNat % 2 = 0 := by decide
    rw [if_pos this]
    have hnn : ¬ ((↑(p.payload.length * 8) : Int) < 0) := by omega
    rw [if_neg hnn, Int.toNat_natCast, bitstrNew0_whole]
    simp [maskNat]
  · obtain ⟨init, last, hp, hz⟩ := hv.2 h0
    simp only [h0, if_false, hp, List.dropLast_concat, List.getLast?_append, List.getLast?_singleton,
      Option.some_or, Option.getD_some, List.head?_cons, List.length_cons, List.length_append,
      List.length_singleton, List.length_nil, Nat.zero_add, Nat.add_sub_cancel, List.drop_one,
      List.tail_cons]
    have : ¬ ((1 : UInt8).toNat % 2 = 0) := by decide
    rw [if_neg this]
    have htz := tz_marker ⟨p.r, hv.1⟩ ⟨last.toNat, last.toNat_lt⟩ h0 hz
    simp only at htz
    have hg : (((1 : UInt8) :: (init ++ [UInt8.ofNat (last.toNat ||| 2 ^ (7 - p.r))])).getLast?.getD 0)
        = UInt8.ofNat (last.toNat ||| 2 ^ (7 - p.r)) := by
      simp [List.getLast?_cons]
    rw [hg, htz]
    have hr := hv.1
    have hbl : ((↑((init.length + 1) * 8) : Int) - ↑(7 - p.r) - 1) = ↑(init.length * 8 + p.r) := by omega
    rw [hbl]
    have hnn : ¬ ((↑(init.length * 8 + p.r) : Int) < 0) := by omega
    rw [if_neg hnn, Int.toNat_natCast, bitstrNew0_partial init last p.r hr h0 hz]
    simp [maskNat, h0]

theorem convert_one_length (p : BitPrefix) (hv : p.Valid) :
    p.bitstrEnc.length = p.ctrlEnc.length := by
  rw [p.bitstrEnc_length, p.ctrlEnc_length hv]

/-- the loop body in terms of `convertOne` -/
theorem go_succ (pbm : BitmapMsg) (fuel i : Nat) (bytes : Bytes) (frm to : Nat) (old new : Bytes)
    (hsel : select32R64 pbm i = .ok (frm, to))
    (hsl : Slim.sliceBytes bytes frm to = .ok old)
    (hc : convertOne old = .ok new) :
    innerPrefixTobitstr.go pbm (fuel + 1) i bytes =
      (if to = (copyInto bytes frm old.length new).length then .ok (copyInto bytes frm old.length new)
       else innerPrefixTobitstr.go pbm fuel (i + 1) (copyInto bytes frm old.length new)) := by
  rw [innerPrefixTobitstr.go.eq_2, hsel]
  simp only [bind, Except.bind, hsl]
  unfold convertOne at hc
  cases hh : old.head? with
  | none => rw [hh] at hc; cases hc
  | some c0 =>
    rw [hh] at hc
    simp only at hc ⊢
    change (if bitLenOf old c0 < 0 then _ else _) = _
    by_cases hneg : bitLenOf old c0 < 0
    · rw [if_pos hneg] at hc; cases hc
    · rw [if_neg hneg] at hc ⊢
      unfold bitLenOf at hc
      rw [hc]
      rfl

/-! ### the whole loop, in place -/

def sz (p : BitPrefix) : Nat := p.payload.length + 1

theorem flatten_length_ctrl (ps : List BitPrefix) (hv : ∀ p ∈ ps, p.Valid) :
    (ps.map BitPrefix.ctrlEnc).flatten.length = (ps.map sz).sum := by
  induction ps with
  | nil => rfl
  | cons p ps ih =>
    simp only [List.map_cons, List.flatten_cons, List.length_append, List.sum_cons]
    rw [ih (fun q hq => hv q (List.mem_cons_of_mem _ hq)), p.ctrlEnc_length (hv p List.mem_cons_self)]
    rfl

theorem flatten_length_bitstr (ps : List BitPrefix) :
    (ps.map BitPrefix.bitstrEnc).flatten.length = (ps.map sz).sum := by
  induction ps with
  | nil => rfl
  | cons p ps ih =>
    simp only [List.map_cons, List.flatten_cons, List.length_append, List.sum_cons]
    rw [ih, p.bitstrEnc_length]
    rfl

theorem sum_sz_pos (ps : List BitPrefix) (h : ps ≠ []) : 0 < (ps.map sz).sum := by
  cases ps with
  | nil => exact absurd rfl h
  | cons p ps => simp [sz]; omega

theorem sliceBytes_mid (A old C : Bytes) :
    Slim.sliceBytes (A ++ old ++ C) A.length (A.length + old.length) = .ok old := by
  unfold Slim.sliceBytes
  rw [if_pos ⟨by omega, by simp⟩, Nat.add_sub_cancel_left, List.append_assoc, List.drop_left,
    List.take_left]

theorem copyInto_mid (A old new C : Bytes) (h : new.length = old.length) :
    copyInto (A ++ old ++ C) A.length old.length new = A ++ new ++ C := by
  unfold copyInto
  have hmin : min old.length new.length = new.length := by omega
  simp only [hmin, List.take_length]
  rw [List.append_assoc A old C, List.take_left, ← List.append_assoc,
    List.drop_left' (by rw [List.length_append, h])]

/-- one loop iteration on an element in control-byte form that sits between `A` and `C` -/
theorem go_step_ctrl (pbm : BitmapMsg) (fuel i : Nat) (A C : Bytes) (p : BitPrefix) (hv : p.Valid)
    (hsel : select32R64 pbm i = .ok (A.length, A.length + sz p)) :
    innerPrefixTobitstr.go pbm (fuel + 1) i (A ++ p.ctrlEnc ++ C) =
      if C = [] then .ok (A ++ p.bitstrEnc)
      else innerPrefixTobitstr.go pbm fuel (i + 1) (A ++ p.bitstrEnc ++ C) := by
  have hlen : p.ctrlEnc.length = sz p := p.ctrlEnc_length hv
  rw [go_succ pbm fuel i _ _ _ p.ctrlEnc p.bitstrEnc hsel (by rw [← hlen]; exact sliceBytes_mid A _ C)
    (convert_one p hv), copyInto_mid A _ _ C (convert_one_length p hv)]
  by_cases hC : C = []
  · subst hC
    rw [if_pos rfl, if_pos]
    · simp
    · simp [p.bitstrEnc_length, sz]
  · rw [if_neg hC, if_neg]
    have : 0 < C.length := List.length_pos_iff.mpr hC
    simp only [List.length_append, p.bitstrEnc_length, sz]
    omega

theorem flatten_ctrl_ne_nil (q : BitPrefix) (rest : List BitPrefix) (hv : ∀ x ∈ q :: rest, x.Valid) :
    ((q :: rest).map BitPrefix.ctrlEnc).flatten ≠ [] := by
  intro h
  have h1 := flatten_length_ctrl (q :: rest) hv
  rw [h] at h1
  have := sum_sz_pos (q :: rest) (by simp)
  rw [← h1] at this
  exact absurd this (by simp)

/-- Loop invariant: `done` already converted, `p :: rest` still in control-byte form. -/
theorem go_spec (pbm : BitmapMsg) :
    ∀ (rest : List BitPrefix) (done : List BitPrefix) (p : BitPrefix) (fuel : Nat),
    (∀ q ∈ done ++ p :: rest, q.Valid) →
    rest.length < fuel →
    (∀ k, k < (p :: rest).length →
      select32R64 pbm (done.length + k)
        = .ok ((done.map sz).sum + (((p :: rest).take k).map sz).sum,
               (done.map sz).sum + (((p :: rest).take (k + 1)).map sz).sum)) →
    innerPrefixTobitstr.go pbm fuel done.length
        ((done.map BitPrefix.bitstrEnc).flatten ++ ((p :: rest).map BitPrefix.ctrlEnc).flatten)
      = .ok ((done ++ p :: rest).map BitPrefix.bitstrEnc).flatten := by
  intro rest
  induction rest with
  | nil =>
    intro done p fuel hv hf hsel
    obtain ⟨fuel, rfl⟩ : ∃ f, fuel = f + 1 := ⟨fuel - 1, by omega⟩
    have hvp : p.Valid := hv p (by simp)
    have h0 := hsel 0 (by simp)
    simp only [Nat.add_zero, List.take_zero, List.map_nil, List.sum_nil, Nat.zero_add,
      List.take_succ_cons, List.map_cons, List.sum_cons] at h0
    rw [← flatten_length_bitstr done] at h0
    have hb : (done.map BitPrefix.bitstrEnc).flatten ++ ([p].map BitPrefix.ctrlEnc).flatten
        = (done.map BitPrefix.bitstrEnc).flatten ++ p.ctrlEnc ++ [] := by simp
    rw [hb, go_step_ctrl pbm fuel done.length _ [] p hvp h0, if_pos rfl]
    simp
  | cons q rest ih =>
    intro done p fuel hv hf hsel
    obtain ⟨fuel, rfl⟩ : ∃ f, fuel = f + 1 := ⟨fuel - 1, by simp at hf; omega⟩
    have hvp : p.Valid := hv p (by simp)
    have h0 := hsel 0 (by simp)
    simp only [Nat.add_zero, List.take_zero, List.map_nil, List.sum_nil, Nat.zero_add,
      List.take_succ_cons, List.map_cons, List.sum_cons] at h0
    rw [← flatten_length_bitstr done] at h0
    have hvq : ∀ x ∈ q :: rest, x.Valid := fun x hx => hv x (by
      simp only [List.mem_append, List.mem_cons] at hx ⊢; rcases hx with h | h <;> simp [h])
    have hb : (done.map BitPrefix.bitstrEnc).flatten ++ ((p :: q :: rest).map BitPrefix.ctrlEnc).flatten
        = (done.map BitPrefix.bitstrEnc).flatten ++ p.ctrlEnc ++ ((q :: rest).map BitPrefix.ctrlEnc).flatten := by
      simp
    rw [hb, go_step_ctrl pbm fuel done.length _ _ p hvp h0, if_neg (flatten_ctrl_ne_nil q rest hvq)]
    have hd : done.length + 1 = (done ++ [p]).length := by simp
    have hb2 : (done.map BitPrefix.bitstrEnc).flatten ++ p.bitstrEnc ++ ((q :: rest).map BitPrefix.ctrlEnc).flatten
        = ((done ++ [p]).map BitPrefix.bitstrEnc).flatten ++ ((q :: rest).map BitPrefix.ctrlEnc).flatten := by
      simp
    rw [hd, hb2, ih (done ++ [p]) q fuel]
    · simp
    · intro x hx; apply hv
      simp only [List.mem_append, List.mem_cons, List.mem_singleton, List.not_mem_nil, or_false] at hx ⊢
      rcases hx with (h | h) | h | h <;> simp [h]
    · simp at hf; omega
    · intro k hk
      have := hsel (k + 1) (by simp at hk ⊢; omega)
      simp only [List.take_succ_cons, List.map_cons, List.sum_cons] at this
      rw [show (done ++ [p]).length + k = done.length + (k + 1) by simp; omega, this]
      simp only [List.map_append, List.sum_append, List.map_cons, List.map_nil, List.sum_cons,
        List.sum_nil, Nat.add_zero, List.take_succ_cons]
      congr 2 <;> omega

/-- The element boundaries `select32R64` must return on the position bitmap. -/
def SelectsBoundaries (pbm : BitmapMsg) (sizes : List Nat) : Prop :=
  ∀ k, k < sizes.length → select32R64 pbm k = .ok ((sizes.take k).sum, (sizes.take (k + 1)).sum)

/-- `C06_prefix_reencode`, whole message: `before000512InnerPrefixTobitstr` rewrites the byte
    array of any list of control-byte prefixes into the concatenation of their bit-string forms —
    same length, every element at its old offset; nothing else in the message changes. -/
theorem innerPrefixTobitstr_spec (s : SlimMsg) (ips : VLenArrayMsg) (pbm : BitmapMsg)
    (ps : List BitPrefix)
    (hips : s.innerPrefixes = some ips) (hpbm : ips.positionBM = some pbm)
    (hbytes : ips.bytes = (ps.map BitPrefix.ctrlEnc).flatten)
    (hv : ∀ p ∈ ps, p.Valid)
    (hsel : SelectsBoundaries pbm (ps.map sz)) :
    innerPrefixTobitstr s
      = .ok { s with innerPrefixes := some { ips with bytes := (ps.map BitPrefix.bitstrEnc).flatten } } := by
  unfold innerPrefixTobitstr
  simp only [hips, hpbm, bind, Except.bind, pure, Except.pure]
  cases ps with
  | nil =>
    simp only [List.map_nil, List.flatten_nil] at hbytes ⊢
    rw [hbytes]
    simp only [List.isEmpty_nil, if_true]
    cases s
    cases ips
    simp only at hips hpbm hbytes
    subst hips hpbm hbytes
    rfl
  | cons p rest =>
    have hne : ips.bytes.isEmpty = false := by
      rw [hbytes, List.isEmpty_eq_false_iff]
      exact flatten_ctrl_ne_nil p rest hv
    rw [hne]
    simp only [Bool.false_eq_true, if_false]
    have hfuel : rest.length < ips.bytes.length + 1 := by
      rw [hbytes, flatten_length_ctrl (p :: rest) hv]
      have : rest.length ≤ (rest.map sz).sum := by
        clear hsel hv hbytes hne
        induction rest with
        | nil => simp
        | cons a t ih => simp [sz] at ih ⊢; omega
      simp; omega
    have := go_spec pbm rest [] p (ips.bytes.length + 1) (by simpa using hv) hfuel (by
      intro k hk
      have := hsel k (by simpa using hk)
      simpa [List.map_take] using this)
    simp only [List.map_nil, List.flatten_nil, List.nil_append, List.length_nil] at this
    rw [hbytes] at this ⊢
    rw [this]

/-! ### the position bitmap the writers wrote -/

/-- The position bitmap of today's builder (`newBM (stepToPos sizes) 0 "s32"`) returns the
    element boundaries when every element is non-empty. -/
theorem select_positions_new (sizes : List Nat) (hpos : ∀ s ∈ sizes, 0 < s) :
    SelectsBoundaries (newBM (Slim.stepToPos sizes) 0 "s32") sizes :=
  fun k hk => select32R64_positions_pos sizes hpos k hk

/-! ### ties to the builder's and the writer's encodings -/

/-- the byte-level prefix of a non-empty half-byte string -/
def ofNibs (ns : List Nat) : BitPrefix := { payload := unnibs ns, r := if ns.length % 2 = 0 then 0 else 4 }

theorem unnibs_length (ns : List Nat) : (unnibs ns).length = (ns.length + 1) / 2 := by
  induction ns using unnibs.induct with
  | case1 => rfl
  | case2 h => simp [unnibs]
  | case3 h l rest ih => simp only [unnibs, List.length_cons, ih]; omega

theorem unnibs_odd_last (ns : List Nat) (hodd : ns.length % 2 = 1) (hlt : ∀ n ∈ ns, n < 16) :
    ∃ init last, unnibs ns = init ++ [last] ∧ last.toNat % 2 ^ (8 - 4) = 0 := by
  induction ns using unnibs.induct with
  | case1 => simp at hodd
  | case2 h =>
    refine ⟨[], UInt8.ofNat (h * 16), rfl, ?_⟩
    have : h < 16 := hlt h (by simp)
    simp only [UInt8.toNat_ofNat']
    omega
  | case3 h l rest ih =>
    obtain ⟨init, last, h1, h2⟩ := ih (by simp at hodd; omega)
      (fun n hn => hlt n (by simp [hn]))
    exact ⟨UInt8.ofNat (h * 16 + l) :: init, last, by simp [unnibs, h1], h2⟩

theorem ofNibs_valid (ns : List Nat) (hlt : ∀ n ∈ ns, n < 16) : (ofNibs ns).Valid := by
  unfold ofNibs BitPrefix.Valid
  by_cases h : ns.length % 2 = 0
  · simp [h]
  · simp only [h, if_false]
    exact ⟨by omega, fun _ => unnibs_odd_last ns (by omega) hlt⟩

/-- `Slim.bitstrOf` (what today's builder stores, `bitstr.New` of a half-byte aligned prefix) is
    the bit-string form of `ofNibs`. -/
theorem bitstrOf_eq_bitstrEnc (ns : List Nat) : Slim.bitstrOf ns = (ofNibs ns).bitstrEnc := by
  unfold Slim.bitstrOf ofNibs BitPrefix.bitstrEnc maskNat
  by_cases h : ns.length % 2 = 0
  · simp [h]
  · simp only [h, if_false]
    rfl

theorem ofNibs_bitLen (ns : List Nat) : (ofNibs ns).bitLen = 4 * ns.length := by
  unfold ofNibs BitPrefix.bitLen
  by_cases h : ns.length % 2 = 0
  · simp only [h, if_true, unnibs_length]; omega
  · simp only [h, if_false, unnibs_length]
    rw [if_neg (by omega)]; omega

end Legacy

/-! ### the model's writer produces `ctrlEnc` -/

namespace Legacy

set_option maxRecDepth 100000 in
theorem leadingOnes_mask : ∀ r : Fin 8, r.val ≠ 0 →
    LegacyWrite.leadingOnes (UInt8.ofNat ((0xff <<< (8 - r.val)) % 256)) = r.val ∧
    UInt8.ofNat ((0xff <<< (8 - r.val)) % 256) ≠ 0xff := by decide

set_option maxRecDepth 100000 in
theorem and_mask : ∀ r : Fin 8, ∀ b : Fin 256, r.val ≠ 0 → b.val % 2 ^ (8 - r.val) = 0 →
    b.val &&& (UInt8.ofNat ((0xff <<< (8 - r.val)) % 256)).toNat = b.val := by decide

/-- `LegacyWrite.ctrlOfBitstr` (the 0.5.10 writer's rewriting of what today's builder stores) is
    `ctrlEnc`: with `convert_one`, loading what the writer wrote gives back the builder's bytes. -/
theorem ctrlOfBitstr_bitstrEnc (p : BitPrefix) (hv : p.Valid) :
    LegacyWrite.ctrlOfBitstr p.bitstrEnc = p.ctrlEnc := by
  unfold LegacyWrite.ctrlOfBitstr BitPrefix.bitstrEnc BitPrefix.ctrlEnc
  simp only [List.getLast?_append, List.getLast?_singleton, Option.some_or, List.dropLast_concat]
  by_cases h0 : p.r = 0
  · simp [h0, maskNat]
  · obtain ⟨init, last, hp, hz⟩ := hv.2 h0
    obtain ⟨hlo, hne⟩ := leadingOnes_mask ⟨p.r, hv.1⟩ h0
    have hand := and_mask ⟨p.r, hv.1⟩ ⟨last.toNat, last.toNat_lt⟩ h0 hz
    simp only at hlo hne hand
    have hm : maskNat p.r = (0xff <<< (8 - p.r)) % 256 := by simp [maskNat, h0]
    rw [hm, if_neg hne, if_neg h0, hp]
    simp only [List.getLast?_append, List.getLast?_singleton, Option.some_or, List.dropLast_concat,
      Option.getD_some, hlo, hand, Nat.one_shiftLeft]

theorem convertOne_ctrlOfBitstr (p : BitPrefix) (hv : p.Valid) :
    convertOne (LegacyWrite.ctrlOfBitstr p.bitstrEnc) = .ok p.bitstrEnc := by
  rw [ctrlOfBitstr_bitstrEnc p hv, convert_one p hv]

end Legacy
