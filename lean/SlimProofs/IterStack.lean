import SlimProofs.IterLemmas
/-
  SlimProofs.IterStack — the iterator state machine of trie/slimtrie_scan.go on a well-formed
  Complete record array: key reassembly and DFS stepping.

  * half-bytes of buffers: `nibs_append`, `nibs_take`, `nibs_unnibs_take`, `BufAgree buf k w`
    ("the first `w` half-bytes of `buf` exist and are those of `k`")
  * `mkElt r fb ws c`   the stack element of an inner record with the cursor on label `c`;
    `update_some/none`, `init_some`, `init_none` (`scanStackElt.init` on Complete records)
  * `appendLabel_spec` (4-bit label into the low half of the last byte or into a fresh byte, 8-bit
    label into a fresh byte, end-of-key label: nothing), `appendInnerPrefix_spec` (stored prefix
    from the byte containing `fb`), `appendLeafPrefix_spec` (the buffer becomes the leaf's key);
    every `reslice` is within the buffer
  * `Chain stack nxt`   the stack is the chain of inner nodes from the root, cursors on the chain
  * `descend_spec`      one `next()` walks to the leaf of the smallest kept key below the cursor
                        and yields exactly that key (and `valOf` of it)
  * `advance_spec`, `ready_of_advance`   after the leaf of kept key `m` the stack is exhausted iff
                        no kept key follows, else the cursor designates the next kept key
  * `Ready`, `iterNext_ready`, `kfrom`, `expect`, `iterTake_ready`   any number of `next()` calls
  * `buildStack_spec`   the prologue of `newIter` rebuilds chain and key prefix along a path
-/

namespace IterStack
open Subtree SearchDescent RangeDropped Exact Scan IterLemmas

/-! ### half-bytes of buffers -/

theorem nibs_append (a b : Bytes) : nibs (a ++ b) = nibs a ++ nibs b := by
  induction a with
  | nil => rfl
  | cons x xs ih => simp only [List.cons_append, nibs, ih]

theorem nibs_take (a : Bytes) (h : Nat) : nibs (a.take h) = (nibs a).take (2 * h) := by
  induction h generalizing a with
  | zero => simp [nibs]
  | succ h ih =>
    cases a with
    | nil => simp [nibs]
    | cons x xs =>
      have : 2 * (h + 1) = 2 * h + 1 + 1 := by omega
      rw [this]
      simp only [List.take_succ_cons, nibs, ih]

theorem nibs_byte (x : Nat) (hx : x < 256) : nibs [UInt8.ofNat x] = [x / 16, x % 16] := by
  simp only [nibs, UInt8.toNat_ofNat']
  have : x % 2 ^ 8 = x := Nat.mod_eq_of_lt (by omega)
  rw [this]

theorem nibs_unnibs_take : ∀ ns : List Nat, (∀ x ∈ ns, x < 16) →
    (nibs (unnibs ns)).take ns.length = ns
  | [], _ => rfl
  | [h], h16 => by
    have hh : h < 16 := h16 h (by simp)
    rw [unnibs, nibs_byte _ (by omega)]
    simp only [List.length_singleton, List.take_succ_cons, List.take_zero]
    congr 1; omega
  | h :: l :: rest, h16 => by
    have hh : h < 16 := h16 h (by simp)
    have hl : l < 16 := h16 l (by simp)
    have ih := nibs_unnibs_take rest (fun x hx => h16 x (by simp [hx]))
    rw [unnibs]
    have : nibs (UInt8.ofNat (h * 16 + l) :: unnibs rest)
        = nibs [UInt8.ofNat (h * 16 + l)] ++ nibs (unnibs rest) := by
      rw [← nibs_append]; rfl
    rw [this, nibs_byte _ (by omega)]
    simp only [List.length_cons, List.cons_append, List.nil_append, List.take_succ_cons, ih]
    congr 1
    · omega
    · congr 1; omega

theorem unnibs_length : ∀ ns : List Nat, ns.length ≤ 2 * (unnibs ns).length
  | [] => by simp [unnibs]
  | [h] => by simp [unnibs]
  | h :: l :: rest => by
    have := unnibs_length rest
    simp only [unnibs, List.length_cons]; omega

/-- the first `w` half-bytes of the buffer exist and are those of `k` -/
def BufAgree (buf : Bytes) (k : List Nat) (w : Nat) : Prop :=
  w ≤ 2 * buf.length ∧ (nibs buf).take w = k.take w

theorem BufAgree.mono {buf : Bytes} {k : List Nat} {w w' : Nat} (h : BufAgree buf k w)
    (hw : w' ≤ w) : BufAgree buf k w' := by
  refine ⟨by have := h.1; omega, ?_⟩
  have := congrArg (List.take w') h.2
  simpa [List.take_take, Nat.min_eq_left hw] using this

theorem BufAgree.congr {buf : Bytes} {k k' : List Nat} {w : Nat} (h : BufAgree buf k w)
    (hk : k.take w = k'.take w) : BufAgree buf k' w := ⟨h.1, h.2.trans hk⟩

/-- a buffer that agrees with a key on the first `fb` half-bytes has the key's first `fb / 2`
    bytes -/
theorem take_bytes_of_agree (buf key : Bytes) (fb : Nat) (h : BufAgree buf (nibs key) fb) :
    buf.take (fb / 2) = key.take (fb / 2) := by
  apply nibs_injective
  rw [nibs_take, nibs_take]
  have := congrArg (List.take (2 * (fb / 2))) h.2
  simpa [List.take_take, Nat.min_eq_left (by omega : 2 * (fb / 2) ≤ fb)] using this

/-! ### stack elements -/

/-- the stack element of an inner record `r` reached at position `fb`, branching at `ws`, with
    the label cursor at `c` -/
def mkElt (r : InnerRec) (fb ws c : Nat) : Elt :=
  { firstChild := r.firstChild, ithLabel := c, labels := r.labels, big := r.big
    prefixStart := fb, prefixEnd := ws
    labelEnd := ws + labelLen (r.labels.getD c 0) r.big
    width := labelLen (r.labels.getD c 0) r.big
    label := r.labels.getD c 0 - 1 }

theorem update_some (e : Elt) (r : InnerRec) (fb ws c : Nat) (hc : c < r.labels.length)
    (h1 : e.firstChild = r.firstChild) (h2 : e.ithLabel = c) (h3 : e.labels = r.labels)
    (h4 : e.big = r.big) (h5 : e.prefixStart = fb) (h6 : e.prefixEnd = ws) :
    e.update = some (mkElt r fb ws c) := by
  obtain ⟨fc, il, ls, bg, ps, pe, le, wd, lb⟩ := e
  simp only at h1 h2 h3 h4 h5 h6
  subst h1 h2 h3 h4 h5 h6
  unfold Elt.update mkElt
  simp only [List.getElem?_eq_getElem hc, List.getD_eq_getElem?_getD, Option.getD_some]
  cases hl : r.labels[il] with
  | zero => simp [labelLen]
  | succ b =>
    cases hb : r.big <;> simp [labelLen]

theorem update_none (e : Elt) (h : e.labels.length ≤ e.ithLabel) : e.update = none := by
  unfold Elt.update
  rw [List.getElem?_eq_none h]

theorem prefLen_prefOf (opt : Opt) (hin : opt.inner = true) (ks : List Nat) (fb ws : Nat)
    (hfb : fb ≤ ws) (hks : ws ≤ ks.length) :
    (prefOf opt ks fb ws = Pref.none ∧ ws = fb) ∨
    (∃ p, prefOf opt ks fb ws = Pref.stored p ∧ p = storedPrefix ks fb ws ∧
      fb - fb % 2 + p.length = ws ∧ fb < ws) := by
  by_cases h0 : ws - fb = 0
  · left
    exact ⟨by unfold prefOf; rw [if_pos h0], by omega⟩
  · right
    refine ⟨_, by unfold prefOf; rw [if_neg h0, if_pos hin], rfl, ?_, by omega⟩
    simp only [storedPrefix, List.length_drop, List.length_take]
    omega

/-- `scanStackElt.init` on a Complete record, cursor on a given child (`buildStack`) -/
theorem init_some (opt : Opt) (hin : opt.inner = true) (r : InnerRec) (ks : List Nat)
    (fb ws c : Nat) (hfb : fb ≤ ws) (hks : ws ≤ ks.length) (hpref : r.pref = prefOf opt ks fb ws)
    (hc : c < r.labels.length) :
    Elt.init r (some (r.firstChild + c)) fb = .ok (mkElt r fb ws c) := by
  have hupd : ∀ pe il, pe = ws → il = c →
      ({ firstChild := r.firstChild, ithLabel := il, labels := r.labels, big := r.big,
         prefixStart := fb, prefixEnd := pe } : Elt).update = some (mkElt r fb ws c) :=
    fun pe il hpe hil => update_some _ r fb ws c hc rfl hil rfl rfl rfl hpe
  unfold Elt.init
  rw [hpref]
  simp only []
  rw [if_neg (by omega)]
  rcases prefLen_prefOf opt hin ks fb ws hfb hks with ⟨h1, h2⟩ | ⟨p, h1, _, h3, _⟩
  · rw [h1]
    simp only [prefLen]
    rw [hupd fb _ h2.symm (by omega)]
  · rw [h1]
    simp only [prefLen]
    rw [hupd _ _ h3 (by omega)]

/-- `scanStackElt.init` on a Complete record, cursor on the first child (`next`) -/
theorem init_none (opt : Opt) (hin : opt.inner = true) (r : InnerRec) (ks : List Nat)
    (fb ws : Nat) (hfb : fb ≤ ws) (hks : ws ≤ ks.length) (hpref : r.pref = prefOf opt ks fb ws)
    (hc : 0 < r.labels.length) :
    Elt.init r none fb = .ok (mkElt r fb ws 0) := by
  have hupd : ∀ pe il, pe = ws → il = 0 →
      ({ firstChild := r.firstChild, ithLabel := il, labels := r.labels, big := r.big,
         prefixStart := fb, prefixEnd := pe } : Elt).update = some (mkElt r fb ws 0) :=
    fun pe il hpe hil => update_some _ r fb ws 0 hc rfl hil rfl rfl rfl hpe
  unfold Elt.init
  rw [hpref]
  simp only []
  rw [if_neg (by omega)]
  rcases prefLen_prefOf opt hin ks fb ws hfb hks with ⟨h1, h2⟩ | ⟨p, h1, _, h3, _⟩
  · rw [h1]
    simp only [prefLen]
    rw [hupd fb (Int.toNat 0) h2.symm rfl]
  · rw [h1]
    simp only [prefLen]
    rw [hupd _ (Int.toNat 0) h3 rfl]

/-! ### `appendLabel` -/

theorem take_len_append {α : Type} (x y : List α) (w j : Nat) (hx : x.length = w) :
    (x ++ y).take (w + j) = x ++ y.take j := by
  rw [List.take_append, List.take_of_length_le (by omega), hx]
  congr 2; omega

theorem take_succ_getElem (k : List Nat) (i : Nat) (h : i < k.length) :
    k.take (i + 1) = k.take i ++ [k[i]] := by
  rw [List.take_add_one, List.getElem?_eq_getElem h]; rfl

theorem reslice_ok (buf : Bytes) (l : Nat) (h : l ≤ buf.length) :
    reslice buf l = .ok (buf.take l) := by
  unfold reslice; rw [if_pos h]

/-- resliced to the bytes that contain the first `ws` half-bytes -/
theorem reslice_agree (buf : Bytes) (k : List Nat) (ws : Nat) (h : BufAgree buf k ws) :
    reslice buf ((ws + 1) / 2) = .ok (buf.take ((ws + 1) / 2)) ∧
    (buf.take ((ws + 1) / 2)).length = (ws + 1) / 2 ∧
    (nibs (buf.take ((ws + 1) / 2))).take ws = k.take ws := by
  obtain ⟨hlen, hnib⟩ := h
  have hl : (ws + 1) / 2 ≤ buf.length := by omega
  refine ⟨by unfold reslice; rw [if_pos hl], by rw [List.length_take]; omega, ?_⟩
  rw [nibs_take, List.take_take, Nat.min_eq_left (by omega)]
  exact hnib

theorem appendLabel_spec (r : InnerRec) (fb ws c : Nat) (hc : c < r.labels.length)
    (buf : Bytes) (k : List Nat) (hk16 : ∀ x ∈ k, x < 16) (hke : k.length % 2 = 0)
    (hbw : r.big = true → ws % 2 = 0)
    (hlab : labelAt k ws r.big = r.labels[c]) (hbuf : BufAgree buf k ws) :
    ∃ buf', appendLabel (mkElt r fb ws c) buf = .ok buf' ∧
      BufAgree buf' k (ws + labelLen r.labels[c] r.big) := by
  obtain ⟨hres, hb1len, hb1nib⟩ := reslice_agree buf k ws hbuf
  generalize buf.take ((ws + 1) / 2) = buf1 at hres hb1len hb1nib
  have hgetD : r.labels.getD c 0 = r.labels[c] := by
    rw [List.getD_eq_getElem?_getD, List.getElem?_eq_getElem hc]; rfl
  unfold appendLabel
  simp only [mkElt, hgetD, hres, bind, Except.bind, pure, Except.pure]
  rw [← hlab]
  unfold labelAt at hlab ⊢
  cases hkw : k[ws]? with
  | none =>
    -- the key ends at `ws`: label 0, nothing is appended
    simp only [labelLen, if_true]
    refine ⟨buf1, rfl, by omega, ?_⟩
    simpa using hb1nib
  | some a =>
    have hwlt : ws < k.length := (List.getElem?_eq_some_iff.mp hkw).1
    have hka : k[ws] = a := (List.getElem?_eq_some_iff.mp hkw).2
    have ha16 : a < 16 := hk16 a (hka ▸ List.getElem_mem hwlt)
    cases hbig : r.big with
    | false =>
      have hne : (1 + a = 0) = False := by simp
      simp only [labelLen, hne, if_false, if_true, Bool.false_eq_true, Nat.add_sub_cancel_left]
      by_cases hodd : ws % 2 = 0
      · -- a fresh byte
        have hne2 : ¬ ws % 2 ≠ 0 := by omega
        rw [if_neg hne2]
        refine ⟨_, rfl, by simp only [List.length_append, List.length_singleton]; omega, ?_⟩
        have hfull : nibs buf1 = k.take ws := by
          have : (nibs buf1).length = ws := by rw [nibs_length]; omega
          rw [← hb1nib, List.take_of_length_le (by omega)]
        rw [nibs_append, nibs_byte _ (by omega), hfull,
          take_len_append _ _ ws 1 (by rw [List.length_take]; omega),
          take_succ_getElem k ws hwlt, hka]
        simp only [List.take_succ_cons, List.take_zero]
        congr 2; omega
      · -- the low half of the last byte
        rw [if_pos hodd]
        have hne1 : buf1 ≠ [] := by
          intro h; rw [h] at hb1len; simp at hb1len; omega
        obtain ⟨cb, hcb⟩ : ∃ cb, buf1.getLast? = some cb := by
          cases hg : buf1.getLast? with
          | none => exact absurd (List.getLast?_eq_none_iff.mp hg) hne1
          | some cb => exact ⟨cb, rfl⟩
        obtain ⟨ys, hys⟩ := List.getLast?_eq_some_iff.mp hcb
        rw [hcb]
        simp only []
        have hdl : buf1.dropLast = ys := by rw [hys]; simp
        rw [hdl]
        have hyl : ys.length = (ws + 1) / 2 - 1 := by
          rw [hys] at hb1len; simp at hb1len; omega
        have hcbl := cb.toNat_lt
        have hx : cb.toNat - cb.toNat % (15 + 1) + a % (15 + 1) < 256 := by omega
        refine ⟨_, rfl, by simp only [List.length_append, List.length_singleton]; omega, ?_⟩
        have hnys : (nibs ys).length = ws - 1 := by rw [nibs_length]; omega
        have h1 : k.take ws = nibs ys ++ [cb.toNat / 16] := by
          rw [← hb1nib, hys, nibs_append]
          have : ws = (ws - 1) + 1 := by omega
          rw [this, take_len_append _ _ (ws - 1) 1 hnys]
          simp [nibs]
        rw [nibs_append, nibs_byte _ hx]
        have : ws + 1 = (ws - 1) + 2 := by omega
        rw [this, take_len_append _ _ (ws - 1) 2 hnys]
        have : (ws - 1) + 2 = ws + 1 := by omega
        rw [this, take_succ_getElem k ws hwlt, hka, h1]
        simp only [List.take_succ_cons, List.take_zero, List.append_assoc, List.cons_append,
          List.nil_append]
        have hq : cb.toNat - cb.toNat % (15 + 1) = 16 * (cb.toNat / 16) := by omega
        have ham : a % (15 + 1) = a := Nat.mod_eq_of_lt (by omega)
        rw [hq, ham]
        have e1 : (16 * (cb.toNat / 16) + a) / 16 = cb.toNat / 16 := by omega
        have e2 : (16 * (cb.toNat / 16) + a) % 16 = a := by omega
        rw [e1, e2]
    | true =>
      have hev := hbw hbig
      have hw1 : ws + 1 < k.length := by omega
      have ha1 : k.getD (ws + 1) 0 = k[ws + 1] := by
        rw [List.getD_eq_getElem?_getD, List.getElem?_eq_getElem hw1]; rfl
      have ha116 : k[ws + 1] < 16 := hk16 _ (List.getElem_mem hw1)
      have hne : (1 + (a * 16 + k.getD (ws + 1) 0) = 0) = False := by simp
      have hne2 : ¬ ws % 2 ≠ 0 := by omega
      simp only [labelLen, hne, if_false, if_true, Nat.add_sub_cancel_left]
      rw [if_neg hne2]
      have h21 : ((2 : Nat) = 1) = False := by simp
      simp only [h21, if_false]
      refine ⟨_, rfl, by simp only [List.length_append, List.length_singleton]; omega, ?_⟩
      have hfull : nibs buf1 = k.take ws := by
        have : (nibs buf1).length = ws := by rw [nibs_length]; omega
        rw [← hb1nib, List.take_of_length_le (by omega)]
      have hx : (a * 16 + k.getD (ws + 1) 0) % 256 < 256 := Nat.mod_lt _ (by omega)
      rw [nibs_append, nibs_byte _ hx, hfull,
        take_len_append _ _ ws 2 (by rw [List.length_take]; omega)]
      have : ws + 2 = ws + 1 + 1 := rfl
      rw [this, take_succ_getElem k (ws + 1) hw1, take_succ_getElem k ws hwlt, hka, ha1]
      simp only [List.take_succ_cons, List.take_zero, List.append_assoc, List.cons_append,
        List.nil_append]
      congr 3
      · omega
      · congr 1; omega

/-! ### `appendInnerPrefix`, `appendLeafPrefix` -/

theorem appendInnerPrefix_spec (opt : Opt) (hin : opt.inner = true) (r : InnerRec)
    (ks : List Nat) (fb ws c : Nat) (hfb : fb ≤ ws) (hks : ws ≤ ks.length)
    (hk16 : ∀ x ∈ ks, x < 16) (buf : Bytes) (hbuf : BufAgree buf ks fb) :
    ∃ buf', appendInnerPrefix (mkElt r fb ws c) buf (prefOf opt ks fb ws) = .ok buf' ∧
      BufAgree buf' ks ws := by
  rcases prefLen_prefOf opt hin ks fb ws hfb hks with ⟨h1, h2⟩ | ⟨p, h1, hp, h3, _⟩
  · rw [h1, h2]
    exact ⟨buf, rfl, hbuf⟩
  · rw [h1]
    obtain ⟨hlen, hnib⟩ := hbuf
    have hl : fb / 2 ≤ buf.length := by omega
    unfold appendInnerPrefix
    simp only [mkElt, reslice_ok _ _ hl, bind, Except.bind, pure, Except.pure]
    refine ⟨_, rfl, ?_, ?_⟩
    · have := unnibs_length p
      simp only [List.length_append, List.length_take]
      omega
    · have hp16 : ∀ x ∈ p, x < 16 := by
        intro x hx
        rw [hp] at hx
        exact hk16 x (List.mem_of_mem_take (List.mem_of_mem_drop hx))
      have hf : fb - fb % 2 = 2 * (fb / 2) := by omega
      have hx : (nibs (buf.take (fb / 2))) = ks.take (fb - fb % 2) := by
        rw [nibs_take, ← hf]
        have := congrArg (List.take (fb - fb % 2)) hnib
        simpa [List.take_take, Nat.min_eq_left (by omega : fb - fb % 2 ≤ fb)] using this
      have hxl : (nibs (buf.take (fb / 2))).length = fb - fb % 2 := by
        rw [hx, List.length_take]; omega
      rw [nibs_append]
      have hws : ws = (fb - fb % 2) + p.length := by omega
      rw [hws, take_len_append _ _ _ _ hxl, nibs_unnibs_take p hp16, hx, ← hws, hp]
      unfold storedPrefix
      have : ks.take (fb - fb % 2) = (ks.take ws).take (fb - fb % 2) := by
        rw [List.take_take, Nat.min_eq_left (by omega)]
      rw [this, List.take_append_drop]

theorem leafPrefOf_getD (opt : Opt) (hleaf : opt.leaf = true) (key : Bytes) (i : Nat) :
    (leafPrefOf opt key i).getD [] = key.drop (i / 2) := by
  unfold leafPrefOf
  rw [hleaf]
  by_cases he : key.drop (i / 2) = []
  · simp [he]
  · have : (!(List.drop (i / 2) key).isEmpty) = true := by simpa using he
    simp [this]

/-- below a leaf the buffer is completed to the leaf's key -/
theorem appendLeafPrefix_spec (opt : Opt) (hleaf : opt.leaf = true) (e : Elt) (key : Bytes)
    (fb : Nat) (he : e.labelEnd = fb) (buf : Bytes) (hbuf : BufAgree buf (nibs key) fb) :
    appendLeafPrefix e buf (leafPrefOf opt key fb) = .ok key := by
  have hl : fb / 2 ≤ buf.length := by have := hbuf.1; omega
  unfold appendLeafPrefix
  simp only [he, reslice_ok _ _ hl, bind, Except.bind, pure, Except.pure]
  rw [leafPrefOf_getD opt hleaf, take_bytes_of_agree buf key fb hbuf, List.take_append_drop]

/-! ### the stack as a chain of inner nodes -/

/-- `Chain stack nxt`: the stack (head = top) lists the inner nodes from the root down, each
    element the `mkElt` of its node with the cursor on the next node of the chain; `nxt` is the
    cursor child of the top (the root `0` for the empty stack) -/
inductive Chain (keys : List Bytes) (keep : List Bool) (t : Trie1) (queue : Array Subset) :
    List Elt → Nat → Prop
  | nil : Chain keys keep t queue [] 0
  | cons {rest : List Elt} {j : Nat} {o : Subset} {r : InnerRec} {ws c : Nat} :
      Chain keys keep t queue rest j → queue[j]? = some o → t.nodes[j]? = some (.inner r) →
      InnerFacts keys keep t queue j o r ws → c < r.labels.length →
      Chain keys keep t queue (mkElt r o.fb ws c :: rest) (r.firstChild + c)

/-- the child subset under the cursor, with what the buffer lemmas need -/
theorem kid_facts {keys : List Bytes} {keep : List Bool} {t : Trie1} {queue : Array Subset}
    {j : Nat} {o : Subset} {r : InnerRec} {ws : Nat} (hsub : SubOK keys keep o)
    (F : InnerFacts keys keep t queue j o r ws) (c : Nat) (hc : c < r.labels.length)
    (oc : Subset) (hqc : queue[r.firstChild + c]? = some oc) :
    oc.fb = ws + labelLen r.labels[c] r.big ∧
    IsRun (labelOf keys ws r.big) r.labels o.s o.e c hc oc ∧
    labelAt (knOf keys oc.s) ws r.big = r.labels[c] ∧
    (knOf keys oc.s).take ws = (knOf keys o.s).take ws := by
  obtain ⟨c', hc', hcfb, hrun⟩ := F.kid c hc
  rw [hqc] at hc'; cases hc'
  have := hsub.lt
  refine ⟨hcfb, hrun, hrun.lab_s, (F.pre oc.s hrun.1 ?_).2⟩
  have := hrun.2.1; have := hrun.2.2.1; omega

/-! ### `descend` -/

theorem descend_leaf (v : View) (wv : Bool) (fuel : Nat) (last : Elt) (rest : List Elt)
    (buf buf1 buf2 : Bytes) (ith : Nat) (lp : Option Bytes) (val : Option Bytes)
    (h1 : appendLabel last buf = .ok buf1)
    (h2 : v.node (last.firstChild + last.ithLabel) = .ok (.leaf ith lp))
    (h3 : appendLeafPrefix last buf1 lp = .ok buf2) (h4 : leafValue v wv ith = .ok val) :
    descend v wv (fuel + 1) (last :: rest) buf = .ok (last :: rest, buf2, val) := by
  simp only [descend, h1, h2, h3, h4, bind, Except.bind, pure, Except.pure]

theorem descend_inner (v : View) (wv : Bool) (fuel : Nat) (last e : Elt) (rest : List Elt)
    (buf buf1 buf2 : Bytes) (r : InnerRec)
    (h1 : appendLabel last buf = .ok buf1)
    (h2 : v.node (last.firstChild + last.ithLabel) = .ok (.inner r))
    (h3 : Elt.init r none last.labelEnd = .ok e)
    (h4 : appendInnerPrefix e buf1 r.pref = .ok buf2) :
    descend v wv (fuel + 1) (last :: rest) buf = descend v wv fuel (e :: last :: rest) buf2 := by
  simp only [descend, h1, h2, h3, h4, bind, Except.bind]

/-- `next()` walks from the cursor child of the top down to the leaf of the smallest kept key
    below it, pushing elements with cursor 0, and assembles exactly that key -/
theorem descend_spec {keys : List Bytes} {keep : List Bool} {t : Trie1} {queue : Array Subset}
    (h : QOK keys keep t queue) (hinner : t.opt.inner = true) (hleaf : t.opt.leaf = true)
    (valOf : Nat → Option Bytes)
    (hval : ∀ (id ith : Nat) (lp : Option Bytes) (m : Nat),
      t.nodes[id]? = some (Node.leaf ith lp) → t.leafKeyIdx[ith]? = some m →
      t.view.leafBytes ith = .ok (valOf m))
    (wv : Bool) :
    ∀ n rest j o r ws c oc fuel buf, t.nodes.size - (r.firstChild + c) ≤ n → n < fuel →
      Chain keys keep t queue rest j → queue[j]? = some o → t.nodes[j]? = some (.inner r) →
      InnerFacts keys keep t queue j o r ws → (hc : c < r.labels.length) →
      queue[r.firstChild + c]? = some oc → BufAgree buf (knOf keys o.s) ws →
      ∃ stack' m id om,
        descend t.view wv fuel (mkElt r o.fb ws c :: rest) buf
          = .ok (stack', keys.getD m [], if wv then valOf m else none) ∧
        Chain keys keep t queue stack' id ∧ IsLeafOf t id m ∧
        queue[id]? = some om ∧ om.s = m ∧ om.e = m + 1 ∧
        IsMinKept keep oc.s oc.e m := by
  intro n
  induction n with
  | zero =>
    intro rest j o r ws c oc fuel buf h1 _ _ _ _ _ _ hqc _
    have := h.lt hqc
    omega
  | succ n ih =>
    intro rest j o r ws c oc fuel buf h1 h2 hch hqj hnj F hc hqc hbuf
    obtain ⟨fuel, rfl⟩ : ∃ f, fuel = f + 1 := ⟨fuel - 1, by omega⟩
    have hsub := (h.at hqj).1
    obtain ⟨hcfb, hrun, hlab, hagc⟩ := kid_facts hsub F c hc oc hqc
    obtain ⟨hsubc, hcid, hnodec⟩ := h.at hqc
    have hbw : r.big = true → ws % 2 = 0 := fun hb => (F.big hb).1
    -- the label under the cursor
    obtain ⟨buf1, hal, hbuf1⟩ := appendLabel_spec r o.fb ws c hc buf (knOf keys oc.s)
      (Exact.knOf_lt16 keys oc.s) (Exact.knOf_even keys oc.s) hbw hlab (hbuf.congr hagc.symm)
    rw [← hcfb] at hbuf1
    have hgetD : r.labels.getD c 0 = r.labels[c] := by
      rw [List.getD_eq_getElem?_getD, List.getElem?_eq_getElem hc]; rfl
    have hle : (mkElt r o.fb ws c).labelEnd = oc.fb := by
      show ws + labelLen (r.labels.getD c 0) r.big = oc.fb
      rw [hgetD, hcfb]
    have hview : t.view.node ((mkElt r o.fb ws c).firstChild + (mkElt r o.fb ws c).ithLabel)
        = .ok t.nodes[r.firstChild + c] := view_node t _ hcid
    cases hn : t.nodes[r.firstChild + c] with
    | leaf ith lp =>
      rw [hn] at hnodec hview
      obtain ⟨h1e, hidx, hlp⟩ := hnodec
      obtain ⟨x, hx1, hx2, hx3⟩ := hsubc.kept
      have hxs : x = oc.s := by omega
      subst hxs
      have hnd := nodes_getElem? t _ hcid _ hn
      have halp : appendLeafPrefix (mkElt r o.fb ws c) buf1 lp = .ok (keys.getD oc.s []) := by
        rw [hlp]
        exact appendLeafPrefix_spec t.opt hleaf _ _ oc.fb hle buf1 hbuf1
      have hlv : leafValue t.view wv ith = .ok (if wv then valOf oc.s else none) := by
        unfold leafValue
        cases wv with
        | true => simp only [if_true]; exact hval _ ith lp oc.s hnd hidx
        | false => rfl
      refine ⟨_, oc.s, r.firstChild + c, oc,
        descend_leaf _ _ _ _ _ _ buf1 _ ith lp _ hal hview halp hlv,
        Chain.cons hch hqj hnj F hc, ⟨ith, lp, hnd, hidx⟩, hqc, rfl, h1e,
        Nat.le_refl _, hx2, hx3, fun t' h3 h4 => by omega⟩
    | inner r' =>
      rw [hn] at hnodec hview
      obtain ⟨_, hin'⟩ := hnodec
      obtain ⟨ws', F'⟩ := inner_facts h hsubc hin'
      have hL' := F'.ne
      have hks' : ws' ≤ (knOf keys oc.s).length := (F'.pre oc.s (Nat.le_refl _) hsubc.lt).1
      have hinit : Elt.init r' none (mkElt r o.fb ws c).labelEnd = .ok (mkElt r' oc.fb ws' 0) := by
        rw [hle]
        exact init_none t.opt hinner r' (knOf keys oc.s) oc.fb ws' F'.fb_le hks' F'.pref hL'
      obtain ⟨buf2, haip, hbuf2⟩ := appendInnerPrefix_spec t.opt hinner r' (knOf keys oc.s)
        oc.fb ws' 0 F'.fb_le hks' (Exact.knOf_lt16 keys oc.s) buf1 hbuf1
      rw [← F'.pref] at haip
      rw [descend_inner _ _ _ _ _ _ _ buf1 buf2 r' hal hview hinit haip]
      obtain ⟨oc', hqc', _, hrun'⟩ := F'.kid 0 hL'
      have hfc' := F'.fc
      obtain ⟨stack', m, id, om, hd, hch', hleaf', hqid, hos, hoe, hmin⟩ :=
        ih (mkElt r o.fb ws c :: rest) (r.firstChild + c) oc r' ws' 0 oc' fuel buf2
          (by omega) (by omega) (Chain.cons hch hqj hnj F hc) hqc
          (nodes_getElem? t _ hcid _ hn) F' hL' hqc' hbuf2
      refine ⟨stack', m, id, om, hd, hch', hleaf', hqid, hos, hoe, ?_⟩
      have hgap := gap_first (kept := keptAt keep) F'.labels F'.pw F'.mono hrun'
      obtain ⟨hr1, hr2, hr3, _⟩ := hrun'
      obtain ⟨hm1, hm2, hm3, hm4⟩ := hmin
      refine ⟨by omega, by omega, hm3, ?_⟩
      intro t' h3 h4
      by_cases h5 : oc'.s ≤ t'
      · exact hm4 t' h5 h4
      · exact hgap t' h3 (by omega)

/-! ### `advance` -/

theorem advance_cons_some (e e' : Elt) (rest : List Elt)
    (h : ({ e with ithLabel := e.ithLabel + 1 } : Elt).update = some e') :
    advance (e :: rest) = e' :: rest := by
  simp only [advance, h]

theorem advance_cons_none (e : Elt) (rest : List Elt)
    (h : ({ e with ithLabel := e.ithLabel + 1 } : Elt).update = none) :
    advance (e :: rest) = advance rest := by
  simp only [advance, h]

/-- the iterator state before a `next()`: the top element is the `mkElt` of node `j` with the
    cursor on child `c`, the buffer holds the common prefix of subset `j`, and `m` is the
    smallest kept key below the cursor child -/
def Ready (keys : List Bytes) (keep : List Bool) (t : Trie1) (queue : Array Subset)
    (stack : List Elt) (buf : Bytes) (m : Nat) : Prop :=
  ∃ rest j o r ws c oc, stack = mkElt r o.fb ws c :: rest ∧ Chain keys keep t queue rest j ∧
    queue[j]? = some o ∧ t.nodes[j]? = some (.inner r) ∧ InnerFacts keys keep t queue j o r ws ∧
    c < r.labels.length ∧ queue[r.firstChild + c]? = some oc ∧
    BufAgree buf (knOf keys o.s) ws ∧ IsMinKept keep oc.s oc.e m

/-- `advance` after the leaf of key `m` (more generally: after the last kept key `m` of the
    subtree `nxt` under the top cursor): either the stack is exhausted and no kept key follows,
    or the new top cursor designates the subtree that holds the next kept key -/
theorem advance_spec {keys : List Bytes} {keep : List Bool} {t : Trie1} {queue : Array Subset}
    (h : QOK keys keep t queue)
    (hroot : queue[0]? = some { s := 0, e := keys.length, fb := 0 }) :
    ∀ stack nxt, Chain keys keep t queue stack nxt →
      ∀ onxt m, queue[nxt]? = some onxt → IsMaxKept keep onxt.s onxt.e m →
      (advance stack = [] ∧ ∀ t', m < t' → t' < keys.length → keptAt keep t' = false) ∨
      (∃ rest j o r ws c oc, advance stack = mkElt r o.fb ws c :: rest ∧
        Chain keys keep t queue rest j ∧ queue[j]? = some o ∧ t.nodes[j]? = some (.inner r) ∧
        InnerFacts keys keep t queue j o r ws ∧ c < r.labels.length ∧
        queue[r.firstChild + c]? = some oc ∧ o.s ≤ m ∧ m < o.e ∧ ws ≤ onxt.fb ∧ m < oc.s ∧
        ∀ t', m < t' → t' < oc.s → keptAt keep t' = false) := by
  intro stack nxt hch
  induction hch with
  | nil =>
    intro onxt m hq hmax
    rw [hroot] at hq; cases hq
    exact Or.inl ⟨rfl, fun t' h1 h2 => hmax.2.2.2 t' h1 h2⟩
  | @cons rest j o r ws c hch hqj hnj F hc ih =>
    intro onxt m hq hmax
    have hsub := (h.at hqj).1
    obtain ⟨hcfb, hrun, _, _⟩ := kid_facts hsub F c hc onxt hq
    obtain ⟨hm1, hm2, hm3, hm4⟩ := hmax
    have hr1 := hrun.1
    have hr2 := hrun.2.1
    by_cases hc1 : c + 1 < r.labels.length
    · -- the next label of the same node
      right
      have hupd : ({ mkElt r o.fb ws c with ithLabel := (mkElt r o.fb ws c).ithLabel + 1 } : Elt).update
          = some (mkElt r o.fb ws (c + 1)) :=
        update_some _ r o.fb ws (c + 1) hc1 rfl rfl rfl rfl rfl rfl
      obtain ⟨oc, hqc, _, hrun'⟩ := F.kid (c + 1) hc1
      have hgap := gap_adj (kept := keptAt keep) F.labels F.pw F.mono hrun hrun'
      refine ⟨rest, j, o, r, ws, c + 1, oc, advance_cons_some _ _ _ hupd, hch, hqj, hnj, F, hc1,
        hqc, by omega, by omega, by omega, by omega, ?_⟩
      intro t' h1 h2
      by_cases h3 : t' < onxt.e
      · exact hm4 t' h1 h3
      · exact hgap.2 t' (by omega) h2
    · -- the node is exhausted: pop
      have hupd : ({ mkElt r o.fb ws c with ithLabel := (mkElt r o.fb ws c).ithLabel + 1 } : Elt).update
          = none := update_none _ (by show r.labels.length ≤ c + 1; omega)
      rw [advance_cons_none _ _ hupd]
      have hcL : c = r.labels.length - 1 := by omega
      subst hcL
      have hgap := gap_last (kept := keptAt keep) F.labels F.pw F.mono hrun
      have hmax' : IsMaxKept keep o.s o.e m := by
        refine ⟨by omega, by omega, hm3, ?_⟩
        intro t' h1 h2
        by_cases h3 : t' < onxt.e
        · exact hm4 t' h1 h3
        · exact hgap t' (by omega) h2
      rcases ih o m hqj hmax' with h1 | ⟨rest', j', o', r', ws', c', oc', h1, h2, h3, h4, h5, h6,
          h7, h8, h9, h10, h11, h12⟩
      · exact Or.inl h1
      · have := F.fb_le
        exact Or.inr ⟨rest', j', o', r', ws', c', oc', h1, h2, h3, h4, h5, h6, h7, h8, h9,
          by omega, h11, h12⟩

theorem exists_min_kept {keys : List Bytes} {keep : List Bool} {t : Trie1} {queue : Array Subset}
    (h : QOK keys keep t queue) {j : Nat} {o : Subset} (hq : queue[j]? = some o) :
    ∃ m, IsMinKept keep o.s o.e m := by
  obtain ⟨_, _, _, m, _, _, _, hmin⟩ :=
    leftMost_spec h t.nodes.size j o (t.nodes.size + 1) (by omega) (by omega) hq
  exact ⟨m, hmin⟩

/-- the state after `advance`, behind the leaf of kept key `m` -/
theorem ready_of_advance {keys : List Bytes} {keep : List Bool} {t : Trie1}
    {queue : Array Subset} (h : QOK keys keep t queue)
    (hroot : queue[0]? = some { s := 0, e := keys.length, fb := 0 })
    (stack : List Elt) (id m : Nat) (om : Subset) (buf : Bytes)
    (hch : Chain keys keep t queue stack id) (hq : queue[id]? = some om) (hos : om.s = m)
    (hoe : om.e = m + 1) (hkm : keptAt keep m = true) (hbuf : BufAgree buf (knOf keys m) om.fb) :
    (advance stack = [] ∧ ∀ t', m < t' → t' < keys.length → keptAt keep t' = false) ∨
    (∃ m', Ready keys keep t queue (advance stack) buf m' ∧ m < m' ∧
      ∀ t', m < t' → t' < m' → keptAt keep t' = false) := by
  have hmax : IsMaxKept keep om.s om.e m :=
    ⟨by omega, by omega, hkm, fun t' h1 h2 => by omega⟩
  rcases advance_spec h hroot stack id hch om m hq hmax with h1 | ⟨rest, j, o, r, ws, c, oc, h1,
      h2, h3, h4, F, h6, h7, h8, h9, h10, h11, h12⟩
  · exact Or.inl h1
  · right
    obtain ⟨m', hmin⟩ := exists_min_kept h h7
    refine ⟨m', ⟨rest, j, o, r, ws, c, oc, h1, h2, h3, h4, F, h6, h7, ?_, hmin⟩, ?_, ?_⟩
    · exact (hbuf.mono h10).congr (F.pre m h8 h9).2
    · have := hmin.1; omega
    · intro t' h13 h14
      by_cases h15 : t' < oc.s
      · exact h12 t' h13 h15
      · exact hmin.2.2.2 t' (by omega) h14

/-! ### one `next()` -/

theorem iterNext_walk (v : View) (wv : Bool) (e : Elt) (rest : List Elt) (buf : Bytes) :
    iterNext v wv (.walk (e :: rest) buf) =
      (descend v wv (v.nodeCnt + 1) (e :: rest) buf >>= fun x =>
        pure (.walk (advance x.1) x.2.1, some x.2.1, x.2.2)) := rfl

theorem iterNext_ready {keys : List Bytes} {keep : List Bool} {t : Trie1} {queue : Array Subset}
    (h : QOK keys keep t queue)
    (hroot : queue[0]? = some { s := 0, e := keys.length, fb := 0 })
    (hinner : t.opt.inner = true) (hleaf : t.opt.leaf = true)
    (valOf : Nat → Option Bytes)
    (hval : ∀ (id ith : Nat) (lp : Option Bytes) (m : Nat),
      t.nodes[id]? = some (Node.leaf ith lp) → t.leafKeyIdx[ith]? = some m →
      t.view.leafBytes ith = .ok (valOf m))
    (wv : Bool) (stack : List Elt) (buf : Bytes) (m : Nat)
    (hr : Ready keys keep t queue stack buf m) :
    keptAt keep m = true ∧ m < keys.length ∧
    ∃ stack'', iterNext t.view wv (.walk stack buf)
        = .ok (.walk stack'' (keys.getD m []), some (keys.getD m []),
            if wv then valOf m else none) ∧
      ((stack'' = [] ∧ ∀ t', m < t' → t' < keys.length → keptAt keep t' = false) ∨
       (∃ m', Ready keys keep t queue stack'' (keys.getD m []) m' ∧ m < m' ∧
          ∀ t', m < t' → t' < m' → keptAt keep t' = false)) := by
  obtain ⟨rest, j, o, r, ws, c, oc, rfl, hch, hqj, hnj, F, hc, hqc, hbuf, hmin⟩ := hr
  have hfc := F.fc
  have hcnt : t.view.nodeCnt = t.nodes.size := rfl
  obtain ⟨stack', m', id, om, hd, hch', hleaf', hqid, hos, hoe, hmin'⟩ :=
    descend_spec h hinner hleaf valOf hval wv t.nodes.size rest j o r ws c oc
      (t.nodes.size + 1) buf (by omega) (by omega) hch hqj hnj F hc hqc hbuf
  -- the smallest kept key of a subset is unique
  have hmm : m' = m := by
    obtain ⟨a1, a2, a3, a4⟩ := hmin
    obtain ⟨b1, b2, b3, b4⟩ := hmin'
    rcases Nat.lt_trichotomy m' m with hlt | heq | hgt
    · rw [a4 m' b1 hlt] at b3; cases b3
    · exact heq
    · rw [b4 m a1 hgt] at a3; cases a3
  subst hmm
  have hsubc := (h.at hqc).1
  have hsubm := (h.at hqid).1
  refine ⟨hmin.2.2.1, by have := hmin.2.1; have := hsubc.le; omega, advance stack', ?_, ?_⟩
  · rw [iterNext_walk, hcnt, hd]; rfl
  · have hlong := hsubm.long m' (by omega) (by omega)
    apply ready_of_advance h hroot stack' id m' om _ hch' hqid hos hoe hmin.2.2.1
    refine ⟨?_, rfl⟩
    show om.fb ≤ 2 * (keys.getD m' []).length
    rw [← nibs_length]; exact hlong

/-! ### the kept indexes from `m` on -/

def kfrom (keep : List Bool) (n m : Nat) : List Nat :=
  (List.range' m (n - m)).filter (keptAt keep)

theorem kfrom_step (keep : List Bool) (n m : Nat) (hm : m < n) :
    kfrom keep n m = if keptAt keep m then m :: kfrom keep n (m + 1) else kfrom keep n (m + 1) := by
  unfold kfrom
  have : n - m = (n - (m + 1)) + 1 := by omega
  rw [this, List.range'_succ, List.filter_cons]

theorem kfrom_cons (keep : List Bool) (n m : Nat) (hm : m < n) (hk : keptAt keep m = true) :
    kfrom keep n m = m :: kfrom keep n (m + 1) := by
  rw [kfrom_step keep n m hm, if_pos hk]

theorem kfrom_skip (keep : List Bool) (n m m' : Nat) (h1 : m ≤ m') (h2 : m' ≤ n)
    (h : ∀ t', m ≤ t' → t' < m' → keptAt keep t' = false) : kfrom keep n m = kfrom keep n m' := by
  obtain ⟨d, rfl⟩ : ∃ d, m' = m + d := ⟨m' - m, by omega⟩
  induction d generalizing m with
  | zero => rfl
  | succ d ih =>
    rw [kfrom_step keep n m (by omega), h m (Nat.le_refl _) (by omega)]
    simp only [Bool.false_eq_true, if_false]
    have := ih (m + 1) (by omega) (by omega) (fun t' h3 h4 => h t' (by omega) (by omega))
    rw [this]; congr 1; omega

theorem kfrom_nil (keep : List Bool) (n m : Nat)
    (h : ∀ t', m ≤ t' → t' < n → keptAt keep t' = false) : kfrom keep n m = [] := by
  unfold kfrom
  rw [List.filter_eq_nil_iff]
  intro t' ht'
  rw [List.mem_range'_1] at ht'
  rw [h t' ht'.1 (by omega)]; simp

/-! ### `n` calls of `next()` -/

/-- what `n` calls yield when the items still to come are `L` -/
def expect (k : Nat) (L : List (Option Bytes × Option Bytes)) :
    List (Option Bytes × Option Bytes) :=
  L.take k ++ List.replicate (k - L.length) (none, none)

theorem expect_cons (k : Nat) (y : Option Bytes × Option Bytes)
    (L : List (Option Bytes × Option Bytes)) : expect (k + 1) (y :: L) = y :: expect k L := by
  unfold expect
  simp only [List.take_succ_cons, List.length_cons, List.cons_append]
  congr 3; omega

theorem expect_nil (k : Nat) : expect k [] = List.replicate k (none, none) := by
  unfold expect; simp

theorem iterTake_succ (v : View) (wv : Bool) (k : Nat) (s s' : IterState)
    (key val : Option Bytes) (L : List (Option Bytes × Option Bytes))
    (h1 : iterNext v wv s = .ok (s', key, val)) (h2 : iterTake v wv k s' = .ok L) :
    iterTake v wv (k + 1) s = .ok ((key, val) :: L) := by
  simp only [iterTake, h1, h2, bind, Except.bind, pure, Except.pure]

theorem iterTake_exhausted (v : View) (wv : Bool) (k : Nat) (buf : Bytes) :
    iterTake v wv k (.walk [] buf) = .ok (List.replicate k (none, none)) := by
  induction k with
  | zero => rfl
  | succ k ih => exact iterTake_succ v wv k _ _ none none _ rfl ih

/-- the item `next()` yields for kept key `i` -/
def yieldOf (keys : List Bytes) (valOf : Nat → Option Bytes) (wv : Bool) (i : Nat) :
    Option Bytes × Option Bytes :=
  (some (keys.getD i []), if wv then valOf i else none)

theorem iterTake_ready {keys : List Bytes} {keep : List Bool} {t : Trie1} {queue : Array Subset}
    (h : QOK keys keep t queue)
    (hroot : queue[0]? = some { s := 0, e := keys.length, fb := 0 })
    (hinner : t.opt.inner = true) (hleaf : t.opt.leaf = true)
    (valOf : Nat → Option Bytes)
    (hval : ∀ (id ith : Nat) (lp : Option Bytes) (m : Nat),
      t.nodes[id]? = some (Node.leaf ith lp) → t.leafKeyIdx[ith]? = some m →
      t.view.leafBytes ith = .ok (valOf m))
    (wv : Bool) :
    ∀ k stack buf m, Ready keys keep t queue stack buf m →
      iterTake t.view wv k (.walk stack buf)
        = .ok (expect k ((kfrom keep keys.length m).map (yieldOf keys valOf wv))) := by
  intro k
  induction k with
  | zero =>
    intro stack buf m _
    show Except.ok [] = _
    unfold expect; simp
  | succ k ih =>
    intro stack buf m hr
    obtain ⟨hkm, hmn, stack'', hnext, hcase⟩ :=
      iterNext_ready h hroot hinner hleaf valOf hval wv stack buf m hr
    rw [kfrom_cons keep keys.length m hmn hkm, List.map_cons, expect_cons]
    rcases hcase with ⟨rfl, hno⟩ | ⟨m', hr', hlt, hno⟩
    · rw [kfrom_nil keep keys.length (m + 1) (fun t' h1 h2 => hno t' (by omega) h2)]
      simp only [List.map_nil, expect_nil]
      exact iterTake_succ _ _ k _ _ _ _ _ hnext (iterTake_exhausted _ _ k _)
    · have hm'n : m' ≤ keys.length := by
        have := (iterNext_ready h hroot hinner hleaf valOf hval wv stack'' _ m' hr').2.1
        omega
      rw [kfrom_skip keep keys.length (m + 1) m' (by omega) hm'n
        (fun t' h1 h2 => hno t' (by omega) h2)]
      exact iterTake_succ _ _ k _ _ _ _ _ hnext (ih stack'' _ m' hr')

/-! ### `buildStack` -/

theorem view_node_of (t : Trie1) (a : Nat) (nd : Node) (h : t.nodes[a]? = some nd) :
    t.view.node a = .ok nd := by
  show (match t.nodes[a]? with
    | some n => Except.ok n
    | none => Except.error (Err.panic "node id out of range")) = _
  rw [h]

theorem buildStack_two (v : View) (a b : Nat) (rest : List Nat) (stack : List Elt)
    (buf buf1 buf2 : Bytes) (bufIdx : Nat) (r : InnerRec) (e : Elt)
    (h1 : v.node a = .ok (.inner r)) (h2 : Elt.init r (some b) bufIdx = .ok e)
    (h3 : appendInnerPrefix e buf r.pref = .ok buf1) (h4 : appendLabel e buf1 = .ok buf2) :
    buildStack v (a :: b :: rest) stack buf bufIdx
      = buildStack v (b :: rest) (e :: stack) buf2 e.labelEnd := by
  simp only [buildStack, h1, h2, h3, h4, bind, Except.bind]

theorem buildStack_one (v : View) (a : Nat) (stack : List Elt) (buf : Bytes) (bufIdx : Nat) :
    buildStack v [a] stack buf bufIdx = .ok (stack, buf) := by
  simp only [buildStack]

theorem anc_head {t : Trie1} {a b : Nat} {p : List Nat} (h : Anc t a p b) :
    ∃ tl, p ++ [b] = a :: tl := by
  cases h with
  | here => exact ⟨[], rfl⟩
  | step _ _ _ => exact ⟨_, rfl⟩

/-- `buildStack` along the ancestors of `id` rebuilds the chain and the key prefix -/
theorem buildStack_spec {keys : List Bytes} {keep : List Bool} {t : Trie1}
    {queue : Array Subset} (h : QOK keys keep t queue) (hinner : t.opt.inner = true)
    {a id : Nat} {p : List Nat} (hanc : Anc t a p id) :
    ∀ stack buf oa, Chain keys keep t queue stack a → queue[a]? = some oa →
      BufAgree buf (knOf keys oa.s) oa.fb →
      ∃ stack' buf' oid, buildStack t.view (p ++ [id]) stack buf oa.fb = .ok (stack', buf') ∧
        Chain keys keep t queue stack' id ∧ queue[id]? = some oid ∧
        BufAgree buf' (knOf keys oid.s) oid.fb ∧ stack'.length = stack.length + p.length := by
  induction hanc with
  | here a =>
    intro stack buf oa hch hqa hbuf
    exact ⟨stack, buf, oa, buildStack_one _ _ _ _ _, hch, hqa, hbuf, rfl⟩
  | @step a r k p' b hna hk hanc' ih =>
    intro stack buf oa hch hqa hbuf
    obtain ⟨tl, htl⟩ := anc_head hanc'
    obtain ⟨hsub, hj, hnode⟩ := h.at hqa
    have hna' : t.nodes[a] = .inner r := (Array.getElem?_eq_some_iff.mp hna).2
    rw [hna'] at hnode
    obtain ⟨_, hin⟩ := hnode
    obtain ⟨ws, F⟩ := inner_facts h hsub hin
    obtain ⟨oc, hqc, _, _⟩ := F.kid k hk
    obtain ⟨hcfb, hrun, hlab, hagc⟩ := kid_facts hsub F k hk oc hqc
    have hks : ws ≤ (knOf keys oa.s).length := (F.pre oa.s (Nat.le_refl _) hsub.lt).1
    have hbw : r.big = true → ws % 2 = 0 := fun hb => (F.big hb).1
    have hinit := init_some t.opt hinner r (knOf keys oa.s) oa.fb ws k F.fb_le hks F.pref hk
    obtain ⟨buf1, haip, hbuf1⟩ := appendInnerPrefix_spec t.opt hinner r (knOf keys oa.s)
      oa.fb ws k F.fb_le hks (Exact.knOf_lt16 keys oa.s) buf hbuf
    rw [← F.pref] at haip
    obtain ⟨buf2, hal, hbuf2⟩ := appendLabel_spec r oa.fb ws k hk buf1 (knOf keys oc.s)
      (Exact.knOf_lt16 keys oc.s) (Exact.knOf_even keys oc.s) hbw hlab (hbuf1.congr hagc.symm)
    rw [← hcfb] at hbuf2
    have hgetD : r.labels.getD k 0 = r.labels[k] := by
      rw [List.getD_eq_getElem?_getD, List.getElem?_eq_getElem hk]; rfl
    have hle : (mkElt r oa.fb ws k).labelEnd = oc.fb := by
      show ws + labelLen (r.labels.getD k 0) r.big = oc.fb
      rw [hgetD, hcfb]
    obtain ⟨stack', buf', oid, hbs, hch', hqid, hbuf', hlen⟩ :=
      ih (mkElt r oa.fb ws k :: stack) buf2 oc (Chain.cons hch hqa hna F hk) hqc hbuf2
    refine ⟨stack', buf', oid, ?_, hch', hqid, hbuf', by
      rw [hlen]; simp only [List.length_cons]; omega⟩
    rw [List.cons_append, htl,
      buildStack_two _ a _ tl stack buf buf1 buf2 oa.fb r _ (view_node_of t a _ hna) hinit haip hal,
      hle, ← htl]
    exact hbs

/-! ### the single-node special case -/

theorem iterTake_consumed (v : View) (wv : Bool) (k id : Nat) (buf : Bytes) :
    iterTake v wv k (.single id buf true) = .ok (List.replicate k (none, none)) := by
  induction k with
  | zero => rfl
  | succ k ih => exact iterTake_succ v wv k _ _ none none _ rfl ih

theorem iterNext_single (v : View) (wv : Bool) (id ith : Nat) (lp val : Option Bytes)
    (buf : Bytes) (h1 : v.node id = .ok (.leaf ith lp)) (h2 : leafValue v wv ith = .ok val) :
    iterNext v wv (.single id buf false)
      = .ok (.single id (buf ++ lp.getD []) true, some (buf ++ lp.getD []), val) := by
  simp only [iterNext, h1, h2, bind, Except.bind, pure, Except.pure, Bool.false_eq_true, if_false]

end IterStack
