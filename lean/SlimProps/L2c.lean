import SlimProps.L2
import SlimProps.C04Iter
/-
  SlimProps.L2c — C04 (scanning in Complete mode) at the bit level: the statements of
  `SlimProps.C04Iter` for `L2view t = Slim.view (Slim.encode t)`, closed (only
  `build keys vals opt = .ok t` and `opt.complete = true`).

  The L1 theorems give `.ok` results for every start key, every `k`, every callback; the scan
  transport of `SlimProofs.Transport` (`L2_getGEPath_of`, `L2_newIterFrom_of`, `L2_iterTake_of`,
  `L2_scanFrom_of`, `L2_scanFromTo_of`) with `encodeFacts_built` carries them over.

  * `C04_getGEPath_L2`, `C04_iter_L2`, `C04_scanFrom_L2`, `C04_scanFromTo_L2`
-/

open IterLemmas Subtree SearchDescent Exact Scan Transport

theorem C04_getGEPath_L2 (keys : List Bytes) (vals : Option (List Bytes)) (opt : Opt) (t : Trie1)
    (hb : build keys vals opt = .ok t) (hc : opt.complete = true) (start : Bytes) :
    ∃ p, getGEPath (L2view t) start = .ok p ∧
      GERes keys (keepMask keys.length vals opt.dedup) t start p := by
  obtain ⟨p, hp, hres⟩ := C04_getGEPath keys vals opt t hb hc start
  exact ⟨p, L2_getGEPath_of t (encodeFacts_built keys vals opt t hb) start p hp, hres⟩

/-- **C04 (iterator) at L2.**  `NewIter` on the encoded trie returns an iterator whose first `k`
    `next()` results are, for every `k`, the retained entries `≥ start` in order, then nil. -/
theorem C04_iter_L2 (keys : List Bytes) (vals : Option (List Bytes)) (opt : Opt) (t : Trie1)
    (hb : build keys vals opt = .ok t) (hc : opt.complete = true)
    (start : Bytes) (incl wv : Bool) :
    ∃ s, newIterFrom (L2view t) start incl = .ok s ∧
      ∀ k, iterTake (L2view t) wv k s =
        .ok (IterStack.expect k ((Spec.scanFrom (retained keys vals opt.dedup) start incl).map
          (C04.item (retained keys vals opt.dedup) wv))) := by
  have hf := encodeFacts_built keys vals opt t hb
  obtain ⟨s, hs, hk⟩ := C04_iter keys vals opt t hb hc start incl wv
  exact ⟨s, L2_newIterFrom_of t hf start incl s hs,
    fun k => L2_iterTake_of t hf wv k s _ (hk k)⟩

theorem C04_scanFrom_L2 (keys : List Bytes) (vals : Option (List Bytes)) (opt : Opt) (t : Trie1)
    (hb : build keys vals opt = .ok t) (hc : opt.complete = true)
    (start : Bytes) (incl wv : Bool) (keepFn : Bytes → Bool) (stopAfter : Option Nat) :
    scanFrom (L2view t) start incl wv keepFn stopAfter =
      .ok (IterScan.truncate stopAfter
        (((Spec.scanFrom (retained keys vals opt.dedup) start incl).map
          (C04.pair (retained keys vals opt.dedup) wv)).takeWhile (fun y => keepFn y.1))) :=
  L2_scanFrom_of t (encodeFacts_built keys vals opt t hb) start incl wv keepFn stopAfter _
    (C04_scanFrom keys vals opt t hb hc start incl wv keepFn stopAfter)

theorem C04_scanFromTo_L2 (keys : List Bytes) (vals : Option (List Bytes)) (opt : Opt) (t : Trie1)
    (hb : build keys vals opt = .ok t) (hc : opt.complete = true)
    (start : Bytes) (incl : Bool) (stop : Bytes) (inclEnd wv : Bool) (stopAfter : Option Nat) :
    scanFromTo (L2view t) start incl stop inclEnd wv stopAfter =
      .ok (IterScan.truncate stopAfter
        ((Spec.scanFromTo (retained keys vals opt.dedup) start incl stop inclEnd).map
          (C04.pair (retained keys vals opt.dedup) wv))) :=
  L2_scanFromTo_of t (encodeFacts_built keys vals opt t hb) start incl stop inclEnd wv stopAfter _
    (C04_scanFromTo keys vals opt t hb hc start incl stop inclEnd wv stopAfter)

/-! ### non-vacuity -/
namespace L2c.Ex

def opt : Opt := { inner := true, leaf := true }

/-- on the 3-key build of `L2.Ex` in Complete mode (key 1 `ab` is de-duplicated away): a full
    scan of the encoded trie calls back with exactly the two retained entries, in order -/
example : ∃ t, build L2.Ex.keys (some L2.Ex.vals) opt = .ok t ∧
    scanFrom (L2view t) [] true true (fun _ => true) none =
      .ok [([0x61], some [1]), ([0x62, 0xe3], some [2])] := by
  obtain ⟨t, ht⟩ := L2.Ex.build_ok opt
  refine ⟨t, ht, ?_⟩
  rw [C04_scanFrom_L2 _ _ _ t ht (by decide)]
  exact congrArg Except.ok (by decide +kernel)

end L2c.Ex

#print axioms C04_getGEPath_L2
#print axioms C04_iter_L2
#print axioms C04_scanFrom_L2
#print axioms C04_scanFromTo_L2
