// Command race is the schedule-exploring half of property C11: many goroutines
// mix every read API on one shared SlimTrie (fresh, loaded from current bytes,
// loaded from legacy bytes) with randomized yielding, in a -race build; every
// answer is compared with the answer the same call gave when run alone.
package main

import (
	"flag"
	"fmt"
	"io/ioutil"
	"math/rand"
	"os"
	"path/filepath"
	"runtime"
	"sort"
	"strings"
	"sync"

	"github.com/openacid/slim/encode"
	slim "github.com/openacid/slim/trie"
	"github.com/openacid/testkeys"

	"slimverif/harness/fam/leg"
	ft "slimverif/harness/fam/trie"
	"slimverif/harness/gen"
	"slimverif/harness/lp"
)

type op struct {
	name string
	f    func(st *slim.SlimTrie, enc encode.Encoder) string
}

func render(enc encode.Encoder, v interface{}) string {
	if v == nil {
		return "nil"
	}
	return lp.X(enc.Encode(v))
}

// battery builds the list of read operations for a trie with the given keys.
func battery(r *rand.Rand, keys []string, complete bool, intW int) []op {
	var ops []op
	qs := gen.Queries(r, keys, 40)
	for _, q := range qs {
		q := q
		ops = append(ops,
			op{"Get", func(st *slim.SlimTrie, e encode.Encoder) string {
				v, f := st.Get(q)
				return fmt.Sprint(render(e, v), f)
			}},
			op{"GetID", func(st *slim.SlimTrie, e encode.Encoder) string { return fmt.Sprint(st.GetID(q)) }},
			op{"RangeGet", func(st *slim.SlimTrie, e encode.Encoder) string {
				v, f := st.RangeGet(q)
				return fmt.Sprint(render(e, v), f)
			}},
			op{"Search", func(st *slim.SlimTrie, e encode.Encoder) string {
				a, b, c := st.Search(q)
				return render(e, a) + " " + render(e, b) + " " + render(e, c)
			}},
		)
		if intW == 4 {
			ops = append(ops, op{"GetI32", func(st *slim.SlimTrie, e encode.Encoder) string { v, f := st.GetI32(q); return fmt.Sprint(v, f) }})
		}
		if complete {
			ops = append(ops,
				op{"ScanFrom", func(st *slim.SlimTrie, e encode.Encoder) string {
					var sb strings.Builder
					n := 0
					st.ScanFrom(q, true, true, func(k, v []byte) bool {
						sb.WriteString(lp.X(k) + "=" + lp.X(v) + ";")
						n++
						runtime.Gosched()
						return n < 20
					})
					return sb.String()
				}},
				op{"NewIter", func(st *slim.SlimTrie, e encode.Encoder) string {
					// two independent iterators advanced alternately
					a := st.NewIter(q, true, true)
					b := st.NewIter(q, false, false)
					var sb strings.Builder
					for i := 0; i < 12; i++ {
						k, v := a()
						sb.WriteString(lp.X(k) + "=" + lp.X(v) + ";")
						runtime.Gosched()
						k2, _ := b()
						sb.WriteString(lp.X(k2) + ";")
					}
					return sb.String()
				}},
			)
		}
	}
	ops = append(ops,
		op{"Stat", func(st *slim.SlimTrie, e encode.Encoder) string { return fmt.Sprintf("%+v", *st.Stat()) }},
		op{"String", func(st *slim.SlimTrie, e encode.Encoder) string { s := st.String(); return ft.Fnv64([]byte(s)) }},
		op{"Marshal", func(st *slim.SlimTrie, e encode.Encoder) string {
			b, err := st.Marshal()
			return fmt.Sprint(ft.Fnv64(b), err)
		}},
	)
	return ops
}

type subject struct {
	name     string
	st       *slim.SlimTrie
	enc      encode.Encoder
	keys     []string
	complete bool
	intW     int
	// mk makes another instance of the same trie that no call has read yet (nil: not available):
	// the goroutines of a round start on such an instance, so that also the FIRST reads of an
	// instance are concurrent (lazy initialisation on first use is invisible after a sequential pass)
	mk func() *slim.SlimTrie
}

func main() {
	tier := flag.String("tier", "quick", "")
	seed := flag.Int64("seed", 1, "")
	out := flag.String("out", "", "")
	repo := flag.String("repo", "/repo", "")
	flag.Parse()
	c, err := lp.NewCtx("C11", *tier, *seed, *out)
	if err != nil {
		fmt.Fprintln(os.Stderr, err)
		os.Exit(2)
	}
	r := c.Rng
	var subjects []subject
	nsets := c.Pick(12, 60)
	for i := 0; i < nsets; i++ {
		ks := gen.Any(r, 150)
		if len(ks.Keys) == 0 {
			continue
		}
		flags := []string{"nnnn", "nnnt", "fttn", "ntnn", "nntn"}[r.Intn(5)]
		encName := []string{"i32", "s16", "none", "raw", "i32", "te7", "te7"}[r.Intn(7)]
		cs := ft.NewCase(r, ks, flags, encName)
		line := cs.Line()
		if a := lp.Exec(line); a != "ok" {
			c.Violate(lp.Violation{What: "build", Script: []string{line}, Expected: "ok", Got: a})
			continue
		}
		st := ft.S.St
		w := 0
		if encName == "i32" {
			w = 4
		}
		sub := subject{"fresh:" + ks.Class + ":" + flags + ":" + encName, st, ft.S.Enc, ks.Keys, cs.Inner && cs.Leaf, w, nil}
		sub.mk = func() *slim.SlimTrie {
			if lp.Exec(line) != "ok" {
				return nil
			}
			return ft.S.St
		}
		if i%2 == 1 {
			b, _ := st.Marshal()
			enc := ft.S.Enc
			st2, _ := slim.NewSlimTrie(enc, nil, nil)
			if err := st2.Unmarshal(b); err != nil {
				c.Violate(lp.Violation{What: "reload", Script: []string{line}, Expected: "ok", Got: err.Error()})
				continue
			}
			sub.st = st2
			sub.name = "loaded:" + sub.name[6:]
			sub.mk = func() *slim.SlimTrie {
				x, _ := slim.NewSlimTrie(enc, nil, nil)
				if x.Unmarshal(append([]byte{}, b...)) != nil {
					return nil
				}
				return x
			}
		}
		subjects = append(subjects, sub)
	}
	// legacy-loaded subjects from the archived fixtures
	fixtures, _ := filepath.Glob(filepath.Join(*repo, "trie/testdata/slimtrie-data-*"))
	sort.Strings(fixtures)
	r.Shuffle(len(fixtures), func(i, j int) { fixtures[i], fixtures[j] = fixtures[j], fixtures[i] })
	// always among the subjects: layouts whose load converts stored prefixes (0.5.10) or renumbers nodes (0.5.9)
	first := []string{"300vl50-allpref-0.5.10", "300vl50-innpref-0.5.10", "10ll16k-allpref-0.5.10", "11vl5-0.5.9"}
	sort.SliceStable(fixtures, func(i, j int) bool {
		pi, pj := len(first), len(first)
		for k, f := range first {
			if strings.HasSuffix(fixtures[i], "slimtrie-data-"+f) {
				pi = k
			}
			if strings.HasSuffix(fixtures[j], "slimtrie-data-"+f) {
				pj = k
			}
		}
		return pi < pj
	})
	// legacy streams of generated key sets (reconstructed writers of fam/leg)
	for _, variant := range []string{"allpref-0.5.10", "innpref-0.5.11", "0.5.9", "0.5.3"} {
		ks := gen.Any(r, 200)
		if len(ks.Keys) == 0 {
			continue
		}
		keys := ks.Keys
		stream, err := leg.Write(variant, keys, leg.I32Vals(len(keys)))
		if err != nil {
			continue
		}
		if vr, ok := leg.ParseVariant3(variant); ok {
			if enc, _, _ := leg.Encodable3(vr, keys); !enc {
				continue
			}
		}
		mk := func() *slim.SlimTrie {
			x, _ := slim.NewSlimTrie(encode.I32{}, nil, nil)
			if x.Unmarshal(append([]byte{}, stream...)) != nil {
				return nil
			}
			return x
		}
		st := mk()
		if st == nil {
			c.Violate(lp.Violation{What: "generated legacy stream must load", Script: []string{variant + " " + ks.Class}, Expected: "ok", Got: "error"})
			continue
		}
		subjects = append(subjects, subject{"legacy-generated:" + variant + ":" + ks.Class, st, encode.I32{}, keys, strings.HasPrefix(variant, "allpref"), 4, mk})
	}
	nl := 0
	for _, fn := range fixtures {
		if nl >= c.Pick(6, 16) {
			break
		}
		parts := strings.Split(filepath.Base(fn), "-")
		typ := parts[2]
		keys := testkeys.Load(typ)
		if len(keys) > 2000 || len(keys) == 0 {
			continue
		}
		buf, err := ioutil.ReadFile(fn)
		if err != nil {
			continue
		}
		st, _ := slim.NewSlimTrie(encode.I32{}, nil, nil)
		if err := st.Unmarshal(buf); err != nil {
			c.Violate(lp.Violation{What: "legacy fixture must load", Script: []string{fn}, Expected: "ok", Got: err.Error()})
			continue
		}
		subjects = append(subjects, subject{"legacy:" + filepath.Base(fn), st, encode.I32{}, keys, len(parts) == 5 && parts[3] == "allpref", 4,
			func() *slim.SlimTrie {
				x, _ := slim.NewSlimTrie(encode.I32{}, nil, nil)
				if x.Unmarshal(append([]byte{}, buf...)) != nil {
					return nil
				}
				return x
			}})
		nl++
	}

	for _, sub := range subjects {
		ops := battery(r, sub.keys, sub.complete, sub.intW)
		// cold round: the very first calls of these operations on this trie shape IN THE PROCESS are
		// concurrent (on an instance nobody has read); their answers are recorded and compared with the
		// sequential answers computed only afterwards.  State that is filled on first use — per instance
		// or per process — is warm after any sequential pass and would never be seen racing.
		type rec struct {
			i   int
			got string
		}
		var cold [][]rec
		if sub.mk != nil {
			if x := sub.mk(); x != nil {
				const g0 = 4
				cold = make([][]rec, g0)
				var wg sync.WaitGroup
				seeds := make([]int64, g0)
				for i := range seeds {
					seeds[i] = r.Int63()
				}
				for gi := 0; gi < g0; gi++ {
					wg.Add(1)
					go func(gi int) {
						defer wg.Done()
						lr := rand.New(rand.NewSource(seeds[gi]))
						for k := 0; k < 40; k++ {
							i := lr.Intn(len(ops))
							if k < 3 {
								i = len(ops) - 3 + k // Stat, String, Marshal first
							}
							got, pmsg := lp.CatchMsg(func() string { return ops[i].f(x, sub.enc) })
							if pmsg != "" {
								got = "panic: " + pmsg
							}
							cold[gi] = append(cold[gi], rec{i, got})
						}
					}(gi)
				}
				wg.Wait()
				c.Hit("cold-round(first-calls-concurrent)")
				c.Evaluations += g0 * 40
			}
		}
		// sequential answers
		want := make([]string, len(ops))
		for i, o := range ops {
			o := o
			want[i] = lp.Catch(func() string { return o.f(sub.st, sub.enc) })
		}
		for gi := range cold {
			for _, rc := range cold[gi] {
				if rc.got != want[rc.i] && !(want[rc.i] == "panic" && strings.HasPrefix(rc.got, "panic")) {
					c.Violate(lp.Violation{What: "a concurrent FIRST read answered differently from the same call run alone", Script: []string{sub.name, "cold round"},
						Expected: want[rc.i], Got: fmt.Sprintf("%s #%d: %q", ops[rc.i].name, rc.i, rc.got)})
					break
				}
			}
		}
		for _, g := range []int{2, 8, 32} {
			if c.Quick() && g == 8 {
				continue
			}
			var wg sync.WaitGroup
			var mu sync.Mutex
			bad := ""
			// the sequential answers come from sub.st; the goroutines read an instance nobody has read
			cst := sub.st
			if sub.mk != nil {
				if x := sub.mk(); x != nil {
					cst = x
					c.Hit("first-reads-concurrent")
				}
			}
			perG := c.Pick(150, 600)
			seeds := make([]int64, g)
			for i := range seeds {
				seeds[i] = r.Int63()
			}
			for gi := 0; gi < g; gi++ {
				wg.Add(1)
				go func(gi int) {
					defer wg.Done()
					lr := rand.New(rand.NewSource(seeds[gi]))
					for k := 0; k < perG; k++ {
						i := lr.Intn(len(ops))
						if lr.Intn(3) == 0 {
							runtime.Gosched()
						}
						got, pmsg := lp.CatchMsg(func() string { return ops[i].f(cst, sub.enc) })
						if pmsg != "" {
							got = "panic: " + pmsg
						}
						if got != want[i] {
							mu.Lock()
							if bad == "" {
								bad = fmt.Sprintf("%s #%d: alone=%q concurrent=%q", ops[i].name, i, want[i], got)
							}
							mu.Unlock()
							return
						}
					}
				}(gi)
			}
			wg.Wait()
			c.Case(fmt.Sprintf("%s|g=%d", sub.name, g), true)
			c.Hit(fmt.Sprintf("goroutines:%d", g))
			c.Hit("subject:" + strings.SplitN(sub.name, ":", 2)[0])
			c.Evaluations += g*perG - 1
			if bad != "" {
				c.Violate(lp.Violation{What: "a concurrent read answered differently from the same call run alone", Script: []string{sub.name, fmt.Sprintf("goroutines=%d", g)}, Expected: "same answer", Got: bad})
			}
		}
		c.Sample(sub.name)
	}
	c.Close()
}
