package trie

import (
	"fmt"
	"sort"
	"strings"

	"slimverif/harness/gen"
	"slimverif/harness/lp"
)

func (cs *Case) viol(c *lp.Ctx, what, op, want, got string) {
	c.Violate(lp.Violation{What: what, Script: []string{cs.Line(), op}, Expected: want, Got: got})
}

// valTok renders the value token Search prints for a retained entry.
func (cs *Case) valTok(i int) string {
	if i < 0 || i >= len(cs.RKeys) || cs.leavesNil() {
		return "nil"
	}
	return lp.X(cs.RVals[i])
}

func completeFlags(r interface{ Intn(int) int }) string {
	d := "ntf"[r.Intn(3)]
	if r.Intn(2) == 0 {
		return string([]byte{d, "ntf"[r.Intn(3)], "ntf"[r.Intn(3)], 't'})
	}
	return string([]byte{d, 't', 't', "nf"[r.Intn(2)]})
}

func maybeReload(c *lp.Ctx, cs *Case) {
	if c.Rng.Intn(3) == 0 {
		if got := c.Do("trie.reload"); got != "ok" {
			cs.viol(c, "reload", "trie.reload", "ok", got)
		}
		c.Hit("reloaded")
	}
}

// genC02: RangeGet on every input key (retained or de-duplicated away).
func genC02(c *lp.Ctx) {
	n := c.Pick(400, 1200)
	size := c.Pick(250, 1500)
	for it := 0; it < n; it++ {
		ks := gen.Any(c.Rng, size)
		enc := encNames[1+c.Rng.Intn(len(encNames)-1)] // always with values
		if c.Rng.Intn(10) == 0 {
			enc = "none"
		}
		cs := NewCase(c.Rng, ks, "", enc)
		if it%10 == 3 {
			// a range that starts at the last entry of a "directory" (a 257-bit node of > 10 keys) and goes on
			// through keys that branch off inside the directory's common prefix
			dk, last := gen.DirectoryThenTail(c.Rng, []int{0, 0, 12, 20}[c.Rng.Intn(4)])
			enc = []string{"i32", "u16", "raw", "s16", "i64"}[c.Rng.Intn(5)]
			cs = NewCase(c.Rng, dk, []string{"", "", "tfff", "-", "nnnn"}[c.Rng.Intn(5)], enc)
			if cs.Vals != nil && last >= 0 {
				for i := range cs.Vals {
					cs.Vals[i] = valueOf(c.Rng, enc, i+1, 7) // distinct values
					if i > last && i <= last+5 && strings.HasPrefix(cs.Keys[i], cs.Keys[last][:1]) {
						cs.Vals[i] = cs.Vals[last]
					}
				}
				cs.oracle()
			}
			c.Hit("shape:directory-then-tail")
		}
		c.Case(cs.Key(), len(cs.RKeys) < len(cs.Keys))
		if !build(c, cs) {
			continue
		}
		maybeReload(c, cs)
		for i, k := range cs.Keys {
			op := "trie.rget " + lp.XS(k)
			want := "f nil"
			if cs.Vals != nil {
				want = cs.valAns(cs.Vals[i])
			}
			if got := c.Do(op); got != want {
				cs.viol(c, "RangeGet on an indexed key", op, want, got)
			}
		}
	}
}

// genC03: Complete mode is an exact ordered map for arbitrary queries.
func genC03(c *lp.Ctx) {
	bigDirectComplete(c)
	n := c.Pick(250, 800)
	size := c.Pick(200, 1000)
	for it := 0; it < n; it++ {
		ks := gen.Any(c.Rng, size)
		cs := NewCase(c.Rng, ks, completeFlags(c.Rng), "")
		c.Case(cs.Key(), len(cs.Keys) >= 2)
		if !build(c, cs) {
			continue
		}
		maybeReload(c, cs)
		for _, q := range gen.Queries(c.Rng, cs.Keys, c.Pick(60, 300)) {
			cs.checkExact(c, q)
		}
	}
	// exhaustive tiny universe (thorough): all key sets of <= 4 keys over strings of <= 2 bytes of a
	// half-byte diverse alphabet, every string of the universe as query
	if !c.Quick() {
		exhaustiveTiny(c)
	}
}

func (cs *Case) checkExact(c *lp.Ctx, q string) {
	x := lp.XS(q)
	i, found := cs.SpecGet(q)
	want := "nf"
	if found {
		want = cs.valAns(cs.RVals[i])
	}
	if got := c.Do("trie.get " + x); got != want {
		cs.viol(c, "Complete: Get", "trie.get "+x, want, got)
	}
	got := c.Do("trie.id " + x)
	if (got != "-1") != found || got == "panic" {
		cs.viol(c, "Complete: GetID found iff retained", "trie.id "+x, fmt.Sprint(found), got)
	}
	le := cs.SpecLE(q)
	want = "nf"
	if le >= 0 {
		want = cs.valAns(cs.RVals[le])
	}
	if got := c.Do("trie.rget " + x); got != want {
		cs.viol(c, "Complete: RangeGet = value of greatest key <= q", "trie.rget "+x, want, got)
	}
	// Search
	lt := sort.SearchStrings(cs.RKeys, q) - 1
	gt := lt + 1
	eq := -1
	if found {
		eq = i
		gt = i + 1
	}
	want = cs.valTok(lt) + " " + cs.valTok(eq) + " " + cs.valTok(gt)
	if got := c.Do("trie.search " + x); got != want {
		cs.viol(c, "Complete: Search = (lt, eq, gt)", "trie.search "+x, want, got)
	}
}

func exhaustiveTiny(c *lp.Ctx) {
	al := []byte{0x00, 0x0f, 0x10, 0xff}
	var uni []string
	uni = append(uni, "")
	for _, a := range al {
		uni = append(uni, string([]byte{a}))
		for _, b := range al {
			uni = append(uni, string([]byte{a, b}))
		}
	}
	sort.Strings(uni)
	nU := len(uni) // 21
	cnt := 0
	var rec func(start int, cur []string)
	rec = func(start int, cur []string) {
		if len(cur) > 0 && (len(cur) <= 2 || c.Rng.Intn(8) == 0) {
			cs := NewCase(c.Rng, gen.KeySet{Keys: append([]string{}, cur...), Class: "exhaustive-tiny"}, completeFlags(c.Rng), "")
			c.Case(cs.Key(), true)
			if build(c, cs) {
				for _, q := range uni {
					cs.checkExact(c, q)
				}
			}
			cnt++
		}
		if len(cur) == 4 {
			return
		}
		for i := start; i < nU; i++ {
			rec(i+1, append(cur, uni[i]))
		}
	}
	rec(0, nil)
	c.Notes = append(c.Notes, fmt.Sprintf("exhaustive-tiny: universe %d strings, all key sets of size 1-2, 1/8 sample of sizes 3-4: %d sets", nU, cnt))
}

// expected scan output from the oracle
func (cs *Case) scanItems(start string, incl bool, end *string, inclEnd bool, withVal bool, stopAfter int, pad int) string {
	var sb strings.Builder
	cnt := 0
	for i, k := range cs.RKeys {
		if k < start || (k == start && !incl) {
			continue
		}
		if end != nil && (k > *end || (k == *end && !inclEnd)) {
			break
		}
		v := "nil"
		if withVal && !cs.leavesNil() {
			v = lp.X(cs.RVals[i])
		}
		sb.WriteString(lp.XS(k) + "=" + v + ";")
		cnt++
		if cnt == stopAfter {
			break
		}
	}
	for i := 0; i < pad; i++ {
		sb.WriteString("nil=nil;")
	}
	return compact(sb.String())
}

func b2s(b bool) string {
	if b {
		return "1"
	}
	return "0"
}

// genC04: scans on Complete tries; refusal on the 12 incomplete combinations.
func genC04(c *lp.Ctx) {
	n := c.Pick(250, 800)
	size := c.Pick(200, 1000)
	for it := 0; it < n; it++ {
		ks := gen.Any(c.Rng, size)
		cs := NewCase(c.Rng, ks, completeFlags(c.Rng), "")
		c.Case(cs.Key(), len(cs.Keys) >= 2)
		if !build(c, cs) {
			continue
		}
		maybeReload(c, cs)
		qs := gen.Queries(c.Rng, cs.Keys, c.Pick(12, 40))
		for _, q := range qs {
			for _, incl := range []bool{true, false} {
				withVal := c.Rng.Intn(2) == 0
				// NewIter: to exhaustion plus 3 more calls
				cntGE := 0
				for _, k := range cs.RKeys {
					if k > q || (k == q && incl) {
						cntGE++
					}
				}
				op := fmt.Sprintf("trie.iter %s %s %s %d", lp.XS(q), b2s(incl), b2s(withVal), cntGE+3)
				want := cs.scanItems(q, incl, nil, false, withVal, -1, 3)
				if got := c.Do(op); got != want {
					cs.viol(c, "NewIter yields the retained entries >= start then exhaustion", op, want, got)
				}
				// ScanFrom with a callback stop point
				stop := -1
				if c.Rng.Intn(2) == 0 {
					stop = 1 + c.Rng.Intn(cntGE+1)
				}
				op = fmt.Sprintf("trie.scan %s %s %s %d", lp.XS(q), b2s(incl), b2s(withVal), stop)
				want = cs.scanItems(q, incl, nil, false, withVal, stop, 0)
				if got := c.Do(op); got != want {
					cs.viol(c, "ScanFrom", op, want, got)
				}
				// ScanFromTo
				end := qs[c.Rng.Intn(len(qs))]
				inclEnd := c.Rng.Intn(2) == 0
				op = fmt.Sprintf("trie.scanft %s %s %s %s %s %d", lp.XS(q), b2s(incl), lp.XS(end), b2s(inclEnd), b2s(withVal), stop)
				want = cs.scanItems(q, incl, &end, inclEnd, withVal, stop, 0)
				if got := c.Do(op); got != want {
					cs.viol(c, "ScanFromTo", op, want, got)
				}
			}
		}
	}
	// refusal: all 12 incomplete combinations x key sets
	m := c.Pick(60, 200)
	for it := 0; it < m; it++ {
		ks := gen.Any(c.Rng, 30)
		if len(ks.Keys) == 0 {
			continue
		}
		for _, d := range "tf" {
			for _, fl := range []string{"fff", "tff", "ftf"} { // inner,leaf: none / inner only / leaf only
				flags := string(d) + fl
				if c.Rng.Intn(2) == 0 {
					flags = strings.Replace(flags, "f", "n", 1)
				}
				cs := NewCase(c.Rng, ks, flags, "")
				c.Case("refuse|"+cs.Key(), true)
				if !build(c, cs) {
					continue
				}
				c.Hit("refusal:" + fl)
				q := lp.XS(cs.Keys[c.Rng.Intn(len(cs.Keys))])
				for _, op := range []string{
					"trie.iter " + q + " 1 1 2",
					"trie.scan x 1 0 -1",
					"trie.scanft x 1 " + q + " 1 1 -1",
				} {
					if got := c.Do(op); got != "panic" {
						cs.viol(c, "scan on an incomplete trie must refuse", op, "panic", got)
					}
				}
			}
		}
	}
}

// genC09: Search on every retained key gives exact neighbours in every mode.
func genC09(c *lp.Ctx) {
	n := c.Pick(400, 1200)
	size := c.Pick(250, 1500)
	for it := 0; it < n; it++ {
		ks := gen.Any(c.Rng, size)
		cs := NewCase(c.Rng, ks, "", "")
		c.Case(cs.Key(), len(cs.RKeys) >= 3)
		if !build(c, cs) {
			continue
		}
		maybeReload(c, cs)
		for i, k := range cs.RKeys {
			op := "trie.search " + lp.XS(k)
			want := cs.valTok(i-1) + " " + cs.valTok(i) + " " + cs.valTok(i+1)
			if got := c.Do(op); got != want {
				cs.viol(c, "Search on a retained key", op, want, got)
			}
		}
	}
}

// genC10: totality and consistency of lookups for arbitrary queries in every mode.
func genC10(c *lp.Ctx) {
	n := c.Pick(300, 1000)
	size := c.Pick(220, 1200)
	for it := 0; it < n; it++ {
		ks := gen.Any(c.Rng, size)
		cs := NewCase(c.Rng, ks, "", "")
		c.Case(cs.Key(), true)
		if !build(c, cs) {
			continue
		}
		maybeReload(c, cs)
		supplied := map[string]bool{"f nil": cs.leavesNil()}
		for _, v := range cs.Vals {
			supplied["f "+lp.X(v)] = true
		}
		qs := append(gen.Queries(c.Rng, cs.Keys, c.Pick(50, 200)), gen.HostileQueries(c.Rng, cs.Keys)...)
		for _, q := range qs {
			x := lp.XS(q)
			g := c.Do("trie.get " + x)
			id := c.Do("trie.id " + x)
			rg := c.Do("trie.rget " + x)
			se := c.Do("trie.search " + x)
			for _, a := range [][2]string{{"trie.get", g}, {"trie.id", id}, {"trie.rget", rg}, {"trie.search", se}} {
				if a[1] == "panic" || strings.HasPrefix(a[1], "nf-with") {
					cs.viol(c, "lookup must be total", a[0]+" "+x, "no panic", a[1])
				}
			}
			if g == "panic" || id == "panic" || rg == "panic" || se == "panic" {
				continue
			}
			found := g != "nf"
			if found != (id != "-1") {
				cs.viol(c, "Get and GetID agree on found", "trie.id "+x, g, id)
			}
			parts := strings.Split(se, " ")
			if len(parts) == 3 && !cs.leavesNil() {
				if found != (parts[1] != "nil") || (found && "f "+parts[1] != g) {
					cs.viol(c, "Get and Search(eq) agree", "trie.search "+x, g, se)
				}
			}
			if found {
				if !supplied[g] {
					cs.viol(c, "a hit carries a supplied value", "trie.get "+x, "one of the supplied values", g)
				}
				if rg != g {
					cs.viol(c, "RangeGet reports found whenever Get does, same value", "trie.rget "+x, g, rg)
				}
			}
			if rg != "nf" && !supplied[rg] {
				cs.viol(c, "a RangeGet hit carries a supplied value", "trie.rget "+x, "one of the supplied values", rg)
			}
		}
	}
}

// genC13: more stored key information only removes false positives.
func genC13(c *lp.Ctx) {
	n := c.Pick(120, 400)
	size := c.Pick(200, 1000)
	modes := []string{"ff", "tf", "ft", "tt"} // inner, leaf
	for it := 0; it < n; it++ {
		ks := gen.Any(c.Rng, size)
		if it == 1 {
			ks = gen.HugeTailSet(c.Rng) // leaf tails of 64 KiB and more
		}
		base := NewCase(c.Rng, ks, "tfff", "")
		d := "tf"[c.Rng.Intn(2)]
		qs := append(gen.Queries(c.Rng, base.Keys, c.Pick(50, 200)), gen.HostileQueries(c.Rng, base.Keys)...)
		ans := map[string][]string{}
		var cases []*Case
		for _, m := range modes {
			cs := *base
			cs.Flags = string(d) + m + "f"
			if m == "tt" && c.Rng.Intn(3) != 0 {
				// Complete spelled in every way: it overrides nil, true AND an explicit false of the two
				// prefix options
				cs.Flags = string(d) + []string{"nn", "ff", "fn", "nf", "tf", "ft", "fn", "nt"}[c.Rng.Intn(8)] + "t"
			}
			cs.Dedup, cs.Inner, cs.Leaf = normalize(cs.Flags)
			cs.oracle()
			c.Case(cs.Key(), len(cs.Keys) >= 2)
			if !build(c, &cs) {
				continue
			}
			cc := cs
			cases = append(cases, &cc)
			for _, q := range qs {
				ans[m] = append(ans[m], c.Do("trie.get "+lp.XS(q)))
			}
		}
		if len(ans) != 4 {
			continue
		}
		less := [][2]string{{"tt", "tf"}, {"tt", "ft"}, {"tt", "ff"}, {"tf", "ff"}, {"ft", "ff"}}
		for qi, q := range qs {
			for _, p := range less {
				rich, poor := ans[p[0]][qi], ans[p[1]][qi]
				if rich != "nf" && rich != poor {
					base.viol(c, fmt.Sprintf("found in mode %s must be found with the same value in mode %s", p[0], p[1]),
						"trie.get "+lp.XS(q), rich, poor)
				}
			}
			// Complete reports found only for retained keys; all modes agree on retained keys
			cs := cases[3]
			i, isKey := cs.SpecGet(q)
			if (ans["tt"][qi] != "nf") != isKey {
				base.viol(c, "Complete reports found only for retained keys", "trie.get "+lp.XS(q), fmt.Sprint(isKey), ans["tt"][qi])
			}
			if isKey {
				want := cs.valAns(cs.RVals[i])
				for _, m := range modes {
					if ans[m][qi] != want {
						base.viol(c, "every mode answers retained keys identically ("+m+")", "trie.get "+lp.XS(q), want, ans[m][qi])
					}
				}
			}
		}
	}
}

// genC14: typed integer getters agree with Get.
// genC14empty: the typed getters on tries WITHOUT keys: built from the empty key list (every option spelling),
// a fresh unloaded instance, after Reset, and the empty trie's own stream loaded.  Get answers (nil, false) for every
// query; the typed getters must answer (0, false) — not panic.
func genC14empty(c *lp.Ctx) {
	encs := []string{"i8", "i16", "i32", "i64"}
	qs := []string{"", "a", "\x00", "\xff\xff", "abc"}
	for it := 0; it < c.Pick(24, 80); it++ {
		enc := encs[it%4]
		switch (it / 4) % 4 {
		case 0:
			c.Do("trie.new " + randFlags(c.Rng) + " " + enc)
			c.Hit("empty:built-from-no-keys")
		case 1:
			c.Do("trie.fresh " + enc)
			c.Hit("empty:fresh-instance")
		case 2:
			cs := NewCase(c.Rng, gen.Any(c.Rng, 40), "", enc)
			c.Do(cs.Line())
			c.Do("trie.reset")
			c.Hit("empty:after-reset")
		default:
			c.Do("trie.new " + randFlags(c.Rng) + " " + enc)
			c.Do("trie.reload")
			c.Hit("empty:loaded-empty-stream")
		}
		c.Case(fmt.Sprintf("empty|%d", it), true)
		for _, q := range qs {
			x := lp.XS(q)
			g := c.Do("trie.get " + x)
			t := c.Do("trie.get" + enc + " " + x)
			if g != "nf" || t != "nf 0" {
				c.Violate(lp.Violation{What: "typed getter agrees with Get on a trie without keys", Script: []string{"(empty trie, encoder " + enc + ")", "trie.get" + enc + " " + x},
					Expected: "nf / nf 0", Got: g + " / " + t})
				break
			}
		}
	}
}

func genC14(c *lp.Ctx) {
	genC14empty(c)
	n := c.Pick(300, 1000)
	size := c.Pick(220, 1200)
	encs := []string{"i8", "i16", "i32", "i64"}
	for it := 0; it < n; it++ {
		ks := gen.Any(c.Rng, size)
		if len(ks.Keys) == 0 {
			continue
		}
		enc := encs[c.Rng.Intn(4)]
		cs := NewCase(c.Rng, ks, "", enc)
		c.Case(cs.Key(), true)
		if !build(c, cs) {
			continue
		}
		maybeReload(c, cs)
		qs := append(gen.Queries(c.Rng, cs.Keys, c.Pick(40, 150)), gen.HostileQueries(c.Rng, cs.Keys)...)
		for _, q := range qs {
			x := lp.XS(q)
			g := c.Do("trie.get " + x)
			t := c.Do("trie.get" + enc + " " + x)
			want := "nf 0"
			if g != "nf" && strings.HasPrefix(g, "f x") {
				b := unhex(g[2:])
				var v int64
				for i := len(b) - 1; i >= 0; i-- {
					v = v<<8 | int64(b[i])
				}
				sh := uint(64 - 8*len(b))
				v = v << sh >> sh
				want = fmt.Sprintf("f %d", v)
			}
			if t != want {
				cs.viol(c, "typed getter agrees with Get", "trie.get"+enc+" "+x, want, t)
			}
		}
	}
}

// genC18: Stat.
// genC18others: Stat of a trie must not change when OTHER tries are built, loaded or reset later in the same
// process (level tables sharing a backing array, package-level templates).
func genC18others(c *lp.Ctx) {
	for it := 0; it < c.Pick(40, 200); it++ {
		a := NewCase(c.Rng, gen.Any(c.Rng, c.Pick(60, 300)), "", "")
		if c.Do(a.Line()) != "ok" {
			continue
		}
		sa := c.Do("trie.stat")
		a.checkStat(c, sa)
		c.Do("trie.stash A")
		for k := 0; k < 1+c.Rng.Intn(3); k++ {
			b := NewCase(c.Rng, gen.Any(c.Rng, c.Pick(60, 300)), "", "")
			if c.Do(b.Line()) != "ok" {
				continue
			}
			b.checkStat(c, c.Do("trie.stat"))
			if c.Rng.Intn(2) == 0 {
				c.Do("trie.reload")
			}
			if c.Rng.Intn(3) == 0 {
				c.Do("trie.reset")
			}
		}
		c.Do("trie.unstash A")
		c.Hit("history:stat(A),build/load/reset others,stat(A)")
		c.Case(a.Key()+"/others", true)
		if got := c.Do("trie.stat"); got != sa {
			a.viol(c, "Stat of a trie is unchanged by building, loading or resetting OTHER tries", "trie.stat", sa, got)
		}
	}
}

func genC18(c *lp.Ctx) {
	genC18others(c)
	n := c.Pick(500, 1500)
	size := c.Pick(300, 2000)
	for it := 0; it < n; it++ {
		ks := gen.Any(c.Rng, size)
		cs := NewCase(c.Rng, ks, "", "")
		c.Case(cs.Key(), len(cs.Keys) >= 2)
		if !build(c, cs) {
			continue
		}
		fresh := c.Do("trie.stat")
		cs.checkStat(c, fresh)
		if got := c.Do("trie.reload"); got != "ok" {
			cs.viol(c, "reload", "trie.reload", "ok", got)
			continue
		}
		if got := c.Do("trie.stat"); got != fresh {
			cs.viol(c, "Stat unchanged by a marshal round trip", "trie.stat", fresh, got)
		}
		if it%4 == 1 {
			// HISTORY: the caller edits the report it was handed (rows, counts) and asks again: the report is the
			// caller's own copy, a later Stat is unaffected
			c.Do("trie.stat-scribble")
			if got := c.Do("trie.stat"); got != fresh {
				cs.viol(c, "Stat is unaffected by a caller that edits an earlier report in place", "trie.stat-scribble; trie.stat", fresh, got)
			}
			c.Hit("history:stat,edit-the-report,stat")
		}
		if it%4 == 0 {
			// HISTORY: Stat was asked, then the instance is emptied: it must report the empty trie
			c.Do("trie.reset")
			got := c.Do("trie.stat")
			if !strings.Contains(got, " keys=0 nodes=0") {
				cs.viol(c, "after Reset Stat reports the empty trie (0 keys, 0 nodes)", "trie.reset; trie.stat", "… keys=0 nodes=0", got)
			}
			c.Hit("history:stat,reset,stat")
		}
	}
}

// genC14history: typed getters after Unmarshal into an instance that already
// served typed gets on other data (a stale cache would answer from the old leaves).
func genC14history(c *lp.Ctx) {
	n := c.Pick(80, 300)
	encs := []string{"i8", "i16", "i32", "i64"}
	for it := 0; it < n; it++ {
		enc := encs[c.Rng.Intn(4)]
		a := NewCase(c.Rng, gen.Any(c.Rng, 120), "", enc)
		b := NewCase(c.Rng, gen.Any(c.Rng, 120), "", enc)
		if len(a.Keys) == 0 || len(b.Keys) == 0 {
			continue
		}
		// stream of B
		if lp.Exec(b.Line()) != "ok" {
			continue
		}
		bufB := currentStream()
		if bufB == nil {
			continue
		}
		c.Case("hist|"+a.Key()+"|"+b.Key(), true)
		if !build(c, a) {
			continue
		}
		c.Hit("history:typed-get,unmarshal,typed-get")
		for i, k := range a.RKeys {
			if i < 5 {
				c.Do("trie.get" + enc + " " + lp.XS(k))
			}
		}
		if got := c.Do("trie.unmarshal " + lp.X(bufB)); got != "ok" {
			b.viol(c, "load of a valid stream", "trie.unmarshal", "ok", got)
			continue
		}
		for _, q := range gen.Queries(c.Rng, b.Keys, 30) {
			x := lp.XS(q)
			g := c.Do("trie.get " + x)
			t := c.Do("trie.get" + enc + " " + x)
			want := "nf 0"
			if strings.HasPrefix(g, "f x") {
				bs := unhex(g[2:])
				var v int64
				for j := len(bs) - 1; j >= 0; j-- {
					v = v<<8 | int64(bs[j])
				}
				sh := uint(64 - 8*len(bs))
				v = v << sh >> sh
				want = fmt.Sprintf("f %d", v)
			}
			if t != want {
				c.Violate(lp.Violation{What: "typed getter agrees with Get after Unmarshal into a used instance",
					Script: []string{a.Line(), "trie.get" + enc + " " + lp.XS(a.RKeys[0]), "trie.unmarshal " + lp.X(bufB), "trie.get" + enc + " " + x}, Expected: want, Got: t})
			}
		}
	}
}

func (cs *Case) checkStat(c *lp.Ctx, s string) {
	var levelCnt, keys, nodes int
	var lv string
	if _, err := fmt.Sscanf(s, "levelcnt=%d levels=%s keys=%d nodes=%d", &levelCnt, &lv, &keys, &nodes); err != nil {
		cs.viol(c, "Stat parse", "trie.stat", "levelcnt=.. levels=.. keys=.. nodes=..", s)
		return
	}
	bad := func(what string) { cs.viol(c, what, "trie.stat", "", s) }
	if keys != len(cs.RKeys) {
		cs.viol(c, "KeyCnt = number of retained keys", "trie.stat", fmt.Sprint(len(cs.RKeys)), s)
	}
	if len(cs.Keys) == 0 && nodes != 0 {
		bad("empty trie: 0 nodes")
	}
	if len(cs.Keys) == 1 && (nodes != 1 || keys != 1) {
		bad("single key: 1 key 1 node")
	}
	var pt, pi, pl int
	ls := strings.Split(lv, ",")
	if len(ls) != levelCnt {
		bad("LevelCnt = len(Levels)")
	}
	for k, l := range ls {
		var t, i, f int
		fmt.Sscanf(l, "%d/%d/%d", &t, &i, &f)
		if t != i+f {
			bad("level total = inner + leaf")
		}
		if t < pt || i < pi || f < pl {
			bad("cumulative level counts never decrease")
		}
		pt, pi, pl = t, i, f
		if k == len(ls)-1 && (t != nodes || (len(cs.Keys) > 0 && f != keys)) {
			bad("last level = totals")
		}
	}
}

// genC19: String().
func genC19(c *lp.Ctx) {
	n := c.Pick(300, 1000)
	size := c.Pick(300, 2500)
	for it := 0; it < n; it++ {
		var ks gen.KeySet
		switch c.Rng.Intn(3) {
		case 0:
			ks = gen.Regular(c.Rng, size) // short nodes
		case 1:
			ks = gen.BigNodes(c.Rng, size)
		default:
			ks = gen.Any(c.Rng, size)
		}
		enc := []string{"none", "i8", "i16", "i32", "i64", "u16", "u32", "u64", "int", "raw", "bytes3"}[c.Rng.Intn(11)]
		cs := NewCase(c.Rng, ks, "", enc)
		c.Case(cs.Key(), len(cs.Keys) >= 2)
		if !build(c, cs) {
			continue
		}
		a := c.Do("trie.string")
		if a == "panic" {
			cs.viol(c, "String() must not panic", "trie.string", "a rendering", a)
			continue
		}
		cs.checkString(c)
		if got := c.Do("trie.reload"); got != "ok" {
			continue
		}
		if b := c.Do("trie.string"); b != a {
			cs.viol(c, "a loaded trie renders identically", "trie.string", a, b)
		}
	}
}

// checkString inspects the real rendering (not through the protocol): each
// node once, leaf values top to bottom = retained values in key order.
func (cs *Case) checkString(c *lp.Ctx) {
	if S.St == nil {
		return
	}
	str, msg := lp.CatchMsg(func() string { return S.St.String() })
	if msg != "" {
		return
	}
	st := S.St.Stat()
	if len(cs.Keys) == 0 {
		if str != "" {
			cs.viol(c, "empty trie renders empty", "trie.string", "", str)
		}
		return
	}
	// the line structure can only be read back when no rendered value contains a
	// line break or the markers '=' / '#': otherwise only the model comparison applies
	if !cs.leavesNil() {
		for i := range cs.RKeys {
			_, v := decodeOne(S.Enc, cs.RVals[i])
			if strings.ContainsAny(fmt.Sprintf("%v", v), "\n=#") {
				c.Hit("string:structure-check-skipped(value contains a line break or marker)")
				return
			}
		}
	}
	lines := strings.Split(str, "\n")
	if len(lines) != int(st.NodeCnt) {
		cs.viol(c, "rendering shows each node exactly once (line count = node count)", "trie.string", fmt.Sprint(st.NodeCnt), fmt.Sprint(len(lines)))
		return
	}
	seen := map[string]bool{}
	var leafVals []string
	for _, l := range lines {
		i := strings.Index(l, "#")
		if i < 0 || len(l) < i+4 {
			cs.viol(c, "node line has an id", "trie.string", "#ddd", l)
			return
		}
		id := l[i+1 : i+4]
		if seen[id] && st.NodeCnt < 1000 {
			cs.viol(c, "node id rendered twice", "trie.string", "each once", id)
			return
		}
		seen[id] = true
		if j := strings.Index(l[i:], "="); j >= 0 {
			leafVals = append(leafVals, l[i+j+1:])
		}
	}
	if len(leafVals) != len(cs.RKeys) {
		cs.viol(c, "one leaf line per retained key", "trie.string", fmt.Sprint(len(cs.RKeys)), fmt.Sprint(len(leafVals)))
		return
	}
	for i := range cs.RKeys {
		want := "<nil>"
		if !cs.leavesNil() {
			_, v := decodeOne(S.Enc, cs.RVals[i])
			want = fmt.Sprintf("%v", v)
		}
		if leafVals[i] != want {
			cs.viol(c, "leaf lines top to bottom carry the retained values in key order", "trie.string", want, leafVals[i])
			return
		}
	}
}

func init() {
	lp.RegisterGen("C02", genC02)
	lp.RegisterGen("C03", genC03)
	lp.RegisterGen("C04", genC04)
	lp.RegisterGen("C09", genC09)
	lp.RegisterGen("C10", genC10)
	lp.RegisterGen("C13", genC13)
	lp.RegisterGen("C14", genC14)
	lp.RegisterGen("C14", genC14history)
	lp.RegisterGen("C18", genC18)
	lp.RegisterGen("C19", genC19)
	lp.RegisterGen("C19", func(c *lp.Ctx) {
		bigShapes(c, func(cs *Case) {
			// the model reads a leaf value in time linear in the value section: rendering is
			// quadratic there, so the largest shape is rendered by the implementation only
			if len(cs.Keys) <= 20000 {
				if a := c.Do("trie.string"); a == "panic" {
					cs.viol(c, "String() must not panic", "trie.string", "a rendering", a)
				}
			} else if _, msg := lp.CatchMsg(func() string { return S.St.String() }); msg != "" {
				cs.viol(c, "String() must not panic", "trie.string", "a rendering", "panic: "+msg)
			}
			cs.checkString(c)
			c.Do("trie.stat")
		})
	})
	lp.RegisterGen("C18", func(c *lp.Ctx) {
		bigShapes(c, func(cs *Case) { cs.checkStat(c, c.Do("trie.stat")) })
	})
}
