import SlimProofs.Transport
import SlimProps.C01
import SlimProps.C09
import SlimProps.C10Agree
/-
  SlimProps.L2Transport — the L1 property theorems (about `t.view`, the record array) carried to
  L2: `L2view t = Slim.view (Slim.encode t)`, the bit-level view of the `Slim` message that
  `creator.build` produces, through `Transport.viewSim_encode`.

  Every theorem takes `hf : Transport.EncodeFacts t` — the three bit-level facts
  (`getNode (encode t) id = .ok t.nodes[id]`, the `Leaves` array returns the L1 leaf bytes, the
  node-type bitmap covers every node) that are proved elsewhere — as an explicit hypothesis
  (`…_L2_of`); plugging the proofs of those facts in gives the unconditional L2 statements.

  * C01: `C01_get_retained_L2_of`, `C01_get_retained_bytes_L2_of`
  * C09: `C09_search_retained_L2_of`, `C09_search_retained_R_L2_of`
  * C10: the any-view theorems of `SlimProps.C10Agree` (parts A, B) already hold for `L2view t`
         (they quantify over every `View`); stated here as `C10_rangeGet_extends_get_L2`,
         `C10_search_hit_of_get_hit_L2`.  The full agreement of part D on L2:
         `C10_searchID_eq_getID_L2_of`, `C10_search_eq_get_L2_of` — whenever the L1 lookups
         return normally, the L2 lookups return the same answers, and these agree.
  * generic: `L2_getID_of`, `L2_get_of`, `L2_searchID_of`, `L2_search_of`, `L2_rangeGet_of`,
             `L2_getGEPath_of`, `L2_newIterFrom_of`, `L2_iterNext_of`, `L2_iterTake_of`,
             `L2_scanFrom_of`, `L2_scanFromTo_of`
-/

/-- the bit-level view of the message `creator.build` produces for `t` -/
abbrev L2view (t : Trie1) : View := Slim.view (Slim.encode t)

open Transport

/-! ### generic transport of lookup results L1 → L2 -/

theorem L2_getID_of (t : Trie1) (hf : EncodeFacts t) (key : Bytes) (r : Option Nat)
    (h : getID t.view key = .ok r) : getID (L2view t) key = .ok r :=
  getID_le (viewSim_encode t hf) key r h

theorem L2_get_of (t : Trie1) (hf : EncodeFacts t) (key : Bytes) (r : Option (Option Bytes))
    (h : get t.view key = .ok r) : get (L2view t) key = .ok r :=
  get_le (viewSim_encode t hf) key r h

theorem L2_searchID_of (t : Trie1) (hf : EncodeFacts t) (key : Bytes)
    (r : Option Nat × Option Nat × Option Nat)
    (h : searchID t.view key = .ok r) : searchID (L2view t) key = .ok r :=
  searchID_le (viewSim_encode t hf) key r h

theorem L2_search_of (t : Trie1) (hf : EncodeFacts t) (key : Bytes)
    (r : Option (Option Bytes) × Option (Option Bytes) × Option (Option Bytes))
    (h : search t.view key = .ok r) : search (L2view t) key = .ok r :=
  search_le (viewSim_encode t hf) key r h

theorem L2_rangeGet_of (t : Trie1) (hf : EncodeFacts t) (key : Bytes)
    (r : Option (Option Bytes))
    (h : rangeGet t.view key = .ok r) : rangeGet (L2view t) key = .ok r :=
  rangeGet_le (viewSim_encode t hf) key r h

/-! ### generic transport of scan results L1 → L2 -/

theorem L2_getGEPath_of (t : Trie1) (hf : EncodeFacts t) (key : Bytes) (r : Scan.GEPath)
    (h : Scan.getGEPath t.view key = .ok r) : Scan.getGEPath (L2view t) key = .ok r :=
  getGEPath_le (viewSim_encode t hf) key r h

theorem L2_newIterFrom_of (t : Trie1) (hf : EncodeFacts t) (start : Bytes) (incl : Bool)
    (r : Scan.IterState) (h : Scan.newIterFrom t.view start incl = .ok r) :
    Scan.newIterFrom (L2view t) start incl = .ok r :=
  newIterFrom_le (viewSim_encode t hf) start incl r h

theorem L2_iterNext_of (t : Trie1) (hf : EncodeFacts t) (withValue : Bool) (st : Scan.IterState)
    (r : Scan.IterState × Option Bytes × Option Bytes)
    (h : Scan.iterNext t.view withValue st = .ok r) :
    Scan.iterNext (L2view t) withValue st = .ok r :=
  iterNext_le (viewSim_encode t hf) withValue st r h

theorem L2_iterTake_of (t : Trie1) (hf : EncodeFacts t) (withValue : Bool) (k : Nat)
    (st : Scan.IterState) (r : List (Option Bytes × Option Bytes))
    (h : Scan.iterTake t.view withValue k st = .ok r) :
    Scan.iterTake (L2view t) withValue k st = .ok r :=
  iterTake_le (viewSim_encode t hf) withValue k st r h

theorem L2_scanFrom_of (t : Trie1) (hf : EncodeFacts t) (start : Bytes) (incl withValue : Bool)
    (keep : Bytes → Bool) (stopAfter : Option Nat) (r : List (Bytes × Option Bytes))
    (h : Scan.scanFrom t.view start incl withValue keep stopAfter = .ok r) :
    Scan.scanFrom (L2view t) start incl withValue keep stopAfter = .ok r :=
  scanFrom_le (viewSim_encode t hf) start incl withValue keep stopAfter r h

theorem L2_scanFromTo_of (t : Trie1) (hf : EncodeFacts t) (start : Bytes) (incl : Bool)
    (stop : Bytes) (inclEnd withValue : Bool) (stopAfter : Option Nat)
    (r : List (Bytes × Option Bytes))
    (h : Scan.scanFromTo t.view start incl stop inclEnd withValue stopAfter = .ok r) :
    Scan.scanFromTo (L2view t) start incl stop inclEnd withValue stopAfter = .ok r :=
  scanFromTo_le (viewSim_encode t hf) start incl stop inclEnd withValue stopAfter r h

/-! ### C01 at L2 -/

/-- C01 at L2: every retained key is found in the encoded trie, with its own value. -/
theorem C01_get_retained_L2_of (keys : List Bytes) (vals : Option (List Bytes)) (opt : Opt)
    (t : Trie1) (hb : build keys vals opt = .ok t) (hf : EncodeFacts t)
    (i : Nat) (hi : i < keys.length)
    (hk : keptAt (keepMask keys.length vals opt.dedup) i = true) :
    (∃ id, getID (L2view t) (keys.getD i []) = .ok (some id)) ∧
    get (L2view t) (keys.getD i []) = .ok (some (expectedValue vals t i)) := by
  obtain ⟨⟨id, hid⟩, hget⟩ := C01_get_retained keys vals opt t hb i hi hk
  exact ⟨⟨id, L2_getID_of t hf _ _ hid⟩, L2_get_of t hf _ _ hget⟩

theorem C01_get_retained_bytes_L2_of (keys : List Bytes) (vals : Option (List Bytes)) (opt : Opt)
    (t : Trie1) (hb : build keys vals opt = .ok t) (hf : EncodeFacts t)
    (i : Nat) (hi : i < keys.length)
    (hk : keptAt (keepMask keys.length vals opt.dedup) i = true) :
    ∃ r, get (L2view t) (keys.getD i []) = .ok (some r) ∧
      (vals = none → r = none) ∧ (∀ vs, vals = some vs → r.getD [] = vs.getD i []) := by
  obtain ⟨r, hget, h1, h2⟩ := C01_get_retained_bytes keys vals opt t hb i hi hk
  exact ⟨r, L2_get_of t hf _ _ hget, h1, h2⟩

/-! ### C09 at L2 -/

theorem C09_search_retained_L2_of (keys : List Bytes) (vals : Option (List Bytes)) (opt : Opt)
    (t : Trie1) (hb : build keys vals opt = .ok t) (hne : keys ≠ []) (hf : EncodeFacts t)
    (m : Nat) (hm : m < keys.length)
    (hk : keptAt (keepMask keys.length vals opt.dedup) m = true) :
    search (L2view t) (keys.getD m []) =
      .ok (valOf (keepMask keys.length vals opt.dedup) vals
             (prevKept (keepMask keys.length vals opt.dedup) m),
           valOf (keepMask keys.length vals opt.dedup) vals (some m),
           valOf (keepMask keys.length vals opt.dedup) vals
             (nextKept (keepMask keys.length vals opt.dedup) m)) :=
  L2_search_of t hf _ _ (C09_search_retained keys vals opt t hb hne m hm hk)

theorem C09_search_retained_R_L2_of (keys : List Bytes) (vals : Option (List Bytes)) (opt : Opt)
    (t : Trie1) (hb : build keys vals opt = .ok t) (hne : keys ≠ []) (hf : EncodeFacts t)
    (i : Nat) (e : Entry) (hi : (retained keys vals opt.dedup)[i]? = some e) :
    search (L2view t) e.1 =
      .ok (shownVal (retained keys vals opt.dedup)
             (if i = 0 then none else (retained keys vals opt.dedup)[i - 1]?),
           shownVal (retained keys vals opt.dedup) (some e),
           shownVal (retained keys vals opt.dedup) (retained keys vals opt.dedup)[i + 1]?) :=
  L2_search_of t hf _ _ (C09_search_retained_R keys vals opt t hb hne i e hi)

/-! ### C10 at L2 -/

/-- any-view part of C10, instantiated at L2 (no hypothesis on the encoding needed) -/
theorem C10_rangeGet_extends_get_L2 (t : Trie1) (key : Bytes) (x : Option Bytes)
    (y : Option (Option Bytes))
    (hg : get (L2view t) key = .ok (some x)) (hr : rangeGet (L2view t) key = .ok y) :
    y = some x :=
  C10_rangeGet_extends_get (L2view t) key x y hg hr

theorem C10_search_hit_of_get_hit_L2 (t : Trie1) (key : Bytes) (x : Option Bytes)
    (y : Option (Option Bytes) × Option (Option Bytes) × Option (Option Bytes))
    (hg : get (L2view t) key = .ok (some x)) (hs : search (L2view t) key = .ok y) :
    y.2.1 = some x :=
  C10_search_hit_of_get_hit (L2view t) key x y hg hs

/-- C10 (ids) at L2: on the encoding of every built trie, for every query key on which the L1
    lookups return normally, the L2 lookups return the same answers, and the exact-match id of
    `searchID` is `GetID`'s answer. -/
theorem C10_searchID_eq_getID_L2_of (keys : List Bytes) (vals : Option (List Bytes)) (opt : Opt)
    (t : Trie1) (hb : build keys vals opt = .ok t) (hf : EncodeFacts t) (key : Bytes)
    (a : Option Nat) (b : Option Nat × Option Nat × Option Nat)
    (hg : getID t.view key = .ok a) (hs : searchID t.view key = .ok b) :
    getID (L2view t) key = .ok a ∧ searchID (L2view t) key = .ok b ∧ b.2.1 = a :=
  ⟨L2_getID_of t hf key a hg, L2_searchID_of t hf key b hs,
    C10_searchID_eq_getID keys vals opt t hb key a b hg hs⟩

/-- C10 (values) at L2. -/
theorem C10_search_eq_get_L2_of (keys : List Bytes) (vals : Option (List Bytes)) (opt : Opt)
    (t : Trie1) (hb : build keys vals opt = .ok t) (hf : EncodeFacts t) (key : Bytes)
    (a : Option (Option Bytes))
    (y : Option (Option Bytes) × Option (Option Bytes) × Option (Option Bytes))
    (hg : get t.view key = .ok a) (hs : search t.view key = .ok y) :
    get (L2view t) key = .ok a ∧ search (L2view t) key = .ok y ∧ y.2.1 = a :=
  ⟨L2_get_of t hf key a hg, L2_search_of t hf key y hs,
    C10_search_eq_get keys vals opt t hb key a y hg hs⟩

/-! ### non-vacuity

  * `EncodeFacts` is satisfiable: proved here for the empty trie (kernel-checked), and checked by
    *evaluation in the interpreter* (`#guard`, a build-time test — NOT a proof and not used by
    any theorem; the kernel needs > 10 s to evaluate `Slim.encode` even on two keys) on a
    concrete five-key trie in three option modes, together with the agreement of the L1 and L2
    answers of `Get` that the theorems above predict.
  * the hypotheses of the transport lemmas (`ViewSim`) are satisfiable: `viewSim_encode`. -/
namespace L2Transport.Ex

theorem encodeFacts_empty (opt : Opt) : EncodeFacts (Trie1.empty opt) where
  node := by intro id h; simp [Trie1.empty] at h
  leaf := by
    intro ith r h
    simp only [Trie1.view, Trie1.empty] at h
    simpa [Slim.view, Slim.encode, Trie1.empty] using h
  cnt := by simp [Trie1.empty]

def keys : List Bytes := [[0x61], [0x61, 0x62], [0x61, 0x80, 0x01], [0x62, 0xff], [0xf0]]
def vals : List Bytes := [[1], [1], [2], [2, 0], [3]]

/-- the decidable content of `EncodeFacts` on a concrete trie: every node decodes to its record,
    every leaf ordinal returns the L1 bytes, the bitmap covers the nodes; and the L2 lookups of
    every key return what the L1 lookups return -/
def check (opt : Opt) : Bool :=
  match build keys (some vals) opt with
  | .error _ => false
  | .ok t =>
    (List.range t.nodes.size).all (fun id =>
      match Slim.getNode (Slim.encode t) id, t.nodes[id]? with
      | .ok a, some b => a == b
      | _, _ => false) &&
    (List.range (t.leafKeyIdx.size + 1)).all (fun ith =>
      match t.view.leafBytes ith with
      | .ok r => (match (L2view t).leafBytes ith with | .ok r' => r == r' | _ => false)
      | .error _ => true) &&
    decide (t.nodes.size ≤ Slim.nodeCount (Slim.encode t)) &&
    keys.all (fun k =>
      match get t.view k, get (L2view t) k with
      | .ok a, .ok b => a == b
      | _, _ => false)

#guard check {}
#guard check { dedup := true, inner := true, leaf := true }
#guard check { dedup := false, inner := false, leaf := true }

end L2Transport.Ex

#print axioms C01_get_retained_L2_of
#print axioms C01_get_retained_bytes_L2_of
#print axioms C09_search_retained_L2_of
#print axioms C09_search_retained_R_L2_of
#print axioms C10_rangeGet_extends_get_L2
#print axioms C10_search_hit_of_get_hit_L2
#print axioms C10_searchID_eq_getID_L2_of
#print axioms C10_search_eq_get_L2_of
