import SlimProofs.ArrayPkg
/-
  SlimProofs.ArrayPkgGet — the accessors of package array on the fields that `Init` builds (C16).
-/
namespace ArrayPkg
open Encode

/-- The message fields `m` are what `Init` builds from the positions `idx` and the encoded
    elements `chunks`, each `w` bytes wide. -/
structure Holds (m : Array32) (idx : List Nat) (chunks : List Bytes) (w : Nat) : Prop where
  asc : StrictAsc idx
  bm : IsBitmapOf idx m.bitmaps
  off : m.offsets = zeroEmpty m.bitmaps (indexRank64 m.bitmaps)
  elts : m.elts = chunks.flatten
  len : chunks.length = idx.length
  width : ∀ c ∈ chunks, c.length = w
  cnt : idx.length < 2147483648
  size : idx.length * w < 2147483648

theorem getI_natCast {α : Type} (l : List α) (k : Nat) (x : α) (h : l[k]? = some x) :
    getI l (k : Int) = .ok x := by
  unfold getI
  have : ¬ ((k : Int) < 0) := by omega
  rw [if_neg this]
  simp [h]

theorem shift_test (n b : Nat) : ((n >>> b) % 2 = 0) ↔ n.testBit b = false := by
  rw [Nat.testBit_eq_decide_div_mod_eq, Nat.shiftRight_eq_div_pow]
  have := Nat.mod_two_eq_zero_or_one (n / 2 ^ b)
  constructor
  · intro h; simp [h]
  · intro h
    rcases this with h' | h'
    · exact h'
    · simp [h'] at h

theorem Holds.testBit {m : Array32} {idx : List Nat} {chunks : List Bytes} {w : Nat}
    (H : Holds m idx chunks w) (i : Nat) (hi : i < 64 * m.bitmaps.length) :
    (m.bitmaps.getD (i / 64) 0).testBit (i % 64) = decide (i ∈ idx) := by
  rw [H.bm.2 (i / 64) (i % 64) (by omega)]
  have h1 : i % 64 < 64 := Nat.mod_lt _ (by decide)
  have h2 : 64 * (i / 64) + i % 64 = i := Nat.div_add_mod i 64
  simp [h1, h2]

/-- For a listed position: the stored offset of its word plus the popcount below its bit is its
    index among the listed positions. -/
theorem Holds.position {m : Array32} {idx : List Nat} {chunks : List Bytes} {w : Nat}
    (H : Holds m idx chunks w) (i : Nat) (hi : i < 64 * m.bitmaps.length) (hmem : i ∈ idx) :
    ∃ off : Nat, m.offsets[i / 64]? = some (off : Int) ∧
      off + popcount (m.bitmaps.getD (i / 64) 0 % 2 ^ (i % 64)) = rankBelow idx i := by
  have hk : i / 64 < m.bitmaps.length := by omega
  have hne : m.bitmaps.getD (i / 64) 0 ≠ 0 := by
    intro h0
    have := H.testBit i hi
    rw [h0, Nat.zero_testBit] at this
    simp [hmem] at this
  refine ⟨rankBelow idx (64 * (i / 64)), ?_, ?_⟩
  · rw [H.off, offsets_getElem? H.bm H.asc H.cnt _ hk, if_neg hne]
  · have := popcount_word_mod H.bm H.asc (i / 64) (i % 64) hk (Nat.le_of_lt (Nat.mod_lt _ (by decide)))
    rw [Nat.div_add_mod] at this
    exact this.symm

theorem Holds.offsets_some {m : Array32} {idx : List Nat} {chunks : List Bytes} {w : Nat}
    (H : Holds m idx chunks w) (k : Nat) (hk : k < m.bitmaps.length) :
    ∃ o : Int, m.offsets[k]? = some o := by
  rw [H.off, offsets_getElem? H.bm H.asc H.cnt _ hk]
  exact ⟨_, rfl⟩

theorem Holds.slice {m : Array32} {idx : List Nat} {chunks : List Bytes} {w : Nat}
    (H : Holds m idx chunks w) (p : Nat) (hp : p < chunks.length) :
    m.elts.length = idx.length * w ∧ p * w + w ≤ idx.length * w ∧
    (m.elts.drop (p * w)).take w = chunks[p] := by
  obtain ⟨h1, h2⟩ := flatten_chunks chunks w H.width
  rw [H.elts]
  refine ⟨by rw [h1, H.len], ?_, h2 p hp⟩
  have : (p + 1) * w ≤ idx.length * w := Nat.mul_le_mul_right w (by rw [← H.len]; omega)
  rw [Nat.add_mul] at this; omega

theorem stIdx_eq (off c w p L : Nat) (h1 : off + c = p) (h2 : p * w + w ≤ L)
    (h3 : L < 2147483648) :
    wrap32 (wrap32 ((off : Int) * (w : Int)) + wrap32 ((c : Int) * (w : Int))) = ((p * w : Nat) : Int) := by
  subst h1
  have hm : (off + c) * w = off * w + c * w := Nat.add_mul _ _ _
  have c1 : ((off : Int) * (w : Int)) = ((off * w : Nat) : Int) := by simp
  have c2 : ((c : Int) * (w : Int)) = ((c * w : Nat) : Int) := by simp
  rw [c1, c2, hm]
  generalize off * w = A at *
  generalize c * w = B at *
  rw [wrap32_id (x := (A : Int)) (by omega) (by omega), wrap32_id (x := (B : Int)) (by omega) (by omega),
    wrap32_id (by omega) (by omega)]
  omega

theorem rank_st_eq (n c w p L : Nat) (h1 : n + c = p) (hp : p * w + w ≤ L) (h3 : L < 2147483648)
    (hpL : p < 2147483648) :
    wrap32 ((n : Int) + (c : Int)) = (p : Int) ∧ wrap32 (w : Int) = (w : Int) ∧
    wrap32 ((w : Int) * (p : Int)) = ((p * w : Nat) : Int) ∧
    wrap32 (((p * w : Nat) : Int) + (w : Int)) = ((p * w + w : Nat) : Int) := by
  subst h1
  have c1 : ((w : Int) * ((n + c : Nat) : Int)) = (((n + c) * w : Nat) : Int) := by
    rw [Int.mul_comm]; simp
  rw [c1]
  generalize (n + c) * w = P at *
  refine ⟨?_, ?_, ?_, ?_⟩
  · rw [wrap32_id (by omega) (by omega)]; omega
  · exact wrap32_id (by omega) (by omega)
  · exact wrap32_id (by omega) (by omega)
  · rw [wrap32_id (by omega) (by omega)]; omega

/-- Typed accessors (array/int.go): the raw element bytes of a listed position, `none` elsewhere. -/
theorem Holds.typedGetBytes {a : Base} {idx : List Nat} {chunks : List Bytes} {w : Nat}
    (H : Holds a.toArray32 idx chunks w) (i : Nat) (hi : i < 64 * a.bitmaps.length) :
    a.typedGetBytes w (i : Int) = .ok (lookup idx chunks i) := by
  have hk : i / 64 < a.bitmaps.length := by omega
  have e1 : (i : Int) / 64 = ((i / 64 : Nat) : Int) := by omega
  have e2 : ((i : Int) % 64).toNat = i % 64 := by omega
  have hw : a.bitmaps[i / 64]? = some (a.bitmaps.getD (i / 64) 0) := by
    simp [List.getD_eq_getElem?_getD, List.getElem?_eq_getElem hk]
  unfold Base.typedGetBytes
  simp only [e1, e2, getI_natCast _ _ _ hw, bind, Except.bind]
  have htb := H.testBit i hi
  by_cases hmem : i ∈ idx
  · have hbit : ¬ ((a.bitmaps.getD (i / 64) 0 >>> (i % 64)) % 2 = 0) := by
      rw [shift_test, htb]; simp [hmem]
    rw [if_neg hbit]
    obtain ⟨off, hoff, hpos⟩ := H.position i hi hmem
    simp only [getI_natCast _ _ _ hoff]
    obtain ⟨hp, hl⟩ := lookup_eq_getElem idx chunks i H.asc H.len.symm hmem
    obtain ⟨s1, s2, s3⟩ := H.slice (rankBelow idx i) hp
    rw [stIdx_eq off _ w _ _ hpos s2 H.size]
    have hst : ¬ ((((rankBelow idx i * w : Nat) : Int) < 0) ∨
        ((rankBelow idx i * w : Nat) : Int) > (a.elts.length : Int)) := by
      rw [s1]
      generalize rankBelow idx i * w = P at *
      generalize idx.length * w = L at *
      omega
    rw [if_neg hst, Int.toNat_natCast]
    have hlen : ¬ (a.elts.drop (rankBelow idx i * w)).length < w := by
      rw [List.length_drop, s1]
      generalize rankBelow idx i * w = P at *
      generalize idx.length * w = L at *
      omega
    rw [if_neg hlen, s3, hl]
    rfl
  · have hbit : (a.bitmaps.getD (i / 64) 0 >>> (i % 64)) % 2 = 0 := by
      rw [shift_test, htb]; simp [hmem]
    rw [if_pos hbit, lookup_none_of_not_mem idx chunks i hmem]
    rfl

theorem slice_ok (P w L : Nat) (h : P + w ≤ L) :
    ¬ ((P : Int) < 0 ∨ ((P + w : Nat) : Int) < (P : Int) ∨ ((P + w : Nat) : Int) > (L : Int)) := by
  omega

theorem sub_toNat (P w : Nat) : (((P + w : Nat) : Int) - (P : Int)).toNat = w := by omega

/-- `Base.GetBytes` (through `bitmap.Rank64`): the same bytes. -/
theorem Holds.getBytes {a : Base} {idx : List Nat} {chunks : List Bytes} {w : Nat}
    (H : Holds a.toArray32 idx chunks w) (i : Nat) (hi : i < 64 * a.bitmaps.length) :
    a.getBytes (i : Int) w = .ok (lookup idx chunks i) := by
  have hk : i / 64 < a.bitmaps.length := by omega
  have e1 : (i : Int) / 64 = ((i / 64 : Nat) : Int) := by omega
  have e2 : ((i : Int) % 64).toNat = i % 64 := by omega
  have hw : a.bitmaps[i / 64]? = some (a.bitmaps.getD (i / 64) 0) := by
    simp [List.getD_eq_getElem?_getD, List.getElem?_eq_getElem hk]
  obtain ⟨o, ho⟩ := H.offsets_some (i / 64) hk
  unfold Base.getBytes
  simp only [e1, e2, getI_natCast _ _ _ hw, getI_natCast _ _ _ ho, bind, Except.bind]
  have htb := H.testBit i hi
  by_cases hmem : i ∈ idx
  · have hbit : ¬ ((a.bitmaps.getD (i / 64) 0 >>> (i % 64)) % 2 = 0) := by
      rw [shift_test, htb]; simp [hmem]
    rw [if_neg hbit]
    obtain ⟨off, hoff, hpos⟩ := H.position i hi hmem
    have : o = (off : Int) := Option.some.inj (ho.symm.trans hoff)
    subst this
    obtain ⟨hp, hl⟩ := lookup_eq_getElem idx chunks i H.asc H.len.symm hmem
    obtain ⟨s1, s2, s3⟩ := H.slice (rankBelow idx i) hp
    have hpl : rankBelow idx i < 2147483648 :=
      Nat.lt_trans (rankBelow_lt_of_mem idx H.asc hmem) H.cnt
    obtain ⟨r1, r2, r3, r4⟩ := rank_st_eq off _ w _ _ hpos s2 H.size hpl
    rw [r1, r2, r3, r4]
    have hst := slice_ok (rankBelow idx i * w) w (idx.length * w) s2
    rw [← s1] at hst
    rw [if_neg hst, Int.toNat_natCast]
    have := sub_toNat (rankBelow idx i * w) w
    rw [this, s3, hl]
    rfl
  · have hbit : (a.bitmaps.getD (i / 64) 0 >>> (i % 64)) % 2 = 0 := by
      rw [shift_test, htb]; simp [hmem]
    rw [if_pos hbit, lookup_none_of_not_mem idx chunks i hmem]
    rfl

end ArrayPkg
