import SlimModel.Scan
import SlimModel.Slim
import SlimProofs.Agree
/-
  SlimProofs.Transport — query results carry over from one `View` to another that decodes the
  same node records (L1 record array → L2 bit-level view of the encoded message).

  `ViewSim v₁ v₂ n`: `v₂` returns the node records of `v₁` below `n`, `v₁` fails (Go: panics)
  from `n` on, `v₂` returns the leaf bytes `v₁` returns, same flags, `v₂` has at least the fuel.
  Then every lookup / scan computation that returns normally on `v₁` returns the same on `v₂`
  (`Transport.Le a b := ∀ r, a = .ok r → b = .ok r`): a successful run never reads an id ≥ n,
  and more fuel does not change a successful result.

  Lookup half : `getIDLoop_le getID_le getLeaf_le get_le leftMost_le rightMost_le searchLoop_le
                 searchID_le rangeGet_le search_le`
  Scan half   : `geLoop_le leftMostPath_le getGEPath_le buildStack_le newIter_le descend_le
                 iterNext_le newIterFrom_le iterTake_le scanFrom_le scanFromTo_le`
  Instance    : `viewSim_encode` (L1 view of `t` vs `Slim.view (Slim.encode t)`), taking the
                bit-level facts that are proved elsewhere as hypotheses (`EncodeFacts`).
-/

namespace Transport

/-- `a ⊑ b`: whenever `a` returns normally, `b` returns the same -/
def Le {α : Type} (a b : Except Err α) : Prop := ∀ r, a = .ok r → b = .ok r

theorem Le.refl {α : Type} (a : Except Err α) : Le a a := fun _ h => h

theorem Le.error {α : Type} (e : Err) (b : Except Err α) : Le (.error e) b := by
  intro r h; cases h

theorem Le.bind {α β : Type} {a a' : Except Err α} {f f' : α → Except Err β}
    (h : Le a a') (hf : ∀ x, Le (f x) (f' x)) : Le (a >>= f) (a' >>= f') := by
  intro r hr
  cases ha : a with
  | error e => rw [ha] at hr; cases hr
  | ok x =>
    rw [ha] at hr
    rw [h x ha]
    exact hf x r hr

theorem Le.ite {α : Type} {c : Prop} [Decidable c] {a a' b b' : Except Err α}
    (h1 : c → Le a a') (h2 : ¬ c → Le b b') : Le (if c then a else b) (if c then a' else b') := by
  by_cases hc : c
  · simp only [hc, if_true]; exact h1 hc
  · simp only [hc, if_false]; exact h2 hc

structure ViewSim (v₁ v₂ : View) (n : Nat) : Prop where
  node : ∀ id, id < n → v₂.node id = v₁.node id
  out : ∀ id, n ≤ id → ∃ e, v₁.node id = .error e
  leaf : ∀ ith r, v₁.leafBytes ith = .ok r → v₂.leafBytes ith = .ok r
  isEmpty : v₂.isEmpty = v₁.isEmpty
  /-- the two flags are only ever read behind the `isEmpty` guard, so they need to agree on
      non-empty tries only (the encoding of the empty trie is `&Slim{}`: no `LeafPrefixes`) -/
  lpOn : v₁.isEmpty = false → v₂.leafPrefixesOn = v₁.leafPrefixesOn
  scanOK : v₁.isEmpty = false → v₂.scanOK = v₁.scanOK
  cnt : v₁.nodeCnt ≤ v₂.nodeCnt

variable {v₁ v₂ : View} {n : Nat}

theorem ViewSim.node_le (s : ViewSim v₁ v₂ n) (id : Nat) : Le (v₁.node id) (v₂.node id) := by
  intro r h
  by_cases hid : id < n
  · rw [s.node id hid]; exact h
  · obtain ⟨e, he⟩ := s.out id (Nat.le_of_not_lt hid)
    rw [he] at h; cases h

/-- structural steps of a monotonicity proof -/
macro "le_auto" : tactic =>
  `(tactic| repeat' first
    | exact Le.refl _
    | exact Le.error _ _
    | with_reducible refine Le.ite (fun _ => ?_) (fun _ => ?_)
    | with_reducible refine Le.bind ?_ (fun _ => ?_))

theorem getIDLoop_le (s : ViewSim v₁ v₂ n) (kn : List Nat) :
    ∀ f₁ f₂ id i, f₁ ≤ f₂ → Le (getIDLoop v₁ kn f₁ id i) (getIDLoop v₂ kn f₂ id i) := by
  intro f₁
  induction f₁ with
  | zero => intro f₂ id i _; exact Le.error _ _
  | succ f₁ ih =>
    intro f₂ id i hf
    obtain ⟨f₂, rfl⟩ : ∃ f, f₂ = f + 1 := ⟨f₂ - 1, by omega⟩
    unfold getIDLoop
    refine Le.bind (s.node_le id) (fun nd => ?_)
    cases nd with
    | leaf ith lp => exact Le.refl _
    | inner r =>
      simp only
      refine Le.bind (Le.refl _) (fun o => ?_)
      cases o with
      | none => exact Le.refl _
      | some i =>
        simp only
        le_auto
        exact ih _ _ _ (by omega)

theorem getID_le (s : ViewSim v₁ v₂ n) (key : Bytes) : Le (getID v₁ key) (getID v₂ key) := by
  unfold getID
  rw [s.isEmpty]
  refine Le.ite (fun _ => Le.refl _) (fun he => ?_)
  rw [s.lpOn (by simpa using he)]
  exact Le.bind (getIDLoop_le s _ _ _ _ _ (by have := s.cnt; omega)) (fun _ => Le.refl _)

theorem getLeaf_le (s : ViewSim v₁ v₂ n) (id : Nat) : Le (getLeaf v₁ id) (getLeaf v₂ id) := by
  unfold getLeaf
  refine Le.bind (s.node_le id) (fun nd => ?_)
  cases nd with
  | inner r => exact Le.refl _
  | leaf ith lp => exact fun r h => s.leaf ith r h

theorem get_le (s : ViewSim v₁ v₂ n) (key : Bytes) : Le (get v₁ key) (get v₂ key) := by
  unfold _root_.get
  refine Le.bind (getID_le s key) (fun o => ?_)
  cases o with
  | none => exact Le.refl _
  | some id => exact Le.bind (getLeaf_le s id) (fun _ => Le.refl _)

theorem leftMost_le (s : ViewSim v₁ v₂ n) :
    ∀ f₁ f₂ id, f₁ ≤ f₂ → Le (leftMost v₁ f₁ id) (leftMost v₂ f₂ id) := by
  intro f₁
  induction f₁ with
  | zero => intro f₂ id _; exact Le.error _ _
  | succ f₁ ih =>
    intro f₂ id hf
    obtain ⟨f₂, rfl⟩ : ∃ f, f₂ = f + 1 := ⟨f₂ - 1, by omega⟩
    unfold leftMost
    refine Le.bind (s.node_le id) (fun nd => ?_)
    cases nd with
    | leaf ith lp => exact Le.refl _
    | inner r => exact ih _ _ (by omega)

theorem rightMost_le (s : ViewSim v₁ v₂ n) :
    ∀ f₁ f₂ id, f₁ ≤ f₂ → Le (rightMost v₁ f₁ id) (rightMost v₂ f₂ id) := by
  intro f₁
  induction f₁ with
  | zero => intro f₂ id _; exact Le.error _ _
  | succ f₁ ih =>
    intro f₂ id hf
    obtain ⟨f₂, rfl⟩ : ∃ f, f₂ = f + 1 := ⟨f₂ - 1, by omega⟩
    unfold rightMost
    refine Le.bind (s.node_le id) (fun nd => ?_)
    cases nd with
    | leaf ith lp => exact Le.refl _
    | inner r => exact ih _ _ (by omega)

theorem cmpLeafPrefix_eq (hlp : v₂.leafPrefixesOn = v₁.leafPrefixesOn) (tail : Bytes)
    (lp : Option Bytes) : cmpLeafPrefix v₂ tail lp = cmpLeafPrefix v₁ tail lp := by
  unfold cmpLeafPrefix; rw [hlp]

theorem searchLoop_le (s : ViewSim v₁ v₂ n) (kn : List Nat) :
    ∀ f₁ f₂ st id, f₁ ≤ f₂ → Le (searchLoop v₁ kn f₁ st id) (searchLoop v₂ kn f₂ st id) := by
  intro f₁
  induction f₁ with
  | zero => intro f₂ st id _; exact Le.error _ _
  | succ f₁ ih =>
    intro f₂ st id hf
    obtain ⟨f₂, rfl⟩ : ∃ f, f₂ = f + 1 := ⟨f₂ - 1, by omega⟩
    unfold searchLoop
    refine Le.bind (s.node_le id) (fun nd => ?_)
    cases nd with
    | leaf ith lp => exact Le.refl _
    | inner r =>
      simp only
      refine Le.bind (Le.refl _) (fun o => ?_)
      cases o with
      | inl fin => exact Le.refl _
      | inr i =>
        simp only
        le_auto
        exact ih _ _ _ (by omega)

theorem srEpi_eq (hlp : v₂.leafPrefixesOn = v₁.leafPrefixesOn) (key : Bytes) (st : SearchSt) :
    Agree.srEpi v₂ key st = Agree.srEpi v₁ key st := by
  unfold Agree.srEpi; simp only [cmpLeafPrefix_eq hlp]

theorem srTail_le (s : ViewSim v₁ v₂ n) (st : SearchSt) :
    Le (Agree.srTail v₁ st) (Agree.srTail v₂ st) := by
  have hc := s.cnt
  unfold Agree.srTail
  cases st.lID <;> cases st.rID <;> dsimp only <;> le_auto
  all_goals first
    | exact rightMost_le s _ _ _ (by omega)
    | exact leftMost_le s _ _ _ (by omega)

theorem searchID_le (s : ViewSim v₁ v₂ n) (key : Bytes) :
    Le (searchID v₁ key) (searchID v₂ key) := by
  have hc := s.cnt
  rw [Agree.searchID_eq, Agree.searchID_eq, s.isEmpty]
  refine Le.ite (fun _ => Le.refl _) (fun he => ?_)
  have hlp := s.lpOn (by simpa using he)
  intro r h
  cases h1 : searchLoop v₁ (nibs key) (v₁.nodeCnt + 1) {} 0 with
  | error e => rw [h1] at h; cases h
  | ok st =>
    rw [h1] at h
    rw [searchLoop_le s _ _ _ _ _ (by omega) st h1]
    simp only [srEpi_eq hlp] at h ⊢
    exact srTail_le s _ r h

theorem rangeGet_le (s : ViewSim v₁ v₂ n) (key : Bytes) :
    Le (rangeGet v₁ key) (rangeGet v₂ key) := by
  unfold rangeGet
  refine Le.bind (searchID_le s key) (fun b => ?_)
  obtain ⟨l, e, r⟩ := b
  simp only
  cases e with
  | some id => exact Le.bind (getLeaf_le s id) (fun _ => Le.refl _)
  | none =>
    cases l with
    | none => exact Le.refl _
    | some id => exact Le.bind (getLeaf_le s id) (fun _ => Le.refl _)

theorem leafOf_le (s : ViewSim v₁ v₂ n) (o : Option Nat) :
    Le (Agree.leafOf v₁ o) (Agree.leafOf v₂ o) := by
  cases o with
  | none => exact Le.refl _
  | some id => exact Le.bind (getLeaf_le s id) (fun _ => Le.refl _)

theorem search_le (s : ViewSim v₁ v₂ n) (key : Bytes) :
    Le (search v₁ key) (search v₂ key) := by
  rw [Agree.search_eq, Agree.search_eq]
  refine Le.bind (searchID_le s key) (fun b => ?_)
  obtain ⟨l, e, r⟩ := b
  simp only
  exact Le.bind (leafOf_le s l) (fun _ => Le.bind (leafOf_le s e) (fun _ =>
    Le.bind (leafOf_le s r) (fun _ => Le.refl _)))

/-! ### the scan functions (`SlimModel.Scan`) -/

section scan
open Scan


theorem geLoop_le (s : ViewSim v₁ v₂ n) (kn : List Nat) :
    ∀ f₁ f₂ st id, f₁ ≤ f₂ → Le (geLoop v₁ kn f₁ st id) (geLoop v₂ kn f₂ st id) := by
  intro f₁
  induction f₁ with
  | zero => intro f₂ st id _; exact Le.error _ _
  | succ f₁ ih =>
    intro f₂ st id hf
    obtain ⟨f₂, rfl⟩ : ∃ f, f₂ = f + 1 := ⟨f₂ - 1, by omega⟩
    unfold geLoop
    refine Le.bind (s.node_le id) (fun nd => ?_)
    cases nd with
    | leaf ith lp => exact Le.refl _
    | inner r =>
      simp only
      refine Le.bind (Le.refl _) (fun o => ?_)
      cases o with
      | inl fin => exact Le.refl _
      | inr i =>
        simp only
        le_auto
        exact ih _ _ _ (by omega)

theorem leftMostPath_le (s : ViewSim v₁ v₂ n) :
    ∀ f₁ f₂ id acc, f₁ ≤ f₂ → Le (leftMostPath v₁ f₁ id acc) (leftMostPath v₂ f₂ id acc) := by
  intro f₁
  induction f₁ with
  | zero => intro f₂ id acc _; exact Le.error _ _
  | succ f₁ ih =>
    intro f₂ id acc hf
    obtain ⟨f₂, rfl⟩ : ∃ f, f₂ = f + 1 := ⟨f₂ - 1, by omega⟩
    unfold leftMostPath
    refine Le.bind (s.node_le id) (fun nd => ?_)
    cases nd with
    | leaf ith lp => exact Le.refl _
    | inner r => exact ih _ _ _ (by omega)

theorem fallback_le (s : ViewSim v₁ v₂ n) (st : GESt) :
    Le (getGEPath.fallback v₁ st) (getGEPath.fallback v₂ st) := by
  have hc := s.cnt
  unfold getGEPath.fallback
  cases st.rID with
  | none => exact Le.refl _
  | some rid =>
    simp only
    exact Le.bind (leftMostPath_le s _ _ _ _ (by omega)) (fun _ => Le.refl _)

theorem getGEPath_le (s : ViewSim v₁ v₂ n) (key : Bytes) :
    Le (getGEPath v₁ key) (getGEPath v₂ key) := by
  have hc := s.cnt
  unfold getGEPath
  rw [s.isEmpty]
  refine Le.ite (fun _ => Le.refl _) (fun he => ?_)
  have he' : v₁.isEmpty = false := by simpa using he
  rw [s.scanOK he']
  refine Le.ite (fun _ => Le.refl _) (fun _ => ?_)
  refine Le.bind (geLoop_le s _ _ _ _ _ (by omega)) (fun x => ?_)
  obtain ⟨st, eqID⟩ := x
  simp only [cmpLeafPrefix_eq (s.lpOn he')]
  cases eqID with
  | none => exact fallback_le s st
  | some eq =>
    simp only
    le_auto
    exact fallback_le s st


theorem buildStack_le (s : ViewSim v₁ v₂ n) :
    ∀ path stack buf bufIdx, Le (buildStack v₁ path stack buf bufIdx)
      (buildStack v₂ path stack buf bufIdx) := by
  intro path
  induction path with
  | nil => intro stack buf bufIdx; unfold buildStack; exact Le.refl _
  | cons a rest ih =>
    intro stack buf bufIdx
    cases rest with
    | nil => unfold buildStack; exact Le.refl _
    | cons b rest =>
      unfold buildStack
      refine Le.bind (s.node_le a) (fun nd => ?_)
      cases nd with
      | leaf ith lp => exact Le.refl _
      | inner r =>
        simp only
        le_auto
        exact ih _ _ _

theorem newIter_le (s : ViewSim v₁ v₂ n) (p : GEPath) (skipFirst : Bool) :
    Le (newIter v₁ p skipFirst) (newIter v₂ p skipFirst) := by
  unfold newIter
  exact Le.bind (buildStack_le s _ _ _ _) (fun _ => Le.refl _)

theorem leafValue_le (s : ViewSim v₁ v₂ n) (withValue : Bool) (ith : Nat) :
    Le (leafValue v₁ withValue ith) (leafValue v₂ withValue ith) := by
  unfold leafValue
  cases withValue with
  | false => exact Le.refl _
  | true => exact fun r h => s.leaf ith r h

theorem descend_le (s : ViewSim v₁ v₂ n) (withValue : Bool) :
    ∀ f₁ f₂ stack buf, f₁ ≤ f₂ → Le (descend v₁ withValue f₁ stack buf)
      (descend v₂ withValue f₂ stack buf) := by
  intro f₁
  induction f₁ with
  | zero => intro f₂ stack buf _; unfold descend; exact Le.error _ _
  | succ f₁ ih =>
    intro f₂ stack buf hf
    obtain ⟨f₂, rfl⟩ : ∃ f, f₂ = f + 1 := ⟨f₂ - 1, by omega⟩
    cases stack with
    | nil => unfold descend; exact Le.refl _
    | cons last rest =>
      unfold descend
      refine Le.bind (Le.refl _) (fun buf' => ?_)
      refine Le.bind (s.node_le _) (fun nd => ?_)
      cases nd with
      | leaf ith lp =>
        simp only
        refine Le.bind (Le.refl _) (fun _ => Le.bind (leafValue_le s _ _) (fun _ => Le.refl _))
      | inner r =>
        simp only
        le_auto
        exact ih _ _ _ (by omega)

theorem iterNext_le (s : ViewSim v₁ v₂ n) (withValue : Bool) (st : IterState) :
    Le (iterNext v₁ withValue st) (iterNext v₂ withValue st) := by
  have hc := s.cnt
  unfold iterNext
  cases st with
  | single id buf consumed =>
    simp only
    cases consumed with
    | true => exact Le.refl _
    | false =>
      simp only [Bool.false_eq_true, if_false]
      refine Le.bind (s.node_le id) (fun nd => ?_)
      cases nd with
      | inner r => exact Le.refl _
      | leaf ith lp =>
        simp only
        exact Le.bind (leafValue_le s _ _) (fun _ => Le.refl _)
  | walk stack buf =>
    cases stack with
    | nil => exact Le.refl _
    | cons e rest =>
      simp only
      exact Le.bind (descend_le s _ _ _ _ _ (by omega)) (fun _ => Le.refl _)

theorem newIterFrom_le (s : ViewSim v₁ v₂ n) (start : Bytes) (includeStart : Bool) :
    Le (newIterFrom v₁ start includeStart) (newIterFrom v₂ start includeStart) := by
  unfold newIterFrom
  exact Le.bind (getGEPath_le s start) (fun _ => newIter_le s _ _)

theorem iterTake_le (s : ViewSim v₁ v₂ n) (withValue : Bool) :
    ∀ k st, Le (iterTake v₁ withValue k st) (iterTake v₂ withValue k st) := by
  intro k
  induction k with
  | zero => intro st; exact Le.refl _
  | succ k ih =>
    intro st
    unfold iterTake
    refine Le.bind (iterNext_le s withValue st) (fun x => ?_)
    obtain ⟨s', key, val⟩ := x
    simp only
    exact Le.bind (ih s') (fun _ => Le.refl _)

theorem scanFrom_go_le (s : ViewSim v₁ v₂ n) (withValue : Bool) (keep : Bytes → Bool)
    (stopAfter : Option Nat) :
    ∀ f₁ f₂ st cnt, f₁ ≤ f₂ → Le (scanFrom.go v₁ withValue keep stopAfter f₁ st cnt)
      (scanFrom.go v₂ withValue keep stopAfter f₂ st cnt) := by
  intro f₁
  induction f₁ with
  | zero => intro f₂ st cnt _; unfold scanFrom.go; exact Le.error _ _
  | succ f₁ ih =>
    intro f₂ st cnt hf
    obtain ⟨f₂, rfl⟩ : ∃ f, f₂ = f + 1 := ⟨f₂ - 1, by omega⟩
    unfold scanFrom.go
    refine Le.bind (iterNext_le s withValue st) (fun x => ?_)
    obtain ⟨s', key, val⟩ := x
    simp only
    cases key with
    | none => exact Le.refl _
    | some k =>
      simp only
      le_auto
      exact ih _ _ _ (by omega)

theorem scanFrom_le (s : ViewSim v₁ v₂ n) (start : Bytes) (includeStart withValue : Bool)
    (keep : Bytes → Bool) (stopAfter : Option Nat) :
    Le (scanFrom v₁ start includeStart withValue keep stopAfter)
      (scanFrom v₂ start includeStart withValue keep stopAfter) := by
  have hc := s.cnt
  unfold scanFrom
  exact Le.bind (newIterFrom_le s start includeStart)
    (fun _ => scanFrom_go_le s _ _ _ _ _ _ _ (by omega))

theorem scanFromTo_le (s : ViewSim v₁ v₂ n) (start : Bytes) (includeStart : Bool) (stop : Bytes)
    (includeEnd withValue : Bool) (stopAfter : Option Nat) :
    Le (scanFromTo v₁ start includeStart stop includeEnd withValue stopAfter)
      (scanFromTo v₂ start includeStart stop includeEnd withValue stopAfter) := by
  unfold scanFromTo
  exact scanFrom_le s _ _ _ _ _


end scan

/-! ### the instance: L1 view vs. the view of the encoded message -/


theorem encode_isEmpty (t : Trie1) : (Slim.view (Slim.encode t)).isEmpty = t.view.isEmpty := by
  unfold Slim.encode
  by_cases h : t.nodes.size = 0
  · simp [h, Slim.view, Trie1.view]
  · simp [h, Slim.view, Trie1.view, Slim.encodeCreator]

theorem encode_lpOn (t : Trie1) (h : t.view.isEmpty = false) :
    (Slim.view (Slim.encode t)).leafPrefixesOn = t.view.leafPrefixesOn := by
  have h0 : ¬ t.nodes.size = 0 := by simpa [Trie1.view] using h
  unfold Slim.encode
  simp only [h0, if_false, Slim.view, Trie1.view, Slim.encodeCreator]
  cases t.opt.leaf <;> simp

theorem encode_scanOK (t : Trie1) (h : t.view.isEmpty = false) :
    (Slim.view (Slim.encode t)).scanOK = t.view.scanOK := by
  have h0 : ¬ t.nodes.size = 0 := by simpa [Trie1.view] using h
  unfold Slim.encode
  simp only [h0, if_false, Slim.view, Trie1.view, Slim.encodeCreator]
  cases t.opt.leaf <;> cases t.opt.inner <;> simp


/-- the bit-level facts about `Slim.encode t` (proved elsewhere) that make the L2 view simulate
    the L1 view -/
structure EncodeFacts (t : Trie1) : Prop where
  /-- `getNode` of the encoded message decodes the record array -/
  node : ∀ id (h : id < t.nodes.size), Slim.getNode (Slim.encode t) id = .ok t.nodes[id]
  /-- the `Leaves` array returns the leaf bytes of L1 -/
  leaf : ∀ ith r, t.view.leafBytes ith = .ok r →
    (Slim.view (Slim.encode t)).leafBytes ith = .ok r
  /-- the node-type bitmap has a bit for every node (fuel) -/
  cnt : t.nodes.size ≤ Slim.nodeCount (Slim.encode t)

theorem viewSim_encode (t : Trie1) (hf : EncodeFacts t) :
    ViewSim t.view (Slim.view (Slim.encode t)) t.nodes.size where
  node := by
    intro id hid
    show Slim.getNode (Slim.encode t) id = t.view.node id
    rw [hf.node id hid]
    simp [Trie1.view, hid]
  out := by
    intro id hid
    refine ⟨.panic "node id out of range", ?_⟩
    have : t.nodes[id]? = none := by simp; omega
    simp [Trie1.view, this]
  leaf := hf.leaf
  isEmpty := encode_isEmpty t
  lpOn := encode_lpOn t
  scanOK := encode_scanOK t
  cnt := hf.cnt


end Transport
