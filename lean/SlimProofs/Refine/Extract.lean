import SlimProofs.Refine.ListAux
import SlimModel.Slim
/-
  SlimProofs.Refine.Extract — `labelsIn` and `extractShort` read the bits `[frm, frm+len)` of a
  word list.
-/

namespace Refine

open Bits Slim

theorem labelsIn_eq (ws : List Nat) (frm size : Nat) (labels : List Nat) (h : Asc labels)
    (hlt : ∀ l ∈ labels, l < size)
    (hbit : ∀ x, x < size → getBit ws (frm + x) = decide (x ∈ labels)) :
    labelsIn ws frm size = labels := by
  have : labelsIn ws frm size = (List.range size).filter (fun k => getBit ws (frm + k)) := rfl
  rw [this]
  apply filter_range_eq_of_asc h
  · intro x hx; rw [hbit x hx]; simp
  · exact hlt

/-- the value `extractShort` returns has exactly the bits `[frm, frm+len)` of the word list -/
theorem extractShort_spec (ws : List Nat) (frm len : Nat) (hw : ∀ w ∈ ws, w < 2 ^ 64)
    (hlen : 0 < len) (hlen64 : len ≤ 64) (hend : frm + len ≤ 64 * ws.length) :
    ∃ v, extractShort ws frm len = .ok v ∧ v < 2 ^ len ∧
      ∀ k, k < len → v.testBit k = getBit ws (frm + k) := by
  have hk1 : frm / 64 < ws.length := by omega
  have hw1 : ws[frm / 64]? = some ws[frm / 64] := List.getElem?_eq_getElem hk1
  have hd1 : ws.getD (frm / 64) 0 = ws[frm / 64] := by
    rw [List.getD_eq_getElem?_getD, hw1]; rfl
  unfold extractShort
  simp only [hw1, pure, Except.pure]
  by_cases hc : frm % 64 + len ≤ 64
  · simp only [hc, if_true]
    refine ⟨_, rfl, Nat.mod_lt _ (Nat.two_pow_pos len), ?_⟩
    intro k hk
    rw [Nat.testBit_mod_two_pow, Nat.testBit_shiftRight]
    unfold getBit
    have e1 : (frm + k) / 64 = frm / 64 := by omega
    have e2 : (frm + k) % 64 = frm % 64 + k := by omega
    rw [e1, e2, hd1]; simp [hk]
  · simp only [hc, if_false]
    have hk2 : (frm + len) / 64 < ws.length := by omega
    have e0 : (frm + len) / 64 = frm / 64 + 1 := by omega
    have hw2 : ws[(frm + len) / 64]? = some ws[(frm + len) / 64] := List.getElem?_eq_getElem hk2
    simp only [hw2]
    refine ⟨_, rfl, ?_, ?_⟩
    · apply Nat.or_lt_two_pow
      · have hlt := hw _ (List.getElem_mem hk1)
        rw [Nat.shiftRight_eq_div_pow]
        have h1 : ws[frm / 64] / 2 ^ (frm % 64) < 2 ^ (64 - frm % 64) := by
          rw [Nat.div_lt_iff_lt_mul (Nat.two_pow_pos _), ← Nat.pow_add]
          rw [show 64 - frm % 64 + frm % 64 = 64 by omega]; exact hlt
        exact Nat.lt_of_lt_of_le h1 (Nat.pow_le_pow_right (by omega) (by omega))
      · exact Nat.mod_lt _ (Nat.two_pow_pos len)
    · intro k hk
      rw [Nat.testBit_or, Nat.testBit_shiftRight, Nat.testBit_mod_two_pow, Nat.testBit_mod_two_pow,
        Nat.testBit_shiftLeft]
      unfold getBit
      by_cases hjk : frm % 64 + k < 64
      · have e1 : (frm + k) / 64 = frm / 64 := by omega
        have e2 : (frm + k) % 64 = frm % 64 + k := by omega
        have : ¬ k ≥ 64 - frm % 64 := by omega
        rw [e1, e2, hd1]; simp [this]
      · have e1 : (frm + k) / 64 = (frm + len) / 64 := by omega
        have e2 : (frm + k) % 64 = k - (64 - frm % 64) := by omega
        have hd2 : ws.getD ((frm + len) / 64) 0 = ws[(frm + len) / 64] := by
          rw [List.getD_eq_getElem?_getD, hw2]; rfl
        have hlt := hw _ (List.getElem_mem hk1)
        have hf : ws[frm / 64].testBit (frm % 64 + k) = false := by
          apply Nat.testBit_lt_two_pow
          exact Nat.lt_of_lt_of_le hlt (Nat.pow_le_pow_right (by omega) (by omega))
        have h1 : k < 64 := by omega
        have h2 : k ≥ 64 - frm % 64 := by omega
        rw [e1, e2, hd2, hf]; simp [hk, h1, h2]

/-- `extractShort` returns `c` when the bits `[frm, frm+len)` are the bits of `c < 2^len` -/
theorem extractShort_eq (ws : List Nat) (frm len c : Nat) (hw : ∀ w ∈ ws, w < 2 ^ 64)
    (hlen : 0 < len) (hlen64 : len ≤ 64) (hend : frm + len ≤ 64 * ws.length) (hc : c < 2 ^ len)
    (hbit : ∀ k, k < len → getBit ws (frm + k) = c.testBit k) :
    extractShort ws frm len = .ok c := by
  obtain ⟨v, h1, h2, h3⟩ := extractShort_spec ws frm len hw hlen hlen64 hend
  rw [h1]
  congr 1
  apply Nat.eq_of_testBit_eq
  intro k
  rcases Nat.lt_or_ge k len with hk | hk
  · rw [h3 k hk, hbit k hk]
  · have p1 : v < 2 ^ k := Nat.lt_of_lt_of_le h2 (Nat.pow_le_pow_right (by omega) hk)
    have p2 : c < 2 ^ k := Nat.lt_of_lt_of_le hc (Nat.pow_le_pow_right (by omega) hk)
    rw [Nat.testBit_lt_two_pow p1, Nat.testBit_lt_two_pow p2]

end Refine
