#!/bin/bash
# coverage.sh [tier] [seed] : which statements of /repo's library packages does tie 2 (the correspondence
# harness) execute?  Tooling, not a check.  Go cannot instrument a `replace`d module with -coverpkg, so the
# harness is copied INTO a scratch worktree of /repo (import paths rewritten) and built there with -cover.
# Output: /tmp/cov/prof.txt, a per-function table and the uncovered blocks on stdout.  Removes its worktree.
set -u
TIER=${1:-quick}; SEED=${2:-1}
export GOFLAGS=-mod=mod GOPROXY=off GOSUMDB=off GOTOOLCHAIN=local
W=/tmp/covrepo; rm -rf /tmp/cov; mkdir -p /tmp/cov/data
git -C /repo worktree remove --force $W >/dev/null 2>&1
git -C /repo worktree add --detach $W HEAD -f >/dev/null 2>&1 || { echo "worktree failed"; exit 2; }
trap 'cd /; git -C /repo worktree remove --force '$W' >/dev/null 2>&1' EXIT
cd $W && git diff --quiet || true
(cd /repo && git diff) | git apply 2>/dev/null   # working-tree changes of /repo, if any
mkdir zzh && cp -r /verif/harness/{cmd,fam,gen,lp} zzh/ && rm -rf zzh/cmd/extract zzh/cmd/mutate zzh/cmd/race
grep -rl 'slimverif/harness' zzh | xargs sed -i 's#slimverif/harness#github.com/openacid/slim/zzh#g'
sed -i 's/^go 1.12$/go 1.21/' go.mod
go build -cover -coverpkg=./... -o /tmp/cov/runc ./zzh/cmd/run || exit 2
for p in C01 C02 C03 C04 C05 C06 C07 C08 C09 C10 C12 C13 C14 C15 C16 C17 C18 C19 C20; do
  mkdir -p /tmp/cov/out_$p
  (cd /verif/harness; GOCOVERDIR=/tmp/cov/data GOMEMLIMIT=8GiB timeout 3000 /tmp/cov/runc -prop $p -tier $TIER -seed $SEED -out /tmp/cov/out_$p > /tmp/cov/log_$p 2>&1 || echo "$p failed") &
done; wait
go tool covdata textfmt -i=/tmp/cov/data -o /tmp/cov/prof.txt
go tool covdata percent -i=/tmp/cov/data | grep -v zzh
echo "--- functions not fully covered (generated *.pb.go excluded)"
go tool cover -func=/tmp/cov/prof.txt | grep -v 'zzh\|pb.go' | awk '$3!="100.0%"'
echo "--- uncovered blocks"
grep -v 'pb.go\|zzh\|^mode' /tmp/cov/prof.txt | awk '$NF==0{print $1}' | sort -u | while IFS= read -r b; do
  f=${b%%:*}; r=${b#*:}; s=${r%%,*}; e=${r#*,}; sl=${s%%.*}; el=${e%%.*}
  echo "== ${f#github.com/openacid/slim/}:$sl-$el"; sed -n "${sl},${el}p" ${f#github.com/openacid/slim/} | head -6
done
rm -rf /tmp/cov/out_* /tmp/cov/runc /tmp/cov/data
