import SlimProofs.SizeBound
import SlimProofs.UpgradeConvert
import SlimProofs.WireFrame
/-
  SlimProofs.UpgradeSize — the message the loader builds from a three-section stream fits a
  frame (`BodyOK`), from numeric facts about keys and values alone: C17's size bound
  (`SizeBound.protoSize_filter_le`: at most `8n + 224` bytes without the leaf array, by the shape
  invariant and "every inner record has ≥ 2 labels" — `convert_twoLab`) plus the leaf array
  (`n · w` value bytes, a presence bitmap of `n` bits, three counters).
-/

namespace UpgradeSize
open Bits Slim Refine Wire SizeV SizeShort SizeFields SizePrefixEnc SizeBound

/-- `t` without its leaf array -/
def dropElts (t : Trie1) : Trie1 := { t with elts := none }

theorem shape_dropElts {t : Trie1} (hs : ShapeOK t) : ShapeOK (dropElts t) :=
  ⟨hs.nonempty, hs.firstChild, hs.total, hs.leafOrd, hs.labels, hs.bigPrefix, hs.pref, hs.leafPref,
    hs.leafCnt, fun es h => by cases h⟩

theorem encodeCreator_dropElts (t : Trie1) :
    encodeCreator (dropElts t) = { encodeCreator t with leaves := none } := rfl

theorem protoSize_dropElts (t : Trie1) :
    protoSizeSlim (encodeCreator t) = protoSizeSlim (encodeCreator (dropElts t)) +
      sizeMsgF 60 ((encodeCreator t).leaves.map protoSizeVLenArray) := by
  rw [encodeCreator_dropElts]
  unfold protoSizeSlim
  simp only [Option.map_none, sizeMsgF]
  omega

theorem sizeVarintF_le7 (fno v : Nat) (hf : fno * 8 < 2 ^ 14) (hv : v < 2 ^ 35) :
    sizeVarintF fno v ≤ 7 := by
  unfold sizeVarintF
  split
  · omega
  · have := sizeVarint_le2 (show fno * 8 + 0 < 2 ^ 14 by omega)
    have := sizeVarint_le5 hv
    omega

theorem sizeBytesF_le12 (fno : Nat) (b : Bytes) (hf : fno * 8 + 2 < 2 ^ 14) (hb : b.length < 2 ^ 64) :
    sizeBytesF fno b ≤ 12 + b.length := by
  unfold sizeBytesF
  split
  · omega
  · have := sizeVarint_le2 hf
    have := sizeVarint_le10 hb
    omega

theorem sizeMsgF_le12 (fno s : Nat) (hf : fno * 8 + 2 < 2 ^ 14) (hs : s < 2 ^ 64) :
    sizeMsgF fno (some s) ≤ 12 + s := by
  simp only [sizeMsgF]
  have := sizeVarint_le2 hf
  have := sizeVarint_le10 hs
  omega

theorem flatten_length_le (es : List Bytes) (w : Nat) (hall : ∀ v ∈ es, v.length = w ∨ v.length = 0) :
    es.flatten.length ≤ w * es.length := by
  induction es with
  | nil => simp
  | cons a rest ih =>
    have h1 := ih (fun v hv => hall v (List.mem_cons_of_mem _ hv))
    have h2 := hall a List.mem_cons_self
    simp only [List.flatten_cons, List.length_append, List.length_cons, Nat.mul_succ]
    rcases h2 with h | h <;> omega

/-- the leaf array of `n` values of width `w` (or empty): at most `n·w + 15⌈n/64⌉ + 54` bytes -/
theorem leaves_size_le (es : List Bytes) (w : Nat) (h1 : es.length < 2 ^ 31) (hw : w < 2 ^ 31)
    (hB : w * es.length < 2 ^ 63)
    (hall : ∀ v ∈ es, v.length = w ∨ v.length = 0) :
    ∀ v, newVLenArray es = some v →
      protoSizeVLenArray v ≤ w * es.length + 15 * ((es.length + 63) / 64) + 54 := by
  intro v hv
  have hsz : ∀ x ∈ (es.map List.length).filter (· > 0), x = w := by
    intro x hx
    obtain ⟨hx1, hx2⟩ := List.mem_filter.mp hx
    obtain ⟨b, hb, rfl⟩ := List.mem_map.mp hx1
    rcases hall b hb with h | h
    · exact h
    · simp [h] at hx2
  have hcnt : (nonEmptyIdx es).length ≤ es.length := by
    unfold nonEmptyIdx
    have := List.length_filter_le (fun i => decide (((es.map List.length).getD i 0) > 0)) (List.range es.length)
    simpa using this
  have hlt : ∀ i ∈ nonEmptyIdx es, i < es.length := by
    intro i hi
    unfold nonEmptyIdx at hi
    simpa using (List.mem_filter.mp hi).1
  have hfixed : ((es.map List.length).filter (· > 0)).getLast?.getD 0 < 2 ^ 31 := by
    cases hg : ((es.map List.length).filter (· > 0)).getLast? with
    | none => simp
    | some x =>
      have := hsz x (List.mem_of_getLast? hg)
      simp; omega
  have hfl := flatten_length_le es w hall
  rw [newVLenArray_eq, allEqual_of_const _ w hsz] at hv
  split at hv
  · cases hv
  · simp only [if_true, Option.some.injEq] at hv
    subst hv
    have f1 : sizeVarintF 10 es.length ≤ 7 := sizeVarintF_le7 10 _ (by omega) (by omega)
    have f2 : sizeVarintF 11 (nonEmptyIdx es).length ≤ 7 := sizeVarintF_le7 11 _ (by omega) (by omega)
    have f3 := sizeVarintF_le7 23 (((es.map List.length).filter (· > 0)).getLast?.getD 0) (by omega) (by omega)
    have f4 := sizeBytesF_le12 30 es.flatten (by omega) (by omega)
    have s5 := newBM_r64_size (nonEmptyIdx es) es.length hlt (by omega) (by omega)
    have f5 := sizeMsgF_le 61 _ (by omega)
      (show protoSizeBitmap (newBM (nonEmptyIdx es) es.length "r64") < 2 ^ 35 by omega)
    unfold protoSizeVLenArray
    simp only [Option.map_none, Option.map_some, sizeMsgF] at f5 ⊢
    omega

end UpgradeSize

open LegacyConvert LegacyWrite Legacy Refine UpgradeSize Wire Frame in
/-- **The message the loader builds from a three-section stream fits a frame**, from the limits of
    `C06_load_legacy_3section` alone (`hcount`, `hwn`) and `w < 2^31`: its serialized size is at most
    `8n + w·n + 15⌈n/64⌉ + 300` bytes. -/
theorem convert_msg_bodyOK (vr : Variant) (keys vals : List Bytes) (w : Nat) (ch st lv : Array32Msg)
    (hne : keys ≠ []) (hasc : strictAsc keys = true) (hlen : vals.length = keys.length)
    (hw : ∀ v ∈ vals, v.length = w) (hkl : ∀ k ∈ keys, 2 * k.length < 65535)
    (hcount : 32 * keys.length + 143 < 2 ^ 31) (hwn : w * (2 * keys.length + 1) < 2 ^ 47)
    (hw31 : w < 2 ^ 31)
    (hsec : sections3 vr keys vals = .ok (ch, st, lv))
    (t' : Trie1) (hconv : convert ch st lv (some w) = .ok t') :
    BodyOK (encodeSlim (Slim.encodeCreator t')) := by
  obtain ⟨lk, es, hs, htl, hbc, hopt, hk, he, hel, hall, henc, _⟩ :=
    convert_facts vr keys vals w ch st lv hne hasc hlen hw hkl hsec t' hconv
  have hs0 := shape_dropElts hs
  have hL : leavesBefore (dropElts (fixup lk t')).nodes (dropElts (fixup lk t')).nodes.size = keys.length := by
    rw [← hk]; exact hs.leafCnt.symm
  have hnb := inners_noBig hs hbc
  have h0 := SizeBound.protoSize_filter_le hs0 (by show (fixup lk t').opt.inner = false; rw [hopt])
    (by show (fixup lk t').opt.leaf = false; rw [hopt]) rfl
    (by show (fixup lk t').bigCnt ≤ _; rw [hbc]; omega)
    (inners_twoLab htl)
    (fun r hr hb => by rw [hnb r hr] at hb; cases hb)
    keys.length hL (by omega)
  have hsplit := protoSize_dropElts (fixup lk t')
  have hmul : w * keys.length ≤ w * (2 * keys.length + 1) := Nat.mul_le_mul_left _ (by omega)
  have hlv : sizeMsgF 60 ((Slim.encodeCreator (fixup lk t')).leaves.map Wire.protoSizeVLenArray)
      ≤ w * keys.length + 15 * ((keys.length + 63) / 64) + 66 := by
    rw [SizePrefixEnc.enc_leaves, he]
    simp only
    cases hnv : Slim.newVLenArray es with
    | none => simp [sizeMsgF]
    | some v =>
      have := leaves_size_le es w (by omega) hw31 (by rw [hel]; omega) hall v hnv
      rw [hel] at this
      have h12 := sizeMsgF_le12 60 (Wire.protoSizeVLenArray v) (by omega) (by omega)
      simp only [Option.map_some]
      omega
  unfold BodyOK maxAlloc
  rw [← henc, ← protoSizeSlim_eq, hsplit]
  generalize w * keys.length = A at *
  generalize w * (2 * keys.length + 1) = A' at *
  omega

#print axioms convert_msg_bodyOK
