import SlimProofs.Legacy0510Wire
import SlimProofs.InstanceLemmas
/-
  SlimProofs.UpgradeMsg — the message a legacy 0.5.10 / 0.5.11 load leaves in memory
  (`Legacy.wordSelectMsg cur (retired cur)`: today's message with word-index select tables and the
  three retired scalar fields kept as unknown bytes) is a well-formed, normal-form message: what
  `Marshal` writes for it is a current-layout stream that `Unmarshal` reads back as the very
  message (helpers for `SlimProps/C06Upgrade.lean`).
-/
open Wire Frame Version

namespace Wire

/-- An unknown scalar field in front of a string of unknown fields: still a string of unknown
    fields (the key is canonical, the field is not one the message consumes). -/
theorem unknownOnly_varintF (known : Nat → Nat → Bool) {fno v : Nat} (hf : FnoOK fno)
    (hv : v < 2 ^ 64) (hk : known fno 0 = false) (rest : Bytes) :
    unknownOnly known (encVarintF fno v ++ rest) = unknownOnly known rest := by
  unfold encVarintF
  by_cases hz : v = 0
  · simp [hz]
  · simp only [hz, if_false, List.append_assoc]
    have hr := readField_varintF hf hv rest
    have hlen : (tag fno 0 ++ (varint v ++ rest)).drop ((tag fno 0).length + (varint v).length) = rest := by
      rw [← List.append_assoc, ← List.length_append, List.drop_left]
    have htake : (tag fno 0 ++ (varint v ++ rest)).take (tag fno 0).length = tag fno 0 := List.take_left
    generalize hbs : tag fno 0 ++ (varint v ++ rest) = bs at hr hlen htake
    cases bs with
    | nil =>
      have := congrArg List.length hbs
      have h0 := tag_ne_nil fno 0
      simp at this
      exact absurd this.1 h0
    | cons b u' =>
      rw [unknownOnly, hr]
      simp only
      have hkey : varint (fno * 8 + 0) = tag fno 0 := rfl
      have hn : 1 ≤ (tag fno 0).length + (varint v).length := by
        have := tag_ne_nil fno 0
        cases h : tag fno 0 with
        | nil => exact absurd h this
        | cons _ _ => simp; omega
      have hdrop : u'.drop ((tag fno 0).length + (varint v).length - 1) = rest := by
        rw [← hlen]
        have : (tag fno 0).length + (varint v).length
            = ((tag fno 0).length + (varint v).length - 1) + 1 := by omega
        conv => rhs; rw [this, List.drop_succ_cons]
      rw [key_div (by omega), key_mod (by omega), hk, hkey, htake, hdrop]
      simp

end Wire

namespace LegacyWrite
open Legacy

/-- the retired fields 12, 13, 15 as the old writer wrote them are a normal-form unknown-field
    string of the current `Slim` schema -/
theorem retired_unknownOnly (cur : SlimMsg) (hB : cur.bigInnerCnt < 2 ^ 31) (hss : cur.shortSize ≤ 64) :
    unknownOnly slimKnown (retired cur) = true := by
  have h12 : (Slim.bigInnerSize - Slim.innerSize) * cur.bigInnerCnt < 2 ^ 64 := by
    simp only [Slim.bigInnerSize, Slim.innerSize]; omega
  have h13 : int32Varint ((cur.shortSize : Int) - Slim.innerSize) < 2 ^ 64 := by
    apply int32Varint_lt <;> simp only [Slim.innerSize] <;> omega
  have h15 : 2 ^ cur.shortSize - 1 < 2 ^ 64 := by
    have : 2 ^ cur.shortSize ≤ 2 ^ 64 := Nat.pow_le_pow_right (by omega) hss
    omega
  unfold retired
  rw [unknownOnly_varintF slimKnown (fno := 12) fnoOK h12 (by decide),
    unknownOnly_varintF slimKnown (fno := 13) fnoOK h13 (by decide)]
  have := unknownOnly_varintF slimKnown (fno := 15) fnoOK h15 (by decide) []
  rw [List.append_nil] at this
  rw [this, unknownOnly]

theorem wordSelectMsg_WF (cur : SlimMsg) (u : Bytes) (h : cur.WF) : (wordSelectMsg cur u).WF := by
  obtain ⟨h1, h2, h3, h4, h5, h6, h7, h8, h9⟩ := h
  refine ⟨h1, h2, h3, h4, h5, h6, ?_, ?_, h9⟩
  · intro v hv
    simp only [wordSelectMsg, Option.map_eq_some_iff] at hv
    obtain ⟨x, hx, rfl⟩ := hv
    obtain ⟨a1, a2, a3, a4, a5⟩ := h7 x hx
    refine ⟨a1, a2, a3, ?_, a5⟩
    intro b hb
    simp only [Option.map_eq_some_iff] at hb
    obtain ⟨p, hp, rfl⟩ := hb
    exact wordIndexSelect_WF p (a4 p hp)
  · intro v hv
    simp only [wordSelectMsg, Option.map_eq_some_iff] at hv
    obtain ⟨x, hx, rfl⟩ := hv
    exact oldLeafPrefixes_WF x (h8 x hx)

theorem wordSelectMsg_NF (cur : SlimMsg) (u : Bytes) (h : unknownOnly slimKnown u = true) :
    (wordSelectMsg cur u).NF := h

/-- the in-memory message of a 0.5.10 / 0.5.11 load of a built trie: well formed, normal form -/
theorem loaded0510_WF_NF {t : Trie1} (hs : ShapeOK t) (hsm : Refine.Small t) :
    (wordSelectMsg (Slim.encodeCreator t) (retired (Slim.encodeCreator t))).WF ∧
    (wordSelectMsg (Slim.encodeCreator t) (retired (Slim.encodeCreator t))).NF := by
  have hwf := Refine.encodeCreator_WF hs hsm
  refine ⟨wordSelectMsg_WF _ _ hwf, wordSelectMsg_NF _ _ ?_⟩
  apply retired_unknownOnly _ hwf.1
  rw [Refine.enc_shortSize]
  have := Refine.eShortSize_le t
  omega

end LegacyWrite

#print axioms LegacyWrite.retired_unknownOnly
#print axioms LegacyWrite.loaded0510_WF_NF
