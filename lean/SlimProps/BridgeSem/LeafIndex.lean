import Generated.Funcs
import SlimProps.BridgeSem.Common
/-
  SlimProps.BridgeSem.LeafIndex — tie 1, semantic part: `getLeafIndex` (trie/slimtrie_query.go).
  See SlimProps/BridgeSem.lean for the overview.
-/

open Generated

namespace BridgeSem

/-- `getLeafIndex`: leaf ordinal = node id − number of inner nodes before it -/
theorem getLeafIndex_sem (nodeid r : Nat) (hr : r ≤ nodeid) (hn : nodeid < 2 ^ 31) :
    Generated.getLeafIndex nodeid r = ((nodeid - r : Nat) : Int) := by
  unfold Generated.getLeafIndex
  conv => lhs; rw [← ofS_natCast (w := 32) (n := nodeid) (by omega),
    ← ofS_natCast (w := 32) (n := r) (by omega)]
  rw [sub_ofS, toS_ofS (by omega)]
  · omega
  · simp only [Nat.add_one_sub_one]; omega
  · simp only [Nat.add_one_sub_one]; omega

end BridgeSem

#print axioms BridgeSem.getLeafIndex_sem
