import Driver.Loop
import Driver.Enc
import Driver.Arr
import Driver.Wire
import Driver.Idx
import Driver.Trie
import Driver.Leg
