import SlimModel.Wire
import SlimModel.ArrayMsg
/-
  SlimModel.WireSchema — the struct tags of trie/slim.pb.go, array/array.pb.go, array/bitmap.pb.go
  as data, in struct declaration order:  `protobuf:"<wire>,<num>,<opt|rep,packed>,name=<name>,proto3"`.
  Another component regenerates these tables from the Go source and proves them equal; the theorems
  of `SlimProofs/WireSchema.lean` tie the tables to the decoders/encoders of `Wire`.
-/
namespace Wire

structure FieldTag where
  name : String
  num : Nat
  /-- `varint` or `bytes` -/
  wire : String
  /-- `rep,packed` (true) or `opt` (false) -/
  packedRep : Bool
  deriving Repr, DecidableEq, Inhabited

/-- trie.Bitmap -/
def bitmapSchema : List FieldTag :=
  [⟨"Words", 20, "varint", true⟩, ⟨"RankIndex", 30, "varint", true⟩, ⟨"SelectIndex", 40, "varint", true⟩]

/-- trie.VLenArray -/
def vlenArraySchema : List FieldTag :=
  [⟨"N", 10, "varint", false⟩, ⟨"EltCnt", 11, "varint", false⟩, ⟨"PresenceBM", 61, "bytes", false⟩,
   ⟨"PositionBM", 20, "bytes", false⟩, ⟨"FixedSize", 23, "varint", false⟩, ⟨"Bytes", 30, "bytes", false⟩]

/-- trie.Slim -/
def slimSchema : List FieldTag :=
  [⟨"BigInnerCnt", 11, "varint", false⟩, ⟨"ShortSize", 14, "varint", false⟩, ⟨"NodeTypeBM", 20, "bytes", false⟩,
   ⟨"Inners", 30, "bytes", false⟩, ⟨"ShortBM", 31, "bytes", false⟩, ⟨"ShortTable", 32, "varint", true⟩,
   ⟨"InnerPrefixes", 38, "bytes", false⟩, ⟨"LeafPrefixes", 58, "bytes", false⟩, ⟨"Leaves", 60, "bytes", false⟩]

/-- array.Array32 -/
def array32Schema : List FieldTag :=
  [⟨"Cnt", 1, "varint", false⟩, ⟨"Bitmaps", 2, "varint", true⟩, ⟨"Offsets", 3, "varint", true⟩,
   ⟨"Elts", 4, "bytes", false⟩, ⟨"Flags", 10, "varint", false⟩, ⟨"EltWidth", 20, "varint", false⟩,
   ⟨"BMElts", 30, "bytes", false⟩]

/-- array.Bits -/
def bitsSchema : List FieldTag :=
  [⟨"Flags", 1, "varint", false⟩, ⟨"N", 10, "varint", false⟩, ⟨"Words", 20, "varint", true⟩,
   ⟨"RankIndex", 30, "varint", true⟩]

/-- The (number, wire type) pairs the table-driven unmarshaler of a message with these tags consumes
    itself: a scalar varint on wire type 0, a packed repeated varint on 0 and 2, bytes and
    sub-messages on 2. -/
def accepts (sch : List FieldTag) (fno wire : Nat) : Bool :=
  sch.any fun t => t.num = fno &&
    (if t.wire = "varint" then (wire = 0 || (t.packedRep && wire = 2)) else wire = 2)

end Wire
