import SlimModel.Marshal
import SlimModel.Stat
/-
  SlimModel.Legacy — the in-memory half of `(*SlimTrie).Unmarshal` (trie/slimtrie_marshal.go):
  `before000512InnerPrefixTobitstr`, `before000512FixLeafSize`, `before000510ToNewChildrenArray`
  (with `getBM16Child`, `getStepBefore000510`, `bmhas`, `Base.GetBytes`, `U16.Get`), and on top of
  `unmarshalDispatch` the complete `Unmarshal`, `Reset` and the instance state they act on.

  `encSize` is `st.encoder.GetEncodedSize(nil)`: `some w` for a fixed-width encoder, `none` when
  the instance has no encoder or a variable-width one (the Go call then panics).
-/
open Bits

namespace Legacy

/-! ### 0.5.10 / 0.5.11 → 0.5.12 -/

/-- `bits.TrailingZeros8` -/
def trailingZeros8 (b : UInt8) : Nat :=
  match (List.range 8).find? (fun k => b.toNat.testBit k) with
  | some k => k
  | none => 8

/-- `bitstr.New(s, 0, bitLen)` for an arbitrary bit length -/
def bitstrNew0 (s : Bytes) (bitLen : Nat) : Except Err Bytes :=
  if bitLen = 0 then .ok [0xff] else
  let toByte := (bitLen + 7) / 8
  if toByte > s.length then .error (.panic "slice bounds out of range (bitstr.New)") else
  let r := bitLen % 8
  let mask : Nat := if r = 0 then 0xff else (0xff <<< (8 - r)) % 256
  let body := s.take toByte
  let last := (body.getLast?.getD 0).toNat &&& mask
  .ok (body.dropLast ++ [UInt8.ofNat last, UInt8.ofNat mask])

/-- `copy(dst, src)` into `bytes[from : from+n)`, n = min(len dst, len src) -/
def copyInto (bytes : Bytes) (frm dstLen : Nat) (src : Bytes) : Bytes :=
  let n := min dstLen src.length
  bytes.take frm ++ src.take n ++ bytes.drop (frm + n)

/-- `before000512InnerPrefixTobitstr` -/
def innerPrefixTobitstr (s : SlimMsg) : Except Err SlimMsg := do
  match s.innerPrefixes with
  | none => return s
  | some ips =>
    match ips.positionBM with
    | none => return s
    | some pbm =>
      if ips.bytes.isEmpty then return s
      let rec go : Nat → Nat → Bytes → Except Err Bytes
        | 0, _, _ => .error .fuel
        | fuel + 1, i, bytes => do
          let (frm, to) ← select32R64 pbm i
          let old ← Slim.sliceBytes bytes frm to
          let some c0 := old.head? | .error (.panic "index out of range (old[0])")
          let pl := old.length - 1
          let bitLen : Int :=
            if c0.toNat % 2 = 0 then (pl * 8 : Nat)
            else ((pl * 8 : Nat) : Int) - trailingZeros8 (old.getLast?.getD 0) - 1
          if bitLen < 0 then .error (.panic "negative bit length") else
          let newPref ← bitstrNew0 (old.drop 1) bitLen.toNat
          let bytes := copyInto bytes frm old.length newPref
          if to = bytes.length then return bytes else go fuel (i + 1) bytes
      let bytes ← go (ips.bytes.length + 1) 0 ips.bytes
      return { s with innerPrefixes := some { ips with bytes := bytes } }

/-- `before000512FixLeafSize` -/
def fixLeafSize (s : SlimMsg) (encSize : Option Nat) : Except Err SlimMsg := do
  match s.leaves with
  | none => return s
  | some lv =>
    if lv.presenceBM.isSome then return s
    if lv.fixedSize ≠ 0 then .error (.panic "impossible FixedSize is non-zero while PresenceBM is nil")
    let some w := encSize | .error (.panic "GetEncodedSize(nil) on a nil or variable-width encoder")
    if w = 0 then .error (.panic "integer divide by zero")
    let n := lv.bytes.length / w
    return { s with leaves := some { lv with fixedSize := w, n := n, eltCnt := n,
                                              presenceBM := some (newBM (List.range n) n "r64") } }

/-! ### ≤ 0.5.9 → 0.5.12 -/

/-- `bmhas` = `bitmap.SafeGet1` -/
def bmhas (bm : List Nat) (i : Nat) : Bool :=
  match bm[i / 64]? with
  | some w => w.testBit (i % 64)
  | none => false

/-- `bitmap.Rank64(a.Bitmaps, a.Offsets, idx)` -/
def arrRank (a : Array32Msg) (idx : Nat) : Except Err (Nat × Bool) :=
  rank64 { words := a.bitmaps, rankIndex := a.offsets } idx

/-- `Base.GetBytes(idx, eltsize)` -/
def getBytes (a : Array32Msg) (idx eltsize : Nat) : Except Err (Option Bytes) := do
  let (r, b) ← arrRank a idx
  if !b then return none
  return some (← Slim.sliceBytes a.elts (eltsize * r) (eltsize * r + eltsize))

/-- `U16.Get(idx)` -/
def u16Get (a : Array32Msg) (idx : Nat) : Except Err (Option Nat) := do
  let some n := a.bitmaps[idx / 64]? | .error (.panic "index out of range (U16.Get Bitmaps)")
  if !n.testBit (idx % 64) then return none
  let some off := a.offsets[idx / 64]? | .error (.panic "index out of range (U16.Get Offsets)")
  let st := off * 2 + popcount (n % 2 ^ (idx % 64)) * 2
  match a.elts[st]?, a.elts[st + 1]? with
  | some b0, some b1 => return some (b0.toNat + 256 * b1.toNat)
  | _, _ => .error (.panic "index out of range (endian.Uint16)")

/-- `getStepBefore000510`, in half-bytes: `(stp - 1)` (the Go code returns bits: ×4; uint16 wraps) -/
def getStep (steps : Array32Msg) (nid : Nat) : Except Err Nat := do
  if bmhas steps.bitmaps nid then
    match ← u16Get steps nid with
    | some stp => return (stp + 65535) % 65536      -- stp-- in uint16
    | none => return 0      -- unreachable: bmhas said present (must.Be compiled out ⇒ stp = 0 - 1 wraps)
  else return 0

/-- `getBM16Child`: the 17-bit bitmap (16 labels shifted by one, no end-of-key bit yet) -/
def getBM16Child (ch : Array32Msg) (idx : Nat) : Except Err Nat := do
  let (eltIdx, _) ← arrRank ch idx
  if (ch.flags / 2) % 2 = 0 then
    -- uint32 elements: bitmap in the low 16 bits
    match ch.elts[eltIdx * 4]?, ch.elts[eltIdx * 4 + 1]?, ch.elts[eltIdx * 4 + 2]?, ch.elts[eltIdx * 4 + 3]? with
    | some b0, some b1, some _, some _ => return (b0.toNat + 256 * b1.toNat) * 2
    | _, _, _, _ => .error (.panic "index out of range (endian.Uint32)")
  else
    let some bme := ch.bmElts | .error (.panic "nil BMElts")
    let i := eltIdx * 16
    let some w := bme.words[i / 64]? | .error (.panic "index out of range (Getw)")
    return ((w >>> (i % 64)) % 2 ^ 16) * 2

structure QElt where
  oldid : Nat
  step : Nat
  leafOnly : Bool
  deriving Repr

/-- conversion state: the nodes created so far (an L1 record array without firstChild), leaves -/
structure Conv where
  queue : Array QElt
  nextOldID : Nat := 1
  nodes : Array Node := #[]
  leaves : Array Bytes := #[]

/-- `before000510ToNewChildrenArray`: rebuild through the creator.  The result is given as an
    L1 `Trie1` (records; `firstChild` is not used by `Slim.encode`) so that `creator.build` is
    the same `Slim.encode` as for fresh tries. -/
def convert (ch steps lvs : Array32Msg) (encSize : Option Nat) : Except Err Trie1 := do
  let step0 ← getStep steps 0
  let rec loop : Nat → Nat → Conv → Except Err Conv
    | 0, newid, c => if newid < c.queue.size then .error .fuel else .ok c
    | fuel + 1, newid, c =>
      if h : newid < c.queue.size then do
        let q := c.queue[newid]
        let hasInner := bmhas ch.bitmaps q.oldid
        let hasLeaf := bmhas lvs.bitmaps q.oldid
        if q.leafOnly || (!hasInner && hasLeaf) then
          let some w := encSize | .error (.panic "GetEncodedSize(nil) on a nil or variable-width encoder")
          match ← getBytes lvs q.oldid w with
          | some lv =>
            loop fuel (newid + 1) { c with nodes := c.nodes.push (.leaf c.leaves.size none),
                                            leaves := c.leaves.push lv }
          | none =>
            -- must.Be.True(found) is compiled out: lv = nil is added as an empty leaf
            loop fuel (newid + 1) { c with nodes := c.nodes.push (.leaf c.leaves.size none),
                                            leaves := c.leaves.push [] }
        else if !hasInner then loop fuel (newid + 1) c
        else
          let bm ← getBM16Child ch q.oldid
          let kids := ((List.range 17).filter (fun k => bm.testBit k)).length
          let queue := if hasLeaf then c.queue.push { oldid := q.oldid, step := 0, leafOnly := true } else c.queue
          let rec addKids : Nat → Nat → Array QElt → Except Err (Array QElt)
            | 0, _, qu => .ok qu
            | k + 1, oid, qu => do
              let st ← getStep steps oid
              addKids k (oid + 1) (qu.push { oldid := oid, step := st, leafOnly := false })
          let queue ← addKids kids c.nextOldID queue
          let bm := if hasLeaf then bm ||| 1 else bm
          let labels := (List.range 64).filter (fun k => bm.testBit k)
          -- addInner(newid, bmidx, innerSize, 0, qelt.step, ""): a step of 0 stores no prefix
          let pref := if q.step = 0 then Pref.none else Pref.step q.step
          loop fuel (newid + 1)
            { c with queue := queue, nextOldID := c.nextOldID + kids,
                     nodes := c.nodes.push (.inner { big := false, labels := labels, firstChild := 0, pref := pref }) }
      else .ok c
  -- every queue element creates at most one node and at most 17 queue entries; old ids are bounded
  -- by the children bitmap: fuel = 64 * words of both bitmaps + 2 elements per id
  let fuel := 2 * 64 * (ch.bitmaps.length + lvs.bitmaps.length) + 4
  let c ← loop fuel 0 { queue := #[{ oldid := 0, step := step0, leafOnly := false }] }
  return { opt := {}, nodes := c.nodes, bigCnt := 0, leafKeyIdx := #[], elts := some c.leaves.toList }

/-! ### the complete `Unmarshal` -/

/-- `Unmarshal(buf)` as a function from bytes to the new `st.inner` -/
def unmarshalMsg (encSize : Option Nat) (buf : Bytes) : Except Err SlimMsg := do
  match ← unmarshalDispatch buf with
  | .current m => return m
  | .v0510 _ m =>
    let m ← innerPrefixTobitstr m
    fixLeafSize m encSize
  | .legacy3 _ ch steps lvs =>
    let t ← convert ch steps lvs encSize
    return Slim.encodeCreator t

/-- The instance: what a `*SlimTrie` holds besides the encoder. -/
structure Instance where
  inner : SlimMsg := {}
  /-- `st.levels`; `st.vars` is a function of `inner` and is recomputed by the view -/
  levels : List Slim.Level := [(0, 0, 0)]
  /-- `st.vars == nil` (after `Reset`, or never initialised) -/
  varsNil : Bool := false
  deriving Repr

/-- `st.init()` -/
def Instance.init (m : SlimMsg) : Except Err Instance := do
  let lv ← Slim.initLevels m
  return { inner := m, levels := lv }

/-- `Unmarshal`: returns the new instance state and the error (if any).  `st.inner` is replaced by
    an empty message first; `vars`/`levels` are only replaced on success. -/
def Instance.unmarshal (st : Instance) (encSize : Option Nat) (buf : Bytes) : Instance × Option Err :=
  match unmarshalMsg encSize buf with
  | .error e => ({ st with inner := {} }, some e)
  | .ok m =>
    match Instance.init m with
    | .ok st' => (st', none)
    | .error e => ({ st with inner := m }, some e)

/-- `Reset` -/
def Instance.reset (_ : Instance) : Instance :=
  { inner := {}, levels := [(0, 0, 0)], varsNil := true }

end Legacy
