import SlimProps.C09
import SlimProofs.Exact
/-
  SlimProps.C03 — Complete mode is an exact ordered map for arbitrary query strings.

  For every successful `build` with `opt.complete = true` (inner prefixes and leaf tails stored)
  and EVERY query string `q` (present or not, any length), with
  `R = retained keys vals opt.dedup` the sorted association list of SlimModel.Spec and `shownVal`
  of SlimProps.C09 (the entry's value; nil when no values were supplied or every retained value is
  empty, then the trie stores no leaf array):

  * `C03_getID`    `GetID q` returns an id iff `q` is a retained key (`Spec.get R q`), and then it
                   is the id of that key's leaf
  * `C03_get`      `Get q      = shownVal R (Spec.get R q)`
  * `C03_rangeget` `RangeGet q = shownVal R (Spec.le R q)`   (greatest retained key ≤ q)
  * `C03_search`   `Search q   = (shownVal R (Spec.lt R q), shownVal R (Spec.get R q),
                                  shownVal R (Spec.gt R q))`
  In particular all four return normally (no panic, no fuel exhaustion) on every query.
  Order is `bytesLt` / `bytesLe` = Go's bytewise string order.  The empty key list is included.

  Proof: `searchID_exact` / `getID_exact` (SlimProofs.Exact: the `searchLoop` invariant for an
  arbitrary query, with the three-way stored-prefix comparison, the absent-label exit and the
  three-way leaf-tail comparison) give the ids in terms of the order of the kept key indexes;
  `C03.spec_*` translate `Spec.get/lt/gt/le` over `R = (kept indexes).map entry`
  (`C09.retained_eq`) into the same terms; `C09.getLeaf_of_build` reads the values.
-/

open Subtree SearchDescent Exact

namespace C03

/-! ### first / last element of a filtered ascending list -/

theorem find?_of_first (K : List Nat) (P : Nat → Bool) (hK : K.Pairwise (· < ·)) (p : Nat)
    (hp : p ∈ K) (hPp : P p = true) (hlow : ∀ t ∈ K, t < p → P t = false) :
    K.find? P = some p := by
  induction K with
  | nil => simp at hp
  | cons x xs ih =>
    rw [List.pairwise_cons] at hK
    by_cases hx : x = p
    · rw [hx]; simp [hPp]
    · have hpx : p ∈ xs := by
        rcases List.mem_cons.mp hp with h | h
        · exact absurd h.symm hx
        · exact h
      have hlt : x < p := hK.1 p hpx
      rw [List.find?_cons_of_neg (by rw [hlow x (by simp) hlt]; simp)]
      exact ih hK.2 hpx (fun t ht => hlow t (List.mem_cons_of_mem _ ht))

theorem find?_none (K : List Nat) (P : Nat → Bool) (h : ∀ t ∈ K, P t = false) :
    K.find? P = none := by
  rw [List.find?_eq_none]
  intro t ht; rw [h t ht]; simp

theorem filter_last_of (K : List Nat) (P : Nat → Bool) (hK : K.Pairwise (· < ·)) (p : Nat)
    (hp : p ∈ K) (hPp : P p = true) (hhigh : ∀ t ∈ K, p < t → P t = false) :
    (K.filter P).getLast? = some p := by
  induction K with
  | nil => simp at hp
  | cons x xs ih =>
    rw [List.pairwise_cons] at hK
    by_cases hx : x = p
    · have hnil : xs.filter P = [] := by
        rw [List.filter_eq_nil_iff]
        intro t ht
        rw [hhigh t (List.mem_cons_of_mem _ ht) (hx ▸ hK.1 t ht)]; simp
      rw [List.filter_cons_of_pos (by rw [hx]; exact hPp), hnil, hx]; rfl
    · have hpx : p ∈ xs := by
        rcases List.mem_cons.mp hp with h | h
        · exact absurd h.symm hx
        · exact h
      have ih' := ih hK.2 hpx (fun t ht => hhigh t (List.mem_cons_of_mem _ ht))
      have hne : xs.filter P ≠ [] := by
        intro h; rw [h] at ih'; cases ih'
      cases hPx : P x with
      | false => rw [List.filter_cons_of_neg (by rw [hPx]; simp)]; exact ih'
      | true =>
        rw [List.filter_cons_of_pos hPx]
        obtain ⟨y, ys, hy⟩ := List.exists_cons_of_ne_nil hne
        rw [hy, List.getLast?_cons_cons, ← hy]; exact ih'

theorem filter_none (K : List Nat) (P : Nat → Bool) (h : ∀ t ∈ K, P t = false) :
    K.filter P = [] := by
  rw [List.filter_eq_nil_iff]
  intro t ht; rw [h t ht]; simp

/-! ### order facts on byte strings -/

theorem bytesLe_eq (a b : Bytes) : bytesLe a b = !bytesLt b a := by
  unfold bytesLe bytesLt cmpBytes
  rw [lexCmp_swap (a.map UInt8.toNat) (b.map UInt8.toNat)]
  cases lexCmp (a.map UInt8.toNat) (b.map UInt8.toNat) <;> rfl

theorem bytes_trichotomy (a b : Bytes) (h1 : bytesLt a b = false) (h2 : bytesLt b a = false) :
    a = b := by
  apply nibs_injective
  cases h : lexCmp (nibs a) (nibs b) with
  | eq => exact lexCmp_eq_iff.mp h
  | lt => rw [bytesLt_iff_nibs.mpr h] at h1; cases h1
  | gt => rw [bytesLt_iff_nibs.mpr ((lexCmp_gt_iff _ _).mp h)] at h2; cases h2

/-! ### `Spec.get/lt/gt/le` over the kept indexes -/

section spec
variable (keys : List Bytes) (vals : Option (List Bytes)) (keep : List Bool) (q : Bytes)

theorem spec_get_eq :
    Spec.get ((C09.keptIdx keep keys.length).map (C09.entryAt keys vals)) q =
      ((C09.keptIdx keep keys.length).find? (fun j => keys.getD j [] == q)).map
        (C09.entryAt keys vals) := by
  unfold Spec.get
  rw [List.find?_map]; rfl

theorem spec_lt_eq :
    Spec.lt ((C09.keptIdx keep keys.length).map (C09.entryAt keys vals)) q =
      (((C09.keptIdx keep keys.length).filter (fun j => bytesLt (keys.getD j []) q)).getLast?).map
        (C09.entryAt keys vals) := by
  unfold Spec.lt
  rw [List.filter_map, List.getLast?_map]; rfl

theorem spec_le_eq :
    Spec.le ((C09.keptIdx keep keys.length).map (C09.entryAt keys vals)) q =
      (((C09.keptIdx keep keys.length).filter (fun j => bytesLe (keys.getD j []) q)).getLast?).map
        (C09.entryAt keys vals) := by
  unfold Spec.le
  rw [List.filter_map, List.getLast?_map]; rfl

theorem spec_gt_eq :
    Spec.gt ((C09.keptIdx keep keys.length).map (C09.entryAt keys vals)) q =
      ((C09.keptIdx keep keys.length).find? (fun j => bytesLt q (keys.getD j []))).map
        (C09.entryAt keys vals) := by
  unfold Spec.gt
  rw [List.filter_map, List.head?_map, List.head?_filter]; rfl

end spec

/-! ### `Get`, `RangeGet` behind the ids -/

theorem get_of_getID (v : View) (key : Bytes) (e : Option Nat) (x : Option (Option Bytes))
    (h : getID v key = .ok e) (hx : C09.leafOpt v e = .ok x) : get v key = .ok x := by
  unfold _root_.get
  rw [h]
  cases e with
  | none => cases hx; rfl
  | some id => exact hx

/-- the id `RangeGet` reads: the exact match if there is one, else the left neighbour -/
def pick (e l : Option Nat) : Option Nat :=
  match e with
  | some id => some id
  | none => l

theorem rangeGet_of (v : View) (key : Bytes) (l e r : Option Nat) (x : Option (Option Bytes))
    (h : searchID v key = .ok (l, e, r)) (hx : C09.leafOpt v (pick e l) = .ok x) :
    rangeGet v key = .ok x := by
  unfold rangeGet
  rw [h]
  cases e with
  | some id => exact hx
  | none =>
    cases l with
    | none => cases hx; rfl
    | some id => exact hx

end C03

/-! ### the four lookups on a non-empty Complete trie -/

namespace C03

theorem complete_opt {opt : Opt} (hc : opt.complete = true) :
    opt.inner = true ∧ opt.leaf = true := by
  unfold Opt.complete at hc
  exact Bool.and_eq_true_iff.mp hc

/-- the ids of `searchID` / `GetID` and the values of their leaves, against `Spec` -/
theorem core (keys : List Bytes) (vals : Option (List Bytes)) (opt : Opt) (t : Trie1)
    (hb : build keys vals opt = .ok t) (hne : keys ≠ []) (hc : opt.complete = true) (q : Bytes) :
    ∃ l e r, searchID t.view q = .ok (l, e, r) ∧ getID t.view q = .ok e ∧
      (e.isSome = (Spec.get (retained keys vals opt.dedup) q).isSome) ∧
      C09.leafOpt t.view l
        = .ok (shownVal (retained keys vals opt.dedup) (Spec.lt (retained keys vals opt.dedup) q)) ∧
      C09.leafOpt t.view e
        = .ok (shownVal (retained keys vals opt.dedup) (Spec.get (retained keys vals opt.dedup) q)) ∧
      C09.leafOpt t.view r
        = .ok (shownVal (retained keys vals opt.dedup) (Spec.gt (retained keys vals opt.dedup) q)) ∧
      C09.leafOpt t.view (pick e l)
        = .ok (shownVal (retained keys vals opt.dedup) (Spec.le (retained keys vals opt.dedup) q)) := by
  obtain ⟨hwf, hopt⟩ := build_wf keys vals opt t hb hne
  obtain ⟨hasc, hv, _⟩ := build_pre keys vals opt t hb hne
  obtain ⟨hin, hlf⟩ := complete_opt hc
  rw [← hopt] at hin hlf
  have hget := C09.getLeaf_of_build keys vals opt t hb hne
  rw [C09.retained_eq keys vals opt.dedup hv]
  generalize keepMask keys.length vals opt.dedup = keep at hwf hget ⊢
  have hshown := C09.shownVal_entryAt keys vals keep hv
  have hKasc := C09.keptIdx_asc keep keys.length
  have hKmem : ∀ t', t' ∈ C09.keptIdx keep keys.length ↔ t' < keys.length ∧ keptAt keep t' = true :=
    fun t' => C09.mem_keptIdx
  obtain ⟨l, e, r, hsid, hres⟩ := searchID_exact keys keep t hasc hwf hin hlf q
  have hgid := getID_of_searchID keys keep t hwf q l e r hsid
  -- value of a leaf against `shownVal`
  have hval : ∀ id p, IsLeafOf t id p →
      C09.leafOpt t.view (some id) = .ok (shownVal ((C09.keptIdx keep keys.length).map
        (C09.entryAt keys vals)) (some (C09.entryAt keys vals p))) := by
    intro id p hleaf
    rw [C09.leafOpt_some _ _ _ (hget id p hleaf)]
    exact congrArg Except.ok (hshown (some p)).symm
  have hnone : C09.leafOpt t.view none = .ok (shownVal ((C09.keptIdx keep keys.length).map
        (C09.entryAt keys vals)) none) := rfl
  -- left neighbour
  have hleft : C09.leafOpt t.view l = .ok (shownVal ((C09.keptIdx keep keys.length).map (C09.entryAt keys vals)) (Spec.lt ((C09.keptIdx keep keys.length).map
        (C09.entryAt keys vals)) q)) := by
    rw [spec_lt_eq]
    have hlt := hres.lt
    cases l with
    | none =>
      rw [filter_none _ _ (fun t' ht' => hlt t' ((hKmem t').mp ht').1 ((hKmem t').mp ht').2)]
      exact hnone
    | some id =>
      obtain ⟨p, hleaf, hp1, hp2, hp3, hp4⟩ := hlt
      rw [filter_last_of _ _ hKasc p ((hKmem p).mpr ⟨hp1, hp2⟩) hp3
        (fun t' ht' h => hp4 t' h ((hKmem t').mp ht').1 ((hKmem t').mp ht').2)]
      exact hval id p hleaf
  -- exact match
  have hexact : C09.leafOpt t.view e = .ok (shownVal ((C09.keptIdx keep keys.length).map (C09.entryAt keys vals)) (Spec.get ((C09.keptIdx keep keys.length).map
        (C09.entryAt keys vals)) q)) ∧
      e.isSome = (Spec.get ((C09.keptIdx keep keys.length).map (C09.entryAt keys vals)) q).isSome := by
    rw [spec_get_eq]
    have heq := hres.eq
    cases e with
    | none =>
      rw [find?_none _ _ (fun t' ht' => by
        have := heq t' ((hKmem t').mp ht').1 ((hKmem t').mp ht').2
        simpa using this)]
      exact ⟨hnone, rfl⟩
    | some id =>
      obtain ⟨m, hleaf, hm1, hm2, hm3⟩ := heq
      rw [find?_of_first _ _ hKasc m ((hKmem m).mpr ⟨hm1, hm2⟩)
        (by show (keys.getD m [] == q) = true; rw [hm3]; exact beq_self_eq_true q)
        (fun t' ht' h => by
          have hne' : keys.getD t' [] ≠ q := fun he => by
            have := strictAsc_inj hasc ((hKmem t').mp ht').1 hm1 (he.trans hm3.symm)
            omega
          simpa using hne')]
      exact ⟨hval id m hleaf, rfl⟩
  -- right neighbour
  have hright : C09.leafOpt t.view r = .ok (shownVal ((C09.keptIdx keep keys.length).map (C09.entryAt keys vals)) (Spec.gt ((C09.keptIdx keep keys.length).map
        (C09.entryAt keys vals)) q)) := by
    rw [spec_gt_eq]
    have hgt := hres.gt
    cases r with
    | none =>
      rw [find?_none _ _ (fun t' ht' => hgt t' ((hKmem t').mp ht').1 ((hKmem t').mp ht').2)]
      exact hnone
    | some id =>
      obtain ⟨p, hleaf, hp1, hp2, hp3, hp4⟩ := hgt
      rw [find?_of_first _ _ hKasc p ((hKmem p).mpr ⟨hp1, hp2⟩) hp3
        (fun t' ht' h => hp4 t' h ((hKmem t').mp ht').2)]
      exact hval id p hleaf
  -- greatest key ≤ q
  have hle : C09.leafOpt t.view (pick e l)
      = .ok (shownVal ((C09.keptIdx keep keys.length).map (C09.entryAt keys vals)) (Spec.le ((C09.keptIdx keep keys.length).map (C09.entryAt keys vals)) q)) := by
    rw [spec_le_eq]
    have heq := hres.eq
    cases e with
    | some id =>
      obtain ⟨m, hleaf, hm1, hm2, hm3⟩ := heq
      rw [filter_last_of _ _ hKasc m ((hKmem m).mpr ⟨hm1, hm2⟩)
        (by rw [hm3, bytesLe_eq, bytesLt_irrefl]; rfl)
        (fun t' ht' h => by
          have := strictAsc_lt hasc h ((hKmem t').mp ht').1
          rw [hm3] at this
          rw [bytesLe_eq, this]; rfl)]
      exact hval id m hleaf
    | none =>
      have hcongr : (C09.keptIdx keep keys.length).filter (fun j => bytesLe (keys.getD j []) q)
          = (C09.keptIdx keep keys.length).filter (fun j => bytesLt (keys.getD j []) q) := by
        apply List.filter_congr
        intro t' ht'
        have hne' := heq t' ((hKmem t').mp ht').1 ((hKmem t').mp ht').2
        rw [bytesLe_eq]
        cases h1 : bytesLt (keys.getD t' []) q with
        | true => rw [bytesLt_false_of_gt (bytesLt_iff_nibs.mp h1)]; rfl
        | false =>
          cases h2 : bytesLt q (keys.getD t' []) with
          | true => rfl
          | false => exact absurd (bytes_trichotomy _ _ h1 h2) hne'
      rw [hcongr, ← spec_lt_eq]
      exact hleft
  exact ⟨l, e, r, hsid, hgid, hexact.2, hleft, hexact.1, hright, hle⟩

end C03

/-! ### the empty key list -/

namespace C03

theorem build_nil (vals : Option (List Bytes)) (opt : Opt) (t : Trie1)
    (hb : build [] vals opt = .ok t) : t = Trie1.empty opt := by
  unfold build at hb
  simp only [List.length_nil, if_true] at hb
  cases hb; rfl

theorem retained_nil (vals : Option (List Bytes)) (dedup : Bool) : retained [] vals dedup = [] := by
  unfold retained entries
  cases vals <;> simp [filterMask]

theorem searchID_empty (opt : Opt) (q : Bytes) :
    searchID (Trie1.empty opt).view q = .ok (none, none, none) := rfl

theorem getID_empty (opt : Opt) (q : Bytes) : getID (Trie1.empty opt).view q = .ok none := rfl

end C03

/-! ### the property -/

/-- **C03 (Search).**  In Complete mode `Search q`, for every query string, returns the values of
    the greatest retained key below `q`, of `q` itself if it is retained, and of the smallest
    retained key above `q` (nil where there is no such key). -/
theorem C03_search (keys : List Bytes) (vals : Option (List Bytes)) (opt : Opt) (t : Trie1)
    (hb : build keys vals opt = .ok t) (hc : opt.complete = true) (q : Bytes) :
    search t.view q =
      .ok (shownVal (retained keys vals opt.dedup) (Spec.lt (retained keys vals opt.dedup) q),
           shownVal (retained keys vals opt.dedup) (Spec.get (retained keys vals opt.dedup) q),
           shownVal (retained keys vals opt.dedup) (Spec.gt (retained keys vals opt.dedup) q)) := by
  by_cases hne : keys = []
  · subst hne
    rw [C03.build_nil vals opt t hb, C03.retained_nil]
    rfl
  · obtain ⟨l, e, r, hsid, _, _, hl, he, hr, _⟩ := C03.core keys vals opt t hb hne hc q
    exact C09.search_of_searchID _ _ l e r _ _ _ hsid hl he hr

/-- **C03 (GetID).**  In Complete mode `GetID q` returns normally for every query string and
    reports an id exactly when `q` is a retained key: no false positives, no false negatives. -/
theorem C03_getID (keys : List Bytes) (vals : Option (List Bytes)) (opt : Opt) (t : Trie1)
    (hb : build keys vals opt = .ok t) (hc : opt.complete = true) (q : Bytes) :
    ∃ e, getID t.view q = .ok e ∧
      e.isSome = (Spec.get (retained keys vals opt.dedup) q).isSome := by
  by_cases hne : keys = []
  · subst hne
    rw [C03.build_nil vals opt t hb, C03.retained_nil]
    exact ⟨none, rfl, rfl⟩
  · obtain ⟨l, e, r, _, hg, hsome, _⟩ := C03.core keys vals opt t hb hne hc q
    exact ⟨e, hg, hsome⟩

/-- **C03 (Get).**  In Complete mode `Get q` finds exactly the retained keys and returns their
    values. -/
theorem C03_get (keys : List Bytes) (vals : Option (List Bytes)) (opt : Opt) (t : Trie1)
    (hb : build keys vals opt = .ok t) (hc : opt.complete = true) (q : Bytes) :
    get t.view q =
      .ok (shownVal (retained keys vals opt.dedup) (Spec.get (retained keys vals opt.dedup) q)) := by
  by_cases hne : keys = []
  · subst hne
    rw [C03.build_nil vals opt t hb, C03.retained_nil]
    rfl
  · obtain ⟨l, e, r, _, hg, _, _, he, _, _⟩ := C03.core keys vals opt t hb hne hc q
    exact C03.get_of_getID _ _ e _ hg he

/-- **C03 (RangeGet).**  In Complete mode `RangeGet q` returns the value of the greatest retained
    key `≤ q`, not-found if there is none. -/
theorem C03_rangeget (keys : List Bytes) (vals : Option (List Bytes)) (opt : Opt) (t : Trie1)
    (hb : build keys vals opt = .ok t) (hc : opt.complete = true) (q : Bytes) :
    rangeGet t.view q =
      .ok (shownVal (retained keys vals opt.dedup) (Spec.le (retained keys vals opt.dedup) q)) := by
  by_cases hne : keys = []
  · subst hne
    rw [C03.build_nil vals opt t hb, C03.retained_nil]
    rfl
  · obtain ⟨l, e, r, hsid, _, _, _, _, _, hle⟩ := C03.core keys vals opt t hb hne hc q
    exact C03.rangeGet_of _ _ l e r _ hsid hle


/-! ### non-vacuity -/

/-- "a", "ab", "a\x80\x01", "b\xff", "\xf0" with values 1, 1, 2, [2,0], 3: record 1 is
    de-duplicated away; Complete mode -/
def C03.exKeys : List Bytes := [[0x61], [0x61, 0x62], [0x61, 0x80, 0x01], [0x62, 0xff], [0xf0]]
def C03.exVals : List Bytes := [[1], [1], [2], [2, 0], [3]]
def C03.exOpt : Opt := { dedup := true, inner := true, leaf := true }

/-- the hypotheses are satisfiable, and by the theorems: the empty string lies below everything;
    "ab" (an indexed but dropped key) is not found and lies between "a" and "a\x80\x01";
    "a\x80" (a proper prefix of a retained key, ending inside its stored leaf tail) likewise;
    "b\xff\x00" (one-byte extension) lies just above "b\xff"; "\xff" lies above everything -/
example : ∃ t, build C03.exKeys (some C03.exVals) C03.exOpt = .ok t ∧ C03.exOpt.complete = true ∧
    retained C03.exKeys (some C03.exVals) C03.exOpt.dedup =
      [([0x61], some [1]), ([0x61, 0x80, 0x01], some [2]), ([0x62, 0xff], some [2, 0]),
       ([0xf0], some [3])] ∧
    search t.view [] = .ok (none, none, some (some [1])) ∧
    search t.view [0x61, 0x62] = .ok (some (some [1]), none, some (some [2])) ∧
    search t.view [0x61, 0x80] = .ok (some (some [1]), none, some (some [2])) ∧
    search t.view [0x61, 0x80, 0x01] = .ok (some (some [1]), some (some [2]), some (some [2, 0])) ∧
    search t.view [0x62, 0xff, 0x00] = .ok (some (some [2, 0]), none, some (some [3])) ∧
    search t.view [0xff] = .ok (some (some [3]), none, none) ∧
    rangeGet t.view [0x61, 0x62] = .ok (some (some [1])) ∧
    rangeGet t.view [] = .ok none ∧
    get t.view [0x61, 0x62] = .ok none ∧
    get t.view [0x62, 0xff] = .ok (some (some [2, 0])) := by
  have h : (build C03.exKeys (some C03.exVals) C03.exOpt).toBool = true := by decide +kernel
  match hb : build C03.exKeys (some C03.exVals) C03.exOpt with
  | .ok t =>
    have hc : C03.exOpt.complete = true := by decide
    refine ⟨t, rfl, hc, by decide +kernel, ?_, ?_, ?_, ?_, ?_, ?_, ?_, ?_, ?_, ?_⟩
    all_goals first
      | (rw [C03_search _ _ _ t hb hc]; refine congrArg Except.ok ?_; decide +kernel)
      | (rw [C03_rangeget _ _ _ t hb hc]; refine congrArg Except.ok ?_; decide +kernel)
      | (rw [C03_get _ _ _ t hb hc]; refine congrArg Except.ok ?_; decide +kernel)
  | .error e => rw [hb] at h; cases h

#print axioms C03_search
#print axioms C03_getID
#print axioms C03_get
#print axioms C03_rangeget
