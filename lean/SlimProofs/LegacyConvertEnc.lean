import SlimProofs.LegacyConvertMain
import SlimModel.Slim
/-
  SlimProofs.LegacyConvertEnc — `Slim.encodeCreator` reads neither `firstChild` nor `leafKeyIdx`:
  `encodeCreator_fixup : encodeCreator (fixup lk t) = encodeCreator t` (via `encCore`, the body of
  `encodeCreator` with its inputs as parameters — `encodeCreator_eq_core` is `rfl` — and
  `encCore_strip`).
-/

namespace LegacyConvert
open Slim Bits

/-- `Slim.encodeCreator` with everything it reads of the record array as parameters -/
def encCore (opt : Opt) (bigCnt : Nat) (elts : Option (List Bytes)) (size : Nat)
    (inners : List InnerRec) (innerIdx : List Nat) (leafLps : List (Option Bytes)) : SlimMsg :=
  let innerCnt := inners.length
  -- statistics over non-big inner nodes with at most maxShortSize labels
  let cnts : Array (List (Nat × Nat)) :=
    inners.foldl (fun (a : Array (List (Nat × Nat))) r =>
      if !r.big && r.labels.length < maxShortSize + 1
      then a.modify r.labels.length (fun tbl => bumpCount tbl (bm17 r.labels)) else a)
      (Array.replicate (maxShortSize + 1) [])
  let sorted := cnts.map sortCounts
  let shortSize := findMinShortSize sorted
  let (tbl, mostUsed) := shortTable sorted shortSize
  -- substitution
  let sub : List (List Nat × Nat × Bool) := inners.map (fun r =>
    if r.big then (r.labels, bigInnerSize, false) else
    match mostUsed.find? (·.1 == bm17 r.labels) with
    | some (_, short) => (toArray [short], shortSize, true)
    | none => (r.labels, innerSize, false))
  let shortIndex := (List.range innerCnt).filter (fun i => (sub.getD i ([], 0, false)).2.2)
  -- inner prefixes
  let prefIdx := (List.range innerCnt).filter (fun i =>
    match (inners.getD i default).pref with | .none => false | _ => true)
  let ips : VLenArrayMsg :=
    if opt.inner then
      let ps := inners.filterMap (fun r => match r.pref with
        | .stored ns => some (bitstrOf ns) | _ => none)
      { eltCnt := prefIdx.length
        presenceBM := some (newBM prefIdx innerCnt "r128")
        positionBM := some (newBM (stepToPos (ps.map List.length)) 0 "s32")
        bytes := ps.flatten }
    else
      { eltCnt := prefIdx.length
        presenceBM := some (newBM prefIdx innerCnt "r128")
        fixedSize := 2
        bytes := (inners.filterMap (fun r => match r.pref with
          | .step n => some (encStep n) | _ => none)).flatten }
  -- leaf prefixes
  -- capacity of the presence bitmap: every leaf (`c.nodeCnt - innerCnt`)
  let leafCnt := leafLps.length
  let lps : Option VLenArrayMsg :=
    if opt.leaf then
      let idx := (List.range leafLps.length).filter (fun i => (leafLps.getD i none).isSome)
      let ps := leafLps.filterMap id
      some { presenceBM := some (newBM idx leafCnt "r64")
             positionBM := some (newBM (stepToPos (ps.map List.length)) 0 "s32")
             bytes := ps.flatten }
    else none
  { bigInnerCnt := bigCnt
    shortSize := shortSize
    nodeTypeBM := if size = 0 then none else some (newBM innerIdx size "r64")
    inners := some (mk (ofMany (sub.map (·.1)) (sub.map (·.2.1))) "r128")
    shortBM := some (newBM shortIndex innerCnt "r64")
    shortTable := tbl
    innerPrefixes := some ips
    leafPrefixes := lps
    leaves := match elts with
      | some es => newVLenArray es
      | none => none }


theorem encodeCreator_eq_core (t : Trie1) :
    encodeCreator t = encCore t.opt t.bigCnt t.elts t.nodes.size (innerRecs t.nodes)
      ((List.range t.nodes.size).filter (fun i =>
        match t.nodes[i]? with | some (.inner _) => true | _ => false))
      (t.nodes.toList.filterMap (fun n => match n with | .leaf _ lp => some lp | .inner _ => none)) :=
  rfl

/-- a record without its `firstChild` -/
def strip (r : InnerRec) : InnerRec := { r with firstChild := 0 }

theorem getD_map_strip (l : List InnerRec) (i : Nat) :
    ((l.map strip).getD i default).pref = (l.getD i default).pref := by
  rw [List.getD_eq_getElem?_getD, List.getD_eq_getElem?_getD, List.getElem?_map]
  cases l[i]? <;> rfl

/-- `encodeCreator` does not read `firstChild` -/
theorem encCore_strip (opt : Opt) (bigCnt : Nat) (elts : Option (List Bytes)) (size : Nat)
    (l : List InnerRec) (idx : List Nat) (lps : List (Option Bytes)) :
    encCore opt bigCnt elts size (l.map strip) idx lps = encCore opt bigCnt elts size l idx lps := by
  unfold encCore
  simp only [List.length_map, List.foldl_map, List.map_map, List.filterMap_map, getD_map_strip]
  rfl

theorem innerRecs_fix_strip (fc : Nat) (l : List Node) :
    ((fixList fc l).filterMap (fun n => match n with | .inner r => some r | .leaf _ _ => none)).map
        strip
      = (l.filterMap (fun n => match n with | .inner r => some r | .leaf _ _ => none)).map strip := by
  induction l generalizing fc with
  | nil => rfl
  | cons nd rest ih =>
    cases nd with
    | inner r => simp [fixList, fixNode, ih, strip]
    | leaf ith lp => simp [fixList, fixNode, ih]

theorem leafLps_fix (fc : Nat) (l : List Node) :
    (fixList fc l).filterMap (fun n => match n with | .leaf _ lp => some lp | .inner _ => none)
      = l.filterMap (fun n => match n with | .leaf _ lp => some lp | .inner _ => none) := by
  induction l generalizing fc with
  | nil => rfl
  | cons nd rest ih =>
    cases nd with
    | inner r => simp [fixList, fixNode, ih]
    | leaf ith lp => simp [fixList, fixNode, ih]

/-- the message the creator builds does not depend on what `fixup` fills in -/
theorem encodeCreator_fixup (lk : Array Nat) (t : Trie1) :
    encodeCreator (fixup lk t) = encodeCreator t := by
  rw [encodeCreator_eq_core, encodeCreator_eq_core,
    ← encCore_strip _ _ _ _ (innerRecs (fixup lk t).nodes),
    ← encCore_strip _ _ _ _ (innerRecs t.nodes)]
  have hsz : (fixup lk t).nodes.size = t.nodes.size := fixNodes_size t.nodes
  have hinn : (innerRecs (fixup lk t).nodes).map strip = (innerRecs t.nodes).map strip := by
    show (innerRecs (fixNodes t.nodes)).map strip = _
    unfold innerRecs fixNodes
    exact innerRecs_fix_strip 1 t.nodes.toList
  have hlps : (fixup lk t).nodes.toList.filterMap
      (fun n => match n with | .leaf _ lp => some lp | .inner _ => none)
      = t.nodes.toList.filterMap
        (fun n => match n with | .leaf _ lp => some lp | .inner _ => none) := by
    show (fixNodes t.nodes).toList.filterMap _ = _
    unfold fixNodes
    exact leafLps_fix 1 t.nodes.toList
  have hnode : ∀ i, (fixup lk t).nodes[i]? = t.nodes[i]?.map (fixNode (bfsFC t.nodes i)) :=
    fun i => fixNodes_getElem? t.nodes i
  rw [hsz, hinn, hlps]
  congr 1
  apply List.filter_congr
  intro i _
  rw [hnode i]
  cases h : t.nodes[i]? with
  | none => rfl
  | some nd => cases nd <;> rfl

#print axioms encodeCreator_fixup

end LegacyConvert
