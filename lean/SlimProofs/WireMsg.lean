import SlimProofs.WireStep
/-
  SlimProofs.WireMsg — decode ∘ encode = id and size = length for trie.Bitmap, trie.VLenArray and
  trie.Slim.
-/
namespace Wire

theorem fnoOK {n : Nat} (h1 : 1 ≤ n := by omega) (h2 : n < 2 ^ 60 := by omega) : FnoOK n := ⟨h1, h2⟩

/-! ### trie.Bitmap -/

theorem decodeBitmap_encode (b : BitmapMsg) (hwf : b.WF) (hsz : (encodeBitmap b).length < 2 ^ 64) :
    decodeBitmapInto {} (encodeBitmap b) = .ok b := by
  obtain ⟨w, r, s⟩ := b
  obtain ⟨hw, hr, hs⟩ := hwf
  simp only at hw hr hs
  unfold encodeBitmap at hsz
  simp only [List.length_append] at hsz
  have l1 := encPackedF_payload_le 20 w
  have l2 := encPackedF_payload_le 30 r
  have l3 := encPackedF_payload_le 40 s
  unfold decodeBitmapInto encodeBitmap
  simp only
  rw [decodeMsg_encPackedF bitmapH dropUnknown {} { words := w } fnoOK w (by omega) _
    (fun _ => by simp [bitmapH, repU64_packed w hw]) (fun h0 => by subst h0; rfl)]
  rw [decodeMsg_encPackedF bitmapH dropUnknown { words := w } { words := w, rankIndex := r } fnoOK
    r (by omega) _
    (fun _ => by simp [bitmapH, repI32_packed r hr]) (fun h0 => by subst h0; rfl)]
  have h3 := decodeMsg_encPackedF bitmapH dropUnknown { words := w, rankIndex := r }
    { words := w, rankIndex := r, selectIndex := s } (fno := 40) fnoOK
    s (by omega) []
    (fun _ => by simp [bitmapH, repI32_packed s hs]) (fun h0 => by subst h0; rfl)
  rw [List.append_nil] at h3
  rw [h3, decodeMsg_nil]

theorem all_i32ok (l : List Nat) (h : ∀ x ∈ l, x < 2 ^ 31) : l.all i32ok = true := by
  simp only [List.all_eq_true, i32ok, decide_eq_true_eq]; exact h

theorem bitmapI32OK_of_WF (b : BitmapMsg) (h : b.WF) : bitmapI32OK b = true := by
  simp [bitmapI32OK, all_i32ok _ h.2.1, all_i32ok _ h.2.2]

theorem optOK_of {β : Type} (f : β → Bool) (o : Option β) (h : ∀ b, o = some b → f b = true) :
    optOK f o = true := by
  cases o with
  | none => rfl
  | some b => exact h b rfl

theorem checkI32_ok {α : Type} (ok : α → Bool) (m : α) (h : ok m = true) : checkI32 ok (.ok m) = .ok m := by
  simp [checkI32, h]

theorem decodeBitmapTop_encode (b : BitmapMsg) (hwf : b.WF) (hsz : (encodeBitmap b).length < 2 ^ 64) :
    decodeBitmap (encodeBitmap b) = .ok b := by
  unfold decodeBitmap
  rw [decodeBitmap_encode b hwf hsz, checkI32_ok _ _ (bitmapI32OK_of_WF b hwf)]

theorem protoSizeBitmap_eq (b : BitmapMsg) : protoSizeBitmap b = (encodeBitmap b).length := by
  simp [protoSizeBitmap, encodeBitmap, encPackedF_length]

theorem msgF_bitmap (bm : BitmapMsg) (hwf : bm.WF) (hsz : (encodeBitmap bm).length < 2 ^ 64) :
    msgF decodeBitmapInto none (.bytes (encodeBitmap bm)) = .ok (some (some bm)) := by
  have hd : (default : BitmapMsg) = {} := rfl
  simp [msgF, hd, decodeBitmap_encode bm hwf hsz]

/-! ### trie.VLenArray -/

theorem decodeVLenArray_encode (v : VLenArrayMsg) (hwf : v.WF) (hsz : (encodeVLenArray v).length < 2 ^ 64) :
    decodeVLenArrayInto {} (encodeVLenArray v) = .ok v := by
  obtain ⟨n, c, pb, f, bs, qb⟩ := v
  obtain ⟨hn, hc, hf, hpb, hqb⟩ := hwf
  simp only at hn hc hf hpb hqb
  unfold encodeVLenArray at hsz
  simp only [List.length_append] at hsz
  have l5 := encBytesF_payload_le 30 bs
  unfold decodeVLenArrayInto encodeVLenArray
  simp only
  rw [decodeMsg_encVarintF vlenH dropUnknown {} { n := n } fnoOK (by omega) _
    (fun _ => by simp [vlenH, scalarI32, toInt32_id hn]) (fun h0 => by subst h0; rfl)]
  rw [decodeMsg_encVarintF vlenH dropUnknown { n := n } { n := n, eltCnt := c } fnoOK (by omega) _
    (fun _ => by simp [vlenH, scalarI32, toInt32_id hc]) (fun h0 => by subst h0; rfl)]
  rw [decodeMsg_encMsgF vlenH dropUnknown { n := n, eltCnt := c } { n := n, eltCnt := c, positionBM := pb }
    fnoOK (pb.map encodeBitmap)
    (by
      intro p hp
      cases pb with
      | none => simp at hp
      | some bm =>
        simp at hp; subst hp
        have := encMsgF_payload_le 20 (encodeBitmap bm)
        simp at hsz; omega) _
    (by
      intro p hp
      cases pb with
      | none => simp at hp
      | some bm =>
        simp at hp; subst hp
        have hl := encMsgF_payload_le 20 (encodeBitmap bm)
        have : (encodeBitmap bm).length < 2 ^ 64 := by simp at hsz; omega
        simp [vlenH, msgF_bitmap bm (hpb bm rfl) this])
    (fun h0 => by cases pb <;> simp at h0; rfl)]
  rw [decodeMsg_encVarintF vlenH dropUnknown { n := n, eltCnt := c, positionBM := pb }
    { n := n, eltCnt := c, positionBM := pb, fixedSize := f } fnoOK (by omega) _
    (fun _ => by simp [vlenH, scalarI32, toInt32_id hf]) (fun h0 => by subst h0; rfl)]
  rw [decodeMsg_encBytesF vlenH dropUnknown { n := n, eltCnt := c, positionBM := pb, fixedSize := f }
    { n := n, eltCnt := c, positionBM := pb, fixedSize := f, bytes := bs } fnoOK bs (by omega) _
    (fun _ => by simp [vlenH, bytesF]) (fun h0 => by subst h0; rfl)]
  have h6 := decodeMsg_encMsgF vlenH dropUnknown
    { n := n, eltCnt := c, positionBM := pb, fixedSize := f, bytes := bs }
    { n := n, eltCnt := c, positionBM := pb, fixedSize := f, bytes := bs, presenceBM := qb }
    (fno := 61) fnoOK (qb.map encodeBitmap)
    (by
      intro p hp
      cases qb with
      | none => simp at hp
      | some bm =>
        simp at hp; subst hp
        have := encMsgF_payload_le 61 (encodeBitmap bm)
        simp at hsz; omega) []
    (by
      intro p hp
      cases qb with
      | none => simp at hp
      | some bm =>
        simp at hp; subst hp
        have hl := encMsgF_payload_le 61 (encodeBitmap bm)
        have : (encodeBitmap bm).length < 2 ^ 64 := by simp at hsz; omega
        simp [vlenH, msgF_bitmap bm (hqb bm rfl) this])
    (fun h0 => by cases qb <;> simp at h0; rfl)
  rw [List.append_nil] at h6
  rw [h6, decodeMsg_nil]

theorem vlenI32OK_of_WF (v : VLenArrayMsg) (h : v.WF) : vlenI32OK v = true := by
  obtain ⟨hn, hc, hf, hp, hq⟩ := h
  simp [vlenI32OK, i32ok, hn, hc, hf, optOK_of bitmapI32OK _ (fun b hb => bitmapI32OK_of_WF b (hp b hb)),
    optOK_of bitmapI32OK _ (fun b hb => bitmapI32OK_of_WF b (hq b hb))]

theorem decodeVLenArrayTop_encode (v : VLenArrayMsg) (hwf : v.WF) (hsz : (encodeVLenArray v).length < 2 ^ 64) :
    decodeVLenArray (encodeVLenArray v) = .ok v := by
  unfold decodeVLenArray
  rw [decodeVLenArray_encode v hwf hsz, checkI32_ok _ _ (vlenI32OK_of_WF v hwf)]

theorem protoSizeVLenArray_eq (v : VLenArrayMsg) : protoSizeVLenArray v = (encodeVLenArray v).length := by
  simp only [protoSizeVLenArray, encodeVLenArray, List.length_append, encVarintF_length, encBytesF_length,
    encMsgF_length, Option.map_map]
  congr <;> (funext b; exact protoSizeBitmap_eq b)

end Wire
