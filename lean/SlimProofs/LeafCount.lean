import SlimProofs.BuildShape
/-
  SlimProofs.LeafCount — the leaves of a built trie are exactly the retained keys, each once.

  * `build_leaf_perm`     `t.leafKeyIdx.toList` is a permutation of the kept indexes
                          `(List.range n).filter (keptAt keep)`
  * `build_leaf_nodup`, `build_leaf_mem`
  * `build_leaf_count`    `t.leafKeyIdx.size = (retained keys vals opt.dedup).length`
  * `build_leavesBefore`  the record array has `|retained|` leaf nodes

  Proof: a third loop invariant over `buildLoop` (`LeafCount.LP`): the recorded leaf indexes
  followed by the kept indexes of all unprocessed queue entries are a permutation of all kept
  indexes.  A leaf step moves one index from the queue part to the recorded part; an inner
  step replaces the kept indexes of a subset by those of its children, which is the same list
  (`childRuns_kept`: the runs are consecutive and every kept key lies in a run).
-/

namespace LeafCount

open BuildInv BuildShape

/-! ### the kept keys of a subset are the kept keys of its children -/

theorem range'_split {s m e : Nat} (h1 : s ≤ m) (h2 : m ≤ e) :
    List.range' s (e - s) = List.range' s (m - s) ++ List.range' m (e - m) := by
  have : List.range' m (e - m) = List.range' (s + (m - s)) (e - m) := by congr 1; omega
  rw [this, List.range'_append_1]
  congr 1; omega

/-- what the two scans of `childRuns` find for the first label -/
theorem childRuns_head (lab : Nat → Nat) (e l : Nat) (ls : List Nat) (s s' j : Nat)
    (hmono : ∀ a b, s ≤ a → a ≤ b → b < e → lab a ≤ lab b)
    (hasc : (l :: ls).Pairwise (· < ·))
    (hcar : ∀ l' ∈ l :: ls, ∃ t, s ≤ t ∧ t < e ∧ lab t = l')
    (hs' : scanWhile (fun t => lab t != l) (e - s) s = s')
    (hj : scanWhile (fun t => lab t == l) (e - (s' + 1)) (s' + 1) = j) :
    s ≤ s' ∧ s' < j ∧ j ≤ e ∧ lab s' = l ∧
    (∀ t, s ≤ t → t < e → ((s' ≤ t ∧ t < j) ↔ lab t = l)) ∧
    (∀ t, s ≤ t → t < s' → lab t < l) ∧
    (∀ t, j ≤ t → t < e → l < lab t) ∧
    (∀ l' ∈ ls, ∃ t, j ≤ t ∧ t < e ∧ lab t = l') := by
  have hspec := childRuns_spec lab e (l :: ls) s hmono hasc hcar
  rw [childRuns_cons, hs', hj] at hspec
  have hrun := hspec (l, s', j) (by simp)
  have hge : s ≤ s' := hrun.ge
  have hlt : s' < j := hrun.lt
  have hle : j ≤ e := hrun.le
  have hiff := hrun.iff
  dsimp only at hiff
  have hlabs' : lab s' = l := (hiff s' hge (by omega)).mp ⟨Nat.le_refl _, hlt⟩
  refine ⟨hge, hlt, hle, hlabs', hiff, ?_, ?_, ?_⟩
  · intro t h1 h2
    have h3 := hmono t s' h1 (by omega) (by omega)
    have h4 : lab t ≠ l := fun h => by have := (hiff t h1 (by omega)).mpr h; omega
    omega
  · intro t h1 h2
    have h3 := hmono s' t hge (by omega) h2
    have h4 : lab t ≠ l := fun h => by have := (hiff t (by omega) h2).mpr h; omega
    omega
  · intro l' hl'
    obtain ⟨t, h1, h2, h3⟩ := hcar l' (by simp [hl'])
    have hll' : l < l' := (List.pairwise_cons.mp hasc).1 _ hl'
    refine ⟨t, ?_, h2, h3⟩
    apply Nat.le_of_not_lt; intro htj
    by_cases hts : t < s'
    · have := hmono t s' h1 (by omega) (by omega); omega
    · have := (hiff t h1 h2).mp ⟨by omega, htj⟩; omega

/-- the kept keys of `[s,e)`, in order, are the kept keys of the runs, in order -/
theorem childRuns_kept (kept : Nat → Bool) (lab : Nat → Nat) (e : Nat) (labels : List Nat) (s : Nat)
    (hse : s ≤ e)
    (hmono : ∀ a b, s ≤ a → a ≤ b → b < e → lab a ≤ lab b)
    (hasc : labels.Pairwise (· < ·))
    (hcar : ∀ l ∈ labels, ∃ t, s ≤ t ∧ t < e ∧ lab t = l)
    (hk : ∀ t, s ≤ t → t < e → kept t = true → lab t ∈ labels) :
    (List.range' s (e - s)).filter kept =
      ((childRuns lab e labels s).map
        (fun x => (List.range' x.2.1 (x.2.2 - x.2.1)).filter kept)).flatten := by
  induction labels generalizing s with
  | nil =>
    simp only [childRuns, List.map_nil, List.flatten_nil, List.filter_eq_nil_iff,
      List.mem_range'_1]
    intro t ht hkt
    have := hk t ht.1 (by omega) hkt
    cases this
  | cons l ls ih =>
    rw [childRuns_cons]
    generalize hs' : scanWhile (fun t => lab t != l) (e - s) s = s'
    generalize hj : scanWhile (fun t => lab t == l) (e - (s' + 1)) (s' + 1) = j
    obtain ⟨hge, hlt, hle, hlabs', hiff, hbefore, hafter, hcar'⟩ :=
      childRuns_head lab e l ls s s' j hmono hasc hcar hs' hj
    have hll : ∀ l' ∈ ls, l < l' := (List.pairwise_cons.mp hasc).1
    have ih' := ih j hle (fun a b h1 h2 h3 => hmono a b (by omega) h2 h3)
      (List.Pairwise.of_cons hasc) hcar' (by
        intro t h1 h2 hkt
        have := hk t (by omega) h2 hkt
        rcases List.mem_cons.mp this with h | h
        · have := hafter t h1 h2; omega
        · exact h)
    have hgap : (List.range' s (s' - s)).filter kept = [] := by
      simp only [List.filter_eq_nil_iff, List.mem_range'_1]
      intro t ht hkt
      have h1 := hbefore t ht.1 (by omega)
      have := hk t ht.1 (by omega) hkt
      rcases List.mem_cons.mp this with h | h
      · omega
      · have := hll _ h; omega
    rw [range'_split hge (by omega : s' ≤ e), range'_split (by omega : s' ≤ j) hle,
      List.filter_append, List.filter_append, hgap, ih']
    simp only [List.map_cons, List.flatten_cons, List.nil_append]

/-! ### the loop invariant -/

/-- the kept indexes of `[s,e)`, ascending -/
def keptIn (keep : List Bool) (s e : Nat) : List Nat :=
  (List.range' s (e - s)).filter (keptAt keep)

/-- recorded leaf indexes ++ kept indexes of the unprocessed queue entries ~ all kept indexes -/
def LP (keys : List Bytes) (keep : List Bool) (st : BSt) (i : Nat) : Prop :=
  (st.leafKeyIdx.toList ++
    ((st.queue.toList.drop i).map (fun o => keptIn keep o.s o.e)).flatten).Perm
    (keptIn keep 0 keys.length)

theorem keptIn_kid (keep : List Bool) (ws : Nat) (big : Bool) :
    (fun o => keptIn keep o.s o.e) ∘ kidOf ws big =
      fun x => (List.range' x.2.1 (x.2.2 - x.2.1)).filter (keptAt keep) := by
  funext x; rfl

theorem buildStep_lp {keys : List Bytes} {keep : List Bool} {opt : Opt} {c : BCtx}
    (hc : CtxOK keys keep opt c) (hasc : strictAsc keys = true)
    {st st' : BSt} {i : Nat} (hinv : BInv keys keep opt st i) (hlp : LP keys keep st i)
    (hi : i < st.queue.size) (hstep : buildStep c st st.queue[i] = .ok st') :
    LP keys keep st' (i + 1) := by
  unfold LP at hlp ⊢
  rw [List.drop_eq_getElem_cons (by simpa using hi), List.map_cons, List.flatten_cons,
    Array.getElem_toList] at hlp
  generalize ho : st.queue[i] = o at hstep hlp
  have ho' : st.queue[i]? = some o := by rw [← ho]; exact Array.getElem?_eq_getElem hi
  have hsub := hinv.sub i o ho'
  by_cases hleaf : o.e - o.s = 1
  · rw [buildStep_leaf_eq c st o hleaf] at hstep
    cases hstep
    dsimp only
    have hk : keptIn keep o.s o.e = [o.s] := by
      obtain ⟨y, h1, h2, h3⟩ := hsub.kept
      have hy : y = o.s := by omega
      subst hy
      simp [keptIn, hleaf, h3]
    rw [hk] at hlp
    rw [Array.toList_push, List.append_assoc]
    exact hlp
  · have h2 : o.s + 2 ≤ o.e := by have := hsub.lt; omega
    rw [buildStep_inner_eq c st o hleaf _ rfl _ rfl] at hstep
    generalize hgo : (st.isBig && decide (prefCnt c o.s o.e (minLcp c o.s o.e) > 10)) = goBig
      at hstep
    generalize hws : (if goBig = true then minLcp c o.s o.e - minLcp c o.s o.e % 2
      else minLcp c o.s o.e) = ws at hstep
    split at hstep
    · cases hstep
    split at hstep
    · cases hstep
    cases hstep
    dsimp only
    have hwsle : ws ≤ minLcp c o.s o.e := by rw [← hws]; split <;> omega
    have hpre := prefix_of_minLcp hc hsub.le h2 hwsle
    have hmono := labelOf_mono hasc goBig hsub.le (fun t h1 h3 => (hpre t h1 h3).2)
    have hpw : (keptLabels c o.s o.e ws goBig).Pairwise (· < ·) := by
      apply keptLabels_pairwise
      rw [keyLabel_eq hc]; exact hmono
    have hcar : ∀ l ∈ keptLabels c o.s o.e ws goBig,
        ∃ t, o.s ≤ t ∧ t < o.e ∧ labelOf keys ws goBig t = l := by
      intro l hl
      obtain ⟨t, h1, h3, _, h5⟩ := mem_keptLabels.mp hl
      rw [keyLabel_eq hc] at h5
      exact ⟨t, h1, h3, h5⟩
    have hk : ∀ t, o.s ≤ t → t < o.e → keptAt keep t = true →
        labelOf keys ws goBig t ∈ keptLabels c o.s o.e ws goBig := by
      intro t h1 h3 h4
      rw [mem_keptLabels]
      exact ⟨t, h1, h3, by rw [hc.keep]; exact h4, by rw [keyLabel_eq hc]⟩
    have hkids := childRuns_kept (keptAt keep) (labelOf keys ws goBig) o.e
      (keptLabels c o.s o.e ws goBig) o.s (by omega) hmono hpw hcar hk
    rw [keyLabel_eq hc, Array.toList_append, List.drop_append_of_le_length (by simp; omega),
      List.map_append, List.flatten_append, List.map_map, keptIn_kid, ← hkids]
    refine List.Perm.trans ?_ hlp
    exact List.Perm.append_left _ List.perm_append_comm

theorem buildLoop_lp {keys : List Bytes} {keep : List Bool} {opt : Opt} {c : BCtx}
    (hc : CtxOK keys keep opt c) (hasc : strictAsc keys = true)
    (fuel i : Nat) (st st' : BSt) (hinv : BInv keys keep opt st i) (hlp : LP keys keep st i)
    (h : buildLoop c fuel i st = .ok st') :
    st'.leafKeyIdx.toList.Perm (keptIn keep 0 keys.length) := by
  have hdone : ∀ (st : BSt) (i : Nat), LP keys keep st i → ¬ i < st.queue.size →
      st.leafKeyIdx.toList.Perm (keptIn keep 0 keys.length) := by
    intro st i hlp hi
    unfold LP at hlp
    rw [List.drop_of_length_le (by simp; omega)] at hlp
    simpa using hlp
  induction fuel generalizing i st with
  | zero =>
    simp only [buildLoop] at h
    split at h
    · cases h
    · next hi => cases h; exact hdone _ _ hlp hi
  | succ fuel ih =>
    simp only [buildLoop] at h
    split at h
    · next hi =>
      split at h
      · next st2 hst =>
        exact ih _ _ (buildStep_inv hc hasc hinv hi hst) (buildStep_lp hc hasc hinv hlp hi hst) h
      · cases h
    · next hi => cases h; exact hdone _ _ hlp hi

theorem lp_init (keys : List Bytes) (keep : List Bool) : LP keys keep (initSt keys.length) 0 := by
  simp [LP, initSt]

/-! ### counting the retained entries -/

theorem filterMask_length {α : Type} (as : List α) (bs : List Bool) (h : as.length = bs.length) :
    (filterMask as bs).length = bs.count true := by
  induction as generalizing bs with
  | nil => cases bs <;> simp_all [filterMask]
  | cons a as ih =>
    cases bs with
    | nil => simp at h
    | cons b bs =>
      have := ih bs (by simpa using h)
      cases b <;> simp [filterMask, this]

theorem keptIn_length (keep : List Bool) : (keptIn keep 0 keep.length).length = keep.count true := by
  unfold keptIn
  induction keep with
  | nil => simp
  | cons b bs ih =>
    have hshift : (List.range' 1 bs.length).filter (keptAt (b :: bs)) =
        ((List.range' 0 bs.length).filter (keptAt bs)).map (· + 1) := by
      have : List.range' 1 bs.length = (List.range' 0 bs.length).map (· + 1) := by
        have h := (List.map_add_range' (a := 1) 0 bs.length 1).symm
        have hf : (fun x => 1 + x) = (· + 1) := by funext x; omega
        rw [hf] at h
        exact h
      rw [this, List.filter_map]
      congr 1
    simp only [List.length_cons, Nat.sub_zero, List.range'_succ, Nat.zero_add] at ih ⊢
    rw [List.filter_cons, hshift]
    cases b <;> simp_all [keptAt]

theorem keepMaskVals_length (p : Option Bytes) (vs : List Bytes) :
    (keepMaskVals p vs).length = vs.length := by
  induction vs generalizing p with
  | nil => cases p <;> rfl
  | cons v vs ih => cases p <;> simp [keepMaskVals, ih]

theorem keepMask_length {n : Nat} {vals : Option (List Bytes)} (dedup : Bool)
    (hv : ∀ vs, vals = some vs → vs.length = n) : (keepMask n vals dedup).length = n := by
  unfold keepMask
  cases vals with
  | none => simp
  | some vs =>
    have := hv vs rfl
    cases dedup <;> simp [keepMaskVals_length, this]

theorem entries_length {keys : List Bytes} {vals : Option (List Bytes)}
    (hv : ∀ vs, vals = some vs → vs.length = keys.length) :
    (entries keys vals).length = keys.length := by
  unfold entries
  cases vals with
  | none => simp
  | some vs => have := hv vs rfl; simp [this]

end LeafCount

open LeafCount BuildInv BuildShape

/-- The recorded leaf key indexes are a permutation of the kept indexes. -/
theorem build_leaf_perm (keys : List Bytes) (vals : Option (List Bytes)) (opt : Opt) (t : Trie1)
    (hb : build keys vals opt = .ok t) (hne : keys ≠ []) :
    t.leafKeyIdx.toList.Perm
      ((List.range keys.length).filter (keptAt (keepMask keys.length vals opt.dedup))) := by
  obtain ⟨hasc, hv, st, hst, rfl⟩ := build_ok_elim hb hne
  have hn : keys.length ≠ 0 := by
    intro h; exact hne (List.length_eq_zero_iff.mp h)
  have := buildLoop_lp (mkCtx_ok keys vals opt) hasc _ _ _ _ (binv_init opt hn hv)
    (lp_init keys _) hst
  simpa [keptIn, List.range_eq_range', trieOf] using this

/-- Every kept index is the key index of exactly one leaf. -/
theorem build_leaf_nodup (keys : List Bytes) (vals : Option (List Bytes)) (opt : Opt) (t : Trie1)
    (hb : build keys vals opt = .ok t) (hne : keys ≠ []) : t.leafKeyIdx.toList.Nodup := by
  rw [(build_leaf_perm keys vals opt t hb hne).nodup_iff]
  exact List.Nodup.sublist List.filter_sublist List.nodup_range

theorem build_leaf_mem (keys : List Bytes) (vals : Option (List Bytes)) (opt : Opt) (t : Trie1)
    (hb : build keys vals opt = .ok t) (hne : keys ≠ []) (x : Nat) :
    x ∈ t.leafKeyIdx.toList ↔
      x < keys.length ∧ keptAt (keepMask keys.length vals opt.dedup) x = true := by
  rw [(build_leaf_perm keys vals opt t hb hne).mem_iff]
  simp

/-- There are as many leaves as retained entries. -/
theorem build_leaf_count (keys : List Bytes) (vals : Option (List Bytes)) (opt : Opt) (t : Trie1)
    (hb : build keys vals opt = .ok t) (hne : keys ≠ []) :
    t.leafKeyIdx.size = (retained keys vals opt.dedup).length := by
  obtain ⟨_, hv, _⟩ := build_ok_elim hb hne
  have hlen := (build_leaf_perm keys vals opt t hb hne).length_eq
  have hml := keepMask_length opt.dedup hv
  rw [retained, filterMask_length _ _ (by rw [entries_length hv, hml])]
  have := keptIn_length (keepMask keys.length vals opt.dedup)
  rw [hml] at this
  rw [← this, ← Array.length_toList, hlen]
  simp [keptIn, List.range_eq_range']

/-- The record array has as many leaf nodes as retained entries. -/
theorem build_leavesBefore (keys : List Bytes) (vals : Option (List Bytes)) (opt : Opt) (t : Trie1)
    (hb : build keys vals opt = .ok t) (hne : keys ≠ []) :
    leavesBefore t.nodes t.nodes.size = (retained keys vals opt.dedup).length := by
  rw [← (build_shape keys vals opt t hb hne).leafCnt]
  exact build_leaf_count keys vals opt t hb hne

#print axioms build_leaf_perm
#print axioms build_leaf_count
#print axioms build_leavesBefore
