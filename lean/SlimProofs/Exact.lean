import SlimProofs.RangeDropped
import SlimProofs.Agree
/-
  SlimProofs.Exact — Complete mode (`opt.inner ∧ opt.leaf`): the descent of `searchID` (and, via
  the simulation of SlimProofs.Agree, of `GetID`) for an ARBITRARY query string in a well-formed
  record array (`WF`) over strictly ascending keys.

  * `Exact.lexCmp_swap`, `lexCmp_take_lt/gt`, `lt_of_label_lt`, `cmpBytes_tails`
        order facts: antisymmetry; a comparison decided inside a common-prefix window decides the
        whole comparison; keys agreeing before `ws` are ordered like their labels at `ws`
        (contrapositive of `labelAt_mono`); comparing byte tails behind an agreed prefix
  * `Exact.mono_cut`, `IsCut`, `cut_left_*`, `cut_right_*`, `left_cut`, `right_cut`
        the absent-label exit: the monotone labels of a subset have a cut at the query's label,
        and the `leftChild`/`rightChild` rule designates the children next to the cut
  * `Exact.srStep_stored`     the stored inner prefix is compared three-way with the query
  * `Exact.searchLoop_exact`  the loop invariant: the query agrees with the keys of the current
        subset before `o.fb`, the kept keys left of the subset are below the query, those right
        of it above, and `LeftOK`/`RightOK` (SlimProofs.SearchDescent) hold; the loop ends either
        without candidate at a cut (`CutOK`) or at the leaf of a kept key that agrees with the
        query so far (`LeafHit`)
  * `Exact.post_of_cut`, `post_of_hit`, `cmpLeafPrefix_exact`  the three-way leaf-tail comparison
  * `searchID_exact`   `searchID q = (l, e, r)` with `ExactRes`: the leaves of the greatest kept
        key below `q`, the kept key equal to `q`, the smallest kept key above `q`
  * `getID_of_searchID` (any mode, any query), `getID_exact`
-/

namespace Exact
open Subtree SearchDescent RangeDropped

/-! ### `lexCmp`: antisymmetry, prefixes -/

theorem lexCmp_swap (a b : List Nat) : lexCmp b a = (lexCmp a b).swap := by
  induction a generalizing b with
  | nil => cases b <;> rfl
  | cons x xs ih =>
    cases b with
    | nil => rfl
    | cons y ys =>
      simp only [lexCmp]
      by_cases h1 : x < y
      · have h2 : ¬ y < x := by omega
        simp only [h1, h2, if_true, if_false, Ordering.swap]
      · by_cases h2 : y < x
        · simp only [h1, h2, if_true, if_false, Ordering.swap]
        · simp only [h1, h2, if_false, ih]

theorem lexCmp_gt_iff (a b : List Nat) : lexCmp a b = .gt ↔ lexCmp b a = .lt := by
  rw [lexCmp_swap a b]
  cases lexCmp a b <;> simp [Ordering.swap]

theorem lexCmp_lt_asymm {a b : List Nat} (h : lexCmp a b = .lt) : lexCmp b a ≠ .lt := by
  rw [lexCmp_swap a b, h]; simp [Ordering.swap]

theorem lexCmp_take_lt (w : Nat) (a b : List Nat) (h : lexCmp (a.take w) (b.take w) = .lt) :
    lexCmp a b = .lt := by
  induction w generalizing a b with
  | zero => simp [lexCmp] at h
  | succ w ih =>
    cases a with
    | nil =>
      cases b with
      | nil => simp [lexCmp] at h
      | cons y ys => rfl
    | cons x xs =>
      cases b with
      | nil => simp [lexCmp] at h
      | cons y ys =>
        simp only [List.take_succ_cons, lexCmp] at h ⊢
        split
        · rfl
        · next h1 =>
          rw [if_neg h1] at h
          split
          · next h2 => rw [if_pos h2] at h; cases h
          · next h2 => rw [if_neg h2] at h; exact ih xs ys h

theorem lexCmp_take_gt (w : Nat) (a b : List Nat) (h : lexCmp (a.take w) (b.take w) = .gt) :
    lexCmp b a = .lt :=
  lexCmp_take_lt w b a ((lexCmp_gt_iff _ _).mp h)

theorem lexCmp_take_eq (w : Nat) (a b : List Nat) (h : lexCmp (a.take w) (b.take w) = .eq) :
    a.take w = b.take w := lexCmp_eq_iff.mp h

/-- keys that agree before `ws` are ordered like their labels at `ws` -/
theorem lt_of_label_lt {a b : List Nat} {ws : Nat} {big : Bool}
    (hb : ∀ x ∈ b, x < 16) (htake : a.take ws = b.take ws)
    (hlab : labelAt a ws big < labelAt b ws big) : lexCmp a b = .lt := by
  cases h : lexCmp a b with
  | lt => rfl
  | eq =>
    have := lexCmp_eq_iff.mp h
    rw [this] at hlab; omega
  | gt =>
    have h' := (lexCmp_gt_iff _ _).mp h
    have := labelAt_mono hb h' htake.symm big
    omega

/-! ### half-bytes of a tail -/

theorem nibs_drop (a : Bytes) (h : Nat) : nibs (a.drop h) = (nibs a).drop (2 * h) := by
  induction h generalizing a with
  | zero => rfl
  | succ h ih =>
    cases a with
    | nil => simp [nibs]
    | cons x xs =>
      have : 2 * (h + 1) = 2 * h + 1 + 1 := by omega
      rw [this]
      simp only [List.drop_succ_cons, nibs]
      exact ih xs

/-- the three-way comparison of the byte tails behind an agreed prefix is the comparison of the
    whole keys -/
theorem cmpBytes_tails (q key : Bytes) (i : Nat)
    (hag : (nibs q).take i = (nibs key).take i) :
    cmpBytes (q.drop (i / 2)) (key.drop (i / 2)) = lexCmp (nibs q) (nibs key) := by
  unfold cmpBytes
  rw [← lexCmp_nibs, nibs_drop, nibs_drop]
  symm
  apply lexCmp_drop
  have := congrArg (List.take (2 * (i / 2))) hag
  simpa [List.take_take, Nat.min_eq_left (by omega : 2 * (i / 2) ≤ i)] using this

/-! ### cuts of a monotone label function -/

/-- a monotone label function on `[s, e)` has a cut for every value `x` -/
theorem mono_cut (lab : Nat → Nat) (s x : Nat) :
    ∀ e, s ≤ e → (∀ a b, s ≤ a → a ≤ b → b < e → lab a ≤ lab b) →
      ∃ a, s ≤ a ∧ a ≤ e ∧ (∀ t, s ≤ t → t < a → lab t < x) ∧ (∀ t, a ≤ t → t < e → x ≤ lab t) := by
  intro e
  induction e with
  | zero =>
    intro hs _
    exact ⟨s, Nat.le_refl _, hs, fun t h1 h2 => by omega, fun t h1 h2 => by omega⟩
  | succ e ih =>
    intro hs hmono
    by_cases hse : s = e + 1
    · exact ⟨s, Nat.le_refl _, by omega, fun t h1 h2 => by omega, fun t h1 h2 => by omega⟩
    · by_cases hx : lab e < x
      · refine ⟨e + 1, hs, Nat.le_refl _, ?_, fun t h1 h2 => by omega⟩
        intro t h1 h2
        have := hmono t e h1 (by omega) (by omega)
        omega
      · obtain ⟨a, h1, h2, h3, h4⟩ := ih (by omega) (fun a b ha hab hb => hmono a b ha hab (by omega))
        refine ⟨a, h1, by omega, h3, ?_⟩
        intro t h5 h6
        by_cases hte : t = e
        · rw [hte]; omega
        · exact h4 t h5 (by omega)

section gaps
variable {kept : Nat → Bool} {lab : Nat → Nat} {labels : List Nat} {s e : Nat}

/-- `a` cuts `[s, e)` at the value `x`: labels below `x` before `a`, labels at least `x` from
    `a` on -/
def IsCut (lab : Nat → Nat) (s e x a : Nat) : Prop :=
  s ≤ a ∧ a ≤ e ∧ (∀ t, s ≤ t → t < a → lab t < x) ∧ (∀ t, a ≤ t → t < e → x ≤ lab t)

theorem cut_left_some
    (hlabels : ∀ t, s ≤ t → t < e → kept t = true → lab t ∈ labels)
    (hpw : labels.Pairwise (· < ·))
    (hmono : ∀ a b, s ≤ a → a ≤ b → b < e → lab a ≤ lab b)
    {x a : Nat} (hcut : IsCut lab s e x a)
    {k : Nat} {hk : k < labels.length} (hrank : rankLabels labels x = k + 1)
    {c : Subset} (hc : IsRun lab labels s e k hk c) :
    c.e ≤ a ∧ ∀ t, c.e ≤ t → t < a → kept t = false := by
  have hce := hc.lab_e
  obtain ⟨hc1, hc2, hc3, hc4⟩ := hc
  obtain ⟨ha1, ha2, ha3, ha4⟩ := hcut
  have hlt : labels[k] < x := (rank_spec labels hpw x k hk).mpr (by omega)
  have hord : c.e ≤ a := by
    by_cases h : c.e ≤ a
    · exact h
    · exfalso
      have := ha4 (c.e - 1) (by omega) (by omega)
      omega
  refine ⟨hord, ?_⟩
  intro t h1 h2
  cases hkt : kept t with
  | false => rfl
  | true =>
    exfalso
    obtain ⟨k', hk', hkl⟩ := List.mem_iff_getElem.mp (hlabels t (by omega) (by omega) hkt)
    have hm1 := hmono (c.e - 1) t (by omega) (by omega) (by omega)
    have hm2 := ha3 t (by omega) h2
    have hi1 : k ≤ k' := asc_idx_le hpw hk hk' (by omega)
    have hi2 : k' < rankLabels labels x := (rank_spec labels hpw x k' hk').mp (by omega)
    have hkk : k' = k := by omega
    subst hkk
    have := (hc4 t (by omega) (by omega)).mpr hkl.symm
    omega

theorem cut_left_none
    (hlabels : ∀ t, s ≤ t → t < e → kept t = true → lab t ∈ labels)
    (hpw : labels.Pairwise (· < ·))
    {x a : Nat} (hcut : IsCut lab s e x a) (hrank : rankLabels labels x = 0) :
    ∀ t, s ≤ t → t < a → kept t = false := by
  obtain ⟨ha1, ha2, ha3, ha4⟩ := hcut
  intro t h1 h2
  cases hkt : kept t with
  | false => rfl
  | true =>
    exfalso
    obtain ⟨k', hk', hkl⟩ := List.mem_iff_getElem.mp (hlabels t h1 (by omega) hkt)
    have hm := ha3 t h1 h2
    have := (rank_spec labels hpw x k' hk').mp (by omega)
    omega

theorem cut_right_some
    (hlabels : ∀ t, s ≤ t → t < e → kept t = true → lab t ∈ labels)
    (hpw : labels.Pairwise (· < ·))
    (hmono : ∀ a b, s ≤ a → a ≤ b → b < e → lab a ≤ lab b)
    {x a : Nat} (hcut : IsCut lab s e x a)
    {k : Nat} {hk : k < labels.length} (hrank : rankLabels labels x = k)
    {c : Subset} (hc : IsRun lab labels s e k hk c) :
    a ≤ c.s ∧ ∀ t, a ≤ t → t < c.s → kept t = false := by
  have hcs := hc.lab_s
  obtain ⟨hc1, hc2, hc3, hc4⟩ := hc
  obtain ⟨ha1, ha2, ha3, ha4⟩ := hcut
  have hge : ¬ labels[k] < x := fun h => by
    have := (rank_spec labels hpw x k hk).mp h; omega
  have hord : a ≤ c.s := by
    by_cases h : a ≤ c.s
    · exact h
    · exfalso
      have := ha3 c.s hc1 (by omega)
      omega
  refine ⟨hord, ?_⟩
  intro t h1 h2
  cases hkt : kept t with
  | false => rfl
  | true =>
    exfalso
    obtain ⟨k', hk', hkl⟩ := List.mem_iff_getElem.mp (hlabels t (by omega) (by omega) hkt)
    have hm1 := ha4 t h1 (by omega)
    have hm2 := hmono t c.s (by omega) (by omega) (by omega)
    have hi1 : ¬ k' < rankLabels labels x := fun h => by
      have := (rank_spec labels hpw x k' hk').mpr h; omega
    have hi2 : k' ≤ k := asc_idx_le hpw hk' hk (by omega)
    have hkk : k' = k := by omega
    subst hkk
    have := (hc4 t (by omega) (by omega)).mpr hkl.symm
    omega

theorem cut_right_none
    (hlabels : ∀ t, s ≤ t → t < e → kept t = true → lab t ∈ labels)
    (hpw : labels.Pairwise (· < ·))
    {x a : Nat} (hcut : IsCut lab s e x a) (hrank : rankLabels labels x = labels.length) :
    ∀ t, a ≤ t → t < e → kept t = false := by
  obtain ⟨ha1, ha2, ha3, ha4⟩ := hcut
  intro t h1 h2
  cases hkt : kept t with
  | false => rfl
  | true =>
    exfalso
    obtain ⟨k', hk', hkl⟩ := List.mem_iff_getElem.mp (hlabels t (by omega) h2 hkt)
    have hm := ha4 t h1 h2
    have : ¬ labels[k'] < x := by omega
    exact this ((rank_spec labels hpw x k' hk').mpr (by omega))

end gaps

/-! ### the stored prefix, three-way -/

/-- in Complete mode (`opt.inner`) the first half of an iteration compares the query with the
    common prefix of the subset up to the branching position `ws`, three-way -/
theorem srStep_stored (opt : Opt) (hin : opt.inner = true) (ks kn : List Nat) (st : SearchSt)
    (j fb ws : Nat) (hi : st.i = fb) (hfb : fb ≤ ws) (hlen : fb ≤ kn.length)
    (hks : ws ≤ ks.length) (hag : kn.take fb = ks.take fb) :
    srStep (prefOf opt ks fb ws) kn st j =
      match lexCmp (kn.take ws) (ks.take ws) with
      | .eq => .ok (.inr ws)
      | .lt => .ok (.inl { st with rID := some j, eqID := none })
      | .gt => .ok (.inl { st with lID := some j, eqID := none }) := by
  subst hi
  unfold prefOf
  split
  · -- no run: `ws = fb`
    have hws : ws = st.i := by omega
    subst hws
    rw [hag, lexCmp_self]
    have : ¬ st.i > kn.length := by omega
    simp only [srStep, this, if_false]
  · try rw [if_pos hin]
    have hfl : ¬ st.i / 2 > kn.length / 2 := by omega
    have hplen : (storedPrefix ks st.i ws).length = ws - (st.i - st.i % 2) := by
      simp only [storedPrefix, List.length_drop, List.length_take]; omega
    have hcmp : cmpUpto (kn.drop (st.i - st.i % 2)) (storedPrefix ks st.i ws)
        = lexCmp (kn.take ws) (ks.take ws) := by
      unfold cmpUpto
      rw [hplen, ← List.drop_take]
      unfold storedPrefix
      symm
      apply lexCmp_drop
      rw [List.take_take, List.take_take, Nat.min_eq_left (by omega)]
      have := congrArg (List.take (st.i - st.i % 2)) hag
      simpa [List.take_take, Nat.min_eq_left (by omega : st.i - st.i % 2 ≤ st.i)] using this
    simp only [srStep, hfl, if_false, hcmp]
    cases hc : lexCmp (kn.take ws) (ks.take ws) with
    | lt => rfl
    | gt => rfl
    | eq =>
      simp only []
      have h1 := lexCmp_eq_iff.mp hc
      have h2 := congrArg List.length h1
      simp only [List.length_take] at h2
      congr 2
      rw [hplen]; omega

/-! ### the candidates at an absent label, by cut -/

theorem left_cut {keys : List Bytes} {keep : List Bool} {t : Trie1} {queue : Array Subset}
    {j : Nat} {o : Subset} {r : InnerRec} {ws : Nat}
    (F : InnerFacts keys keep t queue j o r ws) (lID : Option Nat) (x a : Nat)
    (hcut : IsCut (labelOf keys ws r.big) o.s o.e x a)
    (hl : LeftOK keep queue lID o.s) :
    LeftOK keep queue
      (if 1 ≤ rankLabels r.labels x then some (r.firstChild + rankLabels r.labels x - 1) else lID)
      a := by
  have hle := rank_le r.labels x
  have ha1 := hcut.1
  cases hrk : rankLabels r.labels x with
  | zero =>
    rw [if_neg (by omega)]
    have hgap := cut_left_none (kept := keptAt keep) F.labels F.pw hcut hrk
    cases lID with
    | none =>
      intro t' h1
      by_cases h2 : t' < o.s
      · exact hl t' h2
      · exact hgap t' (by omega) h1
    | some j' =>
      obtain ⟨o', h1, h2, h3⟩ := hl
      refine ⟨o', h1, by omega, ?_⟩
      intro t' h4 h5
      by_cases h6 : t' < o.s
      · exact h3 t' h4 h6
      · exact hgap t' (by omega) h5
  | succ k =>
    rw [if_pos (by omega)]
    obtain ⟨c, hc, _, hrun⟩ := F.kid k (by omega)
    have hgap := cut_left_some (kept := keptAt keep) F.labels F.pw F.mono hcut hrk hrun
    have hid : r.firstChild + (k + 1) - 1 = r.firstChild + k := by omega
    rw [hid]
    exact ⟨c, hc, hgap.1, hgap.2⟩

theorem right_cut {keys : List Bytes} {keep : List Bool} {t : Trie1} {queue : Array Subset}
    {j : Nat} {o : Subset} {r : InnerRec} {ws : Nat}
    (F : InnerFacts keys keep t queue j o r ws) (rID : Option Nat) (x a : Nat)
    (hcut : IsCut (labelOf keys ws r.big) o.s o.e x a)
    (hr : RightOK keep keys.length queue rID o.e) :
    RightOK keep keys.length queue
      (if rankLabels r.labels x < r.labels.length
        then some (r.firstChild + rankLabels r.labels x) else rID)
      a := by
  have hle := rank_le r.labels x
  have ha2 := hcut.2.1
  by_cases h : rankLabels r.labels x < r.labels.length
  · rw [if_pos h]
    obtain ⟨c, hc, _, hrun⟩ := F.kid _ h
    have hgap := cut_right_some (kept := keptAt keep) F.labels F.pw F.mono hcut rfl hrun
    exact ⟨c, hc, hgap.1, hgap.2⟩
  · rw [if_neg h]
    have hgap := cut_right_none (kept := keptAt keep) F.labels F.pw hcut (by omega)
    cases rID with
    | none =>
      intro t' h1 h2
      by_cases h3 : t' < o.e
      · exact hgap t' h1 h3
      · exact hr t' (by omega) h2
    | some j' =>
      obtain ⟨o', h1, h2, h3⟩ := hr
      refine ⟨o', h1, by omega, ?_⟩
      intro t' h4 h5
      by_cases h6 : t' < o.e
      · exact hgap t' h4 h6
      · exact h3 t' (by omega) h5

/-! ### the loop invariant for an arbitrary query -/

/-- key `t` is below the query (half-bytes `kn`) -/
def KLt (keys : List Bytes) (kn : List Nat) (t : Nat) : Prop := lexCmp (knOf keys t) kn = .lt
/-- key `t` is above the query -/
def KGt (keys : List Bytes) (kn : List Nat) (t : Nat) : Prop := lexCmp kn (knOf keys t) = .lt

/-- the loop ended without an exact-match candidate: the kept keys split at an index `a` into
    those below the query and those above it, and the candidates are right for `a` -/
def CutOK (keys : List Bytes) (keep : List Bool) (queue : Array Subset) (kn : List Nat)
    (st : SearchSt) : Prop :=
  ∃ a, a ≤ keys.length ∧
       (∀ t, t < a → keptAt keep t = true → KLt keys kn t) ∧
       (∀ t, a ≤ t → t < keys.length → keptAt keep t = true → KGt keys kn t) ∧
       LeftOK keep queue st.lID a ∧ RightOK keep keys.length queue st.rID a

/-- the loop ended at (or, by the `i = l` shortcut, just before) the leaf `id` of the kept key
    `m`, which agrees with the query on the first `st.i` half-bytes -/
structure LeafHit (keys : List Bytes) (keep : List Bool) (t : Trie1) (queue : Array Subset)
    (kn : List Nat) (st : SearchSt) (id m : Nat) : Prop where
  eq : st.eqID = some id
  sub : ∃ om, queue[id]? = some om ∧ om.s = m ∧ om.e = m + 1
  leaf : IsLeafOf t id m
  kept : keptAt keep m = true
  mlt : m < keys.length
  ile : st.i ≤ kn.length
  agree : (knOf keys m).take st.i = kn.take st.i
  lp : st.lp = leafPrefOf t.opt (keys.getD m []) st.i
  below : ∀ t, t < m → keptAt keep t = true → KLt keys kn t
  above : ∀ t, m < t → t < keys.length → keptAt keep t = true → KGt keys kn t
  left : LeftOK keep queue st.lID m
  right : RightOK keep keys.length queue st.rID (m + 1)

theorem knOf_lt16 (keys : List Bytes) (t : Nat) : ∀ x ∈ knOf keys t, x < 16 := nibs_lt16 _

theorem knOf_even (keys : List Bytes) (t : Nat) : (knOf keys t).length % 2 = 0 := by
  rw [knOf, nibs_length]; omega

theorem searchLoop_exact {keys : List Bytes} {keep : List Bool} {t : Trie1}
    {queue : Array Subset} (h : QOK keys keep t queue) (hasc : strictAsc keys = true)
    (hinner : t.opt.inner = true) (kn : List Nat) (hkn16 : ∀ x ∈ kn, x < 16)
    (hkne : kn.length % 2 = 0) :
    ∀ n j o fuel st, t.nodes.size - j ≤ n → n < fuel → queue[j]? = some o →
      st.i = o.fb → st.lp = none → o.fb ≤ kn.length →
      (knOf keys o.s).take o.fb = kn.take o.fb →
      (∀ t, t < o.s → keptAt keep t = true → KLt keys kn t) →
      (∀ t, o.e ≤ t → t < keys.length → keptAt keep t = true → KGt keys kn t) →
      LeftOK keep queue st.lID o.s → RightOK keep keys.length queue st.rID o.e →
      ∃ st', searchLoop t.view kn fuel st j = .ok st' ∧
        ((st'.eqID = none ∧ CutOK keys keep queue kn st') ∨
          ∃ id m, LeafHit keys keep t queue kn st' id m) := by
  intro n
  induction n with
  | zero =>
    intro j o fuel st h1 _ hqj
    have := h.lt hqj
    omega
  | succ n ih =>
    intro j o fuel st h1 h2 hqj hi hlp hfbl hagq hbelow habove hL hR
    obtain ⟨hsub, hj, hnode⟩ := h.at hqj
    obtain ⟨fuel, rfl⟩ : ∃ f, fuel = f + 1 := ⟨fuel - 1, by omega⟩
    have hview := view_node t j hj
    have hoe := hsub.le
    have hos := hsub.lt
    cases hn : t.nodes[j] with
    | leaf ith lp =>
      rw [hn] at hnode hview
      obtain ⟨h1e, hidx, hlp'⟩ := hnode
      obtain ⟨x, hx1, hx2, hx3⟩ := hsub.kept
      have hxs : x = o.s := by omega
      subst hxs
      refine ⟨_, searchLoop_leaf _ _ _ _ ith lp st hview, Or.inr ⟨j, o.s, ?_⟩⟩
      exact {
        eq := rfl
        sub := ⟨o, hqj, rfl, h1e⟩
        leaf := ⟨ith, lp, nodes_getElem? t j hj _ hn, hidx⟩
        kept := hx3
        mlt := by omega
        ile := by show st.i ≤ _; omega
        agree := by show _ = List.take st.i kn; rw [hi]; exact hagq
        lp := by show lp = leafPrefOf t.opt _ st.i; rw [hi]; exact hlp'
        below := hbelow
        above := fun t' h3 h4 h5 => habove t' (by omega) h4 h5
        left := hL
        right := by show RightOK keep keys.length queue st.rID (o.s + 1); rw [← h1e]; exact hR }
    | inner r =>
      rw [hn] at hnode hview
      obtain ⟨_, hin⟩ := hnode
      obtain ⟨ws, F⟩ := inner_facts h hsub hin
      have hks : ws ≤ (knOf keys o.s).length := (F.pre o.s (Nat.le_refl _) hos).1
      have hfc := F.fc
      rw [searchLoop_inner _ _ _ _ r st hview, F.pref,
        srStep_stored t.opt hinner (knOf keys o.s) kn st j o.fb ws hi F.fb_le hfbl hks hagq.symm]
      cases hc : lexCmp (kn.take ws) ((knOf keys o.s).take ws) with
      | lt =>
        -- the query is below every key of the subset
        refine ⟨_, rfl, Or.inl ⟨rfl, o.s, by omega, hbelow, ?_, hL,
          ⟨o, hqj, Nat.le_refl _, fun t' h3 h4 => by omega⟩⟩⟩
        intro t' h3 h4 h5
        by_cases h6 : t' < o.e
        · apply lexCmp_take_lt ws
          rw [(F.pre t' h3 h6).2]; exact hc
        · exact habove t' (by omega) h4 h5
      | gt =>
        -- the query is above every key of the subset
        refine ⟨_, rfl, Or.inl ⟨rfl, o.e, hoe, ?_, habove,
          ⟨o, hqj, Nat.le_refl _, fun t' h3 h4 => by omega⟩, hR⟩⟩
        intro t' h3 h5
        by_cases h6 : t' < o.s
        · exact hbelow t' h6 h5
        · apply lexCmp_take_gt ws kn
          rw [(F.pre t' (by omega) h3).2]; exact hc
      | eq =>
        simp only []
        have htk : kn.take ws = (knOf keys o.s).take ws := lexCmp_eq_iff.mp hc
        have hwsl : ws ≤ kn.length := by
          have := congrArg List.length htk
          simp only [List.length_take] at this
          omega
        have hagt : ∀ t', o.s ≤ t' → t' < o.e → (knOf keys t').take ws = kn.take ws :=
          fun t' h3 h4 => by rw [(F.pre t' h3 h4).2, htk]
        have hbw : r.big = true → ws % 2 = 0 := fun hb => (F.big hb).1
        -- keys of the subset are ordered against the query like their labels
        have hlt_of : ∀ t', o.s ≤ t' → t' < o.e →
            labelOf keys ws r.big t' < labelAt kn ws r.big → KLt keys kn t' :=
          fun t' h3 h4 h5 => lt_of_label_lt hkn16 (hagt t' h3 h4) h5
        have hgt_of : ∀ t', o.s ≤ t' → t' < o.e →
            labelAt kn ws r.big < labelOf keys ws r.big t' → KGt keys kn t' :=
          fun t' h3 h4 h5 => lt_of_label_lt (knOf_lt16 keys t') (hagt t' h3 h4).symm h5
        by_cases hmem : labelAt kn ws r.big ∈ r.labels
        · -- the label of the query is a kept label: descend
          obtain ⟨k, hk', hkl⟩ := List.mem_iff_getElem.mp hmem
          obtain ⟨c, hc', hcfb, hrun⟩ := F.kid k hk'
          have hcid := h.lt hc'
          obtain ⟨hsubc, _, hnodec⟩ := h.at hc'
          have hch : leftChildID r (labelIdxOfKey kn ws r.big)
              = ((r.firstChild : Int) - 1 + k, true) := by
            rw [labelIdxOfKey_eq_labelAt _ _ _ hbw, ← hkl, leftChildID_of_label r F.pw k hk']
          have hL' := left_step F st.lID k hk' c hrun hL
          have hR' := right_step F st.rID k hk' c hrun hR
          have hlabs := hrun.lab_s
          have hlabe := hrun.lab_e
          obtain ⟨hcs, hce, hclt, hciff⟩ := hrun
          have hbelow' : ∀ t', t' < c.s → keptAt keep t' = true → KLt keys kn t' := by
            intro t' h3 h5
            by_cases h6 : t' < o.s
            · exact hbelow t' h6 h5
            · apply hlt_of t' (by omega) (by omega)
              have hm := F.mono t' c.s (by omega) (by omega) (by omega)
              have hne : labelOf keys ws r.big t' ≠ r.labels[k] := fun he => by
                have := (hciff t' (by omega) (by omega)).mpr he; omega
              omega
          have habove' : ∀ t', c.e ≤ t' → t' < keys.length → keptAt keep t' = true →
              KGt keys kn t' := by
            intro t' h3 h4 h5
            by_cases h6 : t' < o.e
            · apply hgt_of t' (by omega) h6
              have hm := F.mono (c.e - 1) t' (by omega) (by omega) h6
              have hne : labelOf keys ws r.big t' ≠ r.labels[k] := fun he => by
                have := (hciff t' (by omega) h6).mpr he; omega
              omega
            · exact habove t' (by omega) h4 h5
          rw [srBranch_go _ _ _ r st ws k hk' hch]
          by_cases hwl : ws = kn.length
          · -- the query ends at `ws`: the child of label 0 is the leaf of the key equal to it
            rw [if_pos hwl]
            have hl0 : r.labels[k] = 0 := by
              rw [hkl, labelAt_eq_zero_iff]; omega
            cases hnc : t.nodes[r.firstChild + k] with
            | leaf ith lp =>
              rw [hnc] at hnodec
              obtain ⟨h1e, hidx, _⟩ := hnodec
              obtain ⟨x, hx1, hx2, hx3⟩ := hsubc.kept
              have hxs : x = c.s := by omega
              subst hxs
              have hlen : (knOf keys c.s).length ≤ ws := by
                have : labelOf keys ws r.big c.s = 0 := by rw [hlabs, hl0]
                unfold labelOf at this
                exact labelAt_eq_zero_iff.mp this
              refine ⟨_, rfl, Or.inr ⟨r.firstChild + k, c.s, ?_⟩⟩
              exact {
                eq := rfl
                sub := ⟨c, hc', rfl, h1e⟩
                leaf := ⟨ith, lp, nodes_getElem? t _ hcid _ hnc, hidx⟩
                kept := hx3
                mlt := by omega
                ile := hwsl
                agree := hagt c.s hcs (by omega)
                lp := by
                  show st.lp = leafPrefOf t.opt _ ws
                  rw [hlp, leafPrefOf_end]
                  have := (F.pre c.s hcs (by omega)).1
                  show ws = (knOf keys c.s).length
                  omega
                below := hbelow'
                above := fun t' h3 h4 h5 => habove' t' (by omega) h4 h5
                left := hL'
                right := by rw [← h1e]; exact hR' }
            | inner rc =>
              rw [hnc] at hnodec
              exfalso
              have h2c : c.s + 2 ≤ c.e := hnodec.1
              have ha := (hciff c.s hcs (by omega)).mp ⟨Nat.le_refl _, by omega⟩
              have hb := (hciff (c.s + 1) (by omega) (by omega)).mp ⟨by omega, by omega⟩
              rw [hl0] at ha hb
              refine no_two_label0 keys hasc ws r.big c.s (by omega) ha hb ?_
              rw [(F.pre c.s hcs (by omega)).2, (F.pre (c.s + 1) (by omega) (by omega)).2]
          · rw [if_neg hwl]
            have hlne : r.labels[k] ≠ 0 := by
              rw [hkl, Ne, labelAt_eq_zero_iff]; omega
            have hfb : ws + wordSize r.big = c.fb := by
              rw [hcfb]; unfold labelLen wordSize; rw [if_neg hlne]
            have hcfb' : c.fb = ws + labelLen (labelAt kn ws r.big) r.big := by rw [hcfb, hkl]
            have hlabeq : labelAt kn ws r.big = labelAt (knOf keys c.s) ws r.big := by
              rw [← hkl]; exact hlabs.symm
            have hcl : c.fb ≤ kn.length := by
              rw [hcfb']
              exact label_long (fun _ => hkne) hbw hwsl
            have hcag : (knOf keys c.s).take c.fb = kn.take c.fb := by
              rw [hcfb']
              exact (take_label_eq hkn16 (knOf_lt16 keys c.s) (fun _ => hkne)
                (fun _ => knOf_even keys c.s) hbw (hagt c.s hcs (by omega)).symm hlabeq).symm
            exact ih (r.firstChild + k) c fuel _ (by omega) (by omega) hc' hfb hlp hcl hcag
              hbelow' habove' hL' hR'
        · -- the label of the query is absent: the loop ends here
          have hch : leftChildID r (labelIdxOfKey kn ws r.big)
              = ((r.firstChild : Int) - 1 + rankLabels r.labels (labelAt kn ws r.big), false) := by
            rw [labelIdxOfKey_eq_labelAt _ _ _ hbw]
            exact leftChildID_absent r _ hmem
          rw [srBranch_absent _ _ _ r st ws _ (rank_le _ _) hch]
          obtain ⟨a, hcut⟩ := mono_cut (labelOf keys ws r.big) o.s (labelAt kn ws r.big) o.e
            (Nat.le_of_lt hos) F.mono
          have hcut' : IsCut (labelOf keys ws r.big) o.s o.e (labelAt kn ws r.big) a := hcut
          refine ⟨_, rfl, Or.inl ⟨rfl, a, by have := hcut.2.1; omega, ?_, ?_,
            left_cut F st.lID _ a hcut' hL, right_cut F st.rID _ a hcut' hR⟩⟩
          · intro t' h3 h5
            by_cases h6 : t' < o.s
            · exact hbelow t' h6 h5
            · exact hlt_of t' (by omega) (by have := hcut.2.1; omega)
                (hcut.2.2.1 t' (by omega) h3)
          · intro t' h3 h4 h5
            by_cases h6 : t' < o.e
            · have h7 : o.s ≤ t' := by have := hcut.1; omega
              apply hgt_of t' h7 h6
              have hge := hcut.2.2.2 t' h3 h6
              have hne : labelOf keys ws r.big t' ≠ labelAt kn ws r.big := fun he =>
                hmem (he ▸ F.labels t' h7 h6 h5)
              omega
            · exact habove t' (by omega) h4 h5

/-! ### the epilogue -/

theorem srTail_of (v : View) (st : SearchSt) (l r : Option Nat)
    (hl : sideL v st.lID = .ok l) (hr : sideR v st.rID = .ok r) :
    Agree.srTail v st = .ok (l, st.eqID, r) := by
  unfold Agree.srTail
  unfold sideL at hl
  unfold sideR at hr
  cases hL : st.lID with
  | none =>
    rw [hL] at hl
    cases hl
    cases hR : st.rID with
    | none => rw [hR] at hr; cases hr; rfl
    | some b =>
      rw [hR] at hr
      dsimp only at hr ⊢
      cases hx : leftMost v (v.nodeCnt + 1) b with
      | error e => rw [hx] at hr; cases hr
      | ok x => rw [hx] at hr; cases hr; rfl
  | some a =>
    rw [hL] at hl
    dsimp only at hl ⊢
    cases hy : rightMost v (v.nodeCnt + 1) a with
    | error e => rw [hy] at hl; cases hl
    | ok y =>
      rw [hy] at hl; cases hl
      cases hR : st.rID with
      | none => rw [hR] at hr; cases hr; rfl
      | some b =>
        rw [hR] at hr
        dsimp only at hr ⊢
        cases hx : leftMost v (v.nodeCnt + 1) b with
        | error e => rw [hx] at hr; cases hr
        | ok x => rw [hx] at hr; cases hr; rfl

/-- with leaf tails stored, `cmpLeafPrefix` on the leaf of key `m` compares the whole keys -/
theorem cmpLeafPrefix_exact (t : Trie1) (hleaf : t.opt.leaf = true) (q key : Bytes) (i : Nat)
    (hag : (nibs key).take i = (nibs q).take i) :
    cmpLeafPrefix t.view (q.drop (i / 2)) (leafPrefOf t.opt key i) = lexCmp (nibs q) (nibs key) := by
  have hlp : (leafPrefOf t.opt key i).getD [] = key.drop (i / 2) := by
    unfold leafPrefOf
    rw [hleaf]
    by_cases he : key.drop (i / 2) = []
    · simp [he]
    · have : (!(List.drop (i / 2) key).isEmpty) = true := by simpa using he
      simp [this]
  unfold cmpLeafPrefix
  show (if t.opt.leaf = true then _ else _) = _
  rw [if_pos hleaf, hlp]
  exact cmpBytes_tails q key i hag.symm

/-- the right candidate, for a cut position `b` -/
def RightResAt (keep : List Bool) (n : Nat) (t : Trie1) (b : Nat) (r : Option Nat) : Prop :=
  match r with
  | none => ∀ t', b ≤ t' → t' < n → keptAt keep t' = false
  | some id => ∃ mr, IsLeafOf t id mr ∧ IsMinKept keep b n mr

theorem sideR_cut {keys : List Bytes} {keep : List Bool} {t : Trie1} {queue : Array Subset}
    (h : QOK keys keep t queue) (rID : Option Nat) (b : Nat)
    (hR : RightOK keep keys.length queue rID b) :
    ∃ r, sideR t.view rID = .ok r ∧ RightResAt keep keys.length t b r := by
  cases rID with
  | none => exact ⟨none, rfl, hR⟩
  | some j' =>
    obtain ⟨o', h1, h2, h3⟩ := hR
    have hle := (h.at h1).1.le
    obtain ⟨id, ith, lp, mr, hrm, hnd, hidx, hm1, hm2, hm3, hm4⟩ :=
      leftMost_spec h t.nodes.size j' o' (t.view.nodeCnt + 1) (by omega)
        (by show t.nodes.size < t.nodes.size + 1; omega) h1
    refine ⟨some id, ?_, mr, ⟨ith, lp, hnd, hidx⟩, by omega, by omega, hm3, ?_⟩
    · show (leftMost t.view (t.view.nodeCnt + 1) j' >>= fun x => pure (some x)) = _
      rw [hrm]; rfl
    · intro t' h4 h5
      by_cases h6 : o'.s ≤ t'
      · exact hm4 t' h6 h5
      · exact h3 t' h4 (by omega)

/-- the state of `searchID` behind the leaf comparison: the kept keys below index `a` are below
    the query, those from `b` on are above it, and `[a, b)` is either empty (no exact match) or
    the single kept key equal to the query -/
def Post (keys : List Bytes) (keep : List Bool) (t : Trie1) (queue : Array Subset) (kn : List Nat)
    (st : SearchSt) : Prop :=
  ∃ a b, b ≤ keys.length ∧
    (∀ t', t' < a → keptAt keep t' = true → KLt keys kn t') ∧
    (∀ t', b ≤ t' → t' < keys.length → keptAt keep t' = true → KGt keys kn t') ∧
    LeftOK keep queue st.lID a ∧ RightOK keep keys.length queue st.rID b ∧
    ((b = a ∧ st.eqID = none) ∨
     (b = a + 1 ∧ ∃ id, st.eqID = some id ∧ IsLeafOf t id a ∧ keptAt keep a = true ∧
        knOf keys a = kn))

theorem post_of_cut {keys : List Bytes} {keep : List Bool} {t : Trie1} {queue : Array Subset}
    (q : Bytes) (st : SearchSt) (heq : st.eqID = none)
    (hcut : CutOK keys keep queue (nibs q) st) :
    Post keys keep t queue (nibs q) (Agree.srEpi t.view q st) := by
  have : Agree.srEpi t.view q st = st := by unfold Agree.srEpi; rw [heq]
  rw [this]
  obtain ⟨a, h1, h2, h3, h4, h5⟩ := hcut
  exact ⟨a, a, h1, h2, h3, h4, h5, Or.inl ⟨rfl, heq⟩⟩

theorem post_of_hit {keys : List Bytes} {keep : List Bool} {t : Trie1} {queue : Array Subset}
    (hleaf : t.opt.leaf = true) (q : Bytes) (st : SearchSt) (id m : Nat)
    (H : LeafHit keys keep t queue (nibs q) st id m) :
    Post keys keep t queue (nibs q) (Agree.srEpi t.view q st) := by
  obtain ⟨om, hom, hos, hoe⟩ := H.sub
  have hcmp : cmpLeafPrefix t.view (q.drop (st.i / 2)) st.lp
      = lexCmp (nibs q) (knOf keys m) := by
    rw [H.lp]
    exact cmpLeafPrefix_exact t hleaf q _ st.i H.agree
  unfold Agree.srEpi
  rw [H.eq]
  simp only [H.ile, if_true, hcmp]
  have hmlt := H.mlt
  cases hc : lexCmp (nibs q) (knOf keys m) with
  | eq =>
    refine ⟨m, m + 1, by omega, H.below, fun t' h1 h2 h3 => H.above t' (by omega) h2 h3,
      H.left, H.right, Or.inr ⟨rfl, id, H.eq, H.leaf, H.kept, (lexCmp_eq_iff.mp hc).symm⟩⟩
  | lt =>
    refine ⟨m, m, by omega, H.below, ?_, H.left, ⟨om, hom, by omega, fun t' h1 h2 => by omega⟩,
      Or.inl ⟨rfl, rfl⟩⟩
    intro t' h1 h2 h3
    by_cases h4 : t' = m
    · rw [h4]; exact hc
    · exact H.above t' (by omega) h2 h3
  | gt =>
    refine ⟨m + 1, m + 1, by omega, ?_, fun t' h1 h2 h3 => H.above t' (by omega) h2 h3,
      ⟨om, hom, by omega, fun t' h1 h2 => by omega⟩, H.right, Or.inl ⟨rfl, rfl⟩⟩
    intro t' h1 h3
    by_cases h4 : t' = m
    · rw [h4]; exact (lexCmp_gt_iff _ _).mp hc
    · exact H.below t' (by omega) h3

/-! ### the result of `searchID` on an arbitrary query -/

/-- what `searchID` returns in Complete mode, in terms of the order of the keys: `l` is the leaf
    of the greatest kept key below the query, `e` the leaf of the kept key equal to it, `r` the
    leaf of the smallest kept key above it (`none` iff there is no such key) -/
structure ExactRes (keys : List Bytes) (keep : List Bool) (t : Trie1) (q : Bytes)
    (l e r : Option Nat) : Prop where
  lt : match l with
    | none => ∀ t', t' < keys.length → keptAt keep t' = true → bytesLt (keys.getD t' []) q = false
    | some id => ∃ p, IsLeafOf t id p ∧ p < keys.length ∧ keptAt keep p = true ∧
        bytesLt (keys.getD p []) q = true ∧
        ∀ t', p < t' → t' < keys.length → keptAt keep t' = true →
          bytesLt (keys.getD t' []) q = false
  eq : match e with
    | none => ∀ t', t' < keys.length → keptAt keep t' = true → keys.getD t' [] ≠ q
    | some id => ∃ m, IsLeafOf t id m ∧ m < keys.length ∧ keptAt keep m = true ∧
        keys.getD m [] = q
  gt : match r with
    | none => ∀ t', t' < keys.length → keptAt keep t' = true → bytesLt q (keys.getD t' []) = false
    | some id => ∃ p, IsLeafOf t id p ∧ p < keys.length ∧ keptAt keep p = true ∧
        bytesLt q (keys.getD p []) = true ∧
        ∀ t', t' < p → keptAt keep t' = true → bytesLt q (keys.getD t' []) = false

theorem bytesLt_false_of_gt {a b : Bytes} (h : lexCmp (nibs b) (nibs a) = .lt) :
    bytesLt a b = false := by
  cases hb : bytesLt a b with
  | false => rfl
  | true => exact absurd (bytesLt_iff_nibs.mp hb) (lexCmp_lt_asymm h)

theorem ne_of_lt {a b : Bytes} (h : lexCmp (nibs a) (nibs b) = .lt) : a ≠ b := by
  intro he; rw [he, lexCmp_self] at h; cases h

theorem exactRes_of_post {keys : List Bytes} {keep : List Bool} {t : Trie1}
    (q : Bytes) (eqID l r : Option Nat) (a b : Nat) (hbn : b ≤ keys.length)
    (hbelow : ∀ t', t' < a → keptAt keep t' = true → KLt keys (nibs q) t')
    (habove : ∀ t', b ≤ t' → t' < keys.length → keptAt keep t' = true → KGt keys (nibs q) t')
    (hmid : (b = a ∧ eqID = none) ∨
     (b = a + 1 ∧ ∃ id, eqID = some id ∧ IsLeafOf t id a ∧ keptAt keep a = true ∧
        knOf keys a = nibs q))
    (hlres : LeftRes keep t a l) (hrres : RightResAt keep keys.length t b r) :
    ExactRes keys keep t q l eqID r := by
  -- a kept key from `a` on is not below the query, a kept key below `b` is not above it
  have hnlt : ∀ t', a ≤ t' → t' < keys.length → keptAt keep t' = true →
      bytesLt (keys.getD t' []) q = false := by
    intro t' h1 h2 h3
    by_cases h4 : b ≤ t'
    · exact bytesLt_false_of_gt (habove t' h4 h2 h3)
    · rcases hmid with ⟨hb, _⟩ | ⟨hb, id, _, _, _, hkq⟩
      · omega
      · have : t' = a := by omega
        rw [this]
        have : keys.getD a [] = q := nibs_injective hkq
        rw [this]; exact bytesLt_irrefl q
  have hngt : ∀ t', t' < b → keptAt keep t' = true →
      bytesLt q (keys.getD t' []) = false := by
    intro t' h1 h3
    by_cases h4 : t' < a
    · exact bytesLt_false_of_gt (hbelow t' h4 h3)
    · rcases hmid with ⟨hb, _⟩ | ⟨hb, id, _, _, _, hkq⟩
      · omega
      · have : t' = a := by omega
        rw [this]
        have : keys.getD a [] = q := nibs_injective hkq
        rw [this]; exact bytesLt_irrefl q
  have hab : a ≤ b := by rcases hmid with ⟨hb, _⟩ | ⟨hb, _⟩ <;> omega
  refine ⟨?_, ?_, ?_⟩
  · cases l with
    | none =>
      intro t' h1 h2
      by_cases h3 : t' < a
      · rw [hlres t' h3] at h2; cases h2
      · exact hnlt t' (by omega) h1 h2
    | some id =>
      obtain ⟨p, hleaf, hp1, hp2, hp3, hp4⟩ := hlres
      refine ⟨p, hleaf, by omega, hp3, bytesLt_iff_nibs.mpr (hbelow p hp2 hp3), ?_⟩
      intro t' h1 h2 h3
      by_cases h4 : t' < a
      · rw [hp4 t' h1 h4] at h3; cases h3
      · exact hnlt t' (by omega) h2 h3
  · rcases hmid with ⟨hb, he⟩ | ⟨hb, id, he, hleaf, hka, hkq⟩
    · rw [he]
      intro t' h1 h2
      by_cases h3 : t' < a
      · exact ne_of_lt (hbelow t' h3 h2)
      · exact (ne_of_lt (habove t' (by omega) h1 h2)).symm
    · rw [he]
      exact ⟨a, hleaf, by omega, hka, nibs_injective hkq⟩
  · cases r with
    | none =>
      intro t' h1 h2
      by_cases h3 : t' < b
      · exact hngt t' h3 h2
      · rw [hrres t' (by omega) h1] at h2; cases h2
    | some id =>
      obtain ⟨p, hleaf, hp1, hp2, hp3, hp4⟩ := hrres
      refine ⟨p, hleaf, hp2, hp3, bytesLt_iff_nibs.mpr (habove p hp1 hp2 hp3), ?_⟩
      intro t' h1 h3
      by_cases h4 : t' < b
      · exact hngt t' h4 h3
      · rw [hp4 t' (by omega) h1] at h3; cases h3

end Exact

open Exact SearchDescent Subtree in
/-- **Exact search.**  In a well-formed trie over strictly ascending keys built in Complete mode
    (`inner` and `leaf` prefixes stored), `searchID` on an ARBITRARY query `q` returns normally,
    and its three ids are the leaves of the greatest kept key below `q`, of the kept key equal to
    `q`, and of the smallest kept key above `q` (`none` iff there is no such key). -/
theorem searchID_exact (keys : List Bytes) (keep : List Bool) (t : Trie1)
    (hasc : strictAsc keys = true) (hwf : WF keys keep t)
    (hinner : t.opt.inner = true) (hleaf : t.opt.leaf = true) (q : Bytes) :
    ∃ l e r, searchID t.view q = .ok (l, e, r) ∧ ExactRes keys keep t q l e r := by
  obtain ⟨queue, hq, hroot⟩ := (wf_iff keys keep t).mp hwf
  have h0 : 0 < t.nodes.size := hq.lt hroot
  obtain ⟨st', hloop, hfin⟩ :=
    searchLoop_exact hq hasc hinner (nibs q) (nibs_lt16 q) (by rw [nibs_length]; omega)
      t.nodes.size 0 _ (t.nodes.size + 1) {}
      (by omega) (by omega) hroot rfl rfl (Nat.zero_le _) rfl
      (by intro t' h; exact absurd h (Nat.not_lt_zero _))
      (by intro t' h1 h2; exact absurd h2 (Nat.not_lt.mpr h1))
      (by intro t' h; exact absurd h (Nat.not_lt_zero _))
      (by intro t' h1 h2; exact absurd h2 (Nat.not_lt.mpr h1))
  have hpost : Post keys keep t queue (nibs q) (Agree.srEpi t.view q st') := by
    rcases hfin with ⟨heq, hcut⟩ | ⟨id, m, H⟩
    · exact post_of_cut q st' heq hcut
    · exact post_of_hit hleaf q st' id m H
  generalize hst2 : Agree.srEpi t.view q st' = st2 at hpost
  obtain ⟨a, b, hbn, hbelow, habove, hL, hR, hmid⟩ := hpost
  obtain ⟨l, hl, hlres⟩ := sideL_spec hq st2.lID a hL
  obtain ⟨r, hr, hrres⟩ := sideR_cut hq st2.rID b hR
  refine ⟨l, st2.eqID, r, ?_, ?_⟩
  · have hempty : t.view.isEmpty = false := by
      show (t.nodes.size == 0) = false
      exact beq_false_of_ne (by omega)
    have hcnt : t.view.nodeCnt = t.nodes.size := rfl
    rw [Agree.searchID_eq, hempty, hcnt]
    simp only [Bool.false_eq_true, if_false]
    rw [hloop]
    simp only []
    rw [hst2]
    exact srTail_of _ st2 l r hl hr
  · exact exactRes_of_post q st2.eqID l r a b hbn hbelow habove hmid hlres hrres

#print axioms searchID_exact

theorem Exact.idEpi_ok (v : View) (key : Bytes) (r : Reached) (h : r.i ≤ (nibs key).length) :
    ∃ a, Agree.idEpi v key r = .ok a := by
  unfold Agree.idEpi
  split
  · split
    · exact ⟨_, rfl⟩
    · split
      · exact ⟨_, rfl⟩
      · rw [if_neg (by omega)]; exact ⟨_, rfl⟩
  · exact ⟨_, rfl⟩

/-- in a well-formed trie, whenever `searchID` returns normally so does `GetID`, with the
    exact-match id as its answer (from the lock-step simulation of SlimProofs.Agree) -/
theorem getID_of_searchID (keys : List Bytes) (keep : List Bool) (t : Trie1)
    (hwf : WF keys keep t) (q : Bytes) (l e r : Option Nat)
    (hs : searchID t.view q = .ok (l, e, r)) : getID t.view q = .ok e := by
  have hov := Agree.noOverrun_of_WF keys keep t hwf q
  have hne := Agree.noEmptyLeafPrefix_of_WF keys keep t hwf
  have hg : ∃ a, getID t.view q = .ok a := by
    rw [Agree.getID_eq]
    cases he : t.view.isEmpty with
    | true => exact ⟨_, rfl⟩
    | false =>
      simp only [Bool.false_eq_true, if_false]
      obtain ⟨st, hst, _⟩ := Agree.searchID_mid t.view q (l, e, r) he hs
      have sim := Agree.init_sim t.view q
      cases hl : getIDLoop t.view (nibs q) (t.view.nodeCnt + 1) 0 0 with
      | error err =>
        rw [hl] at sim
        have : searchLoop t.view (nibs q) (t.view.nodeCnt + 1) {} 0 = .error err := sim
        rw [hst] at this; cases this
      | ok o =>
        cases o with
        | none => exact ⟨_, rfl⟩
        | some rr => exact Exact.idEpi_ok _ _ rr (hov rr hl)
  obtain ⟨a, ha⟩ := hg
  have := Agree.searchID_eq_getID_of t.view q a (l, e, r) hne hov ha hs
  rw [ha]
  simp only at this
  rw [this]

/-- **Exact `GetID`.**  In Complete mode `GetID` on an arbitrary query finds exactly the kept key
    equal to the query (no false positive, no false negative). -/
theorem getID_exact (keys : List Bytes) (keep : List Bool) (t : Trie1)
    (hasc : strictAsc keys = true) (hwf : WF keys keep t)
    (hinner : t.opt.inner = true) (hleaf : t.opt.leaf = true) (q : Bytes) :
    ∃ e, getID t.view q = .ok e ∧
      match e with
      | none => ∀ t', t' < keys.length → keptAt keep t' = true → keys.getD t' [] ≠ q
      | some id => ∃ m, SearchDescent.IsLeafOf t id m ∧ m < keys.length ∧ keptAt keep m = true ∧
          keys.getD m [] = q := by
  obtain ⟨l, e, r, hs, hres⟩ := searchID_exact keys keep t hasc hwf hinner hleaf q
  exact ⟨e, getID_of_searchID keys keep t hwf q l e r hs, hres.eq⟩

#print axioms getID_exact
