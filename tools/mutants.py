#!/usr/bin/env python3
"""
mutants.py — mutation campaign (tooling; measures the checks, is not one of them).

For every single-point mutant of the library's source files (harness/cmd/mutate: operator swaps,
literal +-1, negated / constant conditions, deleted statements, break<->continue, ...):

  1. put it into a private scratch worktree of /repo (never /repo itself);
  2. `go build ./...`                      -> "nocompile"
  3. the repository's own test suite       -> "killed"     (what the unit tests already settle)
  4. the survivors are run against tie 2 of every property (quick tier, seed 1): harness built against
     the mutant, model driver on the same script, line diff + the harness's direct predicates
                                           -> "caught" (with the properties that alarm) / "uncaught"
     and the tie-1 extractor is run on the mutant; "facts" says whether Generated/{Facts,Funcs}.lean
     would change (then a bridge theorem is re-proved or fails in the real check).

  tools/mutants.py run  [--workers 12] [--only REGEX] [--out mutants/results.tsv]
  tools/mutants.py summary [--out mutants/results.tsv]

Results are appended (resumable: finished ids are skipped).
"""
import os, sys, re, json, subprocess, shutil, time, argparse, threading, queue, hashlib

ROOT = os.path.dirname(os.path.dirname(os.path.abspath(__file__)))
HARN = os.path.join(ROOT, "harness")
LEAN = os.path.join(ROOT, "lean")
SCR = "/tmp/mx"
FILES = """trie/slimtrie.go trie/slimtrie_create.go trie/slimtrie_query.go trie/slimtrie_scan.go trie/slimtrie_getnode.go
trie/slimtrie_getint.go trie/slimtrie_vlen_array.go trie/slimtrie_marshal.go trie/slimtrie_stat.go trie/slimtrie_level.go
trie/slimtrie_str.go trie/strcmp.go trie/bitmap.go trie/slimtrie_vars.go index/index.go array/array.go array/base.go
array/int.go encode/int.go encode/int8.go encode/nativeint.go encode/type_encoder.go encode/dummy.go encode/encoder.go""".split()
GOENV = dict(os.environ, GOFLAGS="-mod=mod", GOPROXY="off", GOSUMDB="off", GOTOOLCHAIN="local")
PROPS = [c["property_id"] for c in json.load(open(os.path.join(ROOT, "MANIFEST.json")))["checks"]]
PCFG = json.load(open(os.path.join(ROOT, "props.json")))


def vkey(v):
    return hashlib.sha256("\n".join(v.get("script", [])).encode()).hexdigest()[:16]


KNOWN = set(re.findall(r"^finding:.*?key=(\S+)", open(os.path.join(ROOT, "known_findings.txt")).read(), re.M))


def sh(cmd, cwd=None, env=None, timeout=None):
    try:
        p = subprocess.run(cmd, cwd=cwd, env=env or GOENV, timeout=timeout, stdout=subprocess.PIPE, stderr=subprocess.STDOUT, text=True, errors="replace")
        return p.returncode, p.stdout
    except subprocess.TimeoutExpired as e:
        return 124, "timeout"


def baseline_facts():
    d = os.path.join(SCR, "basefacts")
    os.makedirs(d, exist_ok=True)
    sh([os.path.join(HARN, "bin", "extract"), "-repo", "/repo", "-out", os.path.join(d, "Facts.lean"), "-funcs", os.path.join(d, "Funcs.lean")], cwd=HARN)
    return [open(os.path.join(d, x)).read() if os.path.exists(os.path.join(d, x)) else "" for x in ("Facts.lean", "Funcs.lean")]


def worker(k, q, out_lock, outf, base):
    w = os.path.join(SCR, "w%d" % k)
    h = os.path.join(SCR, "h%d" % k)
    shutil.rmtree(h, ignore_errors=True)
    os.makedirs(h)
    sh(["git", "-C", "/repo", "worktree", "remove", "--force", w])
    shutil.rmtree(w, ignore_errors=True)
    rc, o = sh(["git", "-C", "/repo", "worktree", "add", "--detach", w, "HEAD", "-f"])
    if rc != 0:
        print("worktree failed", o); return
    mod = open(os.path.join(HARN, "go.mod")).read().replace("=> /repo", "=> " + w)
    open(os.path.join(h, "go.mod"), "w").write(mod)
    shutil.copy(os.path.join(HARN, "go.sum"), os.path.join(h, "go.sum"))
    while True:
        try:
            item = q.get_nowait()
        except queue.Empty:
            break
        mid, f, n, line, desc = item
        t0 = time.time()
        status, by, facts = "?", "", ""
        try:
          try:
            rc, o = sh([os.path.join(HARN, "bin", "mutate"), "-file", os.path.join("/repo", f), "-n", str(n), "-out", os.path.join(w, f)])
            if rc != 0:
                status = "mutate-error"
            else:
                rc, o = sh(["go", "build", "./..."], cwd=w, timeout=600)
                if rc != 0:
                    status = "nocompile"
                else:
                    pk = ["./trie/", "./index/"] if f.startswith("trie/") else (["./index/"] if f.startswith("index/") else ["./..."])
                    # (address-space limit: a mutant that allocates without bound must not take the machine down)
                    rc, o = sh(["bash", "-c", "ulimit -v 12000000; exec go test -vet=off -count=1 -failfast -timeout 8m " + " ".join(pk)], cwd=w, timeout=900)
                    if rc != 0:
                        status = "killed"
                    else:
                        status, by, facts = probe(w, h, base)
          except Exception as e:
            status, by = "error", repr(e)[:100]
        finally:
            sh(["git", "-C", w, "checkout", "--", "."])
        with out_lock:
            outf.write("\t".join([mid, f, str(line), desc, status, by, facts, "%.0f" % (time.time() - t0)]) + "\n")
            outf.flush()
    sh(["git", "-C", "/repo", "worktree", "remove", "--force", w])
    shutil.rmtree(h, ignore_errors=True)


def probe(w, h, base):
    """tie 2 of every property against the mutant in worktree w"""
    env = dict(GOENV, GOFLAGS="-mod=mod -modfile=" + os.path.join(h, "go.mod"), GOMEMLIMIT="6GiB")
    run = os.path.join(h, "run")
    rc, o = sh(["go", "build", "-o", run, "./cmd/run"], cwd=HARN, env=env, timeout=900)
    if rc != 0:
        return "caught", "harness-build", ""
    # tie 1: would the regenerated facts / translated functions change?
    fd = os.path.join(h, "facts")
    os.makedirs(fd, exist_ok=True)
    sh([os.path.join(HARN, "bin", "extract"), "-repo", w, "-out", os.path.join(fd, "Facts.lean"), "-funcs", os.path.join(fd, "Funcs.lean")], cwd=HARN)
    facts = []
    for i, x in enumerate(("Facts.lean", "Funcs.lean")):
        p = os.path.join(fd, x)
        t = open(p).read() if os.path.exists(p) else ""
        if t != base[i]:
            facts.append(x.split(".")[0])
    by = []
    for p in PROPS:
        if not PCFG[p].get("harness", True):
            continue
        d = os.path.join(h, "out_" + p)
        shutil.rmtree(d, ignore_errors=True)
        rc, o = sh(["bash", "-c", "ulimit -v 16000000; exec %s -prop %s -tier quick -seed 1 -out %s" % (run, p, d)], cwd=HARN, env=env, timeout=1200)
        if rc == 3 and os.path.exists(os.path.join(d, "watchdog.json")):
            by.append(p + ":watchdog"); continue
        if rc != 0:
            by.append(p + ":harness-rc%d" % rc); continue
        st = json.load(open(os.path.join(d, "stats.json")))
        if [v for v in st["violations"] if vkey(v) not in KNOWN]:
            by.append(p + ":predicate"); continue
        with open(os.path.join(d, "script.txt"), "rb") as fin, open(os.path.join(d, "model.txt"), "wb") as fout:
            try:
                pr = subprocess.run([os.path.join(LEAN, ".lake", "build", "bin", "slimdriver")], stdin=fin, stdout=fout, stderr=subprocess.PIPE, timeout=1200)
            except subprocess.TimeoutExpired:
                by.append(p + ":driver-timeout"); continue
        a = open(os.path.join(d, "impl.txt"), "rb").read()
        b = open(os.path.join(d, "model.txt"), "rb").read()
        if a != b:
            by.append(p + ":diff")
        shutil.rmtree(d, ignore_errors=True)
    return ("caught" if by else "uncaught"), ",".join(by), "+".join(facts)


def main():
    ap = argparse.ArgumentParser()
    ap.add_argument("cmd", choices=["run", "summary", "list"])
    ap.add_argument("--workers", type=int, default=12)
    ap.add_argument("--only", default="")
    ap.add_argument("--out", default=os.path.join(ROOT, "mutants", "results.tsv"))
    ap.add_argument("--sample", type=int, default=0, help="take every k-th mutant only")
    a = ap.parse_args()
    if a.cmd == "summary":
        return summary(a.out)
    os.makedirs(os.path.dirname(a.out), exist_ok=True)
    os.makedirs(SCR, exist_ok=True)
    rc, o = sh(["go", "build", "-o", os.path.join(HARN, "bin", "mutate"), "./cmd/mutate"], cwd=HARN)
    rc2, o2 = sh(["go", "build", "-o", os.path.join(HARN, "bin", "extract"), "./cmd/extract"], cwd=HARN)
    if rc or rc2:
        print(o, o2); return 2
    done = set()
    if os.path.exists(a.out):
        for l in open(a.out):
            done.add(l.split("\t")[0])
    q = queue.Queue()
    cnt = 0
    for f in FILES:
        rc, o = sh([os.path.join(HARN, "bin", "mutate"), "-file", os.path.join("/repo", f), "-list"])
        for l in o.splitlines():
            n, line, desc = l.split("\t")
            mid = "%s#%s" % (f, n)
            if a.only and not re.search(a.only, mid + " " + desc):
                continue
            cnt += 1
            if a.sample and cnt % a.sample:
                continue
            if mid in done:
                continue
            q.put((mid, f, int(n), int(line), desc))
    if a.cmd == "list":
        print(q.qsize(), "mutants to do"); return 0
    print(q.qsize(), "mutants to do", flush=True)
    base = baseline_facts()
    lock = threading.Lock()
    with open(a.out, "a") as outf:
        ts = [threading.Thread(target=worker, args=(k, q, lock, outf, base)) for k in range(a.workers)]
        for t in ts: t.start()
        for t in ts: t.join()
    summary(a.out)


def summary(path):
    rows = [l.rstrip("\n").split("\t") for l in open(path)]
    c = {}
    for r in rows:
        c[r[4]] = c.get(r[4], 0) + 1
    print("mutants:", len(rows), c)
    surv = [r for r in rows if r[4] in ("caught", "uncaught")]
    if surv:
        print("survive the unit tests: %d; caught by tie 2: %d (%.1f%%); uncaught: %d (of which facts/funcs change: %d)" % (
            len(surv), sum(r[4] == "caught" for r in surv), 100.0 * sum(r[4] == "caught" for r in surv) / len(surv),
            sum(r[4] == "uncaught" for r in surv), sum(r[4] == "uncaught" and r[6] != "" for r in surv)))
    for r in rows:
        if r[4] == "uncaught":
            print("UNCAUGHT", r[0], "line", r[2], r[3], ("[tie1: %s changes]" % r[6]) if r[6] else "")


if __name__ == "__main__":
    sys.exit(main() or 0)
