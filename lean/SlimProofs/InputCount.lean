import SlimProofs.InputCore
import SlimProofs.BuildKept
import SlimProofs.SizeLabels
/-
  SlimProofs.InputCount — counters of a built trie bounded by the INPUT of `build`:

    build_nodes_le      : t.nodes.size ≤ 2 * keys.length        (the loop's fuel: one node per step)
    labelBits_le        : ShapeOK t → labelBits t ≤ 257 * t.nodes.size
    build_elts_le       : es.length ≤ t.nodes.size ∧ es.flatten.length ≤ total value bytes
-/

namespace InputCount

open BuildInv BuildShape LeafCount Refine

/-- total number of bytes of a list of byte strings -/
def totalLen (l : List Bytes) : Nat := (l.map List.length).sum

/-! ### node count -/

theorem buildStep_nodes {c : BCtx} {st st' : BSt} {o : Subset}
    (hstep : buildStep c st o = .ok st') : st'.nodes.size = st.nodes.size + 1 := by
  by_cases hleaf : o.e - o.s = 1
  · rw [buildStep_leaf_eq c st o hleaf] at hstep
    cases hstep
    simp
  · rw [buildStep_inner_eq c st o hleaf _ rfl _ rfl] at hstep
    generalize (st.isBig && decide (prefCnt c o.s o.e (minLcp c o.s o.e) > 10)) = goBig at hstep
    generalize (if goBig = true then minLcp c o.s o.e - minLcp c o.s o.e % 2
      else minLcp c o.s o.e) = ws at hstep
    split at hstep
    · cases hstep
    split at hstep
    · cases hstep
    cases hstep
    simp

theorem buildLoop_nodes (c : BCtx) (fuel i : Nat) (st st' : BSt)
    (h : buildLoop c fuel i st = .ok st') : st'.nodes.size ≤ st.nodes.size + fuel := by
  induction fuel generalizing i st with
  | zero =>
    simp only [buildLoop] at h
    split at h
    · cases h
    · cases h; omega
  | succ fuel ih =>
    simp only [buildLoop] at h
    split at h
    · next hi =>
      split at h
      · next st2 hst =>
        have := ih _ _ h
        have := buildStep_nodes hst
        omega
      · cases h
    · cases h; omega

/-- a built trie has at most two nodes per key -/
theorem build_nodes_le (keys : List Bytes) (vals : Option (List Bytes)) (opt : Opt) (t : Trie1)
    (hb : build keys vals opt = .ok t) (hne : keys ≠ []) : t.nodes.size ≤ 2 * keys.length := by
  obtain ⟨_, _, st, hst, rfl⟩ := build_ok_elim hb hne
  have := buildLoop_nodes _ _ _ _ _ hst
  simpa [trieOf, initSt] using this

/-! ### label bits -/

theorem labelBits_le {t : Trie1} (hs : ShapeOK t) : labelBits t ≤ 257 * t.nodes.size := by
  have h1 := SizeFields.sizes_sum_le hs
  have h2 : SizeFields.bigCount t ≤ (eInners t).length := by
    unfold SizeFields.bigCount; exact List.countP_le_length
  have h3 := eInners_length_le t
  unfold labelBits
  omega

/-! ### leaf values -/

theorem sum_filter_map_le {α : Type} (l : List α) (p : α → Bool) (f : α → Nat) :
    ((l.filter p).map f).sum ≤ (l.map f).sum := by
  induction l with
  | nil => simp
  | cons a l ih =>
    rw [List.filter_cons]
    split <;> simp only [List.map_cons, List.sum_cons] <;> omega

theorem build_elts_le (keys : List Bytes) (vs : List Bytes) (opt : Opt) (t : Trie1)
    (hb : build keys (some vs) opt = .ok t) (hne : keys ≠ []) :
    ∀ es, t.elts = some es → es.length ≤ t.nodes.size ∧ es.flatten.length ≤ totalLen vs := by
  intro es he
  have hs := build_shape keys (some vs) opt t hb hne
  have helts := build_elts keys (some vs) opt t hb hne
  have hlen := build_vals_length keys vs opt t hb hne
  have hperm := build_leaf_perm keys (some vs) opt t hb hne
  constructor
  · rw [hs.elts es he, hs.leafCnt]
    have := SizeFields.nodes_eq_leaves_inners t
    omega
  · rw [he] at helts
    simp only [Option.map_some, Option.some.injEq] at helts
    subst helts
    rw [← sum_map_length, List.map_map]
    have h1 : ((t.leafKeyIdx.toList).map (List.length ∘ fun i => vs.getD i [])).sum
        = (((List.range keys.length).filter
            (keptAt (keepMask keys.length (some vs) opt.dedup))).map
              (List.length ∘ fun i => vs.getD i [])).sum :=
      (hperm.map _).sum_nat
    rw [h1]
    refine Nat.le_trans (sum_filter_map_le _ _ _) ?_
    rw [← hlen]
    have := SizeShort.map_range_getD vs List.length []
    unfold totalLen
    rw [← this]
    exact Nat.le_refl _

end InputCount
