import SlimModel.Slim
/-
  SlimModel.Index — package `index` (index/index.go): a default-option SlimTrie over `encode.I64`
  offsets plus a caller-supplied `DataReader`.  The reader of property C12 verifies the record
  key: `Read(offset, key)` looks for `key` among the records stored at `offset`.
-/
namespace Index

structure Record where
  key : Bytes
  offset : Int
  value : Bytes
  deriving Repr, DecidableEq

/-- `encode.I64{}.Encode` : 8 bytes little endian two's complement -/
def encI64 (v : Int) : Bytes := leBytes 8 (v % 2 ^ 64).toNat

/-- a key-verifying `DataReader` over the records -/
def read (recs : List Record) (offset : Int) (key : Bytes) : Option Bytes :=
  (recs.find? (fun r => r.offset == offset && r.key == key)).map (·.value)

structure SlimIndex where
  t1 : Trie1
  msg : SlimMsg
  recs : List Record

/-- `NewSlimIndex`: `trie.NewSlimTrie(encode.I64{}, keys, offsets)` with default options -/
def new (recs : List Record) : Except Err SlimIndex := do
  let t ← build (recs.map (·.key)) (some (recs.map (fun r => encI64 r.offset))) {}
  return { t1 := t, msg := Slim.encode t, recs := recs }

def lookup (si : SlimIndex) (r : Except Err (Option (Option Bytes))) (key : Bytes) :
    Except Err (Option Bytes) := do
  match ← r with
  | none => return none
  | some none => .error (.panic "interface conversion: interface {} is nil, not int64")
  | some (some b) => return read si.recs (Slim.leSigned b) key

/-- `SlimIndex.Get` -/
def get (si : SlimIndex) (v : View) (key : Bytes) : Except Err (Option Bytes) :=
  lookup si (_root_.get v key) key

/-- `SlimIndex.RangeGet` -/
def rangeGet (si : SlimIndex) (v : View) (key : Bytes) : Except Err (Option Bytes) :=
  lookup si (_root_.rangeGet v key) key

end Index
