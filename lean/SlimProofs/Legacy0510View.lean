import SlimProofs.LegacyRoundTrip
import SlimProofs.LegacySelect
import SlimProofs.Refine
import SlimProofs.Transport
/-
  SlimProofs.Legacy0510View — C06, view half for 0.5.10 / 0.5.11 streams: the message the loader
  ends up with, `wordSelectMsg (Slim.encodeCreator t) u` (today's message except that the select
  tables of the two prefix position bitmaps hold word indexes, and the retired fields are kept as
  unknown bytes `u`), is read exactly like today's message.

  * `getNode_wordSelect`      `getNode` returns the same node records (`ShapeOK t`)
  * `view_wordSelect_*`       leaf bytes, flags and fuel are the same fields
  * `initLevels_wordSelect`   the level table does not read a select table
  * `viewSim_loaded0510`      hence the loaded view simulates the record-level view

  Proof of `getNode_wordSelect`: the inner / leaf case analysis of `SlimProofs.Refine` redone on
  the loaded message; every field but the two position bitmaps is the same field, and on those
  `select32R64` returns the element boundaries by `Legacy.select_positions_old`.
-/

namespace Legacy0510

open Bits Slim Refine Legacy LegacyWrite

/-! ### the fields of the loaded message -/

section fields
variable (m : SlimMsg) (u : Bytes)

theorem ws_nodeTypeBM : (wordSelectMsg m u).nodeTypeBM = m.nodeTypeBM := rfl
theorem ws_inners : (wordSelectMsg m u).inners = m.inners := rfl
theorem ws_bigInnerCnt : (wordSelectMsg m u).bigInnerCnt = m.bigInnerCnt := rfl
theorem ws_leaves : (wordSelectMsg m u).leaves = m.leaves := rfl
theorem ws_innerFrom (i : Nat) : innerFrom (wordSelectMsg m u) i = innerFrom m i := rfl
theorem ws_innerPrefixes :
    (wordSelectMsg m u).innerPrefixes = m.innerPrefixes.map
      (fun ips => { ips with positionBM := ips.positionBM.map wordIndexSelect }) := rfl
theorem ws_leafPrefixes : (wordSelectMsg m u).leafPrefixes = m.leafPrefixes.map oldLeafPrefixes := rfl

end fields

/-! ### the leaf case -/

theorem getLeafPrefix_wordSelect {t : Trie1} (hs : ShapeOK t) (u : Bytes) (id ith : Nat)
    (lp : Option Bytes) (hn : t.nodes[id]? = some (.leaf ith lp)) :
    getLeafPrefix (wordSelectMsg (encodeCreator t) u) (leavesBefore t.nodes id) = .ok lp := by
  have hq : (eLeafLps t)[leavesBefore t.nodes id]? = some lp := by
    rw [leavesBefore_eq]
    exact getElem?_filterMap_take leafOf _ id (.leaf ith lp) lp
      (by rw [Array.getElem?_toList]; exact hn) rfl
  cases hl : t.opt.leaf with
  | false =>
    have hnone : lp = none := by
      cases lp with
      | none => rfl
      | some b => have := (hs.leafPref id ith b hn).1; rw [hl] at this; cases this
    rw [hnone]
    apply getLeafPrefix_off
    rw [ws_leafPrefixes, enc_leafPrefixes]; simp [eLps, hl]
  | true =>
    have hlps : (wordSelectMsg (encodeCreator t) u).leafPrefixes = some
        { presenceBM := some (newBM (eLeafIdx t) (eLeafLps t).length "r64")
          positionBM := some (wordIndexSelect
            (newBM (stepToPos ((eLeafPs t).map List.length)) 0 "s32"))
          bytes := (eLeafPs t).flatten } := by
      rw [ws_leafPrefixes, enc_leafPrefixes]; simp [eLps, hl, oldLeafPrefixes]
    have hqlt : leavesBefore t.nodes id < (eLeafLps t).length := (List.getElem?_eq_some_iff.mp hq).1
    have hcap := ofIdx_capa_le (eLeafIdx t) (eLeafLps t).length
    obtain ⟨w, r, hw, hr, hrank, hbit⟩ := inline_rank (ofIdx (eLeafIdx t) (eLeafLps t).length) false
      (leavesBefore t.nodes id) (by omega)
    have hqq : ∀ i a, (eLeafLps t)[i]? = some a → ((eLeafLps t).getD i none).isSome = a.isSome := by
      intro i a h; rw [List.getD_eq_getElem?_getD, h]; rfl
    have hbit' : w.testBit (leavesBefore t.nodes id % 64) = lp.isSome := by
      rw [hbit, getBit_ofIdx _ _ _ (by omega)]
      exact mem_filter_range_iff _ Option.isSome _ hqq _ lp hq
    cases lp with
    | none =>
      exact getLeafPrefix_absent _ _ _ _ w hlps rfl hw (by rw [hbit']; rfl)
    | some b =>
      have hk : (eLeafPs t)[(((eLeafLps t).take (leavesBefore t.nodes id)).filterMap _root_.id).length]?
          = some b :=
        getElem?_filterMap_take _root_.id _ _ (some b) b hq rfl
      have hrank' : r + popcount (w % 2 ^ (leavesBefore t.nodes id % 64))
          = (((eLeafLps t).take (leavesBefore t.nodes id)).filterMap _root_.id).length := by
        have hidx : eLeafIdx t = (List.range (eLeafLps t).length).filter
            (fun i => ((eLeafLps t).getD i none).isSome) := rfl
        rw [hrank, cnt_getBit_ofIdx _ _ _ (by omega),
          eraseDups_of_asc (l := eLeafIdx t) (by rw [hidx]; exact asc_filter_range _ _), hidx,
          length_filter_lt_filter_range _ Option.isSome _ hqq _ (by omega),
          List.length_filterMap_eq_countP]
        rfl
      have hklt := (List.getElem?_eq_some_iff.mp hk).1
      apply getLeafPrefix_present _ _ _ _ _ w r _ _ b hlps rfl hw (by rw [hbit']; rfl) hr rfl
      · rw [hrank']
        exact select_positions_old _ (eLeafPs_pos hs) _ (by rw [List.length_map]; exact hklt)
      · exact sliceBytes_flatten _ _ b hk

theorem getNode_wordSelect_leaf {t : Trie1} (hs : ShapeOK t) (u : Bytes) (id ith : Nat)
    (lp : Option Bytes) (hn : t.nodes[id]? = some (.leaf ith lp)) :
    getNode (wordSelectMsg (encodeCreator t) u) id = .ok (.leaf ith lp) := by
  have hid : id < t.nodes.size := (Array.getElem?_eq_some_iff.mp hn).1
  have hrank := rank_nodeType t id _ hn
  have hsum := leaves_add_inners t.nodes id (by omega)
  have hord := hs.leafOrd id ith lp hn
  have hq : id - (innersBefore t.nodes id).length = leavesBefore t.nodes id := by omega
  have := getNode_leaf_of (wordSelectMsg (encodeCreator t) u) id _ _ lp
    (by rw [ws_nodeTypeBM]; exact enc_nodeTypeBM' t hs.nonempty) hrank
    (by rw [hq]; exact getLeafPrefix_wordSelect hs u id ith lp hn)
  rw [this, hq, hord]

/-! ### the inner case -/

theorem getNode_wordSelect_inner {t : Trie1} (hs : ShapeOK t) (u : Bytes) (id : Nat) (r : InnerRec)
    (hn : t.nodes[id]? = some (.inner r)) :
    getNode (wordSelectMsg (encodeCreator t) u) id = .ok (.inner r) := by
  have hrank := rank_nodeType t id _ hn
  have hr := inner_index t id r hn
  generalize hm : (innersBefore t.nodes id).length = m at hrank hr
  have hfrom : innerFrom (wordSelectMsg (encodeCreator t) u) m = _ :=
    (ws_innerFrom _ u m).trans (innerFrom_encode hs m r hr)
  have hlabels := labels_encode hs m r hr
  obtain ⟨b0, hfc⟩ := rank128_encode hs m r hr
  have hfirst : (((eInners t).take m).map (fun r => r.labels.length)).sum + 1 = r.firstChild := by
    rw [hs.firstChild id r hn, innersBefore_eq_take t id, hm]; omega
  have hbig : decide (m < (wordSelectMsg (encodeCreator t) u).bigInnerCnt) = r.big := by
    rw [ws_bigInnerCnt, enc_bigInnerCnt]
    have := rec_big hs hr
    cases hb : r.big with
    | true => simp [this.mp hb]
    | false =>
      have : ¬ m < t.bigCnt := fun h => by rw [this.mpr h] at hb; cases hb
      simp [this]
  have hnt : (wordSelectMsg (encodeCreator t) u).nodeTypeBM
      = some (newBM (eInnerIdx t) t.nodes.size "r64") := by
    rw [ws_nodeTypeBM]; exact enc_nodeTypeBM' t hs.nonempty
  have hinn : (wordSelectMsg (encodeCreator t) u).inners = some (eInnersBM t) := by
    rw [ws_inners]; exact enc_inners t
  have hips : (wordSelectMsg (encodeCreator t) u).innerPrefixes
      = some { eIps t with positionBM := (eIps t).positionBM.map wordIndexSelect } := by
    rw [ws_innerPrefixes, enc_innerPrefixes]; rfl
  have hprefOK := rec_pref hs hr
  have hfinal : ∀ p, p = r.pref →
      Node.inner ⟨decide (m < (wordSelectMsg (encodeCreator t) u).bigInnerCnt),
        labelsOf (if (subOf (eMostUsed t) (eShortSize t) r).2.2 then some (bm17 r.labels) else none)
          (eInnersBM t).words (baseOf t m) (subOf (eMostUsed t) (eShortSize t) r).2.1,
        (((eInners t).take m).map (fun r => r.labels.length)).sum + 1,
        p⟩ = Node.inner r := by
    intro p hp
    rw [hlabels, hfirst, hbig, hp]
  by_cases hcnt : (eIps t).eltCnt = 0
  · have hp : hasPref r = false := by
      cases h : hasPref r with
      | false => rfl
      | true =>
        have := prefIdx_pos_of_hasPref t m r hr h
        rw [eIps_eltCnt] at hcnt; omega
    rw [getNode_inner_nopref _ id m _ _ _ _ b0 _ _ _ hnt hrank hfrom hinn hfc hips hcnt]
    rw [hfinal _ (pref_none_of_not_hasPref r hp).symm]
  · obtain ⟨w, hw, hbit, b1, hrk⟩ := pref_presence t m r hr
    cases hp : hasPref r with
    | false =>
      rw [hp] at hbit
      rw [getNode_inner_absent _ id m _ _ _ w _ b0 _ _ _ _ hnt hrank hfrom hinn hfc hips hcnt
        (eIps_presenceBM t) hw hbit]
      rw [hfinal _ (pref_none_of_not_hasPref r hp).symm]
    | true =>
      rw [hp] at hbit
      cases hi : t.opt.inner with
      | true =>
        cases hpr : r.pref with
        | none => unfold hasPref at hp; rw [hpr] at hp; cases hp
        | step n => rw [hpr] at hprefOK; have := hprefOK.1; rw [hi] at this; cases this
        | stored ns =>
          rw [hpr] at hprefOK
          rw [countP_hasPref_stored hs hi m] at hrk
          have hk : (eStoredPs t)[(((eInners t).take m).filterMap Refine.storedOf).length]?
              = some (bitstrOf ns) :=
            getElem?_filterMap_take Refine.storedOf _ m r _ hr (by unfold Refine.storedOf; rw [hpr])
          have hklt := (List.getElem?_eq_some_iff.mp hk).1
          have hpos : ({ eIps t with positionBM := (eIps t).positionBM.map wordIndexSelect }
              : VLenArrayMsg).positionBM
              = some (wordIndexSelect
                  (newBM (stepToPos ((eStoredPs t).map List.length)) 0 "s32")) := by
            unfold eIps; rw [if_pos hi]; rfl
          have hbytes : (eIps t).bytes = (eStoredPs t).flatten := by
            unfold eIps; rw [if_pos hi]
          have hsel := select_positions_old _ (eStoredPs_pos t) _
            (by rw [List.length_map]; exact hklt)
          have hslice := sliceBytes_flatten _ _ _ hk
          rw [← hbytes] at hslice
          have hne : (bitstrOf ns).isEmpty = false := by
            have := bitstrOf_ne_nil ns
            cases h : bitstrOf ns with
            | nil => exact absurd h this
            | cons _ _ => rfl
          rw [getNode_inner_stored _ id m _ _ _ w _ _ _ _ b0 b1 _ _ _ _ _ _ hnt hrank hfrom
            hinn hfc hips hcnt (eIps_presenceBM t) hw hbit hrk hpos hsel hslice hne]
          rw [hfinal _ (by rw [hpr, bitstrNibs_bitstrOf ns hprefOK.2.2])]
      | false =>
        cases hpr : r.pref with
        | none => unfold hasPref at hp; rw [hpr] at hp; cases hp
        | stored ns => rw [hpr] at hprefOK; have := hprefOK.1; rw [hi] at this; cases this
        | step n =>
          rw [hpr] at hprefOK
          rw [countP_hasPref_step hs hi m] at hrk
          have hk : ((eInners t).filterMap stepOf)[(((eInners t).take m).filterMap stepOf).length]?
              = some [UInt8.ofNat (n / 256), UInt8.ofNat (n % 256)] :=
            getElem?_filterMap_take stepOf _ m r _ hr (by unfold stepOf; rw [hpr]; rfl)
          have hpos : ({ eIps t with positionBM := (eIps t).positionBM.map wordIndexSelect }
              : VLenArrayMsg).positionBM = none := by
            unfold eIps; rw [if_neg (by rw [hi]; simp)]; rfl
          have hbytes : (eIps t).bytes = ((eInners t).filterMap stepOf).flatten := by
            unfold eIps; rw [if_neg (by rw [hi]; simp)]
          have hlen2 : ∀ p ∈ (eInners t).filterMap stepOf, p.length = 2 := by
            intro p hp'
            simp only [List.mem_filterMap] at hp'
            obtain ⟨r', _, hr'⟩ := hp'
            unfold stepOf at hr'
            split at hr'
            · simp only [Option.some.injEq] at hr'; subst hr'; rfl
            · cases hr'
          obtain ⟨hy0, hy1⟩ := flatten_pair_getElem? _ hlen2 _ _ _ hk
          rw [← hbytes] at hy0 hy1
          rw [getNode_inner_step _ id m _ _ _ w _ _ b0 b1 _ _ _ _ _ _ hnt hrank hfrom
            hinn hfc hips hcnt (eIps_presenceBM t) hw hbit hrk hpos hy0 hy1]
          rw [hfinal _ (by rw [hpr, decStep_encStep n hprefOK.2.2])]

end Legacy0510

open Legacy0510 Legacy Refine in
/-- the loaded 0.5.10 / 0.5.11 message decodes to the record array -/
theorem getNode_loaded0510 (t : Trie1) (hs : ShapeOK t) (u : Bytes) (id : Nat)
    (hid : id < t.nodes.size) :
    Slim.getNode (wordSelectMsg (Slim.encodeCreator t) u) id = .ok t.nodes[id] := by
  have hn : t.nodes[id]? = some t.nodes[id] := Array.getElem?_eq_getElem hid
  generalize t.nodes[id] = n at hn
  cases n with
  | inner r => exact getNode_wordSelect_inner hs u id r hn
  | leaf ith lp => exact getNode_wordSelect_leaf hs u id ith lp hn

open Legacy Refine in
/-- C06 (view): `getNode` reads the loaded message exactly like today's message -/
theorem getNode_wordSelect (t : Trie1) (hs : ShapeOK t) (u : Bytes) (id : Nat)
    (hid : id < t.nodes.size) :
    Slim.getNode (wordSelectMsg (Slim.encodeCreator t) u) id
      = Slim.getNode (Slim.encodeCreator t) id := by
  have hne : t.nodes.size ≠ 0 := by have := hs.nonempty; omega
  rw [getNode_loaded0510 t hs u id hid, ← encode_eq t hne, getNode_encode t hs id hid]

/-! ### the rest of the view: the same fields -/

namespace Legacy0510

open Slim Legacy LegacyWrite Transport

theorem view_wordSelect_leafBytes (m : SlimMsg) (u : Bytes) :
    (Slim.view (wordSelectMsg m u)).leafBytes = (Slim.view m).leafBytes := rfl

theorem view_wordSelect_isEmpty (m : SlimMsg) (u : Bytes) :
    (Slim.view (wordSelectMsg m u)).isEmpty = (Slim.view m).isEmpty := rfl

theorem view_wordSelect_nodeCnt (m : SlimMsg) (u : Bytes) :
    (Slim.view (wordSelectMsg m u)).nodeCnt = (Slim.view m).nodeCnt := rfl

theorem view_wordSelect_leafPrefixesOn (m : SlimMsg) (u : Bytes) :
    (Slim.view (wordSelectMsg m u)).leafPrefixesOn = (Slim.view m).leafPrefixesOn := by
  show (m.leafPrefixes.map oldLeafPrefixes).isSome = m.leafPrefixes.isSome
  cases m.leafPrefixes <;> rfl

theorem view_wordSelect_scanOK (m : SlimMsg) (u : Bytes) :
    (Slim.view (wordSelectMsg m u)).scanOK = (Slim.view m).scanOK := by
  simp only [Slim.view, ws_innerPrefixes, ws_leafPrefixes]
  cases m.innerPrefixes with
  | none => rfl
  | some ips =>
    cases m.leafPrefixes with
    | none => rfl
    | some lps =>
      simp only [Option.map_some]
      cases ips.positionBM <;> rfl

/-- `vlenGet` on the `Leaves` array: the loader leaves that array as today's writer makes it -/
theorem vlenGet_wordSelect (m : SlimMsg) (u : Bytes) (va : VLenArrayMsg)
    (h : m.leaves = some va) : (wordSelectMsg m u).leaves = some va := h

/-! ### `initLevels` / `Stat` read no select table -/

theorem initLevels_walk_wordSelect (m : SlimMsg) (u : Bytes) (nt : BitmapMsg) (ti : Nat) :
    ∀ fuel id acc, initLevels.walk (wordSelectMsg m u) nt ti fuel id acc
      = initLevels.walk m nt ti fuel id acc := by
  intro fuel
  induction fuel with
  | zero => intro id acc; rfl
  | succ fuel ih =>
    intro id acc
    unfold initLevels.walk
    simp only [ih]
    rfl

theorem initLevels_wordSelect (m : SlimMsg) (u : Bytes) :
    initLevels (wordSelectMsg m u) = initLevels m := by
  unfold initLevels
  simp only [ws_nodeTypeBM, ws_inners, initLevels_walk_wordSelect]

theorem stat_wordSelect (m : SlimMsg) (u : Bytes) (lv : List Level) :
    stat (wordSelectMsg m u) lv = stat m lv := rfl

/-! ### the simulation -/

/-- The view of the loaded 0.5.10 / 0.5.11 message simulates the record-level view, given that
    today's encoding does (`hsim`, from `Transport.viewSim_encode`) and the shape invariant for
    non-empty tries. -/
theorem viewSim_wordSelect (t : Trie1) (u : Bytes)
    (hsim : ViewSim t.view (Slim.view (Slim.encode t)) t.nodes.size)
    (hs : t.nodes.size ≠ 0 → ShapeOK t) :
    ViewSim t.view (Slim.view (wordSelectMsg (Slim.encode t) u)) t.nodes.size where
  node := by
    intro id hid
    have hne : t.nodes.size ≠ 0 := by omega
    rw [← hsim.node id hid]
    show Slim.getNode (wordSelectMsg (Slim.encode t) u) id = Slim.getNode (Slim.encode t) id
    rw [Refine.encode_eq t hne]
    exact getNode_wordSelect t (hs hne) u id hid
  out := hsim.out
  leaf := hsim.leaf
  isEmpty := hsim.isEmpty
  lpOn := by
    intro h
    rw [view_wordSelect_leafPrefixesOn]; exact hsim.lpOn h
  scanOK := by
    intro h
    rw [view_wordSelect_scanOK]; exact hsim.scanOK h
  cnt := hsim.cnt

/-- `viewSim_loaded0510`: for a trie with the shape invariant and the encoding facts -/
theorem viewSim_loaded0510 (t : Trie1) (hs : ShapeOK t) (hf : EncodeFacts t) (u : Bytes) :
    ViewSim t.view (Slim.view (wordSelectMsg (Slim.encodeCreator t) u)) t.nodes.size := by
  have hne : t.nodes.size ≠ 0 := by have := hs.nonempty; omega
  rw [← Refine.encode_eq t hne]
  exact viewSim_wordSelect t u (viewSim_encode t hf) (fun _ => hs)

end Legacy0510

#print axioms getNode_wordSelect
#print axioms getNode_loaded0510
#print axioms Legacy0510.viewSim_loaded0510
#print axioms Legacy0510.initLevels_wordSelect
