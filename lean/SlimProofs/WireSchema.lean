import SlimProofs.WireArray
import SlimModel.WireSchema
/-
  SlimProofs.WireSchema — the decoders consume exactly the (number, wire type) pairs of the struct
  tags, and decline everything else; field numbers are pairwise distinct.
-/
namespace Wire

theorem slimKnown_schema (fno wire : Nat) : slimKnown fno wire = accepts slimSchema fno wire := by
  simp only [slimKnown, accepts, slimSchema, List.any_cons, List.any_nil]
  by_cases h0 : wire = 0 <;> by_cases h2 : wire = 2 <;> simp [h0, h2] <;> grind

theorem array32Known_schema (fno wire : Nat) : array32Known fno wire = accepts array32Schema fno wire := by
  simp only [array32Known, accepts, array32Schema, List.any_cons, List.any_nil]
  by_cases h0 : wire = 0 <;> by_cases h2 : wire = 2 <;> simp [h0, h2] <;> grind

set_option linter.unusedSimpArgs false in
theorem bitmapH_unknown (acc : BitmapMsg) (fno wire : Nat) (v : WVal)
    (hk : accepts bitmapSchema fno wire = false) (hf : Fits wire v) : bitmapH acc fno v = .ok none := by
  simp only [accepts, bitmapSchema, List.any_cons, List.any_nil] at hk
  rcases hf with ⟨rfl, w, rfl⟩ | ⟨rfl, p, rfl⟩ | ⟨h0, h2, rfl⟩
  · unfold bitmapH; split <;> simp_all [repU64, repI32, repVals]
  · unfold bitmapH; split <;> simp_all [repU64, repI32, repVals]
  · unfold bitmapH; split <;> simp_all [repU64, repI32, repVals]

set_option linter.unusedSimpArgs false in
theorem vlenH_unknown (acc : VLenArrayMsg) (fno wire : Nat) (v : WVal)
    (hk : accepts vlenArraySchema fno wire = false) (hf : Fits wire v) : vlenH acc fno v = .ok none := by
  simp only [accepts, vlenArraySchema, List.any_cons, List.any_nil] at hk
  rcases hf with ⟨rfl, w, rfl⟩ | ⟨rfl, p, rfl⟩ | ⟨h0, h2, rfl⟩
  · unfold vlenH; split <;> simp_all [scalarI32, msgF, bytesF]
  · unfold vlenH; split <;> simp_all [scalarI32, msgF, bytesF]
  · unfold vlenH; split <;> simp_all [scalarI32, msgF, bytesF]

set_option linter.unusedSimpArgs false in
theorem bitsH_unknown (acc : BitsMsg) (fno wire : Nat) (v : WVal)
    (hk : accepts bitsSchema fno wire = false) (hf : Fits wire v) : bitsH acc fno v = .ok none := by
  simp only [accepts, bitsSchema, List.any_cons, List.any_nil] at hk
  rcases hf with ⟨rfl, w, rfl⟩ | ⟨rfl, p, rfl⟩ | ⟨h0, h2, rfl⟩
  · unfold bitsH; split <;> simp_all [scalarI32, scalarU32, repU64, repI32, repVals]
  · unfold bitsH; split <;> simp_all [scalarI32, scalarU32, repU64, repI32, repVals]
  · unfold bitsH; split <;> simp_all [scalarI32, scalarU32, repU64, repI32, repVals]

/-- Field numbers are distinct within every message. -/
theorem schema_nodup :
    ((bitmapSchema.map (·.num)).Nodup ∧ (vlenArraySchema.map (·.num)).Nodup ∧ (slimSchema.map (·.num)).Nodup ∧
      (array32Schema.map (·.num)).Nodup ∧ (bitsSchema.map (·.num)).Nodup) := by
  decide

end Wire
