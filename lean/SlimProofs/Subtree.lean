import SlimProofs.WF
/-
  SlimProofs.Subtree — subtree facts of a well-formed record array (`WF`):

  * `Subtree.QOK`             the body of `WF` for an explicit queue (`WF ↔ ∃ queue, QOK ∧ root`)
  * `Subtree.gap_first/gap_last/gap_adj`
                              the children of an inner node are ordered like their labels and the
                              kept keys of the node lie inside the children
  * `Subtree.rightMost_spec`  `rightMost` from node j ends at the leaf of the greatest kept key
                              of subset j
  * `Subtree.leftMost_spec`   `leftMost` from node j ends at the leaf of the smallest kept key

  Depends on `SlimProofs.WF` only.
-/

namespace Subtree

/-- `m` is the greatest kept index of `[s, e)` -/
def IsMaxKept (keep : List Bool) (s e m : Nat) : Prop :=
  s ≤ m ∧ m < e ∧ keptAt keep m = true ∧ ∀ t, m < t → t < e → keptAt keep t = false

/-- `m` is the smallest kept index of `[s, e)` -/
def IsMinKept (keep : List Bool) (s e m : Nat) : Prop :=
  s ≤ m ∧ m < e ∧ keptAt keep m = true ∧ ∀ t, s ≤ t → t < m → keptAt keep t = false

/-- the body of `WF` for an explicit queue -/
structure QOK (keys : List Bytes) (keep : List Bool) (t : Trie1) (queue : Array Subset) : Prop where
  size : queue.size = t.nodes.size
  node : ∀ j (hj : j < t.nodes.size), ∃ o, queue[j]? = some o ∧ SubOK keys keep o ∧
      NodeOK keys keep t.opt queue t.leafKeyIdx j o t.nodes[j]

theorem wf_iff (keys : List Bytes) (keep : List Bool) (t : Trie1) :
    WF keys keep t ↔ ∃ queue, QOK keys keep t queue ∧
      queue[0]? = some { s := 0, e := keys.length, fb := 0 } := by
  constructor
  · rintro ⟨q, h1, h2, h3⟩; exact ⟨q, ⟨h1, h3⟩, h2⟩
  · rintro ⟨q, ⟨h1, h3⟩, h2⟩; exact ⟨q, h1, h2, h3⟩

theorem QOK.lt {keys : List Bytes} {keep : List Bool} {t : Trie1} {queue : Array Subset}
    (h : QOK keys keep t queue) {j : Nat} {o : Subset} (hqj : queue[j]? = some o) :
    j < t.nodes.size := by
  have : j < queue.size := (Array.getElem?_eq_some_iff.mp hqj).1
  have := h.size
  omega

/-- the facts of node `j`, for the subset the caller already holds -/
theorem QOK.at {keys : List Bytes} {keep : List Bool} {t : Trie1} {queue : Array Subset}
    (h : QOK keys keep t queue) {j : Nat} {o : Subset} (hqj : queue[j]? = some o) :
    SubOK keys keep o ∧ ∃ hj : j < t.nodes.size,
      NodeOK keys keep t.opt queue t.leafKeyIdx j o t.nodes[j] := by
  have hj := h.lt hqj
  obtain ⟨o', ho', hsub, hnode⟩ := h.node j hj
  rw [hqj] at ho'; cases ho'
  exact ⟨hsub, hj, hnode⟩

theorem view_node (t : Trie1) (j : Nat) (hj : j < t.nodes.size) :
    t.view.node j = .ok t.nodes[j] := by
  simp [Trie1.view, hj]

theorem nodes_getElem? (t : Trie1) (j : Nat) (hj : j < t.nodes.size) (nd : Node)
    (h : t.nodes[j] = nd) : t.nodes[j]? = some nd := by
  rw [Array.getElem?_eq_some_iff]; exact ⟨hj, h⟩

/-! ### strictly ascending label lists -/

theorem asc_lt {l : List Nat} (hp : l.Pairwise (· < ·)) {a b : Nat} (ha : a < l.length)
    (hb : b < l.length) (hab : a < b) : l[a] < l[b] :=
  List.pairwise_iff_getElem.mp hp a b ha hb hab

theorem asc_le {l : List Nat} (hp : l.Pairwise (· < ·)) {a b : Nat} (ha : a < l.length)
    (hb : b < l.length) (hab : a ≤ b) : l[a] ≤ l[b] := by
  by_cases h : a = b
  · subst h; exact Nat.le_refl _
  · exact Nat.le_of_lt (asc_lt hp ha hb (by omega))

theorem asc_idx_le {l : List Nat} (hp : l.Pairwise (· < ·)) {a b : Nat} (ha : a < l.length)
    (hb : b < l.length) (h : l[a] ≤ l[b]) : a ≤ b := by
  by_cases hab : a ≤ b
  · exact hab
  · have := asc_lt hp hb ha (by omega); omega

theorem asc_idx_eq {l : List Nat} (hp : l.Pairwise (· < ·)) {a b : Nat} (ha : a < l.length)
    (hb : b < l.length) (h : l[a] = l[b]) : a = b := by
  have h1 := asc_idx_le hp ha hb (by omega)
  have h2 := asc_idx_le hp hb ha (by omega)
  omega

/-! ### the children of an inner node, abstractly

  `lab t` is the label of key `t`, `labels` the labels of the kept keys of `[s, e)`. -/

/-- `c` is the run of the keys of `[s, e)` that carry label number `k` -/
def IsRun (lab : Nat → Nat) (labels : List Nat) (s e k : Nat) (hk : k < labels.length)
    (c : Subset) : Prop :=
  s ≤ c.s ∧ c.e ≤ e ∧ c.s < c.e ∧
    ∀ t, s ≤ t → t < e → ((c.s ≤ t ∧ t < c.e) ↔ lab t = labels[k])

section gaps
variable {kept : Nat → Bool} {lab : Nat → Nat} {labels : List Nat} {s e : Nat}

theorem IsRun.lab_s {k : Nat} {hk : k < labels.length} {c : Subset}
    (h : IsRun lab labels s e k hk c) : lab c.s = labels[k] := by
  obtain ⟨h1, h2, h3, h4⟩ := h
  exact (h4 c.s h1 (by omega)).mp ⟨Nat.le_refl _, h3⟩

theorem IsRun.lab_e {k : Nat} {hk : k < labels.length} {c : Subset}
    (h : IsRun lab labels s e k hk c) : lab (c.e - 1) = labels[k] := by
  obtain ⟨h1, h2, h3, h4⟩ := h
  exact (h4 (c.e - 1) (by omega) (by omega)).mp ⟨by omega, by omega⟩

/-- no kept key before the first child -/
theorem gap_first
    (hlabels : ∀ t, s ≤ t → t < e → kept t = true → lab t ∈ labels)
    (hpw : labels.Pairwise (· < ·))
    (hmono : ∀ a b, s ≤ a → a ≤ b → b < e → lab a ≤ lab b)
    {hk : 0 < labels.length} {c : Subset} (hc : IsRun lab labels s e 0 hk c) :
    ∀ t, s ≤ t → t < c.s → kept t = false := by
  intro t h1 h2
  cases hkt : kept t with
  | false => rfl
  | true =>
    exfalso
    have hcs := hc.lab_s
    obtain ⟨hc1, hc2, hc3, hc4⟩ := hc
    obtain ⟨k', hk', hkl⟩ := List.mem_iff_getElem.mp (hlabels t h1 (by omega) hkt)
    have hle : labels[0] ≤ labels[k'] := asc_le hpw hk hk' (Nat.zero_le _)
    have hm := hmono t c.s h1 (by omega) (by omega)
    have := (hc4 t h1 (by omega)).mpr (by omega)
    omega

/-- no kept key behind the last child -/
theorem gap_last
    (hlabels : ∀ t, s ≤ t → t < e → kept t = true → lab t ∈ labels)
    (hpw : labels.Pairwise (· < ·))
    (hmono : ∀ a b, s ≤ a → a ≤ b → b < e → lab a ≤ lab b)
    {hk : labels.length - 1 < labels.length} {c : Subset}
    (hc : IsRun lab labels s e (labels.length - 1) hk c) :
    ∀ t, c.e ≤ t → t < e → kept t = false := by
  intro t h1 h2
  cases hkt : kept t with
  | false => rfl
  | true =>
    exfalso
    have hce := hc.lab_e
    obtain ⟨hc1, hc2, hc3, hc4⟩ := hc
    obtain ⟨k', hk', hkl⟩ := List.mem_iff_getElem.mp (hlabels t (by omega) h2 hkt)
    have hle : labels[k'] ≤ labels[labels.length - 1] := asc_le hpw hk' hk (by omega)
    have hm := hmono (c.e - 1) t (by omega) (by omega) h2
    have := (hc4 t (by omega) h2).mpr (by omega)
    omega

/-- consecutive children are ordered and no kept key lies between them -/
theorem gap_adj
    (hlabels : ∀ t, s ≤ t → t < e → kept t = true → lab t ∈ labels)
    (hpw : labels.Pairwise (· < ·))
    (hmono : ∀ a b, s ≤ a → a ≤ b → b < e → lab a ≤ lab b)
    {k : Nat} {hk : k < labels.length} {hk1 : k + 1 < labels.length} {c c' : Subset}
    (hc : IsRun lab labels s e k hk c) (hc' : IsRun lab labels s e (k + 1) hk1 c') :
    c.e ≤ c'.s ∧ ∀ t, c.e ≤ t → t < c'.s → kept t = false := by
  have hce := hc.lab_e
  have hcs' := hc'.lab_s
  obtain ⟨hc1, hc2, hc3, hc4⟩ := hc
  obtain ⟨hd1, hd2, hd3, hd4⟩ := hc'
  have hlt : labels[k] < labels[k + 1] := asc_lt hpw hk hk1 (by omega)
  have hord : c.e ≤ c'.s := by
    by_cases h : c.e ≤ c'.s
    · exact h
    · exfalso
      have := hmono c'.s (c.e - 1) hd1 (by omega) (by omega)
      omega
  refine ⟨hord, ?_⟩
  intro t h1 h2
  cases hkt : kept t with
  | false => rfl
  | true =>
    exfalso
    obtain ⟨k', hk', hkl⟩ := List.mem_iff_getElem.mp (hlabels t (by omega) (by omega) hkt)
    have hm1 := hmono (c.e - 1) t (by omega) (by omega) (by omega)
    have hm2 := hmono t c'.s (by omega) (by omega) (by omega)
    have hi1 : k ≤ k' := asc_idx_le hpw hk hk' (by omega)
    have hi2 : k' ≤ k + 1 := asc_idx_le hpw hk' hk1 (by omega)
    by_cases hkk : k' = k
    · subst hkk
      have := (hc4 t (by omega) (by omega)).mpr hkl.symm
      omega
    · have hkk : k' = k + 1 := by omega
      subst hkk
      have := (hd4 t (by omega) (by omega)).mpr hkl.symm
      omega

end gaps

/-! ### reading an inner node of a well-formed array -/

/-- everything the query proofs use of an inner node, with the children as `IsRun`s -/
structure InnerFacts (keys : List Bytes) (keep : List Bool) (t : Trie1) (queue : Array Subset)
    (j : Nat) (o : Subset) (r : InnerRec) (ws : Nat) : Prop where
  fb_le : o.fb ≤ ws
  pre : ∀ t, o.s ≤ t → t < o.e →
      ws ≤ (knOf keys t).length ∧ (knOf keys t).take ws = (knOf keys o.s).take ws
  pref : r.pref = prefOf t.opt (knOf keys o.s) o.fb ws
  big : r.big = true → ws % 2 = 0 ∧ o.fb % 2 = 0
  labels : ∀ t, o.s ≤ t → t < o.e → keptAt keep t = true → labelOf keys ws r.big t ∈ r.labels
  ne : 0 < r.labels.length
  pw : r.labels.Pairwise (· < ·)
  mono : ∀ a b, o.s ≤ a → a ≤ b → b < o.e → labelOf keys ws r.big a ≤ labelOf keys ws r.big b
  fc : j < r.firstChild
  kid : ∀ k (hk : k < r.labels.length), ∃ c : Subset,
      queue[r.firstChild + k]? = some c ∧ c.fb = ws + labelLen (r.labels[k]) r.big ∧
      IsRun (labelOf keys ws r.big) r.labels o.s o.e k hk c

theorem inner_facts {keys : List Bytes} {keep : List Bool} {t : Trie1} {queue : Array Subset}
    (h : QOK keys keep t queue) {j : Nat} {o : Subset} {r : InnerRec}
    (hsub : SubOK keys keep o) (hin : InnerOK keys keep t.opt queue j o r) :
    ∃ ws, InnerFacts keys keep t queue j o r ws := by
  obtain ⟨ws, hfbws, hall, hbig, hpref, hlabels, hpw, hmono, hjfc, hkids⟩ := hin
  have hmem : ∀ t, o.s ≤ t → t < o.e → keptAt keep t = true → labelOf keys ws r.big t ∈ r.labels :=
    fun t h1 h2 h3 => (hlabels _).mpr ⟨t, h1, h2, h3, rfl⟩
  refine ⟨ws, hfbws, hall, hpref, hbig, hmem, ?_, hpw, hmono, hjfc, ?_⟩
  · obtain ⟨t, h1, h2, h3⟩ := hsub.kept
    exact List.length_pos_of_mem (hmem t h1 h2 h3)
  · intro k hk
    obtain ⟨c, hc, hcfb, hcs, hce, hciff⟩ := hkids k hk
    have hclt : c.s < c.e := (h.at hc).1.lt
    exact ⟨c, hc, hcfb, hcs, hce, hclt, hciff⟩

/-! ### `rightMost` / `leftMost` -/

theorem rightMost_leaf (v : View) (fuel j ith : Nat) (lp : Option Bytes)
    (h : v.node j = .ok (.leaf ith lp)) : rightMost v (fuel + 1) j = .ok j := by
  simp only [rightMost, h, bind, Except.bind, pure, Except.pure]

theorem rightMost_inner (v : View) (fuel j : Nat) (r : InnerRec)
    (h : v.node j = .ok (.inner r)) :
    rightMost v (fuel + 1) j = rightMost v fuel (r.firstChild + r.labels.length - 1) := by
  simp only [rightMost, h, bind, Except.bind]

theorem leftMost_leaf (v : View) (fuel j ith : Nat) (lp : Option Bytes)
    (h : v.node j = .ok (.leaf ith lp)) : leftMost v (fuel + 1) j = .ok j := by
  simp only [leftMost, h, bind, Except.bind, pure, Except.pure]

theorem leftMost_inner (v : View) (fuel j : Nat) (r : InnerRec)
    (h : v.node j = .ok (.inner r)) :
    leftMost v (fuel + 1) j = leftMost v fuel r.firstChild := by
  simp only [leftMost, h, bind, Except.bind]

/-- `rightMost` from node `j` ends at the leaf of the greatest kept key of subset `j`. -/
theorem rightMost_spec {keys : List Bytes} {keep : List Bool} {t : Trie1} {queue : Array Subset}
    (h : QOK keys keep t queue) :
    ∀ n j o fuel, t.nodes.size - j ≤ n → n < fuel → queue[j]? = some o →
      ∃ id ith lp m, rightMost t.view fuel j = .ok id ∧ t.nodes[id]? = some (.leaf ith lp) ∧
        t.leafKeyIdx[ith]? = some m ∧ IsMaxKept keep o.s o.e m := by
  intro n
  induction n with
  | zero =>
    intro j o fuel h1 _ hqj
    have := h.lt hqj
    omega
  | succ n ih =>
    intro j o fuel h1 h2 hqj
    obtain ⟨hsub, hj, hnode⟩ := h.at hqj
    obtain ⟨fuel, rfl⟩ : ∃ f, fuel = f + 1 := ⟨fuel - 1, by omega⟩
    have hview := view_node t j hj
    cases hn : t.nodes[j] with
    | leaf ith lp =>
      rw [hn] at hnode hview
      obtain ⟨h1e, hidx, _⟩ := hnode
      obtain ⟨x, hx1, hx2, hx3⟩ := hsub.kept
      have hxs : x = o.s := by omega
      subst hxs
      refine ⟨j, ith, lp, o.s, rightMost_leaf _ _ _ ith lp hview, nodes_getElem? t j hj _ hn,
        hidx, Nat.le_refl _, hx2, hx3, ?_⟩
      intro t' h3 h4; omega
    | inner r =>
      rw [hn] at hnode hview
      obtain ⟨_, hin⟩ := hnode
      obtain ⟨ws, F⟩ := inner_facts h hsub hin
      have hL := F.ne
      have hfc := F.fc
      obtain ⟨c, hc, _, hrun⟩ := F.kid (r.labels.length - 1) (by omega)
      rw [rightMost_inner _ _ _ r hview]
      have hid : r.firstChild + r.labels.length - 1 = r.firstChild + (r.labels.length - 1) := by
        omega
      rw [hid]
      obtain ⟨id, ith, lp, m, hrm, hnd, hidx, hmax⟩ :=
        ih (r.firstChild + (r.labels.length - 1)) c fuel (by omega) (by omega) hc
      refine ⟨id, ith, lp, m, hrm, hnd, hidx, ?_⟩
      have hgap := gap_last (kept := keptAt keep) F.labels F.pw F.mono hrun
      obtain ⟨hr1, hr2, hr3, _⟩ := hrun
      obtain ⟨hm1, hm2, hm3, hm4⟩ := hmax
      refine ⟨by omega, by omega, hm3, ?_⟩
      intro t' h3 h4
      by_cases h5 : t' < c.e
      · exact hm4 t' h3 h5
      · exact hgap t' (by omega) h4

/-- `leftMost` from node `j` ends at the leaf of the smallest kept key of subset `j`. -/
theorem leftMost_spec {keys : List Bytes} {keep : List Bool} {t : Trie1} {queue : Array Subset}
    (h : QOK keys keep t queue) :
    ∀ n j o fuel, t.nodes.size - j ≤ n → n < fuel → queue[j]? = some o →
      ∃ id ith lp m, leftMost t.view fuel j = .ok id ∧ t.nodes[id]? = some (.leaf ith lp) ∧
        t.leafKeyIdx[ith]? = some m ∧ IsMinKept keep o.s o.e m := by
  intro n
  induction n with
  | zero =>
    intro j o fuel h1 _ hqj
    have := h.lt hqj
    omega
  | succ n ih =>
    intro j o fuel h1 h2 hqj
    obtain ⟨hsub, hj, hnode⟩ := h.at hqj
    obtain ⟨fuel, rfl⟩ : ∃ f, fuel = f + 1 := ⟨fuel - 1, by omega⟩
    have hview := view_node t j hj
    cases hn : t.nodes[j] with
    | leaf ith lp =>
      rw [hn] at hnode hview
      obtain ⟨h1e, hidx, _⟩ := hnode
      obtain ⟨x, hx1, hx2, hx3⟩ := hsub.kept
      have hxs : x = o.s := by omega
      subst hxs
      refine ⟨j, ith, lp, o.s, leftMost_leaf _ _ _ ith lp hview, nodes_getElem? t j hj _ hn,
        hidx, Nat.le_refl _, hx2, hx3, ?_⟩
      intro t' h3 h4; omega
    | inner r =>
      rw [hn] at hnode hview
      obtain ⟨_, hin⟩ := hnode
      obtain ⟨ws, F⟩ := inner_facts h hsub hin
      have hL := F.ne
      have hfc := F.fc
      obtain ⟨c, hc, _, hrun⟩ := F.kid 0 hL
      rw [leftMost_inner _ _ _ r hview]
      obtain ⟨id, ith, lp, m, hrm, hnd, hidx, hmin⟩ :=
        ih (r.firstChild + 0) c fuel (by omega) (by omega) hc
      refine ⟨id, ith, lp, m, hrm, hnd, hidx, ?_⟩
      have hgap := gap_first (kept := keptAt keep) F.labels F.pw F.mono hrun
      obtain ⟨hr1, hr2, hr3, _⟩ := hrun
      obtain ⟨hm1, hm2, hm3, hm4⟩ := hmin
      refine ⟨by omega, by omega, hm3, ?_⟩
      intro t' h3 h4
      by_cases h5 : c.s ≤ t'
      · exact hm4 t' h5 h4
      · exact hgap t' h3 (by omega)

end Subtree

/-- **`rightMost`/`leftMost` in a well-formed trie**, with the fuel that `searchID` supplies:
    from any node `j` (with subset `o` of the queue that `WF` provides) they end at the leaves of
    the greatest / smallest kept key of `o`. -/
theorem rightMost_leftMost_wf (keys : List Bytes) (keep : List Bool) (t : Trie1)
    (hwf : WF keys keep t) :
    ∃ queue : Array Subset, Subtree.QOK keys keep t queue ∧
      queue[0]? = some { s := 0, e := keys.length, fb := 0 } ∧
      ∀ j o, queue[j]? = some o →
        (∃ id ith lp m, rightMost t.view (t.view.nodeCnt + 1) j = .ok id ∧
          t.nodes[id]? = some (.leaf ith lp) ∧ t.leafKeyIdx[ith]? = some m ∧
          Subtree.IsMaxKept keep o.s o.e m) ∧
        (∃ id ith lp m, leftMost t.view (t.view.nodeCnt + 1) j = .ok id ∧
          t.nodes[id]? = some (.leaf ith lp) ∧ t.leafKeyIdx[ith]? = some m ∧
          Subtree.IsMinKept keep o.s o.e m) := by
  obtain ⟨queue, hq, hroot⟩ := (Subtree.wf_iff keys keep t).mp hwf
  refine ⟨queue, hq, hroot, ?_⟩
  intro j o hqj
  have hcnt : t.view.nodeCnt = t.nodes.size := rfl
  rw [hcnt]
  exact ⟨Subtree.rightMost_spec hq t.nodes.size j o _ (by omega) (by omega) hqj,
    Subtree.leftMost_spec hq t.nodes.size j o _ (by omega) (by omega) hqj⟩

#print axioms rightMost_leftMost_wf
