import Generated.Funcs
import SlimProps.BridgeSem.Common
import SlimModel.Slim
/-
  SlimProps.BridgeSem.GetInt — tie 1, semantic part: `GetI8/16/32/64` (trie/slimtrie_getint.go).
  See SlimProps/BridgeSem.lean for the overview.
-/

open Generated

namespace BridgeSem

/-! ### `GetI8/16/32/64` (trie/slimtrie_getint.go) -/

/-- a `w`-bit pattern read as a signed value is `leSigned` of the bytes it is made of -/
theorem toS_eq_leSigned (bs : Bytes) (w p : Nat) (hw : w = 8 * bs.length) (hp : p = leVal bs) :
    Go.toS w p = Slim.leSigned bs := by
  subst hw hp
  unfold Go.toS Slim.leSigned
  simp only
  all_goals (split <;> simp)

theorem or_shl (a b k : Nat) (h : a < 2 ^ k) : a ||| b <<< k = a + 2 ^ k * b := by
  rw [Nat.or_comm, ← Nat.shiftLeft_add_eq_or_of_lt h, Nat.shiftLeft_eq]
  rw [Nat.mul_comm, Nat.add_comm]

theorem leVal1 (b0 : UInt8) : leVal [b0] = b0.toNat := by simp [leVal]

theorem leVal2_or (b0 b1 : UInt8) : leVal [b0, b1] = b0.toNat ||| b1.toNat <<< 8 := by
  have := byte_lt b0
  rw [or_shl _ _ _ (by omega)]
  simp [leVal]

theorem leVal4_or (b0 b1 b2 b3 : UInt8) :
    leVal [b0, b1, b2, b3]
      = b0.toNat ||| b1.toNat <<< 8 ||| b2.toNat <<< 16 ||| b3.toNat <<< 24 := by
  have := byte_lt b0; have := byte_lt b1; have := byte_lt b2
  rw [or_shl _ _ 8 (by omega), or_shl _ _ 16 (by omega), or_shl _ _ 24 (by omega)]
  simp only [leVal]
  omega

theorem leVal8_or (b0 b1 b2 b3 b4 b5 b6 b7 : UInt8) :
    leVal [b0, b1, b2, b3, b4, b5, b6, b7]
      = b0.toNat ||| b1.toNat <<< 8 ||| b2.toNat <<< 16 ||| b3.toNat <<< 24 ||| b4.toNat <<< 32
        ||| b5.toNat <<< 40 ||| b6.toNat <<< 48 ||| b7.toNat <<< 56 := by
  have := byte_lt b0; have := byte_lt b1; have := byte_lt b2; have := byte_lt b3
  have := byte_lt b4; have := byte_lt b5; have := byte_lt b6
  rw [or_shl _ _ 8 (by omega), or_shl _ _ 16 (by omega), or_shl _ _ 24 (by omega),
    or_shl _ _ 32 (by omega), or_shl _ _ 40 (by omega), or_shl _ _ 48 (by omega),
    or_shl _ _ 56 (by omega)]
  simp only [leVal]
  omega

/-- a shifted byte stays inside a wider word -/
theorem shl_byte (w k : Nat) (b : UInt8) (hk : k + 8 ≤ w) :
    Go.shl w b.toNat k = b.toNat <<< k := by
  unfold Go.shl Go.wrap
  apply Nat.mod_eq_of_lt
  rw [Nat.shiftLeft_eq]
  have := byte_lt b
  calc b.toNat * 2 ^ k < 2 ^ 8 * 2 ^ k := Nat.mul_lt_mul_of_pos_right (by omega) (Nat.two_pow_pos k)
    _ = 2 ^ (k + 8) := by rw [← Nat.pow_add, Nat.add_comm]
    _ ≤ 2 ^ w := Nat.pow_le_pow_right (by omega) hk

/-- unfold conversions of bytes, list accesses and in-range shifts; leaves a `|||` of shifted bytes -/
syntax "bytes_simp" : tactic
macro_rules
  | `(tactic| bytes_simp) => `(tactic|
      simp (disch := omega) only [Go.conv, Go.or, shl_byte, Go.wrap,
        List.getD_cons_zero, List.getD_cons_succ,
        Bool.false_and, Bool.false_eq_true, if_false, Nat.reduceLeDiff, Nat.reducePow,
        Nat.shiftLeft_zero])

theorem getI8_sem (bytes : Bytes) (ith : Nat) (h : ith < bytes.length) :
    Generated.getI8 (bytes.map UInt8.toNat) ith = Slim.leSigned [bytes[ith]] := by
  unfold Generated.getI8
  refine toS_eq_leSigned [bytes[ith]] _ _ (by rfl) ?_
  rw [leVal1, List.getD_eq_getElem?_getD, List.getElem?_map, List.getElem?_eq_getElem h]
  have := byte_lt bytes[ith]
  simp only [Go.conv, Go.wrap, Option.map_some, Option.getD_some, Nat.le_refl, if_true]
  omega

theorem getI16_sem (b0 b1 : UInt8) :
    Generated.getI16 [b0.toNat, b1.toNat] = Slim.leSigned [b0, b1] := by
  unfold Generated.getI16
  refine toS_eq_leSigned [b0, b1] _ _ (by rfl) ?_
  rw [leVal2_or]
  bytes_simp
  all_goals
    generalize b0.toNat = x0; generalize b1.toNat <<< 8 = x1
    ac_rfl

theorem getI32_sem (b0 b1 b2 b3 : UInt8) :
    Generated.getI32 [b0.toNat, b1.toNat, b2.toNat, b3.toNat] = Slim.leSigned [b0, b1, b2, b3] := by
  unfold Generated.getI32
  refine toS_eq_leSigned [b0, b1, b2, b3] _ _ (by rfl) ?_
  rw [leVal4_or]
  bytes_simp
  all_goals
    generalize b0.toNat = x0; generalize b1.toNat <<< 8 = x1; generalize b2.toNat <<< 16 = x2
    generalize b3.toNat <<< 24 = x3
    ac_rfl

theorem getI64_sem (b0 b1 b2 b3 b4 b5 b6 b7 : UInt8) :
    Generated.getI64 [b0.toNat, b1.toNat, b2.toNat, b3.toNat, b4.toNat, b5.toNat, b6.toNat, b7.toNat]
      = Slim.leSigned [b0, b1, b2, b3, b4, b5, b6, b7] := by
  unfold Generated.getI64
  refine toS_eq_leSigned [b0, b1, b2, b3, b4, b5, b6, b7] _ _ (by rfl) ?_
  rw [leVal8_or]
  bytes_simp
  all_goals
    generalize b0.toNat = x0; generalize b1.toNat <<< 8 = x1; generalize b2.toNat <<< 16 = x2
    generalize b3.toNat <<< 24 = x3; generalize b4.toNat <<< 32 = x4; generalize b5.toNat <<< 40 = x5
    generalize b6.toNat <<< 48 = x6; generalize b7.toNat <<< 56 = x7
    ac_rfl

/-- for any slice of the right length -/
theorem getI16_list (bs : Bytes) (h : bs.length = 2) :
    Generated.getI16 (bs.map UInt8.toNat) = Slim.leSigned bs := by
  match bs, h with
  | [b0, b1], _ => exact getI16_sem b0 b1

theorem getI32_list (bs : Bytes) (h : bs.length = 4) :
    Generated.getI32 (bs.map UInt8.toNat) = Slim.leSigned bs := by
  match bs, h with
  | [b0, b1, b2, b3], _ => exact getI32_sem b0 b1 b2 b3

theorem getI64_list (bs : Bytes) (h : bs.length = 8) :
    Generated.getI64 (bs.map UInt8.toNat) = Slim.leSigned bs := by
  match bs, h with
  | [b0, b1, b2, b3, b4, b5, b6, b7], _ => exact getI64_sem b0 b1 b2 b3 b4 b5 b6 b7

/-- the slice start: leaf ordinal × width in bytes (ordinals fit an `int32`) -/
theorem getI16Index_sem (ith : Nat) (h : ith < 2 ^ 30) :
    Generated.getI16Index ith = ((ith * 2 : Nat) : Int) := by
  unfold Generated.getI16Index
  go_simp
  all_goals omega

theorem getI32Index_sem (ith : Nat) (h : ith < 2 ^ 29) :
    Generated.getI32Index ith = ((ith * 4 : Nat) : Int) := by
  unfold Generated.getI32Index
  go_simp
  all_goals omega

theorem getI64Index_sem (ith : Nat) (h : ith < 2 ^ 28) :
    Generated.getI64Index ith = ((ith * 8 : Nat) : Int) := by
  unfold Generated.getI64Index
  go_simp
  all_goals omega

end BridgeSem

#print axioms BridgeSem.getI8_sem
#print axioms BridgeSem.getI16_sem
#print axioms BridgeSem.getI32_sem
#print axioms BridgeSem.getI64_sem
#print axioms BridgeSem.getI16_list
#print axioms BridgeSem.getI32_list
#print axioms BridgeSem.getI64_list
#print axioms BridgeSem.getI16Index_sem
#print axioms BridgeSem.getI32Index_sem
#print axioms BridgeSem.getI64Index_sem
