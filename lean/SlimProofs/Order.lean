import SlimProofs.WF
/-
  SlimProofs.Order — order facts: `lexCmp`, `bytesLt`, `strictAsc`, `nibs`, `lcp`.

  Exported (used by other proof files):
  * `strictAsc_lt`, `strictAsc_inj`
  * `nibs_injective`, `nibs_length`, `nibs_lt16`
  * `bytesLt_iff_nibs`, `lexCmp_nibs`
  * `lcp_spec` (+ the components `lcp_take`, `lcp_max`, `lcp_le_left`, `lcp_le_right`)
-/

/-! ### `lexCmp` -/

theorem lexCmp_self (a : List Nat) : lexCmp a a = .eq := by
  induction a with
  | nil => rfl
  | cons x xs ih => simp [lexCmp, ih]

theorem lexCmp_lt_irrefl (a : List Nat) : lexCmp a a ≠ .lt := by
  rw [lexCmp_self]; decide

theorem lexCmp_eq_iff {a b : List Nat} : lexCmp a b = .eq ↔ a = b := by
  constructor
  · intro h
    induction a generalizing b with
    | nil => cases b with
      | nil => rfl
      | cons y ys => simp [lexCmp] at h
    | cons x xs ih => cases b with
      | nil => simp [lexCmp] at h
      | cons y ys =>
        simp only [lexCmp] at h
        split at h
        · cases h
        · split at h
          · cases h
          · have : x = y := by omega
            rw [this, ih h]
  · intro h; rw [h]; exact lexCmp_self b

theorem lexCmp_lt_trans {a b c : List Nat} (h1 : lexCmp a b = .lt) (h2 : lexCmp b c = .lt) :
    lexCmp a c = .lt := by
  induction a generalizing b c with
  | nil =>
    cases c with
    | nil => cases b <;> simp [lexCmp] at h1 h2
    | cons z zs => rfl
  | cons x xs ih =>
    cases b with
    | nil => simp [lexCmp] at h1
    | cons y ys =>
      cases c with
      | nil => simp [lexCmp] at h2
      | cons z zs =>
        simp only [lexCmp] at h1 h2 ⊢
        split at h1
        · split at h2
          · rw [if_pos (by omega)]
          · split at h2
            · cases h2
            · rw [if_pos (by omega)]
        · split at h1
          · cases h1
          · split at h2
            · rw [if_pos (by omega)]
            · split at h2
              · cases h2
              · rw [if_neg (by omega), if_neg (by omega)]
                exact ih h1 h2

/-- a common prefix can be cancelled -/
theorem lexCmp_append_left (p a b : List Nat) : lexCmp (p ++ a) (p ++ b) = lexCmp a b := by
  induction p with
  | nil => rfl
  | cons x xs ih => simp [lexCmp, ih]

/-- two lists that agree on their first `w` entries compare like their remainders -/
theorem lexCmp_drop {a b : List Nat} (w : Nat) (h : a.take w = b.take w) :
    lexCmp a b = lexCmp (a.drop w) (b.drop w) := by
  have ha : a = a.take w ++ a.drop w := (List.take_append_drop w a).symm
  have hb : b = a.take w ++ b.drop w := by rw [h]; exact (List.take_append_drop w b).symm
  calc lexCmp a b = lexCmp (a.take w ++ a.drop w) (a.take w ++ b.drop w) := by rw [← ha, ← hb]
    _ = _ := lexCmp_append_left _ _ _

/-! ### `bytesLt`, `strictAsc` -/

theorem bytesLt_iff {a b : Bytes} :
    bytesLt a b = true ↔ lexCmp (a.map UInt8.toNat) (b.map UInt8.toNat) = .lt := by
  simp [bytesLt, cmpBytes]

theorem bytesLt_irrefl (a : Bytes) : bytesLt a a = false := by
  simp [bytesLt, cmpBytes, lexCmp_self]

theorem bytesLt_trans {a b c : Bytes} (h1 : bytesLt a b = true) (h2 : bytesLt b c = true) :
    bytesLt a c = true := by
  rw [bytesLt_iff] at *
  exact lexCmp_lt_trans h1 h2

theorem strictAsc_cons {a : Bytes} {rest : List Bytes} (h : strictAsc (a :: rest) = true) :
    strictAsc rest = true := by
  cases rest with
  | nil => rfl
  | cons b rest =>
    simp only [strictAsc, Bool.and_eq_true] at h
    exact h.2

theorem strictAsc_head_lt {a : Bytes} {rest : List Bytes} (h : strictAsc (a :: rest) = true)
    {b : Nat} (hb : b < rest.length) : bytesLt a (rest.getD b []) = true := by
  induction rest generalizing a b with
  | nil => simp at hb
  | cons x xs ih =>
    simp only [strictAsc, Bool.and_eq_true] at h
    cases b with
    | zero => simpa using h.1
    | succ b =>
      have hb' : b < xs.length := by simpa using hb
      have := ih h.2 hb'
      simp only [List.getD_cons_succ]
      exact bytesLt_trans h.1 this

/-- transitivity along a strictly ascending list -/
theorem strictAsc_lt {keys : List Bytes} {a b : Nat} (h : strictAsc keys = true) (hab : a < b)
    (hb : b < keys.length) : bytesLt (keys.getD a []) (keys.getD b []) = true := by
  induction keys generalizing a b with
  | nil => simp at hb
  | cons x xs ih =>
    cases b with
    | zero => omega
    | succ b =>
      have hb' : b < xs.length := by simpa using hb
      cases a with
      | zero =>
        simp only [List.getD_cons_zero, List.getD_cons_succ]
        exact strictAsc_head_lt h hb'
      | succ a =>
        simp only [List.getD_cons_succ]
        exact ih (strictAsc_cons h) (by omega) hb'

theorem strictAsc_inj {keys : List Bytes} {a b : Nat} (h : strictAsc keys = true)
    (ha : a < keys.length) (hb : b < keys.length)
    (heq : keys.getD a [] = keys.getD b []) : a = b := by
  rcases Nat.lt_trichotomy a b with hab | hab | hab
  · have := strictAsc_lt h hab hb
    rw [heq, bytesLt_irrefl] at this
    cases this
  · exact hab
  · have := strictAsc_lt h hab ha
    rw [heq, bytesLt_irrefl] at this
    cases this

/-! ### `nibs` -/

theorem nibs_length (a : Bytes) : (nibs a).length = 2 * a.length := by
  induction a with
  | nil => rfl
  | cons x xs ih => simp only [nibs, List.length_cons, ih]; omega

theorem nibs_injective {a b : Bytes} (h : nibs a = nibs b) : a = b := by
  induction a generalizing b with
  | nil =>
    cases b with
    | nil => rfl
    | cons y ys => simp [nibs] at h
  | cons x xs ih =>
    cases b with
    | nil => simp [nibs] at h
    | cons y ys =>
      simp only [nibs, List.cons.injEq] at h
      obtain ⟨h1, h2, h3⟩ := h
      have hxy : x.toNat = y.toNat := by omega
      rw [UInt8.toNat_inj.mp hxy, ih h3]

/-- every half-byte is below 16 -/
theorem nibs_lt16 (a : Bytes) : ∀ x ∈ nibs a, x < 16 := by
  induction a with
  | nil => intro x hx; simp [nibs] at hx
  | cons b bs ih =>
    intro x hx
    simp only [nibs, List.mem_cons] at hx
    have := b.toNat_lt
    rcases hx with rfl | rfl | hx
    · omega
    · omega
    · exact ih x hx

/-- byte order = half-byte order (as three-way comparisons) -/
theorem lexCmp_nibs (a b : Bytes) :
    lexCmp (nibs a) (nibs b) = lexCmp (a.map UInt8.toNat) (b.map UInt8.toNat) := by
  induction a generalizing b with
  | nil => cases b <;> rfl
  | cons x xs ih =>
    cases b with
    | nil => rfl
    | cons y ys =>
      simp only [nibs, List.map_cons, lexCmp, ih]
      by_cases h1 : x.toNat < y.toNat
      · rw [if_pos h1]
        by_cases h2 : x.toNat / 16 < y.toNat / 16
        · rw [if_pos h2]
        · rw [if_neg h2, if_neg (by omega), if_pos (by omega)]
      · rw [if_neg h1]
        by_cases h2 : y.toNat < x.toNat
        · rw [if_pos h2]
          by_cases h3 : y.toNat / 16 < x.toNat / 16
          · rw [if_neg (by omega), if_pos h3]
          · rw [if_neg (by omega), if_neg h3, if_neg (by omega), if_pos (by omega)]
        · rw [if_neg h2, if_neg (by omega), if_neg (by omega), if_neg (by omega),
            if_neg (by omega)]

theorem bytesLt_iff_nibs {a b : Bytes} : bytesLt a b = true ↔ lexCmp (nibs a) (nibs b) = .lt := by
  rw [lexCmp_nibs, bytesLt_iff]

/-! ### `lcp` -/

theorem lcp_le_left (a b : List Nat) : lcp a b ≤ a.length := by
  induction a generalizing b with
  | nil => simp [lcp]
  | cons x xs ih =>
    cases b with
    | nil => simp [lcp]
    | cons y ys =>
      simp only [lcp]
      split
      · have := ih ys; simp only [List.length_cons]; omega
      · omega

theorem lcp_le_right (a b : List Nat) : lcp a b ≤ b.length := by
  induction a generalizing b with
  | nil => simp [lcp]
  | cons x xs ih =>
    cases b with
    | nil => simp [lcp]
    | cons y ys =>
      simp only [lcp]
      split
      · have := ih ys; simp only [List.length_cons]; omega
      · omega

theorem lcp_take (a b : List Nat) : a.take (lcp a b) = b.take (lcp a b) := by
  induction a generalizing b with
  | nil => simp [lcp]
  | cons x xs ih =>
    cases b with
    | nil => simp [lcp]
    | cons y ys =>
      simp only [lcp]
      split
      · next h => simp only [List.take_succ_cons, h, ih ys]
      · simp

theorem lcp_max (a b : List Nat) (ha : lcp a b < a.length) (hb : lcp a b < b.length) :
    a[lcp a b]? ≠ b[lcp a b]? := by
  induction a generalizing b with
  | nil => simp at ha
  | cons x xs ih =>
    cases b with
    | nil => simp at hb
    | cons y ys =>
      simp only [lcp] at ha hb ⊢
      split
      · next h =>
        rw [if_pos h] at ha hb
        simp only [List.length_cons] at ha hb
        simp only [List.getElem?_cons_succ]
        exact ih ys (by omega) (by omega)
      · next h => simpa using h

/-- `lcp a b` is the length of the longest common prefix -/
theorem lcp_spec (a b : List Nat) :
    a.take (lcp a b) = b.take (lcp a b) ∧
    (lcp a b < a.length → lcp a b < b.length → a[lcp a b]? ≠ b[lcp a b]?) ∧
    lcp a b ≤ a.length ∧ lcp a b ≤ b.length :=
  ⟨lcp_take a b, lcp_max a b, lcp_le_left a b, lcp_le_right a b⟩

/-- prefixes shorter than the lcp agree, too -/
theorem take_eq_of_le_lcp {a b : List Nat} {m : Nat} (h : m ≤ lcp a b) : a.take m = b.take m := by
  have := congrArg (List.take m) (lcp_take a b)
  simpa [List.take_take, Nat.min_eq_left h] using this
