import SlimProofs.StatLemmas
import SlimProofs.LeafCount
import SlimProps.C08Accept
import SlimProps.C05Wire
/-
  SlimProps.C18 — "Stat reports the exact key count and consistent level totals".

  Objects: `Slim.initLevels` (= Go `initLevels`, slimtrie_level.go) and `Slim.stat` (= `Stat()`)
  of SlimModel/Stat.lean, on the message `s = Slim.encode t` of a built trie
  (`build keys vals opt = .ok t`), `N = t.nodes.size`, `I` = number of inner nodes.

  * `C18_initLevels_ok`     `∃ lv, Slim.initLevels (Slim.encode t) = .ok lv` — no panic, the fuel
                            suffices (also for the empty key list).
  * `C18_levels`            the table itself: `lv = (cs ++ [N]).map (entry t)` where `cs = 0 :: …`
                            is strictly ascending below `N` (the first node of each BFS level) and
                            `entry t c = (c, inner nodes before c, leaves before c)`.
  * `C18_totals`            the last entry is `(N, I, N − I)`; `Stat` reports `nodeCnt = N` and
                            `keyCnt = (retained keys vals opt.dedup).length`.
  * `C18_levels_consistent` every entry has `total = inner + leaf`; the entries are pointwise
                            non-decreasing (even pairwise, not only adjacent); the first is
                            `(0,0,0)`; the last is the totals.
  * `C18_empty`, `C18_single`   (0 keys, 0 nodes) for the empty trie, `[(0,0,0),(1,0,1)]` and
                            (1 key, 1 node) for a single key.
  * `C18_roundtrip`, `C18_roundtrip_wire`, `C18_stat_congr`
                            the report is a function of the message (levels) and of
                            `nodeTypeBM = nil` only; a reload that restores the message —
                            `proto.Unmarshal(proto.Marshal(m))`, `C05_wire_roundtrip` — leaves
                            it unchanged.
-/

open Slim Refine StatLemmas

namespace C18

/-- pointwise order on level entries -/
def LevelLe (a b : Level) : Prop := a.1 ≤ b.1 ∧ a.2.1 ≤ b.2.1 ∧ a.2.2 ≤ b.2.2

/-- number of inner nodes of a record array -/
def innerCnt (t : Trie1) : Nat := (innersBefore t.nodes t.nodes.size).length

theorem treeOK_of_build (keys : List Bytes) (vals : Option (List Bytes)) (opt : Opt) (t : Trie1)
    (hb : build keys vals opt = .ok t) (hne : keys ≠ []) : TreeOK t := by
  obtain ⟨⟨queue, hsz, _, hq⟩, _⟩ := build_wf keys vals opt t hb hne
  refine ⟨build_shape keys vals opt t hb hne, ?_, ?_⟩
  · intro j r hj
    obtain ⟨hlt, hn⟩ := Array.getElem?_eq_some_iff.mp hj
    obtain ⟨o, _, _, hnode⟩ := hq j hlt
    rw [hn] at hnode
    obtain ⟨_, ws, _, _, _, _, _, _, _, hfc, _⟩ := hnode
    exact hfc
  · intro j r hj
    obtain ⟨hlt, hn⟩ := Array.getElem?_eq_some_iff.mp hj
    obtain ⟨o, _, hsub, hnode⟩ := hq j hlt
    rw [hn] at hnode
    obtain ⟨_, ws, _, _, _, _, hmem, _, _, _, hkids⟩ := hnode
    -- the node has a label: its subset contains a kept key
    obtain ⟨x, h1, h2, h3⟩ := hsub.kept
    have hpos : 0 < r.labels.length := List.length_pos_of_mem ((hmem _).mpr ⟨x, h1, h2, h3, rfl⟩)
    obtain ⟨c, hc, _⟩ := hkids 0 hpos
    have := (Array.getElem?_eq_some_iff.mp hc).1
    omega

theorem mem_le_of_pairwise {cs : List Nat} {N : Nat} (h : (cs ++ [N]).Pairwise (· < ·)) :
    ∀ x ∈ cs ++ [N], x ≤ N := by
  intro x hx
  rw [List.pairwise_append] at h
  rcases List.mem_append.mp hx with hx | hx
  · exact Nat.le_of_lt (h.2.2 x hx N (by simp))
  · simp at hx; omega

end C18

open C18

/-- **C18 (the level table).** -/
theorem C18_levels (keys : List Bytes) (vals : Option (List Bytes)) (opt : Opt) (t : Trie1)
    (hb : build keys vals opt = .ok t) (hne : keys ≠ []) :
    ∃ cs : List Nat, cs.head? = some 0 ∧ (cs ++ [t.nodes.size]).Pairwise (· < ·) ∧
      initLevels (encode t) = .ok ((cs ++ [t.nodes.size]).map (entry t)) :=
  initLevels_encode (treeOK_of_build keys vals opt t hb hne)

/-- **C18 (no panic).**  `initLevels` succeeds on the message of every built trie. -/
theorem C18_initLevels_ok (keys : List Bytes) (vals : Option (List Bytes)) (opt : Opt) (t : Trie1)
    (hb : build keys vals opt = .ok t) : ∃ lv, Slim.initLevels (Slim.encode t) = .ok lv := by
  by_cases hne : keys = []
  · subst hne
    simp only [build, List.length_nil, if_true, Except.ok.injEq] at hb
    subst hb
    exact ⟨[(0, 0, 0)], rfl⟩
  · obtain ⟨cs, _, _, h⟩ := C18_levels keys vals opt t hb hne
    exact ⟨_, h⟩

/-- **C18 (totals).**  The table ends at `(N, I, N − I)`, and `Stat` reports `N` nodes and exactly
    the number of retained keys. -/
theorem C18_totals (keys : List Bytes) (vals : Option (List Bytes)) (opt : Opt) (t : Trie1)
    (hb : build keys vals opt = .ok t) (hne : keys ≠ []) (lv : List Level)
    (hlv : initLevels (encode t) = .ok lv) :
    lv.getLast? = some (t.nodes.size, innerCnt t, t.nodes.size - innerCnt t) ∧
    innerCnt t + (retained keys vals opt.dedup).length = t.nodes.size ∧
    stat (encode t) lv = .ok { levels := lv, keyCnt := (retained keys vals opt.dedup).length,
                               nodeCnt := t.nodes.size } := by
  obtain ⟨cs, _, _, h⟩ := C18_levels keys vals opt t hb hne
  rw [h] at hlv
  cases hlv
  have hpos := (build_shape keys vals opt t hb hne).nonempty
  have hleaf := build_leavesBefore keys vals opt t hb hne
  have hsum := leaves_add_inners t.nodes t.nodes.size (Nat.le_refl _)
  have hlast : ((cs ++ [t.nodes.size]).map (entry t)).getLast?
      = some (t.nodes.size, innerCnt t, t.nodes.size - innerCnt t) := by
    rw [List.map_append, List.map_cons, List.map_nil, List.getLast?_append]
    rfl
  refine ⟨hlast, by unfold innerCnt; omega, ?_⟩
  unfold stat
  rw [hlast]
  have hnt : (encode t).nodeTypeBM.isNone = false := by
    rw [encode_eq t (by omega), enc_nodeTypeBM, if_neg (by omega)]; rfl
  simp only [hnt, Bool.false_eq_true, if_false]
  congr 2
  unfold innerCnt
  omega

/-- **C18 (consistency).**  `total = inner + leaf` in every entry, the entries never decrease,
    the first is `(0,0,0)` and the last the totals. -/
theorem C18_levels_consistent (keys : List Bytes) (vals : Option (List Bytes)) (opt : Opt)
    (t : Trie1) (hb : build keys vals opt = .ok t) (hne : keys ≠ []) (lv : List Level)
    (hlv : initLevels (encode t) = .ok lv) :
    (∀ e ∈ lv, e.1 = e.2.1 + e.2.2) ∧ lv.Pairwise LevelLe ∧ lv.head? = some (0, 0, 0) ∧
    lv.getLast? = some (t.nodes.size, innerCnt t, t.nodes.size - innerCnt t) := by
  obtain ⟨cs, hhead, hpw, h⟩ := C18_levels keys vals opt t hb hne
  have hlast := (C18_totals keys vals opt t hb hne lv hlv).1
  rw [h] at hlv
  cases hlv
  have hle := mem_le_of_pairwise hpw
  refine ⟨?_, ?_, ?_, hlast⟩
  · intro e he
    obtain ⟨c, _, rfl⟩ := List.mem_map.mp he
    exact entry_sum t c
  · rw [List.pairwise_map]
    refine List.Pairwise.imp_of_mem ?_ hpw
    intro a b _ hb' hab
    exact entry_mono t (Nat.le_of_lt hab) (hle b hb')
  · cases cs with
    | nil => cases hhead
    | cons c tl =>
      simp only [List.head?_cons, Option.some.injEq] at hhead
      subst hhead
      simp [entry, innersBefore]

/-- **C18 (empty trie).**  (0 keys, 0 nodes). -/
theorem C18_empty (vals : Option (List Bytes)) (opt : Opt) (t : Trie1)
    (hb : build [] vals opt = .ok t) :
    initLevels (encode t) = .ok [(0, 0, 0)] ∧
    stat (encode t) [(0, 0, 0)] = .ok { levels := [(0, 0, 0)], keyCnt := 0, nodeCnt := 0 } := by
  simp only [build, List.length_nil, if_true, Except.ok.injEq] at hb
  subst hb
  exact ⟨rfl, rfl⟩

/-- **C18 (single key).**  The table is `[(0,0,0), (1,0,1)]`: (1 key, 1 node). -/
theorem C18_single (k : Bytes) (vals : Option (List Bytes)) (opt : Opt) (t : Trie1)
    (hb : build [k] vals opt = .ok t) :
    initLevels (encode t) = .ok [(0, 0, 0), (1, 0, 1)] ∧
    stat (encode t) [(0, 0, 0), (1, 0, 1)]
      = .ok { levels := [(0, 0, 0), (1, 0, 1)], keyCnt := 1, nodeCnt := 1 } := by
  have hne : ([k] : List Bytes) ≠ [] := by simp
  obtain ⟨⟨queue, hsz, _, hq⟩, _⟩ := build_wf [k] vals opt t hb hne
  have hs := build_shape [k] vals opt t hb hne
  -- no node is inner: every subset has at most one key
  have hnoinner : innersBefore t.nodes t.nodes.size = [] := by
    rw [innersBefore_eq', List.filterMap_eq_nil_iff]
    intro nd hnd
    obtain ⟨j, hj, rfl⟩ := List.mem_iff_getElem.mp (List.mem_of_mem_take hnd)
    have hj' : j < t.nodes.size := by simpa using hj
    obtain ⟨o, _, hsub, hnode⟩ := hq j hj'
    rw [Array.getElem_toList]
    cases hn : t.nodes[j] with
    | leaf ith lp => rfl
    | inner r =>
      rw [hn] at hnode
      have := hnode.1
      have := hsub.le
      simp only [List.length_cons, List.length_nil] at this
      omega
  have hN : t.nodes.size = 1 := by
    have := hs.total
    rw [hnoinner] at this
    simpa using this
  obtain ⟨cs, hhead, hpw, h⟩ := C18_levels [k] vals opt t hb hne
  have hcs : cs = [0] := by
    cases cs with
    | nil => cases hhead
    | cons c tl =>
      simp only [List.head?_cons, Option.some.injEq] at hhead
      subst hhead
      cases tl with
      | nil => rfl
      | cons d tl' =>
        exfalso
        rw [hN] at hpw
        simp only [List.cons_append, List.pairwise_cons] at hpw
        have h1 := hpw.1 d (by simp)
        have h2 := hpw.2.1 1 (by simp)
        omega
  have hlv : initLevels (encode t) = .ok [(0, 0, 0), (1, 0, 1)] := by
    rw [h, hcs, hN]
    have e1 : entry t 1 = (1, 0, 1) := by
      have : innersBefore t.nodes 1 = [] := by rw [← hN]; exact hnoinner
      simp [entry, this]
    have e0 : entry t 0 = (0, 0, 0) := by simp [entry, innersBefore]
    simp only [List.cons_append, List.nil_append, List.map_cons, List.map_nil, e0, e1]
  refine ⟨hlv, ?_⟩
  obtain ⟨_, _, hstat⟩ := C18_totals [k] vals opt t hb hne _ hlv
  rw [hstat, hN]
  congr 2
  have h1 := (C18_totals [k] vals opt t hb hne _ hlv).2.1
  have : innerCnt t = 0 := by unfold innerCnt; rw [hnoinner]; rfl
  omega

/-- `Stat` reads the message only through `nodeTypeBM == nil`. -/
theorem C18_stat_congr (s s' : SlimMsg) (lv : List Level)
    (h : s.nodeTypeBM.isNone = s'.nodeTypeBM.isNone) : stat s lv = stat s' lv := by
  unfold stat
  rw [h]

/-- **C18 (round trip).**  The level table and the report are functions of the message: a reload
    that restores the message leaves both unchanged. -/
theorem C18_roundtrip (t : Trie1) (s' : SlimMsg) (hreload : s' = encode t) :
    initLevels s' = initLevels (encode t) ∧ ∀ lv, stat s' lv = stat (encode t) lv := by
  subst hreload
  exact ⟨rfl, fun _ => rfl⟩

/-- with the message codec round trip (`C05_wire_roundtrip`: `proto.Unmarshal ∘ proto.Marshal`) -/
theorem C18_roundtrip_wire (t : Trie1) (hwf : (encode t).WF) (hnf : (encode t).NF)
    (hsz : (Wire.encodeSlim (encode t)).length < 2 ^ 64) :
    ∃ s', Wire.decodeSlim (Wire.encodeSlim (encode t)) = .ok s' ∧
      initLevels s' = initLevels (encode t) ∧ ∀ lv, stat s' lv = stat (encode t) lv :=
  ⟨encode t, C05_wire_roundtrip _ hwf hnf hsz, rfl, fun _ => rfl⟩

/-! ### non-vacuity: a concrete input satisfies the hypotheses (accepted by `C08_accept`), and the
    model computes the expected table on it -/

example : ∃ t, build [[0x61], [0x61, 0x62], [0x62, 0xe3]] (some [[1], [1], [2]]) {} = .ok t ∧
    ([[0x61], [0x61, 0x62], [0x62, 0xe3]] : List Bytes) ≠ [] := by
  obtain ⟨t, ht⟩ := C08_accept [[0x61], [0x61, 0x62], [0x62, 0xe3]] (some [[1], [1], [2]]) {}
    (by simp) (by decide) (by intro vs h; cases h; rfl)
    (Or.inr (by intro k hk; simp at hk; rcases hk with rfl | rfl | rfl <;> decide))
  exact ⟨t, ht, by simp⟩

#print axioms C18_initLevels_ok
#print axioms C18_levels
#print axioms C18_totals
#print axioms C18_levels_consistent
#print axioms C18_empty
#print axioms C18_single
#print axioms C18_roundtrip
#print axioms C18_roundtrip_wire
