import Generated.Funcs
import SlimProps.BridgeSem.Common
import SlimProps.BridgeSem.Extern
import SlimProps.BridgeSem.LeftChildWhole
import SlimProps.BridgeSem.GetNode
import SlimModel.Query
import SlimModel.Slim

/-
  SlimProps.BridgeSem.MostLoops — tie 1, semantic part: `leftMost` and `rightMost` (trie/slimtrie_query.go)
  translated WHOLE, loops included: `for { …; st.getNode(idx, qr); if qr.isInner == 0 { break }; … }` becomes
  the fuel-recursive `Generated.W.SlimTrie.leftMost_loop1` / `rightMost_loop1` (state: `idx`, for `leftMost`
  also `path` and the session, which is created once and reused), `break` ends the loop with the state,
  running out of fuel is `none`; the functions take the fuel as an extra first parameter.

    `rightMost_sem`   rightMost (Slim.view s) fuel id = .ok id'  →  W.rightMost fuel st id = some id'
    `leftMost_sem`    leftMost  (Slim.view s) fuel id = .ok id'  →  ∃ p, W.leftMost fuel st id path = some (p, id')
                      (a nil `path` stays nil)
    (`rightMost_loop_sem`, `leftMost_loop_sem`: the loops; `getNode_inner_data`: what all sessions of an inner
     node have in common; `rank_last`: `Rank128(…, to-1)` gives `r0 + bit = rank(to)`)

  i.e. whenever the model's descent (SlimModel/Query.lean, on the bit-level view `Slim.view s`, whose `node` is
  `Slim.getNode s`) reaches a leaf within the fuel, the Go loop reaches the SAME leaf within the same fuel:
  every iteration is `getNode_ok` (GetNode.lean) plus one `Rank128` on the session (`firstChild = rank(from)+1`,
  `firstChild + #labels - 1 = rank(to)`).
  Hypotheses (`TrieFits`): `Inners` carries the rank index of `IndexRank128`, every node's `getNode` stays inside
  `int32` (`GetNodeFits`), every inner node's bit range lies inside `Inners`, and a short node is stored as a
  code with as many set bits as it has labels.  `exSlim_trieFits`: they hold for the example trie.
  See SlimProps/BridgeSem.lean for the overview.
-/

set_option linter.unusedSimpArgs false
set_option linter.unusedVariables false

open Generated Bits

namespace BridgeSem

/-- a message on which the descents stay inside `int32` and inside `Inners` -/
structure TrieFits (s : SlimMsg) (ws : List Nat) : Prop where
  inn : s.inners = some (mk ws "r128")
  bits : 64 * ws.length + 64 < 2 ^ 31
  node : ∀ id node, Slim.getNode s id = .ok node → GetNodeFits s id
  /-- the bit range of every inner node (`ith`: its ordinal among the inner nodes) lies inside `Inners` -/
  range : ∀ nt id ith frm size short, s.nodeTypeBM = some nt → rank64 nt id = .ok (ith, true) →
    Slim.innerFrom s ith = .ok (frm, size, short) → 0 < size ∧ frm + size ≤ 64 * ws.length
  /-- a short node is stored as a code with as many set bits as the node has labels
      (`creator.build` picks the code among those with `popcount = number of labels`) -/
  short : ∀ nt id ith frm size bm, s.nodeTypeBM = some nt → rank64 nt id = .ok (ith, true) →
    Slim.innerFrom s ith = .ok (frm, size, some bm) →
    cnt (getBit ws) (frm + size)
      = cnt (getBit ws) frm + ((List.range Slim.innerSize).filter (fun k => bm.testBit k)).length

/-- what every session of the inner node `r` has in common, whatever session `getNode` started from -/
theorem getNode_inner_data (s : SlimMsg) (id : Nat) (r : InnerRec) (h : Slim.getNode s id = .ok (.inner r)) :
    ∃ frm size short inn r0 c, s.inners = some inn ∧
      rank128 inn frm = .ok (r0, c) ∧ r.firstChild = r0 + 1 ∧ r.labels = nodeLabels inn.words frm size short ∧
      (∃ nt ith, s.nodeTypeBM = some nt ∧ rank64 nt id = .ok (ith, true) ∧
        Slim.innerFrom s ith = .ok (frm, size, short)) ∧
      ∀ qr0, ∃ qr, sessionOf s id qr0 = .ok qr ∧ qr.isInner = 1 ∧ qr.from_ = frm ∧ qr.to = frm + size := by
  rw [getNode_unfold] at h
  cases hnt : s.nodeTypeBM with
  | none => simp [hnt] at h
  | some nt =>
    simp only [hnt] at h
    cases hrk : rank64 nt id with
    | error e => simp [hrk, bind, Except.bind] at h
    | ok rb =>
      obtain ⟨ith, b⟩ := rb
      simp only [hrk, bind, Except.bind] at h
      cases b with
      | false =>
        simp only [Bool.not_false, if_true] at h
        cases hlp : Slim.getLeafPrefix s (id - ith) with
        | error e => simp [hlp] at h
        | ok lp => simp [hlp, pure, Except.pure] at h
      | true =>
        simp only [Bool.not_true, Bool.false_eq_true, if_false] at h
        cases hif : Slim.innerFrom s ith with
        | error e => simp [hif] at h
        | ok fss =>
          obtain ⟨frm, size, short⟩ := fss
          simp only [hif] at h
          cases hinn : s.inners with
          | none => simp [hinn] at h
          | some inn =>
            simp only [hinn] at h
            cases hr128 : rank128 inn frm with
            | error e => simp [hr128] at h
            | ok r0c =>
              obtain ⟨r0, c⟩ := r0c
              simp only [hr128] at h
              cases hips : s.innerPrefixes with
              | none => simp [hips] at h
              | some ips =>
                simp only [hips] at h
                cases hpb : prefBlock ips ith with
                | error e => simp [hpb] at h
                | ok p =>
                  simp only [hpb, pure, Except.pure, Except.ok.injEq, Node.inner.injEq] at h
                  obtain ⟨rp, hrp, hp⟩ := rawPref_of_prefBlock s ips ith p hips hpb
                  subst h
                  refine ⟨frm, size, short, inn, r0, c, rfl, hr128, rfl, rfl, ⟨nt, ith, (by first | exact hnt | rfl), (by first | exact hrk | rfl), hif⟩, ?_⟩
                  intro qr0
                  rw [sessionOf_inner s nt id ith qr0 hnt hrk]
                  unfold innerSession
                  simp only [hif, bind, Except.bind, hrp]
                  cases rp <;> exact ⟨_, rfl, rfl, rfl, rfl⟩

/-- the number of labels of a decoded inner node is the number of set bits of its range of `Inners` -/
theorem labels_length (s : SlimMsg) (ws : List Nat) (hf : TrieFits s ws) (nt : BitmapMsg) (id ith frm size : Nat)
    (short : Option Nat) (hnt : s.nodeTypeBM = some nt) (hrk : rank64 nt id = .ok (ith, true))
    (hif : Slim.innerFrom s ith = .ok (frm, size, short)) :
    cnt (getBit ws) (frm + size) = cnt (getBit ws) frm + (nodeLabels ws frm size short).length := by
  cases short with
  | some bm => exact hf.short nt id ith frm size bm hnt hrk hif
  | none =>
    unfold nodeLabels
    rw [labelsIn_eq_filter, ← cnt_eq_length_filter, cnt_add]

/-- `Rank128(Inners, to-1)`: `r0 + bit` (in either order) is the rank of `to` -/
theorem rank_last (ws : List Nat) (to : Nat) (h0 : 0 < to) (hto : to ≤ 64 * ws.length)
    (hfit : 64 * ws.length + 64 < 2 ^ 31) :
    ∃ a b, Go.rank128 ws (indexRank128 ws) (to - 1) = some (a, b) ∧
      Go.add 32 a b = cnt (getBit ws) to ∧ Go.add 32 b a = cnt (getBit ws) to := by
  refine ⟨_, _, rank128_mk_sem ws (to - 1) (by omega) hfit, ?_, ?_⟩
  all_goals
    have hc : cnt (getBit ws) to = cnt (getBit ws) (to - 1) + b2n (getBit ws (to - 1)) := by
      have := cnt_succ (getBit ws) (to - 1)
      rw [Nat.sub_add_cancel h0] at this
      rw [this]; unfold b2n; rfl
    have hle := cnt_le (getBit ws) (to - 1)
    have hb : b2n (getBit ws (to - 1)) ≤ 1 := by unfold b2n; split <;> omega
    rw [add_small (by omega), hc]
    try omega

/-- the loop of `rightMost`: when the model's `rightMost` ends in `id'` within the fuel, so does the
    translated loop (`break` at a leaf) -/
theorem rightMost_loop_sem (s : SlimMsg) (ws : List Nat) (hf : TrieFits s ws) :
    ∀ fuel id id', rightMost (Slim.view s) fuel id = .ok id' →
      W.SlimTrie.rightMost_loop1 (some (absSlim s)) (absTrie s (varsOf s)) fuel id = some (Sum.inr id') := by
  intro fuel
  induction fuel with
  | zero => intro id id' h; simp [rightMost] at h
  | succ fuel ih =>
    intro id id' h
    unfold rightMost at h
    have hv : (Slim.view s).node id = Slim.getNode s id := rfl
    rw [hv] at h
    cases hn : Slim.getNode s id with
    | error e => simp [hn, bind, Except.bind] at h
    | ok node =>
      have hfit := hf.node id node hn
      simp only [hn, bind, Except.bind] at h
      rw [W.SlimTrie.rightMost_loop1]
      cases node with
      | leaf ith lp =>
        simp only [pure, Except.pure, Except.ok.injEq] at h
        subst h
        have hall : ∀ qr0, ∃ qr, sessionOf s id qr0 = .ok qr ∧ qr.isInner = 0 := by
          intro qr0
          obtain ⟨qr, hs, hd, _⟩ := sessionOf_decodes s id qr0 _ hn
          exact ⟨qr, hs, hd.1⟩
        obtain ⟨f, hff⟩ := Classical.axiomOfChoice hall
        have h1 : ∀ q0, okOpt (sessionOf s id q0) = some (f q0) := fun q0 => by rw [(hff q0).1]; rfl
        have h2 : ∀ q0, (f q0).isInner = 0 := fun q0 => (hff q0).2
        simp only [getNode_sem s id _ hfit, h1, h2, Option.bind_eq_bind, bind_some_nr, beq_self_eq_true, if_true,
          Option.pure_def]
      | inner r =>
        obtain ⟨frm, size, short, inn, r0, c, hinn, hr128, hfc, hlab, ⟨nt, ith, hnt, hrk, hif⟩, hall⟩ :=
          getNode_inner_data s id r hn
        rw [hf.inn] at hinn
        cases hinn
        obtain ⟨hsz, hrg⟩ := hf.range nt id ith frm size short hnt hrk hif
        obtain ⟨f, hff⟩ := Classical.axiomOfChoice hall
        have h1 : ∀ q0, okOpt (sessionOf s id q0) = some (f q0) := fun q0 => by rw [(hff q0).1]; rfl
        have h2 : ∀ q0, (f q0).isInner = 1 := fun q0 => (hff q0).2.1
        have h3 : ∀ q0, (f q0).to = frm + size := fun q0 => (hff q0).2.2.2
        have hr0 : r0 = cnt (getBit ws) frm := by
          rw [rank128_mk_cnt ws frm (by omega)] at hr128
          cases hr128; rfl
        have hlen := labels_length s ws hf nt id ith frm size short hnt hrk hif
        have htarget : r.firstChild + r.labels.length - 1 = cnt (getBit ws) (frm + size) := by
          rw [hfc, hlab, hr0, hlen]
          show cnt (getBit ws) frm + 1 + (nodeLabels ws frm size short).length - 1 = _
          omega
        simp only at h
        rw [htarget] at h
        obtain ⟨a, b, hrk, hab, hba⟩ := rank_last ws (frm + size) (by omega) hrg hf.bits
        have hrec := ih _ _ h
        have hone : ((1 : Nat) == 0) = false := by decide
        have hone' : ((1 : Nat) != 0) = true := by decide
        have hbits := hf.bits
        have hsub : Go.sub 32 (frm + size) 1 = frm + size - 1 := sub_small (by omega) (by omega)
        simp only [absSlim, hf.inn, Option.map_some, absBitmap, mk_r128] at hrec
        simp only [getNode_sem s id _ hfit, h1, h2, h3, hsub, Option.bind_eq_bind, bind_some_nr, hone, hone',
          Bool.false_eq_true, if_false, if_true, Go.deref, absSlim, hf.inn, Option.map_some, absBitmap, mk_r128,
          Option.pure_def, hrk, hab, hba, hrec]

/-- **`rightMost` whole** (a fuelled `for { … break }` around `getNode` and `Rank128`) = the model's
    `rightMost` on the bit-level view: the same leaf, within the same fuel. -/
theorem rightMost_sem (s : SlimMsg) (ws : List Nat) (hf : TrieFits s ws) (fuel id id' : Nat)
    (h : rightMost (Slim.view s) fuel id = .ok id') :
    W.SlimTrie.rightMost fuel (absTrie s (varsOf s)) id = some id' := by
  unfold W.SlimTrie.rightMost
  have hl := rightMost_loop_sem s ws hf fuel id id' h
  simp only [absTrie] at hl ⊢
  simp [hl]

/-- the loop of `leftMost` (the session is created once, before the loop, and reused; `path`, when not
    nil, collects the ids visited) -/
theorem leftMost_loop_sem (s : SlimMsg) (ws : List Nat) (hf : TrieFits s ws) :
    ∀ fuel id id' (path : Option (List Nat)) (qr0 : W.querySession), leftMost (Slim.view s) fuel id = .ok id' →
      ∃ p q, W.SlimTrie.leftMost_loop1 (some (absSlim s)) (absTrie s (varsOf s)) fuel (id, path, qr0)
          = some (Sum.inr (id', p, q)) ∧ (path = none → p = none) := by
  intro fuel
  induction fuel with
  | zero => intro id id' path qr0 h; simp [leftMost] at h
  | succ fuel ih =>
    intro id id' path qr0 h
    unfold leftMost at h
    have hv : (Slim.view s).node id = Slim.getNode s id := rfl
    rw [hv] at h
    cases hn : Slim.getNode s id with
    | error e => simp [hn, bind, Except.bind] at h
    | ok node =>
      have hfit := hf.node id node hn
      simp only [hn, bind, Except.bind] at h
      rw [W.SlimTrie.leftMost_loop1]
      -- the `path` bookkeeping: a value `path'` that is nil when `path` is
      have hpath : ∃ path' : Option (List Nat), (path = none → path' = none) ∧
          (do let path ← (do
                if path.isSome then
                  let t1_ ← Go.deref path
                  let _ ← Go.deref path
                  let path := some (t1_ ++ [id])
                  pure path
                else pure path : Option (Option (List Nat)))
              pure path) = some path' := by
        cases path with
        | none => exact ⟨none, fun _ => rfl, rfl⟩
        | some l => exact ⟨some (l ++ [id]), (fun h => by cases h), rfl⟩
      obtain ⟨path', hp', hpe⟩ := hpath
      cases node with
      | leaf ith lp =>
        simp only [pure, Except.pure, Except.ok.injEq] at h
        subst h
        obtain ⟨qr, hs, hd, _⟩ := sessionOf_decodes s id qr0 _ hn
        have h1 : okOpt (sessionOf s id qr0) = some qr := by rw [hs]; rfl
        have h2 : qr.isInner = 0 := hd.1
        refine ⟨path', qr, ?_, hp'⟩
        cases path with
        | none =>
          cases hp' rfl
          simp only [getNode_sem s id _ hfit, h1, h2, Option.bind_eq_bind, bind_some_nr, beq_self_eq_true,
            bne_self_eq_false, if_true, Option.pure_def, Option.isSome_none, Bool.false_eq_true, if_false]
        | some l =>
          simp only [Option.isSome_some, if_true, Go.deref, Option.bind_eq_bind, bind_some_nr, Option.pure_def,
            Option.some.injEq] at hpe
          subst hpe
          simp only [getNode_sem s id _ hfit, h1, h2, Option.bind_eq_bind, bind_some_nr, beq_self_eq_true,
            bne_self_eq_false, Bool.false_eq_true, if_false, if_true, Option.pure_def, Option.isSome_some, Go.deref]
      | inner r =>
        obtain ⟨frm, size, short, inn, r0, c, hinn, hr128, hfc, hlab, ⟨nt, ith, hnt, hrk, hif⟩, hall⟩ :=
          getNode_inner_data s id r hn
        rw [hf.inn] at hinn
        cases hinn
        obtain ⟨hsz, hrg⟩ := hf.range nt id ith frm size short hnt hrk hif
        obtain ⟨qr, hs, hI, hfrom, hto⟩ := hall qr0
        have h1 : okOpt (sessionOf s id qr0) = some qr := by rw [hs]; rfl
        have hbits := hf.bits
        have hr0 : r0 = cnt (getBit ws) frm := by
          rw [rank128_mk_cnt ws frm (by omega)] at hr128
          cases hr128; rfl
        simp only at h
        rw [hfc, hr0] at h
        obtain ⟨p, q, hrec, hpn⟩ := ih _ _ path' qr h
        simp only [absSlim, hf.inn, Option.map_some, absBitmap, mk_r128] at hrec
        have hone : ((1 : Nat) == 0) = false := by decide
        have hcf := cnt_le (getBit ws) frm
        have hadd : Go.add 32 (cnt (getBit ws) frm) 1 = cnt (getBit ws) frm + 1 := add_small (by omega)
        have hadd' : Go.add 32 1 (cnt (getBit ws) frm) = cnt (getBit ws) frm + 1 := by
          rw [add_small (by omega)]; omega
        have hone' : ((1 : Nat) != 0) = true := by decide
        refine ⟨p, q, ?_, fun hpa => hpn (hp' hpa)⟩
        cases path with
        | none =>
          cases hp' rfl
          simp only [getNode_sem s id _ hfit, h1, hI, hfrom, Option.bind_eq_bind, bind_some_nr, hone, hone',
            Bool.false_eq_true, if_false, if_true, Go.deref, absSlim, hf.inn, Option.map_some, absBitmap, mk_r128,
            Option.pure_def, Option.isSome_none, rank128_mk_sem ws frm (by omega) hf.bits, hadd, hadd', hrec]
        | some l =>
          simp only [Option.isSome_some, if_true, Go.deref, Option.bind_eq_bind, bind_some_nr, Option.pure_def,
            Option.some.injEq] at hpe
          subst hpe
          simp only [getNode_sem s id _ hfit, h1, hI, hfrom, Option.bind_eq_bind, bind_some_nr, hone, hone',
            Bool.false_eq_true, if_false, if_true, Go.deref, absSlim, hf.inn, Option.map_some, absBitmap, mk_r128,
            Option.pure_def, Option.isSome_some, rank128_mk_sem ws frm (by omega) hf.bits, hadd, hadd', hrec]

/-- **`leftMost` whole** = the model's `leftMost` on the bit-level view: the same leaf, within the
    same fuel; a nil `path` stays nil. -/
theorem leftMost_sem (s : SlimMsg) (ws : List Nat) (hf : TrieFits s ws) (fuel id id' : Nat)
    (path : Option (List Nat)) (h : leftMost (Slim.view s) fuel id = .ok id') :
    ∃ p, W.SlimTrie.leftMost fuel (absTrie s (varsOf s)) id path = some (p, id') ∧ (path = none → p = none) := by
  unfold W.SlimTrie.leftMost
  have hall : ∀ qr0, ∃ pq : Option (List Nat) × W.querySession,
      W.SlimTrie.leftMost_loop1 (some (absSlim s)) (absTrie s (varsOf s)) fuel (id, path, qr0)
        = some (Sum.inr (id', pq.1, pq.2)) ∧ (path = none → pq.1 = none) := fun qr0 => by
    obtain ⟨p, q, h1, h2⟩ := leftMost_loop_sem s ws hf fuel id id' path qr0 h
    exact ⟨(p, q), h1, h2⟩
  obtain ⟨f, hf'⟩ := Classical.axiomOfChoice hall
  have hq : ∀ qr0, W.SlimTrie.leftMost_loop1 (some (absSlim s)) (absTrie s (varsOf s)) fuel (id, path, qr0)
      = some (Sum.inr (id', (f qr0).1, (f qr0).2)) := fun qr0 => (hf' qr0).1
  refine ⟨?w, ?g1, ?g2⟩
  case g1 =>
    simp only [absTrie] at hq ⊢
    simp only [hq, Option.bind_eq_bind, bind_some_nr, Option.pure_def]
    rfl
  case g2 => exact (hf' _).2

/-! non-vacuity: `exSlim` satisfies `TrieFits`; the descents from its root -/

syntax "fits_tac" : tactic
macro_rules
  | `(tactic| fits_tac) => `(tactic|
  exact {
    wf := exSlim_wf
    id_lt := by decide
    rank_le := by intro nt r b hnt hrk; cases hnt; cases hrk; decide
    leaf := by
      intro nt r hnt hrk; cases hnt; cases hrk <;>
      (intro lp pres pos w r' h1 h2 h3 h4 h5; cases h1; cases h2; cases h3; cases h4; cases h5; decide)
    inner := by
      intro nt r hnt hrk; cases hnt; cases hrk <;>
      exact {
        ith_lt := by decide
        shortSize_le := by decide
        big_fits := by intro h; cases h
        small_fits := by intro sbm k c h1 h2; cases h1; cases h2; decide
        rank_sub := by intro ips pres w n h1 h2 h3 h4; cases h1; cases h2; cases h3; cases h4; decide
        pref_fits := by intro ips pres k c h1 h2 h3; cases h1; cases h2; cases h3; decide
        pos_fits := by intro ips pos h1 h2; cases h1; cases h2; decide } })

/-- `getNode` stays inside `int32` on every id of the (one-word) node-type bitmap of `exSlim` -/
theorem exSlim_fits (id : Nat) (h : id < 64) : GetNodeFits exSlim id := by
  iterate 64 (cases id; fits_tac; rename_i id)
  omega

theorem exSlim_rank_lt (id ith : Nat) (b : Bool) (h : rank64 { words := [7], rankIndex := [0] } id = .ok (ith, b)) :
    id < 64 := by
  unfold rank64 at h
  by_cases hlt : id < 64
  · exact hlt
  · have : ([7] : List Nat)[id / 64]? = none := List.getElem?_eq_none (by simp; omega)
    simp [this] at h

theorem exSlim_trieFits : TrieFits exSlim [2216209416204] where
  inn := by decide
  bits := by decide
  node := by
    intro id node h
    apply exSlim_fits
    rw [getNode_unfold] at h
    cases hrk : rank64 { words := [7], rankIndex := [0] } id with
    | error e => simp [exSlim, hrk, bind, Except.bind] at h
    | ok p => exact exSlim_rank_lt id p.1 p.2 hrk
  range := by
    intro nt id ith frm size short hnt hrk hif
    cases hnt
    have hlt := exSlim_rank_lt id ith true hrk
    iterate 64 (cases id; (cases hrk <;> (cases hif; decide)); rename_i id)
    omega
  short := by
    intro nt id ith frm size bm hnt hrk hif
    cases hnt
    have hlt := exSlim_rank_lt id ith true hrk
    iterate 64 (cases id; (cases hrk <;> cases hif); rename_i id)
    omega

example : W.SlimTrie.rightMost 4 (absTrie exSlim (varsOf exSlim)) 0 = some 6 := by decide
example : W.SlimTrie.rightMost 1 (absTrie exSlim (varsOf exSlim)) 0 = none := by decide
example : (rightMost (Slim.view exSlim) 4 0).toOption = some 6 := by decide
example : W.SlimTrie.leftMost 4 (absTrie exSlim (varsOf exSlim)) 0 none = some (none, 3) := by decide
example : W.SlimTrie.leftMost 4 (absTrie exSlim (varsOf exSlim)) 0 (some []) = some (some [0, 1, 3], 3) := by decide
example : (leftMost (Slim.view exSlim) 4 0).toOption = some 3 := by decide

end BridgeSem

#print axioms BridgeSem.getNode_inner_data
#print axioms BridgeSem.rightMost_loop_sem
#print axioms BridgeSem.rightMost_sem
#print axioms BridgeSem.leftMost_loop_sem
#print axioms BridgeSem.leftMost_sem
#print axioms BridgeSem.exSlim_trieFits
