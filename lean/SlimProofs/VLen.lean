import SlimModel.Slim
import SlimProofs.BitsLemmas
/-
  SlimProofs.VLen — leaf values at the bit level: `Slim.vlenGet` (Go `VLenArray.get`) on the
  message that `Slim.newVLenArray` (Go `newVLenArray`) builds returns exactly the supplied element,
  for every element list (no size bound), in both layouts:

  * fixed layout (all non-empty elements of one size `w`): the element is the slice
    `[k·w, k·w + w)` of `elts.flatten`, `k` = rank in the presence bitmap = number of non-empty
    elements in front;
  * variable layout: the slice between two consecutive set bits of the position bitmap
    `newBM (stepToPos sizes) 0 "s32"` (sizes including the zeros: duplicate positions), selected
    by the same rank — `Bits.select32R64_positions_nonEmptyIdx`.

  Main results: `vlenGet_newVLenArray`, `newVLenArray_none_iff`, `vlenGet_out_of_range`,
  `leafBytes_encode` (the L2 view reads the same leaf bytes as the L1 view).
-/
namespace Slim
open Bits

/-! ### sizes and slices of a flattened list -/

theorem sum_length_eq_zero_iff (elts : List Bytes) :
    (elts.map List.length).sum = 0 ↔ ∀ e ∈ elts, e = [] := by
  induction elts with
  | nil => simp
  | cons e es ih =>
    simp only [List.map_cons, List.sum_cons, List.mem_cons, forall_eq_or_imp]
    rw [← ih]
    constructor
    · intro h; exact ⟨List.length_eq_zero_iff.mp (by omega), by omega⟩
    · rintro ⟨h1, h2⟩; rw [h1, h2]; rfl

/-- element `i` is the slice of the flattened list that starts after the elements in front -/
theorem flatten_slice (elts : List Bytes) (i : Nat) (hi : i < elts.length) :
    ((elts.take i).map List.length).sum + elts[i].length ≤ elts.flatten.length ∧
    (elts.flatten.drop ((elts.take i).map List.length).sum).take elts[i].length = elts[i] := by
  induction elts generalizing i with
  | nil => simp at hi
  | cons e es ih =>
    cases i with
    | zero => simp
    | succ i =>
      have hi' : i < es.length := by simpa using hi
      obtain ⟨h1, h2⟩ := ih i hi'
      simp only [List.take_succ_cons, List.map_cons, List.sum_cons, List.getElem_cons_succ,
        List.flatten_cons, List.length_append]
      refine ⟨by omega, ?_⟩
      rw [List.drop_append, List.drop_eq_nil_of_le (by omega), Nat.add_sub_cancel_left,
        List.nil_append]
      exact h2

theorem sliceBytes_ok (bs : Bytes) (a n : Nat) (h : a + n ≤ bs.length) :
    sliceBytes bs a (a + n) = .ok ((bs.drop a).take n) := by
  unfold sliceBytes
  rw [if_pos ⟨by omega, h⟩, Nat.add_sub_cancel_left]

/-- `p j`: element `j` is non-empty -/
def nonEmptyAt (sizes : List Nat) (j : Nat) : Bool := decide (sizes.getD j 0 > 0)

/-- when every non-empty size is `w`, the bytes in front of `i` are `w` times the number of
    non-empty elements in front of `i` -/
theorem sum_take_fixed (sizes : List Nat) (w : Nat) (h : ∀ s ∈ sizes, s = 0 ∨ s = w) (i : Nat) :
    (sizes.take i).sum = cnt (nonEmptyAt sizes) i * w := by
  induction i with
  | zero => simp
  | succ i ih =>
    rw [List.take_add_one, List.sum_append, ih, cnt_succ, Nat.add_mul]
    congr 1
    unfold nonEmptyAt
    rw [List.getD_eq_getElem?_getD]
    cases hs : sizes[i]? with
    | none => simp
    | some s =>
      have hm : s ∈ sizes := List.mem_of_getElem? hs
      rcases h s hm with h0 | hw
      · subst h0; simp
      · subst hw
        by_cases h0 : s = 0
        · subst h0; simp
        · have : s > 0 := by omega
          simp [this]

/-! ### the fields of `newVLenArray elts` -/

/-- `nonEmptyIdx` of `newVLenArray` -/
def nonEmptyIdx (elts : List Bytes) : List Nat :=
  (List.range elts.length).filter (fun i => ((elts.map List.length).getD i 0) > 0)

theorem all_eq_of_allEqual (l : List Nat) (z : Nat) (zs : List Nat) (hl : l = z :: zs)
    (h : zs.all (· == z) = true) : (∀ s ∈ l, s = z) ∧ l.getLast?.getD 0 = z := by
  subst hl
  have hall : ∀ s ∈ z :: zs, s = z := by
    intro s hs
    rcases List.mem_cons.mp hs with rfl | hs
    · rfl
    · have := List.all_eq_true.mp h s hs
      simpa using this
  refine ⟨hall, ?_⟩
  have hne : z :: zs ≠ [] := by simp
  rw [List.getLast?_eq_some_getLast hne]
  exact hall _ (List.getLast_mem hne)

/-- the `allEqual` test of `newVLenArray` -/
def allEqual (l : List Nat) : Bool :=
  match l with
  | [] => true
  | z :: zs => zs.all (· == z)

/-- `newVLenArray` with its `let`s spelled out -/
theorem newVLenArray_eq (elts : List Bytes) :
    newVLenArray elts =
      if (elts.map List.length).sum = 0 then none else
      if allEqual ((elts.map List.length).filter (· > 0)) then
        some { n := elts.length, eltCnt := (nonEmptyIdx elts).length, bytes := elts.flatten,
               presenceBM := some (newBM (nonEmptyIdx elts) elts.length "r64"),
               fixedSize := ((elts.map List.length).filter (· > 0)).getLast?.getD 0 }
      else
        some { n := elts.length, eltCnt := (nonEmptyIdx elts).length, bytes := elts.flatten,
               presenceBM := some (newBM (nonEmptyIdx elts) elts.length "r64"),
               positionBM := some (newBM (stepToPos (elts.map List.length)) 0 "s32") } := rfl

/-- The message `newVLenArray` builds: common fields, and one of the two layouts. -/
theorem newVLenArray_fields (elts : List Bytes) (va : VLenArrayMsg)
    (h : newVLenArray elts = some va) :
    (elts.map List.length).sum ≠ 0 ∧
    va.n = elts.length ∧ va.bytes = elts.flatten ∧
    va.presenceBM = some (newBM (nonEmptyIdx elts) elts.length "r64") ∧
    ((va.positionBM = none ∧ ∀ s ∈ elts.map List.length, s = 0 ∨ s = va.fixedSize) ∨
     va.positionBM = some (newBM (stepToPos (elts.map List.length)) 0 "s32")) := by
  rw [newVLenArray_eq] at h
  by_cases htot : (elts.map List.length).sum = 0
  · rw [if_pos htot] at h; cases h
  · rw [if_neg htot] at h
    refine ⟨htot, ?_⟩
    by_cases hall : allEqual ((elts.map List.length).filter (· > 0)) = true
    · rw [if_pos hall] at h
      cases h
      refine ⟨rfl, rfl, rfl, Or.inl ⟨rfl, ?_⟩⟩
      simp only
      intro s hs
      by_cases h0 : s = 0
      · exact Or.inl h0
      · right
        have hmem : s ∈ (elts.map List.length).filter (· > 0) := by
          simp only [List.mem_filter, decide_eq_true_eq]; exact ⟨hs, by omega⟩
        cases hl : (elts.map List.length).filter (· > 0) with
        | nil => rw [hl] at hmem; simp at hmem
        | cons z zs =>
          rw [hl] at hall hmem
          obtain ⟨h1, h2⟩ := all_eq_of_allEqual _ z zs rfl hall
          rw [h2]; exact h1 s hmem
    · rw [if_neg hall] at h
      cases h
      exact ⟨rfl, rfl, rfl, Or.inr rfl⟩

theorem newVLenArray_none_iff (elts : List Bytes) :
    newVLenArray elts = none ↔ ∀ e ∈ elts, e = [] := by
  rw [← sum_length_eq_zero_iff, newVLenArray_eq]
  constructor
  · intro h
    by_cases htot : (elts.map List.length).sum = 0
    · exact htot
    · rw [if_neg htot] at h
      split at h <;> cases h
  · intro h; rw [if_pos h]

/-! ### the presence bitmap -/

theorem rank64_ok_inv (b : BitmapMsg) (i R : Nat) (B : Bool) (h : rank64 b i = .ok (R, B)) :
    ∃ w n, b.words[i / 64]? = some w ∧ b.rankIndex[i / 64]? = some n ∧
      R = n + popcount (w % 2 ^ (i % 64)) ∧ B = w.testBit (i % 64) := by
  unfold rank64 at h
  split at h
  · next w n hw hn =>
    cases h
    exact ⟨w, n, hw, hn, rfl, rfl⟩
  · cases h

theorem mem_nonEmptyIdx (elts : List Bytes) (j : Nat) :
    j ∈ nonEmptyIdx elts ↔ nonEmptyAt (elts.map List.length) j = true := by
  unfold nonEmptyIdx nonEmptyAt
  simp only [List.mem_filter, List.mem_range, decide_eq_true_eq]
  constructor
  · exact fun h => h.2
  · intro h
    refine ⟨?_, h⟩
    rcases Nat.lt_or_ge j elts.length with hj | hj
    · exact hj
    · rw [List.getD_eq_getElem?_getD, List.getElem?_eq_none (by simpa using hj)] at h
      simp at h

/-- For `i` inside the array: the word and rank-index entry that `vlenGet` reads from the presence
    bitmap exist, the bit says whether element `i` is non-empty, and entry + popcount is the number
    of non-empty elements in front of `i`. -/
theorem presence_read (elts : List Bytes) (i : Nat) (hi : i < elts.length) :
    ∃ w r, (newBM (nonEmptyIdx elts) elts.length "r64").words[i / 64]? = some w ∧
      (newBM (nonEmptyIdx elts) elts.length "r64").rankIndex[i / 64]? = some r ∧
      w.testBit (i % 64) = nonEmptyAt (elts.map List.length) i ∧
      r + popcount (w % 2 ^ (i % 64)) = cnt (nonEmptyAt (elts.map List.length)) i := by
  have hlen : i < 64 * (ofIdx (nonEmptyIdx elts) elts.length).length := by
    rw [ofIdx_length']; omega
  have hbit : ∀ j, j < 64 * (ofIdx (nonEmptyIdx elts) elts.length).length →
      getBit (ofIdx (nonEmptyIdx elts) elts.length) j = nonEmptyAt (elts.map List.length) j := by
    intro j hj
    rw [getBit_ofIdx _ _ _ hj, Bool.eq_iff_iff, decide_eq_true_eq, mem_nonEmptyIdx]
  have hr : rank64 (newBM (nonEmptyIdx elts) elts.length "r64") i
      = .ok (cnt (getBit (ofIdx (nonEmptyIdx elts) elts.length)) i,
             getBit (ofIdx (nonEmptyIdx elts) elts.length) i) := by
    unfold newBM
    rw [mk_r64]
    exact rank64_of_index _ false [] i hlen
  obtain ⟨w, r, hw, hrk, hR, hB⟩ := rank64_ok_inv _ _ _ _ hr
  refine ⟨w, r, hw, hrk, ?_, ?_⟩
  · rw [← hB, hbit i hlen]
  · rw [← hR]
    exact cnt_congr (fun j hj => hbit j (by omega))

/-! ### `vlenGet` -/

/-- what `vlenGet` does once the presence bit is found set: `k` is the rank -/
def vlenTail (va : VLenArrayMsg) (k : Nat) : Except Err Bytes :=
  match va.positionBM with
  | none => sliceBytes va.bytes (k * va.fixedSize) (k * va.fixedSize + va.fixedSize)
  | some pos => do
    let (a, b) ← select32R64 pos k
    sliceBytes va.bytes a b

theorem vlenGet_eq (va : VLenArrayMsg) (i : Nat) (pres : BitmapMsg) (w r : Nat)
    (hn : i < va.n) (hp : va.presenceBM = some pres) (hw : pres.words[i / 64]? = some w)
    (hr : pres.rankIndex[i / 64]? = some r) :
    vlenGet va i =
      if w.testBit (i % 64) = false then .ok []
      else vlenTail va (r + popcount (w % 2 ^ (i % 64))) := by
  unfold vlenGet vlenTail
  have : ¬ (i ≥ va.n) := by omega
  simp only [this, hp, hw, hr, if_false]
  cases hb : w.testBit (i % 64)
  · rfl
  · simp only [Bool.not_true, Bool.false_eq_true, if_false]
    cases va.positionBM <;> rfl

theorem vlenGet_newVLenArray (elts : List Bytes) (va : VLenArrayMsg)
    (h : newVLenArray elts = some va) (i : Nat) (hi : i < elts.length) :
    vlenGet va i = .ok (elts.getD i []) := by
  obtain ⟨_, hn, hbytes, hpres, hlayout⟩ := newVLenArray_fields elts va h
  obtain ⟨w, r, hw, hr, hbit, hrank⟩ := presence_read elts i hi
  rw [vlenGet_eq va i _ w r (by omega) hpres hw hr, hbit, hrank]
  have hget : elts.getD i [] = elts[i] := by
    rw [List.getD_eq_getElem?_getD, List.getElem?_eq_getElem hi]; rfl
  have hsz : (elts.map List.length).getD i 0 = elts[i].length := by
    rw [List.getD_eq_getElem?_getD, List.getElem?_map, List.getElem?_eq_getElem hi]; rfl
  rw [hget]
  by_cases hne : nonEmptyAt (elts.map List.length) i = false
  · rw [if_pos hne]
    unfold nonEmptyAt at hne
    rw [hsz] at hne
    have : elts[i].length = 0 := by simpa using hne
    rw [List.length_eq_zero_iff.mp this]
  · rw [if_neg hne]
    have hne' : nonEmptyAt (elts.map List.length) i = true := by
      cases hx : nonEmptyAt (elts.map List.length) i
      · exact absurd hx hne
      · rfl
    obtain ⟨hb1, hb2⟩ := flatten_slice elts i hi
    unfold vlenTail
    rcases hlayout with ⟨hpos, hfix⟩ | hpos
    · -- fixed layout
      rw [hpos]
      simp only
      have hsum := sum_take_fixed (elts.map List.length) va.fixedSize hfix i
      rw [List.map_take] at hb1 hb2
      rw [← hsum]
      have hw' : elts[i].length = va.fixedSize := by
        have hm : elts[i].length ∈ elts.map List.length :=
          List.mem_map.mpr ⟨elts[i], List.getElem_mem hi, rfl⟩
        rcases hfix _ hm with h0 | hw'
        · unfold nonEmptyAt at hne'
          rw [hsz, h0] at hne'
          simp at hne'
        · exact hw'
      rw [← hw', hbytes, sliceBytes_ok _ _ _ hb1, hb2]
    · -- variable layout
      rw [hpos]
      simp only
      have hsel : ((List.range (elts.map List.length).length).filter
          (fun j => (elts.map List.length).getD j 0 > 0))[cnt (nonEmptyAt (elts.map List.length)) i]?
          = some i := by
        rw [filter_range_getElem?_eq_some]
        exact ⟨by simpa using hi, hne', rfl⟩
      rw [select32R64_positions_nonEmptyIdx _ i _ hsel]
      simp only [bind, Except.bind]
      rw [List.map_take] at hb1 hb2
      rw [hsz, hbytes, sliceBytes_ok _ _ _ hb1, hb2]

theorem vlenGet_out_of_range (elts : List Bytes) (va : VLenArrayMsg)
    (h : newVLenArray elts = some va) (i : Nat) (hi : i ≥ elts.length) :
    ∃ msg, vlenGet va i = .error (.panic msg) := by
  obtain ⟨_, hn, _⟩ := newVLenArray_fields elts va h
  refine ⟨"out of bound", ?_⟩
  unfold vlenGet
  have : i ≥ va.n := by omega
  simp only [this, if_true]
  rfl

/-! ### the views -/

theorem encodeCreator_leaves (t : Trie1) :
    (encodeCreator t).leaves = match t.elts with
      | some es => newVLenArray es
      | none => none := by
  unfold encodeCreator
  simp only
  cases t.elts <;> rfl

theorem encode_leaves (t : Trie1) (hn : t.nodes.size ≠ 0) :
    (encode t).leaves = match t.elts with
      | some es => newVLenArray es
      | none => none := by
  unfold encode
  rw [if_neg hn, encodeCreator_leaves]

/-- The L2 view (decoding the `Slim` message) reads the same leaf bytes as the L1 view, at every
    leaf ordinal (in range: the element; out of range: the same panic; all elements empty or no
    values: `nil`). -/
theorem leafBytes_encode (t : Trie1) (hn : t.nodes.size ≠ 0) (ith : Nat) :
    (view (encode t)).leafBytes ith = t.view.leafBytes ith := by
  simp only [view, Trie1.view, encode_leaves t hn]
  cases he : t.elts with
  | none => rfl
  | some es =>
    simp only
    cases hva : newVLenArray es with
    | none =>
      have h0 : eltsTotal es = 0 :=
        (sum_length_eq_zero_iff es).mpr ((newVLenArray_none_iff es).mp hva)
      simp [h0]
    | some va =>
      have h0 : ¬ eltsTotal es = 0 := (newVLenArray_fields es va hva).1
      simp only [h0, if_false]
      rcases Nat.lt_or_ge ith es.length with hi | hi
      · rw [vlenGet_newVLenArray es va hva ith hi, List.getElem?_eq_getElem hi]
        simp [List.getD_eq_getElem?_getD, List.getElem?_eq_getElem hi, bind, Except.bind, pure, Except.pure]
      · rw [List.getElem?_eq_none hi]
        obtain ⟨_, hn', _⟩ := newVLenArray_fields es va hva
        have : vlenGet va ith = .error (.panic "out of bound") := by
          unfold vlenGet
          have : ith ≥ va.n := by omega
          simp only [this, if_true]
          rfl
        simp [this, bind, Except.bind]

theorem leafBytes_encode_none (t : Trie1) (he : t.elts = none) (ith : Nat) :
    (view (encode t)).leafBytes ith = .ok none ∧ t.view.leafBytes ith = .ok none := by
  constructor
  · unfold encode
    split
    · rfl
    · simp only [view, encodeCreator_leaves, he]
  · simp only [Trie1.view, he]

/-! ### concrete instances -/

/-- variable layout (sizes 2, 0, 1), an empty element in the middle -/
example : ∃ va, newVLenArray [[1, 2], [], [3]] = some va ∧ va.positionBM.isSome = true ∧
    vlenGet va 2 = .ok [3] ∧ vlenGet va 1 = .ok [] := by
  cases h : newVLenArray [[1, 2], [], [3]] with
  | none => exact absurd ((newVLenArray_none_iff _).mp h [3] (by simp)) (by simp)
  | some va =>
    refine ⟨va, rfl, ?_, vlenGet_newVLenArray _ va h 2 (by decide), vlenGet_newVLenArray _ va h 1 (by decide)⟩
    rw [newVLenArray_eq] at h
    have : allEqual (([[1, 2], [], [3]] : List Bytes).map List.length |>.filter (· > 0)) = false := by decide
    simp only [this] at h
    rw [if_neg (by decide)] at h
    cases h; rfl

end Slim
