import SlimModel.Slim
/-
  SlimProofs.Shape — the key-independent half of well-formedness: what the bit-level encoding
  (`Slim.encode`, L2) needs to know about the record array in order to decode it back.

  `build_shape` (SlimProofs.BuildShape) establishes it for every successful `build`;
  the refinement theorem L2 ⊑ L1 (SlimProofs.Refine) consumes it.
-/

def Node.isInner : Node → Bool
  | .inner _ => true
  | .leaf _ _ => false

/-- the inner records among the first `j` nodes -/
def innersBefore (nodes : Array Node) (j : Nat) : List InnerRec :=
  (nodes.toList.take j).filterMap (fun n => match n with | .inner r => some r | .leaf _ _ => none)

/-- number of leaves among the first `j` nodes -/
def leavesBefore (nodes : Array Node) (j : Nat) : Nat :=
  ((nodes.toList.take j).filter (fun n => !n.isInner)).length

def labelBound (big : Bool) : Nat := if big then 257 else 17

def PrefOK (opt : Opt) : Pref → Prop
  | .none => True
  | .step n => opt.inner = false ∧ 0 < n ∧ n < 65536
  | .stored ns => opt.inner = true ∧ 0 < ns.length ∧ ∀ x ∈ ns, x < 16

structure ShapeOK (t : Trie1) : Prop where
  nonempty : 0 < t.nodes.size
  /-- BFS law: the first child of an inner node is 1 + the number of labels of all earlier inner nodes -/
  firstChild : ∀ (j : Nat) (r : InnerRec), t.nodes[j]? = some (Node.inner r) →
    r.firstChild = 1 + ((innersBefore t.nodes j).map (fun r => r.labels.length)).sum
  /-- every node except the root is the child of exactly one label -/
  total : t.nodes.size = 1 + ((innersBefore t.nodes t.nodes.size).map (fun r => r.labels.length)).sum
  /-- leaf ordinals count the leaves in BFS order -/
  leafOrd : ∀ (j ith : Nat) (lp : Option Bytes), t.nodes[j]? = some (Node.leaf ith lp) → ith = leavesBefore t.nodes j
  labels : ∀ (j : Nat) (r : InnerRec), t.nodes[j]? = some (Node.inner r) →
    r.labels ≠ [] ∧ r.labels.Pairwise (· < ·) ∧ ∀ l ∈ r.labels, l < labelBound r.big
  /-- the big (257-bit) nodes are exactly the first `bigCnt` inner nodes -/
  bigPrefix : ∀ (j : Nat) (r : InnerRec), t.nodes[j]? = some (Node.inner r) →
    (r.big = true ↔ (innersBefore t.nodes j).length < t.bigCnt)
  pref : ∀ (j : Nat) (r : InnerRec), t.nodes[j]? = some (Node.inner r) → PrefOK t.opt r.pref
  leafPref : ∀ (j ith : Nat) (b : Bytes), t.nodes[j]? = some (Node.leaf ith (some b)) → t.opt.leaf = true ∧ b ≠ []
  leafCnt : t.leafKeyIdx.size = leavesBefore t.nodes t.nodes.size
  elts : ∀ es, t.elts = some es → es.length = t.leafKeyIdx.size
