import SlimProofs.SizePrefixEnc
/-
  SlimProofs.SizePrefixExact — C17, the two exact statements behind the prefix clause:

  * when the root already carries a step, lengthening it changes two raw bytes of
    `InnerPrefixes.Bytes` and nothing else: the serialized sizes are EQUAL
    (`vlen_size_same`, `marshal_size_same`; no size hypothesis);
  * when the root gains its first step (finding K1), the presence bitmap of `InnerPrefixes` gets
    index 0 and every entry of its `"r128"` rank index after the first grows by exactly one
    (`indexRank128_cons_zero`, `presence_rank_gain`).
-/

namespace SizePrefixExact

open Bits Slim Refine Wire SizeV SizePrefixEnc

/-! ### the root keeps its step -/

/-- `InnerPrefixes` has the same size when the root's step only gets longer -/
theorem vlen_size_same {t t' : Trie1} {a a' : InnerRec} {ns : List Node}
    (hn : t.nodes.toList = .inner a :: ns) (hn' : t'.nodes.toList = .inner a' :: ns)
    (hopt : t.opt.inner = false) (hopt' : t'.opt.inner = false) (ws d : Nat) (hws : ws ≠ 0)
    (hp : a.pref = SizePrefix.stepPref ws) (hp' : a'.pref = SizePrefix.stepPref (ws + d)) :
    protoSizeVLenArray (eIps t') = protoSizeVLenArray (eIps t) := by
  rw [protoSizeVLenArray_filter t hopt, protoSizeVLenArray_filter t' hopt']
  have hI := eInners_length_eq hn hn'
  have hwd : ws + d ≠ 0 := by omega
  have e1 : ePrefIdx t' = ePrefIdx t := by
    rw [ePrefIdx_cons hn, ePrefIdx_cons hn', hasPref_stepPref a ws hp,
      hasPref_stepPref a' (ws + d) hp']
    simp [hws]
  have e2 : ((eInners t').filterMap stepOf).flatten.length
      = ((eInners t).filterMap stepOf).flatten.length := by
    rw [eInners_cons hn, eInners_cons hn', List.filterMap_cons, List.filterMap_cons,
      stepOf_stepPref a ws hp, stepOf_stepPref a' (ws + d) hp']
    simp [hws, encStep]
  rw [e1, hI, sizeBytesF_congr 30 _ _ e2]

/-- … and so has the whole serialized message -/
theorem marshal_size_same {t t' : Trie1} {a a' : InnerRec} {ns : List Node}
    (hn : t.nodes.toList = .inner a :: ns) (hn' : t'.nodes.toList = .inner a' :: ns)
    (hb : a'.big = a.big) (hl : a'.labels = a.labels)
    (hopt' : t'.opt = t.opt) (hbc : t'.bigCnt = t.bigCnt) (helts : t'.elts = t.elts)
    (hopt : t.opt.inner = false) (ws d : Nat) (hws : ws ≠ 0)
    (hp : a.pref = SizePrefix.stepPref ws) (hp' : a'.pref = SizePrefix.stepPref (ws + d)) :
    (marshalSlim (encode t')).length = (marshalSlim (encode t)).length := by
  have hne : t.nodes.size ≠ 0 := by
    have := congrArg List.length hn; simp at this; omega
  have hne' : t'.nodes.size ≠ 0 := by
    have := congrArg List.length hn'; simp at this; omega
  rw [encode_eq t hne, encode_eq t' hne']
  simp only [marshalSlim, Frame.frame_length, ← protoSizeSlim_eq]
  have hdiff := protoSizeSlim_diff hn hn' hb hl hopt' hbc helts
  rw [vlen_size_same hn hn' hopt (by rw [hopt']; exact hopt) ws d hws hp hp'] at hdiff
  omega

/-! ### the root gains a step: the rank index of the presence bitmap -/

/-- counting set bits after index 0 has been added -/
theorem cnt_ofIdx_cons_zero (idx : List Nat) (capa : Nat) (h0 : 0 ∉ idx)
    (hlt : ∀ i ∈ idx, i < capa) (hc : 0 < capa) (n : Nat) (hn : 0 < n) :
    cnt (getBit (ofIdx (0 :: idx) capa)) n = cnt (getBit (ofIdx idx capa)) n + 1 := by
  have hlt' : ∀ i ∈ 0 :: idx, i < capa := by
    intro i hi; simp only [List.mem_cons] at hi
    rcases hi with rfl | hi
    · exact hc
    · exact hlt i hi
  have hlen := ofIdx_length_capa idx capa hlt
  have hlen' := ofIdx_length_capa (0 :: idx) capa hlt'
  have hpos : 0 < 64 * ((capa + 63) / 64) := by omega
  obtain ⟨m, rfl⟩ : ∃ m, n = 1 + m := ⟨n - 1, by omega⟩
  rw [cnt_add, cnt_add]
  have e : cnt (fun j => getBit (ofIdx (0 :: idx) capa) (1 + j)) m
      = cnt (fun j => getBit (ofIdx idx capa) (1 + j)) m := by
    apply cnt_congr
    intro j _
    rcases Nat.lt_or_ge (1 + j) (64 * ((capa + 63) / 64)) with hj | hj
    · rw [getBit_ofIdx _ _ _ (by rw [hlen']; exact hj), getBit_ofIdx _ _ _ (by rw [hlen]; exact hj)]
      simp
    · rw [getBit_of_ge (by rw [hlen']; exact hj), getBit_of_ge (by rw [hlen]; exact hj)]
  have h1 : cnt (getBit (ofIdx idx capa)) 1 = 0 := by
    rw [show (1 : Nat) = 0 + 1 from rfl, cnt_succ, cnt_zero,
      getBit_ofIdx idx capa 0 (by rw [hlen]; exact hpos)]
    simp [h0]
  have h1' : cnt (getBit (ofIdx (0 :: idx) capa)) 1 = 1 := by
    rw [show (1 : Nat) = 0 + 1 from rfl, cnt_succ, cnt_zero,
      getBit_ofIdx (0 :: idx) capa 0 (by rw [hlen']; exact hpos)]
    simp
  rw [e, h1, h1']; omega

/-- the `"r128"` rank index after index 0 has been added: entry 0 stays 0, every later entry
    grows by exactly one -/
theorem indexRank128_cons_zero (idx : List Nat) (capa : Nat) (h0 : 0 ∉ idx)
    (hlt : ∀ i ∈ idx, i < capa) (hc : 0 < capa) (k : Nat) :
    (indexRank128 (ofIdx (0 :: idx) capa))[k]?
      = (indexRank128 (ofIdx idx capa))[k]?.map (fun x => if k = 0 then x else x + 1) := by
  have hlt' : ∀ i ∈ 0 :: idx, i < capa := by
    intro i hi; simp only [List.mem_cons] at hi
    rcases hi with rfl | hi
    · exact hc
    · exact hlt i hi
  rw [indexRank128_getElem?, indexRank128_getElem?, ofIdx_length_capa idx capa hlt,
    ofIdx_length_capa (0 :: idx) capa hlt']
  split
  · simp only [Option.map_some]
    congr 1
    by_cases hk : k = 0
    · subst hk; simp
    · rw [if_neg hk]
      exact cnt_ofIdx_cons_zero idx capa h0 hlt hc _ (by omega)
  · rfl

/-- Finding K1 at the level of the message: when the root gains its first step, the presence
    bitmap of `InnerPrefixes` is built from `0 :: idx` instead of `idx`, so (by
    `indexRank128_cons_zero`) every entry of its rank index after the first is one larger. -/
theorem presence_rank_gain {t t' : Trie1} {a a' : InnerRec} {ns : List Node}
    (hn : t.nodes.toList = .inner a :: ns) (hn' : t'.nodes.toList = .inner a' :: ns)
    (d : Nat) (hd : d ≠ 0)
    (hp : a.pref = SizePrefix.stepPref 0) (hp' : a'.pref = SizePrefix.stepPref (0 + d)) (k : Nat) :
    ePrefIdx t' = 0 :: ePrefIdx t ∧
    (newBM (ePrefIdx t') (eInners t').length "r128").rankIndex[k]?
      = (newBM (ePrefIdx t) (eInners t).length "r128").rankIndex[k]?.map
          (fun x => if k = 0 then x else x + 1) := by
  have hI := eInners_length_eq hn hn'
  have e1 : ePrefIdx t = tailIdx (ns.filterMap innerOf) := by
    rw [ePrefIdx_cons hn, hasPref_stepPref a 0 hp]; simp
  have e1' : ePrefIdx t' = 0 :: tailIdx (ns.filterMap innerOf) := by
    rw [ePrefIdx_cons hn', hasPref_stepPref a' (0 + d) hp']; simp [hd]
  obtain ⟨s0, slt⟩ := tailIdx_spec (ns.filterMap innerOf)
  have hlenI : (eInners t).length = (ns.filterMap innerOf).length + 1 := by
    rw [eInners_cons hn]; rfl
  refine ⟨by rw [e1', e1], ?_⟩
  rw [e1', e1, hI]
  show (indexRank128 (ofIdx (0 :: tailIdx (ns.filterMap innerOf)) (eInners t).length))[k]? = _
  exact indexRank128_cons_zero _ _ s0 (by rw [hlenI]; exact slt) (by rw [hlenI]; omega) k

end SizePrefixExact
