import Generated.Funcs
import SlimProps.BridgeSem.Common
import SlimProps.BridgeSem.EncCodec
import SlimProofs.IndexExact
/-
  SlimProps.BridgeSem.IndexGlue — tie 1, semantic part: the glue of package index (index/index.go)
  around the trie, against SlimModel/Index.lean.

  * `newSlimIndexArgs_sem`  the statements of `NewSlimIndex` before the call of `trie.NewSlimTrie`
                            (the loop that splits `[]OffsetIndexItem`): the keys and the offsets
                            passed to `NewSlimTrie` are the keys and the offsets of the items, in
                            order.
  * `newSlimIndex_model`    with `encode.I64{}.Encode` (`encodeI64_sem`): the keys and the encoded
                            values are those that the model's `Index.new` gives to `build`
                            (`recs.map (·.key)`, `recs.map (encI64 ·.offset)`).
  * `slimIndexGetOffset_sem`, `slimIndexRangeGetOffset_sem`
                            the offset that `Get` / `RangeGet` pass to `DataReader.Read` is the
                            value the trie returned, asserted to `int64`; with
                            `encode.I64{}.Decode` (`decodeI64_sem`) it is the model's
                            `Slim.leSigned` of the stored 8 bytes (`Index.lookup`).

  External calls assumed: `trie.NewSlimTrie`, `SlimTrie.Get` / `RangeGet` (the other properties) and
  `DataReader.Read` (supplied by the caller) are not part of the fragments; a slice of structs is a
  list of tuples, a type assertion `o.(int64)` is the identity on an `int64`.
  See SlimProps/BridgeSem.lean for the overview.
-/

set_option linter.unusedSimpArgs false
set_option linter.unusedVariables false

open Generated

namespace BridgeSem

/-- **`NewSlimIndex`, before `trie.NewSlimTrie`**: the keys and the offsets of the items, in order.

    The statement does not depend on how the loop fills the two slices; the proof covers the two
    usual ways (an invariant is needed for the induction over the generated loop, and it is not the
    same): appending to empty slices, or assigning the elements of slices made with the full length. -/
theorem newSlimIndexArgs_sem (index : List (List Nat × Nat)) (hl : index.length < 2 ^ 63) :
    Generated.newSlimIndexArgs index = (index.map (·.1), index.map (·.2)) := by
  have hgetD : ∀ i (h : i < index.length), index.getD i ([], 0) = index[i] := by
    intro i h
    rw [List.getD_eq_getElem?_getD, List.getElem?_eq_getElem h]; rfl
  first
  | -- `keys = append(keys, …)` on `make([]T, 0, …)`
    have spec : ∀ fuel i keys offs, i ≤ index.length → index.length - i ≤ fuel →
        Generated.newSlimIndexArgs_loop1 index index.length fuel (i, keys, offs)
          = (index.length, keys ++ (index.drop i).map (·.1), offs ++ (index.drop i).map (·.2)) := by
      intro fuel
      induction fuel with
      | zero =>
        intro i keys offs h1 h2
        have : i = index.length := by omega
        subst this
        simp [Generated.newSlimIndexArgs_loop1]
      | succ fuel ih =>
        intro i keys offs h1 h2
        rw [Generated.newSlimIndexArgs_loop1]
        rw [ltS_small (by omega) (by omega)]
        by_cases hlt : i < index.length
        · simp only [hlt, decide_true, if_true, hgetD i hlt]
          rw [add_small (by omega), ih (i + 1) _ _ (by omega) (by omega), List.drop_eq_getElem_cons hlt]
          simp only [List.map_cons, List.append_assoc, List.singleton_append, List.cons_append,
            List.nil_append]
        · have : i = index.length := by omega
          subst this
          simp
    unfold Generated.newSlimIndexArgs
    have h := spec index.length 0 [] [] (Nat.zero_le _) (by omega)
    simp [h]
  | -- `keys[i] = …` on `make([]T, len(index))`
    have spec : ∀ fuel i (keys : List (List Nat)) (offs : List Nat), i ≤ index.length →
        index.length - i ≤ fuel → keys.length = index.length → offs.length = index.length →
        Generated.newSlimIndexArgs_loop1 index index.length fuel (i, keys, offs)
          = (index.length, keys.take i ++ (index.drop i).map (·.1),
              offs.take i ++ (index.drop i).map (·.2)) := by
      intro fuel
      induction fuel with
      | zero =>
        intro i keys offs h1 h2 hk ho
        have : i = index.length := by omega
        subst this
        have e1 : keys.take index.length = keys := by rw [← hk]; exact List.take_length
        have e2 : offs.take index.length = offs := by rw [← ho]; exact List.take_length
        simp [Generated.newSlimIndexArgs_loop1, e1, e2]
      | succ fuel ih =>
        intro i keys offs h1 h2 hk ho
        rw [Generated.newSlimIndexArgs_loop1]
        rw [ltS_small (by omega) (by omega)]
        by_cases hlt : i < index.length
        · simp only [hlt, decide_true, if_true, hgetD i hlt]
          rw [add_small (by omega), ih (i + 1) _ _ (by omega) (by omega) (by simpa using hk)
            (by simpa using ho), List.drop_eq_getElem_cons hlt,
            take_succ_set _ _ _ (by omega), take_succ_set _ _ _ (by omega)]
          simp only [List.map_cons, List.append_assoc, List.singleton_append, List.cons_append,
            List.nil_append]
        · have : i = index.length := by omega
          subst this
          have e1 : keys.take index.length = keys := by rw [← hk]; exact List.take_length
          have e2 : offs.take index.length = offs := by rw [← ho]; exact List.take_length
          simp [e1, e2]
    unfold Generated.newSlimIndexArgs
    have h := spec index.length 0 (List.replicate index.length []) (List.replicate index.length 0)
      (Nat.zero_le _) (by omega) (by simp) (by simp)
    simp [h]

/-- the Go value of `[]OffsetIndexItem`: the key bytes and the bit pattern of the `int64` offset -/
def goItems (recs : List Index.Record) : List (List Nat × Nat) :=
  recs.map fun r => (r.key.map UInt8.toNat, Go.ofS 64 r.offset)

/-- **`NewSlimIndex` vs. `Index.new`**: the keys given to `NewSlimTrie` and the `encode.I64`
    encodings of the offsets given to it are the arguments of the model's `build`. -/
theorem newSlimIndex_model (recs : List Index.Record) (hl : recs.length < 2 ^ 63) :
    (Generated.newSlimIndexArgs (goItems recs)).1 = (recs.map (·.key)).map (·.map UInt8.toNat) ∧
    ((Generated.newSlimIndexArgs (goItems recs)).2).map Generated.encodeI64
      = (recs.map (fun r => Index.encI64 r.offset)).map (·.map UInt8.toNat) := by
  rw [newSlimIndexArgs_sem _ (by simpa [goItems] using hl)]
  refine ⟨by simp [goItems], ?_⟩
  simp only [goItems, List.map_map]
  apply List.map_congr_left
  intro r _
  simp only [Function.comp]
  rw [encodeI64_sem]
  rfl

/-- **`SlimIndex.Get`**: the offset passed to `DataReader.Read` is the trie's value as an `int64`;
    for the value `encode.I64{}.Decode` yields on the stored bytes `b`, the model's
    `Slim.leSigned b` (`Index.lookup`). -/
theorem slimIndexGetOffset_sem (b : Bytes) (hb : b.length = 8) :
    Generated.slimIndexGetOffset (Go.ofS 64 (Generated.decodeI64 (b.map UInt8.toNat)).2)
      = Slim.leSigned b := by
  have hd := (decodeI64_sem b (by omega)).1
  have hm : Encode.decodeS 8 b = .ok (8, Slim.leSigned b) := by
    unfold Encode.decodeS
    rw [if_neg (by omega), IndexExact.leSigned_eq_toS b hb, List.take_of_length_le (by omega)]
  rw [hm] at hd
  injection hd with hd
  injection hd with _ hd
  rw [← hd]
  unfold Generated.slimIndexGetOffset
  have hr : IndexExact.InI64 (Slim.leSigned b) := by
    rw [IndexExact.leSigned_eq_toS b hb]
    have := leVal_take_lt 8 b
    rw [List.take_of_length_le (by omega)] at this
    unfold Encode.toS IndexExact.InI64
    split <;> constructor <;> omega
  exact toS_ofS (by omega) hr.1 hr.2

theorem slimIndexRangeGetOffset_sem (b : Bytes) (hb : b.length = 8) :
    Generated.slimIndexRangeGetOffset (Go.ofS 64 (Generated.decodeI64 (b.map UInt8.toNat)).2)
      = Slim.leSigned b := by
  have h := slimIndexGetOffset_sem b hb
  unfold Generated.slimIndexGetOffset at h
  unfold Generated.slimIndexRangeGetOffset
  exact h

/-! non-vacuity -/
example : Generated.newSlimIndexArgs [([1], 5), ([2], 7)] = ([[1], [2]], [5, 7]) := by decide

end BridgeSem

#print axioms BridgeSem.newSlimIndexArgs_sem
#print axioms BridgeSem.newSlimIndex_model
#print axioms BridgeSem.slimIndexGetOffset_sem
#print axioms BridgeSem.slimIndexRangeGetOffset_sem
