import SlimProofs.BuildShape
import SlimProps.C08Accept
/-
  SlimProps.C13Shape — C13, structural half: the option combinations differ only in stored prefix
  information.

  `C13_same_shape`: two successful builds of the same keys and values whose options agree on
  `dedup` produce record arrays of the same shape — the same number of nodes, pointwise the same
  node kind, `big`, `labels`, `firstChild` (inner) and leaf ordinal (leaf) — and the same
  `leafKeyIdx`, `bigCnt` and `elts`.  Only `InnerRec.pref` and the leaf prefix may differ.

  Proof: a simulation between the two runs of `buildLoop` (`buildStep_sim`, `buildLoop_sim`):
  the contexts differ only in `opt`, and `opt` influences control flow only through the
  `stepTooLong` guard, which both runs passed.
-/

/-- a node with its prefix information erased -/
def shapeOf : Node → Option (Bool × List Nat × Nat) × Option Nat
  | .inner r => (some (r.big, r.labels, r.firstChild), none)
  | .leaf ith _ => (none, some ith)

namespace C13Shape

open BuildInv BuildShape

/-- contexts that differ at most in the options -/
structure CtxSim (c c' : BCtx) : Prop where
  kn : c'.kn = c.kn
  keep : c'.keep = c.keep
  lcps : c'.lcps = c.lcps

/-- states that are equal after erasing prefix information -/
structure StSim (st st' : BSt) : Prop where
  isBig : st'.isBig = st.isBig
  bigCnt : st'.bigCnt = st.bigCnt
  queue : st'.queue = st.queue
  nodes : st'.nodes.map shapeOf = st.nodes.map shapeOf
  leafKeyIdx : st'.leafKeyIdx = st.leafKeyIdx

theorem minLcp_sim {c c' : BCtx} (hc : CtxSim c c') : minLcp c' = minLcp c := by
  funext s e; unfold minLcp; rw [hc.lcps]

theorem prefCnt_sim {c c' : BCtx} (hc : CtxSim c c') : prefCnt c' = prefCnt c := by
  funext s e ws; unfold prefCnt; rw [hc.lcps]

theorem keyLabel_sim {c c' : BCtx} (hc : CtxSim c c') : keyLabel c' = keyLabel c := by
  funext ws big t; unfold keyLabel; rw [hc.kn]

theorem keptLabels_sim {c c' : BCtx} (hc : CtxSim c c') : keptLabels c' = keptLabels c := by
  funext s e ws big; unfold keptLabels; rw [hc.keep, keyLabel_sim hc]

theorem buildStep_sim {c c' : BCtx} (hc : CtxSim c c') {st st' s1 s1' : BSt} (hs : StSim st st')
    (o : Subset) (h : buildStep c st o = .ok s1) (h' : buildStep c' st' o = .ok s1') :
    StSim s1 s1' := by
  by_cases hleaf : o.e - o.s = 1
  · rw [buildStep_leaf_eq _ _ o hleaf] at h h'
    cases h; cases h'
    refine ⟨hs.isBig, hs.bigCnt, hs.queue, ?_, ?_⟩
    · simp only [Array.map_push, hs.nodes, hs.leafKeyIdx, shapeOf]
    · simp only [hs.leafKeyIdx]
  · rw [buildStep_inner_eq _ _ o hleaf _ rfl _ rfl] at h h'
    rw [minLcp_sim hc, prefCnt_sim hc, keyLabel_sim hc, keptLabels_sim hc, hs.isBig, hs.queue,
      hs.bigCnt] at h'
    generalize (st.isBig && decide (prefCnt c o.s o.e (minLcp c o.s o.e) > 10)) = goBig at h h'
    generalize (if goBig = true then minLcp c o.s o.e - minLcp c o.s o.e % 2
      else minLcp c o.s o.e) = ws at h h'
    split at h
    · cases h
    split at h
    · cases h
    rw [if_neg (by assumption)] at h'
    split at h'
    · cases h'
    cases h; cases h'
    refine ⟨rfl, rfl, rfl, ?_, hs.leafKeyIdx⟩
    simp only [Array.map_push, hs.nodes, shapeOf]

theorem buildLoop_sim {c c' : BCtx} (hc : CtxSim c c') (fuel i : Nat) {st st' s1 s1' : BSt}
    (hs : StSim st st') (h : buildLoop c fuel i st = .ok s1)
    (h' : buildLoop c' fuel i st' = .ok s1') : StSim s1 s1' := by
  induction fuel generalizing i st st' with
  | zero =>
    simp only [buildLoop] at h h'
    split at h
    · cases h
    split at h'
    · cases h'
    cases h; cases h'; exact hs
  | succ fuel ih =>
    simp only [buildLoop] at h h'
    split at h
    · next hi =>
      have hi' : i < st'.queue.size := by rw [hs.queue]; exact hi
      rw [dif_pos hi'] at h'
      have hq : st'.queue[i] = st.queue[i] := by simp only [hs.queue]
      rw [hq] at h'
      split at h
      · next s2 hst =>
        split at h'
        · next s2' hst' => exact ih (i + 1) (buildStep_sim hc hs _ hst hst') h h'
        · cases h'
      · cases h
    · next hi =>
      have hi' : ¬ i < st'.queue.size := by rw [hs.queue]; exact hi
      rw [dif_neg hi'] at h'
      cases h; cases h'; exact hs

theorem mkCtx_sim (keys : List Bytes) (vals : Option (List Bytes)) {o o' : Opt}
    (hd : o.dedup = o'.dedup) : CtxSim (mkCtx keys vals o) (mkCtx keys vals o') := by
  constructor <;> simp only [mkCtx, hd]

end C13Shape

open C13Shape BuildInv BuildShape

/-- C13 (shape): builds of the same keys and values under options with the same `dedup` have
    the same shape; only stored prefix information differs. -/
theorem C13_same_shape (keys : List Bytes) (vals : Option (List Bytes)) (o o' : Opt) (t t' : Trie1)
    (hd : o.dedup = o'.dedup) (hb : build keys vals o = .ok t) (hb' : build keys vals o' = .ok t') :
    t.nodes.map shapeOf = t'.nodes.map shapeOf ∧
    t.leafKeyIdx = t'.leafKeyIdx ∧ t.bigCnt = t'.bigCnt ∧ t.elts = t'.elts := by
  by_cases hne : keys = []
  · subst hne
    simp only [build, List.length_nil, if_true, Except.ok.injEq] at hb hb'
    subst hb hb'
    simp [Trie1.empty]
  · obtain ⟨_, _, st, hst, rfl⟩ := build_ok_elim hb hne
    obtain ⟨_, _, st', hst', rfl⟩ := build_ok_elim hb' hne
    have hs := buildLoop_sim (mkCtx_sim keys vals hd) _ _
      ⟨rfl, rfl, rfl, rfl, rfl⟩ hst hst'
    simp only [trieOf]
    exact ⟨hs.nodes.symm, hs.leafKeyIdx.symm, hs.bigCnt.symm, by rw [hs.leafKeyIdx]⟩

/-- pointwise form: same number of nodes, and node `j` has the same shape in both -/
theorem C13_same_shape_pointwise (keys : List Bytes) (vals : Option (List Bytes)) (o o' : Opt)
    (t t' : Trie1) (hd : o.dedup = o'.dedup) (hb : build keys vals o = .ok t)
    (hb' : build keys vals o' = .ok t') :
    t.nodes.size = t'.nodes.size ∧
    ∀ (j : Nat) (h : j < t.nodes.size) (h' : j < t'.nodes.size),
      shapeOf t.nodes[j] = shapeOf t'.nodes[j] := by
  have hm := (C13_same_shape keys vals o o' t t' hd hb hb').1
  have hsz : t.nodes.size = t'.nodes.size := by
    have := congrArg Array.size hm
    simpa using this
  refine ⟨hsz, ?_⟩
  intro j h h'
  have : (t.nodes.map shapeOf)[j]'(by simpa using h) = (t'.nodes.map shapeOf)[j]'(by simpa using h') := by
    simp only [hm]
  simpa using this

/-! ### non-vacuity: two option combinations on a concrete input (both accepted by `C08_accept`) -/

example : ∃ t t', build [[0x61], [0x61, 0x62], [0x62, 0xe3]] (some [[1], [1], [2]]) {} = .ok t ∧
    build [[0x61], [0x61, 0x62], [0x62, 0xe3]] (some [[1], [1], [2]])
      { inner := true, leaf := true } = .ok t' ∧
    ({} : Opt).dedup = ({ inner := true, leaf := true } : Opt).dedup := by
  have h : ∀ o : Opt, ∃ t, build [[0x61], [0x61, 0x62], [0x62, 0xe3]] (some [[1], [1], [2]]) o = .ok t :=
    fun o => C08_accept _ _ o (by simp) (by decide) (by intro vs h; cases h; rfl)
      (Or.inr (by intro k hk; simp at hk; rcases hk with rfl | rfl | rfl <;> decide))
  obtain ⟨t, ht⟩ := h {}
  obtain ⟨t', ht'⟩ := h { inner := true, leaf := true }
  exact ⟨t, t', ht, ht', rfl⟩

#print axioms C13_same_shape
#print axioms C13_same_shape_pointwise
