import SlimProps.Loaded
import SlimProofs.InputSmall
/-
  SlimProps.LoadedInput — the `_loaded` theorems of `SlimProps/Loaded.lean` (the headline theorem of
  C01, C02, C03, C04, C09, C10, C13, C14, C18, C19 and C05's `answers identical`, for a SlimTrie
  instance that was LOADED from the bytes `Marshal` produced) with the hypothesis about the
  intermediate trie, `Refine.Small t`, replaced by the decidable predicate on the user's input

      InputSmall keys vals  :=  514·|keys| + (total key bytes) + (total value bytes) + 64 < 2^31

  (`SlimProofs/InputSmall.lean`: `small_of_input : build keys vals opt = .ok t → InputSmall keys vals
  → Small t`).  Remaining hypotheses: `hb : build keys vals opt = .ok t` (names the result of the
  construction), `hi : InputSmall keys vals`, and each property's own hypotheses on keys / options /
  query.  Every theorem is the `_loaded` theorem composed with `small_of_input`; statements are
  copied verbatim.

  Theorems: `loaded_eq_input`, `loaded_inner_input`, `loaded_view_input`, `loaded_indep_input`,
  `C05_answers_identical_built_input`,
  `C01_get_retained_loaded_input`, `C01_get_retained_bytes_loaded_input`,
  `C02_rangeget_indexed_loaded_input`, `C03_search_loaded_input`, `C03_getID_loaded_input`,
  `C03_get_loaded_input`, `C03_rangeget_loaded_input`, `C04_getGEPath_loaded_input`,
  `C04_iter_loaded_input`, `C04_scanFrom_loaded_input`, `C04_scanFromTo_loaded_input`,
  `C09_search_retained_loaded_input`, `C09_search_retained_R_loaded_input`,
  `C10_total_loaded_input`, `C10_searchID_eq_getID_loaded_input`, `C10_search_eq_get_loaded_input`,
  `C10_hit_supplied_loaded_input`, `C13_monotone_loaded_input`, `C13_monotone_get_loaded_input`,
  `C14_getInt_loaded_input`, `C18_stat_loaded_input`, `C19_render_loaded_input`.
-/

open Wire Frame Version Legacy Refine

section loadedInput
variable (keys : List Bytes) (vals : Option (List Bytes)) (opt : Opt) (t : Trie1)
  (hb : build keys vals opt = .ok t) (hin : InputSmall keys vals) (σ : Instance) (encSize : Option Nat)
include hb hin

/-- **Loading a marshalled built trie** succeeds and yields the built message with its freshly
    initialised level table, whatever the instance held before. -/
theorem loaded_eq_input :
    ∃ lv, Slim.initLevels (Slim.encode t) = .ok lv ∧
      Instance.unmarshal σ encSize (marshalSlim (Slim.encode t))
        = ({ inner := Slim.encode t, levels := lv, varsNil := false }, none) :=
  loaded_eq keys vals opt t hb (small_of_input keys vals opt t hb hin) σ encSize

theorem loaded_inner_input : (loadedFrom σ t encSize).inner = Slim.encode t :=
  loaded_inner keys vals opt t hb (small_of_input keys vals opt t hb hin) σ encSize

/-- the view every query function reads of the loaded instance is the bit-level view of the
    built trie -/
theorem loaded_view_input : Slim.view (loadedFrom σ t encSize).inner = L2view t :=
  loaded_view keys vals opt t hb (small_of_input keys vals opt t hb hin) σ encSize

/-- the loaded instance does not depend on what the instance held before -/
theorem loaded_indep_input (σ' : Instance) : loadedFrom σ t encSize = loadedFrom σ' t encSize :=
  loaded_indep keys vals opt t hb (small_of_input keys vals opt t hb hin) σ encSize σ'

/-- **C05 (answers identical), closed**: no `hlevels` hypothesis. -/
theorem C05_answers_identical_built_input :
    ∃ lv, Slim.initLevels (Slim.encode t) = .ok lv ∧
      (loadedFrom σ t encSize).inner = Slim.encode t ∧
      Slim.view (loadedFrom σ t encSize).inner = Slim.view (Slim.encode t) ∧
      (loadedFrom σ t encSize).levels = lv ∧ (loadedFrom σ t encSize).varsNil = false ∧
      Slim.stat (loadedFrom σ t encSize).inner (loadedFrom σ t encSize).levels
        = Slim.stat (Slim.encode t) lv :=
  C05_answers_identical_built keys vals opt t hb (small_of_input keys vals opt t hb hin) σ encSize

theorem C01_get_retained_loaded_input (i : Nat) (hi : i < keys.length)
    (hk : keptAt (keepMask keys.length vals opt.dedup) i = true) :
    (∃ id, getID (Slim.view (loadedFrom σ t encSize).inner) (keys.getD i []) = .ok (some id)) ∧
    get (Slim.view (loadedFrom σ t encSize).inner) (keys.getD i [])
      = .ok (some (expectedValue vals t i)) :=
  C01_get_retained_loaded keys vals opt t hb (small_of_input keys vals opt t hb hin) σ encSize i hi hk

theorem C01_get_retained_bytes_loaded_input (i : Nat) (hi : i < keys.length)
    (hk : keptAt (keepMask keys.length vals opt.dedup) i = true) :
    ∃ r, get (Slim.view (loadedFrom σ t encSize).inner) (keys.getD i []) = .ok (some r) ∧
      (vals = none → r = none) ∧ (∀ vs, vals = some vs → r.getD [] = vs.getD i []) :=
  C01_get_retained_bytes_loaded keys vals opt t hb (small_of_input keys vals opt t hb hin) σ encSize i hi hk

theorem C02_rangeget_indexed_loaded_input (hne : keys ≠ []) (i : Nat) (hi : i < keys.length) :
    rangeGet (Slim.view (loadedFrom σ t encSize).inner) (keys.getD i []) =
      .ok (some (recVal (keepMask keys.length vals opt.dedup) vals i)) :=
  C02_rangeget_indexed_loaded keys vals opt t hb (small_of_input keys vals opt t hb hin) σ encSize hne i hi

theorem C03_search_loaded_input (hc : opt.complete = true) (q : Bytes) :
    search (Slim.view (loadedFrom σ t encSize).inner) q =
      .ok (shownVal (retained keys vals opt.dedup) (Spec.lt (retained keys vals opt.dedup) q),
           shownVal (retained keys vals opt.dedup) (Spec.get (retained keys vals opt.dedup) q),
           shownVal (retained keys vals opt.dedup) (Spec.gt (retained keys vals opt.dedup) q)) :=
  C03_search_loaded keys vals opt t hb (small_of_input keys vals opt t hb hin) σ encSize hc q

theorem C03_getID_loaded_input (hc : opt.complete = true) (q : Bytes) :
    ∃ e, getID (Slim.view (loadedFrom σ t encSize).inner) q = .ok e ∧
      e.isSome = (Spec.get (retained keys vals opt.dedup) q).isSome :=
  C03_getID_loaded keys vals opt t hb (small_of_input keys vals opt t hb hin) σ encSize hc q

theorem C03_get_loaded_input (hc : opt.complete = true) (q : Bytes) :
    get (Slim.view (loadedFrom σ t encSize).inner) q =
      .ok (shownVal (retained keys vals opt.dedup) (Spec.get (retained keys vals opt.dedup) q)) :=
  C03_get_loaded keys vals opt t hb (small_of_input keys vals opt t hb hin) σ encSize hc q

theorem C03_rangeget_loaded_input (hc : opt.complete = true) (q : Bytes) :
    rangeGet (Slim.view (loadedFrom σ t encSize).inner) q =
      .ok (shownVal (retained keys vals opt.dedup) (Spec.le (retained keys vals opt.dedup) q)) :=
  C03_rangeget_loaded keys vals opt t hb (small_of_input keys vals opt t hb hin) σ encSize hc q

open IterLemmas Scan in
theorem C04_getGEPath_loaded_input (hc : opt.complete = true) (start : Bytes) :
    ∃ p, getGEPath (Slim.view (loadedFrom σ t encSize).inner) start = .ok p ∧
      GERes keys (keepMask keys.length vals opt.dedup) t start p :=
  C04_getGEPath_loaded keys vals opt t hb (small_of_input keys vals opt t hb hin) σ encSize hc start

open Scan in
theorem C04_iter_loaded_input (hc : opt.complete = true) (start : Bytes) (incl wv : Bool) :
    ∃ s, newIterFrom (Slim.view (loadedFrom σ t encSize).inner) start incl = .ok s ∧
      ∀ k, iterTake (Slim.view (loadedFrom σ t encSize).inner) wv k s =
        .ok (IterStack.expect k ((Spec.scanFrom (retained keys vals opt.dedup) start incl).map
          (C04.item (retained keys vals opt.dedup) wv))) :=
  C04_iter_loaded keys vals opt t hb (small_of_input keys vals opt t hb hin) σ encSize hc start incl wv

open Scan in
theorem C04_scanFrom_loaded_input (hc : opt.complete = true) (start : Bytes) (incl wv : Bool)
    (keepFn : Bytes → Bool) (stopAfter : Option Nat) :
    scanFrom (Slim.view (loadedFrom σ t encSize).inner) start incl wv keepFn stopAfter =
      .ok (IterScan.truncate stopAfter
        (((Spec.scanFrom (retained keys vals opt.dedup) start incl).map
          (C04.pair (retained keys vals opt.dedup) wv)).takeWhile (fun y => keepFn y.1))) :=
  C04_scanFrom_loaded keys vals opt t hb (small_of_input keys vals opt t hb hin) σ encSize hc start incl wv keepFn stopAfter

open Scan in
theorem C04_scanFromTo_loaded_input (hc : opt.complete = true) (start : Bytes) (incl : Bool)
    (stop : Bytes) (inclEnd wv : Bool) (stopAfter : Option Nat) :
    scanFromTo (Slim.view (loadedFrom σ t encSize).inner) start incl stop inclEnd wv stopAfter =
      .ok (IterScan.truncate stopAfter
        ((Spec.scanFromTo (retained keys vals opt.dedup) start incl stop inclEnd).map
          (C04.pair (retained keys vals opt.dedup) wv))) :=
  C04_scanFromTo_loaded keys vals opt t hb (small_of_input keys vals opt t hb hin) σ encSize hc start incl stop inclEnd wv stopAfter

theorem C09_search_retained_loaded_input (hne : keys ≠ []) (m : Nat) (hm : m < keys.length)
    (hk : keptAt (keepMask keys.length vals opt.dedup) m = true) :
    search (Slim.view (loadedFrom σ t encSize).inner) (keys.getD m []) =
      .ok (valOf (keepMask keys.length vals opt.dedup) vals
             (prevKept (keepMask keys.length vals opt.dedup) m),
           valOf (keepMask keys.length vals opt.dedup) vals (some m),
           valOf (keepMask keys.length vals opt.dedup) vals
             (nextKept (keepMask keys.length vals opt.dedup) m)) :=
  C09_search_retained_loaded keys vals opt t hb (small_of_input keys vals opt t hb hin) σ encSize hne m hm hk

theorem C09_search_retained_R_loaded_input (hne : keys ≠ []) (i : Nat) (e : Entry)
    (hi : (retained keys vals opt.dedup)[i]? = some e) :
    search (Slim.view (loadedFrom σ t encSize).inner) e.1 =
      .ok (shownVal (retained keys vals opt.dedup)
             (if i = 0 then none else (retained keys vals opt.dedup)[i - 1]?),
           shownVal (retained keys vals opt.dedup) (some e),
           shownVal (retained keys vals opt.dedup) (retained keys vals opt.dedup)[i + 1]?) :=
  C09_search_retained_R_loaded keys vals opt t hb (small_of_input keys vals opt t hb hin) σ encSize hne i e hi

theorem C10_total_loaded_input (q : Bytes) :
    (∃ a, getID (Slim.view (loadedFrom σ t encSize).inner) q = .ok a) ∧
    (∃ a, get (Slim.view (loadedFrom σ t encSize).inner) q = .ok a) ∧
    (∃ a, searchID (Slim.view (loadedFrom σ t encSize).inner) q = .ok a) ∧
    (∃ a, rangeGet (Slim.view (loadedFrom σ t encSize).inner) q = .ok a) ∧
    (∃ a, search (Slim.view (loadedFrom σ t encSize).inner) q = .ok a) :=
  C10_total_loaded keys vals opt t hb (small_of_input keys vals opt t hb hin) σ encSize q

theorem C10_searchID_eq_getID_loaded_input (q : Bytes) (a : Option Nat)
    (b : Option Nat × Option Nat × Option Nat)
    (hg : getID (Slim.view (loadedFrom σ t encSize).inner) q = .ok a)
    (hs : searchID (Slim.view (loadedFrom σ t encSize).inner) q = .ok b) : b.2.1 = a :=
  C10_searchID_eq_getID_loaded keys vals opt t hb (small_of_input keys vals opt t hb hin) σ encSize q a b hg hs

theorem C10_search_eq_get_loaded_input (q : Bytes) (a : Option (Option Bytes))
    (y : Option (Option Bytes) × Option (Option Bytes) × Option (Option Bytes))
    (hg : get (Slim.view (loadedFrom σ t encSize).inner) q = .ok a)
    (hs : search (Slim.view (loadedFrom σ t encSize).inner) q = .ok y) : y.2.1 = a :=
  C10_search_eq_get_loaded keys vals opt t hb (small_of_input keys vals opt t hb hin) σ encSize q a y hg hs

/-- a loaded trie renders exactly like the record array it was built as -/
theorem C19_render_loaded_input (fmtVal : Option Bytes → String) :
    Slim.toStringSlim (Slim.view (loadedFrom σ t encSize).inner) fmtVal
      = Slim.toStringSlim t.view fmtVal :=
  C19_render_loaded keys vals opt t hb (small_of_input keys vals opt t hb hin) σ encSize fmtVal

open Slim C18 in
/-- `Stat` of the loaded instance: `|retained|` keys, `N` nodes, and a consistent level table -/
theorem C18_stat_loaded_input (hne : keys ≠ []) :
    ∃ lv, (loadedFrom σ t encSize).levels = lv ∧
      stat (loadedFrom σ t encSize).inner (loadedFrom σ t encSize).levels
        = .ok { levels := lv, keyCnt := (retained keys vals opt.dedup).length,
                nodeCnt := t.nodes.size } ∧
      (∀ e ∈ lv, e.1 = e.2.1 + e.2.2) ∧ lv.Pairwise LevelLe ∧ lv.head? = some (0, 0, 0) ∧
      lv.getLast? = some (t.nodes.size, innerCnt t, t.nodes.size - innerCnt t) :=
  C18_stat_loaded keys vals opt t hb (small_of_input keys vals opt t hb hin) σ encSize hne

end loadedInput

/-! ### C10 (supplied values), C13, C14: statements with their own shapes of hypotheses -/

theorem C10_hit_supplied_loaded_input (keys : List Bytes) (vs : List Bytes) (opt : Opt) (t : Trie1)
    (hb : build keys (some vs) opt = .ok t) (hin : InputSmall keys (some vs)) (σ : Instance)
    (encSize : Option Nat) (hne : keys ≠ []) (hvs : ∀ b ∈ vs, b ≠ [])
    (q : Bytes) (x : Option Bytes)
    (h : get (Slim.view (loadedFrom σ t encSize).inner) q = .ok (some x)) :
    ∃ b, x = some b ∧ b ∈ vs :=
  C10_hit_supplied_loaded keys vs opt t hb (small_of_input keys (some vs) opt t hb hin) σ encSize
    hne hvs q x h

/-- C13 on loaded tries: both tries are built from the SAME keys and values, so one `InputSmall`
    hypothesis covers both -/
theorem C13_monotone_loaded_input (keys : List Bytes) (vals : Option (List Bytes)) (o o' : Opt)
    (t t' : Trie1) (hd : o.dedup = o'.dedup) (hin : o'.inner = true → o.inner = true)
    (hlf : o'.leaf = true → o.leaf = true)
    (hb : build keys vals o = .ok t) (hb' : build keys vals o' = .ok t')
    (hsmall : InputSmall keys vals) (σ σ' : Instance) (e e' : Option Nat) (q : Bytes) (id : Nat)
    (h : getID (Slim.view (loadedFrom σ t e).inner) q = .ok (some id)) :
    getID (Slim.view (loadedFrom σ' t' e').inner) q = .ok (some id) :=
  C13_monotone_loaded keys vals o o' t t' hd hin hlf hb hb'
    (small_of_input keys vals o t hb hsmall) (small_of_input keys vals o' t' hb' hsmall)
    σ σ' e e' q id h

theorem C13_monotone_get_loaded_input (keys : List Bytes) (vals : Option (List Bytes)) (o o' : Opt)
    (t t' : Trie1) (hd : o.dedup = o'.dedup) (hin : o'.inner = true → o.inner = true)
    (hlf : o'.leaf = true → o.leaf = true)
    (hb : build keys vals o = .ok t) (hb' : build keys vals o' = .ok t')
    (hsmall : InputSmall keys vals) (σ σ' : Instance) (e e' : Option Nat) (q : Bytes)
    (x : Option Bytes)
    (h : get (Slim.view (loadedFrom σ t e).inner) q = .ok (some x)) :
    get (Slim.view (loadedFrom σ' t' e').inner) q = .ok (some x) :=
  C13_monotone_get_loaded keys vals o o' t t' hd hin hlf hb hb'
    (small_of_input keys vals o t hb hsmall) (small_of_input keys vals o' t' hb' hsmall)
    σ σ' e e' q x h

/-- **C14 on a loaded trie**: `GetIw` = `Get` followed by the two's-complement reading. -/
theorem C14_getInt_loaded_input (keys : List Bytes) (vs : List Bytes) (opt : Opt) (t : Trie1)
    (hb : build keys (some vs) opt = .ok t) (hin : InputSmall keys (some vs)) (σ : Instance)
    (encSize : Option Nat)
    (hne : keys ≠ []) (w : Nat) (hw : 0 < w) (hwidth : ∀ v ∈ vs, v.length = w) (key : Bytes) :
    Slim.getInt (loadedFrom σ t encSize).inner w key
      = (get (Slim.view (loadedFrom σ t encSize).inner) key).map
          (fun r => r.map (fun b => Slim.leSigned (b.getD []))) :=
  C14_getInt_loaded keys vs opt t hb (small_of_input keys (some vs) opt t hb hin) σ encSize
    hne w hw hwidth key

/-! ### non-vacuity

  The input of `C05.ex_hyps` (3 keys, Complete mode, values) is `InputSmall` by evaluation and
  `build` succeeds on it; loaded into an instance with arbitrary prior contents and any encoder
  width it finds the key `ab` with its value, answers every query without panic, scans its three
  entries in order, reports 3 keys, and `GetI8` agrees with `Get`. -/

example : InputSmall C05.exKeys (some C05.exVals) := by decide

example (σ : Instance) (e : Option Nat) :
    ∃ t, build C05.exKeys (some C05.exVals) C05.exOpt = .ok t ∧
      (∃ r, get (Slim.view (loadedFrom σ t e).inner) [0x61, 0x62] = .ok (some r) ∧
        r.getD [] = [2]) ∧
      (∀ q, ∃ a, search (Slim.view (loadedFrom σ t e).inner) q = .ok a) ∧
      Scan.scanFrom (Slim.view (loadedFrom σ t e).inner) [] true true (fun _ => true) none =
        .ok [([0x61], some [1]), ([0x61, 0x62], some [2]), ([0x62, 0xff], some [3])] ∧
      (∃ lv, Slim.stat (loadedFrom σ t e).inner (loadedFrom σ t e).levels
        = .ok { levels := lv, keyCnt := 3, nodeCnt := t.nodes.size }) ∧
      (∀ key, Slim.getInt (loadedFrom σ t e).inner 1 key
        = (get (Slim.view (loadedFrom σ t e).inner) key).map
            (fun r => r.map (fun b => Slim.leSigned (b.getD [])))) := by
  obtain ⟨t, _, hb, _, _, _⟩ := C05.ex_hyps
  have hin : InputSmall C05.exKeys (some C05.exVals) := by decide
  have hne : C05.exKeys ≠ [] := by simp [C05.exKeys]
  refine ⟨t, hb, ?_, ?_, ?_, ?_, ?_⟩
  · obtain ⟨r, hr, _, hv⟩ := C01_get_retained_bytes_loaded_input _ _ _ t hb hin σ e 1 (by decide)
      (by decide)
    exact ⟨r, hr, hv _ rfl⟩
  · exact fun q => (C10_total_loaded_input _ _ _ t hb hin σ e q).2.2.2.2
  · rw [C04_scanFrom_loaded_input _ _ _ t hb hin σ e (by decide)]
    exact congrArg Except.ok (by decide +kernel)
  · obtain ⟨lv, _, hstat, _⟩ := C18_stat_loaded_input _ _ _ t hb hin σ e hne
    refine ⟨lv, ?_⟩
    rw [hstat]
    have : (retained C05.exKeys (some C05.exVals) C05.exOpt.dedup).length = 3 := by decide
    rw [this]
  · exact fun key => C14_getInt_loaded_input _ _ _ t hb hin σ e hne 1 (by omega) (by decide) key

#print axioms loaded_eq_input
#print axioms loaded_inner_input
#print axioms loaded_view_input
#print axioms loaded_indep_input
#print axioms C05_answers_identical_built_input
#print axioms C01_get_retained_loaded_input
#print axioms C01_get_retained_bytes_loaded_input
#print axioms C02_rangeget_indexed_loaded_input
#print axioms C03_search_loaded_input
#print axioms C03_getID_loaded_input
#print axioms C03_get_loaded_input
#print axioms C03_rangeget_loaded_input
#print axioms C04_getGEPath_loaded_input
#print axioms C04_iter_loaded_input
#print axioms C04_scanFrom_loaded_input
#print axioms C04_scanFromTo_loaded_input
#print axioms C09_search_retained_loaded_input
#print axioms C09_search_retained_R_loaded_input
#print axioms C10_total_loaded_input
#print axioms C10_searchID_eq_getID_loaded_input
#print axioms C10_search_eq_get_loaded_input
#print axioms C10_hit_supplied_loaded_input
#print axioms C13_monotone_loaded_input
#print axioms C13_monotone_get_loaded_input
#print axioms C14_getInt_loaded_input
#print axioms C18_stat_loaded_input
#print axioms C19_render_loaded_input
