import SlimModel.Version
/-
  SlimProofs.WireVersion — the compatibility predicate is exactly "a release version (no
  pre-release part) whose numbers are one of six triples"; the dispatch predicates on that set.
-/
namespace Version

theorem parseSpecs_compatible :
    parseSpecs compatibleSpecs = some
      [(.eq, ⟨1, 0, 0, [], []⟩), (.eq, ⟨0, 5, 8, [], []⟩), (.eq, ⟨0, 5, 9, [], []⟩),
       (.eq, ⟨0, 5, 10, [], []⟩), (.eq, ⟨0, 5, 11, [], []⟩), (.eq, ⟨0, 5, 12, [], []⟩)] := by
  decide

theorem parseSpecs_currentLayout :
    parseSpecs currentLayoutSpecs = some
      [(.eq, ⟨0, 5, 12, [], []⟩), (.eq, ⟨0, 5, 10, [], []⟩), (.eq, ⟨0, 5, 11, [], []⟩)] := by
  decide

theorem parseSpecs_before000512 :
    parseSpecs before000512Specs = some [(.lt, ⟨0, 5, 12, [], []⟩)] := by
  decide

theorem parseSpecs_before000510 :
    parseSpecs before000510Specs = some [(.eq, ⟨1, 0, 0, [], []⟩), (.lt, ⟨0, 5, 10, [], []⟩)] := by
  decide

/-- Every spec the Go code passes is of the simple shape the range model covers. -/
theorem specs_simple :
    (compatibleSpecs ++ currentLayoutSpecs ++ before000512Specs ++ before000510Specs).all simpleSpec = true := by
  decide

theorem cmpNat_eq_iff (a b : Nat) : cmpNat a b = .eq ↔ a = b := by
  unfold cmpNat
  by_cases h1 : a < b
  · simp [h1]; omega
  · by_cases h2 : b < a
    · simp [h1, h2]; omega
    · simp [h1, h2]; omega

/-- Equality with a release version: same numbers and no pre-release part (build meta data is
    not compared). -/
theorem compare_release_eq (v : SemVer) (M m p : Nat) (b : List (List Char)) :
    compare v ⟨M, m, p, [], b⟩ = .eq ↔ v.major = M ∧ v.minor = m ∧ v.patch = p ∧ v.pre = [] := by
  unfold compare
  by_cases h1 : v.major = M
  · by_cases h2 : v.minor = m
    · by_cases h3 : v.patch = p
      · cases hp : v.pre <;> simp [h1, h2, h3]
      · simp [h1, h2, h3, cmpNat_eq_iff]
    · simp [h1, h2, cmpNat_eq_iff]
  · simp [h1, cmpNat_eq_iff]

def compatibleTriples : List (Nat × Nat × Nat) :=
  [(1, 0, 0), (0, 5, 8), (0, 5, 9), (0, 5, 10), (0, 5, 11), (0, 5, 12)]

theorem rangeHolds_compatible (v : SemVer) :
    rangeHolds [(.eq, ⟨1, 0, 0, [], []⟩), (.eq, ⟨0, 5, 8, [], []⟩), (.eq, ⟨0, 5, 9, [], []⟩),
       (.eq, ⟨0, 5, 10, [], []⟩), (.eq, ⟨0, 5, 11, [], []⟩), (.eq, ⟨0, 5, 12, [], []⟩)] v = true ↔
    v.pre = [] ∧ (v.major, v.minor, v.patch) ∈ compatibleTriples := by
  simp only [rangeHolds, List.any_cons, List.any_nil, Cmp.eval, Bool.or_false, Bool.or_eq_true, beq_iff_eq,
    compare_release_eq, compatibleTriples, List.mem_cons, Prod.mk.injEq, List.not_mem_nil, or_false]
  constructor
  · rintro (h | h | h | h | h | h) <;> simp [h]
  · rintro ⟨hp, h⟩
    rcases h with h | h | h | h | h | h <;> simp [h, hp]

/-- The compatible versions, characterised. -/
theorem isCompatible_iff (s : String) :
    isCompatible s = true ↔
      ∃ v, parseSemver s = some v ∧ v.pre = [] ∧ (v.major, v.minor, v.patch) ∈ compatibleTriples := by
  unfold isCompatible isCompatibleWith
  rw [parseSpecs_compatible]
  cases h : parseSemver s with
  | none => simp
  | some v => simp [rangeHolds_compatible]

/-- On a compatible version the dispatch predicates of `Unmarshal` are these. -/
theorem dispatch_of_compatible (s : String) (h : isCompatible s = true) :
    ∃ v, parseSemver s = some v ∧ v.pre = [] ∧
      (((v.major, v.minor, v.patch) = (0, 5, 12) ∧ isCurrentLayout s = true ∧ before000512 s = false) ∨
       ((v.major, v.minor, v.patch) ∈ [(0, 5, 10), (0, 5, 11)] ∧ isCurrentLayout s = true ∧ before000512 s = true) ∨
       ((v.major, v.minor, v.patch) ∈ [(1, 0, 0), (0, 5, 8), (0, 5, 9)] ∧ isCurrentLayout s = false ∧
          before000510 s = true)) := by
  obtain ⟨v, hv, hpre, hmem⟩ := (isCompatible_iff s).mp h
  refine ⟨v, hv, hpre, ?_⟩
  obtain ⟨M, m, p, pre, b⟩ := v
  simp only at hpre hmem ⊢
  subst hpre
  unfold isCurrentLayout before000512 before000510 check
  rw [parseSpecs_currentLayout, parseSpecs_before000512, parseSpecs_before000510, hv]
  simp only [compatibleTriples, List.mem_cons, Prod.mk.injEq, List.not_mem_nil, or_false] at hmem
  rcases hmem with ⟨rfl, rfl, rfl⟩ | ⟨rfl, rfl, rfl⟩ | ⟨rfl, rfl, rfl⟩ | ⟨rfl, rfl, rfl⟩ | ⟨rfl, rfl, rfl⟩ |
      ⟨rfl, rfl, rfl⟩ <;>
    simp [rangeHolds, Cmp.eval, compare, cmpNat]

theorem isCompatible_slimtrieVersion : isCompatible slimtrieVersion = true := by decide
theorem isCurrentLayout_slimtrieVersion : isCurrentLayout slimtrieVersion = true := by decide
theorem before000512_slimtrieVersion : before000512 slimtrieVersion = false := by decide

end Version
