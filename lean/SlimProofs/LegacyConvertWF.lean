import SlimProofs.LegacyConvertSim
import SlimProofs.Shape
/-
  SlimProofs.LegacyConvertWF — stage (ii-b): the record the loader makes of an old inner node is
  `InnerOK` (SlimProofs.WF) for the node's key range (`inner_ok`: ws = the old common-prefix
  length, labels = end-of-key label + old half-byte labels + 1, children = the singleton of the
  key that ends + the old runs); and `fixNodes` / `bfsFC`: `firstChild` by the BFS law.
-/

namespace LegacyConvert
open LegacyWrite Legacy

/-! ### labels of the keys of an old range, as today's builder sees them -/

theorem keptAt_replicate (n t : Nat) (h : t < n) : keptAt (List.replicate n true) t = true := by
  unfold keptAt
  rw [List.getD_eq_getElem?_getD, List.getElem?_replicate, if_pos h]; rfl

theorem labelOf_rest {keys : List Bytes} {kn : Array (List Nat)}
    (hkn : ∀ t, kn.getD t [] = knOf keys t) {q : Sub} (B : BranchFacts keys kn q)
    (t : Nat) (h1 : restStart kn q ≤ t) (h2 : t < q.e) :
    labelOf keys (brPos kn q) false t = nibAt kn (brPos kn q) t + 1 := by
  have hl := B.longer t h1 h2
  unfold labelOf labelAt
  rw [List.getElem?_eq_getElem hl, nibAt_eq hkn _ _ hl]
  simp only [Bool.false_eq_true, if_false]; omega

theorem labelOf_first {keys : List Bytes} {kn : Array (List Nat)} {q : Sub}
    (B : BranchFacts keys kn q) (he : endsAt kn q = true) :
    labelOf keys (brPos kn q) false q.s = 0 := by
  unfold labelOf
  rw [labelAt_eq_zero_iff, B.ends he]; exact Nat.le_refl _

theorem rest_cases {keys : List Bytes} {kn : Array (List Nat)} {q : Sub}
    (_B : BranchFacts keys kn q) (t : Nat) (h1 : q.s ≤ t) :
    restStart kn q ≤ t ∨ (t = q.s ∧ endsAt kn q = true) := by
  by_cases h : restStart kn q ≤ t
  · exact Or.inl h
  · right
    unfold restStart at h
    cases he : endsAt kn q with
    | false => rw [he] at h; simp at h; omega
    | true => rw [he] at h; simp at h; exact ⟨by omega, rfl⟩

/-- the record the loader makes of an old inner node satisfies `InnerOK` for the range of the
    node, once its children ranges sit at `fc …` in the queue -/
theorem inner_ok {keys : List Bytes} {kn : Array (List Nat)}
    (hkn : ∀ t, kn.getD t [] = knOf keys t) (hasc : strictAsc keys = true) {q : Sub}
    (hg : SubGood keys q) (B : BranchFacts keys kn q) (Rf : RunFacts keys kn q)
    (Q : Array Subset) (j fc : Nat) (hj : j < fc)
    (hQe : endsAt kn q = true → Q[fc]? = some { s := q.s, e := q.s + 1, fb := brPos kn q })
    (hQr : ∀ k (hk : k < (runsOf kn q).length),
      Q[fc + (if endsAt kn q then 1 else 0) + k]? =
        some { s := ((runsOf kn q)[k]).2.1, e := ((runsOf kn q)[k]).2.2, fb := brPos kn q + 1 }) :
    InnerOK keys (List.replicate keys.length true) {} Q j { s := q.s, e := q.e, fb := q.d }
      { big := false, labels := newLabelsOf (endsAt kn q) (runsOf kn q), firstChild := fc,
        pref := if brPos kn q - q.d = 0 then Pref.none else Pref.step (brPos kn q - q.d) } := by
  have hle := hg.le
  have hrs := B.rest_ge
  have hrl := B.rest_lt
  have hkept : ∀ t, t < q.e → keptAt (List.replicate keys.length true) t = true :=
    fun t h => keptAt_replicate _ _ (by omega)
  generalize he : endsAt kn q = ends at hQe hQr ⊢
  refine ⟨brPos kn q, B.d_le, B.pre, (by intro h; cases h), ?_, ?_, ?_, ?_, hj, ?_⟩ <;> dsimp only
  · -- pref
    unfold prefOf
    simp only [Bool.false_eq_true, if_false]
  · -- labels
    intro l
    unfold newLabelsOf
    constructor
    · intro hl
      rcases List.mem_append.mp hl with hl | hl
      · cases ends with
        | false => simp at hl
        | true =>
          have : l = 0 := by simpa using hl
          exact ⟨q.s, Nat.le_refl _, by omega, hkept _ (by omega), this ▸ labelOf_first B he⟩
      · obtain ⟨x, hx, rfl⟩ := List.mem_map.mp hl
        obtain ⟨hr, hx1⟩ := Rf.run x hx
        refine ⟨x.2.1, by have := hr.ge; omega, by have := hr.lt; have := hr.le; omega,
          hkept _ (by have := hr.lt; have := hr.le; omega), ?_⟩
        rw [labelOf_rest hkn B x.2.1 hr.ge (by have := hr.lt; have := hr.le; omega), hx1]
    · rintro ⟨t, h1, h2, _, rfl⟩
      rcases rest_cases B t h1 with h3 | ⟨h3, he'⟩
      · obtain ⟨x, hx, h4⟩ := Rf.cover t h3 h2
        obtain ⟨hr, _⟩ := Rf.run x hx
        apply List.mem_append_right
        rw [labelOf_rest hkn B t h3 h2, (hr.iff t h3 h2).mp h4]
        exact List.mem_map.mpr ⟨x, hx, rfl⟩
      · apply List.mem_append_left
        rw [h3, labelOf_first B he', ← he, he']
        simp
  · exact newLabelsOf_asc _ _ Rf.asc
  · exact BuildInv.labelOf_mono hasc false hle (fun t h1 h2 => (B.pre t h1 h2).2)
  · -- children
    unfold newLabelsOf
    cases ends with
    | true =>
      intro k hk
      simp only [if_true, List.singleton_append] at hk hQr ⊢
      cases k with
      | zero =>
        refine ⟨_, hQe rfl, ?_, Nat.le_refl _, by dsimp only; omega, ?_⟩
        · simp [labelLen]
        · intro t h1 h2
          simp only [List.getElem_cons_zero]
          constructor
          · rintro ⟨h3, h4⟩
            have : t = q.s := by omega
            rw [this]; exact labelOf_first B he
          · intro h3
            rcases rest_cases B t h1 with h4 | ⟨h4, _⟩
            · rw [labelOf_rest hkn B t h4 h2] at h3; omega
            · omega
      | succ k' =>
        simp only [List.length_cons, List.length_map] at hk
        have hk' : k' < (runsOf kn q).length := by omega
        have hQ := hQr k' hk'
        have hidx : fc + 1 + k' = fc + (k' + 1) := by omega
        rw [hidx] at hQ
        obtain ⟨hr, hx1⟩ := Rf.run _ (List.getElem_mem hk')
        refine ⟨_, hQ, ?_, by dsimp only; have := hr.ge; omega, hr.le, ?_⟩
        · simp [labelLen]
        · intro t h1 h2
          simp only [List.getElem_cons_succ, List.getElem_map]
          constructor
          · rintro ⟨h3, h4⟩
            have h5 : restStart kn q ≤ t := by have := hr.ge; omega
            rw [labelOf_rest hkn B t h5 h2, (hr.iff t h5 h2).mp ⟨h3, h4⟩]
          · intro h3
            rcases rest_cases B t h1 with h4 | ⟨h4, _⟩
            · rw [labelOf_rest hkn B t h4 h2] at h3
              exact (hr.iff t h4 h2).mpr (by omega)
            · rw [h4, labelOf_first B he] at h3; omega
    | false =>
      intro k hk
      simp only [Bool.false_eq_true, if_false, List.nil_append, List.length_map, Nat.add_zero]
        at hk hQr ⊢
      have hQ := hQr k hk
      obtain ⟨hr, hx1⟩ := Rf.run _ (List.getElem_mem hk)
      have hs0 : restStart kn q = q.s := by unfold restStart; rw [he]; rfl
      refine ⟨_, hQ, ?_, by dsimp only; have := hr.ge; omega, hr.le, ?_⟩
      · simp [labelLen]
      · intro t h1 h2
        simp only [List.getElem_map]
        have h5 : restStart kn q ≤ t := by omega
        rw [labelOf_rest hkn B t h5 h2]
        constructor
        · rintro ⟨h3, h4⟩
          rw [(hr.iff t h5 h2).mp ⟨h3, h4⟩]
        · intro h3
          exact (hr.iff t h5 h2).mpr (by omega)

/-! ### filling in `firstChild` by the BFS law -/

/-- number of children of a record -/
def labCnt : Node → Nat
  | .inner r => r.labels.length
  | .leaf _ _ => 0

/-- id of the first child of node `j`: `1 +` the number of labels of all earlier nodes -/
def bfsFC (nodes : Array Node) (j : Nat) : Nat := 1 + ((nodes.toList.take j).map labCnt).sum

def fixNode (fc : Nat) : Node → Node
  | .inner r => .inner { r with firstChild := fc }
  | .leaf ith lp => .leaf ith lp

def fixList : Nat → List Node → List Node
  | _, [] => []
  | fc, nd :: rest => fixNode fc nd :: fixList (fc + labCnt nd) rest

def fixNodes (nodes : Array Node) : Array Node := (fixList 1 nodes.toList).toArray

theorem fixList_length (fc : Nat) (l : List Node) : (fixList fc l).length = l.length := by
  induction l generalizing fc with
  | nil => rfl
  | cons nd rest ih => simp [fixList, ih]

theorem fixList_getElem? (fc : Nat) (l : List Node) (j : Nat) :
    (fixList fc l)[j]? = l[j]?.map (fixNode (fc + ((l.take j).map labCnt).sum)) := by
  induction l generalizing fc j with
  | nil => simp [fixList]
  | cons nd rest ih =>
    cases j with
    | zero => simp [fixList]
    | succ j =>
      simp only [fixList, List.getElem?_cons_succ, List.take_succ_cons, List.map_cons,
        List.sum_cons]
      rw [ih]
      congr 2
      omega

theorem fixNodes_size (nodes : Array Node) : (fixNodes nodes).size = nodes.size := by
  simp [fixNodes, fixList_length]

theorem fixNodes_getElem? (nodes : Array Node) (j : Nat) :
    (fixNodes nodes)[j]? = nodes[j]?.map (fixNode (bfsFC nodes j)) := by
  unfold fixNodes bfsFC
  rw [List.getElem?_toArray, fixList_getElem?, Array.getElem?_toList]

theorem labCnt_fixNode (fc : Nat) (nd : Node) : labCnt (fixNode fc nd) = labCnt nd := by
  cases nd <;> rfl

theorem fixList_map_labCnt (fc : Nat) (l : List Node) :
    (fixList fc l).map labCnt = l.map labCnt := by
  induction l generalizing fc with
  | nil => rfl
  | cons nd rest ih => simp [fixList, ih, labCnt_fixNode]

theorem bfsFC_push_le (nodes : Array Node) (nd : Node) (j : Nat) (h : j ≤ nodes.size) :
    bfsFC (nodes.push nd) j = bfsFC nodes j := by
  unfold bfsFC
  rw [Array.toList_push, List.take_append_of_le_length (by simpa using h)]

theorem bfsFC_push_size (nodes : Array Node) (nd : Node) :
    bfsFC (nodes.push nd) (nodes.size + 1) = bfsFC nodes nodes.size + labCnt nd := by
  unfold bfsFC
  rw [Array.toList_push, List.take_of_length_le (by simp), List.take_of_length_le (by simp),
    List.map_append, List.sum_append]
  simp only [List.map_cons, List.map_nil, List.sum_cons, List.sum_nil]
  omega

theorem bfsFC_eq_innersBefore (nodes : Array Node) (j : Nat) :
    1 + ((innersBefore nodes j).map (fun r => r.labels.length)).sum = bfsFC nodes j := by
  unfold innersBefore bfsFC
  congr 1
  generalize nodes.toList.take j = l
  induction l with
  | nil => rfl
  | cons nd rest ih =>
    cases nd with
    | inner r => simp [labCnt, ih]
    | leaf ith lp => simp [labCnt, ih]

theorem leavesBefore_push_le (nodes : Array Node) (nd : Node) (j : Nat) (h : j ≤ nodes.size) :
    leavesBefore (nodes.push nd) j = leavesBefore nodes j := by
  unfold leavesBefore
  rw [Array.toList_push, List.take_append_of_le_length (by simpa using h)]

theorem leavesBefore_push_size (nodes : Array Node) (nd : Node) :
    leavesBefore (nodes.push nd) (nodes.size + 1)
      = leavesBefore nodes nodes.size + (if nd.isInner then 0 else 1) := by
  unfold leavesBefore
  rw [Array.toList_push, List.take_of_length_le (by simp), List.take_of_length_le (by simp),
    List.filter_append, List.length_append]
  cases h : nd.isInner <;> simp [h]

end LegacyConvert
