import Generated.GoSem
/-
  SlimProps.BridgeSem.Common — tie 1, semantic part: shared lemmas and tactics of the semantic bridge: `go_simp` (the `Go.*` operations on operands that
  fit their type are plain arithmetic), residues (`Go.ofS`, `add_ofS`, `mul_ofS`, `sub_ofS`, `toS_ofS`).
  See SlimProps/BridgeSem.lean for the overview.
-/

open Generated

namespace BridgeSem

/-! ### normalisation -/

theorem and_255 (x : Nat) : x &&& 255 = x % 256 := Nat.and_two_pow_sub_one_eq_mod x 8
theorem and_15 (x : Nat) : x &&& 15 = x % 16 := Nat.and_two_pow_sub_one_eq_mod x 4
theorem and_7 (x : Nat) : x &&& 7 = x % 8 := Nat.and_two_pow_sub_one_eq_mod x 3
theorem and_63 (x : Nat) : x &&& 63 = x % 64 := Nat.and_two_pow_sub_one_eq_mod x 6
theorem and_63' (x : Nat) : 63 &&& x = x % 64 := by rw [Nat.and_comm]; exact and_63 x
theorem and_255' (x : Nat) : 255 &&& x = x % 256 := by rw [Nat.and_comm]; exact and_255 x
theorem and_15' (x : Nat) : 15 &&& x = x % 16 := by rw [Nat.and_comm]; exact and_15 x
theorem and_7' (x : Nat) : 7 &&& x = x % 8 := by rw [Nat.and_comm]; exact and_7 x

theorem and_4 (x : Nat) : x &&& 4 = x / 4 % 2 * 4 := by
  have h74 : (7 : Nat) &&& 4 = 4 := by decide
  have hsmall : ∀ r, r < 8 → r &&& 4 = r / 4 % 2 * 4 := by decide
  have h1 : x &&& 4 = (x % 8) &&& 4 := by
    rw [← and_7, Nat.and_assoc, h74]
  rw [h1, hsmall _ (Nat.mod_lt _ (by omega))]
  omega
theorem and_4' (x : Nat) : 4 &&& x = x / 4 % 2 * 4 := by rw [Nat.and_comm]; exact and_4 x

theorem byte_lt (b : UInt8) : b.toNat < 256 := UInt8.toNat_lt_size b

/-! conditional rewrite rules: on operands that fit, the `Go.*` operations are plain arithmetic -/

theorem toS_small {w p : Nat} (h : p < 2 ^ (w - 1)) : Go.toS w p = (p : Int) := by
  unfold Go.toS; rw [if_pos h]

theorem sar_small {w a : Nat} (k : Nat) (h : a < 2 ^ (w - 1)) : Go.sar w a k = a / 2 ^ k := by
  unfold Go.sar; rw [if_pos h, Nat.shiftRight_eq_div_pow]

theorem shr_eq (a k : Nat) : Go.shr a k = a / 2 ^ k := Nat.shiftRight_eq_div_pow a k

theorem ltS_small {w a b : Nat} (ha : a < 2 ^ (w - 1)) (hb : b < 2 ^ (w - 1)) :
    Go.ltS w a b = decide (a < b) := by
  unfold Go.ltS; rw [toS_small ha, toS_small hb]; simp

theorem leS_small {w a b : Nat} (ha : a < 2 ^ (w - 1)) (hb : b < 2 ^ (w - 1)) :
    Go.leS w a b = decide (a ≤ b) := by
  unfold Go.leS; rw [toS_small ha, toS_small hb]; simp

theorem conv_narrow (fw : Nat) (fs : Bool) (tw x : Nat) (h : tw ≤ fw) :
    Go.conv fw fs tw x = x % 2 ^ tw := by
  unfold Go.conv Go.wrap; rw [if_pos h]

theorem conv_widen_u (fw tw x : Nat) (h : fw < tw) : Go.conv fw false tw x = x := by
  unfold Go.conv; rw [if_neg (by omega)]; simp

theorem conv_widen_small (fw tw x : Nat) (h : fw < tw) (hx : x < 2 ^ (fw - 1)) :
    Go.conv fw true tw x = x := by
  unfold Go.conv; rw [if_neg (by omega)]
  have : ¬ 2 ^ (fw - 1) ≤ x := by omega
  simp [this]

theorem add_small {w a b : Nat} (h : a + b < 2 ^ w) : Go.add w a b = a + b := by
  unfold Go.add Go.wrap; exact Nat.mod_eq_of_lt h

theorem mul_small {w a b : Nat} (h : a * b < 2 ^ w) : Go.mul w a b = a * b := by
  unfold Go.mul Go.wrap; exact Nat.mod_eq_of_lt h

theorem shl_small {w a k : Nat} (h : a * 2 ^ k < 2 ^ w) : Go.shl w a k = a * 2 ^ k := by
  unfold Go.shl Go.wrap; rw [Nat.shiftLeft_eq]; exact Nat.mod_eq_of_lt h

theorem sub_small {w a b : Nat} (hb : b ≤ a) (ha : a < 2 ^ w) : Go.sub w a b = a - b := by
  unfold Go.sub Go.wrap
  have hb' : b < 2 ^ w := by omega
  rw [Nat.mod_eq_of_lt hb']
  have : a + (2 ^ w - b) = (a - b) + 2 ^ w := by omega
  rw [this, Nat.add_mod_right, Nat.mod_eq_of_lt (by omega)]

theorem ofS_natCast' {w n : Nat} (h : n < 2 ^ w) : Go.ofS w (n : Int) = n := by
  unfold Go.ofS
  have : ((n : Int) % (2 : Int) ^ w) = (n : Int) := by
    apply Int.emod_eq_of_lt (by omega)
    exact_mod_cast h
  rw [this]; simp

theorem divS_small {w a b : Nat} (ha : a < 2 ^ (w - 1)) (hb : b < 2 ^ (w - 1)) (hw : 0 < w) :
    Go.divS w a b = a / b := by
  unfold Go.divS
  rw [toS_small ha, toS_small hb]
  have h1 : Int.tdiv (a : Int) (b : Int) = ((a / b : Nat) : Int) := by
    rw [Int.tdiv_eq_ediv_of_nonneg (by omega)]; simp
  have hlt : a / b < 2 ^ w := by
    have : a / b ≤ a := Nat.div_le_self a b
    have : 2 ^ (w - 1) ≤ 2 ^ w := Nat.pow_le_pow_right (by omega) (by omega)
    omega
  rw [h1, ofS_natCast' hlt]

theorem modS_small {w a b : Nat} (ha : a < 2 ^ (w - 1)) (hb : b < 2 ^ (w - 1)) (hb0 : 0 < b) (hw : 0 < w) :
    Go.modS w a b = a % b := by
  unfold Go.modS
  rw [toS_small ha, toS_small hb]
  have h1 : Int.tmod (a : Int) (b : Int) = ((a % b : Nat) : Int) := by
    rw [Int.tmod_eq_emod_of_nonneg (by omega)]; simp
  have hlt : a % b < 2 ^ w := by
    have : a % b < b := Nat.mod_lt a hb0
    have : 2 ^ (w - 1) ≤ 2 ^ w := Nat.pow_le_pow_right (by omega) (by omega)
    omega
  rw [h1, ofS_natCast' hlt]

theorem mask64_and (x k : Nat) : Go.and x (Go.mask64 k) = x % 2 ^ k := by
  unfold Go.and Go.mask64; exact Nat.and_two_pow_sub_one_eq_mod x k
theorem mask64_and' (x k : Nat) : Go.and (Go.mask64 k) x = x % 2 ^ k := by
  unfold Go.and; rw [Nat.and_comm]; exact mask64_and x k

theorem and_eq (a b : Nat) : Go.and a b = a &&& b := rfl

/-- rewrite the `Go.*` operations on operands that fit their type into plain arithmetic;
    side conditions are discharged by `omega` from the hypotheses in scope -/
syntax "go_simp" : tactic
macro_rules
  | `(tactic| go_simp) => `(tactic|
      simp (disch := omega) only [sar_small, shr_eq, ltS_small, leS_small, conv_narrow, conv_widen_u,
        conv_widen_small, add_small, sub_small, mul_small, shl_small, divS_small, modS_small, toS_small,
        mask64_and, mask64_and', and_eq,
        and_255, and_63, and_15, and_7, and_4, and_255', and_63', and_15', and_7', and_4',
        List.getD_cons_zero, List.getD_cons_succ, List.getD_nil,
        decide_eq_true_eq, beq_iff_eq, bne_iff_ne, ne_eq])

/-! ### values as residues: `Go.ofS`, wrap-around arithmetic in the ring of residues -/

theorem ofS_natCast {w n : Nat} (h : n < 2 ^ w) : Go.ofS w (n : Int) = n := by
  unfold Go.ofS
  have : ((n : Int) % (2 : Int) ^ w) = (n : Int) := by
    apply Int.emod_eq_of_lt (by omega)
    exact_mod_cast h
  rw [this]; simp

theorem ofS_lt (w : Nat) (x : Int) : Go.ofS w x < 2 ^ w := by
  unfold Go.ofS
  have hpos : (0 : Int) < (2 : Int) ^ w := Int.pow_pos (by decide)
  have h1 := Int.emod_lt_of_pos x hpos
  have h0 := Int.emod_nonneg x (Int.ne_of_gt hpos)
  have : ((x % (2 : Int) ^ w).toNat : Int) < ((2 ^ w : Nat) : Int) := by
    rw [Int.toNat_of_nonneg h0]; simpa using h1
  exact Int.ofNat_lt.mp this

theorem ofS_cast (w : Nat) (x : Int) : ((Go.ofS w x : Nat) : Int) = x % (2 : Int) ^ w := by
  unfold Go.ofS
  have hpos : (0 : Int) < (2 : Int) ^ w := Int.pow_pos (by decide)
  exact Int.toNat_of_nonneg (Int.emod_nonneg x (Int.ne_of_gt hpos))

/-- a pattern is determined by its residue -/
theorem eq_ofS {w p : Nat} {x : Int} (hp : p < 2 ^ w) (h : (p : Int) % (2 : Int) ^ w = x % (2 : Int) ^ w) :
    p = Go.ofS w x := by
  have h1 : ((p : Nat) : Int) = ((Go.ofS w x : Nat) : Int) := by
    rw [ofS_cast, ← h]
    symm
    apply Int.emod_eq_of_lt (by omega)
    exact_mod_cast hp
  exact_mod_cast h1

/-- wrap-around addition and multiplication compute in the ring of residues: intermediate
    overflow is harmless -/
theorem add_ofS (w : Nat) (a b : Int) : Go.add w (Go.ofS w a) (Go.ofS w b) = Go.ofS w (a + b) := by
  apply eq_ofS
  · exact Nat.mod_lt _ (Nat.two_pow_pos w)
  · unfold Go.add Go.wrap
    rw [Int.natCast_emod, Int.natCast_add, ofS_cast, ofS_cast]
    simp only [Int.natCast_pow, Int.cast_ofNat_Int]
    rw [Int.emod_emod_of_dvd _ (Int.dvd_refl _), ← Int.add_emod]

theorem mul_ofS (w : Nat) (a b : Int) : Go.mul w (Go.ofS w a) (Go.ofS w b) = Go.ofS w (a * b) := by
  apply eq_ofS
  · exact Nat.mod_lt _ (Nat.two_pow_pos w)
  · unfold Go.mul Go.wrap
    rw [Int.natCast_emod, Int.natCast_mul, ofS_cast, ofS_cast]
    simp only [Int.natCast_pow, Int.cast_ofNat_Int]
    rw [Int.emod_emod_of_dvd _ (Int.dvd_refl _), ← Int.mul_emod]

theorem sub_ofS (w : Nat) (a b : Int) : Go.sub w (Go.ofS w a) (Go.ofS w b) = Go.ofS w (a - b) := by
  apply eq_ofS
  · exact Nat.mod_lt _ (Nat.two_pow_pos w)
  · unfold Go.sub Go.wrap
    have hb := ofS_lt w b
    rw [Nat.mod_eq_of_lt hb, Int.natCast_emod, Int.natCast_add, Int.natCast_sub (Nat.le_of_lt hb),
      ofS_cast, ofS_cast]
    simp only [Int.natCast_pow, Int.cast_ofNat_Int]
    rw [Int.emod_emod_of_dvd _ (Int.dvd_refl _)]
    have : a % 2 ^ w + (2 ^ w - b % 2 ^ w) = (a % 2 ^ w - b % 2 ^ w) + 2 ^ w := by omega
    rw [this, Int.add_emod_right, ← Int.sub_emod]

/-- a value in the signed range is read back from its pattern -/
theorem toS_ofS {w : Nat} (hw : 0 < w) {x : Int} (hlo : -(2 : Int) ^ (w - 1) ≤ x)
    (hhi : x < (2 : Int) ^ (w - 1)) : Go.toS w (Go.ofS w x) = x := by
  have hsplit : (2 : Int) ^ w = 2 * (2 : Int) ^ (w - 1) := by
    have : w = (w - 1) + 1 := by omega
    rw [this, Int.pow_succ]; simp; omega
  have hHpos : (0 : Int) < (2 : Int) ^ (w - 1) := Int.pow_pos (by decide)
  have hcast : (((2 : Nat) ^ (w - 1) : Nat) : Int) = (2 : Int) ^ (w - 1) := by simp
  unfold Go.toS
  by_cases hneg : 0 ≤ x
  · have hm : x % (2 : Int) ^ w = x := Int.emod_eq_of_lt hneg (by omega)
    have hc := ofS_cast w x
    rw [hm] at hc
    have : Go.ofS w x < 2 ^ (w - 1) := by
      apply Int.ofNat_lt.mp
      rw [hcast, hc]; exact hhi
    rw [if_pos this, hc]
  · have hm : x % (2 : Int) ^ w = x + (2 : Int) ^ w := by
      rw [← Int.add_emod_right x ((2 : Int) ^ w)]
      exact Int.emod_eq_of_lt (by omega) (by omega)
    have hc := ofS_cast w x
    rw [hm] at hc
    have : ¬ Go.ofS w x < 2 ^ (w - 1) := by
      intro hlt
      have := Int.ofNat_lt.mpr hlt
      rw [hcast, hc] at this
      omega
    rw [if_neg this, hc]; omega


theorem ofS_eq_natCast {w n : Nat} (h : n < 2 ^ w) : n = Go.ofS w (n : Int) := (ofS_natCast h).symm

/-! ### small list / arithmetic helpers -/

theorem take_succ_set {α : Type} (l : List α) (i : Nat) (a : α) (h : i < l.length) :
    (l.set i a).take (i + 1) = l.take i ++ [a] := by
  rw [List.take_add_one, List.take_set_of_le (Nat.le_refl i), List.getElem?_set_self h]
  rfl

end BridgeSem
