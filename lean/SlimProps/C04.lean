import SlimModel.Scan
import SlimModel.Slim
/-
  SlimProps.C04 — scans: the refusal clause and the shape of exhaustion.

  `C04_refuses_*`: on a non-empty trie whose view does not pass the scan guard, every scan API
  panics with the "incomplete slim" message before yielding anything — stated over an arbitrary
  `View`, then specialised to L1 (`Trie1.view`: guard = `opt.inner && opt.leaf`, i.e. all 12
  incomplete option combinations refuse) and to L2 (`Slim.view (Slim.encode t)`: the guard the Go
  code evaluates on the message — `InnerPrefixes != nil && InnerPrefixes.PositionBM != nil &&
  LeafPrefixes != nil` — is the same boolean).
  `C04_exhausted_stable`: once `next()` has reported exhaustion it reports it on every later call.

  The full iterator theorem (`C04_iter`: the yielded sequence is `Spec.scanFrom`) is not proved;
  it is checked by correspondence on every run (harness fam/trie genC04).
-/
open Scan

def refusal : Err :=
  .panic "incomplete slim does not support scanning. requires InnerPrefixes and LeafPrefixes"

theorem C04_refuses_getGEPath (v : View) (key : Bytes) (hne : v.isEmpty = false) (hg : v.scanOK = false) :
    getGEPath v key = .error refusal := by
  unfold getGEPath
  simp [hne, hg, refusal, bind, Except.bind, pure, Except.pure]

theorem C04_refuses_NewIter (v : View) (start : Bytes) (incl : Bool)
    (hne : v.isEmpty = false) (hg : v.scanOK = false) :
    newIterFrom v start incl = .error refusal := by
  unfold newIterFrom
  simp [C04_refuses_getGEPath v start hne hg, bind, Except.bind]

theorem C04_refuses_ScanFrom (v : View) (start : Bytes) (incl withVal : Bool) (keep : Bytes → Bool)
    (stop : Option Nat) (hne : v.isEmpty = false) (hg : v.scanOK = false) :
    scanFrom v start incl withVal keep stop = .error refusal := by
  unfold scanFrom
  simp [C04_refuses_NewIter v start incl hne hg, bind, Except.bind]

theorem C04_refuses_ScanFromTo (v : View) (start : Bytes) (incl : Bool) (stop : Bytes) (inclEnd withVal : Bool)
    (stopAfter : Option Nat) (hne : v.isEmpty = false) (hg : v.scanOK = false) :
    scanFromTo v start incl stop inclEnd withVal stopAfter = .error refusal := by
  unfold scanFromTo
  exact C04_refuses_ScanFrom v start incl withVal _ stopAfter hne hg

/-- L1: the guard is exactly "stores both kinds of prefix": each of the 12 option combinations
    that are not Complete refuses, each of the 4 complete ones passes the guard. -/
theorem C04_guard_L1 (t : Trie1) : t.view.scanOK = (t.opt.inner && t.opt.leaf) := rfl

theorem C04_guard_normalize (d i l c : Option Bool) :
    let o := Opt.normalize d i l c
    (o.inner && o.leaf) = (c.getD false || (i.getD false && l.getD false)) := by
  cases c with
  | none => simp [Opt.normalize]
  | some c => cases c <;> simp [Opt.normalize]

/-- L2: the guard evaluated on the message `creator.build` produces is the same boolean. -/
theorem C04_guard_L2 (t : Trie1) (hne : t.nodes.size ≠ 0) :
    (Slim.view (Slim.encode t)).scanOK = (t.opt.inner && t.opt.leaf) := by
  unfold Slim.view Slim.encode Slim.encodeCreator
  simp only [hne, if_false]
  cases hi : t.opt.inner <;> cases hl : t.opt.leaf <;> simp

theorem C04_nonempty_L2 (t : Trie1) (hne : t.nodes.size ≠ 0) :
    (Slim.view (Slim.encode t)).isEmpty = false := by
  unfold Slim.view Slim.encode Slim.encodeCreator
  simp [hne]

/-- Every scan API refuses on the bit-level trie built with any of the 12 incomplete option
    combinations. -/
theorem C04_refuses (t : Trie1) (hne : t.nodes.size ≠ 0) (hinc : (t.opt.inner && t.opt.leaf) = false)
    (start stop : Bytes) (incl inclEnd withVal : Bool) (stopAfter : Option Nat) :
    let v := Slim.view (Slim.encode t)
    newIterFrom v start incl = .error refusal ∧
    scanFrom v start incl withVal (fun _ => true) stopAfter = .error refusal ∧
    scanFromTo v start incl stop inclEnd withVal stopAfter = .error refusal := by
  have h1 := C04_nonempty_L2 t hne
  have h2 : (Slim.view (Slim.encode t)).scanOK = false := by rw [C04_guard_L2 t hne, hinc]
  exact ⟨C04_refuses_NewIter _ _ _ h1 h2, C04_refuses_ScanFrom _ _ _ _ _ _ h1 h2,
    C04_refuses_ScanFromTo _ _ _ _ _ _ _ h1 h2⟩

/-- Exhaustion is stable: after a call that returned no key, every later call returns no key
    and leaves the state unchanged. -/
theorem C04_exhausted_stable (v : View) (withVal : Bool) (s s' : IterState) (val : Option Bytes)
    (h : iterNext v withVal s = .ok (s', none, val)) :
    iterNext v withVal s' = .ok (s', none, none) ∧ val = none := by
  unfold iterNext at h
  cases s with
  | single id buf consumed =>
    simp only [bind, Except.bind, pure, Except.pure] at h
    split at h
    · -- consumed
      rename_i hc
      simp only [Except.ok.injEq, Prod.mk.injEq] at h
      obtain ⟨rfl, -, rfl⟩ := h
      simp [iterNext, hc, pure, Except.pure]
    · split at h
      · cases h
      · rename_i n hn
        cases n with
        | inner r => simp at h
        | leaf ith lp =>
          simp only [] at h
          split at h
          · cases h
          · simp at h
  | walk stack buf =>
    cases stack with
    | nil =>
      simp only [pure, Except.pure, Except.ok.injEq, Prod.mk.injEq] at h
      obtain ⟨rfl, -, rfl⟩ := h
      simp [iterNext, pure, Except.pure]
    | cons e rest =>
      simp only [bind, Except.bind, pure, Except.pure] at h
      split at h
      · cases h
      · simp at h

/-- non-vacuity: a LeafPrefix-only trie over two keys refuses; its Complete sibling does not -/
example : (build [[0x61], [0x62]] none { leaf := true }).toOption.map
    (fun t => (Slim.view (Slim.encode t)).scanOK) = some false := by decide
example : (build [[0x61], [0x62]] none { inner := true, leaf := true }).toOption.map
    (fun t => (Slim.view (Slim.encode t)).scanOK) = some true := by decide

#print axioms C04_refuses
#print axioms C04_refuses_getGEPath
#print axioms C04_guard_L1
#print axioms C04_guard_L2
#print axioms C04_guard_normalize
#print axioms C04_exhausted_stable
