import SlimProofs.WireMarshal
import SlimProofs.InstanceLemmas
import SlimModel.LegacyWrite
import SlimProofs.LegacyArray
import SlimProofs.LegacyBuildOld
/-
  SlimProofs.Legacy3Wire — bytes → sections for the three-section layouts (≤ 0.5.9): the stream
  `writeLegacy3` produces dispatches to the `legacy3` branch of `Unmarshal` with exactly the three
  messages `sections3` made; the writer's messages are well-formed `array.Array32` messages without
  unknown bytes as long as the old trie's node count fits an int32.
-/
open Wire Frame Version Bits

namespace Wire

theorem version_legacy (v : String) (h : v = "1.0.0" ∨ v = "0.5.8" ∨ v = "0.5.9") :
    VersionOK v ∧ isCompatible v = true ∧ isCurrentLayout v = false := by
  rcases h with rfl | rfl | rfl <;> decide

/-- Three frames with a legacy header version: `Unmarshal` reads the three sections. -/
theorem unmarshal_frames_legacy3 (v : String) (hv : v = "1.0.0" ∨ v = "0.5.8" ∨ v = "0.5.9")
    (a b c : Array32Msg) (ha : a.WF) (hb : b.WF) (hc : c.WF) (hna : a.NF) (hnb : b.NF) (hnc : c.NF)
    (hba : BodyOK (encodeArray32 a)) (hbb : BodyOK (encodeArray32 b)) (hbc : BodyOK (encodeArray32 c)) :
    unmarshalDispatch (frame v (encodeArray32 a) ++ (frame v (encodeArray32 b) ++ frame v (encodeArray32 c)))
      = .ok (.legacy3 v a b c) := by
  obtain ⟨hvo, hcomp, hlay⟩ := version_legacy v hv
  have sz : ∀ x : Array32Msg, BodyOK (encodeArray32 x) → (encodeArray32 x).length < 2 ^ 64 := by
    intro x hx; unfold BodyOK maxAlloc at hx; omega
  have hh : readHeader (frame v (encodeArray32 a) ++ (frame v (encodeArray32 b) ++ frame v (encodeArray32 c)))
      = .ok (⟨v, 32, (encodeArray32 a).length⟩,
          encodeArray32 a ++ (frame v (encodeArray32 b) ++ frame v (encodeArray32 c))) := by
    unfold frame
    rw [List.append_assoc]
    exact readHeader_header v hvo _ (sz a hba) _
  have h1 := readMsg_frame decodeArray32 v hvo (encodeArray32 a) hba
    (frame v (encodeArray32 b) ++ frame v (encodeArray32 c))
  rw [decodeArray32_encode a ha hna (sz a hba)] at h1
  have h2 := readMsg_frame decodeArray32 v hvo (encodeArray32 b) hbb (frame v (encodeArray32 c))
  rw [decodeArray32_encode b hb hnb (sz b hbb)] at h2
  have h3 := readMsg_frame decodeArray32 v hvo (encodeArray32 c) hbc []
  rw [decodeArray32_encode c hc hnc (sz c hbc), List.append_nil] at h3
  unfold unmarshalDispatch
  rw [hh]
  simp only [hcomp, hlay]
  rw [h1]
  simp only
  rw [h2]
  simp only
  rw [h3]
  rfl

end Wire

/-! ### the writer's messages are well formed -/

namespace LegacyWrite
open Legacy

theorem zeroEmpty_mem (ws os : List Nat) : ∀ x ∈ zeroEmpty ws os, x = 0 ∨ x ∈ os := by
  induction ws generalizing os with
  | nil => intro x hx; cases os <;> simp_all [zeroEmpty]
  | cons w ws ih =>
    cases os with
    | nil => intro x hx; simp [zeroEmpty] at hx
    | cons o os =>
      intro x hx
      simp only [zeroEmpty, List.mem_cons] at hx
      rcases hx with rfl | hx
      · split
        · exact Or.inl rfl
        · exact Or.inr (by simp)
      · rcases ih os x hx with h | h
        · exact Or.inl h
        · exact Or.inr (List.mem_cons_of_mem _ h)

theorem idsFrom_lt (p : OldNode → Bool) (ns : List OldNode) (i : Nat) :
    ∀ x ∈ idsFrom p i ns, x < i + ns.length := by
  intro x hx
  obtain ⟨j, hj, rfl, _⟩ := (idsFrom_mem p ns i x).mp hx
  omega

theorem idsFrom_length_le (p : OldNode → Bool) (ns : List OldNode) (i : Nat) :
    (idsFrom p i ns).length ≤ ns.length := by
  induction ns generalizing i with
  | nil => simp [idsFrom]
  | cons n ns ih =>
    unfold idsFrom
    split
    · simp; exact ih (i + 1)
    · have := ih (i + 1); simp; omega

theorem idsWhere_lt (ns : List OldNode) (p : OldNode → Bool) : ∀ x ∈ idsWhere ns p, x < ns.length := by
  intro x hx
  have := idsFrom_lt p ns 0 x hx
  omega

theorem idsWhere_length_le (ns : List OldNode) (p : OldNode → Bool) : (idsWhere ns p).length ≤ ns.length :=
  idsFrom_length_le p ns 0

/-- `initIndex` over ids below `n`, within the int32 range -/
theorem initIndex_WF (idx : List Nat) (minWords : Nat) (elts : Bytes) (n : Nat)
    (h : ∀ i ∈ idx, i < n) (hl : idx.length < 2 ^ 31) (hn : max (minWords * 64) n + 63 < 2 ^ 31) :
    (initIndex idx minWords elts).WF := by
  have hbits := ofIdx_bits_le idx (minWords * 64) n h
  refine ⟨hl, ofIdx_lt _ _, ?_, by simp [initIndex], by simp [initIndex], ?_⟩
  · intro o ho
    rcases zeroEmpty_mem _ _ o ho with rfl | hm
    · omega
    · have := indexRank64_le _ false o hm
      omega
  · intro b hb; simp [initIndex] at hb

theorem packBM16_lt (l : List Nat) (h : ∀ x ∈ l, x < 65536) : ∀ w ∈ packBM16 l, w < 2 ^ 64 := by
  induction l using packBM16.induct with
  | case1 => intro w hw; simp [packBM16] at hw
  | case2 a rest ih =>
    intro w hw
    rw [packBM16_cons] at hw
    rcases List.mem_cons.mp hw with rfl | hw
    · have ha : a < 65536 := h a (by simp)
      have hr : ∀ x ∈ rest, x < 65536 := fun x hx => h x (List.mem_cons_of_mem _ hx)
      have hb := getD_lt rest hr 0
      have hc := getD_lt rest hr 1
      have hd := getD_lt rest hr 2
      omega
    · exact ih (fun x hx => h x (List.mem_cons_of_mem _ (List.mem_of_mem_drop hx))) w hw

theorem packBM16_length_le (l : List Nat) : (packBM16 l).length * 4 ≤ l.length + 3 := by
  induction l using packBM16.induct with
  | case1 => simp [packBM16]
  | case2 a rest ih =>
    rw [packBM16_cons]
    simp only [List.length_cons, List.length_drop] at ih ⊢
    omega

theorem bitLenFrom_le (ws : List Nat) (h : ∀ w ∈ ws, w < 2 ^ 64) (i best : Nat) :
    bitLenFrom ws i best ≤ max best ((i + ws.length) * 64) := by
  induction ws generalizing i best with
  | nil => simp only [bitLenFrom]; exact Nat.le_max_left _ _
  | cons w ws ih =>
    unfold bitLenFrom
    have hw : w < 2 ^ 64 := h w (by simp)
    have := ih (fun x hx => h x (List.mem_cons_of_mem _ hx)) (i + 1)
      (if w = 0 then best else i * 64 + w.log2 + 1)
    simp only [List.length_cons]
    by_cases hw0 : w = 0
    · simp only [hw0, if_true] at this ⊢
      omega
    · simp only [hw0, if_false] at this ⊢
      have hl : w.log2 < 64 := (Nat.log2_lt hw0).mpr hw
      omega

theorem bitLenWords_le (ws : List Nat) (h : ∀ w ∈ ws, w < 2 ^ 64) : bitLenWords ws ≤ ws.length * 64 := by
  have := bitLenFrom_le ws h 0 0
  unfold bitLenWords
  omega

/-- the children section -/
theorem childrenMsg_WF (vr : Variant) (nodes : List OldNode) (minWords : Nat)
    (hbm : ∀ n ∈ nodes, n.bm < 65536) (hn : max (minWords * 64) nodes.length + 63 < 2 ^ 31)
    (hn16 : 16 * nodes.length + 127 < 2 ^ 31) :
    (childrenMsg vr nodes minWords).WF := by
  have hidx : (initIndex (idsWhere nodes (·.inner)) minWords []).WF ∧
      ∀ e, (initIndex (idsWhere nodes (·.inner)) minWords e).WF := by
    have hl := idsWhere_length_le nodes (·.inner)
    exact ⟨initIndex_WF _ _ _ nodes.length (idsWhere_lt _ _) (by omega) hn,
      fun e => initIndex_WF _ _ _ nodes.length (idsWhere_lt _ _) (by omega) hn⟩
  unfold childrenMsg
  simp only
  split
  · exact hidx.2 _
  · split
    · exact hidx.1
    · obtain ⟨h1, h2, h3, _, _, _⟩ := hidx.1
      have hbms : ∀ x ∈ (nodes.filter (·.inner)).map (·.bm), x < 65536 := by
        intro x hx
        obtain ⟨n, hn', rfl⟩ := List.mem_map.mp hx
        exact hbm n (List.mem_filter.mp hn').1
      have hw := packBM16_lt _ hbms
      have hlen : (packBM16 ((nodes.filter (·.inner)).map (·.bm))).length * 4 ≤ nodes.length + 3 := by
        refine Nat.le_trans (packBM16_length_le _) ?_
        simp only [List.length_map]
        have := List.length_filter_le (fun n : OldNode => n.inner) nodes
        omega
      refine ⟨h1, h2, h3, by simp, by simp, ?_⟩
      intro b hb
      simp only [Option.some.injEq] at hb
      subst hb
      refine ⟨by simp, ?_, hw, ?_⟩
      · have := bitLenWords_le _ hw
        show bitLenWords _ < 2 ^ 31
        omega
      · intro r hr
        have := indexRank128_le _ r hr
        omega

theorem stepsMsg_WF (nodes : List OldNode) (minWords : Nat)
    (hn : max (minWords * 64) nodes.length + 63 < 2 ^ 31) : (stepsMsg nodes minWords).WF := by
  have hl := idsWhere_length_le nodes (·.step != 0)
  exact initIndex_WF _ _ _ nodes.length (idsWhere_lt _ _) (by omega) hn

theorem leavesMsg_WF (nodes : List OldNode) (vals : Array Bytes)
    (hn : nodes.length + 63 < 2 ^ 31) : (leavesMsg nodes vals).WF := by
  have hl := idsWhere_length_le nodes (·.leaf.isSome)
  exact initIndex_WF _ _ _ nodes.length (idsWhere_lt _ _) (by omega) (by omega)

theorem childrenMsg_unrecognized (vr : Variant) (nodes : List OldNode) (minWords : Nat) :
    (childrenMsg vr nodes minWords).unrecognized = [] := by
  unfold childrenMsg
  simp only
  split
  · rfl
  · split <;> rfl

theorem NF_of_nil (a : Array32Msg) (h : a.unrecognized = []) : a.NF := by
  unfold Array32Msg.NF
  rw [h, unknownOnly]

/-- The three sections of every variant are well-formed `Array32` messages without unknown bytes,
    as long as the old trie's node count (plus the bitmap rounding) fits an int32. -/
theorem sections3_WF (vr : Variant) (keys vals : List Bytes) (ch st lv : Array32Msg)
    (hsec : sections3 vr keys vals = .ok (ch, st, lv))
    (hn : ∀ nodes, buildOld keys vr.leafSteps = .ok nodes → 16 * nodes.size + 127 < 2 ^ 31) :
    ch.WF ∧ st.WF ∧ lv.WF ∧ ch.NF ∧ st.NF ∧ lv.NF := by
  unfold sections3 at hsec
  cases hb : buildOld keys vr.leafSteps with
  | error e => rw [hb] at hsec; cases hsec
  | ok nodes =>
    rw [hb] at hsec
    have hsz := hn nodes hb
    have hbm := buildOld_bm_lt keys vr.leafSteps nodes hb
    simp only [bind, Except.bind, pure, Except.pure, Except.ok.injEq, Prod.mk.injEq] at hsec
    obtain ⟨rfl, rfl, rfl⟩ := hsec
    have hlen : nodes.toList.length = nodes.size := by simp
    have hmw : max ((if vr.extendedIdx = true then (nodes.toList.length + 63) / 64 else 0) * 64)
        nodes.toList.length + 63 < 2 ^ 31 := by
      rw [hlen]
      split <;> omega
    refine ⟨childrenMsg_WF vr _ _ hbm hmw (by rw [hlen]; omega), stepsMsg_WF _ _ hmw, leavesMsg_WF _ _ (by rw [hlen]; omega),
      NF_of_nil _ (childrenMsg_unrecognized _ _ _), NF_of_nil _ rfl, NF_of_nil _ rfl⟩

end LegacyWrite

namespace LegacyWrite
open Legacy

theorem parseVariant_header (v : String) (vr : Variant) (h : parseVariant v = some vr) :
    vr.header = "1.0.0" ∨ vr.header = "0.5.8" ∨ vr.header = "0.5.9" := by
  unfold parseVariant at h
  split at h
  all_goals first
    | (cases h; decide)
    | cases h

/-- what `writeLegacy3` returns: the variant, its three sections, and the three frames -/
theorem writeLegacy3_inv (variant : String) (keys vals : List Bytes) (stream : Bytes)
    (h : writeLegacy3 variant keys vals = .ok stream) :
    ∃ vr ch st lv, parseVariant variant = some vr ∧ sections3 vr keys vals = .ok (ch, st, lv) ∧
      stream = frame vr.header (encodeArray32 ch) ++ (frame vr.header (encodeArray32 st) ++
        frame vr.header (encodeArray32 lv)) := by
  unfold writeLegacy3 at h
  cases hp : parseVariant variant with
  | none => rw [hp] at h; cases h
  | some vr =>
    rw [hp] at h
    simp only at h
    cases hs : sections3 vr keys vals with
    | error e => rw [hs] at h; cases h
    | ok r =>
      obtain ⟨ch, st, lv⟩ := r
      rw [hs] at h
      simp only [bind, Except.bind, pure, Except.pure, Except.ok.injEq] at h
      exact ⟨vr, ch, st, lv, rfl, hs, h.symm⟩

/-- **bytes → sections**: the stream of three frames dispatches to the `legacy3` branch with the
    three messages of `sections3`. -/
theorem dispatch_legacy3 (vr : Variant) (keys vals : List Bytes) (ch st lv : Array32Msg)
    (hh : vr.header = "1.0.0" ∨ vr.header = "0.5.8" ∨ vr.header = "0.5.9")
    (hsec : sections3 vr keys vals = .ok (ch, st, lv))
    (hn : ∀ nodes, buildOld keys vr.leafSteps = .ok nodes → 16 * nodes.size + 127 < 2 ^ 31)
    (hbc : BodyOK (encodeArray32 ch)) (hbs : BodyOK (encodeArray32 st)) (hbl : BodyOK (encodeArray32 lv)) :
    unmarshalDispatch (frame vr.header (encodeArray32 ch) ++ (frame vr.header (encodeArray32 st) ++
        frame vr.header (encodeArray32 lv))) = .ok (.legacy3 vr.header ch st lv) := by
  obtain ⟨w1, w2, w3, n1, n2, n3⟩ := sections3_WF vr keys vals ch st lv hsec hn
  exact unmarshal_frames_legacy3 vr.header hh ch st lv w1 w2 w3 n1 n2 n3 hbc hbs hbl

end LegacyWrite

namespace LegacyWrite

/-- every turn of the loop makes one node and uses one unit of fuel -/
theorem oldLoop_size_le (kn : Array (List Nat)) (ls : Bool) (fuel i : Nat) (queue : Array Sub)
    (nodes res : Array OldNode) (h : oldLoop kn ls fuel i queue nodes = .ok res) :
    res.size ≤ nodes.size + fuel := by
  induction fuel generalizing i queue nodes with
  | zero =>
    unfold oldLoop at h
    split at h
    · cases h
    · simp only [Except.ok.injEq] at h; subst h; omega
  | succ fuel ih =>
    unfold oldLoop at h
    split at h
    · have := ih _ _ _ h
      simp only [Array.size_push] at this
      omega
    · simp only [Except.ok.injEq] at h; subst h; omega

/-- the old trie over `n` keys has at most `2n + 1` nodes -/
theorem buildOld_size_le (keys : List Bytes) (ls : Bool) (nodes : Array OldNode)
    (h : buildOld keys ls = .ok nodes) : nodes.size ≤ 2 * keys.length + 1 := by
  unfold buildOld at h
  simp only at h
  split at h
  · simp only [Except.ok.injEq] at h; subst h; simp
  · have := oldLoop_size_le _ _ _ _ _ _ _ h
    simpa using this

end LegacyWrite
