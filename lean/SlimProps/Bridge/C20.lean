import Generated.Facts
/-
  SlimProps.Bridge.C20 — tie 1, fact group "c20flow" of lean/Generated/Facts.lean (regenerated from /repo's
  working tree by harness/cmd/extract on every run): SEMANTIC facts, computed by a conservative taint
  analysis over go/ast + go/types that follows the caller's memory through local aliases, readers
  (`bytes.NewReader`) and calls of functions of the package (harness/cmd/extract/main.go, `taint`,
  `optEscapes`).  They do not depend on how the code is written, only on where the memory can go.
-/
namespace Bridge

/-! ### C20: the caller's buffer and the caller's options cannot be modified or retained -/
/-- `Unmarshal(buf)`: no write through `buf`, no store of `buf` (or a sub-slice, or a reader over it) into a
    field, element, global, closure or goroutine, no hand-over to a call that is not known to copy. -/
theorem bufEscapes : Generated.bufEscapes = [] := rfl
/-- `NewSlimTrie(…, opts ...Opt)`: no address of an element of `opts`, no write to one, no pointer-receiver
    method on one, no hand-over of the slice: the options are read by value only. -/
theorem optEscapes : Generated.optEscapes = [] := rfl

end Bridge
