// Command run generates the op script for one property, executes it against the
// real openacid/slim code in-process and writes script.txt, impl.txt, stats.json.
package main

import (
	"flag"
	"fmt"
	"os"

	_ "slimverif/harness/fam/arr"
	_ "slimverif/harness/fam/enc"
	_ "slimverif/harness/fam/idx"
	_ "slimverif/harness/fam/leg"
	_ "slimverif/harness/fam/trie"
	_ "slimverif/harness/fam/wire"
	"slimverif/harness/lp"
)

func main() {
	prop := flag.String("prop", "", "property id (C01..C20)")
	tier := flag.String("tier", "quick", "quick|thorough")
	seed := flag.Int64("seed", 1, "PRNG seed (VERIF_SEED)")
	out := flag.String("out", "", "output directory")
	replay := flag.String("replay", "", "replay an op script against the implementation instead of generating")
	flag.Parse()
	if *out == "" {
		fmt.Fprintln(os.Stderr, "need -out")
		os.Exit(2)
	}
	ctx, err := lp.NewCtx(*prop, *tier, *seed, *out)
	if err != nil {
		fmt.Fprintln(os.Stderr, err)
		os.Exit(2)
	}
	if *replay != "" {
		if err := ctx.Replay(*replay); err != nil {
			fmt.Fprintln(os.Stderr, err)
			os.Exit(2)
		}
	} else {
		gs, ok := lp.Generators[*prop]
		if !ok {
			fmt.Fprintln(os.Stderr, "no generator for property", *prop)
			os.Exit(2)
		}
		for _, g := range gs {
			g(ctx)
		}
	}
	if err := ctx.Close(); err != nil {
		fmt.Fprintln(os.Stderr, err)
		os.Exit(2)
	}
}
