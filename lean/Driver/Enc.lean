import SlimModel.Basic
import SlimModel.Encode
/-
  Driver.Enc — line-protocol family `enc` (property C15): runs the model of package `encode`.

  Encoder spec `<spec>`:
      i8 i16 i32 i64 u16 u32 u64 int str16 dummy bytes:<n>
      te:<le|be>:<type>       `*TypeEncoder`; `<type>` is a comma separated prefix term:
                              u8 u16 u32 u64 i8 i16 i32 i64 | a<n>,<type> | s<k>,<type>×k
      kind:<k> of:<k> sliceof:<k>   the encoder `EncoderByKind` / `EncoderOf` / `GetSliceEltEncoder` returns
                              for kind `<k>` (invalid bool int i8..i64 uint u8..u64 f32 f64 string struct ptr,
                              `slice.<k>`); a failed lookup answers `err:unknown-elt-type` / `err:not-slice`
  Value `<value>`: decimal for the integer encoders, `x<hex>` for str16 and bytes:<n>, `nil` for
      dummy, for te the leaf integers in field order, comma separated (`-` when there is none).

  Ops
      enc.rt <spec> <value> <tail-hex>
            → `<hex of Encode(v)> <consumed> <decoded value> <GetSize(v)> <GetEncodedSize(enc++tail)>`
              where consumed/decoded come from `Decode(Encode(v) ++ tail)`; a panic of Decode or
              GetEncodedSize is rendered `panic` in its position(s); a panic of Encode answers `panic`.
      enc.dec <spec> <buf-hex>
            → `<consumed>:<decoded value>|panic  <GetEncodedSize(buf)>|panic`
-/
namespace Driver.Enc
open Encode

abbrev State := Unit
def init : State := ()

def parseInt (s : String) : Option Int := s.toInt?

def primOf : String → Option Ty
  | "u8" => some .u8 | "u16" => some .u16 | "u32" => some .u32 | "u64" => some .u64
  | "i8" => some .i8 | "i16" => some .i16 | "i32" => some .i32 | "i64" => some .i64
  -- Go defined types over the same underlying integers (the model has one type per layout)
  | "nu8" => some .u8 | "ni16" => some .i16 | "nu32" => some .u32 | "ni64" => some .i64
  -- floats travel as their IEEE bit patterns: encoding/binary writes Float32bits / Float64bits
  | "f32" => some .u32 | "f64" => some .u64
  -- two distinct Go struct types that share their name (harness: localRecA / localRecB)
  | "blank" => some (.struct [.u8, .array 3 .u8, .u32, .i16, .u16, .array 2 .i8])
  | "recA" => some (.struct [.u32, .u32])
  | "recB" => some (.struct [.u16, .array 2 (.array 2 .u8)])
  | _ => none

mutual
/-- Prefix-notation type parser over comma separated tokens, with fuel. -/
def parseTy : Nat → List String → Option (Ty × List String)
  | 0, _ => none
  | fuel + 1, tok :: rest =>
    match primOf tok with
    | some t => some (t, rest)
    | none =>
      if tok.startsWith "a" then
        match (tok.drop 1).toString.toNat? with
        | none => none
        | some n =>
          match parseTy fuel rest with
          | some (t, rest') => some (.array n t, rest')
          | none => none
      else if tok.startsWith "s" then
        match (tok.drop 1).toString.toNat? with
        | none => none
        | some k =>
          match parseTys fuel k rest with
          | some (ts, rest') => some (.struct ts, rest')
          | none => none
      else none
  | _, [] => none
def parseTys : Nat → Nat → List String → Option (List Ty × List String)
  | 0, _, _ => none
  | _ + 1, 0, rest => some ([], rest)
  | fuel + 1, k + 1, rest =>
    match parseTy fuel rest with
    | none => none
    | some (t, rest') =>
      match parseTys fuel k rest' with
      | none => none
      | some (ts, rest'') => some (t :: ts, rest'')
end

def parseTyStr (s : String) : Option Ty :=
  let toks := s.splitOn ","
  match parseTy (2 * toks.length + 4) toks with
  | some (t, []) => some t
  | _ => none

def parseSpec (s : String) : Option Enc :=
  match s.splitOn ":" with
  | ["i8"] => some .i8 | ["i16"] => some .i16 | ["i32"] => some .i32 | ["i64"] => some .i64
  | ["u16"] => some .u16 | ["u32"] => some .u32 | ["u64"] => some .u64 | ["int"] => some .int
  | ["str16"] => some .str16 | ["dummy"] => some .dummy
  | ["bytes", n] => n.toNat?.map Enc.bytes
  | ["te", bo, ty] =>
    match (if bo = "le" then some BO.le else if bo = "be" then some BO.be else none), parseTyStr ty with
    | some bo, some t => some (.typ bo t)
    | _, _ => none
  | _ => none

/-- kinds by the names the harness uses; `slice.<k>` is a slice of `<k>` -/
def parseKindAtom : String → Option Kind
  | "invalid" => some .invalid | "bool" => some .bool | "int" => some .int | "i8" => some .int8
  | "i16" => some .int16 | "i32" => some .int32 | "i64" => some .int64 | "uint" => some .uint
  | "u8" => some .uint8 | "u16" => some .uint16 | "u32" => some .uint32 | "u64" => some .uint64
  | "f32" => some .float32 | "f64" => some .float64 | "string" => some .string
  | "struct" => some .struct | "ptr" => some .ptr
  | _ => none

def parseKind (s : String) : Option Kind :=
  let rec go : List String → Option Kind
    | [a] => parseKindAtom a
    | "slice" :: rest => (go rest).map Kind.slice
    | _ => none
  go (s.splitOn ".")

def showLookupErr : LookupErr → String
  | .unknownEltType => "err:unknown-elt-type"
  | .notSlice => "err:not-slice"

/-- specs `kind:<k>`, `of:<k>`, `sliceof:<k>`: the encoder comes from the lookup API of package encode -/
def parseLookup (s : String) : Option (Except LookupErr Enc) :=
  match s.splitOn ":" with
  | ["kind", k] => (parseKind k).map encoderByKind
  | ["of", k] => (parseKind k).map encoderOf
  | ["sliceof", k] => (parseKind k).map getSliceEltEncoder
  | _ => none

/-! flat leaf lists ↔ structured values, directed by the type -/

def unflatRep (f : List Int → Option (Val × List Int)) : Nat → List Int → Option (List Val × List Int)
  | 0, l => some ([], l)
  | n + 1, l =>
    match f l with
    | none => none
    | some (v, l') =>
      match unflatRep f n l' with
      | none => none
      | some (vs, l'') => some (v :: vs, l'')

mutual
def unflat : Ty → List Int → Option (Val × List Int)
  | .prim _ _, x :: l => some (.int x, l)
  | .prim _ _, [] => none
  | .array n t, l =>
    match unflatRep (unflat t) n l with
    | some (vs, l') => some (.seq vs, l')
    | none => none
  | .struct fs, l =>
    match unflatFields fs l with
    | some (vs, l') => some (.seq vs, l')
    | none => none
def unflatFields : List Ty → List Int → Option (List Val × List Int)
  | [], l => some ([], l)
  | t :: ts, l =>
    match unflat t l with
    | none => none
    | some (v, l') =>
      match unflatFields ts l' with
      | none => none
      | some (vs, l'') => some (v :: vs, l'')
end

mutual
def flat : Val → List Int
  | .int v => [v]
  | .seq vs => flatAll vs
  | _ => []
def flatAll : List Val → List Int
  | [] => []
  | v :: vs => flat v ++ flatAll vs
end

def parseInts (s : String) : Option (List Int) :=
  if s = "-" then some [] else (s.splitOn ",").mapM parseInt

def showInts (l : List Int) : String :=
  if l.isEmpty then "-" else ",".intercalate (l.map toString)

def parseVal (e : Enc) (s : String) : Option Val :=
  match e with
  | .str16 => (parseHex s).map Val.str
  | .bytes _ => (parseHex s).map Val.bytes
  | .dummy => if s = "nil" then some .nil else none
  | .typ _ t =>
    match parseInts s with
    | none => none
    | some l =>
      match unflat t l with
      | some (v, []) => some v
      | _ => none
  | _ => (parseInt s).map Val.int

def showVal : Val → String
  | .int v => toString v
  | .str s => hexOf s
  | .bytes b => hexOf b
  | .nil => "nil"
  | .seq vs => showInts (flatAll vs)

def showE {α : Type} (f : α → String) : Except Err α → String
  | .ok a => f a
  | .error e => e.kind

def step (st : State) (toks : List String) : State × String :=
  match toks with
  | ["enc.rt", spec, val, tail] =>
    match parseLookup spec with
    | some (.error e) => (st, showLookupErr e)
    | lk =>
    match (match lk with | some (.ok e) => some e | _ => parseSpec spec), parseHex tail with
    | some e, some tl =>
      match parseVal e val with
      | none => (st, "bad-op")
      | some v =>
        let c := e.codec
        match c.encode v with
        | .error er => (st, er.kind)
        | .ok enc =>
          let buf := enc ++ tl
          let d := match c.decode buf with
            | .ok (n, v') => s!"{n} {showVal v'}"
            | .error er => s!"{er.kind} {er.kind}"
          (st, s!"{hexOf enc} {d} {showE toString (c.getSize v)} {showE toString (c.getEncodedSize buf)}")
    | _, _ => (st, "bad-op")
  | ["enc.dec", spec, buf] =>
    match parseSpec spec, parseHex buf with
    | some e, some b =>
      let c := e.codec
      let d := match c.decode b with
        | .ok (n, v') => s!"{n}:{showVal v'}"
        | .error er => er.kind
      (st, s!"{d} {showE toString (c.getEncodedSize b)}")
    | _, _ => (st, "bad-op")
  | _ => (st, "bad-op")

end Driver.Enc
