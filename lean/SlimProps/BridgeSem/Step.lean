import Generated.Funcs
import SlimProps.BridgeSem.Common
import SlimModel.Slim
/-
  SlimProps.BridgeSem.Step — tie 1, semantic part: `encStep` / `decStep` (trie/slimtrie_create.go).
  See SlimProps/BridgeSem.lean for the overview.
-/

open Generated

namespace BridgeSem

/-! ### `encStep` / `decStep` (trie/slimtrie_create.go) -/

/-- `encStep` of a step of `4 n` bits is the model's `encStep n` (both wrap at 2^16 half-bytes) -/
theorem encStep_sem (n : Nat) (h : n < 2 ^ 29) :
    Generated.encStep (4 * n) = (Slim.encStep n).map UInt8.toNat := by
  unfold Generated.encStep Slim.encStep
  simp only [List.map_cons, List.map_nil, UInt8.toNat_ofNat']
  go_simp
  congr 1
  · omega
  · congr 1; omega

theorem or_mul (a b k : Nat) (h : b < 2 ^ k) : a * 2 ^ k ||| b = a * 2 ^ k + b := by
  have := Nat.shiftLeft_add_eq_or_of_lt h a
  rw [Nat.shiftLeft_eq] at this
  exact this.symm

theorem or_mul' (a b k : Nat) (h : b < 2 ^ k) : b ||| a * 2 ^ k = a * 2 ^ k + b := by
  rw [Nat.or_comm]; exact or_mul a b k h

set_option linter.unusedSimpArgs false in
/-- two bytes `b0 b1` decode to `4 ×` the model's `decStep b0 b1` bits -/
theorem decStep_sem (b0 b1 : UInt8) :
    Generated.decStep [b0.toNat, b1.toNat] = ((4 * Slim.decStep b0 b1 : Nat) : Int) := by
  have h0 := byte_lt b0
  have h1 := byte_lt b1
  unfold Generated.decStep Slim.decStep
  go_simp
  simp (disch := omega) only [Go.or, or_mul, or_mul']
  go_simp
  all_goals omega

/-- round trip in bits: a step (a multiple of 4 bits, an `int32 ≥ 0`) survives
    `decStep ∘ encStep` iff it is below 2^16 half-bytes -/
theorem decStep_encStep_iff (s : Nat) (h4 : s % 4 = 0) (hs : s < 2 ^ 31) :
    Generated.decStep (Generated.encStep s) = (s : Int) ↔ s / 4 < 2 ^ 16 := by
  obtain ⟨n, rfl⟩ : ∃ n, s = 4 * n := ⟨s / 4, by omega⟩
  rw [encStep_sem n (by omega)]
  unfold Slim.encStep
  simp only [List.map_cons, List.map_nil]
  rw [decStep_sem]
  unfold Slim.decStep
  simp only [UInt8.toNat_ofNat']
  constructor
  · intro h
    have : 4 * (n / 256 % 2 ^ 8 * 256 + n % 256 % 2 ^ 8) = 4 * n := by exact_mod_cast h
    omega
  · intro h
    have : 4 * (n / 256 % 2 ^ 8 * 256 + n % 256 % 2 ^ 8) = 4 * n := by omega
    exact_mod_cast this

end BridgeSem

#print axioms BridgeSem.encStep_sem
#print axioms BridgeSem.decStep_sem
#print axioms BridgeSem.decStep_encStep_iff
