import SlimProofs.SizeVarint
import SlimProofs.WireSlim
/-
  SlimProofs.InputWire — coarse, side-condition-free upper bounds for the protobuf size of the three
  message types, from the LENGTHS of their lists only (and well-formedness, which bounds every
  varint).  Used to discharge `Frame.BodyOK` (`length ≤ maxAlloc = 2^48`) from counts that are
  known to be below `2^31`: precision is irrelevant, so a length prefix `sizeVarint L` is bounded
  by `L + 1` (no hypothesis), which at worst doubles the payload at each nesting level.
-/

namespace InputWire

open Wire SizeV

theorem sizeVarint_le_succ (n : Nat) : sizeVarint n ≤ n + 1 := by
  have h := sizeVarint_add_le_add 0 n
  have h0 : sizeVarint 0 = 1 := sizeVarint_lt (by omega)
  rw [Nat.zero_add] at h
  omega

theorem sizeVarintF_le (fno v : Nat) (hf : fno * 8 < 2 ^ 14) (hv : v < 2 ^ 64) :
    sizeVarintF fno v ≤ 12 := by
  unfold sizeVarintF
  split
  · omega
  · have := sizeVarint_le2 (show fno * 8 + 0 < 2 ^ 14 by omega)
    have := sizeVarint_le10 hv
    omega

theorem sizePackedF_le (fno : Nat) (l : List Nat) (c : Nat) (hf : fno * 8 + 2 < 2 ^ 14)
    (hc : ∀ x ∈ l, sizeVarint x ≤ c) : sizePackedF fno l ≤ 3 + 2 * (c * l.length) := by
  unfold sizePackedF
  split
  · omega
  · have h1 := packedSize_le l c hc
    have h2 := sizeVarint_le2 hf
    have h3 := sizeVarint_le_succ (packedSize l)
    omega

theorem sizeBytesF_le (fno : Nat) (b : Bytes) (hf : fno * 8 + 2 < 2 ^ 14) :
    sizeBytesF fno b ≤ 3 + 2 * b.length := by
  unfold sizeBytesF
  split
  · omega
  · have h2 := sizeVarint_le2 hf
    have h3 := sizeVarint_le_succ b.length
    omega

theorem sizeMsgF_le (fno : Nat) (o : Option Nat) (S : Nat) (hf : fno * 8 + 2 < 2 ^ 14)
    (hs : ∀ s, o = some s → s ≤ S) : sizeMsgF fno o ≤ 3 + 2 * S := by
  cases o with
  | none => simp [sizeMsgF]
  | some s =>
    simp only [sizeMsgF]
    have h2 := sizeVarint_le2 hf
    have h3 := sizeVarint_le_succ s
    have := hs s rfl
    omega

/-! ### bitmaps -/

/-- a well-formed bitmap message of at most `W` words whose index tables have the lengths `mk`
    gives them -/
structure BMLen (b : BitmapMsg) (W : Nat) : Prop where
  wf : b.WF
  words : b.words.length ≤ W
  rank : b.rankIndex.length ≤ W + 1
  sel : b.selectIndex.length ≤ 2 * W + 1

theorem BMLen.mono {b : BitmapMsg} {W W' : Nat} (h : BMLen b W) (hw : W ≤ W') : BMLen b W' :=
  ⟨h.wf, by have := h.words; omega, by have := h.rank; omega, by have := h.sel; omega⟩

theorem protoSizeBitmap_le (b : BitmapMsg) (W : Nat) (h : BMLen b W) :
    protoSizeBitmap b ≤ 29 + 50 * W := by
  obtain ⟨⟨w1, w2, w3⟩, hw, hr, hs⟩ := h
  unfold protoSizeBitmap
  have h1 := sizePackedF_le 20 b.words 10 (by omega) (fun x hx => sizeVarint_le10 (w1 x hx))
  have h2 := sizePackedF_le 30 b.rankIndex 5 (by omega)
    (fun x hx => sizeVarint_le5 (Nat.lt_trans (w2 x hx) (by omega)))
  have h3 := sizePackedF_le 40 b.selectIndex 5 (by omega)
    (fun x hx => sizeVarint_le5 (Nat.lt_trans (w3 x hx) (by omega)))
  omega

/-! ### VLenArray -/

theorem protoSizeVLenArray_le (v : VLenArrayMsg) (P Q B : Nat) (hwf : v.WF)
    (hp : ∀ b, v.positionBM = some b → protoSizeBitmap b ≤ P)
    (hq : ∀ b, v.presenceBM = some b → protoSizeBitmap b ≤ Q)
    (hb : v.bytes.length ≤ B) :
    protoSizeVLenArray v ≤ 45 + 2 * P + 2 * Q + 2 * B := by
  obtain ⟨w1, w2, w3, _, _⟩ := hwf
  unfold protoSizeVLenArray
  have h1 := sizeVarintF_le 10 v.n (by omega) (by omega)
  have h2 := sizeVarintF_le 11 v.eltCnt (by omega) (by omega)
  have h3 := sizeVarintF_le 23 v.fixedSize (by omega) (by omega)
  have h4 := sizeMsgF_le 20 (v.positionBM.map protoSizeBitmap) P (by omega) (by
    intro s hs
    cases hb' : v.positionBM with
    | none => rw [hb'] at hs; cases hs
    | some b => rw [hb'] at hs; cases hs; exact hp b hb')
  have h5 := sizeMsgF_le 61 (v.presenceBM.map protoSizeBitmap) Q (by omega) (by
    intro s hs
    cases hb' : v.presenceBM with
    | none => rw [hb'] at hs; cases hs
    | some b => rw [hb'] at hs; cases hs; exact hq b hb')
  have h6 := sizeBytesF_le 30 v.bytes (by omega)
  omega

/-! ### Slim -/

theorem protoSizeSlim_le (m : SlimMsg) (X1 X2 X3 T Y1 Y2 Y3 : Nat) (hwf : m.WF)
    (h1 : ∀ b, m.nodeTypeBM = some b → protoSizeBitmap b ≤ X1)
    (h2 : ∀ b, m.inners = some b → protoSizeBitmap b ≤ X2)
    (h3 : ∀ b, m.shortBM = some b → protoSizeBitmap b ≤ X3)
    (ht : m.shortTable.length ≤ T)
    (h7 : ∀ v, m.innerPrefixes = some v → protoSizeVLenArray v ≤ Y1)
    (h8 : ∀ v, m.leafPrefixes = some v → protoSizeVLenArray v ≤ Y2)
    (h9 : ∀ v, m.leaves = some v → protoSizeVLenArray v ≤ Y3) :
    protoSizeSlim m ≤ 45 + 2 * (X1 + X2 + X3) + 10 * T + 2 * (Y1 + Y2 + Y3)
      + m.unrecognized.length := by
  obtain ⟨w1, w2, w3, _⟩ := hwf
  unfold protoSizeSlim
  have g1 := sizeVarintF_le 11 m.bigInnerCnt (by omega) (by omega)
  have g2 := sizeVarintF_le 14 m.shortSize (by omega) (by omega)
  have optB : ∀ (o : Option BitmapMsg) (X : Nat), (∀ b, o = some b → protoSizeBitmap b ≤ X) →
      ∀ s, o.map protoSizeBitmap = some s → s ≤ X := by
    intro o X h s hs
    cases o with
    | none => cases hs
    | some b => cases hs; exact h b rfl
  have optV : ∀ (o : Option VLenArrayMsg) (X : Nat), (∀ b, o = some b → protoSizeVLenArray b ≤ X) →
      ∀ s, o.map protoSizeVLenArray = some s → s ≤ X := by
    intro o X h s hs
    cases o with
    | none => cases hs
    | some b => cases hs; exact h b rfl
  have g3 := sizeMsgF_le 20 _ X1 (by omega) (optB _ _ h1)
  have g4 := sizeMsgF_le 30 _ X2 (by omega) (optB _ _ h2)
  have g5 := sizeMsgF_le 31 _ X3 (by omega) (optB _ _ h3)
  have g6 := sizePackedF_le 32 m.shortTable 5 (by omega)
    (fun x hx => sizeVarint_le5 (Nat.lt_trans (w3 x hx) (by omega)))
  have g7 := sizeMsgF_le 38 _ Y1 (by omega) (optV _ _ h7)
  have g8 := sizeMsgF_le 58 _ Y2 (by omega) (optV _ _ h8)
  have g9 := sizeMsgF_le 60 _ Y3 (by omega) (optV _ _ h9)
  have : 5 * m.shortTable.length ≤ 5 * T := Nat.mul_le_mul_left 5 ht
  omega

end InputWire
