package trie

import (
	"fmt"
	"math/bits"
	"sort"
	"strings"

	proto "github.com/golang/protobuf/proto"
	"github.com/openacid/slim/encode"
	slim "github.com/openacid/slim/trie"

	"slimverif/harness/gen"
	"slimverif/harness/lp"
)

// nodeKinds records which node kinds the built trie contains (257-bit nodes,
// table-compressed short nodes and the table size, max step), read from the
// marshaled message: the distribution goes into the evidence.
func nodeKinds(c *lp.Ctx) {
	if S.St == nil {
		return
	}
	buf, err := S.St.Marshal()
	if err != nil || len(buf) < 32 {
		return
	}
	m := &slim.Slim{}
	if proto.Unmarshal(buf[32:], m) != nil {
		return
	}
	if m.BigInnerCnt > 0 {
		c.Hit("nodes:has-257bit")
	}
	if m.ShortBM != nil {
		n := 0
		for _, w := range m.ShortBM.Words {
			n += bits.OnesCount64(w)
		}
		if n > 0 {
			c.Hit("nodes:has-short")
			c.Hit(fmt.Sprintf("nodes:short-size=%d", m.ShortSize))
		}
	}
	if m.NodeTypeBM != nil {
		inner := 0
		for _, w := range m.NodeTypeBM.Words {
			inner += bits.OnesCount64(w)
		}
		if inner > 64 {
			c.Hit("nodes:>64-inner(multi-word-bitmaps)")
		}
	}
	if m.Leaves != nil && m.Leaves.PositionBM != nil {
		c.Hit("leaves:variable-width")
	}
	if m.Leaves != nil && m.Leaves.EltCnt < m.Leaves.N {
		c.Hit("leaves:some-empty")
	}
}

// build emits the trie.new line and checks the all-or-nothing outcome for a
// valid (strictly ascending) input.
// refusedBuild: a build the builder must refuse AFTER it has already added nodes (a single-branch run too long for
// the 16-bit step, deep in the second level), or at once (keys out of order).  Whatever a refused build leaves behind
// (pooled creators, counters, caches) must not leak into the next build.
func refusedBuild(c *lp.Ctx) {
	if c.Rng.Intn(2) == 0 {
		// many inner nodes of many shapes are added (breadth first) before the builder reaches the pair with the
		// over-long run, which sits deep below the LAST branch
		run := strings.Repeat("x", 40000)
		m := map[string]struct{}{"zzzz" + run + "1": {}, "zzzz" + run + "2": {}, "zzz0": {}, "zz1": {}, "z2": {}}
		al := []byte("abcdefgh")
		for i := 0; i < 60+c.Rng.Intn(200); i++ {
			l := 2 + c.Rng.Intn(3)
			b := make([]byte, l)
			for j := range b {
				b[j] = al[c.Rng.Intn(2+c.Rng.Intn(len(al)-1))]
			}
			m[string(b)] = struct{}{}
		}
		keys := make([]string, 0, len(m))
		for k := range m {
			keys = append(keys, k)
		}
		sort.Strings(keys)
		line := "trie.new ffff none"
		for _, k := range keys {
			line += " " + lp.XS(k)
		}
		if got := c.Do(line); got != "err:step-too-long" {
			c.Violate(lp.Violation{What: "a single-branch run beyond the 16-bit step must be refused (no InnerPrefix)", Script: []string{line[:80] + "..."}, Expected: "err:step-too-long", Got: got})
		}
		c.Hit("history:refused-build(step-too-long),build")
		return
	}
	line := "trie.new - none x61 x63 x62 x64"
	if got := c.Do(line); got != "err:out-of-order" {
		c.Violate(lp.Violation{What: "key list that is not strictly ascending must be rejected with ErrKeyOutOfOrder, ascending accepted", Script: []string{line}, Expected: "err:out-of-order", Got: got})
	}
	c.Hit("history:refused-build(out-of-order),build")
}

func build(c *lp.Ctx, cs *Case) bool {
	if c.Rng.Intn(12) == 0 {
		refusedBuild(c)
	}
	line := cs.Line()
	ans := c.Do(line)
	cs.Describe(c)
	if ans != "ok" {
		c.Violate(lp.Violation{What: "valid strictly ascending input not accepted", Script: []string{line}, Expected: "ok", Got: ans})
		return false
	}
	c.Sample(line)
	nodeKinds(c)
	return true
}

// bigDirect: key counts beyond what the script protocol carries (2^18 + 5 and, thorough, 2^20 + 3 keys with
// distinct i32 values), on the implementation only: every key of the first and last 40 and a stride of the rest is
// found with its own value.  A code path that exists only for big inputs (parallel encoding, a second-level index)
// is otherwise never run by any check.
func bigDirect(c *lp.Ctx) { bigDirectOpt(c, false) }

// bigDirectComplete: the same in Complete mode (C03: Get finds exactly the retained keys, also of big key sets).
func bigDirectComplete(c *lp.Ctx) { bigDirectOpt(c, true) }

func bigDirectOpt(c *lp.Ctx, complete bool) {
	for _, n := range []int{1<<18 + 5, 1<<20 + 3}[:c.Pick(1, 2)] {
		keys := make([]string, n)
		vals := make([]int32, n)
		for i := range keys {
			keys[i] = fmt.Sprintf("key-%07d", 3*i)
			vals[i] = int32(i)
		}
		bad := func() (bad string) {
			defer func() {
				if r := recover(); r != nil {
					bad = fmt.Sprintf("panic: %v", r)
				}
			}()
			var opts []slim.Opt
			if complete {
				opts = []slim.Opt{{Complete: slim.Bool(true)}}
			}
			st, err := slim.NewSlimTrie(encode.I32{}, keys, vals, opts...)
			if err != nil {
				return "NewSlimTrie: " + err.Error()
			}
			if complete {
				// absent strings next to indexed keys are not found
				for _, q := range []string{keys[0] + "x", keys[n-1] + "\x00", "key-", keys[n/2][:len(keys[n/2])-1]} {
					if v, ok := st.Get(q); ok {
						return fmt.Sprintf("Get(%q) = %v, true; the string is not a key", q, v)
					}
				}
			}
			for i := 0; i < n; i++ {
				if i >= 40 && i < n-40 && i%997 != 0 {
					continue
				}
				v, ok := st.Get(keys[i])
				if !ok || v == nil || v.(int32) != vals[i] {
					return fmt.Sprintf("Get(%q) = %v, %v; want %d, true", keys[i], v, ok, vals[i])
				}
			}
			return ""
		}()
		c.Case(fmt.Sprintf("big-direct|%d", n), true)
		c.Hit(fmt.Sprintf("big-direct:n=%d", n))
		if bad != "" {
			c.Violate(lp.Violation{What: "Get on retained key (big key set, implementation only)",
				Script:   []string{fmt.Sprintf("NewSlimTrie(I32, key-%%07d of 3i for i < %d, values i); Get on the first and last 40 keys and every 997th", n)},
				Expected: "found with its own value", Got: bad})
		}
	}
}

// genC01: Get / GetID on every retained key, fresh and reloaded.
func genC01(c *lp.Ctx) {
	bigDirect(c)
	n := c.Pick(400, 1200)
	size := c.Pick(250, 1500)
	for it := 0; it < n; it++ {
		ks := gen.Any(c.Rng, size)
		cs := NewCase(c.Rng, ks, "", "")
		c.Case(cs.Key(), len(cs.Keys) >= 2)
		if !build(c, cs) {
			continue
		}
		for pass := 0; pass < 2; pass++ {
			for i, k := range cs.RKeys {
				q := lp.XS(k)
				want := cs.valAns(cs.RVals[i])
				if got := c.Do("trie.get " + q); got != want {
					c.Violate(lp.Violation{What: fmt.Sprintf("Get on retained key (pass %d)", pass), Script: []string{cs.Line(), "trie.get " + q}, Expected: want, Got: got})
				}
				if got := c.Do("trie.id " + q); got == "-1" || got == "panic" {
					c.Violate(lp.Violation{What: "GetID on retained key", Script: []string{cs.Line(), "trie.id " + q}, Expected: ">=0", Got: got})
				}
			}
			if pass == 0 {
				if c.Rng.Intn(3) != 0 {
					break
				}
				if got := c.Do("trie.reload"); got != "ok" {
					c.Violate(lp.Violation{What: "reload", Script: []string{cs.Line(), "trie.reload"}, Expected: "ok", Got: got})
					break
				}
				c.Hit("reloaded")
			}
		}
	}
}

// genC01twoTries: several tries alive in one process: build A, keep it, build B
// (and C), then look up A's keys again.
func genC01twoTries(c *lp.Ctx) {
	n := c.Pick(150, 500)
	for it := 0; it < n; it++ {
		var cases []*Case
		k := 2 + c.Rng.Intn(2)
		for j := 0; j < k; j++ {
			flags := ""
			if c.Rng.Intn(2) == 0 {
				flags = []string{"-", "nnnn", "fnnn", "nntn"}[c.Rng.Intn(4)] // modes that store step lengths
			}
			cs := NewCase(c.Rng, gen.Any(c.Rng, 80), flags, "")
			c.Case("two|"+cs.Key(), len(cs.Keys) >= 2)
			if !build(c, cs) {
				continue
			}
			c.Do(fmt.Sprintf("trie.stash %d", j))
			cases = append(cases, cs)
		}
		c.Hit(fmt.Sprintf("history:%d-tries-alive", len(cases)))
		for j, cs := range cases {
			if c.Do(fmt.Sprintf("trie.unstash %d", j)) != "ok" {
				continue
			}
			for i, key := range cs.RKeys {
				q := lp.XS(key)
				want := cs.valAns(cs.RVals[i])
				if got := c.Do("trie.get " + q); got != want {
					c.Violate(lp.Violation{What: "Get on retained key of a trie built before other tries in the same process",
						Script: []string{cs.Line(), "(other builds)", "trie.get " + q}, Expected: want, Got: got})
				}
			}
		}
	}
}

func genC01big(c *lp.Ctx) {
	bigShapes(c, func(cs *Case) {
		for i, k := range cs.RKeys {
			if i%7 != 0 {
				continue
			}
			q := lp.XS(k)
			want := cs.valAns(cs.RVals[i])
			if got := c.Do("trie.get " + q); got != want {
				c.Violate(lp.Violation{What: "Get on retained key (big shape)", Script: []string{cs.Line(), "trie.get " + q}, Expected: want, Got: got})
			}
		}
	})
}

func init() {
	lp.RegisterGen("C01", genC01)
	lp.RegisterGen("C01", genC01big)
	lp.RegisterGen("C01", genC01twoTries)
}

// bigShapes (thorough tier): a few very large regular tries that reach the
// larger short-table sizes and multi-thousand-node bitmaps; every retained key
// is looked up, Stat and String are compared with the model.
func bigShapes(c *lp.Ctx, each func(cs *Case)) {
	if c.Quick() {
		return
	}
	for _, d := range []struct{ depth, distinct int }{{4, 3}, {5, 8}, {5, 30}, {6, 12}, {6, 60}, {7, 40}} {
		ks := gen.ShortTable(c.Rng, d.depth, d.distinct)
		cs := NewCase(c.Rng, ks, "", "")
		c.Case(cs.Key(), true)
		if !build(c, cs) {
			continue
		}
		c.Hit(fmt.Sprintf("bigshape:depth=%d,distinct=%d,keys=%d", d.depth, d.distinct, len(ks.Keys)))
		each(cs)
	}
}
