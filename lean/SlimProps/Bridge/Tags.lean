import Generated.Facts
import SlimModel.WireSchema
/-
  SlimProps.Bridge.Tags — tie 1, fact group "tags" of lean/Generated/Facts.lean (regenerated from /repo's
  working tree by harness/cmd/extract on every run).  One module per fact group: when the extractor
  cannot find a group's facts, or a fact changed, only this module stops compiling and only the
  properties that rely on it report the broken tie.
-/
namespace Bridge

/-! ### protobuf struct tags (C05, C06): field numbers, wire types, packedness -/
def tagStr (msg : String) (t : Wire.FieldTag) : String :=
  msg ++ "." ++ t.name ++ "=" ++ toString t.num ++ "," ++ t.wire ++ "," ++ (if t.packedRep then "rep,packed" else "opt")

def modelTags : List String :=
  Wire.array32Schema.map (tagStr "Array32") ++ Wire.bitmapSchema.map (tagStr "Bitmap") ++
  Wire.bitsSchema.map (tagStr "Bits") ++ Wire.slimSchema.map (tagStr "Slim") ++
  Wire.vlenArraySchema.map (tagStr "VLenArray")

/-- every tag in the Go source is a tag of the model's schema tables and vice versa -/
theorem protoTags : (∀ t ∈ Generated.protoTags, t ∈ modelTags) ∧ (∀ t ∈ modelTags, t ∈ Generated.protoTags) := by
  decide


end Bridge
