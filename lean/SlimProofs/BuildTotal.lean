import SlimProofs.BuildShape
/-
  SlimProofs.BuildTotal — on valid input the loop of `build` neither panics nor runs out of fuel:

  * the `wordStart smaller than o.fromKeyBit` panic is unreachable (`fb_le_minLcp`),
  * the fuel `2 * n` suffices: the potential `pot` (Σ over unprocessed queue entries of
    `2·(e−s) − 1`) drops by at least one per step, because at the branching position at least two
    different labels occur among the keys of a subset (`labels_differ`), so no child is the whole
    subset (`childRuns_potential`),
  * `stepTooLong` needs `opt.inner = false` and a key of more than 0xffff half-bytes.

  Main result: `buildLoop_total`; consumed by SlimProps.C08Accept.
-/

namespace BuildTotal

open BuildInv BuildShape

/-! ### `lcp` from below, `minLcp` from below and attained -/

theorem le_lcp_of_take_eq {a b : List Nat} {m : Nat} (h : a.take m = b.take m)
    (ha : m ≤ a.length) (hb : m ≤ b.length) : m ≤ lcp a b := by
  induction m generalizing a b with
  | zero => exact Nat.zero_le _
  | succ m ih =>
    match a, b with
    | [], _ => simp at ha
    | _ :: _, [] => simp at hb
    | x :: xs, y :: ys =>
      simp only [List.take_succ_cons, List.cons.injEq] at h
      simp only [List.length_cons] at ha hb
      simp only [lcp, if_pos h.1]
      have := ih h.2 (by omega) (by omega)
      omega

theorem le_foldl_min {l : List Nat} {i m : Nat} (hi : m ≤ i) (hl : ∀ x ∈ l, m ≤ x) :
    m ≤ l.foldl min i := by
  induction l generalizing i with
  | nil => simpa using hi
  | cons x xs ih =>
    simp only [List.foldl_cons]
    apply ih
    · have := hl x (by simp); omega
    · intro y hy; exact hl y (by simp [hy])

theorem foldl_min_mem (l : List Nat) (i : Nat) : l.foldl min i = i ∨ l.foldl min i ∈ l := by
  induction l generalizing i with
  | nil => left; rfl
  | cons x xs ih =>
    simp only [List.foldl_cons]
    rcases ih (min i x) with h | h
    · rw [h]
      by_cases hix : i ≤ x
      · left; omega
      · right; simp only [List.mem_cons]; left; omega
    · right; simp [h]

theorem le_minLcp {c : BCtx} {s e m : Nat} (h2 : s + 2 ≤ e)
    (h : ∀ t, s ≤ t → t + 1 < e → m ≤ c.lcps.getD t 0) : m ≤ minLcp c s e := by
  unfold minLcp
  apply le_foldl_min (h s (Nat.le_refl _) (by omega))
  intro x hx
  rw [List.mem_map] at hx
  obtain ⟨t, ht, rfl⟩ := hx
  rw [List.mem_range'_1] at ht
  exact h t (by omega) (by omega)

theorem minLcp_attained (c : BCtx) {s e : Nat} (h2 : s + 2 ≤ e) :
    ∃ t, s ≤ t ∧ t + 1 < e ∧ c.lcps.getD t 0 = minLcp c s e := by
  unfold minLcp
  rcases foldl_min_mem ((List.range' (s + 1) (e - 1 - (s + 1))).map (fun t => c.lcps.getD t 0))
    (c.lcps.getD s 0) with h | h
  · exact ⟨s, Nat.le_refl _, by omega, h.symm⟩
  · rw [List.mem_map] at h
    obtain ⟨t, ht, heq⟩ := h
    rw [List.mem_range'_1] at ht
    exact ⟨t, by omega, by omega, heq⟩

/-- the panic branch `ws < o.fb` is unreachable: all keys of the subset agree before `fb` -/
theorem fb_le_minLcp {keys : List Bytes} {keep : List Bool} {opt : Opt} {c : BCtx}
    (hc : CtxOK keys keep opt c) {o : Subset} (hsub : SubOK keys keep o) (h2 : o.s + 2 ≤ o.e) :
    o.fb ≤ minLcp c o.s o.e := by
  apply le_minLcp h2
  intro t h1 h3
  have hle := hsub.le
  rw [hc.lcps t (by omega)]
  apply le_lcp_of_take_eq
  · rw [hsub.agree t h1 (by omega), hsub.agree (t + 1) (by omega) h3]
  · exact hsub.long t h1 (by omega)
  · exact hsub.long (t + 1) (by omega) h3

/-! ### at the branching position two different labels occur -/

/-- two different keys carry different labels at (the possibly rounded) first-difference position -/
theorem label_ne_of_lcp {a b : List Nat} (ha : ∀ x ∈ a, x < 16) (hb : ∀ x ∈ b, x < 16)
    (hea : a.length % 2 = 0) (heb : b.length % 2 = 0) (hab : a ≠ b) (big : Bool) {ws : Nat}
    (hws : ws = if big then lcp a b - lcp a b % 2 else lcp a b) :
    labelAt a ws big ≠ labelAt b ws big := by
  intro hlab
  have hwsle : ws ≤ lcp a b := by rw [hws]; split <;> omega
  have hwsev : big = true → ws % 2 = 0 := by
    intro h; rw [hws, if_pos h]; omega
  have htake : a.take ws = b.take ws := take_eq_of_le_lcp hwsle
  have hla := lcp_le_left a b
  have hlb := lcp_le_right a b
  have h1 := take_label_eq ha hb (fun _ => hea) (fun _ => heb) hwsev htake hlab
  have h2 := label_long (a := a) (ws := ws) (big := big) (fun _ => hea) hwsev (by omega)
  have h3 := label_long (a := b) (ws := ws) (big := big) (fun _ => heb) hwsev (by omega)
  rw [← hlab] at h3
  have h4 := le_lcp_of_take_eq h1 h2 h3
  by_cases h0 : labelAt a ws big = 0
  · -- both keys end at ws: they are equal
    have h5 := labelAt_eq_zero_iff.mp h0
    have h6 := labelAt_eq_zero_iff.mp (hlab ▸ h0)
    apply hab
    have e1 : a.take ws = a := List.take_of_length_le h5
    have e2 : b.take ws = b := List.take_of_length_le h6
    rw [← e1, ← e2, htake]
  · have : labelLen (labelAt a ws big) big = if big then 2 else 1 := by
      unfold labelLen; rw [if_neg h0]
    rw [this] at h4
    rw [hws] at h4
    cases big with
    | false => simp only [Bool.false_eq_true, if_false] at h4; omega
    | true => simp only [if_true] at h4; omega

theorem knOf_ne {keys : List Bytes} (hasc : strictAsc keys = true) {a b : Nat} (hab : a < b)
    (hb : b < keys.length) : knOf keys a ≠ knOf keys b := by
  intro h
  have := knOf_lt hasc hab hb
  rw [h, lexCmp_self] at this
  cases this

/-- in a subset of at least two keys, two adjacent keys carry different labels at the
    branching position `buildStep` chooses -/
theorem labels_differ {keys : List Bytes} {keep : List Bool} {opt : Opt} {c : BCtx}
    (hc : CtxOK keys keep opt c) (hasc : strictAsc keys = true) {s e : Nat}
    (he : e ≤ keys.length) (h2 : s + 2 ≤ e) (big : Bool) {ws : Nat}
    (hws : ws = if big then minLcp c s e - minLcp c s e % 2 else minLcp c s e) :
    ∃ t, s ≤ t ∧ t + 1 < e ∧ labelOf keys ws big t ≠ labelOf keys ws big (t + 1) := by
  obtain ⟨t, h1, h3, h4⟩ := minLcp_attained c h2
  refine ⟨t, h1, h3, ?_⟩
  rw [hc.lcps t (by omega)] at h4
  unfold labelOf
  apply label_ne_of_lcp (knOf_lt16 keys t) (knOf_lt16 keys (t + 1)) (knOf_even keys t)
    (knOf_even keys (t + 1)) (knOf_ne hasc (by omega) (by omega)) big
  rw [h4]; exact hws

/-! ### the weight of the children of a subset -/

/-- weight of a run / subset of `m` keys: `2 m − 1` (an upper bound for its number of nodes) -/
def runW (x : Nat × Nat × Nat) : Nat := 2 * (x.2.2 - x.2.1) - 1

theorem childRuns_weight (lab : Nat → Nat) (e : Nat) (labels : List Nat) (s : Nat)
    (hmono : ∀ a b, s ≤ a → a ≤ b → b < e → lab a ≤ lab b)
    (hasc : labels.Pairwise (· < ·))
    (hcar : ∀ l ∈ labels, ∃ t, s ≤ t ∧ t < e ∧ lab t = l) :
    ((childRuns lab e labels s).map runW).sum + labels.length ≤ 2 * (e - s) := by
  induction labels generalizing s with
  | nil => simp [childRuns]
  | cons l ls ih =>
    have hspec := childRuns_spec lab e (l :: ls) s hmono hasc hcar
    rw [childRuns_cons] at hspec ⊢
    generalize hs' : scanWhile (fun t => lab t != l) (e - s) s = s' at hspec ⊢
    generalize hj : scanWhile (fun t => lab t == l) (e - (s' + 1)) (s' + 1) = j at hspec ⊢
    have hrun := hspec (l, s', j) (by simp)
    have hge : s ≤ s' := hrun.ge
    have hlt : s' < j := hrun.lt
    have hle : j ≤ e := hrun.le
    have hiff := hrun.iff
    dsimp only at hiff
    have hlabs' : lab s' = l := (hiff s' hge (by omega)).mp ⟨Nat.le_refl _, hlt⟩
    have := ih j (fun a b h1 h2 h3 => hmono a b (by omega) h2 h3) (List.Pairwise.of_cons hasc)
      (by
        intro l' hl'
        obtain ⟨t, h1, h2, h3⟩ := hcar l' (by simp [hl'])
        have hll' : l < l' := (List.pairwise_cons.mp hasc).1 _ hl'
        refine ⟨t, ?_, h2, h3⟩
        apply Nat.le_of_not_lt; intro htj
        by_cases hts : t < s'
        · have := hmono t s' h1 (by omega) (by omega); omega
        · have := (hiff t h1 h2).mp ⟨by omega, htj⟩; omega)
    simp only [List.map_cons, List.sum_cons, List.length_cons, runW]
    omega

/-- if two keys of `[s,e)` carry different labels, the children weigh less than the subset -/
theorem childRuns_potential (lab : Nat → Nat) (e : Nat) (labels : List Nat) (s : Nat)
    (hmono : ∀ a b, s ≤ a → a ≤ b → b < e → lab a ≤ lab b)
    (hasc : labels.Pairwise (· < ·))
    (hcar : ∀ l ∈ labels, ∃ t, s ≤ t ∧ t < e ∧ lab t = l)
    (h2 : s + 2 ≤ e)
    (hne : ∃ a b, s ≤ a ∧ a < e ∧ s ≤ b ∧ b < e ∧ lab a ≠ lab b) :
    ((childRuns lab e labels s).map runW).sum + 1 ≤ 2 * (e - s) - 1 := by
  have hw := childRuns_weight lab e labels s hmono hasc hcar
  match labels, hw with
  | [], _ => simp only [childRuns, List.map_nil, List.sum_nil]; omega
  | [l], _ =>
    have hspec := childRuns_spec lab e [l] s hmono hasc hcar
    rw [childRuns_cons] at hspec ⊢
    generalize hs' : scanWhile (fun t => lab t != l) (e - s) s = s' at hspec ⊢
    generalize hj : scanWhile (fun t => lab t == l) (e - (s' + 1)) (s' + 1) = j at hspec ⊢
    have hrun := hspec (l, s', j) (by simp)
    have hge : s ≤ s' := hrun.ge
    have hlt : s' < j := hrun.lt
    have hle : j ≤ e := hrun.le
    have hiff := hrun.iff
    dsimp only at hiff
    obtain ⟨a, b, ha1, ha2, hb1, hb2, hab⟩ := hne
    have : ∃ t, s ≤ t ∧ t < e ∧ lab t ≠ l := by
      by_cases hal : lab a = l
      · exact ⟨b, hb1, hb2, by omega⟩
      · exact ⟨a, ha1, ha2, hal⟩
    obtain ⟨t, ht1, ht2, ht3⟩ := this
    have hnot : ¬ (s' ≤ t ∧ t < j) := fun h => ht3 ((hiff t ht1 ht2).mp h)
    simp only [childRuns, List.map_cons, List.map_nil, List.sum_cons, List.sum_nil, runW]
    omega
  | _ :: _ :: _, hw =>
    simp only [List.length_cons] at hw
    omega

/-! ### the potential -/

def subW (o : Subset) : Nat := 2 * (o.e - o.s) - 1

/-- Σ over the unprocessed queue entries of `2·(e−s) − 1` -/
def pot (st : BSt) (i : Nat) : Nat := ((st.queue.toList.drop i).map subW).sum

theorem pot_eq (st : BSt) (i : Nat) (hi : i < st.queue.size) :
    pot st i = subW st.queue[i] + ((st.queue.toList.drop (i + 1)).map subW).sum := by
  unfold pot
  rw [List.drop_eq_getElem_cons (by simpa using hi)]
  simp

theorem subW_kidOf (ws : Nat) (big : Bool) : subW ∘ kidOf ws big = runW := by
  funext x; rfl

/-- One step of the loop on a state satisfying the invariant: it succeeds and the potential drops,
    or it returns `stepTooLong`, which needs step mode and a key of more than 0xffff half-bytes. -/
theorem buildStep_total {keys : List Bytes} {keep : List Bool} {opt : Opt} {c : BCtx}
    (hc : CtxOK keys keep opt c) (hasc : strictAsc keys = true)
    {st : BSt} {i : Nat} (hinv : BInv keys keep opt st i) (hi : i < st.queue.size) :
    (∃ st', buildStep c st st.queue[i] = .ok st' ∧ pot st' (i + 1) + 1 ≤ pot st i) ∨
    (buildStep c st st.queue[i] = .error .stepTooLong ∧ opt.inner = false ∧
      ∃ k ∈ keys, 0xffff < 2 * k.length) := by
  rw [pot_eq st i hi]
  generalize ho : st.queue[i] = o
  have ho' : st.queue[i]? = some o := by rw [← ho]; exact Array.getElem?_eq_getElem hi
  have hsub := hinv.sub i o ho'
  by_cases hleaf : o.e - o.s = 1
  · left
    rw [buildStep_leaf_eq c st o hleaf]
    refine ⟨_, rfl, ?_⟩
    simp only [pot, subW, hleaf]
    omega
  · have h2 : o.s + 2 ≤ o.e := by have := hsub.lt; omega
    rw [buildStep_inner_eq c st o hleaf _ rfl _ rfl]
    generalize hgo : (st.isBig && decide (prefCnt c o.s o.e (minLcp c o.s o.e) > 10)) = goBig
    generalize hws : (if goBig = true then minLcp c o.s o.e - minLcp c o.s o.e % 2
      else minLcp c o.s o.e) = ws
    have hfbmin := fb_le_minLcp hc hsub h2
    have hwsle : ws ≤ minLcp c o.s o.e := by rw [← hws]; split <;> omega
    have hfbws : o.fb ≤ ws := by
      rw [← hws]
      split
      · next hb =>
        have hstbig : st.isBig = true := by
          rw [← hgo] at hb
          exact (Bool.and_eq_true_iff.mp hb).1
        have := hinv.even hstbig i o ho'
        omega
      · exact hfbmin
    rw [if_neg (by omega)]
    have hpre := prefix_of_minLcp hc hsub.le h2 hwsle
    by_cases hguard : (!c.opt.inner && decide (ws - o.fb > 0xffff)) = true
    · right
      rw [if_pos hguard]
      simp only [Bool.and_eq_true, Bool.not_eq_true', decide_eq_true_eq, hc.opt] at hguard
      refine ⟨rfl, hguard.1, keys.getD o.s [], ?_, ?_⟩
      · have hlt : o.s < keys.length := by have := hsub.lt; have := hsub.le; omega
        rw [List.getD_eq_getElem?_getD, List.getElem?_eq_getElem hlt]
        exact List.getElem_mem hlt
      · have := (hpre o.s (Nat.le_refl _) hsub.lt).1
        rw [knOf, nibs_length] at this
        omega
    · left
      rw [if_neg hguard]
      refine ⟨_, rfl, ?_⟩
      -- the potential
      have hmono := labelOf_mono hasc goBig hsub.le (fun t h1 h3 => (hpre t h1 h3).2)
      have hpw : (keptLabels c o.s o.e ws goBig).Pairwise (· < ·) := by
        apply keptLabels_pairwise
        rw [keyLabel_eq hc]; exact hmono
      have hcar : ∀ l ∈ keptLabels c o.s o.e ws goBig,
          ∃ t, o.s ≤ t ∧ t < o.e ∧ labelOf keys ws goBig t = l := by
        intro l hl
        obtain ⟨t, h1, h3, _, h5⟩ := mem_keptLabels.mp hl
        rw [keyLabel_eq hc] at h5
        exact ⟨t, h1, h3, h5⟩
      obtain ⟨t, ht1, ht2, ht3⟩ := labels_differ hc hasc hsub.le h2 goBig hws.symm
      have hp := childRuns_potential (labelOf keys ws goBig) o.e (keptLabels c o.s o.e ws goBig)
        o.s hmono hpw hcar h2 ⟨t, t + 1, ht1, by omega, by omega, ht2, ht3⟩
      simp only [pot]
      rw [keyLabel_eq hc, Array.toList_append, List.drop_append_of_le_length (by simp; omega),
        List.map_append, List.sum_append, List.map_map, subW_kidOf]
      simp only [subW] at hp ⊢
      omega

/-- On a state satisfying the invariant and with enough fuel, the loop succeeds or returns
    `stepTooLong` (step mode, a key of more than 0xffff half-bytes). -/
theorem buildLoop_total {keys : List Bytes} {keep : List Bool} {opt : Opt} {c : BCtx}
    (hc : CtxOK keys keep opt c) (hasc : strictAsc keys = true)
    (fuel i : Nat) (st : BSt) (hinv : BInv keys keep opt st i) (hpot : pot st i ≤ fuel) :
    (∃ st', buildLoop c fuel i st = .ok st') ∨
    (buildLoop c fuel i st = .error .stepTooLong ∧ opt.inner = false ∧
      ∃ k ∈ keys, 0xffff < 2 * k.length) := by
  induction fuel generalizing i st with
  | zero =>
    left
    simp only [buildLoop]
    have : ¬ i < st.queue.size := by
      intro hi
      rw [pot_eq st i hi] at hpot
      have := (hinv.sub i st.queue[i] (Array.getElem?_eq_getElem hi)).lt
      simp only [subW] at hpot
      omega
    rw [if_neg this]
    exact ⟨st, rfl⟩
  | succ fuel ih =>
    simp only [buildLoop]
    split
    · next hi =>
      rcases buildStep_total hc hasc hinv hi with ⟨st', h1, h2⟩ | ⟨h1, h2⟩
      · rw [h1]
        exact ih (i + 1) st' (buildStep_inv hc hasc hinv hi h1) (by omega)
      · rw [h1]
        right
        exact ⟨rfl, h2⟩
    · left; exact ⟨st, rfl⟩

theorem pot_init (n : Nat) : pot (initSt n) 0 = 2 * n - 1 := by
  simp [pot, initSt, subW]

end BuildTotal
