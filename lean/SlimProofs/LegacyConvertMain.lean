import SlimProofs.LegacyConvertLoop
import SlimProofs.LegacyArray
import SlimProofs.LegacyBuildOld
/-
  SlimProofs.LegacyConvertMain — stage (ii-d): `convert_wf`: on the sections of any three-section
  stream (`sections3`, every variant) of strictly ascending keys with fixed-width values the
  loader's conversion succeeds and `fixup lk t'` (records with `firstChild` and leaf key indexes
  filled in) satisfies `WF keys (replicate n true)` and `ShapeOK`.
  `reads_of_sections` (the accessor lemmas of SlimProofs.LegacyArray as `Reads`),
  `stepLim_of_keys`, `cinv_init`, `wf_of_cinv`, `shape_of_cinv`.
-/

namespace LegacyConvert
open LegacyWrite Legacy

/-! ### the sections of a stream, read -/

theorem bmhas_index (p : OldNode → Bool) (nodes : List OldNode) (mw : Nat) (elts : Bytes) (id : Nat) :
    bmhas (initIndex (idsWhere nodes p) mw elts).bitmaps id
      = decide (∃ h : id < nodes.length, p nodes[id] = true) := by
  unfold idsWhere
  rw [initIndex_bmhas (idsFrom_asc p nodes 0), Bool.eq_iff_iff, decide_eq_true_eq, decide_eq_true_eq,
    idsFrom_mem]
  constructor
  · rintro ⟨j, hj, hij, hp⟩
    have : j = id := by omega
    subst this; exact ⟨hj, hp⟩
  · rintro ⟨hj, hp⟩; exact ⟨id, hj, by omega, hp⟩

theorem childrenMsg_bitmaps (vr : Variant) (nodes : List OldNode) (mw : Nat) :
    ∃ elts, (childrenMsg vr nodes mw).bitmaps
      = (initIndex (idsWhere nodes (·.inner)) mw elts).bitmaps := by
  unfold childrenMsg
  simp only
  split
  · exact ⟨_, rfl⟩
  · split
    · exact ⟨_, rfl⟩
    · exact ⟨[], rfl⟩

/-- the accessor lemmas of SlimProofs.LegacyArray, packaged for the conversion -/
theorem reads_of_sections (vr : Variant) (keys vals : List Bytes) (w : Nat)
    (ch st lv : Array32Msg) (nodes : Array OldNode)
    (hb : buildOld keys vr.leafSteps = .ok nodes)
    (h : sections3 vr keys vals = .ok (ch, st, lv))
    (hlen : vals.length = keys.length) (hw : ∀ v ∈ vals, v.length = w)
    (hlim : ∀ (o : Nat) (ho : o < nodes.size), nodes[o].step < 65536) :
    Reads ch st lv w nodes vals := by
  unfold sections3 at h
  rw [hb] at h
  simp only [bind, Except.bind, pure, Except.pure] at h
  cases h
  have hlt := buildOld_leaf_lt keys vr.leafSteps nodes hb
  have hget : ∀ j, j < keys.length → vals.toArray.getD j [] = vals.getD j [] := by
    intro j _
    rw [Array.getD_eq_getD_getElem?, List.getElem?_toArray, List.getD_eq_getElem?_getD]
  refine ⟨?_, ?_, ?_, ?_, ?_⟩
  · intro id
    obtain ⟨elts, he⟩ := childrenMsg_bitmaps vr nodes.toList
      (if vr.extendedIdx = true then (nodes.toList.length + 63) / 64 else 0)
    rw [he, bmhas_index]
    simp only [Array.length_toList, Array.getElem_toList]
  · intro id
    have : (leavesMsg nodes.toList vals.toArray).bitmaps
        = (initIndex (idsWhere nodes.toList (·.leaf.isSome)) 0
            (nodes.toList.flatMap (fun n => match n.leaf with
              | some k => vals.toArray.getD k [] | none => []))).bitmaps := rfl
    rw [this, bmhas_index]
    simp only [Array.length_toList, Array.getElem_toList]
  · intro id hid
    have := getStep_stepsMsg nodes.toList
      (if vr.extendedIdx = true then (nodes.toList.length + 63) / 64 else 0) id
      (by simpa using hid) (by simpa using hlim id hid)
    simpa using this
  · intro id hid hin
    have := getBM16Child_childrenMsg vr nodes.toList
      (if vr.extendedIdx = true then (nodes.toList.length + 63) / 64 else 0) id
      (by simpa using hid) (by simpa using hin) (buildOld_bm_lt keys vr.leafSteps nodes hb)
    simpa using this
  · intro id hid k hk
    have hk' := hlt _ (List.getElem_mem (by simpa using hid : id < nodes.toList.length)) k
      (by simpa using hk)
    rw [← hget k hk']
    have := getBytes_leavesMsg nodes.toList vals.toArray w id k (by simpa using hid)
      (by simpa using hk) (by
        intro n hn j hj
        have hj' := hlt n hn j hj
        rw [hget j hj', List.getD_eq_getElem?_getD, List.getElem?_eq_getElem (by omega)]
        exact hw _ (List.getElem_mem _))
    exact this

/-! ### the step limit of the layout, from the key lengths -/

theorem nodeOf_step_le (keys : List Bytes) (kn : Array (List Nat))
    (hkn : ∀ t, kn.getD t [] = knOf keys t) (ls : Bool) (fc : Nat) (q : Sub) :
    (nodeOf kn ls fc q).step ≤ (knOf keys q.s).length + 1 := by
  unfold nodeOf
  split
  · simp only; rw [hkn]; split <;> omega
  · simp only
    have : brPos kn q ≤ (knOf keys q.s).length := by
      unfold brPos; rw [hkn]; exact lcp_le_left _ _
    split <;> omega

theorem stepLim_of_keys {keys : List Bytes} {kn : Array (List Nat)} {ls : Bool}
    {nodes : Array OldNode} {oq : Array Sub}
    (hkn : ∀ t, kn.getD t [] = knOf keys t) (O : OInv keys kn ls oq.size oq nodes)
    (hkl : ∀ k ∈ keys, 2 * k.length < 65535) :
    ∀ (o : Nat) (ho : o < nodes.size), nodes[o].step < 65536 := by
  intro o ho
  obtain ⟨q, h1, h2, _⟩ := O.node o (by rw [← O.size]; exact ho)
  have hnode : nodes[o] = nodeOf kn ls (fcOf kn oq o) q := (Array.getElem?_eq_some_iff.mp h2).2
  rw [hnode]
  have hle := nodeOf_step_le keys kn hkn ls (fcOf kn oq o) q
  have hg := O.good o q h1
  have hs : q.s < keys.length := by have := hg.lt; have := hg.le; omega
  have : (knOf keys q.s).length < 65535 := by
    unfold knOf
    rw [nibs_length, List.getD_eq_getElem?_getD, List.getElem?_eq_getElem hs]
    exact hkl _ (List.getElem_mem hs)
  omega

/-! ### the conversion as a whole -/

theorem convert_eq (ch steps lvs : Array32Msg) (w : Nat) (step0 : Nat) (c : Conv)
    (h0 : getStep steps 0 = .ok step0)
    (hl : convert.loop ch steps lvs (some w)
      (2 * 64 * (ch.bitmaps.length + lvs.bitmaps.length) + 4) 0
      { queue := #[{ oldid := 0, step := step0, leafOnly := false }] } = .ok c) :
    convert ch steps lvs (some w) =
      .ok { opt := {}, nodes := c.nodes, bigCnt := 0, leafKeyIdx := #[],
            elts := some c.leaves.toList } := by
  unfold convert
  simp only [h0, hl, bind, Except.bind, pure, Except.pure]

theorem bmhas_lt (bm : List Nat) (i : Nat) (h : bmhas bm i = true) : i < 64 * bm.length := by
  unfold bmhas at h
  cases hh : bm[i / 64]? with
  | none => rw [hh] at h; cases h
  | some w =>
    have := (List.getElem?_eq_some_iff.mp hh).1
    omega

theorem cinv_init {X : Ctx} (H : X.OK) :
    CInv X 0 { queue := #[{ oldid := 0, step := (X.nodes.getD 0 default).step - 1, leafOnly := false }] }
      #[] := by
  have hroot := H.O.root
  have h0 : 0 < X.oq.size := (Array.getElem?_eq_some_iff.mp hroot).1
  have hone : ∀ (j : Nat) (q : QElt),
      (#[({ oldid := 0, step := (X.nodes.getD 0 default).step - 1, leafOnly := false } : QElt)])[j]?
        = some q →
      q = { oldid := 0, step := (X.nodes.getD 0 default).step - 1, leafOnly := false } := by
    intro j q h
    have hj : j < 1 := (Array.getElem?_eq_some_iff.mp h).1
    have : j = 0 := by omega
    subst this
    simpa using h.symm
  refine ⟨rfl, Nat.zero_le _, ⟨_, rfl⟩, ?_, rfl, ?_, h0, rfl, Nat.le_refl _, ⟨rfl, rfl⟩, rfl, ?_,
    fun j hj => by omega, ?_⟩
  · intro j q hq
    rw [hone j q hq]
    exact ⟨h0, fun _ => rfl, fun h => by cases h⟩
  · show (1 : Nat) = fcOf X.kn X.oq 0
    rfl
  · -- all keys are pending in the root
    have hgd : X.oq.getD 0 default = { s := 0, e := X.keys.length, d := 0 } := by
      rw [Array.getD_eq_getD_getElem?, hroot]; rfl
    show (#[] : Array Nat).size + pend X _ 0 = X.keys.length
    unfold pend eltSize subOf
    simp [hroot]
  · intro j nd h
    simp at h

/-! ### the repaired record array -/

/-- the records of the conversion with what it leaves out filled in: `firstChild` by the BFS law
    and the key index of every leaf -/
def fixup (lk : Array Nat) (t : Trie1) : Trie1 :=
  { t with nodes := fixNodes t.nodes, leafKeyIdx := lk }

theorem isInner_fixNode (fc : Nat) (nd : Node) : (fixNode fc nd).isInner = nd.isInner := by
  cases nd <;> rfl

theorem fixList_take_labCnt (fc : Nat) (l : List Node) (j : Nat) :
    ((fixList fc l).take j).map labCnt = (l.take j).map labCnt := by
  rw [List.map_take, List.map_take, fixList_map_labCnt]

theorem fixList_take_leaves (fc : Nat) (l : List Node) (j : Nat) :
    (((fixList fc l).take j).filter (fun n => !n.isInner)).length
      = ((l.take j).filter (fun n => !n.isInner)).length := by
  induction l generalizing fc j with
  | nil => rfl
  | cons nd rest ih =>
    cases j with
    | zero => rfl
    | succ j =>
      simp only [fixList, List.take_succ_cons, List.filter_cons, isInner_fixNode]
      split <;> simp [ih]

theorem bfsFC_fix (nodes : Array Node) (j : Nat) : bfsFC (fixNodes nodes) j = bfsFC nodes j := by
  unfold bfsFC fixNodes
  simp only [fixList_take_labCnt]

theorem leavesBefore_fix (nodes : Array Node) (j : Nat) :
    leavesBefore (fixNodes nodes) j = leavesBefore nodes j := by
  unfold leavesBefore fixNodes
  exact fixList_take_leaves 1 nodes.toList j

theorem fix_inv (nodes : Array Node) (j : Nat) (nd : Node)
    (h : (fixNodes nodes)[j]? = some nd) :
    ∃ nd0, nodes[j]? = some nd0 ∧ nd = fixNode (bfsFC nodes j) nd0 := by
  rw [fixNodes_getElem?] at h
  cases h0 : nodes[j]? with
  | none => rw [h0] at h; cases h
  | some nd0 => rw [h0] at h; exact ⟨nd0, rfl, by simpa using h.symm⟩

/-- the final state of the conversion loop gives a well-formed trie -/
theorem wf_of_cinv {X : Ctx} (H : X.OK) (c : Conv) (lk : Array Nat)
    (hinv : CInv X c.queue.size c lk) :
    WF X.keys (List.replicate X.keys.length true)
      (fixup lk { opt := {}, nodes := c.nodes, bigCnt := 0, leafKeyIdx := #[],
                  elts := some c.leaves.toList }) := by
  refine ⟨c.queue.map (subOf X), ?_, ?_, ?_⟩
  · show (c.queue.map (subOf X)).size = (fixNodes c.nodes).size
    rw [Array.size_map, fixNodes_size, hinv.nsize]
  · obtain ⟨st, hst⟩ := hinv.root
    rw [Array.getElem?_map, hst]
    have hroot := H.O.root
    have : X.oq.getD 0 default = { s := 0, e := X.keys.length, d := 0 } := by
      rw [Array.getD_eq_getD_getElem?, hroot]; rfl
    simp only [Option.map_some, subOf, Bool.false_eq_true, if_false, this]
  · intro j hj
    have hj' : j < c.queue.size := by
      have : (fixNodes c.nodes).size = c.queue.size := by rw [fixNodes_size, hinv.nsize]
      have hj2 : j < (fixNodes c.nodes).size := hj
      omega
    obtain ⟨q, nd, h1, h2, h3⟩ := hinv.node j hj'
    refine ⟨subOf X q, by rw [Array.getElem?_map, h1]; rfl, subOK_of H q (hinv.elts j q h1), ?_⟩
    have hfix : (fixNodes c.nodes)[j]? = some (fixNode (bfsFC c.nodes j) nd) := by
      rw [fixNodes_getElem?, h2]; rfl
    have : (fixNodes c.nodes)[j]'hj = fixNode (bfsFC c.nodes j) nd :=
      (Array.getElem?_eq_some_iff.mp hfix).2
    show NodeOK _ _ _ _ _ _ _ ((fixNodes c.nodes)[j]'hj)
    rw [this]
    exact h3

/-- … and its key-independent shape -/
theorem shape_of_cinv {X : Ctx} (H : X.OK) (c : Conv) (lk : Array Nat)
    (hinv : CInv X c.queue.size c lk) :
    ShapeOK (fixup lk { opt := {}, nodes := c.nodes, bigCnt := 0, leafKeyIdx := #[],
                        elts := some c.leaves.toList }) := by
  have hsz : c.nodes.size = c.queue.size := hinv.nsize
  have hpos : 0 < c.queue.size := by
    obtain ⟨st, hst⟩ := hinv.root
    exact (Array.getElem?_eq_some_iff.mp hst).1
  -- a node of the repaired array, read back
  have hnode : ∀ (j : Nat) nd, (fixNodes c.nodes)[j]? = some nd →
      ∃ q nd0, c.queue[j]? = some q ∧ c.nodes[j]? = some nd0 ∧
        nd = fixNode (bfsFC c.nodes j) nd0 ∧
        NodeOK X.keys (List.replicate X.keys.length true) {} (c.queue.map (subOf X)) lk j
          (subOf X q) nd ∧ SubOK X.keys (List.replicate X.keys.length true) (subOf X q) := by
    intro j nd h
    obtain ⟨nd0, h0, rfl⟩ := fix_inv _ _ _ h
    have hj : j < c.queue.size := by
      have := (Array.getElem?_eq_some_iff.mp h0).1; omega
    obtain ⟨q, nd1, h1, h2, h3⟩ := hinv.node j hj
    rw [h0] at h2; cases h2
    exact ⟨q, nd0, h1, h0, rfl, h3, subOK_of H q (hinv.elts j q h1)⟩
  refine ⟨?_, ?_, ?_, ?_, ?_, ?_, ?_, ?_, ?_, ?_⟩
  · show 0 < (fixNodes c.nodes).size
    rw [fixNodes_size]; omega
  · intro j r h
    obtain ⟨q, nd0, _, _, hnd, _, _⟩ := hnode j _ h
    show r.firstChild = 1 + ((innersBefore (fixNodes c.nodes) j).map (fun r => r.labels.length)).sum
    rw [bfsFC_eq_innersBefore, bfsFC_fix]
    cases nd0 with
    | leaf ith lp => cases hnd
    | inner r0 =>
      have : r = { r0 with firstChild := bfsFC c.nodes j } := by
        simpa [fixNode] using hnd
      rw [this]
  · show (fixNodes c.nodes).size
      = 1 + ((innersBefore (fixNodes c.nodes) (fixNodes c.nodes).size).map
          (fun r => r.labels.length)).sum
    rw [bfsFC_eq_innersBefore, bfsFC_fix, fixNodes_size, hsz, ← hinv.bfs]
  · intro j ith lp h
    obtain ⟨q, nd0, _, h0, hnd, _, _⟩ := hnode j _ h
    show ith = leavesBefore (fixNodes c.nodes) j
    rw [leavesBefore_fix]
    cases nd0 with
    | inner r0 => cases hnd
    | leaf ith0 lp0 =>
      have := hinv.shp j _ h0
      simp only [fixNode, Node.leaf.injEq] at hnd
      rw [hnd.1]; exact this
  · intro j r h
    obtain ⟨q, nd0, _, h0, hnd, hok, hsub⟩ := hnode j _ h
    cases nd0 with
    | leaf ith lp => cases hnd
    | inner r0 =>
      have hbig : r.big = false := by
        have := (hinv.shp j _ h0).1
        have hr : r = { r0 with firstChild := bfsFC c.nodes j } := by simpa [fixNode] using hnd
        rw [hr]; exact this
      obtain ⟨_, ws, _, hpre, _, _, hlabels, hpw, _, _, _⟩ := hok
      refine ⟨?_, hpw, ?_⟩
      · obtain ⟨t, h1, h2, h3⟩ := hsub.kept
        intro hnil
        have := (hlabels _).mpr ⟨t, h1, h2, h3, rfl⟩
        rw [hnil] at this; cases this
      · intro l hl
        obtain ⟨t, _, _, _, rfl⟩ := (hlabels l).mp hl
        rw [hbig]
        unfold labelBound labelOf labelAt
        simp only [Bool.false_eq_true, if_false]
        cases hg : (knOf X.keys t)[ws]? with
        | none => show (0 : Nat) < 17; omega
        | some a =>
          have := BuildInv.knOf_lt16 X.keys t a (List.mem_of_getElem? hg)
          show 1 + a < 17; omega
  · intro j r h
    obtain ⟨q, nd0, _, h0, hnd, _, _⟩ := hnode j _ h
    cases nd0 with
    | leaf ith lp => cases hnd
    | inner r0 =>
      have hbig : r.big = false := by
        have := (hinv.shp j _ h0).1
        have hr : r = { r0 with firstChild := bfsFC c.nodes j } := by simpa [fixNode] using hnd
        rw [hr]; exact this
      rw [hbig]
      show false = true ↔ _ < 0
      constructor
      · intro h; cases h
      · intro h; omega
  · intro j r h
    obtain ⟨q, nd0, _, h0, hnd, _, _⟩ := hnode j _ h
    cases nd0 with
    | leaf ith lp => cases hnd
    | inner r0 =>
      have := (hinv.shp j _ h0).2
      have hr : r = { r0 with firstChild := bfsFC c.nodes j } := by simpa [fixNode] using hnd
      rw [hr]; exact this
  · intro j ith b h
    obtain ⟨q, nd0, _, _, _, hok, _⟩ := hnode j _ h
    obtain ⟨_, _, hlp⟩ := hok
    unfold leafPrefOf at hlp
    simp at hlp
  · show lk.size = leavesBefore (fixNodes c.nodes) (fixNodes c.nodes).size
    rw [leavesBefore_fix, fixNodes_size, hsz, ← hinv.lcnt, hinv.lks.1]
  · intro es hes
    have : es = c.leaves.toList := by
      have h : some c.leaves.toList = some es := hes
      cases h; rfl
    show es.length = lk.size
    rw [this, Array.length_toList, hinv.lks.1]

end LegacyConvert

open LegacyConvert LegacyWrite Legacy in
/-- **The conversion of a three-section stream yields a well-formed trie of its keys.**
    For strictly ascending keys with one value of width `w` each (and keys short enough for the
    16-bit steps of the layout), on the sections any old writer produced the loader's conversion
    succeeds, and its records — with `firstChild` and the leaf key indexes filled in (`fixup`) —
    satisfy `WF` for these keys with nothing dropped, and `ShapeOK`; the leaf values are the
    values of the leaves' keys. -/
theorem convert_wf (vr : Variant) (keys vals : List Bytes) (w : Nat) (ch st lv : Array32Msg)
    (hne : keys ≠ []) (hasc : strictAsc keys = true) (hlen : vals.length = keys.length)
    (hw : ∀ v ∈ vals, v.length = w) (hkl : ∀ k ∈ keys, 2 * k.length < 65535)
    (hsec : sections3 vr keys vals = .ok (ch, st, lv)) :
    ∃ t' lk, convert ch st lv (some w) = .ok t' ∧ t'.opt = {} ∧ t'.bigCnt = 0 ∧
      t'.elts = some (lk.toList.map (fun k => vals.getD k [])) ∧ lk.size = keys.length ∧
      WF keys (List.replicate keys.length true) (fixup lk t') ∧ ShapeOK (fixup lk t') := by
  -- the old trie
  have hb : ∃ nodes, buildOld keys vr.leafSteps = .ok nodes := by
    unfold sections3 at hsec
    cases hb : buildOld keys vr.leafSteps with
    | error e => rw [hb] at hsec; cases hsec
    | ok nodes => exact ⟨nodes, rfl⟩
  obtain ⟨nodes, hb⟩ := hb
  obtain ⟨oq, O⟩ := buildOld_spec keys vr.leafSteps nodes hne hasc hb
  have hlim := stepLim_of_keys (kn_getD keys) O hkl
  let X : Ctx := ⟨keys, (keys.map nibs).toArray, vr.leafSteps, nodes, oq, vals, w, ch, st, lv⟩
  have H : X.OK := ⟨kn_getD keys, hasc, O,
    reads_of_sections vr keys vals w ch st lv nodes hb hsec hlen hw hlim, hlim⟩
  have h0 : 0 < oq.size := (Array.getElem?_eq_some_iff.mp O.root).1
  have hn0 : 0 < nodes.size := by rw [O.size]; exact h0
  have hstep0 : getStep st 0 = .ok ((nodes.getD 0 default).step - 1) := by
    have : nodes.getD 0 default = nodes[0] := by
      rw [Array.getD_eq_getD_getElem?, Array.getElem?_eq_getElem hn0]; rfl
    rw [this]; exact H.R.step 0 hn0
  -- the fuel of the model suffices
  have hN : oq.size ≤ 64 * (ch.bitmaps.length + lv.bitmaps.length) := by
    obtain ⟨q, _, _, hg, hn, hnode, _, _⟩ := old_at H (oq.size - 1) (by show oq.size - 1 < oq.size; omega)
    have hlast : oq.size - 1 < 64 * ch.bitmaps.length ∨ oq.size - 1 < 64 * lv.bitmaps.length := by
      by_cases h1 : q.e - q.s = 1
      · right
        apply bmhas_lt
        rw [H.R.leaf]
        have := (nodeOf_single X.kn X.ls (fcOf X.kn X.oq (oq.size - 1)) q h1).2
        have hl : X.nodes[oq.size - 1].leaf.isSome = true := by rw [hnode, this]; rfl
        simp only [decide_eq_true_eq]
        exact ⟨hn, hl⟩
      · left
        apply bmhas_lt
        rw [H.R.inner]
        have := (nodeOf_branch X.kn X.ls (fcOf X.kn X.oq (oq.size - 1)) q h1).1
        have hl : X.nodes[oq.size - 1].inner = true := by rw [hnode, this]
        simp only [decide_eq_true_eq]
        exact ⟨hn, hl⟩
    omega
  obtain ⟨c, lk, hloop, hinv⟩ := loop_spec H
    (2 * 64 * (ch.bitmaps.length + lv.bitmaps.length) + 4) 0 _ #[] (cinv_init H)
    (by show 2 * oq.size < _; omega)
  refine ⟨_, lk, convert_eq ch st lv w _ c hstep0 hloop, rfl, rfl, ?_, ?_,
    wf_of_cinv H c lk hinv, shape_of_cinv H c lk hinv⟩
  · show some c.leaves.toList = _
    rw [hinv.lks.2]
  · have := hinv.cnt
    unfold pend at this
    rw [List.drop_of_length_le (by simp)] at this
    simpa using this

#print axioms convert_wf
