package trie

import (
	"bytes"
	"encoding/binary"
	"fmt"
	"math/rand"
	"sort"
	"strconv"
	"strings"

	"slimverif/harness/gen"
	"slimverif/harness/lp"
)

// Case is one generated build input together with its oracle (a plain sorted
// slice of the retained entries).
type Case struct {
	Keys  []string
	Vals  [][]byte // encoded values; nil: no values
	Flags string   // DedupValue/InnerPrefix/LeafPrefix/Complete as n|t|f each, or "-" (no Opt)
	Enc   string
	Class string

	Dedup, Inner, Leaf bool // normalized options
	Keep               []bool
	RKeys              []string // retained keys
	RVals              [][]byte // their values (nil entries if no values)
}

var encNames = []string{"none", "raw", "i8", "i16", "i32", "i64", "u16", "u32", "u64", "int", "s16", "bytes3", "te7", "f64", "nu32"}

func randFlags(r *rand.Rand) string {
	if r.Intn(12) == 0 {
		return "-"
	}
	cs := "ntf"
	b := make([]byte, 4)
	for i := range b {
		b[i] = cs[r.Intn(3)]
	}
	// bias towards the interesting combinations
	switch r.Intn(6) {
	case 0:
		b[3] = 't'
	case 1:
		b[0] = 'f'
	}
	return string(b)
}

func normalize(flags string) (dedup, inner, leaf bool) {
	dedup = true
	if flags == "-" {
		return
	}
	if flags[0] == 'f' {
		dedup = false
	}
	inner = flags[1] == 't'
	leaf = flags[2] == 't'
	if flags[3] == 't' {
		inner, leaf = true, true
	}
	return
}

// valueOf returns the encoded value for run number `run` under encoder enc.
func valueOf(r *rand.Rand, enc string, run int, salt uint64) []byte {
	x := uint64(run)*0x9E3779B97F4A7C15 + salt
	switch enc {
	case "i8":
		return []byte{byte(x >> 56)}
	case "i16", "u16":
		b := make([]byte, 2)
		binary.LittleEndian.PutUint16(b, uint16(x>>48))
		return b
	case "i32", "u32":
		b := make([]byte, 4)
		binary.LittleEndian.PutUint32(b, uint32(x>>32))
		return b
	case "i64", "u64", "int":
		b := make([]byte, 8)
		binary.LittleEndian.PutUint64(b, x)
		return b
	case "s16":
		l := int(x>>60) % 6
		b := make([]byte, 2+l)
		b[1] = byte(l)
		for i := 0; i < l; i++ {
			b[2+i] = byte(x >> uint(8*i))
		}
		return b
	case "raw":
		l := int(x>>60) % 5
		if salt&1 == 1 {
			// every non-empty value has the same width, some values are empty
			l = 2 * (int(x>>60) % 2)
		}
		b := make([]byte, l)
		for i := 0; i < l; i++ {
			b[i] = byte(x >> uint(8*i))
		}
		return b
	case "bytes3":
		return []byte{byte(x >> 56), byte(x >> 48), byte(x >> 40)}
	case "nu32":
		return []byte{byte(x >> 56), byte(x >> 48), byte(x >> 40), byte(x >> 32)}
	case "te7":
		return []byte{byte(x >> 56), byte(x >> 48), byte(x >> 40), byte(x >> 32), byte(x >> 24), byte(x >> 16), byte(x >> 8)}
	case "f64":
		// +0, -0, 1, -1, +Inf, two quiet NaNs with different payloads, and arbitrary finite doubles
		b := make([]byte, 8)
		switch (x >> 58) % 12 {
		case 0, 1:
			// +0.0
		case 2, 3:
			b[7] = 0x80 // -0.0
		case 4:
			binary.LittleEndian.PutUint64(b, 0x3ff0000000000000)
		case 5:
			binary.LittleEndian.PutUint64(b, 0xbff0000000000000)
		case 6:
			binary.LittleEndian.PutUint64(b, 0x7ff0000000000000)
		case 7:
			binary.LittleEndian.PutUint64(b, 0x7ff8000000000001)
		case 8:
			binary.LittleEndian.PutUint64(b, 0x7ff8000000000002)
		default:
			binary.LittleEndian.PutUint64(b, x&^(0x7ff<<52)|0x3fe<<52)
		}
		return b
	}
	if strings.HasPrefix(enc, "bytes") {
		if w, err := strconv.Atoi(enc[5:]); err == nil {
			b := make([]byte, w)
			for i := range b {
				b[i] = byte(x >> uint(8*(7-i%8)))
			}
			return b
		}
	}
	panic("valueOf: " + enc)
}

// specialInts returns boundary values for integer encoders (min, max, -1, 0).
func specialInt(enc string, k int) []byte {
	w := map[string]int{"i8": 1, "i16": 2, "i32": 4, "i64": 8, "u16": 2, "u32": 4, "u64": 8, "int": 8}[enc]
	b := make([]byte, w)
	switch k % 4 {
	case 0: // 0
	case 1: // -1 / max unsigned
		for i := range b {
			b[i] = 0xff
		}
	case 2: // min signed
		b[w-1] = 0x80
	case 3: // max signed
		for i := range b {
			b[i] = 0xff
		}
		b[w-1] = 0x7f
	}
	return b
}

// NewCase builds a case from a key set; enc == "" picks one at random.
func NewCase(r *rand.Rand, ks gen.KeySet, flags, enc string) *Case {
	if enc == "" {
		enc = encNames[r.Intn(len(encNames))]
	}
	if flags == "" {
		flags = randFlags(r)
	}
	cs := &Case{Keys: ks.Keys, Flags: flags, Enc: enc, Class: ks.Class}
	cs.Dedup, cs.Inner, cs.Leaf = normalize(flags)
	n := len(ks.Keys)
	if enc != "none" {
		runs := gen.ValueRuns(r, n)
		salt := r.Uint64()
		special := r.Intn(4) == 0
		cs.Vals = make([][]byte, n)
		for i := range cs.Vals {
			if special && strings.ContainsAny(enc[:1], "iu") {
				cs.Vals[i] = specialInt(enc, runs[i])
			} else {
				cs.Vals[i] = valueOf(r, enc, runs[i], salt)
			}
		}
	}
	if (enc == "s16" || enc == "raw") && n >= 3 && r.Intn(4) == 0 {
		cs.balanceWidths(r)
	}
	if (enc == "s16" || enc == "raw") && n >= 1 && r.Intn(8) == 0 {
		cs.bigValues(r)
	}
	cs.oracle()
	return cs
}

// balanceWidths makes the value widths of a variable-width case "almost fixed": every run gets
// width c except one pair of runs with widths c-d and c+d, so that the total equals count*c although
// the widths differ (a fixed-size shortcut in the leaf array that looks at sums, at the first or at
// the last element only is wrong exactly here).
func (cs *Case) balanceWidths(r *rand.Rand) {
	runOf := make([]int, len(cs.Vals))
	nruns := 0
	for i := range cs.Vals {
		if i > 0 && !bytes.Equal(cs.Vals[i], cs.Vals[i-1]) {
			nruns++
		}
		runOf[i] = nruns
	}
	nruns++
	if nruns < 3 {
		return
	}
	c := 2 + r.Intn(4)
	d := 1 + r.Intn(c-1)
	a, b := r.Intn(nruns), r.Intn(nruns)
	if a == b {
		b = (a + 1) % nruns
	}
	salt := r.Uint64()
	mk := func(run, w int) []byte {
		x := uint64(run)*0x9E3779B97F4A7C15 + salt
		out := make([]byte, w)
		for i := range out {
			out[i] = byte(x>>uint(8*(i%8))) | 1
		}
		if cs.Enc == "s16" {
			out = append([]byte{0, byte(w)}, out...)
		}
		return out
	}
	for i := range cs.Vals {
		w := c
		if runOf[i] == a {
			w = c - d
		} else if runOf[i] == b {
			w = c + d
		}
		cs.Vals[i] = mk(runOf[i], w)
	}
	cs.Class += "+balanced-widths"
}

// bigValues replaces the values of one or two runs by long ones: widths at and beyond the 8-bit
// and 16-bit boundaries (a width or an offset kept in a narrow integer is wrong exactly here).
func (cs *Case) bigValues(r *rand.Rand) {
	for rep := 0; rep < 1+r.Intn(2); rep++ {
		// (the model reads a leaf in time linear in the value section: long values go with small sets)
		w := []int{255, 256, 257, 1000}[r.Intn(4)]
		if len(cs.Vals) <= 8 {
			w = []int{255, 256, 257, 1000, 32767, 32768, 65535, 65536, 70000}[r.Intn(9)]
		} else if len(cs.Vals) > 150 {
			return
		}
		if cs.Enc == "s16" && w > 65535 {
			w = 65535
		}
		i := r.Intn(len(cs.Vals))
		old := cs.Vals[i]
		nv := make([]byte, w)
		for j := range nv {
			nv[j] = byte(j*7 + rep + 1)
		}
		if cs.Enc == "s16" {
			nv = append([]byte{byte(w >> 8), byte(w)}, nv...)
		}
		// the whole run of equal values changes together
		for j := i; j < len(cs.Vals) && bytes.Equal(cs.Vals[j], old); j++ {
			cs.Vals[j] = nv
		}
		for j := i - 1; j >= 0 && bytes.Equal(cs.Vals[j], old); j-- {
			cs.Vals[j] = nv
		}
	}
	cs.Class += "+big-values"
}

func (cs *Case) oracle() {
	n := len(cs.Keys)
	cs.Keep = make([]bool, n)
	for i := 0; i < n; i++ {
		cs.Keep[i] = true
		if cs.Dedup && cs.Vals != nil && i > 0 && bytes.Equal(cs.Vals[i-1], cs.Vals[i]) {
			cs.Keep[i] = false
		}
	}
	cs.RKeys, cs.RVals = nil, nil
	for i := 0; i < n; i++ {
		if cs.Keep[i] {
			cs.RKeys = append(cs.RKeys, cs.Keys[i])
			if cs.Vals != nil {
				cs.RVals = append(cs.RVals, cs.Vals[i])
			} else {
				cs.RVals = append(cs.RVals, nil)
			}
		}
	}
}

// allEmptyVals: newVLenArray stores nothing when every value is empty; Get then
// reports a nil value.
func (cs *Case) leavesNil() bool {
	if cs.Vals == nil {
		return true
	}
	for i, v := range cs.Vals {
		if cs.Keep[i] && len(v) > 0 {
			return false
		}
	}
	return true
}

// Line renders the trie.new op.
func (cs *Case) Line() string {
	var sb strings.Builder
	fmt.Fprintf(&sb, "trie.new %s %s", cs.Flags, cs.Enc)
	for i, k := range cs.Keys {
		sb.WriteByte(' ')
		sb.WriteString(lp.XS(k))
		if cs.Vals != nil {
			sb.WriteByte(' ')
			sb.WriteString(lp.X(cs.Vals[i]))
		}
	}
	return sb.String()
}

// Key returns a short identity of the case for distinctness counting.
func (cs *Case) Key() string {
	return fmt.Sprintf("%s|%s|%s|%d|%s", cs.Class, cs.Flags, cs.Enc, len(cs.Keys), Fnv64([]byte(strings.Join(cs.Keys, "\x00"))))
}

// valAns renders what Get/RangeGet must answer for a retained entry.
func (cs *Case) valAns(v []byte) string {
	if cs.leavesNil() {
		return "f nil"
	}
	return "f " + lp.X(v)
}

// Spec lookups on the retained list.
func (cs *Case) SpecGet(q string) (int, bool) {
	i := sort.SearchStrings(cs.RKeys, q)
	if i < len(cs.RKeys) && cs.RKeys[i] == q {
		return i, true
	}
	return -1, false
}

// SpecLE: index of the greatest retained key <= q, or -1.
func (cs *Case) SpecLE(q string) int {
	i := sort.SearchStrings(cs.RKeys, q)
	if i < len(cs.RKeys) && cs.RKeys[i] == q {
		return i
	}
	return i - 1
}

// Describe records the distribution classes of the case.
func (cs *Case) Describe(c *lp.Ctx) {
	c.Hit("class:" + cs.Class)
	c.Hit("enc:" + cs.Enc)
	c.Hit(fmt.Sprintf("opt:dedup=%v,inner=%v,leaf=%v", cs.Dedup, cs.Inner, cs.Leaf))
	n := len(cs.Keys)
	switch {
	case n == 0:
		c.Hit("size:0")
	case n == 1:
		c.Hit("size:1")
	case n <= 10:
		c.Hit("size:2-10")
	case n <= 100:
		c.Hit("size:11-100")
	case n <= 1000:
		c.Hit("size:101-1000")
	default:
		c.Hit("size:>1000")
	}
	if len(cs.RKeys) < n {
		c.Hit("dedup-dropped-some")
	}
}
