package lp

import (
	"bufio"
	"os"
	"strings"
)

// Interp executes one script line of a family against the implementation and
// returns its canonical answer.  State lives in the family package.
type Interp func(toks []string) string

var interpreters = map[string]Interp{}

// Generators maps a property id to the generator(s) that exercise it.
var Generators = map[string][]func(*Ctx){}

// Register installs the interpreter for the ops "<fam>.<op> ...".
func Register(fam string, f Interp) { interpreters[fam] = f }

// RegisterGen installs a generator for a property.
func RegisterGen(prop string, g func(*Ctx)) { Generators[prop] = append(Generators[prop], g) }

// Exec runs one script line on the implementation (panics become "panic").
func Exec(line string) string {
	if strings.HasPrefix(line, "#") {
		return "#"
	}
	toks := strings.Split(line, " ")
	fam := toks[0]
	if i := strings.IndexByte(fam, '.'); i >= 0 {
		fam = fam[:i]
	}
	f, ok := interpreters[fam]
	if !ok {
		return "bad-op"
	}
	beginOp(line)
	defer endOp()
	return Catch(func() string { return f(toks) })
}

// Do executes the line on the implementation, records both and returns the answer.
func (c *Ctx) Do(line string) string {
	if isStateOp(line) {
		// remember what established the current state, for the watchdog's replay
		if strings.HasPrefix(line, "trie.new") || strings.HasPrefix(line, "idx.new") || strings.HasPrefix(line, "trie.fresh") || strings.HasPrefix(line, "arr.") {
			c.Context = c.Context[:0]
		}
		if len(c.Context) < 8 {
			c.Context = append(c.Context, line)
		}
	}
	ans := Exec(line)
	c.Op(line, ans)
	return ans
}

// Replay re-executes a script file line by line.
func (c *Ctx) Replay(path string) error {
	f, err := os.Open(path)
	if err != nil {
		return err
	}
	defer f.Close()
	sc := bufio.NewScanner(f)
	sc.Buffer(make([]byte, 1<<20), 1<<30)
	for sc.Scan() {
		c.Do(sc.Text())
	}
	return sc.Err()
}

func isStateOp(line string) bool {
	for _, p := range []string{"trie.new", "trie.fresh", "trie.unmarshal", "trie.reload", "trie.reset", "idx.new", "arr.new", "arr.gnew", "arr.ginit", "arr.reinit", "leg.write"} {
		if strings.HasPrefix(line, p) {
			return true
		}
	}
	return false
}
