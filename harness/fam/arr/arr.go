// Package arr is the line-protocol family "arr" (property C16): it runs the real
// github.com/openacid/slim/array code and generates the C16 cases.
//
// The state is one "current array" (a Go pointer; nil after a failed constructor).
//
// Tokens: <T> in u16 u32 u64 i16 i32 i64 (typed arrays); <type> a type term as in
// package enc ("nofix" = a slice of Go int, which encoding/binary cannot size);
// <idx>/<ints> comma separated decimals, "-" = empty; <elts> of generic arrays:
// elements separated by ";", each written as a <value> of package enc
// ("_" = element without leaves), "-" = no elements.
//
// Ops:
//
//	arr.new <T> <idx> <ints>         NewU16 … NewI64                 -> ok | err:<kind> | panic
//	arr.gnew <type> <idx> <elts>     array.New                       -> ok | err:<kind> | panic
//	arr.ginit <spec> <idx> <elts>    a := &Array{}; a.EltEncoder = <spec>; a.Init(…); current = a
//	arr.reinit <T> <idx> <ints>      current.Init(idx, []T{…})
//	arr.reinit g:<type> <idx> <elts> current.Init(idx, []type{…})
//	arr.get <i>                      typed / generic Get             -> "<0|1> <value>" | panic
//	arr.getbytes <i> <eltsize>       Base.GetBytes                   -> "0 -" | "1 x<hex>" | panic
//	arr.dump                         message fields                  -> cnt=… bm=… off=… elts=… flags=… ew=… bmelts=… enc=<0|1> | nil
//	arr.rt <T> | arr.rt g:<type>     proto.Marshal(current); proto.Unmarshal into a fresh typed
//	                                 array / NewEmpty(<type>); current = it   -> ok | nil | err
//
// err kinds: not-ascending, index-len, not-fixed-size.
package arr

import (
	"fmt"
	"math"
	"reflect"
	"sort"
	"strconv"
	"strings"

	proto "github.com/golang/protobuf/proto"
	"github.com/openacid/errors"
	"github.com/openacid/slim/array"
	"github.com/openacid/slim/encode"

	"slimverif/harness/fam/enc"
	"slimverif/harness/lp"
)

func init() {
	lp.Register("arr", Interp)
	lp.RegisterGen("C16", GenC16)
}

// typedOps adapts one of the generated typed arrays.
type typedOps struct {
	name   string
	w      int
	signed bool
	newFn  func(idx []int32, elts []string) (interface{}, error)
	fresh  func() interface{}
	get    func(cur interface{}, i int32) string
	slice  func(elts []string) (interface{}, error)
	base   func(cur interface{}) *array.Base
}

type typedPtr[E any] interface {
	Get(int32) (E, bool)
	Init([]int32, interface{}) error
	proto.Message
}

func mkTyped[E any, P typedPtr[E]](name string, w int, signed bool,
	newFn func([]int32, []E) (P, error), fresh func() P,
	parse func(string) (E, error), show func(E) string, baseOf func(P) *array.Base) *typedOps {

	parseAll := func(elts []string) ([]E, error) {
		es := make([]E, len(elts))
		for i, s := range elts {
			e, err := parse(s)
			if err != nil {
				return nil, err
			}
			es[i] = e
		}
		return es, nil
	}
	return &typedOps{
		name: name, w: w, signed: signed,
		newFn: func(idx []int32, elts []string) (interface{}, error) {
			es, err := parseAll(elts)
			if err != nil {
				return nil, errBadOp
			}
			a, err := newFn(idx, es)
			return a, err
		},
		fresh: func() interface{} { return fresh() },
		get: func(cur interface{}, i int32) string {
			v, ok := cur.(P).Get(i)
			return fmt.Sprintf("%d %s", b2i(ok), show(v))
		},
		slice: func(elts []string) (interface{}, error) { return parseAll(elts) },
		base:  func(cur interface{}) *array.Base { return baseOf(cur.(P)) },
	}
}

var errBadOp = fmt.Errorf("bad-op")

func b2i(b bool) int {
	if b {
		return 1
	}
	return 0
}

func pu(bits int) func(string) (uint64, error) {
	return func(s string) (uint64, error) { return strconv.ParseUint(s, 10, bits) }
}
func pi(bits int) func(string) (int64, error) {
	return func(s string) (int64, error) { return strconv.ParseInt(s, 10, bits) }
}

var typedTable = map[string]*typedOps{
	"u16": mkTyped("u16", 2, false, array.NewU16, func() *array.U16 { return &array.U16{} },
		func(s string) (uint16, error) { v, err := pu(16)(s); return uint16(v), err },
		func(v uint16) string { return strconv.FormatUint(uint64(v), 10) },
		func(a *array.U16) *array.Base {
			if a == nil {
				return nil
			}
			return &a.Base
		}),
	"u32": mkTyped("u32", 4, false, array.NewU32, func() *array.U32 { return &array.U32{} },
		func(s string) (uint32, error) { v, err := pu(32)(s); return uint32(v), err },
		func(v uint32) string { return strconv.FormatUint(uint64(v), 10) },
		func(a *array.U32) *array.Base {
			if a == nil {
				return nil
			}
			return &a.Base
		}),
	"u64": mkTyped("u64", 8, false, array.NewU64, func() *array.U64 { return &array.U64{} },
		func(s string) (uint64, error) { return pu(64)(s) },
		func(v uint64) string { return strconv.FormatUint(v, 10) },
		func(a *array.U64) *array.Base {
			if a == nil {
				return nil
			}
			return &a.Base
		}),
	"i16": mkTyped("i16", 2, true, array.NewI16, func() *array.I16 { return &array.I16{} },
		func(s string) (int16, error) { v, err := pi(16)(s); return int16(v), err },
		func(v int16) string { return strconv.FormatInt(int64(v), 10) },
		func(a *array.I16) *array.Base {
			if a == nil {
				return nil
			}
			return &a.Base
		}),
	"i32": mkTyped("i32", 4, true, array.NewI32, func() *array.I32 { return &array.I32{} },
		func(s string) (int32, error) { v, err := pi(32)(s); return int32(v), err },
		func(v int32) string { return strconv.FormatInt(int64(v), 10) },
		func(a *array.I32) *array.Base {
			if a == nil {
				return nil
			}
			return &a.Base
		}),
	"i64": mkTyped("i64", 8, true, array.NewI64, func() *array.I64 { return &array.I64{} },
		func(s string) (int64, error) { return pi(64)(s) },
		func(v int64) string { return strconv.FormatInt(v, 10) },
		func(a *array.I64) *array.Base {
			if a == nil {
				return nil
			}
			return &a.Base
		}),
}

// interpreter state
var (
	cur     interface{}              // *array.U16 … *array.I64 or *array.Array (possibly a typed nil)
	curOps  *typedOps                // non-nil for typed arrays
	curShow func(interface{}) string // value rendering of the generic array
)

func curBase() *array.Base {
	if cur == nil {
		return nil
	}
	if curOps != nil {
		return curOps.base(cur)
	}
	a := cur.(*array.Array)
	if a == nil {
		return nil
	}
	return &a.Base
}

func errAns(err error) string {
	if err == nil {
		return "ok"
	}
	switch errors.Cause(err) {
	case array.ErrIndexNotAscending:
		return "err:not-ascending"
	case array.ErrIndexLen:
		return "err:index-len"
	case encode.ErrNotFixedSize:
		return "err:not-fixed-size"
	}
	return "err:other"
}

func parseIdx(s string) ([]int32, error) {
	out := []int32{}
	if s == "-" {
		return out, nil
	}
	for _, t := range strings.Split(s, ",") {
		v, err := strconv.ParseInt(t, 10, 32)
		if err != nil {
			return nil, err
		}
		out = append(out, int32(v))
	}
	return out, nil
}

func splitList(s, sep string) []string {
	if s == "-" {
		return nil
	}
	return strings.Split(s, sep)
}

// sliceOfType builds []T from the element texts; ty == "nofix" builds []int.
func sliceOfType(ty string, elts []string) (interface{}, reflect.Type, error) {
	if ty == "nofix" {
		out := make([]int, len(elts))
		for i, s := range elts {
			v, err := strconv.Atoi(s)
			if err != nil {
				return nil, nil, err
			}
			out[i] = v
		}
		return out, nil, nil
	}
	t, err := enc.ParseType(ty)
	if err != nil {
		return nil, nil, err
	}
	sl := reflect.MakeSlice(reflect.SliceOf(t), len(elts), len(elts))
	for i, s := range elts {
		v, err := enc.ParseTyped(t, s)
		if err != nil {
			return nil, nil, err
		}
		sl.Index(i).Set(reflect.ValueOf(v))
	}
	return sl.Interface(), t, nil
}

func showWords(ws []uint64) string {
	if len(ws) == 0 {
		return "-"
	}
	ss := make([]string, len(ws))
	for i, w := range ws {
		ss[i] = strconv.FormatUint(w, 10)
	}
	return strings.Join(ss, ",")
}

func showI32s(ws []int32) string {
	if len(ws) == 0 {
		return "-"
	}
	ss := make([]string, len(ws))
	for i, w := range ws {
		ss[i] = strconv.FormatInt(int64(w), 10)
	}
	return strings.Join(ss, ",")
}

func dump(b *array.Base) string {
	if b == nil {
		return "nil"
	}
	bm := "nil"
	if b.BMElts != nil {
		bm = fmt.Sprintf("[%d/%d/%s/%s]", b.BMElts.Flags, b.BMElts.N, showWords(b.BMElts.Words), showI32s(b.BMElts.RankIndex))
	}
	return fmt.Sprintf("cnt=%d bm=%s off=%s elts=%s flags=%d ew=%d bmelts=%s enc=%d",
		b.Cnt, showWords(b.Bitmaps), showI32s(b.Offsets), lp.X(b.Elts), b.Flags, b.EltWidth, bm, b2i(b.EltEncoder != nil))
}

// Interp executes one "arr.*" line against the real array package.
func Interp(toks []string) string {
	switch toks[0] {
	case "arr.new":
		if len(toks) != 4 {
			return "bad-op"
		}
		ops, ok := typedTable[toks[1]]
		idx, err := parseIdx(toks[2])
		if !ok || err != nil {
			return "bad-op"
		}
		a, err := ops.newFn(idx, splitList(toks[3], ","))
		if err == errBadOp {
			return "bad-op"
		}
		cur, curOps, curShow = a, ops, nil
		return errAns(err)

	case "arr.gnew":
		if len(toks) != 4 {
			return "bad-op"
		}
		idx, err := parseIdx(toks[2])
		if err != nil {
			return "bad-op"
		}
		sl, _, err := sliceOfType(toks[1], splitList(toks[3], ";"))
		if err != nil {
			return "bad-op"
		}
		a, err := array.New(idx, sl)
		cur, curOps, curShow = a, nil, enc.ShowTyped
		return errAns(err)

	case "arr.ginit":
		if len(toks) != 4 {
			return "bad-op"
		}
		sp, err := enc.ParseSpec(toks[1])
		idx, err2 := parseIdx(toks[2])
		if err != nil || err2 != nil {
			return "bad-op"
		}
		es := splitList(toks[3], ";")
		sl := reflect.MakeSlice(reflect.SliceOf(sp.Type), len(es), len(es))
		for i, s := range es {
			if s == "_" {
				s = "-"
			}
			v, err := sp.Parse(s)
			if err != nil {
				return "bad-op"
			}
			if v != nil {
				sl.Index(i).Set(reflect.ValueOf(v))
			}
		}
		a := &array.Array{}
		a.EltEncoder = sp.Enc
		err = a.Init(idx, sl.Interface()) // a panic leaves the current array as it was
		cur, curOps, curShow = a, nil, sp.Show
		return errAns(err)

	case "arr.reinit":
		if len(toks) != 4 {
			return "bad-op"
		}
		idx, err := parseIdx(toks[2])
		if err != nil {
			return "bad-op"
		}
		var sl interface{}
		if strings.HasPrefix(toks[1], "g:") {
			sl, _, err = sliceOfType(toks[1][2:], splitList(toks[3], ";"))
		} else {
			ops, ok := typedTable[toks[1]]
			if !ok {
				return "bad-op"
			}
			sl, err = ops.slice(splitList(toks[3], ","))
		}
		if err != nil {
			return "bad-op"
		}
		if curBase() == nil {
			return "panic"
		}
		return errAns(cur.(interface {
			Init([]int32, interface{}) error
		}).Init(idx, sl))

	case "arr.get":
		if len(toks) != 2 {
			return "bad-op"
		}
		i, err := strconv.ParseInt(toks[1], 10, 32)
		if err != nil {
			return "bad-op"
		}
		if cur == nil {
			return "panic"
		}
		if curOps != nil {
			return curOps.get(cur, int32(i))
		}
		v, ok := cur.(*array.Array).Get(int32(i))
		if !ok {
			if v != nil {
				return "0 ?"
			}
			return "0 nil"
		}
		return "1 " + curShow(v)

	case "arr.getbytes":
		if len(toks) != 3 {
			return "bad-op"
		}
		i, err := strconv.ParseInt(toks[1], 10, 32)
		sz, err2 := strconv.Atoi(toks[2])
		if err != nil || err2 != nil || sz < 0 {
			return "bad-op"
		}
		b := curBase()
		if b == nil {
			return "panic"
		}
		bs, ok := b.GetBytes(int32(i), sz)
		if !ok {
			if bs != nil {
				return "0 ?"
			}
			return "0 -"
		}
		return "1 " + lp.X(bs)

	case "arr.dump":
		if len(toks) != 1 {
			return "bad-op"
		}
		return dump(curBase())

	case "arr.rt":
		if len(toks) != 2 {
			return "bad-op"
		}
		var target interface{}
		var tops *typedOps
		var show func(interface{}) string
		if strings.HasPrefix(toks[1], "g:") {
			t, err := enc.ParseType(toks[1][2:])
			if err != nil {
				return "bad-op"
			}
			a, err := array.NewEmpty(reflect.New(t).Interface())
			if err != nil {
				return "err"
			}
			target, show = a, enc.ShowTyped
		} else {
			ops, ok := typedTable[toks[1]]
			if !ok {
				return "bad-op"
			}
			target, tops = ops.fresh(), ops
		}
		if curBase() == nil {
			return "nil"
		}
		buf, err := proto.Marshal(cur.(proto.Message))
		if err != nil {
			return "err"
		}
		if err := proto.Unmarshal(buf, target.(proto.Message)); err != nil {
			return "err"
		}
		cur, curOps, curShow = target, tops, show
		return "ok"
	}
	return "bad-op"
}

// ---------------------------------------------------------------------------
// generator

type gen struct {
	c *lp.Ctx
}

func (g *gen) expect(what string, lines []string, line, want string) string {
	ans := g.c.Do(line)
	if ans != want {
		sc := append(append([]string{}, lines...), clip(line))
		g.c.Violate(lp.Violation{What: what, Script: sc, Expected: clip(want), Got: clip(ans)})
	}
	return ans
}

func clip(s string) string {
	if len(s) > 300 {
		return s[:300] + "..."
	}
	return s
}

func joinI32(idx []int32) string {
	if len(idx) == 0 {
		return "-"
	}
	ss := make([]string, len(idx))
	for i, v := range idx {
		ss[i] = strconv.Itoa(int(v))
	}
	return strings.Join(ss, ",")
}

func joinS(ss []string, sep string) string {
	if len(ss) == 0 {
		return "-"
	}
	return strings.Join(ss, sep)
}

const maxIndex = 1 << 20

// index set shapes
func (g *gen) indexSet(shape string, large bool) []int32 {
	r := g.c.Rng
	limit := 704 // span of "small" sets: every probe is checked
	if large {
		limit = maxIndex
	}
	set := map[int32]bool{}
	switch shape {
	case "empty":
	case "single":
		switch r.Intn(5) {
		case 0:
			set[0] = true
		case 1:
			set[63] = true
		case 2:
			set[64] = true
		case 3:
			set[int32(limit-1)] = true
		default:
			set[int32(r.Intn(limit))] = true
		}
	case "dense":
		n := 1 + r.Intn(400)
		if large {
			n = 1 + r.Intn(3000)
		}
		if n > limit {
			n = limit
		}
		a := r.Intn(limit - n + 1)
		for i := 0; i < n; i++ {
			set[int32(a+i)] = true
		}
	case "sparse":
		n := 1 + r.Intn(40)
		if large {
			n = 1 + r.Intn(600)
		}
		for i := 0; i < n; i++ {
			set[int32(r.Intn(limit))] = true
		}
	case "empty-words":
		// clusters inside single words, separated by runs of empty 64-bit words
		pos := r.Intn(3) * 64
		for pos < limit {
			k := 1 + r.Intn(8)
			if r.Intn(5) == 0 {
				k = 64
			}
			for i := 0; i < k; i++ {
				p := pos + r.Intn(64)
				if k == 64 {
					p = pos + i
				}
				if p < limit {
					set[int32(p)] = true
				}
			}
			gap := 1 + r.Intn(6)
			if large {
				gap = 1 + r.Intn(2000)
			}
			pos += 64 * (1 + gap)
			if len(set) > 1500 {
				break
			}
		}
	case "word-boundary":
		nw := 1 + r.Intn(limit/64)
		if large {
			nw = 1 + r.Intn(300)
		}
		for i := 0; i < nw; i++ {
			w := i
			if large {
				w = r.Intn(limit / 64)
			}
			for _, b := range []int{0, 1, 31, 32, 62, 63} {
				if r.Intn(2) == 0 {
					set[int32(w*64+b)] = true
				}
			}
		}
	default: // "density"
		span := 64 + r.Intn(limit-63)
		p := []float64{0.02, 0.1, 0.5, 0.9, 0.99}[r.Intn(5)]
		if large && float64(span)*p > 3000 {
			// the list-based model walks Elts on every Get: keep the element count moderate
			// (huge dense arrays are covered by hugeDirect)
			span = int(3000 / p)
		}
		base := 0
		if large {
			base = r.Intn(maxIndex - span)
		}
		for i := 0; i < span; i++ {
			if r.Float64() < p {
				set[int32(base+i)] = true
			}
		}
	}
	idx := make([]int32, 0, len(set))
	for k := range set {
		idx = append(idx, k)
	}
	sort.Slice(idx, func(i, j int) bool { return idx[i] < idx[j] })
	return idx
}

var shapes = []string{"empty", "single", "dense", "sparse", "empty-words", "word-boundary", "density"}

func spanOf(idx []int32) int {
	if len(idx) == 0 {
		return 0
	}
	return (int(idx[len(idx)-1]) + 1 + 63) / 64 * 64
}

// probes within the bitmap span
func (g *gen) probes(idx []int32) []int32 {
	r := g.c.Rng
	span := spanOf(idx)
	if span <= 704 {
		out := make([]int32, span)
		for i := range out {
			out[i] = int32(i)
		}
		return out
	}
	set := map[int32]bool{}
	add := func(p int) {
		if p >= 0 && p < span {
			set[int32(p)] = true
		}
	}
	pick := idx
	if len(pick) > 250 {
		pick = make([]int32, 250)
		for i := range pick {
			pick[i] = idx[r.Intn(len(idx))]
		}
		pick = append(pick, idx[0], idx[len(idx)-1])
	}
	for _, p := range pick {
		add(int(p))
		add(int(p) - 1)
		add(int(p) + 1)
	}
	for i := 0; i < 150; i++ {
		add(r.Intn(span))
		w := r.Intn(span / 64)
		add(w * 64)
		add(w*64 + 63)
	}
	add(0)
	add(span - 1)
	out := make([]int32, 0, len(set))
	for p := range set {
		out = append(out, p)
	}
	sort.Slice(out, func(i, j int) bool { return out[i] < out[j] })
	return out
}

// full-range element bit patterns
func (g *gen) bits() uint64 {
	r := g.c.Rng
	switch r.Intn(10) {
	case 0:
		return 0
	case 1:
		return math.MaxUint64
	case 2:
		return 1 << 63
	case 3:
		return 1<<63 - 1
	case 4:
		return 0x8000 | 0x80000000
	case 5:
		return 0x7fff7fff7fff7fff
	}
	return r.Uint64()
}

func eltText(ops *typedOps, bits uint64) string {
	sh := uint(64 - 8*ops.w)
	if ops.signed {
		return strconv.FormatInt(int64(bits<<sh)>>sh, 10)
	}
	return strconv.FormatUint(bits<<sh>>sh, 10)
}

func leHex(bits uint64, w int) string {
	b := make([]byte, w)
	for i := range b {
		b[i] = byte(bits >> (8 * uint(i)))
	}
	return lp.X(b)
}

// check runs the probes against the oracle map: want[i] = {value text, LE bytes hex}.
func (g *gen) check(what string, hist []string, probes []int32, want map[int32][2]string, zero string, w int, raw bool) {
	g.c.Evaluations += len(probes) // every probe is one evaluation of the sparse-map predicate
	for _, p := range probes {
		e, ok := want[p]
		exp := "0 " + zero
		if ok {
			exp = "1 " + e[0]
		}
		g.expect(what+": Get", hist, fmt.Sprintf("arr.get %d", p), exp)
		if raw {
			exp = "0 -"
			if ok {
				exp = "1 " + e[1]
			}
			g.expect(what+": GetBytes", hist, fmt.Sprintf("arr.getbytes %d %d", p, w), exp)
		}
	}
}

func (g *gen) typedCase(ops *typedOps, shape string, large bool) {
	c := g.c
	idx := g.indexSet(shape, large)
	want := map[int32][2]string{}
	elts := make([]string, len(idx))
	for i, p := range idx {
		b := g.bits()
		elts[i] = eltText(ops, b)
		want[p] = [2]string{elts[i], leHex(b, ops.w)}
	}
	newLine := fmt.Sprintf("arr.new %s %s %s", ops.name, joinI32(idx), joinS(elts, ","))
	hist := []string{clip(newLine)}
	if c.Rng.Intn(3) == 0 {
		// HISTORY: the array object is not fresh — it was built from another valid set before (same element type,
		// another shape, usually a longer span) and is now initialised again with Init.  What it answers must be the
		// sparse map of the LAST set only.
		pidx := g.indexSet(shapes[1+c.Rng.Intn(len(shapes)-1)], large)
		pelts := make([]string, len(pidx))
		for i := range pidx {
			pelts[i] = eltText(ops, g.bits())
		}
		pre := fmt.Sprintf("arr.new %s %s %s", ops.name, joinI32(pidx), joinS(pelts, ","))
		g.expect("C16 valid input accepted", nil, pre, "ok")
		newLine = fmt.Sprintf("arr.reinit %s %s %s", ops.name, joinI32(idx), joinS(elts, ","))
		hist = []string{clip(pre), clip(newLine)}
		g.expect("C16 valid input accepted by Init on a used array", hist[:1], newLine, "ok")
		c.Hit("history-reinit-valid")
	} else {
		g.expect("C16 valid input accepted", nil, newLine, "ok")
	}
	probes := g.probes(idx)
	size := "small"
	if large {
		size = "large"
	}
	c.Hit("typed-" + ops.name)
	c.Hit("shape-" + shape + "-" + size)
	c.Case(newLine, len(idx) > 0)
	if len(idx) > 0 && len(newLine) < 200 {
		c.Sample(newLine)
	}
	d0 := c.Do("arr.dump")
	g.check("C16 typed "+ops.name, hist, probes, want, "0", ops.w, true)
	if len(idx) == 0 {
		// empty array: no bitmap word; every Get is out of span (recorded for model agreement only)
		c.Do("arr.get 0")
		c.Do("arr.getbytes 0 " + strconv.Itoa(ops.w))
		return
	}
	// marshal → generic array of the same element type
	g.expect("C16 marshal/unmarshal", hist, "arr.rt g:"+ops.name, "ok")
	hist = append(hist, "arr.rt g:"+ops.name)
	d1 := c.Do("arr.dump")
	if strings.TrimSuffix(d0, "enc=0") != strings.TrimSuffix(d1, "enc=1") {
		c.Violate(lp.Violation{What: "C16 round trip changed message fields", Script: hist, Expected: clip(d0), Got: clip(d1)})
	}
	g.check("C16 typed→generic "+ops.name, hist, probes, want, "nil", ops.w, c.Rng.Intn(4) == 0)
	// and back into the typed array
	g.expect("C16 marshal/unmarshal", hist, "arr.rt "+ops.name, "ok")
	hist = append(hist, "arr.rt "+ops.name)
	g.check("C16 generic→typed "+ops.name, hist, probes, want, "0", ops.w, false)
	// out of span (outside the property's quantifier; model agreement only)
	span := spanOf(idx)
	for _, p := range []int{span, span + 1, span + 64, -1, -64} {
		c.Do(fmt.Sprintf("arr.get %d", p))
		c.Do(fmt.Sprintf("arr.getbytes %d %d", p, ops.w))
	}
}

func (g *gen) genericCase(shape string, large bool) {
	c := g.c
	r := c.Rng
	idx := g.indexSet(shape, large)
	if len(idx) > 400 {
		idx = idx[:400]
	}
	var ty string
	for {
		var leaves int
		ty, leaves = enc.RandType(r, 2)
		if leaves <= 12 {
			break
		}
	}
	if r.Intn(4) == 0 {
		ty = []string{"s2,i32,u16", "a2,u8", "s3,u8,a2,i16,u64", "u8", "i8", "s0"}[r.Intn(6)]
	}
	t, err := enc.ParseType(ty)
	if err != nil {
		panic(err)
	}
	want := map[int32][2]string{}
	elts := make([]string, len(idx))
	for i, p := range idx {
		txt := enc.RandLeaves(r, t)
		v, _ := enc.ParseTyped(t, txt)
		elts[i] = txt
		if txt == "-" {
			elts[i] = "_"
		}
		want[p] = [2]string{txt, lp.X(enc.OracleTyped(reflect.ValueOf(v), false, nil))}
	}
	w := int(t.Size())
	if sz := len(enc.OracleTyped(reflect.New(t).Elem(), false, nil)); sz != w {
		w = sz // binary.Size has no padding; reflect's Size does
	}
	newLine := fmt.Sprintf("arr.gnew %s %s %s", ty, joinI32(idx), joinS(elts, ";"))
	hist := []string{clip(newLine)}
	g.expect("C16 valid input accepted", nil, newLine, "ok")
	c.Hit("generic-" + t.Kind().String())
	size := "small"
	if large {
		size = "large"
	}
	c.Hit("shape-" + shape + "-" + size)
	c.Case(newLine, len(idx) > 0)
	if len(idx) > 0 && len(newLine) < 200 {
		c.Sample(newLine)
	}
	probes := g.probes(idx)
	if len(idx) == 0 {
		// generic array without elements: EltEncoder stays nil, Get panics (model agreement only)
		c.Do("arr.dump")
		c.Do("arr.get 0")
		return
	}
	g.check("C16 generic", hist, probes, want, "nil", w, true)
	g.expect("C16 marshal/unmarshal", hist, "arr.rt g:"+ty, "ok")
	hist = append(hist, "arr.rt g:"+ty)
	g.check("C16 generic→generic", hist, probes, want, "nil", w, false)
	// cross into the typed array when the element is one of its integer kinds
	if ops, ok := typedTable[ty]; ok {
		g.expect("C16 marshal/unmarshal", hist, "arr.rt "+ty, "ok")
		hist = append(hist, "arr.rt "+ty)
		g.check("C16 generic→typed", hist, probes, want, "0", ops.w, false)
	}
}

// presetCase: generic array with an explicitly set EltEncoder (a round-tripping encoder of package encode).
func (g *gen) presetCase(spec string, w int, mk func() (string, string)) {
	c := g.c
	idx := g.indexSet(shapes[1+c.Rng.Intn(len(shapes)-1)], false)
	if len(idx) > 200 {
		idx = idx[:200]
	}
	want := map[int32][2]string{}
	elts := make([]string, len(idx))
	for i, p := range idx {
		txt, hx := mk()
		elts[i] = txt
		want[p] = [2]string{txt, hx}
	}
	newLine := fmt.Sprintf("arr.ginit %s %s %s", spec, joinI32(idx), joinS(elts, ";"))
	g.expect("C16 valid input accepted", nil, newLine, "ok")
	c.Hit("generic-preset-" + strings.Split(spec, ":")[0])
	c.Case(newLine, len(idx) > 0)
	g.check("C16 generic preset encoder "+spec, []string{clip(newLine)}, g.probes(idx), want, "nil", w, true)
}

// invalid index lists and length mismatches
func (g *gen) invalid() {
	c := g.c
	r := c.Rng
	typedNames := []string{"u16", "u32", "u64", "i16", "i32", "i64"}
	// lists that START at 0 and END at len-1 (what a dense list looks like from its two ends) with a
	// violation strictly inside: swapped, repeated and far-off interior entries
	for rep := 0; rep < c.Pick(60, 400); rep++ {
		ops := typedTable[typedNames[rep%6]]
		n := 3 + r.Intn(40)
		bad := make([]int32, n)
		for i := range bad {
			bad[i] = int32(i)
		}
		p := 1 + r.Intn(n-2)
		switch r.Intn(4) {
		case 0:
			if p+1 < n-1 {
				bad[p], bad[p+1] = bad[p+1], bad[p]
			} else {
				bad[p] = bad[p-1]
			}
		case 1:
			bad[p] = bad[p-1]
		case 2:
			bad[p] = int32(n + 100 + r.Intn(1000))
		default:
			bad[p] = 0
		}
		elts := make([]string, n)
		for i := range elts {
			elts[i] = eltText(ops, g.bits())
		}
		line := fmt.Sprintf("arr.new %s %s %s", ops.name, joinI32(bad), joinS(elts, ","))
		g.expect("C16 non-ascending rejected (list starts at 0 and ends at len-1)", nil, line, "err:not-ascending")
		g.expect("C16 rejected input builds nothing (constructor returns nil)", []string{clip(line)}, "arr.dump", "nil")
		c.Hit("invalid-not-ascending:dense-ends")
		c.Case(line, true)
	}
	for rep := 0; rep < c.Pick(40, 400); rep++ {
		ops := typedTable[typedNames[rep%6]]
		base := g.indexSet([]string{"dense", "sparse", "density", "word-boundary"}[r.Intn(4)], false)
		if len(base) < 2 {
			continue
		}
		if len(base) > 24 {
			o := r.Intn(len(base) - 24)
			base = base[o : o+24]
		}
		elts := make([]string, len(base))
		for i := range elts {
			elts[i] = eltText(ops, g.bits())
		}
		// a valid array first, to observe that a failing Init leaves the receiver unchanged
		valid := fmt.Sprintf("arr.new %s %s %s", ops.name, joinI32(base), joinS(elts, ","))
		// every position: equal neighbour, descending neighbour, swapped neighbours
		for p := 0; p+1 < len(base); p++ {
			for kind := 0; kind < 3; kind++ {
				bad := append([]int32{}, base...)
				switch kind {
				case 0:
					bad[p+1] = bad[p]
				case 1:
					bad[p+1] = bad[p] - int32(1+r.Intn(int(bad[p])+1))
					if bad[p+1] < 0 {
						bad[p+1] = 0
						if bad[p] == 0 {
							bad[p+1] = 0
						}
					}
				default:
					bad[p], bad[p+1] = bad[p+1], bad[p]
				}
				line := fmt.Sprintf("arr.new %s %s %s", ops.name, joinI32(bad), joinS(elts, ","))
				g.expect("C16 non-ascending rejected", nil, line, "err:not-ascending")
				g.expect("C16 rejected input builds nothing (constructor returns nil)", []string{clip(line)}, "arr.dump", "nil")
				c.Hit("invalid-not-ascending")
				c.Case(line, true)
				if p%5 == 0 && kind == 0 {
					g.expect("valid", nil, valid, "ok")
					d0 := c.Do("arr.dump")
					rl := fmt.Sprintf("arr.reinit %s %s %s", ops.name, joinI32(bad), joinS(elts, ","))
					g.expect("C16 non-ascending rejected by Init", []string{clip(valid)}, rl, "err:not-ascending")
					g.expect("C16 failing Init leaves the receiver unchanged", []string{clip(valid), clip(rl)}, "arr.dump", d0)
					c.Hit("invalid-reinit-unchanged")
				}
			}
		}
		// length off by any amount (also together with a non-ascending list: the length check comes first)
		for m := 0; m <= len(base)+3; m++ {
			if m == len(base) {
				continue
			}
			es := make([]string, m)
			for i := range es {
				es[i] = eltText(ops, g.bits())
			}
			idxs := base
			if r.Intn(3) == 0 {
				idxs = append([]int32{}, base...)
				idxs[0], idxs[1] = idxs[1], idxs[0]
			}
			line := fmt.Sprintf("arr.new %s %s %s", ops.name, joinI32(idxs), joinS(es, ","))
			g.expect("C16 length mismatch rejected", nil, line, "err:index-len")
			g.expect("C16 rejected input builds nothing (constructor returns nil)", []string{clip(line)}, "arr.dump", "nil")
			c.Hit("invalid-index-len")
			c.Case(line, true)
			if m%4 == 0 {
				g.expect("valid", nil, valid, "ok")
				d0 := c.Do("arr.dump")
				rl := fmt.Sprintf("arr.reinit %s %s %s", ops.name, joinI32(idxs), joinS(es, ","))
				g.expect("C16 length mismatch rejected by Init", []string{clip(valid)}, rl, "err:index-len")
				g.expect("C16 failing Init leaves the receiver unchanged", []string{clip(valid), clip(rl)}, "arr.dump", d0)
				c.Hit("invalid-reinit-unchanged")
			}
		}
		// the same through the generic constructor
		ty := ops.name
		gl := fmt.Sprintf("arr.gnew %s %s %s", ty, joinI32(base), joinS(elts[:len(elts)-1], ";"))
		g.expect("C16 length mismatch rejected (generic)", nil, gl, "err:index-len")
		g.expect("C16 rejected input builds nothing (constructor returns nil)", []string{clip(gl)}, "arr.dump", "nil")
		bad := append([]int32{}, base...)
		p := r.Intn(len(bad) - 1)
		bad[p+1] = bad[p]
		gl = fmt.Sprintf("arr.gnew %s %s %s", ty, joinI32(bad), joinS(elts, ";"))
		g.expect("C16 non-ascending rejected (generic)", nil, gl, "err:not-ascending")
		g.expect("C16 rejected input builds nothing (constructor returns nil)", []string{clip(gl)}, "arr.dump", "nil")
		c.Hit("invalid-generic")
	}
	// far-off lengths
	for _, m := range []int{0, 1, 1000} {
		es := make([]string, m)
		for i := range es {
			es[i] = "7"
		}
		line := fmt.Sprintf("arr.new u32 %s %s", joinI32([]int32{1, 2, 3, 500}), joinS(es, ","))
		g.expect("C16 length mismatch rejected", nil, line, "err:index-len")
		c.Do("arr.dump")
		line = fmt.Sprintf("arr.new u32 - %s", joinS(es, ","))
		if m > 0 {
			g.expect("C16 length mismatch rejected", nil, line, "err:index-len")
			c.Do("arr.dump")
		}
	}
	// outside the property's domain (model agreement only): negative and near-2^31 positions,
	// element types without a fixed size, re-initialisation with nothing / over old content
	for _, l := range []string{
		"arr.new u16 -1,3 1,2", "arr.new u16 -5 1", "arr.new i64 -70,-3 1,2", "arr.dump",
		"arr.new u16 2147483647 1", "arr.new u16 2147483600 1", "arr.new u16 5,2147483647 1,2", "arr.dump",
		"arr.gnew nofix 1,2 5,6", "arr.dump", "arr.gnew nofix - -", "arr.dump", "arr.get 0",
		"arr.new u32 1,70 11,12", "arr.reinit g:nofix 3,4,200 5,6,7", "arr.dump", "arr.get 3", "arr.get 1", "arr.get 200",
		"arr.new u32 1,70 11,12", "arr.reinit u32 - -", "arr.dump", "arr.get 1",
		"arr.new u32 1,70 11,12", "arr.reinit u32 2 9", "arr.dump", "arr.get 1", "arr.get 2", "arr.get 70",
		"arr.new u32 1,70 11,12", "arr.reinit u16 2,3 9,10", "arr.dump", "arr.get 2", "arr.get 3",
		"arr.gnew s2,u8,i16 3,70 1,-1;2,-2", "arr.reinit g:s2,u8,i16 - -", "arr.dump", "arr.get 3",
		"arr.ginit str16 1,2 x61;x62", "arr.dump",
		"arr.ginit dummy 1,2 nil;nil", "arr.dump", "arr.get 1", "arr.get 0",
		"arr.get 5", "arr.rt u16",
	} {
		c.Do(l)
		c.Hit("outside-domain")
	}
}

// hugeDirect checks very large arrays directly on the implementation (no script lines: the
// list-based model would take too long on a million positions).
func (g *gen) hugeDirect() {
	c := g.c
	r := c.Rng
	for rep := 0; rep < c.Pick(2, 12); rep++ {
		var idx []int32
		switch rep % 3 {
		case 0: // dense: every position of [0, 2^20)
			for i := 0; i < maxIndex; i++ {
				idx = append(idx, int32(i))
			}
		case 1:
			for i := 0; i < maxIndex; i++ {
				if r.Intn(3) == 0 {
					idx = append(idx, int32(i))
				}
			}
		default: // long runs of empty words
			for i := 0; i < maxIndex; i++ {
				if (i/64)%7 == 0 && r.Intn(2) == 0 {
					idx = append(idx, int32(i))
				}
			}
		}
		elts := make([]uint64, len(idx))
		m := make(map[int32]uint64, len(idx))
		for i := range elts {
			elts[i] = r.Uint64()
			m[idx[i]] = elts[i]
		}
		a, err := array.NewU64(idx, elts)
		if err != nil {
			c.Violate(lp.Violation{What: "C16 huge: valid input rejected", Expected: "ok", Got: err.Error()})
			continue
		}
		buf, err := proto.Marshal(a)
		gen, _ := array.NewEmpty(uint64(0))
		if err == nil {
			err = proto.Unmarshal(buf, gen)
		}
		if err != nil {
			c.Violate(lp.Violation{What: "C16 huge: marshal round trip", Expected: "ok", Got: err.Error()})
			continue
		}
		bad := 0
		for i := int32(0); i < int32(spanOf(idx)); i++ {
			wv, wok := m[i]
			v, ok := a.Get(i)
			gv, gok := gen.Get(i)
			bs, bok := a.GetBytes(i, 8)
			good := ok == wok && gok == wok && bok == wok && v == wv
			if wok {
				good = good && gv.(uint64) == wv && lp.X(bs) == leHex(wv, 8)
			} else {
				good = good && gv == nil && bs == nil
			}
			if !good {
				bad++
				if bad <= 3 {
					c.Violate(lp.Violation{What: "C16 huge array: Get disagrees with the map oracle",
						Script:   []string{fmt.Sprintf("n=%d probe=%d", len(idx), i)},
						Expected: fmt.Sprintf("%v %v", wv, wok), Got: fmt.Sprintf("typed %v %v generic %v %v", v, ok, gv, gok)})
				}
			}
		}
		c.Evaluations += spanOf(idx)
		c.Dist["huge-direct-probes"] += spanOf(idx)
	}
	c.Notes = append(c.Notes, "huge arrays (up to all 2^20 positions) are checked directly on the implementation against a Go map, without script lines")
}

// GenC16 generates the C16 cases.
func GenC16(c *lp.Ctx) {
	g := &gen{c: c}
	r := c.Rng
	c.Comment("C16: compacted arrays behave as a sparse map and survive serialization")
	typedNames := []string{"u16", "u32", "u64", "i16", "i32", "i64"}

	// small spans: every probe index in the span
	for rep := 0; rep < c.Pick(4, 40); rep++ {
		for _, shape := range shapes {
			for _, tn := range typedNames {
				if rep > 0 && (shape == "empty") {
					continue
				}
				if r.Intn(3) != 0 && rep > 0 {
					continue
				}
				g.typedCase(typedTable[tn], shape, false)
			}
		}
	}
	for rep := 0; rep < c.Pick(40, 500); rep++ {
		g.genericCase(shapes[rep%len(shapes)], false)
	}
	// large spans (up to 2^20): sampled probes
	for rep := 0; rep < c.Pick(14, 120); rep++ {
		shape := shapes[1+rep%(len(shapes)-1)]
		g.typedCase(typedTable[typedNames[rep%6]], shape, true)
	}
	for rep := 0; rep < c.Pick(4, 40); rep++ {
		g.genericCase(shapes[1+rep%(len(shapes)-1)], true)
	}
	// generic arrays with a preset element encoder of package encode
	for rep := 0; rep < c.Pick(3, 30); rep++ {
		for _, e := range []struct {
			spec   string
			w      int
			signed bool
		}{{"u16", 2, false}, {"u32", 4, false}, {"u64", 8, false}, {"i8", 1, true}, {"i16", 2, true}, {"i32", 4, true}, {"i64", 8, true}, {"int", 8, true}} {
			e := e
			g.presetCase(e.spec, e.w, func() (string, string) {
				b := g.bits()
				return eltText(&typedOps{w: e.w, signed: e.signed}, b), leHex(b, e.w)
			})
		}
		n := 1 + r.Intn(9)
		g.presetCase(fmt.Sprintf("bytes:%d", n), n, func() (string, string) {
			b := make([]byte, n)
			r.Read(b)
			return lp.X(b), lp.X(b)
		})
		g.presetCase("te:be:s2,u16,i32", 6, func() (string, string) {
			t, _ := enc.ParseType("s2,u16,i32")
			txt := enc.RandLeaves(r, t)
			v, _ := enc.ParseTyped(t, txt)
			return txt, lp.X(enc.OracleTyped(reflect.ValueOf(v), true, nil))
		})
	}
	g.invalid()
	g.hugeDirect()
}
