import SlimProofs.IterStack
/-
  SlimProofs.IterScan — the callback loop of `ScanFrom` / `ScanFromTo` over an iterator that is
  known to yield a finite list of items and then to report exhaustion (any `View`).

  * `Stream v wv s L`  every number of `next()` calls on `s` yields `L` then `(nil, nil)`
  * `stream_nil`, `stream_cons`   one call
  * `goSpec`, `go_spec`           `scanFrom.go` with enough fuel (`|L| < fuel`) on a stream
  * `goSpec_eq`                   = `takeWhile` of the end-bound test, truncated at `stopAfter`
-/

namespace IterScan
open Scan IterStack

/-- `s` yields the items `L`, then reports exhaustion on every later call -/
def Stream (v : View) (wv : Bool) (s : IterState) (L : List (Bytes × Option Bytes)) : Prop :=
  ∀ k, iterTake v wv k s = .ok (expect k (L.map (fun y => (some y.1, y.2))))

theorem iterTake_succ_inv (v : View) (wv : Bool) (k : Nat) (s : IterState)
    (y : Option Bytes × Option Bytes) (rest : List (Option Bytes × Option Bytes))
    (h : iterTake v wv (k + 1) s = .ok (y :: rest)) :
    ∃ s', iterNext v wv s = .ok (s', y.1, y.2) ∧ iterTake v wv k s' = .ok rest := by
  simp only [iterTake, bind, Except.bind, pure, Except.pure] at h
  cases hn : iterNext v wv s with
  | error e => rw [hn] at h; cases h
  | ok x =>
    obtain ⟨s', key, val⟩ := x
    rw [hn] at h
    simp only at h
    cases ht : iterTake v wv k s' with
    | error e => rw [ht] at h; cases h
    | ok r =>
      rw [ht] at h
      simp only [Except.ok.injEq, List.cons.injEq] at h
      obtain ⟨h1, h2⟩ := h
      subst h1 h2
      exact ⟨s', rfl, ht⟩

theorem stream_nil (v : View) (wv : Bool) (s : IterState) (h : Stream v wv s []) :
    ∃ s', iterNext v wv s = .ok (s', none, none) := by
  have h1 := h 1
  simp only [List.map_nil, expect_nil, List.replicate_one] at h1
  obtain ⟨s', hs, _⟩ := iterTake_succ_inv v wv 0 s _ _ h1
  exact ⟨s', hs⟩

theorem stream_cons (v : View) (wv : Bool) (s : IterState) (y : Bytes × Option Bytes)
    (L : List (Bytes × Option Bytes)) (h : Stream v wv s (y :: L)) :
    ∃ s', iterNext v wv s = .ok (s', some y.1, y.2) ∧ Stream v wv s' L := by
  have h1 := h 1
  simp only [List.map_cons, expect_cons] at h1
  obtain ⟨s', hs, _⟩ := iterTake_succ_inv v wv 0 s _ _ h1
  refine ⟨s', hs, ?_⟩
  intro k
  have hk := h (k + 1)
  simp only [List.map_cons, expect_cons] at hk
  obtain ⟨s'', hs'', hrest⟩ := iterTake_succ_inv v wv k s _ _ hk
  rw [hs] at hs''
  cases hs''
  exact hrest

/-- what the callback loop collects from the items `L`, having seen `cnt` items before -/
def goSpec (keepFn : Bytes → Bool) (stopAfter : Option Nat) :
    List (Bytes × Option Bytes) → Nat → List (Bytes × Option Bytes)
  | [], _ => []
  | y :: L, cnt =>
    if !keepFn y.1 then [] else
    if stopAfter == some (cnt + 1) then [y] else y :: goSpec keepFn stopAfter L (cnt + 1)

theorem go_spec (v : View) (wv : Bool) (keepFn : Bytes → Bool) (stopAfter : Option Nat) :
    ∀ L fuel s cnt, Stream v wv s L → L.length < fuel →
      scanFrom.go v wv keepFn stopAfter fuel s cnt = .ok (goSpec keepFn stopAfter L cnt) := by
  intro L
  induction L with
  | nil =>
    intro fuel s cnt hs hf
    obtain ⟨fuel, rfl⟩ : ∃ f, fuel = f + 1 := ⟨fuel - 1, by simp at hf; omega⟩
    obtain ⟨s', hn⟩ := stream_nil v wv s hs
    simp only [scanFrom.go, hn, bind, Except.bind, pure, Except.pure, goSpec]
  | cons y L ih =>
    intro fuel s cnt hs hf
    obtain ⟨fuel, rfl⟩ : ∃ f, fuel = f + 1 := ⟨fuel - 1, by simp at hf; omega⟩
    obtain ⟨s', hn, hs'⟩ := stream_cons v wv s y L hs
    have hrec := ih fuel s' (cnt + 1) hs' (by simp at hf; omega)
    simp only [scanFrom.go, hn, bind, Except.bind, pure, Except.pure, goSpec]
    cases hk : keepFn y.1 with
    | false => simp
    | true =>
      simp only [Bool.not_true, Bool.false_eq_true, if_false]
      cases hst : (stopAfter == some (cnt + 1)) with
      | true => simp
      | false =>
        simp only [Bool.false_eq_true, if_false]
        rw [hrec]

/-- stop after the `N`-th item (`none` or `some 0`: never) -/
def truncate (stopAfter : Option Nat) (L : List (Bytes × Option Bytes)) :
    List (Bytes × Option Bytes) :=
  match stopAfter with
  | none => L
  | some N => if N = 0 then L else L.take N

theorem goSpec_gen (keepFn : Bytes → Bool) (stopAfter : Option Nat)
    (L : List (Bytes × Option Bytes)) (cnt : Nat) :
    goSpec keepFn stopAfter L cnt =
      match stopAfter with
      | none => L.takeWhile (fun y => keepFn y.1)
      | some N => if N ≤ cnt then L.takeWhile (fun y => keepFn y.1)
                  else (L.takeWhile (fun y => keepFn y.1)).take (N - cnt) := by
  induction L generalizing cnt with
  | nil => cases stopAfter <;> simp [goSpec]
  | cons y L ih =>
    unfold goSpec
    cases hk : keepFn y.1 with
    | false => cases stopAfter <;> simp [hk]
    | true =>
      simp only [Bool.not_true, Bool.false_eq_true, if_false]
      rw [ih (cnt + 1)]
      cases stopAfter with
      | none => simp [hk]
      | some N =>
        simp only [List.takeWhile_cons, hk, if_true]
        by_cases h1 : N = cnt + 1
        · subst h1
          simp
          omega
        · have hbeq : (some N == some (cnt + 1)) = false := by simpa using h1
          rw [hbeq]
          simp only [Bool.false_eq_true, if_false]
          by_cases h2 : N ≤ cnt
          · rw [if_pos h2, if_pos (by omega)]
          · rw [if_neg h2, if_neg (by omega)]
            have : N - cnt = (N - (cnt + 1)) + 1 := by omega
            rw [this, List.take_succ_cons]

theorem goSpec_eq (keepFn : Bytes → Bool) (stopAfter : Option Nat)
    (L : List (Bytes × Option Bytes)) :
    goSpec keepFn stopAfter L 0 = truncate stopAfter (L.takeWhile (fun y => keepFn y.1)) := by
  rw [goSpec_gen]
  unfold truncate
  cases stopAfter with
  | none => rfl
  | some N =>
    simp only [Nat.le_zero_eq, Nat.sub_zero]

end IterScan
