package trie

import (
	"fmt"

	"slimverif/harness/gen"
	"slimverif/harness/lp"
)

// build emits the trie.new line and checks the all-or-nothing outcome for a
// valid (strictly ascending) input.
func build(c *lp.Ctx, cs *Case) bool {
	line := cs.Line()
	ans := c.Do(line)
	cs.Describe(c)
	if ans != "ok" {
		c.Violate(lp.Violation{What: "valid strictly ascending input not accepted", Script: []string{line}, Expected: "ok", Got: ans})
		return false
	}
	c.Sample(line)
	return true
}

// genC01: Get / GetID on every retained key, fresh and reloaded.
func genC01(c *lp.Ctx) {
	n := c.Pick(400, 4000)
	size := c.Pick(60, 300)
	for it := 0; it < n; it++ {
		ks := gen.Any(c.Rng, size)
		cs := NewCase(c.Rng, ks, "", "")
		c.Case(cs.Key(), len(cs.Keys) >= 2)
		if !build(c, cs) {
			continue
		}
		for pass := 0; pass < 2; pass++ {
			for i, k := range cs.RKeys {
				q := lp.XS(k)
				want := cs.valAns(cs.RVals[i])
				if got := c.Do("trie.get " + q); got != want {
					c.Violate(lp.Violation{What: fmt.Sprintf("Get on retained key (pass %d)", pass), Script: []string{cs.Line(), "trie.get " + q}, Expected: want, Got: got})
				}
				if got := c.Do("trie.id " + q); got == "-1" || got == "panic" {
					c.Violate(lp.Violation{What: "GetID on retained key", Script: []string{cs.Line(), "trie.id " + q}, Expected: ">=0", Got: got})
				}
			}
			if pass == 0 {
				if c.Rng.Intn(3) != 0 {
					break
				}
				if got := c.Do("trie.reload"); got != "ok" {
					c.Violate(lp.Violation{What: "reload", Script: []string{cs.Line(), "trie.reload"}, Expected: "ok", Got: got})
					break
				}
				c.Hit("reloaded")
			}
		}
	}
}

func init() {
	lp.RegisterGen("C01", genC01)
}
