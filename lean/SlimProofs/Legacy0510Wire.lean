import SlimProofs.WireMarshal
import SlimProofs.LegacyRoundTrip
import SlimModel.LegacyWrite
import SlimProofs.InstanceLemmas
/-
  SlimProofs.Legacy0510Wire — the wire half of `load ∘ write` for 0.5.10 / 0.5.11 streams:
  the body `LegacyWrite.to0510 m` (today's fields, with the retired scalar fields 12, 13, 15
  interleaved in field-number order) decodes to `Legacy.oldMsg m (retired m)`: the retired fields
  land in `XXX_unrecognized`, in order; and the framed stream dispatches to the `v0510` branch.
-/
open Wire Frame Version Bits

namespace Wire

/-- An unknown scalar field in the middle of a Slim body goes to `XXX_unrecognized` verbatim. -/
theorem decodeSlim_unknown_varintF (acc : SlimMsg) {fno v : Nat} (hf : FnoOK fno) (hv : v < 2 ^ 64)
    (hk : slimKnown fno 0 = false) (rest : Bytes) :
    decodeMsg slimH slimU acc (encVarintF fno v ++ rest) =
      decodeMsg slimH slimU { acc with unrecognized := acc.unrecognized ++ encVarintF fno v } rest := by
  unfold encVarintF
  by_cases hz : v = 0
  · simp [hz]
  · simp only [hz, if_false]
    have hr := readField_varintF hf hv rest
    rw [← List.length_append, ← List.append_assoc] at hr
    rw [decodeMsg_step slimH slimU acc _ rest hr (by simp [tag_ne_nil]), key_div (by omega),
      slimH_unknown acc fno 0 (.varint v) hk (Or.inl ⟨rfl, v, rfl⟩)]
    rfl

end Wire

namespace Wire

/-- `m` with the two scalars replaced and unknown bytes put in front of its own -/
def fillFrom (B S : Nat) (U : Bytes) (m : SlimMsg) : SlimMsg :=
  { m with bigInnerCnt := B, shortSize := S, unrecognized := U ++ m.unrecognized }

set_option linter.unusedSimpArgs false in
set_option maxRecDepth 2000 in
/-- `decodeSlimInto_encode` from a start accumulator that already holds the two scalars and some
    unknown bytes: the message fields of `m` are filled in, its unknown bytes are appended. -/
theorem decodeSlimInto_encode_from (B S : Nat) (U : Bytes) (m : SlimMsg) (hwf : m.WF) (hnf : m.NF)
    (h11 : m.bigInnerCnt = 0) (h14 : m.shortSize = 0) (hsz : (encodeSlim m).length < 2 ^ 64) :
    decodeSlimInto { bigInnerCnt := B, shortSize := S, unrecognized := U } (encodeSlim m)
      = .ok (fillFrom B S U m) := by
  obtain ⟨b, ss, nt, inn, sb, st, ip, lp, lv, u⟩ := m
  obtain ⟨hb, hss, hst, hnt, hinn, hsb, hip, hlp, hlv⟩ := hwf
  simp only at hb hss hst hnt hinn hsb hip hlp hlv h11 h14
  subst h11 h14
  unfold SlimMsg.NF at hnf
  simp only at hnf
  unfold encodeSlim encodeSlimKnown at hsz
  simp only [List.length_append] at hsz
  have lst := encPackedF_payload_le 32 st
  unfold decodeSlimInto encodeSlim encodeSlimKnown
  have e0 : ∀ fno, encVarintF fno 0 = [] := fun fno => by simp [encVarintF]
  simp only [List.append_assoc, e0, List.nil_append]
  rw [decodeMsg_encMsgF slimH slimU { bigInnerCnt := B, shortSize := S, unrecognized := U } { bigInnerCnt := B, shortSize := S, nodeTypeBM := nt, unrecognized := U } (fno := 20) fnoOK (nt.map encodeBitmap)
    (by
      intro p hp
      cases nt with
      | none => simp at hp
      | some x =>
        simp at hp; subst hp
        have := encMsgF_payload_le 20 (encodeBitmap x)
        simp at hsz; omega) _
    (by
      intro p hp
      cases nt with
      | none => simp at hp
      | some x =>
        simp at hp; subst hp
        have hl := encMsgF_payload_le 20 (encodeBitmap x)
        have : (encodeBitmap x).length < 2 ^ 64 := by simp at hsz; omega
        simp [slimH, msgF_bitmap x (hnt x rfl) this])
    (fun h0 => by cases nt <;> simp at h0; rfl)]
  rw [decodeMsg_encMsgF slimH slimU { bigInnerCnt := B, shortSize := S, nodeTypeBM := nt, unrecognized := U } { bigInnerCnt := B, shortSize := S, nodeTypeBM := nt, inners := inn, unrecognized := U } (fno := 30) fnoOK (inn.map encodeBitmap)
    (by
      intro p hp
      cases inn with
      | none => simp at hp
      | some x =>
        simp at hp; subst hp
        have := encMsgF_payload_le 30 (encodeBitmap x)
        simp at hsz; omega) _
    (by
      intro p hp
      cases inn with
      | none => simp at hp
      | some x =>
        simp at hp; subst hp
        have hl := encMsgF_payload_le 30 (encodeBitmap x)
        have : (encodeBitmap x).length < 2 ^ 64 := by simp at hsz; omega
        simp [slimH, msgF_bitmap x (hinn x rfl) this])
    (fun h0 => by cases inn <;> simp at h0; rfl)]
  rw [decodeMsg_encMsgF slimH slimU { bigInnerCnt := B, shortSize := S, nodeTypeBM := nt, inners := inn, unrecognized := U } { bigInnerCnt := B, shortSize := S, nodeTypeBM := nt, inners := inn, shortBM := sb, unrecognized := U } (fno := 31) fnoOK (sb.map encodeBitmap)
    (by
      intro p hp
      cases sb with
      | none => simp at hp
      | some x =>
        simp at hp; subst hp
        have := encMsgF_payload_le 31 (encodeBitmap x)
        simp at hsz; omega) _
    (by
      intro p hp
      cases sb with
      | none => simp at hp
      | some x =>
        simp at hp; subst hp
        have hl := encMsgF_payload_le 31 (encodeBitmap x)
        have : (encodeBitmap x).length < 2 ^ 64 := by simp at hsz; omega
        simp [slimH, msgF_bitmap x (hsb x rfl) this])
    (fun h0 => by cases sb <;> simp at h0; rfl)]
  rw [decodeMsg_encPackedF slimH slimU { bigInnerCnt := B, shortSize := S, nodeTypeBM := nt, inners := inn, shortBM := sb, unrecognized := U } { bigInnerCnt := B, shortSize := S, nodeTypeBM := nt, inners := inn, shortBM := sb, shortTable := st, unrecognized := U } (fno := 32) fnoOK st (by omega) _
    (fun _ => by simp [slimH, repU32_packed st hst]) (fun h0 => by subst h0; rfl)]
  rw [decodeMsg_encMsgF slimH slimU { bigInnerCnt := B, shortSize := S, nodeTypeBM := nt, inners := inn, shortBM := sb, shortTable := st, unrecognized := U } { bigInnerCnt := B, shortSize := S, nodeTypeBM := nt, inners := inn, shortBM := sb, shortTable := st, innerPrefixes := ip, unrecognized := U } (fno := 38) fnoOK (ip.map encodeVLenArray)
    (by
      intro p hp
      cases ip with
      | none => simp at hp
      | some x =>
        simp at hp; subst hp
        have := encMsgF_payload_le 38 (encodeVLenArray x)
        simp at hsz; omega) _
    (by
      intro p hp
      cases ip with
      | none => simp at hp
      | some x =>
        simp at hp; subst hp
        have hl := encMsgF_payload_le 38 (encodeVLenArray x)
        have : (encodeVLenArray x).length < 2 ^ 64 := by simp at hsz; omega
        simp [slimH, msgF_vlen x (hip x rfl) this])
    (fun h0 => by cases ip <;> simp at h0; rfl)]
  rw [decodeMsg_encMsgF slimH slimU { bigInnerCnt := B, shortSize := S, nodeTypeBM := nt, inners := inn, shortBM := sb, shortTable := st, innerPrefixes := ip, unrecognized := U } { bigInnerCnt := B, shortSize := S, nodeTypeBM := nt, inners := inn, shortBM := sb, shortTable := st, innerPrefixes := ip, leafPrefixes := lp, unrecognized := U } (fno := 58) fnoOK (lp.map encodeVLenArray)
    (by
      intro p hp
      cases lp with
      | none => simp at hp
      | some x =>
        simp at hp; subst hp
        have := encMsgF_payload_le 58 (encodeVLenArray x)
        simp at hsz; omega) _
    (by
      intro p hp
      cases lp with
      | none => simp at hp
      | some x =>
        simp at hp; subst hp
        have hl := encMsgF_payload_le 58 (encodeVLenArray x)
        have : (encodeVLenArray x).length < 2 ^ 64 := by simp at hsz; omega
        simp [slimH, msgF_vlen x (hlp x rfl) this])
    (fun h0 => by cases lp <;> simp at h0; rfl)]
  rw [decodeMsg_encMsgF slimH slimU { bigInnerCnt := B, shortSize := S, nodeTypeBM := nt, inners := inn, shortBM := sb, shortTable := st, innerPrefixes := ip, leafPrefixes := lp, unrecognized := U } { bigInnerCnt := B, shortSize := S, nodeTypeBM := nt, inners := inn, shortBM := sb, shortTable := st, innerPrefixes := ip, leafPrefixes := lp, leaves := lv, unrecognized := U } (fno := 60) fnoOK (lv.map encodeVLenArray)
    (by
      intro p hp
      cases lv with
      | none => simp at hp
      | some x =>
        simp at hp; subst hp
        have := encMsgF_payload_le 60 (encodeVLenArray x)
        simp at hsz; omega) _
    (by
      intro p hp
      cases lv with
      | none => simp at hp
      | some x =>
        simp at hp; subst hp
        have hl := encMsgF_payload_le 60 (encodeVLenArray x)
        have : (encodeVLenArray x).length < 2 ^ 64 := by simp at hsz; omega
        simp [slimH, msgF_vlen x (hlv x rfl) this])
    (fun h0 => by cases lv <;> simp at h0; rfl)]
  have := decodeSlimInto_unknown { bigInnerCnt := B, shortSize := S, nodeTypeBM := nt, inners := inn, shortBM := sb, shortTable := st, innerPrefixes := ip, leafPrefixes := lp, leaves := lv, unrecognized := U } u hnf
  unfold decodeSlimInto at this
  rw [this]
  rfl

end Wire

namespace LegacyWrite
open Legacy

/-- the retired fields 12 (`BigInnerOffset`), 13 (`ShortMinusInner`) and 15 (`ShortMask`) exactly as
    `to0510` writes them -/
def retired (cur : SlimMsg) : Bytes :=
  encVarintF 12 ((Slim.bigInnerSize - Slim.innerSize) * cur.bigInnerCnt) ++
  (encVarintF 13 (int32Varint ((cur.shortSize : Int) - Slim.innerSize)) ++
   encVarintF 15 (2 ^ cur.shortSize - 1))

/-- the part of `to0510 cur` after the five scalars -/
def rest0510 (cur : SlimMsg) : SlimMsg :=
  { cur with bigInnerCnt := 0, shortSize := 0
             innerPrefixes := cur.innerPrefixes.map oldInnerPrefixes
             leafPrefixes := cur.leafPrefixes.map oldLeafPrefixes
             leaves := cur.leaves.map (fun lv => { bytes := lv.bytes }) }

theorem to0510_eq (cur : SlimMsg)
    (h : (cur.nodeTypeBM.isNone && cur.inners.isNone && cur.leaves.isNone) = false) :
    to0510 cur =
      encVarintF 11 cur.bigInnerCnt ++
      (encVarintF 12 ((Slim.bigInnerSize - Slim.innerSize) * cur.bigInnerCnt) ++
      (encVarintF 13 (int32Varint ((cur.shortSize : Int) - Slim.innerSize)) ++
      (encVarintF 14 cur.shortSize ++
      (encVarintF 15 (2 ^ cur.shortSize - 1) ++ encodeSlim (rest0510 cur))))) := by
  unfold to0510 rest0510
  rw [h]
  rfl

theorem wordIndexSelect_WF (b : BitmapMsg) (h : b.WF) : (wordIndexSelect b).WF := by
  obtain ⟨h1, h2, h3⟩ := h
  refine ⟨h1, h2, ?_⟩
  intro r hr
  simp only [wordIndexSelect, List.mem_map] at hr
  obtain ⟨x, hx, rfl⟩ := hr
  have := h3 x hx
  omega

theorem oldInnerPrefixes_WF (v : VLenArrayMsg) (h : v.WF) : (oldInnerPrefixes v).WF := by
  obtain ⟨h1, h2, h3, h4, h5⟩ := h
  unfold oldInnerPrefixes
  cases hp : v.positionBM with
  | none => exact ⟨h1, h2, h3, h4, h5⟩
  | some pbm =>
    refine ⟨h1, h2, h3, ?_, h5⟩
    intro b hb
    simp only [Option.some.injEq] at hb
    subst hb
    exact wordIndexSelect_WF pbm (h4 pbm hp)

theorem oldLeafPrefixes_WF (v : VLenArrayMsg) (h : v.WF) : (oldLeafPrefixes v).WF := by
  obtain ⟨h1, h2, h3, h4, h5⟩ := h
  refine ⟨h1, h2, h3, ?_, h5⟩
  intro b hb
  simp only [oldLeafPrefixes, Option.map_eq_some_iff] at hb
  obtain ⟨p, hp, rfl⟩ := hb
  exact wordIndexSelect_WF p (h4 p hp)

theorem bareLeaves_WF (bs : Bytes) : ({ bytes := bs } : VLenArrayMsg).WF := by
  refine ⟨by simp, by simp, by simp, ?_, ?_⟩ <;> intro b hb <;> simp at hb

theorem rest0510_WF (cur : SlimMsg) (h : cur.WF) : (rest0510 cur).WF := by
  obtain ⟨_, _, h3, h4, h5, h6, h7, h8, h9⟩ := h
  refine ⟨by simp [rest0510], by simp [rest0510], h3, h4, h5, h6, ?_, ?_, ?_⟩
  · intro v hv
    simp only [rest0510, Option.map_eq_some_iff] at hv
    obtain ⟨x, hx, rfl⟩ := hv
    exact oldInnerPrefixes_WF x (h7 x hx)
  · intro v hv
    simp only [rest0510, Option.map_eq_some_iff] at hv
    obtain ⟨x, hx, rfl⟩ := hv
    exact oldLeafPrefixes_WF x (h8 x hx)
  · intro v hv
    simp only [rest0510, Option.map_eq_some_iff] at hv
    obtain ⟨x, _, rfl⟩ := hv
    exact bareLeaves_WF _

theorem oldMsg_WF (cur : SlimMsg) (u : Bytes) (h : cur.WF) : (oldMsg cur u).WF := by
  have hr := rest0510_WF cur h
  obtain ⟨h1, h2, _⟩ := h
  obtain ⟨_, _, r3, r4, r5, r6, r7, r8, r9⟩ := hr
  exact ⟨h1, h2, r3, r4, r5, r6, r7, r8, r9⟩

theorem int32Varint_lt (x : Int) (h1 : -(2 ^ 63 : Int) ≤ x) (h2 : x < 2 ^ 63) : int32Varint x < 2 ^ 64 := by
  unfold int32Varint
  split
  · next hneg =>
    have : 0 < x.natAbs := by omega
    omega
  · omega

/-- **The wire round trip of a 0.5.10 / 0.5.11 body.**  For every well-formed message `cur` without
    unknown bytes whose `ShortSize` is a bit count (≤ 64) — in particular every message of the
    builder — the body the old writer derives from it decodes to `oldMsg cur (retired cur)`: the
    known fields as written, the retired fields in `XXX_unrecognized`, in order. -/
theorem decodeSlim_to0510 (cur : SlimMsg) (hwf : cur.WF) (hu : cur.unrecognized = [])
    (hss : cur.shortSize ≤ 64)
    (hne : (cur.nodeTypeBM.isNone && cur.inners.isNone && cur.leaves.isNone) = false)
    (hsz : (to0510 cur).length < 2 ^ 64) :
    decodeSlim (to0510 cur) = .ok (oldMsg cur (retired cur)) := by
  have hB := hwf.1
  have hS := hwf.2.1
  rw [to0510_eq cur hne] at hsz ⊢
  simp only [List.length_append] at hsz
  have hrest : (encodeSlim (rest0510 cur)).length < 2 ^ 64 := by omega
  have hnf : (rest0510 cur).NF := by
    unfold SlimMsg.NF
    have : (rest0510 cur).unrecognized = [] := hu
    rw [this, unknownOnly]
  have h12 : (Slim.bigInnerSize - Slim.innerSize) * cur.bigInnerCnt < 2 ^ 64 := by
    simp only [Slim.bigInnerSize, Slim.innerSize]; omega
  have h13 : int32Varint ((cur.shortSize : Int) - Slim.innerSize) < 2 ^ 64 := by
    apply int32Varint_lt <;> simp only [Slim.innerSize] <;> omega
  have h15 : 2 ^ cur.shortSize - 1 < 2 ^ 64 := by
    have : 2 ^ cur.shortSize ≤ 2 ^ 64 := Nat.pow_le_pow_right (by omega) hss
    omega
  unfold decodeSlim decodeSlimInto
  -- field 11
  rw [decodeMsg_encVarintF slimH slimU {} { bigInnerCnt := cur.bigInnerCnt } (fno := 11) fnoOK (by omega) _
    (fun _ => by simp [slimH, scalarI32, toInt32_id hB]) (fun h0 => by rw [h0])]
  -- field 12
  rw [decodeSlim_unknown_varintF _ (fno := 12) fnoOK h12 (by decide)]
  -- field 13
  rw [decodeSlim_unknown_varintF _ (fno := 13) fnoOK h13 (by decide)]
  -- field 14
  rw [decodeMsg_encVarintF slimH slimU _
    { bigInnerCnt := cur.bigInnerCnt, shortSize := cur.shortSize,
      unrecognized := encVarintF 12 ((Slim.bigInnerSize - Slim.innerSize) * cur.bigInnerCnt) ++
        encVarintF 13 (int32Varint ((cur.shortSize : Int) - Slim.innerSize)) }
    (fno := 14) fnoOK (by omega) _
    (fun _ => by simp [slimH, scalarI32, toInt32_id hS]) (fun h0 => by simp [h0])]
  -- field 15
  rw [decodeSlim_unknown_varintF _ (fno := 15) fnoOK h15 (by decide)]
  -- the rest
  have hfrom := decodeSlimInto_encode_from cur.bigInnerCnt cur.shortSize
    (encVarintF 12 ((Slim.bigInnerSize - Slim.innerSize) * cur.bigInnerCnt) ++
        encVarintF 13 (int32Varint ((cur.shortSize : Int) - Slim.innerSize)) ++
        encVarintF 15 (2 ^ cur.shortSize - 1))
    (rest0510 cur) (rest0510_WF cur hwf) hnf rfl rfl hrest
  have hl : decodeMsg slimH slimU
      { bigInnerCnt := cur.bigInnerCnt, shortSize := cur.shortSize,
        unrecognized := encVarintF 12 ((Slim.bigInnerSize - Slim.innerSize) * cur.bigInnerCnt) ++
          encVarintF 13 (int32Varint ((cur.shortSize : Int) - Slim.innerSize)) ++
          encVarintF 15 (2 ^ cur.shortSize - 1) }
      (encodeSlim (rest0510 cur)) = _ := hfrom
  rw [hl]
  have hres : fillFrom cur.bigInnerCnt cur.shortSize
      (encVarintF 12 ((Slim.bigInnerSize - Slim.innerSize) * cur.bigInnerCnt) ++
          encVarintF 13 (int32Varint ((cur.shortSize : Int) - Slim.innerSize)) ++
          encVarintF 15 (2 ^ cur.shortSize - 1)) (rest0510 cur)
      = oldMsg cur (retired cur) := by
    have : (rest0510 cur).unrecognized = [] := hu
    simp [fillFrom, hu, oldMsg, rest0510, retired]
  rw [hres, checkI32_ok _ _ (slimI32OK_of_WF _ (oldMsg_WF cur _ hwf))]

end LegacyWrite

/-! ### the framed stream -/

namespace Wire
open Legacy

/-- One frame whose version takes the current-schema branch of `Unmarshal`. -/
theorem unmarshal_frame_slim (v : String) (hv : VersionOK v) (hc : isCompatible v = true)
    (hl : isCurrentLayout v = true) (body : Bytes) (hb : BodyOK body) (rest : Bytes) :
    unmarshalDispatch (frame v body ++ rest) =
      match decodeSlim body with
      | .error e => .error e
      | .ok m => if before000512 v then .ok (.v0510 v m) else .ok (.current m) := by
  have hsz : body.length < 2 ^ 64 := by unfold BodyOK maxAlloc at hb; omega
  have hh : readHeader (frame v body ++ rest) = .ok (⟨v, 32, body.length⟩, body ++ rest) := by
    unfold frame
    rw [List.append_assoc]
    exact readHeader_header v hv _ hsz _
  have hm := readMsg_frame decodeSlim v hv body hb rest
  unfold unmarshalDispatch
  rw [hh]
  simp only [hc, hl]
  rw [hm]
  cases decodeSlim body <;> rfl

theorem version_0510 : VersionOK "0.5.10" ∧ isCompatible "0.5.10" = true ∧ isCurrentLayout "0.5.10" = true ∧
    before000512 "0.5.10" = true := by decide

theorem version_0511 : VersionOK "0.5.11" ∧ isCompatible "0.5.11" = true ∧ isCurrentLayout "0.5.11" = true ∧
    before000512 "0.5.11" = true := by decide

/-- `initLevels` reads `NodeTypeBM`, `Inners`, `ShortBM`, `BigInnerCnt` and `ShortSize` only. -/
theorem ithInnerFrom_congr (s s' : SlimMsg) (h3 : s.shortBM = s'.shortBM)
    (h4 : s.bigInnerCnt = s'.bigInnerCnt) (h5 : s.shortSize = s'.shortSize) (ith : Nat) :
    Slim.ithInnerFrom s ith = Slim.ithInnerFrom s' ith := by
  unfold Slim.ithInnerFrom
  rw [h3, h4, h5]

theorem initLevels_walk_congr (s s' : SlimMsg) (h2 : s.inners = s'.inners) (h3 : s.shortBM = s'.shortBM)
    (h4 : s.bigInnerCnt = s'.bigInnerCnt) (h5 : s.shortSize = s'.shortSize) (nt : BitmapMsg)
    (totalInner : Nat) : ∀ (fuel currId : Nat) (acc : List Slim.Level),
    Slim.initLevels.walk s nt totalInner fuel currId acc = Slim.initLevels.walk s' nt totalInner fuel currId acc := by
  intro fuel
  induction fuel with
  | zero => intro _ _; rfl
  | succ fuel ih =>
    intro currId acc
    unfold Slim.initLevels.walk
    simp only [ithInnerFrom_congr s s' h3 h4 h5, h2, ih]

theorem initLevels_congr (s s' : SlimMsg) (h1 : s.nodeTypeBM = s'.nodeTypeBM) (h2 : s.inners = s'.inners)
    (h3 : s.shortBM = s'.shortBM) (h4 : s.bigInnerCnt = s'.bigInnerCnt) (h5 : s.shortSize = s'.shortSize) :
    Slim.initLevels s = Slim.initLevels s' := by
  unfold Slim.initLevels
  rw [h1]
  cases s'.nodeTypeBM with
  | none => rfl
  | some nt =>
    simp only [h2, initLevels_walk_congr s s' h2 h3 h4 h5]

theorem initLevels_wordSelectMsg (m : SlimMsg) (u : Bytes) :
    Slim.initLevels (wordSelectMsg m u) = Slim.initLevels m :=
  initLevels_congr _ _ rfl rfl rfl rfl rfl

end Wire

/-! ### from a built trie -/

namespace LegacyWrite
open Legacy Refine

/-- the stored prefixes of a well-shaped trie are half-bytes -/
theorem storedOf_lt {t : Trie1} (hs : ShapeOK t) : ∀ ns ∈ Legacy.storedOf t, ∀ n ∈ ns, n < 16 := by
  intro ns hns n hn
  unfold Legacy.storedOf at hns
  obtain ⟨r, hr, hpref⟩ := List.mem_filterMap.mp hns
  obtain ⟨m, hm⟩ := List.mem_iff_getElem?.mp hr
  obtain ⟨j, hj, _⟩ := inner_at t m r hm
  have hp := hs.pref j r hj
  cases hrp : r.pref with
  | none => rw [hrp] at hpref; cases hpref
  | step k => rw [hrp] at hpref; cases hpref
  | stored ns' =>
    rw [hrp] at hpref hp
    simp only [Option.some.injEq] at hpref
    subst hpref
    exact hp.2.2 n hn

theorem encodeCreator_inners_isSome (t : Trie1) :
    ((Slim.encodeCreator t).nodeTypeBM.isNone && (Slim.encodeCreator t).inners.isNone &&
      (Slim.encodeCreator t).leaves.isNone) = false := by
  rw [enc_inners]; simp

/-- the wire round trip for the message of a well-shaped trie within the int32 limits -/
theorem decodeSlim_to0510_encodeCreator {t : Trie1} (hs : ShapeOK t) (hsm : Small t)
    (hbody : BodyOK (to0510 (Slim.encodeCreator t))) :
    decodeSlim (to0510 (Slim.encodeCreator t))
      = .ok (oldMsg (Slim.encodeCreator t) (retired (Slim.encodeCreator t))) := by
  apply decodeSlim_to0510 _ (encodeCreator_WF hs hsm) rfl
  · rw [enc_shortSize]; have := eShortSize_le t; omega
  · exact encodeCreator_inners_isSome t
  · unfold BodyOK maxAlloc at hbody; omega

end LegacyWrite
