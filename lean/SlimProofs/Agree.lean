import SlimProofs.Descent
/-
  SlimProofs.Agree — the two descents of trie/slimtrie_query.go, `GetID` and `searchID`, walk the
  same node sequence: a lock-step simulation between `getIDLoop` and `searchLoop` for an
  ARBITRARY `View` (no well-formedness), and the comparison of the two epilogues
  (the `LeafPrefixes != nil` checks of `GetID` against `cmpLeafPrefix` in `searchID`).

  Results
  * `Agree.searchLoop_sim`        the simulation (same errors, same break points, same state)
  * `Agree.searchID_of_getID_some`  any view: a `GetID` hit is the exact-match id of `searchID`
  * `Agree.searchID_eq_getID_of`  full agreement of the exact-match id under two explicit side
                                  conditions (`NoEmptyLeafPrefix`, `NoOverrun`)
  * `Agree.cex1_*`, `Agree.cex2_*`  concrete views showing that each side condition is needed:
                                  without it `GetID` misses while `searchID` hits
  * `Agree.noEmptyLeafPrefix_of_WF`, `Agree.noOverrun_of_WF`  both side conditions hold for every
                                  well-formed trie and every query key
-/

namespace Agree
open Descent

/-! ### comparison lemmas -/

theorem map_toNat_injective (a b : Bytes) (h : a.map UInt8.toNat = b.map UInt8.toNat) : a = b := by
  induction a generalizing b with
  | nil => cases b with
    | nil => rfl
    | cons y ys => simp at h
  | cons x xs ih =>
    cases b with
    | nil => simp at h
    | cons y ys =>
      simp only [List.map_cons, List.cons.injEq] at h
      rw [UInt8.toNat_inj.mp h.1, ih ys h.2]

theorem cmpBytes_eq_iff (a b : Bytes) : cmpBytes a b = .eq ↔ a = b := by
  unfold cmpBytes
  rw [lexCmp_eq_iff]
  exact ⟨map_toNat_injective a b, fun h => by rw [h]⟩

theorem cmpBytes_nil_left (b : Bytes) : cmpBytes [] b = .eq ∨ cmpBytes [] b = .lt := by
  cases b <;> simp [cmpBytes, lexCmp]

theorem cmpBytes_nil_right (a : Bytes) (h : a ≠ []) : cmpBytes a [] = .gt := by
  cases a with
  | nil => exact absurd rfl h
  | cons x xs => simp [cmpBytes, lexCmp]

/-- a matching stored prefix is no longer than what is left of the key -/
theorem cmpUpto_eq_length (a p : List Nat) (h : cmpUpto a p = .eq) : p.length ≤ a.length := by
  unfold cmpUpto at h
  rw [lexCmp_eq_iff] at h
  have := congrArg List.length h
  simp only [List.length_take] at this
  omega

/-! ### one iteration of the loop of `searchID`, factored like `Descent.idStep` / `idBranch` -/

/-- first half of an iteration on an inner node: `inl` = break with that state, `inr i` = go on
    at branching position `i` -/
def srStep (pref : Pref) (kn : List Nat) (st : SearchSt) (eqID : Nat) :
    Except Err (Sum SearchSt Nat) :=
  let l := kn.length
  let i := st.i
  match pref with
  | .stored p =>
    if i / 2 > l / 2 then .error (.panic "slice bounds out of range: key[i>>3:]") else
    match cmpUpto (kn.drop (i - i % 2)) p with
    | .eq => .ok (.inr (i - i % 2 + p.length))
    | .lt => .ok (.inl { st with rID := some eqID, eqID := none })
    | .gt => .ok (.inl { st with lID := some eqID, eqID := none })
  | .step n =>
    if i + n > l then .ok (.inl { st with rID := some eqID, eqID := none, i := i + n })
    else .ok (.inr (i + n))
  | .none => if i > l then .ok (.inl { st with rID := some eqID, eqID := none }) else .ok (.inr i)

/-- second half: the branch at position `i` -/
def srBranch (v : View) (kn : List Nat) (fuel : Nat) (r : InnerRec) (st : SearchSt) (i : Nat) :
    Except Err SearchSt :=
  let l := kn.length
  let (leftChild, has) := leftChildID r (labelIdxOfKey kn i r.big)
  let chID : Int := leftChild + (if has then 1 else 0)
  let rightChild : Int := chID + 1
  let leftMostChild : Int := r.firstChild
  let rightMostChild : Int := (r.firstChild : Int) + r.labels.length - 1
  let st := { st with i := i }
  let st := if leftChild ≥ leftMostChild ∧ leftChild ≤ rightMostChild
            then { st with lID := some leftChild.toNat } else st
  let st := if rightChild ≥ leftMostChild ∧ rightChild ≤ rightMostChild
            then { st with rID := some rightChild.toNat } else st
  if !has then .ok { st with eqID := none } else
  if i = l then .ok { st with eqID := some chID.toNat } else
  searchLoop v kn fuel { st with i := i + wordSize r.big } chID.toNat

theorem searchLoop_succ (v : View) (kn : List Nat) (fuel : Nat) (st : SearchSt) (eqID : Nat) :
    searchLoop v kn (fuel + 1) st eqID = (do
      match ← v.node eqID with
      | .leaf _ lp => return { st with eqID := some eqID, lp := lp }
      | .inner r =>
        match ← srStep r.pref kn st eqID with
        | .inl fin => return fin
        | .inr i => srBranch v kn fuel r st i) := by
  rfl

theorem getIDLoop_succ (v : View) (kn : List Nat) (fuel j pos : Nat) :
    getIDLoop v kn (fuel + 1) j pos = (do
      match ← v.node j with
      | .leaf _ lp => return some { id := j, i := pos, lp := lp }
      | .inner r =>
        match ← idStep r.pref kn pos with
        | none => return none
        | some i => idBranch v kn fuel r i) := by
  rfl

/-! ### the simulation -/


/-- relation between the two first halves -/
theorem step_rel (pref : Pref) (kn : List Nat) (st : SearchSt) (eqID : Nat) :
    match idStep pref kn st.i with
    | .error e => srStep pref kn st eqID = .error e
    | .ok none => ∃ fin, srStep pref kn st eqID = .ok (.inl fin) ∧ fin.eqID = none
    | .ok (some i) =>
      if i > kn.length then ∃ fin, srStep pref kn st eqID = .ok (.inl fin) ∧ fin.eqID = none
      else srStep pref kn st eqID = .ok (.inr i) := by
  cases pref with
  | none =>
    simp only [idStep, srStep]
    split <;> simp
  | step n =>
    simp only [idStep, srStep]
    split <;> simp
  | stored p =>
    simp only [idStep, srStep]
    by_cases h1 : st.i / 2 > kn.length / 2
    · simp [h1]
    · simp only [h1, if_false]
      cases hc : cmpUpto (List.drop (st.i - st.i % 2) kn) p with
      | lt => simp
      | gt => simp
      | eq =>
        have := cmpUpto_eq_length _ _ hc
        simp only [List.length_drop] at this
        have h2 : ¬ (st.i - st.i % 2 + p.length > kn.length) := by omega
        simp [h2]


/-- what the result of `getIDLoop` says about the result of `searchLoop` -/
def Rel (a : Except Err (Option Reached)) (b : Except Err SearchSt) : Prop :=
  match a with
  | .error e => b = .error e
  | .ok none => ∃ s, b = .ok s ∧ s.eqID = none
  | .ok (some r) => ∃ s, b = .ok s ∧ s.eqID = some r.id ∧ s.i = r.i ∧ s.lp = r.lp

/-- the state of `searchID` after the `lID` / `rID` updates of one branch step -/
def srSt (r : InnerRec) (st : SearchSt) (i : Nat) (leftChild : Int) (has : Bool) : SearchSt :=
  let chID : Int := leftChild + (if has then 1 else 0)
  let rightChild : Int := chID + 1
  let leftMostChild : Int := r.firstChild
  let rightMostChild : Int := (r.firstChild : Int) + r.labels.length - 1
  let st := { st with i := i }
  let st := if leftChild ≥ leftMostChild ∧ leftChild ≤ rightMostChild
            then { st with lID := some leftChild.toNat } else st
  let st := if rightChild ≥ leftMostChild ∧ rightChild ≤ rightMostChild
            then { st with rID := some rightChild.toNat } else st
  st

theorem srSt_i (r : InnerRec) (st : SearchSt) (i : Nat) (lc : Int) (has : Bool) :
    (srSt r st i lc has).i = i := by
  simp [srSt, apply_ite SearchSt.i]

theorem srSt_lp (r : InnerRec) (st : SearchSt) (i : Nat) (lc : Int) (has : Bool) :
    (srSt r st i lc has).lp = st.lp := by
  simp [srSt, apply_ite SearchSt.lp]

theorem srBranch_eq (v : View) (kn : List Nat) (fuel : Nat) (r : InnerRec) (st : SearchSt)
    (i : Nat) :
    srBranch v kn fuel r st i =
      let lc := leftChildID r (labelIdxOfKey kn i r.big)
      if !lc.2 then .ok { srSt r st i lc.1 lc.2 with eqID := none } else
      if i = kn.length then
        .ok { srSt r st i lc.1 lc.2 with eqID := some (lc.1 + (if lc.2 then 1 else 0)).toNat } else
      searchLoop v kn fuel { srSt r st i lc.1 lc.2 with i := i + wordSize r.big }
        (lc.1 + (if lc.2 then 1 else 0)).toNat := by
  rfl

theorem branch_rel (v : View) (kn : List Nat) (fuel : Nat) (r : InnerRec) (st : SearchSt) (i : Nat)
    (hi : ¬ i > kn.length) (hlp : st.lp = none)
    (ih : ∀ st' eqID', st'.lp = none →
      Rel (getIDLoop v kn fuel eqID' st'.i) (searchLoop v kn fuel st' eqID')) :
    Rel (idBranch v kn fuel r i) (srBranch v kn fuel r st i) := by
  rw [srBranch_eq]
  unfold idBranch
  simp only [hi, if_false]
  cases hh : (leftChildID r (labelIdxOfKey kn i r.big)).2 with
  | false =>
    simp [Rel]
  | true =>
    simp only [Bool.not_true, Bool.false_eq_true, if_false, if_true]
    by_cases hil : i = kn.length
    · simp only [hil, if_true, Rel]
      exact ⟨_, rfl, rfl, srSt_i .., (srSt_lp ..).trans hlp⟩
    · simp only [hil, if_false]
      exact ih { srSt r st i _ true with i := i + wordSize r.big } _ ((srSt_lp ..).trans hlp)


/-- **Simulation.**  With the same fuel, from the same node and position, `searchLoop` fails
    exactly when `getIDLoop` fails (with the same error), ends with `eqID = -1` when `getIDLoop`
    returns -1, and otherwise ends in the same node, position and leaf prefix. -/
theorem searchLoop_sim (v : View) (kn : List Nat) :
    ∀ fuel st eqID, st.lp = none →
      Rel (getIDLoop v kn fuel eqID st.i) (searchLoop v kn fuel st eqID) := by
  intro fuel
  induction fuel with
  | zero => intro st eqID _; simp [getIDLoop, searchLoop, Rel]
  | succ fuel ih =>
    intro st eqID hlp
    rw [getIDLoop_succ, searchLoop_succ]
    cases hn : v.node eqID with
    | error e => simp [Rel, bind, Except.bind]
    | ok n =>
      cases n with
      | leaf ith lp => simp [Rel, bind, Except.bind, pure, Except.pure]
      | inner r =>
        simp only [bind, Except.bind]
        have hs := step_rel r.pref kn st eqID
        cases hid : idStep r.pref kn st.i with
        | error e =>
          rw [hid] at hs; simp only at hs; rw [hs]; simp [Rel]
        | ok o =>
          cases o with
          | none =>
            rw [hid] at hs; obtain ⟨fin, hfin, he⟩ := hs
            rw [hfin]; simpa [Rel, pure, Except.pure] using he
          | some i =>
            rw [hid] at hs; simp only at hs
            by_cases hi : i > kn.length
            · rw [if_pos hi] at hs; obtain ⟨fin, hfin, he⟩ := hs
              rw [hfin]; simpa [Rel, pure, Except.pure, idBranch, hi] using he
            · rw [if_neg hi] at hs; rw [hs]
              exact branch_rel v kn fuel r st i hi hlp ih


/-! ### the epilogues -/


/-- the epilogue of `GetID` (the `LeafPrefixes != nil` checks) -/
def idEpi (v : View) (key : Bytes) (r : Reached) : Except Err (Option Nat) :=
  if v.leafPrefixesOn then
    if r.i = (nibs key).length then
      .ok (if r.lp.isSome then none else some r.id)
    else
      match r.lp with
      | none => .ok none
      | some lp =>
        if r.i / 2 > (nibs key).length / 2 then
          .error (.panic "slice bounds out of range: key[i>>3:]")
        else .ok (if lp == key.drop (r.i / 2) then some r.id else none)
  else .ok (some r.id)

theorem getID_eq (v : View) (key : Bytes) :
    getID v key =
      if v.isEmpty then .ok none else
      match getIDLoop v (nibs key) (v.nodeCnt + 1) 0 0 with
      | .error e => .error e
      | .ok none => .ok none
      | .ok (some r) => idEpi v key r := by
  unfold getID
  by_cases he : v.isEmpty = true
  · simp [he, pure, Except.pure]
  · simp only [he, bind, Except.bind]
    cases getIDLoop v (nibs key) (v.nodeCnt + 1) 0 0 with
    | error e => rfl
    | ok o =>
      cases o with
      | none => rfl
      | some r => rfl

/-- the leaf-prefix comparison after the loop of `searchID` -/
def srEpi (v : View) (key : Bytes) (st : SearchSt) : SearchSt :=
  match st.eqID with
  | none => st
  | some eq =>
    if st.i ≤ (nibs key).length then
      match cmpLeafPrefix v (key.drop (st.i / 2)) st.lp with
      | .lt => { st with rID := some eq, eqID := none }
      | .gt => { st with lID := some eq, eqID := none }
      | .eq => st
    else st

/-- the tail of `searchID`: `rightMost` / `leftMost` of the neighbours -/
def srTail (v : View) (st : SearchSt) : Except Err (Option Nat × Option Nat × Option Nat) := do
  let lID ← match st.lID with
    | none => pure none
    | some id => do pure (some (← rightMost v (v.nodeCnt + 1) id))
  let rID ← match st.rID with
    | none => pure none
    | some id => do pure (some (← leftMost v (v.nodeCnt + 1) id))
  return (lID, st.eqID, rID)

theorem searchID_eq (v : View) (key : Bytes) :
    searchID v key =
      if v.isEmpty then .ok (none, none, none) else
      match searchLoop v (nibs key) (v.nodeCnt + 1) {} 0 with
      | .error e => .error e
      | .ok st => srTail v (srEpi v key st) := by
  unfold searchID
  by_cases he : v.isEmpty = true
  · simp [he, pure, Except.pure]
  · simp only [he, bind, Except.bind]
    cases searchLoop v (nibs key) (v.nodeCnt + 1) {} 0 with
    | error e => rfl
    | ok st => rfl

theorem srTail_mid (v : View) (st : SearchSt) (b : Option Nat × Option Nat × Option Nat)
    (h : srTail v st = .ok b) : b.2.1 = st.eqID := by
  unfold srTail at h
  simp only [bind, Except.bind, pure, Except.pure] at h
  repeat' split at h
  all_goals (cases h; try rfl)

/-- the exact-match component of `searchID` is `eqID` after the leaf-prefix comparison -/
theorem searchID_mid (v : View) (key : Bytes) (b : Option Nat × Option Nat × Option Nat)
    (he : v.isEmpty = false) (h : searchID v key = .ok b) :
    ∃ st, searchLoop v (nibs key) (v.nodeCnt + 1) {} 0 = .ok st ∧ b.2.1 = (srEpi v key st).eqID := by
  rw [searchID_eq] at h
  simp only [he, Bool.false_eq_true, if_false] at h
  cases hl : searchLoop v (nibs key) (v.nodeCnt + 1) {} 0 with
  | error e => rw [hl] at h; cases h
  | ok st =>
    rw [hl] at h
    exact ⟨st, rfl, srTail_mid v _ b h⟩


theorem epi_none (v : View) (key : Bytes) (s : SearchSt) (h : s.eqID = none) :
    (srEpi v key s).eqID = none := by
  unfold srEpi; rw [h]; exact h

theorem drop_half_nil (key : Bytes) (i : Nat) (h : i = (nibs key).length) :
    key.drop (i / 2) = [] := by
  rw [List.drop_eq_nil_iff, h, nibs_length]; omega

theorem drop_half_ne_nil (key : Bytes) (i : Nat) (h : i < (nibs key).length) :
    key.drop (i / 2) ≠ [] := by
  rw [Ne, List.drop_eq_nil_iff, nibs_length] at *; omega

/-- the two epilogues agree when the descent did not overrun the key and the leaf does not
    store an empty prefix -/
theorem epi_full (v : View) (key : Bytes) (r : Reached) (s : SearchSt) (a : Option Nat)
    (h1 : s.eqID = some r.id) (h2 : s.i = r.i) (h3 : s.lp = r.lp)
    (hle : r.i ≤ (nibs key).length) (hne : r.lp ≠ some [])
    (h : idEpi v key r = .ok a) : (srEpi v key s).eqID = a := by
  unfold srEpi
  rw [h1]; simp only [h2, h3, hle, if_true]
  unfold idEpi at h
  unfold cmpLeafPrefix
  cases hon : v.leafPrefixesOn with
  | false =>
    simp only [hon, Bool.false_eq_true, if_false] at h ⊢
    cases h; exact h1
  | true =>
    simp only [hon, if_true] at h ⊢
    by_cases hil : r.i = (nibs key).length
    · simp only [hil, if_true] at h
      rw [drop_half_nil key r.i hil]
      cases hlp : r.lp with
      | none =>
        rw [hlp] at h; cases h
        simp only [Option.getD_none, cmpBytes_self]; exact h1
      | some lp =>
        rw [hlp] at h; cases h
        have hlpne : lp ≠ [] := by intro hh; exact hne (by rw [hlp, hh])
        have : cmpBytes [] lp = .lt := by
          cases lp with
          | nil => exact absurd rfl hlpne
          | cons x xs => simp [cmpBytes, lexCmp]
        simp [this]
    · simp only [hil, if_false] at h
      have hlt : r.i < (nibs key).length := by omega
      have htail := drop_half_ne_nil key r.i hlt
      cases hlp : r.lp with
      | none =>
        rw [hlp] at h; cases h
        simp [cmpBytes_nil_right _ htail]
      | some lp =>
        rw [hlp] at h
        have hgt : ¬ r.i / 2 > (nibs key).length / 2 := by omega
        simp only [hgt, if_false] at h
        cases h
        simp only [Option.getD_some]
        cases hc : cmpBytes (List.drop (r.i / 2) key) lp with
        | eq =>
          have := (cmpBytes_eq_iff _ _).mp hc
          simp [this, h1]
        | lt =>
          have : ¬ (lp = List.drop (r.i / 2) key) := by
            intro hh; rw [hh, cmpBytes_self] at hc; cases hc
          simp [this]
        | gt =>
          have : ¬ (lp = List.drop (r.i / 2) key) := by
            intro hh; rw [hh, cmpBytes_self] at hc; cases hc
          simp [this]


/-- any view: a hit of `GetID` survives the leaf-prefix comparison of `searchID` -/
theorem epi_hit (v : View) (key : Bytes) (r : Reached) (s : SearchSt) (id : Nat)
    (h1 : s.eqID = some r.id) (h2 : s.i = r.i) (h3 : s.lp = r.lp)
    (h : idEpi v key r = .ok (some id)) : (srEpi v key s).eqID = some id := by
  cases hon : v.leafPrefixesOn with
  | false =>
    have hid : some r.id = some id := by
      unfold idEpi at h; simp only [hon, Bool.false_eq_true, if_false] at h
      cases h; rfl
    unfold srEpi
    rw [h1]; simp only [cmpLeafPrefix, hon, Bool.false_eq_true, if_false]
    split <;> (rw [← hid]; exact h1)
  | true =>
    have hh := h
    unfold idEpi at hh
    simp only [hon, if_true] at hh
    by_cases hil : r.i = (nibs key).length
    · simp only [hil, if_true] at hh
      cases hlp : r.lp with
      | none => exact epi_full v key r s _ h1 h2 h3 (by omega) (by rw [hlp]; simp) h
      | some lp => rw [hlp] at hh; simp at hh
    · simp only [hil, if_false] at hh
      cases hlp : r.lp with
      | none => rw [hlp] at hh; simp at hh
      | some lp =>
        rw [hlp] at hh
        by_cases hgt : r.i / 2 > (nibs key).length / 2
        · simp [hgt] at hh
        · simp only [hgt, if_false] at hh
          by_cases hov : r.i > (nibs key).length
          · -- `i = l + 1`: `GetID` compared with the empty tail; `searchID` skips the comparison
            have hid := hh
            have hrid : some r.id = some id := by
              by_cases hc : lp = List.drop (r.i / 2) key
              · simpa [hc] using hid
              · simp [hc] at hid
            unfold srEpi
            rw [h1]; simp only [h2]
            rw [if_neg (by omega)]
            rw [← hrid]; exact h1
          · have hlt : r.i < (nibs key).length := by omega
            have htail := drop_half_ne_nil key r.i hlt
            have hlpe : lp = List.drop (r.i / 2) key := by
              by_cases hc : lp = List.drop (r.i / 2) key
              · exact hc
              · simp [hc] at hh
            refine epi_full v key r s _ h1 h2 h3 (by omega) ?_ h
            rw [hlp, hlpe]; intro hcontra; exact htail (Option.some.inj hcontra)

/-- the leaf prefix left by the loop of `GetID` is `none` (the `i == l` shortcut) or the prefix
    of the leaf node it stopped at -/
theorem getIDLoop_lp (v : View) (kn : List Nat) :
    ∀ fuel j pos r, getIDLoop v kn fuel j pos = .ok (some r) →
      r.lp = none ∨ ∃ ith, v.node r.id = .ok (.leaf ith r.lp) := by
  intro fuel
  induction fuel with
  | zero => intro j pos r h; simp [getIDLoop] at h
  | succ fuel ih =>
    intro j pos r h
    rw [getIDLoop_succ] at h
    cases hn : v.node j with
    | error e => rw [hn] at h; cases h
    | ok n =>
      rw [hn] at h
      cases n with
      | leaf ith lp =>
        simp only [bind, Except.bind, pure, Except.pure] at h
        cases h
        exact Or.inr ⟨ith, hn⟩
      | inner rr =>
        simp only [bind, Except.bind, pure, Except.pure] at h
        cases hs : idStep rr.pref kn pos with
        | error e => rw [hs] at h; cases h
        | ok o =>
          rw [hs] at h
          cases o with
          | none => cases h
          | some i =>
            simp only [idBranch] at h
            split at h
            · cases h
            · split at h
              · cases h
              · split at h
                · cases h; exact Or.inl rfl
                · exact ih _ _ r h


/-- side condition 1: no leaf stores an *empty* leaf prefix (`hasLeafPrefix` with zero bytes) -/
def NoEmptyLeafPrefix (v : View) : Prop :=
  ∀ id ith, v.node id ≠ .ok (.leaf ith (some []))

/-- side condition 2: the descent of `GetID` for `key` does not step past the end of the key -/
def NoOverrun (v : View) (key : Bytes) : Prop :=
  ∀ r, getIDLoop v (nibs key) (v.nodeCnt + 1) 0 0 = .ok (some r) → r.i ≤ (nibs key).length

theorem init_sim (v : View) (key : Bytes) :
    Rel (getIDLoop v (nibs key) (v.nodeCnt + 1) 0 0)
      (searchLoop v (nibs key) (v.nodeCnt + 1) {} 0) :=
  searchLoop_sim v (nibs key) (v.nodeCnt + 1) {} 0 rfl

/-- **Any view**: if `GetID` finds the key, the exact-match id of `searchID` is the same id. -/
theorem searchID_of_getID_some (v : View) (key : Bytes) (id : Nat)
    (b : Option Nat × Option Nat × Option Nat)
    (hg : getID v key = .ok (some id)) (hs : searchID v key = .ok b) : b.2.1 = some id := by
  rw [getID_eq] at hg
  cases he : v.isEmpty with
  | true => simp [he] at hg
  | false =>
    simp only [he, Bool.false_eq_true, if_false] at hg
    obtain ⟨st, hst, hb⟩ := searchID_mid v key b he hs
    have sim := init_sim v key
    cases hl : getIDLoop v (nibs key) (v.nodeCnt + 1) 0 0 with
    | error e => rw [hl] at hg; cases hg
    | ok o =>
      rw [hl] at hg sim
      cases o with
      | none => cases hg
      | some r =>
        obtain ⟨s, hs', h1, h2, h3⟩ := sim
        rw [hst] at hs'; cases hs'
        rw [hb]
        exact epi_hit v key r st id h1 h2 h3 hg

/-- **Agreement of the exact-match id** under the two side conditions. -/
theorem searchID_eq_getID_of (v : View) (key : Bytes) (a : Option Nat)
    (b : Option Nat × Option Nat × Option Nat)
    (hne : NoEmptyLeafPrefix v) (hov : NoOverrun v key)
    (hg : getID v key = .ok a) (hs : searchID v key = .ok b) : b.2.1 = a := by
  rw [getID_eq] at hg
  cases he : v.isEmpty with
  | true =>
    rw [searchID_eq] at hs
    simp only [he, if_true] at hg hs
    cases hg; cases hs; rfl
  | false =>
    simp only [he, Bool.false_eq_true, if_false] at hg
    obtain ⟨st, hst, hb⟩ := searchID_mid v key b he hs
    have sim := init_sim v key
    cases hl : getIDLoop v (nibs key) (v.nodeCnt + 1) 0 0 with
    | error e => rw [hl] at hg; cases hg
    | ok o =>
      rw [hl] at hg sim
      cases o with
      | none =>
        cases hg
        obtain ⟨s, hs', h1⟩ := sim
        rw [hst] at hs'; cases hs'
        rw [hb]; exact epi_none v key st h1
      | some r =>
        obtain ⟨s, hs', h1, h2, h3⟩ := sim
        rw [hst] at hs'; cases hs'
        rw [hb]
        refine epi_full v key r st a h1 h2 h3 (hov r hl) ?_ hg
        rcases getIDLoop_lp v (nibs key) _ _ _ r hl with h | ⟨ith, h⟩
        · rw [h]; simp
        · intro hc; rw [hc] at h; exact hne _ _ h

/-! ### the side conditions are necessary: two concrete views on which the Go functions differ

  Both views are malformed (no `build` produces them, `WF` excludes them; they could only come
  from hand-crafted serialized bytes), and on both the difference is in the Go source itself:
  * `cex1`: `GetID` tests `qr.hasLeafPrefix` when `i == l`, `searchID` compares
    `bytes.Compare(tail, leafPrefix)`; a present-but-empty leaf prefix separates the two.
  * `cex2`: `searchID` skips the leaf-prefix comparison when `i > l` (keeps the hit), `GetID`
    then answers -1 (`i != l` and `!qr.hasLeafPrefix`).  `i > l` needs an 8-bit word read at a
    position that is not byte aligned (there the model, like Go's `getLabelIdxOfKey`, reads the
    whole byte `key[i>>3]` — label 172 for key `0xab` at position 1).  Neither state is
    reachable in a well-formed trie: `Agree.noOverrun_of_WF`. -/

/-- one leaf that stores an empty leaf prefix -/
def cex1 : View where
  isEmpty := false
  nodeCnt := 1
  node := fun id => if id = 0 then .ok (.leaf 0 (some [])) else .error (.panic "node id out of range")
  leafPrefixesOn := true
  scanOK := true
  leafBytes := fun _ => .ok none

/-- `GetID("")` misses (`i == l` and `hasLeafPrefix`), `searchID("")` hits (`"" == ""`) -/
theorem cex1_getID : getID cex1 [] = .ok none := by rfl
theorem cex1_searchID : searchID cex1 [] = .ok (none, some 0, none) := by rfl

/-- a 257-bit node reached at an odd half-byte position (after a step of one half-byte),
    followed by a leaf without prefix; the query is the one-byte key `0xab` -/
def cex2 : View where
  isEmpty := false
  nodeCnt := 2
  node := fun id =>
    if id = 0 then .ok (.inner { big := true, labels := [172], firstChild := 1, pref := .step 1 })
    else if id = 1 then .ok (.leaf 0 none)
    else .error (.panic "node id out of range")
  leafPrefixesOn := true
  scanOK := false
  leafBytes := fun _ => .ok none

/-- the descent ends at position 3 > l = 2: `GetID` misses (`i != l`, no leaf prefix),
    `searchID` skips the comparison (`i <= l` fails) and keeps the hit -/
theorem cex2_getID : getID cex2 [0xab] = .ok none := by rfl
theorem cex2_searchID : searchID cex2 [0xab] = .ok (none, some 1, none) := by rfl


/-! ### both side conditions hold in well-formed tries, for every query key -/


theorem noEmptyLeafPrefix_of_WF (keys : List Bytes) (keep : List Bool) (t : Trie1)
    (hwf : WF keys keep t) : NoEmptyLeafPrefix t.view := by
  obtain ⟨queue, hsz, hroot, hq⟩ := hwf
  intro id ith h
  simp only [Trie1.view] at h
  split at h
  · rename_i n hn
    cases h
    obtain ⟨hid, hn'⟩ := Array.getElem?_eq_some_iff.mp hn
    obtain ⟨o, _, _, hnode⟩ := hq id hid
    rw [hn'] at hnode
    obtain ⟨_, _, hlp⟩ := hnode
    unfold leafPrefOf at hlp
    simp only at hlp
    split at hlp
    · rename_i hc
      have := Option.some.inj hlp
      rw [← this] at hc; simp at hc
    · cases hlp
  · cases h

/-- the position after the run recorded by `prefOf` is the branching position -/
theorem idStep_prefOf_val (opt : Opt) (ks kn : List Nat) (fb ws i : Nat) (hfb : fb ≤ ws)
    (hks : ws ≤ ks.length) (h : idStep (prefOf opt ks fb ws) kn fb = .ok (some i)) : i = ws := by
  unfold prefOf at h
  split at h
  · simp only [idStep] at h; cases h; omega
  · split at h
    · have hplen : (storedPrefix ks fb ws).length = ws - (fb - fb % 2) := by
        simp only [storedPrefix, List.length_drop, List.length_take]; omega
      simp only [idStep, hplen] at h
      split at h
      · cases h
      · split at h
        · cases h
        · cases h; omega
    · simp only [idStep] at h; cases h; omega


/-- in a well-formed trie the descent of `GetID` for ANY query key visits node `j` at the
    position `fb` of its subset, and never steps past the end of the key -/
theorem getIDLoop_pos_of_WF (keys : List Bytes) (keep : List Bool) (t : Trie1)
    (queue : Array Subset) (hsz : queue.size = t.nodes.size)
    (hq : ∀ j (hj : j < t.nodes.size), ∃ o, queue[j]? = some o ∧ SubOK keys keep o ∧
      NodeOK keys keep t.opt queue t.leafKeyIdx j o t.nodes[j])
    (kn : List Nat) (heven : kn.length % 2 = 0) :
    ∀ fuel j o r, queue[j]? = some o → o.fb ≤ kn.length →
      getIDLoop t.view kn fuel j o.fb = .ok (some r) → r.i ≤ kn.length := by
  intro fuel
  induction fuel with
  | zero => intro j o r _ _ h; simp [getIDLoop] at h
  | succ fuel ih =>
    intro j o r hqj hpos h
    have hj : j < t.nodes.size := by
      have : j < queue.size := (Array.getElem?_eq_some_iff.mp hqj).1
      omega
    obtain ⟨o', ho', hsub, hnode⟩ := hq j hj
    rw [hqj] at ho'; cases ho'
    have hview := view_node t j hj
    cases hn : t.nodes[j] with
    | leaf ith lp =>
      rw [hn] at hview
      rw [getIDLoop_leaf _ _ _ _ _ ith lp hview] at h
      cases h; exact hpos
    | inner rr =>
      rw [hn] at hnode hview
      obtain ⟨h2e, ws, hfbws, hall, hbig, hpref, hlabels, hpw, hmono, hjfc, hkids⟩ := hnode
      rw [getIDLoop_inner _ _ _ _ _ rr hview] at h
      cases hs : idStep rr.pref kn o.fb with
      | error e => rw [hs] at h; cases h
      | ok oo =>
        rw [hs] at h
        cases oo with
        | none => cases h
        | some i =>
          have hiws : i = ws := by
            rw [hpref] at hs
            exact idStep_prefOf_val _ _ _ _ _ _ hfbws (hall o.s (Nat.le_refl _) hsub.lt).1 hs
          subst hiws
          simp only [idBranch] at h
          split at h
          · cases h
          · rename_i hle
            split at h
            · cases h
            · rename_i hhas
              split at h
              · cases h; show i ≤ kn.length; omega
              · rename_i hne
                have hcont : rr.labels.contains (labelIdxOfKey kn i rr.big) = true := by
                  simpa [leftChildID] using hhas
                have hmem : labelIdxOfKey kn i rr.big ∈ rr.labels := by
                  simpa using hcont
                obtain ⟨k, hk', hkl⟩ := List.mem_iff_getElem.mp hmem
                obtain ⟨c, hc, hcfb, _, _, _⟩ := hkids k hk'
                have hch := leftChildID_of_label rr hpw k hk'
                rw [hkl] at hch
                rw [hch] at h
                have hid : ((rr.firstChild : Int) - 1 + (k : Int) + 1).toNat = rr.firstChild + k := by
                  omega
                simp only [hid] at h
                have hlne : rr.labels[k] ≠ 0 := by
                  rw [hkl, labelIdxOfKey_eq_labelAt _ _ _ (fun hb => (hbig hb).1), Ne,
                    labelAt_eq_zero_iff]; omega
                have hfb : i + wordSize rr.big = c.fb := by
                  rw [hcfb]; unfold labelLen wordSize; rw [if_neg hlne]
                rw [hfb] at h
                refine ih _ c r hc ?_ h
                rw [← hfb]; unfold wordSize
                cases hb : rr.big with
                | false => simp; omega
                | true => have := hbig hb; simp; omega

theorem noOverrun_of_WF (keys : List Bytes) (keep : List Bool) (t : Trie1)
    (hwf : WF keys keep t) (key : Bytes) : NoOverrun t.view key := by
  obtain ⟨queue, hsz, hroot, hq⟩ := hwf
  intro r h
  have heven : (nibs key).length % 2 = 0 := by rw [nibs_length]; omega
  exact getIDLoop_pos_of_WF keys keep t queue hsz hq (nibs key) heven _ 0 _ r hroot
    (Nat.zero_le _) h


/-! ### `Get`, `Search`, `RangeGet` in terms of `GetID` / `searchID` -/


theorem get_hit_iff (v : View) (key : Bytes) (x : Option Bytes) :
    get v key = .ok (some x) ↔ ∃ id, getID v key = .ok (some id) ∧ getLeaf v id = .ok x := by
  unfold _root_.get
  simp only [bind, Except.bind, pure, Except.pure]
  cases getID v key with
  | error e => simp
  | ok o =>
    cases o with
    | none => simp
    | some id =>
      simp only
      cases hg : getLeaf v id with
      | error e => simp [hg]
      | ok y => simp [hg]

theorem get_miss_iff (v : View) (key : Bytes) :
    get v key = .ok none ↔ getID v key = .ok none := by
  unfold _root_.get
  simp only [bind, Except.bind, pure, Except.pure]
  cases getID v key with
  | error e => simp
  | ok o =>
    cases o with
    | none => simp
    | some id =>
      simp only
      cases hg : getLeaf v id with
      | error e => simp
      | ok y => simp

/-- a component of `Search`: the leaf value of an id, nil for -1 -/
def leafOf (v : View) : Option Nat → Except Err (Option (Option Bytes))
  | none => pure none
  | some id => do pure (some (← getLeaf v id))

theorem search_eq (v : View) (key : Bytes) :
    search v key = (do
      let (l, e, r) ← searchID v key
      return (← leafOf v l, ← leafOf v e, ← leafOf v r)) := by
  rfl

/-- the components of `search` are the leaves of the ids of `searchID` -/
theorem search_mid (v : View) (key : Bytes)
    (y : Option (Option Bytes) × Option (Option Bytes) × Option (Option Bytes))
    (h : search v key = .ok y) :
    ∃ b, searchID v key = .ok b ∧ leafOf v b.2.1 = .ok y.2.1 := by
  rw [search_eq] at h
  simp only [bind, Except.bind, pure, Except.pure] at h
  cases hs : searchID v key with
  | error e => rw [hs] at h; cases h
  | ok b =>
    rw [hs] at h
    refine ⟨b, rfl, ?_⟩
    obtain ⟨l, e, r⟩ := b
    simp only at h ⊢
    cases hl : leafOf v l with
    | error e => rw [hl] at h; cases h
    | ok yl =>
      rw [hl] at h; simp only at h
      cases he : leafOf v e with
      | error e => rw [he] at h; cases h
      | ok ye =>
        rw [he] at h; simp only at h
        cases hr : leafOf v r with
        | error e => rw [hr] at h; cases h
        | ok yr => rw [hr] at h; cases h; rfl

theorem leafOf_some (v : View) (id : Nat) (z : Option (Option Bytes))
    (h : leafOf v (some id) = .ok z) : ∃ x, getLeaf v id = .ok x ∧ z = some x := by
  simp only [leafOf, bind, Except.bind, pure, Except.pure] at h
  cases hg : getLeaf v id with
  | error e => rw [hg] at h; cases h
  | ok x => rw [hg] at h; cases h; exact ⟨x, rfl, rfl⟩

theorem rangeGet_of_searchID (v : View) (key : Bytes) (y : Option (Option Bytes))
    (h : rangeGet v key = .ok y) :
    ∃ b, searchID v key = .ok b ∧
      match b.2.1 with
      | some id => ∃ x, getLeaf v id = .ok x ∧ y = some x
      | none => True := by
  unfold rangeGet at h
  simp only [bind, Except.bind, pure, Except.pure] at h
  cases hs : searchID v key with
  | error e => rw [hs] at h; cases h
  | ok b =>
    rw [hs] at h
    refine ⟨b, rfl, ?_⟩
    obtain ⟨l, e, r⟩ := b
    simp only at h ⊢
    cases e with
    | none => trivial
    | some id =>
      simp only at h ⊢
      cases hg : getLeaf v id with
      | error e => rw [hg] at h; cases h
      | ok x => rw [hg] at h; cases h; exact ⟨x, rfl, rfl⟩


end Agree
