import SlimProps.L2
import SlimProps.L2b
import SlimProps.L2c
import SlimProps.C05
import SlimProps.C18
/-
  SlimProps.Loaded — "freshly built or loaded from bytes": the headline theorem of every
  property, restated for a SlimTrie instance that was LOADED: `Unmarshal` (model
  `Legacy.Instance.unmarshal`) of the bytes `Marshal` (`marshalSlim`) produced for a built trie,
  into an instance with ANY prior contents `σ` and any encoder width `encSize`.

    loadedFrom σ t encSize := (Instance.unmarshal σ encSize (marshalSlim (Slim.encode t))).1

  `loaded_eq`: for every built trie within Go's own size limits (`Refine.Small t`) the load
  succeeds and the loaded instance is `⟨Slim.encode t, lv, false⟩` with `lv` the level table
  `initLevels` computes (`C05_roundtrip` + `C18_initLevels_ok`; no `hlevels` hypothesis left),
  whatever `σ` held.  Hence `Slim.view (loadedFrom …).inner = L2view t` (`loaded_view`), and every
  bit-level theorem of `SlimProps.L2/L2b/L2c` is a statement about the loaded instance.

  `Refine.Small t` (SlimProofs/InstanceLemmas.lean) only excludes tries beyond the Go code's own
  limits — its rank and select indexes are `[]int32`, and the protobuf body must be allocatable:
      bigCnt           : t.bigCnt < 2 ^ 31
      nodes            : t.nodes.size + 63 < 2 ^ 31
      labelBits        : labelBits t + 63 < 2 ^ 31
      innerPrefixBytes : (eStoredPs t).flatten.length + 64 < 2 ^ 31
      leafPrefixBytes  : (eLeafPs t).flatten.length + 64 < 2 ^ 31
      leafBytes        : ∀ es, t.elts = some es → es.length + 63 < 2 ^ 31 ∧ es.flatten.length + 64 < 2 ^ 31
      body             : Frame.BodyOK (Wire.encodeSlim (Slim.encode t))

  Theorems: `loaded_eq`, `loaded_inner`, `loaded_view`, `loaded_indep`,
  `C05_answers_identical_built`, `C01_get_retained_loaded`, `C01_get_retained_bytes_loaded`,
  `C02_rangeget_indexed_loaded`, `C03_search_loaded`, `C03_get_loaded`, `C03_getID_loaded`,
  `C03_rangeget_loaded`, `C04_getGEPath_loaded`, `C04_iter_loaded`, `C04_scanFrom_loaded`,
  `C04_scanFromTo_loaded`, `C09_search_retained_loaded`, `C09_search_retained_R_loaded`,
  `C10_total_loaded`, `C10_searchID_eq_getID_loaded`, `C10_search_eq_get_loaded`,
  `C10_hit_supplied_loaded`, `C13_monotone_loaded`, `C13_monotone_get_loaded`,
  `C14_getInt_loaded`, `C18_stat_loaded`, `C19_render_loaded`.
-/

open Wire Frame Version Legacy Refine

/-- the instance after loading the marshalled trie into an instance that held `σ` -/
def loadedFrom (σ : Instance) (t : Trie1) (encSize : Option Nat) : Instance :=
  (Instance.unmarshal σ encSize (marshalSlim (Slim.encode t))).1

section loaded
variable (keys : List Bytes) (vals : Option (List Bytes)) (opt : Opt) (t : Trie1)
  (hb : build keys vals opt = .ok t) (hsm : Small t) (σ : Instance) (encSize : Option Nat)
include hb hsm

/-- **Loading a marshalled built trie** succeeds and yields the built message with its freshly
    initialised level table, whatever the instance held before. -/
theorem loaded_eq :
    ∃ lv, Slim.initLevels (Slim.encode t) = .ok lv ∧
      Instance.unmarshal σ encSize (marshalSlim (Slim.encode t))
        = ({ inner := Slim.encode t, levels := lv, varsNil := false }, none) := by
  obtain ⟨lv, hlv⟩ := C18_initLevels_ok keys vals opt t hb
  exact ⟨lv, hlv, (C05_roundtrip keys vals opt t hb hsm encSize lv hlv σ).2⟩

theorem loaded_inner : (loadedFrom σ t encSize).inner = Slim.encode t := by
  obtain ⟨lv, _, h⟩ := loaded_eq keys vals opt t hb hsm σ encSize
  unfold loadedFrom; rw [h]

/-- the view every query function reads of the loaded instance is the bit-level view of the
    built trie -/
theorem loaded_view : Slim.view (loadedFrom σ t encSize).inner = L2view t := by
  rw [loaded_inner keys vals opt t hb hsm σ encSize]

/-- the loaded instance does not depend on what the instance held before -/
theorem loaded_indep (σ' : Instance) : loadedFrom σ t encSize = loadedFrom σ' t encSize := by
  obtain ⟨lv, hlv, h⟩ := loaded_eq keys vals opt t hb hsm σ encSize
  obtain ⟨lv', hlv', h'⟩ := loaded_eq keys vals opt t hb hsm σ' encSize
  have hll : lv' = lv := by rw [hlv] at hlv'; exact (Except.ok.inj hlv').symm
  have h1 : loadedFrom σ t encSize = { inner := Slim.encode t, levels := lv, varsNil := false } :=
    congrArg Prod.fst h
  have h2 : loadedFrom σ' t encSize = { inner := Slim.encode t, levels := lv', varsNil := false } :=
    congrArg Prod.fst h'
  rw [h1, h2, hll]

/-- **C05 (answers identical), closed**: no `hlevels` hypothesis. -/
theorem C05_answers_identical_built :
    ∃ lv, Slim.initLevels (Slim.encode t) = .ok lv ∧
      (loadedFrom σ t encSize).inner = Slim.encode t ∧
      Slim.view (loadedFrom σ t encSize).inner = Slim.view (Slim.encode t) ∧
      (loadedFrom σ t encSize).levels = lv ∧ (loadedFrom σ t encSize).varsNil = false ∧
      Slim.stat (loadedFrom σ t encSize).inner (loadedFrom σ t encSize).levels
        = Slim.stat (Slim.encode t) lv := by
  obtain ⟨lv, hlv, h⟩ := loaded_eq keys vals opt t hb hsm σ encSize
  have hl : loadedFrom σ t encSize = { inner := Slim.encode t, levels := lv, varsNil := false } :=
    congrArg Prod.fst h
  rw [hl]
  exact ⟨lv, hlv, rfl, rfl, rfl, rfl, rfl⟩

/-! ### C01 -/

theorem C01_get_retained_loaded (i : Nat) (hi : i < keys.length)
    (hk : keptAt (keepMask keys.length vals opt.dedup) i = true) :
    (∃ id, getID (Slim.view (loadedFrom σ t encSize).inner) (keys.getD i []) = .ok (some id)) ∧
    get (Slim.view (loadedFrom σ t encSize).inner) (keys.getD i [])
      = .ok (some (expectedValue vals t i)) := by
  rw [loaded_view keys vals opt t hb hsm]; exact C01_get_retained_L2 keys vals opt t hb i hi hk

theorem C01_get_retained_bytes_loaded (i : Nat) (hi : i < keys.length)
    (hk : keptAt (keepMask keys.length vals opt.dedup) i = true) :
    ∃ r, get (Slim.view (loadedFrom σ t encSize).inner) (keys.getD i []) = .ok (some r) ∧
      (vals = none → r = none) ∧ (∀ vs, vals = some vs → r.getD [] = vs.getD i []) := by
  rw [loaded_view keys vals opt t hb hsm]
  exact C01_get_retained_bytes_L2 keys vals opt t hb i hi hk

/-! ### C02 -/

theorem C02_rangeget_indexed_loaded (hne : keys ≠ []) (i : Nat) (hi : i < keys.length) :
    rangeGet (Slim.view (loadedFrom σ t encSize).inner) (keys.getD i []) =
      .ok (some (recVal (keepMask keys.length vals opt.dedup) vals i)) := by
  rw [loaded_view keys vals opt t hb hsm]; exact C02_rangeget_indexed_L2 keys vals opt t hb hne i hi

/-! ### C03 -/

theorem C03_search_loaded (hc : opt.complete = true) (q : Bytes) :
    search (Slim.view (loadedFrom σ t encSize).inner) q =
      .ok (shownVal (retained keys vals opt.dedup) (Spec.lt (retained keys vals opt.dedup) q),
           shownVal (retained keys vals opt.dedup) (Spec.get (retained keys vals opt.dedup) q),
           shownVal (retained keys vals opt.dedup) (Spec.gt (retained keys vals opt.dedup) q)) := by
  rw [loaded_view keys vals opt t hb hsm]; exact C03_search_L2 keys vals opt t hb hc q

theorem C03_getID_loaded (hc : opt.complete = true) (q : Bytes) :
    ∃ e, getID (Slim.view (loadedFrom σ t encSize).inner) q = .ok e ∧
      e.isSome = (Spec.get (retained keys vals opt.dedup) q).isSome := by
  rw [loaded_view keys vals opt t hb hsm]; exact C03_getID_L2 keys vals opt t hb hc q

theorem C03_get_loaded (hc : opt.complete = true) (q : Bytes) :
    get (Slim.view (loadedFrom σ t encSize).inner) q =
      .ok (shownVal (retained keys vals opt.dedup) (Spec.get (retained keys vals opt.dedup) q)) := by
  rw [loaded_view keys vals opt t hb hsm]; exact C03_get_L2 keys vals opt t hb hc q

theorem C03_rangeget_loaded (hc : opt.complete = true) (q : Bytes) :
    rangeGet (Slim.view (loadedFrom σ t encSize).inner) q =
      .ok (shownVal (retained keys vals opt.dedup) (Spec.le (retained keys vals opt.dedup) q)) := by
  rw [loaded_view keys vals opt t hb hsm]; exact C03_rangeget_L2 keys vals opt t hb hc q

/-! ### C04 -/

open IterLemmas Scan in
theorem C04_getGEPath_loaded (hc : opt.complete = true) (start : Bytes) :
    ∃ p, getGEPath (Slim.view (loadedFrom σ t encSize).inner) start = .ok p ∧
      GERes keys (keepMask keys.length vals opt.dedup) t start p := by
  rw [loaded_view keys vals opt t hb hsm]; exact C04_getGEPath_L2 keys vals opt t hb hc start

open Scan in
theorem C04_iter_loaded (hc : opt.complete = true) (start : Bytes) (incl wv : Bool) :
    ∃ s, newIterFrom (Slim.view (loadedFrom σ t encSize).inner) start incl = .ok s ∧
      ∀ k, iterTake (Slim.view (loadedFrom σ t encSize).inner) wv k s =
        .ok (IterStack.expect k ((Spec.scanFrom (retained keys vals opt.dedup) start incl).map
          (C04.item (retained keys vals opt.dedup) wv))) := by
  rw [loaded_view keys vals opt t hb hsm]; exact C04_iter_L2 keys vals opt t hb hc start incl wv

open Scan in
theorem C04_scanFrom_loaded (hc : opt.complete = true) (start : Bytes) (incl wv : Bool)
    (keepFn : Bytes → Bool) (stopAfter : Option Nat) :
    scanFrom (Slim.view (loadedFrom σ t encSize).inner) start incl wv keepFn stopAfter =
      .ok (IterScan.truncate stopAfter
        (((Spec.scanFrom (retained keys vals opt.dedup) start incl).map
          (C04.pair (retained keys vals opt.dedup) wv)).takeWhile (fun y => keepFn y.1))) := by
  rw [loaded_view keys vals opt t hb hsm]
  exact C04_scanFrom_L2 keys vals opt t hb hc start incl wv keepFn stopAfter

open Scan in
theorem C04_scanFromTo_loaded (hc : opt.complete = true) (start : Bytes) (incl : Bool)
    (stop : Bytes) (inclEnd wv : Bool) (stopAfter : Option Nat) :
    scanFromTo (Slim.view (loadedFrom σ t encSize).inner) start incl stop inclEnd wv stopAfter =
      .ok (IterScan.truncate stopAfter
        ((Spec.scanFromTo (retained keys vals opt.dedup) start incl stop inclEnd).map
          (C04.pair (retained keys vals opt.dedup) wv))) := by
  rw [loaded_view keys vals opt t hb hsm]
  exact C04_scanFromTo_L2 keys vals opt t hb hc start incl stop inclEnd wv stopAfter

/-! ### C09 -/

theorem C09_search_retained_loaded (hne : keys ≠ []) (m : Nat) (hm : m < keys.length)
    (hk : keptAt (keepMask keys.length vals opt.dedup) m = true) :
    search (Slim.view (loadedFrom σ t encSize).inner) (keys.getD m []) =
      .ok (valOf (keepMask keys.length vals opt.dedup) vals
             (prevKept (keepMask keys.length vals opt.dedup) m),
           valOf (keepMask keys.length vals opt.dedup) vals (some m),
           valOf (keepMask keys.length vals opt.dedup) vals
             (nextKept (keepMask keys.length vals opt.dedup) m)) := by
  rw [loaded_view keys vals opt t hb hsm]
  exact C09_search_retained_L2 keys vals opt t hb hne m hm hk

theorem C09_search_retained_R_loaded (hne : keys ≠ []) (i : Nat) (e : Entry)
    (hi : (retained keys vals opt.dedup)[i]? = some e) :
    search (Slim.view (loadedFrom σ t encSize).inner) e.1 =
      .ok (shownVal (retained keys vals opt.dedup)
             (if i = 0 then none else (retained keys vals opt.dedup)[i - 1]?),
           shownVal (retained keys vals opt.dedup) (some e),
           shownVal (retained keys vals opt.dedup) (retained keys vals opt.dedup)[i + 1]?) := by
  rw [loaded_view keys vals opt t hb hsm]
  exact C09_search_retained_R_L2 keys vals opt t hb hne i e hi

/-! ### C10 -/

theorem C10_total_loaded (q : Bytes) :
    (∃ a, getID (Slim.view (loadedFrom σ t encSize).inner) q = .ok a) ∧
    (∃ a, get (Slim.view (loadedFrom σ t encSize).inner) q = .ok a) ∧
    (∃ a, searchID (Slim.view (loadedFrom σ t encSize).inner) q = .ok a) ∧
    (∃ a, rangeGet (Slim.view (loadedFrom σ t encSize).inner) q = .ok a) ∧
    (∃ a, search (Slim.view (loadedFrom σ t encSize).inner) q = .ok a) := by
  rw [loaded_view keys vals opt t hb hsm]; exact C10_total_L2 keys vals opt t hb q

theorem C10_searchID_eq_getID_loaded (q : Bytes) (a : Option Nat)
    (b : Option Nat × Option Nat × Option Nat)
    (hg : getID (Slim.view (loadedFrom σ t encSize).inner) q = .ok a)
    (hs : searchID (Slim.view (loadedFrom σ t encSize).inner) q = .ok b) : b.2.1 = a := by
  rw [loaded_view keys vals opt t hb hsm] at hg hs
  exact C10_searchID_eq_getID_L2 keys vals opt t hb q a b hg hs

theorem C10_search_eq_get_loaded (q : Bytes) (a : Option (Option Bytes))
    (y : Option (Option Bytes) × Option (Option Bytes) × Option (Option Bytes))
    (hg : get (Slim.view (loadedFrom σ t encSize).inner) q = .ok a)
    (hs : search (Slim.view (loadedFrom σ t encSize).inner) q = .ok y) : y.2.1 = a := by
  rw [loaded_view keys vals opt t hb hsm] at hg hs
  exact C10_search_eq_get_L2 keys vals opt t hb q a y hg hs

/-! ### C19 -/

/-- a loaded trie renders exactly like the record array it was built as -/
theorem C19_render_loaded (fmtVal : Option Bytes → String) :
    Slim.toStringSlim (Slim.view (loadedFrom σ t encSize).inner) fmtVal
      = Slim.toStringSlim t.view fmtVal := by
  rw [loaded_view keys vals opt t hb hsm]; exact C19_render_eq_L2 keys vals opt t hb fmtVal

/-! ### C18 -/

open Slim C18 in
/-- `Stat` of the loaded instance: `|retained|` keys, `N` nodes, and a consistent level table -/
theorem C18_stat_loaded (hne : keys ≠ []) :
    ∃ lv, (loadedFrom σ t encSize).levels = lv ∧
      stat (loadedFrom σ t encSize).inner (loadedFrom σ t encSize).levels
        = .ok { levels := lv, keyCnt := (retained keys vals opt.dedup).length,
                nodeCnt := t.nodes.size } ∧
      (∀ e ∈ lv, e.1 = e.2.1 + e.2.2) ∧ lv.Pairwise LevelLe ∧ lv.head? = some (0, 0, 0) ∧
      lv.getLast? = some (t.nodes.size, innerCnt t, t.nodes.size - innerCnt t) := by
  obtain ⟨lv, hlv, h⟩ := loaded_eq keys vals opt t hb hsm σ encSize
  have hl : loadedFrom σ t encSize = { inner := Slim.encode t, levels := lv, varsNil := false } := by
    unfold loadedFrom; rw [h]
  rw [hl]
  exact ⟨lv, rfl, (C18_totals keys vals opt t hb hne lv hlv).2.2,
    C18_levels_consistent keys vals opt t hb hne lv hlv⟩

end loaded

/-! ### C10 (supplied values), C13, C14: statements with their own shapes of hypotheses -/

theorem C10_hit_supplied_loaded (keys : List Bytes) (vs : List Bytes) (opt : Opt) (t : Trie1)
    (hb : build keys (some vs) opt = .ok t) (hsm : Small t) (σ : Instance) (encSize : Option Nat)
    (hne : keys ≠ []) (hvs : ∀ b ∈ vs, b ≠ [])
    (q : Bytes) (x : Option Bytes)
    (h : get (Slim.view (loadedFrom σ t encSize).inner) q = .ok (some x)) :
    ∃ b, x = some b ∧ b ∈ vs := by
  rw [loaded_view keys (some vs) opt t hb hsm] at h
  exact C10_hit_supplied_L2 keys vs opt t hb hne hvs q x h

theorem C13_monotone_loaded (keys : List Bytes) (vals : Option (List Bytes)) (o o' : Opt)
    (t t' : Trie1) (hd : o.dedup = o'.dedup) (hin : o'.inner = true → o.inner = true)
    (hlf : o'.leaf = true → o.leaf = true)
    (hb : build keys vals o = .ok t) (hb' : build keys vals o' = .ok t')
    (hsm : Small t) (hsm' : Small t') (σ σ' : Instance) (e e' : Option Nat) (q : Bytes) (id : Nat)
    (h : getID (Slim.view (loadedFrom σ t e).inner) q = .ok (some id)) :
    getID (Slim.view (loadedFrom σ' t' e').inner) q = .ok (some id) := by
  rw [loaded_view keys vals o t hb hsm] at h
  rw [loaded_view keys vals o' t' hb' hsm']
  exact C13_monotone_L2 keys vals o o' t t' hd hin hlf hb hb' q id h

theorem C13_monotone_get_loaded (keys : List Bytes) (vals : Option (List Bytes)) (o o' : Opt)
    (t t' : Trie1) (hd : o.dedup = o'.dedup) (hin : o'.inner = true → o.inner = true)
    (hlf : o'.leaf = true → o.leaf = true)
    (hb : build keys vals o = .ok t) (hb' : build keys vals o' = .ok t')
    (hsm : Small t) (hsm' : Small t') (σ σ' : Instance) (e e' : Option Nat) (q : Bytes)
    (x : Option Bytes)
    (h : get (Slim.view (loadedFrom σ t e).inner) q = .ok (some x)) :
    get (Slim.view (loadedFrom σ' t' e').inner) q = .ok (some x) := by
  rw [loaded_view keys vals o t hb hsm] at h
  rw [loaded_view keys vals o' t' hb' hsm']
  exact C13_monotone_get_L2 keys vals o o' t t' hd hin hlf hb hb' q x h

/-- **C14 on a loaded trie**: `GetIw` = `Get` followed by the two's-complement reading. -/
theorem C14_getInt_loaded (keys : List Bytes) (vs : List Bytes) (opt : Opt) (t : Trie1)
    (hb : build keys (some vs) opt = .ok t) (hsm : Small t) (σ : Instance) (encSize : Option Nat)
    (hne : keys ≠ []) (w : Nat) (hw : 0 < w) (hwidth : ∀ v ∈ vs, v.length = w) (key : Bytes) :
    Slim.getInt (loadedFrom σ t encSize).inner w key
      = (get (Slim.view (loadedFrom σ t encSize).inner) key).map
          (fun r => r.map (fun b => Slim.leSigned (b.getD []))) := by
  rw [loaded_inner keys (some vs) opt t hb hsm]
  exact C14_getInt_built keys vs opt t hb hne w hw hwidth key

/-! ### non-vacuity

  `C05.ex_hyps` provides a concrete built trie (3 keys, Complete mode, values) together with a
  proof of `Small` for it (by kernel evaluation of the decidable `smallB`).  Loaded into an
  instance with arbitrary prior contents and any encoder width, it finds the key `ab` with its
  value, answers every query without panic, scans its three entries in order and reports 3 keys. -/
example (σ : Instance) (e : Option Nat) :
    ∃ t, build C05.exKeys (some C05.exVals) C05.exOpt = .ok t ∧ Small t ∧
      (∃ r, get (Slim.view (loadedFrom σ t e).inner) [0x61, 0x62] = .ok (some r) ∧
        r.getD [] = [2]) ∧
      (∀ q, ∃ a, search (Slim.view (loadedFrom σ t e).inner) q = .ok a) ∧
      Scan.scanFrom (Slim.view (loadedFrom σ t e).inner) [] true true (fun _ => true) none =
        .ok [([0x61], some [1]), ([0x61, 0x62], some [2]), ([0x62, 0xff], some [3])] ∧
      ∃ lv, Slim.stat (loadedFrom σ t e).inner (loadedFrom σ t e).levels
        = .ok { levels := lv, keyCnt := 3, nodeCnt := t.nodes.size } := by
  obtain ⟨t, _, hb, hsm, _, _⟩ := C05.ex_hyps
  have hne : C05.exKeys ≠ [] := by simp [C05.exKeys]
  refine ⟨t, hb, hsm, ?_, ?_, ?_, ?_⟩
  · obtain ⟨r, hr, _, hv⟩ := C01_get_retained_bytes_loaded _ _ _ t hb hsm σ e 1 (by decide)
      (by decide)
    exact ⟨r, hr, hv _ rfl⟩
  · exact fun q => (C10_total_loaded _ _ _ t hb hsm σ e q).2.2.2.2
  · rw [C04_scanFrom_loaded _ _ _ t hb hsm σ e (by decide)]
    exact congrArg Except.ok (by decide +kernel)
  · obtain ⟨lv, _, hstat, _⟩ := C18_stat_loaded _ _ _ t hb hsm σ e hne
    refine ⟨lv, ?_⟩
    rw [hstat]
    have : (retained C05.exKeys (some C05.exVals) C05.exOpt.dedup).length = 3 := by decide
    rw [this]

#print axioms loaded_eq
#print axioms loaded_inner
#print axioms loaded_view
#print axioms loaded_indep
#print axioms C05_answers_identical_built
#print axioms C01_get_retained_loaded
#print axioms C01_get_retained_bytes_loaded
#print axioms C02_rangeget_indexed_loaded
#print axioms C03_search_loaded
#print axioms C03_getID_loaded
#print axioms C03_get_loaded
#print axioms C03_rangeget_loaded
#print axioms C04_getGEPath_loaded
#print axioms C04_iter_loaded
#print axioms C04_scanFrom_loaded
#print axioms C04_scanFromTo_loaded
#print axioms C09_search_retained_loaded
#print axioms C09_search_retained_R_loaded
#print axioms C10_total_loaded
#print axioms C10_searchID_eq_getID_loaded
#print axioms C10_search_eq_get_loaded
#print axioms C10_hit_supplied_loaded
#print axioms C13_monotone_loaded
#print axioms C13_monotone_get_loaded
#print axioms C14_getInt_loaded
#print axioms C18_stat_loaded
#print axioms C19_render_loaded
