import Generated.Funcs
import SlimProps.BridgeSem.Common
import SlimProps.BridgeSem.Extern
import SlimModel.Slim

/-
  SlimProps.BridgeSem.VLenGet — tie 1, semantic part: `(*VLenArray).get` (trie/slimtrie_vlen_array.go)
  translated WHOLE (`Generated.W.VLenArray.get`: the bound check and its `panic`, the presence test
  and the early `return []byte{}`, the rank, the nil test of `PositionBM`, both slice expressions,
  the call of the external `bitmap.Select32R64`; every index / slice / nil panic is `none`)
  = the model's `Slim.vlenGet` (SlimModel/Slim.lean), INCLUDING when it panics:

    `VLenArray_get_sem`   W.VLenArray.get (absVLen va) index = (okOpt (Slim.vlenGet va index)).map natBytes

  for a well-formed message (`VLenArrayMsg.WF`: counts and index entries are `int32`), a non-negative
  index, and no `int32` overflow in the ordinal of the element / the end of a fixed-size element
  (`VLenGetFits`) and a position bitmap of fewer than 2^31 bits.
  External semantics assumed: `bitmap.Select32R64`, `bitmap.Bit`, `bitmap.Mask`, `bits.OnesCount64`
  (GoSem.lean; `Extern.select32R64_sem`).  See SlimProps/BridgeSem.lean for the overview.
-/

set_option linter.unusedSimpArgs false
set_option linter.unusedVariables false

open Generated Bits

namespace BridgeSem

/-- `get` stays inside `int32`: the ordinal of the element among the present ones is representable
    and, for a fixed-size array, so is the end of its byte range (`ithElt*FixedSize + FixedSize`). -/
def VLenGetFits (va : VLenArrayMsg) (index : Nat) : Prop :=
  ∀ pres w r, va.presenceBM = some pres → pres.words[index / 64]? = some w →
    pres.rankIndex[index / 64]? = some r →
    r + popcount (w % 2 ^ (index % 64)) < 2 ^ 31 ∧
    (va.positionBM = none → (r + popcount (w % 2 ^ (index % 64))) * va.fixedSize + va.fixedSize < 2 ^ 31)

theorem VLenArray_get_sem (va : VLenArrayMsg) (index : Nat) (hwf : va.WF) (hi : index < 2 ^ 31)
    (hfit : VLenGetFits va index)
    (hpos : ∀ pos, va.positionBM = some pos → pos.words.length * 64 < 2 ^ 31) :
    W.VLenArray.get (absVLen va) index = (okOpt (Slim.vlenGet va index)).map natBytes := by
  obtain ⟨hn, _, hfs, hposwf, hpreswf⟩ := hwf
  -- the comparisons and index computations of the Go code, in both polarities / operand orders
  have hcmp1 : Go.leS 32 va.n index = decide (va.n ≤ index) := by go_simp
  have hcmp2 : Go.ltS 32 index va.n = decide (index < va.n) := by go_simp
  have h1 : Go.sar 32 index 6 = index / 64 := by go_simp
  have h1' : Go.divS 32 index 64 = index / 64 := by go_simp
  have h2 : Go.and index 63 = index % 64 := by go_simp
  have h2' : Go.and 63 index = index % 64 := by go_simp
  have h2'' : Go.modS 32 index 64 = index % 64 := by go_simp
  have h3 : index / 64 < 2 ^ (32 - 1) := by omega
  unfold W.VLenArray.get Slim.vlenGet
  simp only [absVLen, Go.deref, Go.panic, Option.bind_eq_bind, Option.pure_def, hcmp1, hcmp2, h1, h1', h2, h2',
    h2'', idxS_eq _ _ _ h3, bitAt_lt (index % 64) (by omega), maskAt_le (index % 64) (by omega)]
  by_cases hge : va.n ≤ index
  · have hlt : ¬ index < va.n := by omega
    simp [hge, hlt, okOpt, Except.toOption, bind, Except.bind]
  have hlt : index < va.n := by omega
  have hge' : ¬ index ≥ va.n := hge
  simp only [hge, hge', hlt, decide_false, decide_true, Bool.not_true, Bool.false_eq_true, if_false, if_true]
  cases hp : va.presenceBM with
  | none => simp [okOpt, Except.toOption]
  | some pres =>
    simp only [Option.map_some, Option.bind_some, absBitmap]
    cases hw : pres.words[index / 64]? with
    | none => simp [okOpt, Except.toOption]
    | some w =>
      simp only [Option.bind_some, and_bit_eq_zero, and_bit_ne_zero]
      cases hb : w.testBit (index % 64) with
      | false => simp [okOpt, Except.toOption, pure, Except.pure, natBytes]
      | true =>
        simp only [Bool.not_true, Bool.false_eq_true, if_false, if_true, Bool.not_false]
        cases hr : pres.rankIndex[index / 64]? with
        | none => simp [okOpt, Except.toOption]
        | some r =>
          obtain ⟨hf1, hf2⟩ := hfit pres w r hp hw hr
          have hpc : Go.popcount64 (w % 2 ^ (index % 64)) = popcount (w % 2 ^ (index % 64)) := rfl
          simp only [Option.bind_some, mask64_and, mask64_and', hpc]
          generalize hk : popcount (w % 2 ^ (index % 64)) = c at hf1 hf2
          have hc : c ≤ 64 := by rw [← hk]; exact popcount_le _
          have hcv : Go.conv 64 true 32 c = c := by rw [conv_narrow _ _ _ _ (by omega)]; omega
          have hadd : Go.add 32 r c = r + c := add_small (by omega)
          have hadd' : Go.add 32 c r = r + c := by rw [add_small (by omega)]; omega
          simp only [hcv, hadd, hadd']
          cases hps : va.positionBM with
          | none =>
            have hf := hf2 hps
            have hmul : Go.mul 32 (r + c) va.fixedSize = (r + c) * va.fixedSize := mul_small (by omega)
            have hmul' : Go.mul 32 va.fixedSize (r + c) = (r + c) * va.fixedSize := by
              rw [mul_small (by rw [Nat.mul_comm]; omega), Nat.mul_comm]
            have hadd2 : Go.add 32 ((r + c) * va.fixedSize) va.fixedSize = (r + c) * va.fixedSize + va.fixedSize :=
              add_small (by omega)
            have hadd2' : Go.add 32 va.fixedSize ((r + c) * va.fixedSize) = (r + c) * va.fixedSize + va.fixedSize := by
              rw [add_small (by omega)]; omega
            simp [hmul, hmul', hadd2, hadd2', sliceS_sem _ _ _ (show (r + c) * va.fixedSize < 2 ^ 31 by omega)
              (show (r + c) * va.fixedSize + va.fixedSize < 2 ^ 31 by omega)]
          | some pos =>
            have hl := hpos pos hps
            simp only [Option.map_some, Option.isNone_some, Option.isSome_some, Bool.false_eq_true, if_false, if_true,
              Option.bind_some, absBitmap, Bool.not_true, Bool.not_false,
              select32R64_sem pos (r + c) hf1 (by omega)]
            cases hsel : Bits.select32R64 pos (r + c) with
            | error e => simp [okOpt, Except.toOption, bind, Except.bind]
            | ok ab =>
              obtain ⟨a, b⟩ := ab
              obtain ⟨ha, hb'⟩ := select32R64_bounds pos (r + c) a b hsel
              simp [okOpt_ok, sliceS_sem va.bytes a b (by omega) (by omega), bind, Except.bind]

/-! non-vacuity: the array of `[[1,2],[],[3]]` (var-length) and of `[[7],[],[9]]` (fixed size) -/

def exVar : VLenArrayMsg :=
  { n := 3, eltCnt := 2, presenceBM := some { words := [0b101], rankIndex := [0] },
    positionBM := some { words := [0b1101], rankIndex := [0, 3], selectIndex := [0] }, bytes := [1, 2, 3] }

def exFixed : VLenArrayMsg :=
  { n := 3, eltCnt := 2, presenceBM := some { words := [0b101], rankIndex := [0] }, fixedSize := 1, bytes := [7, 9] }

example : W.VLenArray.get (absVLen exVar) 2 = some [3] := by decide
example : W.VLenArray.get (absVLen exVar) 1 = some [] := by decide
example : W.VLenArray.get (absVLen exVar) 3 = none := by decide
example : W.VLenArray.get (absVLen exFixed) 2 = some [9] := by decide
example : (okOpt (Slim.vlenGet exVar 2)).map natBytes = some [3] := by decide
example : exVar.WF := by
  refine ⟨by decide, by decide, by decide, ?_, ?_⟩ <;>
  · intro b hb; cases hb; refine ⟨?_, ?_, ?_⟩ <;> decide
example : VLenGetFits exVar 2 := by
  intro pres w r hp hw hr
  cases hp; cases hw; cases hr
  exact ⟨by decide, by intro h; cases h⟩

end BridgeSem

#print axioms BridgeSem.VLenArray_get_sem
