import SlimProofs.Order
/-
  SlimProofs.Runs — facts about the pieces of `buildStep`:
  `scanWhile`, `childRuns`, `dedupAdj`, `keptLabels`, `minLcp`, and `labelAt`.
-/

/-! ### `scanWhile` -/

theorem scanWhile_ge (p : Nat → Bool) (n s : Nat) : s ≤ scanWhile p n s := by
  induction n generalizing s with
  | zero => simp [scanWhile]
  | succ n ih =>
    simp only [scanWhile]
    split
    · have := ih (s + 1); omega
    · omega

theorem scanWhile_le (p : Nat → Bool) (n s : Nat) : scanWhile p n s ≤ s + n := by
  induction n generalizing s with
  | zero => simp [scanWhile]
  | succ n ih =>
    simp only [scanWhile]
    split
    · have := ih (s + 1); omega
    · omega

/-- everything skipped satisfies `p` -/
theorem scanWhile_all (p : Nat → Bool) (n s t : Nat) (h1 : s ≤ t) (h2 : t < scanWhile p n s) :
    p t = true := by
  induction n generalizing s with
  | zero => simp only [scanWhile] at h2; omega
  | succ n ih =>
    simp only [scanWhile] at h2
    split at h2
    · next hp =>
      by_cases hts : t = s
      · rw [hts]; exact hp
      · exact ih (s + 1) (by omega) h2
    · omega

/-- if the scan stops early, it stops at an element that fails `p` -/
theorem scanWhile_stop (p : Nat → Bool) (n s : Nat) (h : scanWhile p n s < s + n) :
    p (scanWhile p n s) = false := by
  induction n generalizing s with
  | zero => simp only [scanWhile] at h; omega
  | succ n ih =>
    simp only [scanWhile] at h ⊢
    split
    · next hp =>
      rw [if_pos hp] at h
      exact ih (s + 1) (by omega)
    · next hp => simpa using hp

/-! ### `dedupAdj` -/

theorem mem_dedupAdj {l : List Nat} {x : Nat} : x ∈ dedupAdj l ↔ x ∈ l := by
  fun_induction dedupAdj l with
  | case1 a rest ih =>
    rw [ih]; simp
  | case2 a b rest h ih =>
    simp only [List.mem_cons] at ih ⊢
    rw [ih]
  | case3 l h => rfl

theorem dedupAdj_pairwise_lt {l : List Nat} (h : l.Pairwise (· ≤ ·)) :
    (dedupAdj l).Pairwise (· < ·) := by
  fun_induction dedupAdj l with
  | case1 a rest ih =>
    exact ih (List.Pairwise.of_cons h)
  | case2 a b rest hab ih =>
    rw [List.pairwise_cons] at h ⊢
    refine ⟨?_, ih h.2⟩
    intro x hx
    rw [mem_dedupAdj] at hx
    have h1 : a ≤ b := h.1 b (by simp)
    have h2 : b ≤ x := by
      rcases List.mem_cons.mp hx with rfl | hx'
      · exact Nat.le_refl _
      · exact (List.pairwise_cons.mp h.2).1 x hx'
    omega
  | case3 l hl =>
    match l, hl with
    | [], _ => exact List.Pairwise.nil
    | [a], _ => exact List.pairwise_singleton _ _
    | a :: b :: rest, hl => exact absurd rfl (hl a b rest)

/-! ### `keptLabels` -/

theorem mem_keptLabels {c : BCtx} {s e ws : Nat} {big : Bool} {l : Nat} :
    l ∈ keptLabels c s e ws big ↔
      ∃ t, s ≤ t ∧ t < e ∧ c.keep.getD t false = true ∧ keyLabel c ws big t = l := by
  simp only [keptLabels, mem_dedupAdj, List.mem_map, List.mem_filter, List.mem_range'_1]
  constructor
  · rintro ⟨t, ⟨⟨h1, h2⟩, h3⟩, h4⟩
    exact ⟨t, h1, by omega, h3, h4⟩
  · rintro ⟨t, h1, h2, h3, h4⟩
    exact ⟨t, ⟨⟨h1, by omega⟩, h3⟩, h4⟩

theorem keptLabels_pairwise {c : BCtx} {s e ws : Nat} {big : Bool}
    (hmono : ∀ a b, s ≤ a → a ≤ b → b < e → keyLabel c ws big a ≤ keyLabel c ws big b) :
    (keptLabels c s e ws big).Pairwise (· < ·) := by
  apply dedupAdj_pairwise_lt
  rw [List.pairwise_map]
  apply List.Pairwise.filter
  have h := List.pairwise_lt_range' (s := s) (n := e - s) (step := 1) (by omega)
  refine List.Pairwise.imp_of_mem ?_ h
  intro a b ha hb hab
  rw [List.mem_range'_1] at ha hb
  exact hmono a b ha.1 (by omega) (by omega)

/-! ### `childRuns` -/

theorem childRuns_cons (lab : Nat → Nat) (e l : Nat) (ls : List Nat) (s : Nat) :
    childRuns lab e (l :: ls) s =
      (l, scanWhile (fun t => lab t != l) (e - s) s,
        scanWhile (fun t => lab t == l) (e - (scanWhile (fun t => lab t != l) (e - s) s + 1))
          (scanWhile (fun t => lab t != l) (e - s) s + 1)) ::
      childRuns lab e ls
        (scanWhile (fun t => lab t == l) (e - (scanWhile (fun t => lab t != l) (e - s) s + 1))
          (scanWhile (fun t => lab t != l) (e - s) s + 1)) := rfl

theorem childRuns_map_fst (lab : Nat → Nat) (e : Nat) (labels : List Nat) (s : Nat) :
    (childRuns lab e labels s).map (·.1) = labels := by
  induction labels generalizing s with
  | nil => rfl
  | cons l ls ih => rw [childRuns_cons, List.map_cons, ih]

theorem childRuns_length (lab : Nat → Nat) (e : Nat) (labels : List Nat) (s : Nat) :
    (childRuns lab e labels s).length = labels.length := by
  have := congrArg List.length (childRuns_map_fst lab e labels s)
  simpa using this

theorem childRuns_fst_mem {lab : Nat → Nat} {e : Nat} {labels : List Nat} {s : Nat}
    {x : Nat × Nat × Nat} (hx : x ∈ childRuns lab e labels s) : x.1 ∈ labels := by
  rw [← childRuns_map_fst lab e labels s]
  exact List.mem_map_of_mem hx

theorem childRuns_getElem_fst (lab : Nat → Nat) (e : Nat) (labels : List Nat) (s k : Nat)
    (hk : k < (childRuns lab e labels s).length) :
    ((childRuns lab e labels s)[k]).1 = labels[k]'(by rw [← childRuns_length lab e labels s]; exact hk) := by
  have h := childRuns_map_fst lab e labels s
  have : ((childRuns lab e labels s).map (·.1))[k]'(by simpa using hk) = labels[k]'(by
      rw [← childRuns_length lab e labels s]; exact hk) := by
    simp only [h]
  simpa using this

/-- a run `(l, s', j)` found inside `[s,e)`: non-empty, inside, and exactly the keys of label `l` -/
structure RunOK (lab : Nat → Nat) (s e : Nat) (x : Nat × Nat × Nat) : Prop where
  ge : s ≤ x.2.1
  lt : x.2.1 < x.2.2
  le : x.2.2 ≤ e
  iff : ∀ t, s ≤ t → t < e → ((x.2.1 ≤ t ∧ t < x.2.2) ↔ lab t = x.1)

theorem childRuns_spec (lab : Nat → Nat) (e : Nat) (labels : List Nat) (s : Nat)
    (hmono : ∀ a b, s ≤ a → a ≤ b → b < e → lab a ≤ lab b)
    (hasc : labels.Pairwise (· < ·))
    (hcar : ∀ l ∈ labels, ∃ t, s ≤ t ∧ t < e ∧ lab t = l) :
    ∀ x ∈ childRuns lab e labels s, RunOK lab s e x := by
  induction labels generalizing s with
  | nil => intro x hx; simp [childRuns] at hx
  | cons l ls ih =>
    rw [childRuns_cons]
    generalize hs' : scanWhile (fun t => lab t != l) (e - s) s = s'
    generalize hj : scanWhile (fun t => lab t == l) (e - (s' + 1)) (s' + 1) = j
    -- facts about s'
    obtain ⟨t0, ht0s, ht0e, ht0l⟩ := hcar l (by simp)
    have hs's : s ≤ s' := by rw [← hs']; exact scanWhile_ge _ _ _
    have hbefore : ∀ t, s ≤ t → t < s' → lab t ≠ l := by
      intro t h1 h2
      have := scanWhile_all (fun t => lab t != l) (e - s) s t h1 (by rw [hs']; exact h2)
      simpa using this
    have hs't0 : s' ≤ t0 := by
      apply Nat.le_of_not_lt
      intro hlt
      exact hbefore t0 ht0s hlt ht0l
    have hs'e : s' < e := by omega
    have hlabs' : lab s' = l := by
      have := scanWhile_stop (fun t => lab t != l) (e - s) s (by rw [hs']; omega)
      rw [hs'] at this
      simpa using this
    -- facts about j
    have hjge : s' + 1 ≤ j := by rw [← hj]; exact scanWhile_ge _ _ _
    have hjle : j ≤ e := by
      have := scanWhile_le (fun t => lab t == l) (e - (s' + 1)) (s' + 1)
      rw [hj] at this; omega
    have hin : ∀ t, s' ≤ t → t < j → lab t = l := by
      intro t h1 h2
      by_cases hts : t = s'
      · rw [hts]; exact hlabs'
      · have := scanWhile_all (fun t => lab t == l) (e - (s' + 1)) (s' + 1) t (by omega)
          (by rw [hj]; exact h2)
        simpa using this
    have hlabj : j < e → lab j ≠ l := by
      intro hlt
      have := scanWhile_stop (fun t => lab t == l) (e - (s' + 1)) (s' + 1) (by rw [hj]; omega)
      rw [hj] at this
      simpa using this
    have hbelow : ∀ t, s ≤ t → t < j → lab t ≤ l := by
      intro t h1 h2
      by_cases hts : t < s'
      · have := hmono t s' h1 (by omega) hs'e
        omega
      · have := hin t (by omega) h2; omega
    have hafter : ∀ t, j ≤ t → t < e → l < lab t := by
      intro t h1 h2
      have hj1 := hlabj (by omega)
      have hj2 := hmono s' j hs's (by omega) (by omega)
      have hj3 := hmono j t (by omega) h1 h2
      omega
    intro x hx
    rcases List.mem_cons.mp hx with rfl | hx
    · refine ⟨hs's, by simp only; omega, hjle, ?_⟩
      intro t h1 h2
      simp only
      constructor
      · rintro ⟨h3, h4⟩; exact hin t h3 h4
      · intro h3
        refine ⟨?_, ?_⟩
        · apply Nat.le_of_not_lt; intro hlt; exact hbefore t h1 hlt h3
        · apply Nat.lt_of_not_le; intro hle
          have := hafter t hle h2; omega
    · have hxl : l < x.1 := (List.pairwise_cons.mp hasc).1 _ (childRuns_fst_mem hx)
      have := ih j (fun a b h1 h2 h3 => hmono a b (by omega) h2 h3) (List.Pairwise.of_cons hasc)
        (by
          intro l' hl'
          obtain ⟨t, h1, h2, h3⟩ := hcar l' (by simp [hl'])
          have hll' : l < l' := (List.pairwise_cons.mp hasc).1 _ hl'
          refine ⟨t, ?_, h2, h3⟩
          apply Nat.le_of_not_lt; intro hlt
          have := hbelow t h1 hlt; omega) x hx
      refine ⟨by have := this.ge; omega, this.lt, this.le, ?_⟩
      intro t h1 h2
      by_cases htj : j ≤ t
      · exact this.iff t htj h2
      · have h3 := hbelow t h1 (by omega)
        have h4 := this.ge
        constructor
        · rintro ⟨h5, _⟩; omega
        · intro h5; omega

/-! ### `minLcp` -/

theorem foldl_min_le_init (l : List Nat) (i : Nat) : l.foldl min i ≤ i := by
  induction l generalizing i with
  | nil => simp
  | cons x xs ih =>
    simp only [List.foldl_cons]
    have := ih (min i x)
    omega

theorem foldl_min_le_mem (l : List Nat) (i x : Nat) (hx : x ∈ l) : l.foldl min i ≤ x := by
  induction l generalizing i with
  | nil => simp at hx
  | cons y ys ih =>
    simp only [List.foldl_cons]
    rcases List.mem_cons.mp hx with rfl | h
    · have := foldl_min_le_init ys (min i x); omega
    · exact ih _ h

/-- `minLcp` is a lower bound of the first-difference positions of all adjacent pairs of `[s,e)` -/
theorem minLcp_le (c : BCtx) (s e t : Nat) (h1 : s ≤ t) (h2 : t + 1 < e) :
    minLcp c s e ≤ c.lcps.getD t 0 := by
  unfold minLcp
  by_cases hts : t = s
  · rw [hts]; exact foldl_min_le_init _ _
  · apply foldl_min_le_mem
    rw [List.mem_map]
    refine ⟨t, ?_, rfl⟩
    rw [List.mem_range'_1]
    omega

/-- if `m` is at most the lcp of every adjacent pair of `[s,e)`, then every key of `[s,e)` is at
    least `m` long and agrees with key `s` on its first `m` entries -/
theorem common_prefix_of_le_lcp (kn : Nat → List Nat) (s e m : Nat) (hse : s + 2 ≤ e)
    (h : ∀ t, s ≤ t → t + 1 < e → m ≤ lcp (kn t) (kn (t + 1))) :
    ∀ t, s ≤ t → t < e → m ≤ (kn t).length ∧ (kn t).take m = (kn s).take m := by
  intro t h1 h2
  constructor
  · by_cases h3 : t + 1 < e
    · exact Nat.le_trans (h t h1 h3) (lcp_le_left _ _)
    · have h4 := h (t - 1) (by omega) (by omega)
      have h5 := lcp_le_right (kn (t - 1)) (kn (t - 1 + 1))
      have h6 : t - 1 + 1 = t := by omega
      rw [h6] at h4 h5
      omega
  · obtain ⟨d, rfl⟩ : ∃ d, t = s + d := ⟨t - s, by omega⟩
    induction d with
    | zero => rfl
    | succ d ih =>
      have h3 := ih (by omega) (by omega)
      have h4 := take_eq_of_le_lcp (h (s + d) (by omega) (by omega))
      rw [← h3, h4]
      rfl

/-! ### `labelAt` -/

theorem labelAt_drop (k : List Nat) (ws : Nat) (big : Bool) :
    labelAt k ws big = labelAt (k.drop ws) 0 big := by
  simp [labelAt, List.getD_eq_getElem?_getD]

theorem labelAt_eq_zero_iff {k : List Nat} {ws : Nat} {big : Bool} :
    labelAt k ws big = 0 ↔ k.length ≤ ws := by
  unfold labelAt
  split
  · next h => rw [List.getElem?_eq_none_iff] at h; simp [h]
  · next a h =>
    have := (List.getElem?_eq_some_iff.mp h).1
    constructor
    · split <;> omega
    · omega

/-- the label is monotone in the (half-byte) lexicographic order -/
theorem labelAt_zero_mono {x y : List Nat} (hx : ∀ a ∈ x, a < 16) (h : lexCmp x y = .lt)
    (big : Bool) : labelAt x 0 big ≤ labelAt y 0 big := by
  match x, y with
  | [], _ => simp [labelAt]
  | a :: xs, [] => simp [lexCmp] at h
  | a :: xs, b :: ys =>
    simp only [lexCmp] at h
    have hxs : xs.getD 0 0 < 16 := by
      cases xs with
      | nil => simp
      | cons a' _ => simpa using hx a' (by simp)
    simp only [labelAt, List.getElem?_cons_zero, Nat.zero_add, List.getD_cons_succ]
    split at h
    · split <;> omega
    · split at h
      · cases h
      · have hab : a = b := by omega
        subst hab
        cases big with
        | false => simp
        | true =>
          simp only [if_true]
          match xs, ys with
          | [], _ => simp
          | a' :: _, [] => simp [lexCmp] at h
          | a' :: _, b' :: _ =>
            simp only [lexCmp] at h
            simp only [List.getD_cons_zero]
            split at h
            · omega
            · split at h
              · cases h
              · omega

/-- for keys in lexicographic order that agree before `ws`, the labels at `ws` are in order -/
theorem labelAt_mono {a b : List Nat} {ws : Nat} (ha : ∀ x ∈ a, x < 16)
    (hlt : lexCmp a b = .lt) (htake : a.take ws = b.take ws) (big : Bool) :
    labelAt a ws big ≤ labelAt b ws big := by
  rw [labelAt_drop a, labelAt_drop b]
  apply labelAt_zero_mono
  · intro x hx; exact ha x (List.mem_of_mem_drop hx)
  · rw [← lexCmp_drop ws htake]; exact hlt

theorem getD_lt16 {a : List Nat} (ha : ∀ x ∈ a, x < 16) (i : Nat) : a.getD i 0 < 16 := by
  rw [List.getD_eq_getElem?_getD]
  cases h : a[i]? with
  | none => simp
  | some v => simpa using ha v (List.mem_of_getElem? h)

/-- equal 4-bit labels: same half-byte (or both keys end) -/
theorem labelAt_small_inj {a b : List Nat} {ws : Nat}
    (h : labelAt a ws false = labelAt b ws false) : a[ws]? = b[ws]? := by
  unfold labelAt at h
  cases ha : a[ws]? <;> cases hb : b[ws]? <;> simp [ha, hb] at h ⊢ <;> omega

/-- equal 8-bit labels: same two half-bytes -/
theorem labelAt_big_inj {a b : List Nat} {ws : Nat} (ha : ∀ x ∈ a, x < 16) (hb : ∀ x ∈ b, x < 16)
    (h : labelAt a ws true = labelAt b ws true) :
    a[ws]? = b[ws]? ∧ a.getD (ws + 1) 0 = b.getD (ws + 1) 0 := by
  unfold labelAt at h
  have h1 := getD_lt16 ha (ws + 1)
  have h2 := getD_lt16 hb (ws + 1)
  cases hga : a[ws]? <;> cases hgb : b[ws]? <;> simp only [hga, hgb, if_true] at h ⊢
  · exact ⟨trivial, by
      have := List.getElem?_eq_none_iff.mp hga
      have := List.getElem?_eq_none_iff.mp hgb
      rw [List.getD_eq_getElem?_getD, List.getD_eq_getElem?_getD,
        List.getElem?_eq_none (by omega), List.getElem?_eq_none (by omega)]⟩
  · omega
  · omega
  · constructor
    · congr 1; omega
    · omega

/-- keys with the same label at `ws` that agree before `ws` agree up to behind the label, and
    are long enough to contain it (for 8-bit labels: at an even position of an even-length key) -/
theorem take_label_eq {a b : List Nat} {ws : Nat} {big : Bool}
    (ha : ∀ x ∈ a, x < 16) (hb : ∀ x ∈ b, x < 16)
    (hea : big = true → a.length % 2 = 0) (heb : big = true → b.length % 2 = 0)
    (hws : big = true → ws % 2 = 0)
    (htake : a.take ws = b.take ws)
    (hlab : labelAt a ws big = labelAt b ws big) :
    a.take (ws + labelLen (labelAt a ws big) big) = b.take (ws + labelLen (labelAt a ws big) big) := by
  unfold labelLen
  split
  · simpa using htake
  · next hne =>
    have hla : ¬ a.length ≤ ws := fun hle => hne (labelAt_eq_zero_iff.mpr hle)
    have hlb : ¬ b.length ≤ ws := fun hle => hne (hlab ▸ labelAt_eq_zero_iff.mpr hle)
    cases big with
    | false =>
      simp only [Bool.false_eq_true, if_false]
      rw [List.take_add_one, List.take_add_one, htake, labelAt_small_inj hlab]
    | true =>
      simp only [if_true]
      have := hea rfl; have := heb rfl; have := hws rfl
      obtain ⟨h1, h2⟩ := labelAt_big_inj ha hb hlab
      have h3 : a[ws + 1]? = b[ws + 1]? := by
        rw [List.getD_eq_getElem?_getD, List.getD_eq_getElem?_getD] at h2
        rw [List.getElem?_eq_getElem (by omega), List.getElem?_eq_getElem (by omega)] at h2 ⊢
        simpa using h2
      show List.take (ws + 1 + 1) a = List.take (ws + 1 + 1) b
      rw [List.take_add_one, List.take_add_one, List.take_add_one, List.take_add_one, htake, h1, h3]

/-- a key is long enough to contain its label -/
theorem label_long {a : List Nat} {ws : Nat} {big : Bool}
    (hea : big = true → a.length % 2 = 0) (hws : big = true → ws % 2 = 0)
    (hlen : ws ≤ a.length) :
    ws + labelLen (labelAt a ws big) big ≤ a.length := by
  unfold labelLen
  split
  · omega
  · next hne =>
    have hla : ¬ a.length ≤ ws := fun hle => hne (labelAt_eq_zero_iff.mpr hle)
    cases big with
    | false => simp only [Bool.false_eq_true, if_false]; omega
    | true =>
      simp only [if_true]
      have := hea rfl; have := hws rfl
      omega
