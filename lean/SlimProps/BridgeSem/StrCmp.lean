import Generated.Funcs
import SlimProps.BridgeSem.Common
import SlimModel.Query
import SlimModel.Slim
import SlimProofs.Order
/-
  SlimProps.BridgeSem.StrCmp — tie 1, semantic part: trie/strcmp.go.

  * `cmpStrBytes_sem`   `cmpStrBytes(a, b)` (a not longer than b) is the lexicographic comparison
                        `lexCmp` of the byte strings, as -1 / 0 / 1.
  * `strCmpUpto_sem`    `strCmpUpto(key[i>>3:], prefix)` with `prefix = bitstr.New` of the stored
                        half-bytes `p` (`Slim.bitstrOf p`: payload bytes ‖ mask byte 0xff / 0xf0) is
                        the model's `cmpUpto (nibs a) p` (SlimModel/Query.lean): the comparison of
                        the key's half-bytes with the stored inner prefix, up to its length.

  The loop of `cmpStrBytes` returns from inside the loop: its generated definition yields
  `state × Option result`.  No external calls.  Lengths fit an `int` (explicit hypotheses).
  See SlimProps/BridgeSem.lean for the overview.
-/

set_option linter.unusedSimpArgs false

open Generated

namespace BridgeSem

/-- a Go `int` comparison result (-1, 0, 1) as a bit pattern / as an integer -/
def ordPat : Ordering → Nat
  | .lt => 18446744073709551615
  | .eq => 0
  | .gt => 1

def ordInt : Ordering → Int
  | .lt => -1
  | .eq => 0
  | .gt => 1

theorem toS_ordPat (o : Ordering) : Go.toS 64 (ordPat o) = ordInt o := by
  cases o <;> decide

theorem ordPat_eq_zero (o : Ordering) : ordPat o = 0 ↔ o = .eq := by
  cases o <;> simp [ordPat]

/-! ### `cmpStrBytes` -/

/-- what the loop of `cmpStrBytes` returns early, on the not yet compared tails -/
def firstDiff : List Nat → List Nat → Option Nat
  | [], _ => none
  | x :: xs, ys =>
    if x < ys.getD 0 0 then some 18446744073709551615
    else if ys.getD 0 0 < x then some 1
    else firstDiff xs (ys.drop 1)

theorem getD_drop (l : List Nat) (i : Nat) : (l.drop i).getD 0 0 = l.getD i 0 := by
  simp [List.getD_eq_getElem?_getD]

theorem cmpLoop_spec (a b : List Nat) (hla : a.length < 2 ^ 63) :
    ∀ fuel i, i ≤ a.length → a.length - i ≤ fuel →
      (Generated.cmpStrBytes_loop1 a b fuel i).2 = firstDiff (a.drop i) (b.drop i) := by
  intro fuel
  induction fuel with
  | zero =>
    intro i h1 h2
    have : i = a.length := by omega
    subst this
    simp [Generated.cmpStrBytes_loop1, firstDiff]
  | succ fuel ih =>
    intro i h1 h2
    rw [Generated.cmpStrBytes_loop1]
    rw [ltS_small (by omega) (by omega)]
    by_cases hlt : i < a.length
    · rw [List.drop_eq_getElem_cons hlt, firstDiff, getD_drop]
      have hget : a.getD i 0 = a[i] := by
        rw [List.getD_eq_getElem?_getD, List.getElem?_eq_getElem hlt]; rfl
      simp only [hlt, decide_true, if_true, Go.ltU, hget, decide_eq_true_eq]
      split
      · rfl
      · split
        · rfl
        · rw [add_small (by omega), ih (i + 1) (by omega) (by omega), List.drop_drop]
    · have : i = a.length := by omega
      subst this
      simp [firstDiff]

theorem firstDiff_lexCmp (a b : List Nat) (h : a.length ≤ b.length) :
    (match firstDiff a b with
      | some r => r
      | none => if a.length < b.length then 18446744073709551615 else 0) = ordPat (lexCmp a b) := by
  induction a generalizing b with
  | nil =>
    cases b with
    | nil => rfl
    | cons y ys => simp [firstDiff, lexCmp, ordPat]
  | cons x xs ih =>
    cases b with
    | nil => simp at h
    | cons y ys =>
      simp only [firstDiff, List.getD_cons_zero, lexCmp, List.drop_succ_cons, List.drop_zero,
        List.length_cons]
      by_cases h1 : x < y
      · simp only [h1, if_true]; rfl
      · by_cases h2 : y < x
        · simp only [h1, h2, if_true, if_false]; rfl
        · simp only [h1, h2, if_false, Nat.add_lt_add_iff_right]
          exact ih ys (by simpa using h)

/-- **`cmpStrBytes`** on a string that is not longer than the byte slice: the lexicographic order. -/
theorem cmpStrBytes_pat_sem (a b : List Nat) (h : a.length ≤ b.length) (hlb : b.length < 2 ^ 63) :
    Generated.cmpStrBytes_pat a b = ordPat (lexCmp a b) := by
  unfold Generated.cmpStrBytes_pat
  simp only
  rw [cmpLoop_spec a b (by omega) a.length 0 (by omega) (by omega), List.drop_zero, List.drop_zero,
    ← firstDiff_lexCmp a b h]
  cases firstDiff a b with
  | some r => rfl
  | none =>
    simp only
    rw [ltS_small (by omega) (by omega)]
    by_cases hl : a.length < b.length <;> simp [hl]

theorem cmpStrBytes_sem (a b : List Nat) (h : a.length ≤ b.length) (hlb : b.length < 2 ^ 63) :
    Generated.cmpStrBytes a b = ordInt (lexCmp a b) := by
  unfold Generated.cmpStrBytes
  simp only
  rw [cmpStrBytes_pat_sem a b h hlb, toS_ordPat]

/-! ### lexicographic comparison of composed lists -/

theorem lexCmp_append_of_length_eq (x1 y1 x2 y2 : List Nat) (h : x1.length = y1.length) :
    lexCmp (x1 ++ x2) (y1 ++ y2) = (lexCmp x1 y1).then (lexCmp x2 y2) := by
  induction x1 generalizing y1 with
  | nil =>
    cases y1 with
    | nil => simp [lexCmp, Ordering.then]
    | cons _ _ => simp at h
  | cons a as ih =>
    cases y1 with
    | nil => simp at h
    | cons b bs =>
      simp only [List.cons_append, lexCmp]
      by_cases h1 : a < b
      · simp [h1, Ordering.then]
      · by_cases h2 : b < a
        · simp [h1, h2, Ordering.then]
        · simp only [h1, h2, if_false]
          exact ih bs (by simpa using h)

theorem lexCmp_append_right_of_lt (x p pad : List Nat) (h : x.length < p.length) :
    lexCmp x (p ++ pad) = lexCmp x p := by
  induction x generalizing p with
  | nil =>
    cases p with
    | nil => simp at h
    | cons _ _ => rfl
  | cons a as ih =>
    cases p with
    | nil => simp at h
    | cons b bs =>
      simp only [List.cons_append, lexCmp]
      rw [ih bs (by simpa using h)]

theorem then_eq_right (o : Ordering) : o.then .eq = o := by cases o <;> rfl

/-! ### half-bytes of composed byte strings -/

theorem nibs_append (x y : Bytes) : nibs (x ++ y) = nibs x ++ nibs y := by
  induction x with
  | nil => rfl
  | cons b bs ih => simp [nibs, ih]

theorem nibs_take_even (a : Bytes) (k : Nat) : (nibs a).take (2 * k) = nibs (a.take k) := by
  induction a generalizing k with
  | nil => simp [nibs]
  | cons b bs ih =>
    cases k with
    | zero => simp [nibs]
    | succ k =>
      have : 2 * (k + 1) = (2 * k + 1) + 1 := by omega
      rw [this]
      simp only [nibs, List.take_succ_cons, ih]

/-- the padding half-byte of an odd-length prefix is zero -/
theorem nibs_unnibs (p : List Nat) (h : ∀ x ∈ p, x < 16) :
    nibs (unnibs p) = p ++ (if p.length % 2 = 0 then [] else [0]) := by
  fun_induction unnibs p with
  | case1 => rfl
  | case2 a =>
    have ha : a < 16 := h a (by simp)
    simp only [nibs, UInt8.toNat_ofNat', List.length_singleton]
    simp
    omega
  | case3 a b rest ih =>
    have ha : a < 16 := h a (by simp)
    have hb : b < 16 := h b (by simp)
    have e : (a :: b :: rest).length % 2 = rest.length % 2 := by simp only [List.length_cons]; omega
    simp only [nibs, UInt8.toNat_ofNat', e, List.cons_append]
    rw [ih (fun x hx => h x (by simp [hx]))]
    congr 1
    · omega
    · congr 1; omega

theorem unnibs_length' (ns : List Nat) : (unnibs ns).length = (ns.length + 1) / 2 := by
  fun_induction unnibs ns with
  | case1 => rfl
  | case2 a => simp
  | case3 a b rest ih => simp only [List.length_cons, ih]; omega

set_option maxRecDepth 100000 in
theorem and_240 : ∀ x, x < 256 → x &&& 240 = x / 16 * 16 := by decide

theorem and_255_lt (x : Nat) (h : x < 256) : x &&& 255 = x := by rw [and_255]; omega

/-! ### `strCmpUpto` -/

theorem map_getD (a : Bytes) (i : Nat) (h : i < a.length) : (a.map UInt8.toNat).getD i 0 = a[i].toNat := by
  rw [List.getD_eq_getElem?_getD, List.getElem?_map, List.getElem?_eq_getElem h]; rfl

theorem lexCmp_single (u v : Nat) :
    lexCmp [u] [v] = if u < v then .lt else if v < u then .gt else .eq := by
  simp [lexCmp]

/-- **`strCmpUpto(a, b)`** with `b = bitstr.New` of the stored half-bytes `p` is the model's
    `cmpUpto (nibs a) p`: the half-byte comparison of the key with the stored inner prefix, up to
    the length of the prefix. -/
theorem strCmpUpto_sem (a : Bytes) (p : List Nat) (hp : ∀ x ∈ p, x < 16)
    (hla : a.length < 2 ^ 62) (hlp : p.length < 2 ^ 62) :
    Generated.strCmpUpto (a.map UInt8.toNat) ((Slim.bitstrOf p).map UInt8.toNat)
      = ordInt (cmpUpto (nibs a) p) := by
  -- the byte string b: payload ++ [mask]
  have hmlen := unnibs_length' p
  have hnib := nibs_unnibs p hp
  generalize hmask : (if p.length % 2 = 0 then 255 else 240 : Nat) = mask
  have hB : (Slim.bitstrOf p).map UInt8.toNat = (unnibs p).map UInt8.toNat ++ [mask] := by
    unfold Slim.bitstrOf
    rw [List.map_append, List.map_cons, List.map_nil, ← hmask]
    congr 2
    split <;> rfl
  generalize hP : unnibs p = P at hmlen hnib hB
  generalize hm : P.length = m at hmlen
  have hPl : (P.map UInt8.toNat).length = m := by simp [hm]
  have hAl : (a.map UInt8.toNat).length = a.length := by simp
  have hnl := nibs_length a
  rw [hB]
  unfold Generated.strCmpUpto cmpUpto
  simp only [List.length_append, List.length_cons, List.length_nil, hPl, hAl, Nat.zero_add]
  rcases Nat.eq_zero_or_pos m with hm0 | hmpos
  · -- empty prefix
    have hp0 : p = [] := by
      apply List.eq_nil_of_length_eq_zero; omega
    subst hm0 hp0
    simp [lexCmp, ordInt, toS_small]
  · have e1 : Go.sub 64 (m + 1) 1 = m := by rw [sub_small (by omega) (by omega)]; omega
    have e2 : Go.sub 64 (m + 1) 2 = m - 1 := by rw [sub_small (by omega) (by omega)]; omega
    have e3 : Go.sub 64 m 1 = m - 1 := by rw [sub_small (by omega) (by omega)]
    have hne : ((m + 1 == 1) = true) = False := by simp; omega
    simp only [e1, e2, e3, hne, if_false]
    rw [ltS_small (by omega) (by omega)]
    have htakeB : ((P.map UInt8.toNat) ++ [mask]).take m = P.map UInt8.toNat := by
      rw [List.take_left' hPl]
    by_cases hlt : a.length < m
    · -- the key ends inside the prefix
      simp only [hlt, decide_true, if_true, htakeB]
      rw [cmpStrBytes_pat_sem _ _ (by omega) (by omega), toS_ordPat, ← lexCmp_nibs, hnib,
        lexCmp_append_right_of_lt _ _ _ (by omega), List.take_of_length_le (by omega)]
    · -- all but the last byte of the prefix, then the masked last byte
      simp only [hlt, decide_false, Bool.false_eq_true, if_false]
      have hma : m - 1 < a.length := by omega
      have hmP : m - 1 < P.length := by omega
      have htakeB' : ((P.map UInt8.toNat) ++ [mask]).take (m - 1) = (P.take (m - 1)).map UInt8.toNat := by
        rw [List.take_append_of_le_length (by omega), List.map_take]
      have hgB1 : ((P.map UInt8.toNat) ++ [mask]).getD m 0 = mask := by
        rw [List.getD_eq_getElem?_getD, List.getElem?_append_right (by omega), hPl]; simp
      have hgB2 : ((P.map UInt8.toNat) ++ [mask]).getD (m - 1) 0 = P[m - 1].toNat := by
        rw [List.getD_eq_getElem?_getD, List.getElem?_append_left (by omega), ← List.getD_eq_getElem?_getD,
          map_getD P _ hmP]
      rw [htakeB', ← List.map_take, hgB1, hgB2, map_getD a _ hma,
        cmpStrBytes_pat_sem _ _ (by simp; omega) (by simp; omega)]
      -- the masked byte, as a byte
      have hx := byte_lt a[m - 1]
      generalize hxdef : a[m - 1].toNat = x at hx
      have hy : Go.and x mask < 256 := by
        show x &&& mask < 256
        rw [← hmask]; split
        · rw [and_255_lt x hx]; exact hx
        · rw [and_240 x hx]; omega
      have hcomm : Go.and mask x = Go.and x mask := Nat.and_comm mask x
      try simp only [hcomm]
      -- the composed lists
      have hPsplit : P = P.take (m - 1) ++ [P[m - 1]] := by
        have := List.take_append_drop (m - 1) P
        rw [List.drop_eq_getElem_cons hmP, List.drop_of_length_le (by omega)] at this
        exact this.symm
      let am : Bytes := a.take (m - 1) ++ [UInt8.ofNat (Go.and x mask)]
      have hamn : am.map UInt8.toNat = (a.take (m - 1)).map UInt8.toNat ++ [Go.and x mask] := by
        simp only [am, List.map_append, List.map_cons, List.map_nil, UInt8.toNat_ofNat']
        rw [Nat.mod_eq_of_lt hy]
      have hcomp : lexCmp (am.map UInt8.toNat) (P.map UInt8.toNat)
          = (lexCmp ((a.take (m - 1)).map UInt8.toNat) ((P.take (m - 1)).map UInt8.toNat)).then
              (lexCmp [Go.and x mask] [P[m - 1].toNat]) := by
        rw [hamn]
        conv => lhs; rhs; rw [hPsplit]
        rw [List.map_append, List.map_cons, List.map_nil,
          lexCmp_append_of_length_eq _ _ _ _ (by simp; omega)]
      -- the Go result is the byte-level comparison with the masked key; whatever the shape of the
      -- if-cascade: all cases of the three comparisons
      refine Eq.trans (b := ordInt (lexCmp (am.map UInt8.toNat) (P.map UInt8.toNat))) ?_ ?_
      · rw [hcomp, lexCmp_single]
        generalize lexCmp ((a.take (m - 1)).map UInt8.toNat) ((P.take (m - 1)).map UInt8.toNat) = c
        generalize Go.and x mask = z
        generalize P[m - 1].toNat = y
        have t0 : Go.toS 64 0 = 0 := by decide
        have t1 : Go.toS 64 1 = 1 := by decide
        have tm : Go.toS 64 18446744073709551615 = -1 := by decide
        have hcases : (z < y ∧ ¬ y < z ∧ ¬ z = y) ∨ (¬ z < y ∧ ¬ y < z ∧ z = y) ∨ (¬ z < y ∧ y < z ∧ ¬ z = y) := by
          omega
        cases c <;> rcases hcases with ⟨h1, h2, h3⟩ | ⟨h1, h2, h3⟩ | ⟨h1, h2, h3⟩ <;>
          simp [ordPat, ordInt, Ordering.then, Go.ltU, Go.leU, t0, t1, tm, h1, h2, h3]
      rw [← lexCmp_nibs, hnib]
      -- half-bytes of the masked key vs. the key's half-bytes up to the prefix length
      have hnam : nibs am = nibs (a.take (m - 1)) ++ [Go.and x mask / 16, Go.and x mask % 16] := by
        simp only [am, nibs_append, nibs, UInt8.toNat_ofNat']
        rw [Nat.mod_eq_of_lt hy]
      have hasplit : a.take m = a.take (m - 1) ++ [a[m - 1]] := by
        have h1 : m = (m - 1) + 1 := by omega
        conv => lhs; rw [h1, List.take_add_one, List.getElem?_eq_getElem hma]
        rfl
      have hnam' : nibs (a.take m) = nibs (a.take (m - 1)) ++ [x / 16, x % 16] := by
        rw [hasplit, nibs_append]; simp only [nibs, hxdef]
      rw [hnam]
      by_cases hev : p.length % 2 = 0
      · -- even: mask 0xff
        have hmk : mask = 255 := by rw [← hmask, if_pos hev]
        have hand : Go.and x mask = x := by show x &&& mask = x; rw [hmk, and_255_lt x hx]
        have hpl : p.length = 2 * m := by omega
        rw [hand, ← hnam', if_pos hev, List.append_nil, hpl, nibs_take_even]
      · -- odd: mask 0xf0, the padding half-byte is zero on both sides
        have hmk : mask = 240 := by rw [← hmask, if_neg hev]
        have hand : Go.and x mask = x / 16 * 16 := by show x &&& mask = _; rw [hmk, and_240 x hx]
        have hpl : p.length = 2 * (m - 1) + 1 := by omega
        have htk : (nibs a).take p.length = nibs (a.take (m - 1)) ++ [x / 16] := by
          have hl : (nibs (a.take (m - 1))).length = 2 * (m - 1) := by
            rw [nibs_length, List.length_take, Nat.min_eq_left (by omega)]
          have hsplit : nibs a = nibs (a.take (m - 1)) ++ (x / 16 :: x % 16 :: nibs (a.drop (m - 1 + 1))) := by
            conv => lhs; rw [← List.take_append_drop (m - 1) a, nibs_append, List.drop_eq_getElem_cons hma]
            simp only [nibs, hxdef]
          rw [hsplit, hpl, ← hl, List.take_length_add_append]
          rfl
        rw [hand, if_neg hev, htk]
        have e16 : x / 16 * 16 / 16 = x / 16 := by omega
        have e0 : x / 16 * 16 % 16 = 0 := by omega
        rw [e16, e0]
        have : nibs (a.take (m - 1)) ++ [x / 16, 0] = (nibs (a.take (m - 1)) ++ [x / 16]) ++ [0] := by simp
        rw [this, lexCmp_append_of_length_eq _ _ _ _ (by
          rw [List.length_append, nibs_length, List.length_take, Nat.min_eq_left (by omega)]
          simp; omega)]
        simp [lexCmp]

/-! non-vacuity: concrete inputs that satisfy the hypotheses; both sides compute -/
example : ((Slim.bitstrOf [1, 2, 3]).map UInt8.toNat) = [0x12, 0x30, 0xf0] := by decide
example : Generated.strCmpUpto [0x12, 0x3f] [0x12, 0x30, 0xf0] = 0 := by decide
example : cmpUpto (nibs [0x12, 0x3f]) [1, 2, 3] = .eq := by decide
example : Generated.strCmpUpto [0x12, 0x2f] [0x12, 0x30, 0xf0] = -1 := by decide
example : Generated.cmpStrBytes [1, 2] [1, 3] = -1 := by decide

end BridgeSem

#print axioms BridgeSem.cmpStrBytes_sem
#print axioms BridgeSem.strCmpUpto_sem
